import EqsigVerif.Prelude.Wire
import EqsigVerif.Prelude.NpS
import EqsigVerif.Prelude.NpT
import EqsigVerif.Prelude.NpV
import EqsigVerif.Model.Butter
import EqsigVerif.Model.CavDpFloat
/-!
# Driver handlers for the round-7 preludes (pseudo-property `PRELUDE`, DESIGN §3.2) — part S

The combinators added by the round-7 deliveries — `Prelude/NpS.lean` (tw_single2), `Prelude/NpT.lean` (tw_spec2),
`Prelude/NpV.lean` (tw_single3), the SciPy-internal stages of `Model/Butter.lean` (lw_butter) and the binary64 arithmetic
of `Model/CavDpFloat.lean` (lw_small) — are exposed here *unchanged*, so that `harness/prelude_check_s.py` can compare each of
them with the real NumPy / SciPy / Python expression named in its doc comment on every run.  All names are prefixed `np.s.`.

Conventions (those of `Handlers/Prelude.lean` / `PreludeE.lean`):
* exact combinators run at `Rat` (`Nat` / `Int` for index primitives);
* a possibly non-finite float (`NpS.Fl = Option Rat`) travels as the token `None` or a rational;
* an optional slice bound (`None | int`) travels as an EMPTY argument (`None`) or one integer token;
* the `Butter` stages run at the `Float` twin (`fnsFloat`, `Cx Float`); a complex array travels as two arguments (real parts,
  imaginary parts; floats as bit patterns), a zeros–poles–gain triple as `<z re…>|<z im…>|<p re…>|<p im…>|<k>`;
* a `CavDpFloat.Dy` (non-negative dyadic `m / 2^k`) travels as the two naturals `<m> <k>` and is returned as its exact rational value;
* a handler never invents behaviour the definition does not claim.
-/
namespace EqsigVerif.Handlers.PreludeS
open EqsigVerif EqsigVerif.Wire EqsigVerif.Cplx

/-! ### argument / result helpers -/

def parseFl (s : String) : Except String NpS.Fl :=
  if s = "None" then pure none else do let q ← parseRat s; pure (some q)
def fls (l : List String) : Except String (List NpS.Fl) := l.mapM parseFl
def fl1 (l : List String) : Except String NpS.Fl :=
  match l with | [x] => parseFl x | _ => throw "expected one float-or-None"
def showFl : NpS.Fl → String
  | some q => showRat q
  | none => "None"
def outFls (l : List NpS.Fl) : List String := l.map showFl

/-- an optional slice bound: no token = `None` -/
def optInt (l : List String) : Except String (Option Int) :=
  match l with
  | [] => pure none
  | [x] => do let i ← parseInt x; pure (some i)
  | _ => throw "expected at most one int"

/-- `nrows` rows of `ncols` entries each from a flat row-major list -/
def toRows (name : String) (nrows ncols : Nat) (flat : List Rat) : Except String (List (List Rat)) :=
  if flat.length ≠ nrows * ncols then throw s!"{name}: {flat.length} values for a {nrows} x {ncols} array"
  else pure ((List.range nrows).map (fun i => (flat.drop (i * ncols)).take ncols))

def cxs (name : String) (re im : List String) : Except String (List (Cx Float)) := do
  let re ← floats re; let im ← floats im
  if re.length ≠ im.length then throw s!"{name}: {re.length} real parts, {im.length} imaginary parts"
  else pure (List.zipWith (fun a b => (⟨a, b⟩ : Cx Float)) re im)

def outCxs (l : List (Cx Float)) : List (List String) := [outFloats (l.map (·.re)), outFloats (l.map (·.im))]

abbrev ZpkF := Model.Butter.Zpk Float (Cx Float)

def zpkArgs (name : String) (zr zi pr pi k : List String) : Except String ZpkF := do
  let z ← cxs name zr zi; let p ← cxs name pr pi; let k ← float1 k
  pure { z := z, p := p, k := k }

def outZpk (s : ZpkF) : List (List String) := outCxs s.z ++ outCxs s.p ++ [[showFloat s.k]]

def dy1 (l : List String) : Except String Model.CavDpFloat.Dy :=
  match l with
  | [m, k] => do let m ← parseNat m; let k ← parseNat k; pure ⟨m, k⟩
  | _ => throw "expected a dyadic '<m> <k>'"

def showDy (x : Model.CavDpFloat.Dy) : String := showRat x.toRat

/-! ### `Prelude/NpS.lean`: possibly non-finite floats -/

/-- `np.s.fadd|<a>|<b>` etc.: `NpS.fadd / fsub / fmul / fdiv` = `a + b`, `a - b`, `a * b`, `a / b` of NumPy scalars (`None` = non-finite) -/
def fl2H (name : String) (f : NpS.Fl → NpS.Fl → NpS.Fl) : Handler
  | [a, b] => do let a ← fl1 a; let b ← fl1 b; pure (.ok [[showFl (f a b)]])
  | _ => throw s!"{name}: expected 2 args"

/-- `np.s.finite|<l…>`: `NpS.finiteE` -/
def finiteH : Handler
  | [l] => do let l ← fls l; pure (ofExcept (fun (v : List Rat) => [outRats v]) (NpS.finiteE l))
  | _ => throw "np.s.finite: expected 1 arg"

/-! ### `Prelude/NpS.lean`: `int(·)` -/

/-- `np.s.trunc_z|<q>`: `NpS.truncZ` = `int(x)` -/
def truncZH : Handler
  | [q] => do let q ← rat1 q; pure (.ok [[toString (NpS.truncZ q)]])
  | _ => throw "np.s.trunc_z: expected 1 arg"

/-- `np.s.int_np_div|<a>|<b>` / `np.s.int_py_div|<a>|<b>`: `NpS.intNpDivE` / `NpS.intPyDivE` = `int(a / b)` -/
def intDivH (name : String) (f : Rat → Rat → Except ErrKind Int) : Handler
  | [a, b] => do let a ← rat1 a; let b ← rat1 b; pure (ofExcept (fun (i : Int) => [[toString i]]) (f a b))
  | _ => throw s!"{name}: expected 2 args"

/-! ### `Prelude/NpS.lean`: lazy properties -/

/-- `np.s.velo_disp|<values…>|<dt>`: `NpS.veloDispE` → `ok|<velocity…>|<displacement…>` / `err|ValueError` -/
def veloDispH : Handler
  | [v, dt] => do
    let v ← rats v; let dt ← rat1 dt
    pure (ofExcept (fun (r : List Rat × List Rat) => [outRats r.1, outRats r.2]) (NpS.veloDispE v dt))
  | _ => throw "np.s.velo_disp: expected 2 args"

/-- `<name>|<l…>` → `ok|<value>` / `err|<kind>` -/
def listRatEH (name : String) (f : List Rat → Except ErrKind Rat) : Handler
  | [l] => do let l ← rats l; pure (ofExcept (fun (v : Rat) => [[showRat v]]) (f l))
  | _ => throw s!"{name}: expected 1 arg"

/-- `np.s.time_arr|<n>|<dt>`: `NpS.timeArr` = `np.arange(0, n) * dt` -/
def timeArrH : Handler
  | [n, dt] => do let n ← nat1 n; let dt ← rat1 dt; pure (.ok [outRats (NpS.timeArr n dt)])
  | _ => throw "np.s.time_arr: expected 2 args"

/-! ### `Prelude/NpS.lean`: slices with optional bounds, in-place updates -/

/-- `np.s.lo_idx|<n>|<lo?>` / `np.s.hi_idx|<n>|<hi?>`: `NpS.loIdx` / `NpS.hiIdx` -/
def boundH (name : String) (f : Nat → Option Int → Nat) : Handler
  | [n, b] => do let n ← nat1 n; let b ← optInt b; pure (.ok [[toString (f n b)]])
  | _ => throw s!"{name}: expected 2 args"

/-- `np.s.slice_o|<a…>|<lo?>|<hi?>`: `NpS.sliceO` = `a[lo:hi]` -/
def sliceOH : Handler
  | [a, lo, hi] => do let a ← rats a; let lo ← optInt lo; let hi ← optInt hi; pure (.ok [outRats (NpS.sliceO a lo hi)])
  | _ => throw "np.s.slice_o: expected 3 args"

/-- `np.s.isub_scalar|<a…>|<lo?>|<hi?>|<d>`: `NpS.isubScalarE` = the array after `a[lo:hi] -= d` -/
def isubScalarH : Handler
  | [a, lo, hi, d] => do
    let a ← rats a; let lo ← optInt lo; let hi ← optInt hi; let d ← fl1 d
    pure (ofExcept (fun (v : List Rat) => [outRats v]) (NpS.isubScalarE a lo hi d))
  | _ => throw "np.s.isub_scalar: expected 4 args"

/-- `np.s.isub_array|<a…>|<lo?>|<hi?>|<d…>`: `NpS.isubArrayE` = the array after `a[lo:hi] -= d` for an array `d` -/
def isubArrayH : Handler
  | [a, lo, hi, d] => do
    let a ← rats a; let lo ← optInt lo; let hi ← optInt hi; let d ← fls d
    pure (ofExcept (fun (v : List Rat) => [outRats v]) (NpS.isubArrayE a lo hi d))
  | _ => throw "np.s.isub_array: expected 4 args"

/-- `np.s.fmean|<x…>`: `NpS.fmean` = `np.mean(x)` -/
def fmeanH : Handler
  | [x] => do let x ← fls x; pure (.ok [[showFl (NpS.fmean x)]])
  | _ => throw "np.s.fmean: expected 1 arg"

/-- `np.s.fill_to|<a…>|<k>|<v>`: `NpS.fillTo` = the array after `a[:k] = v` -/
def fillToH : Handler
  | [a, k, v] => do let a ← rats a; let k ← nat1 k; let v ← rat1 v; pure (.ok [outRats (NpS.fillTo a k v)])
  | _ => throw "np.s.fill_to: expected 3 args"

/-- `np.s.diff_quot|<y…>|<d>`: `NpS.diffQuot` -/
def diffQuotH : Handler
  | [y, d] => do let y ← fls y; let d ← rat1 d; pure (.ok [outFls (NpS.diffQuot y d)])
  | _ => throw "np.s.diff_quot: expected 2 args"

/-! ### `Prelude/NpT.lean` -/

/-- `np.s.py_at|<l…>|<k>`: `NpT.pyAt` = `l[k]`, `k ≥ 0` -/
def pyAtH : Handler
  | [l, k] => do let l ← rats l; let k ← nat1 k; pure (ofExcept (fun (r : Rat) => [[showRat r]]) (NpT.pyAt l k))
  | _ => throw "np.s.py_at: expected 2 args"

/-- `np.s.cummax|<l…>`: `NpT.cummax` = `np.maximum.accumulate(l)` -/
def cummaxH : Handler
  | [l] => do let l ← rats l; pure (.ok [outRats (NpT.cummax l)])
  | _ => throw "np.s.cummax: expected 1 arg"

/-- `np.s.cummax_from|<m>|<l…>`: `NpT.cummaxFrom` = `np.maximum.accumulate([m] + l)[1:]` -/
def cummaxFromH : Handler
  | [m, l] => do let m ← rat1 m; let l ← rats l; pure (.ok [outRats (NpT.cummaxFrom m l)])
  | _ => throw "np.s.cummax_from: expected 2 args"

/-- `np.s.trapz_axis0|<nrows>|<ncols>|<flat…>`: `NpT.trapzAxis0` = `np.trapezoid(M, axis=0)` of an `nrows × ncols` array -/
def trapzAxis0H : Handler
  | [r, c, m] => do
    let r ← nat1 r; let c ← nat1 c; let m ← rats m
    let rows ← toRows "np.s.trapz_axis0" r c m
    pure (.ok [outRats (NpT.trapzAxis0 rows)])
  | _ => throw "np.s.trapz_axis0: expected 3 args"

/-- `np.s.add_from|<i>|<base…>|<v…>`: `NpT.addFrom` = the array after `base[i:] += v` (`len v = len base - i`: the doc comment's domain) -/
def addFromH : Handler
  | [i, b, v] => do
    let i ← nat1 i; let b ← rats b; let v ← rats v
    if v.length = b.length - i then pure (.ok [outRats (NpT.addFrom i b v)])
    else throw "np.s.add_from: outside the modelled domain"
  | _ => throw "np.s.add_from: expected 3 args"

/-! ### `Prelude/NpV.lean` -/

/-- `np.s.attr|<T/F>`: `NpV.attrE` -/
def attrH : Handler
  | [b] => do let b ← bool1 b; pure (ofExcept (fun (_ : Unit) => [[]]) (NpV.attrE b))
  | _ => throw "np.s.attr: expected 1 arg"

/-- `np.s.scipy_nonempty|<y…>`: `NpV.scipyNonemptyE` -/
def scipyNonemptyH : Handler
  | [y] => do let y ← rats y; pure (ofExcept (fun (_ : Unit) => [[]]) (NpV.scipyNonemptyE y))
  | _ => throw "np.s.scipy_nonempty: expected 1 arg"

/-- `np.s.linspace|<a>|<b>|<n>`: `NpV.linspace` = `np.linspace(a, b, n)` -/
def linspaceH : Handler
  | [a, b, n] => do let a ← rat1 a; let b ← rat1 b; let n ← nat1 n; pure (.ok [outRats (NpV.linspace a b n)])
  | _ => throw "np.s.linspace: expected 3 args"

/-- `np.s.isclose|<a>|<b>|<rtol>|<atol>`: `NpV.isclose` = `np.isclose(a, b, rtol, atol)` -/
def iscloseH : Handler
  | [a, b, r, t] => do
    let a ← rat1 a; let b ← rat1 b; let r ← rat1 r; let t ← rat1 t
    pure (.ok [[showBool (NpV.isclose a b r t)]])
  | _ => throw "np.s.isclose: expected 4 args"

/-! ### `Model/Butter.lean`: the `Float` twin of the SciPy-internal stages -/
section Butter
open EqsigVerif.Model.Butter
open EqsigVerif.Model.Single (FilterType)

/-- `np.s.bt.fns|<t>`: the transcendental functions `fnsFloat` at `t` → `ok|<pi>|<tan t>|<sqrt t>|<cis t re>|<cis t im>` -/
def fnsH : Handler
  | [t] => do
    let t ← float1 t
    let c := fnsFloat.cis t
    pure (.ok [[showFloat fnsFloat.pi], [showFloat (fnsFloat.tan t)], [showFloat (fnsFloat.sqrt t)], [showFloat c.re], [showFloat c.im]])
  | _ => throw "np.s.bt.fns: expected 1 arg"

/-- `np.s.bt.csqrt|<re…>|<im…>`: `csqrtFloat` = `np.sqrt` on `complex128`, entry by entry -/
def csqrtH : Handler
  | [re, im] => do let z ← cxs "np.s.bt.csqrt" re im; pure (.ok (outCxs (z.map csqrtFloat)))
  | _ => throw "np.s.bt.csqrt: expected 2 args"

/-- `np.s.bt.prod|<re…>|<im…>`: `prodL` = `np.prod` -/
def prodH : Handler
  | [re, im] => do let z ← cxs "np.s.bt.prod" re im; pure (.ok (outCxs [prodL z]))
  | _ => throw "np.s.bt.prod: expected 2 args"

/-- `np.s.bt.mul_linear|<a re…>|<a im…>|<r re>|<r im>`: `mulLinear` = `np.convolve(a, [1, -r])` -/
def mulLinearH : Handler
  | [re, im, rr, ri] => do
    let a ← cxs "np.s.bt.mul_linear" re im; let rr ← float1 rr; let ri ← float1 ri
    pure (.ok (outCxs (mulLinear a ⟨rr, ri⟩)))
  | _ => throw "np.s.bt.mul_linear: expected 4 args"

/-- `np.s.bt.poly|<re…>|<im…>`: `poly` = `np.poly(roots)` before its real-part step -/
def polyH : Handler
  | [re, im] => do let z ← cxs "np.s.bt.poly" re im; pure (.ok (outCxs (poly z)))
  | _ => throw "np.s.bt.poly: expected 2 args"

/-- `np.s.bt.polyval|<c re…>|<c im…>|<x re>|<x im>`: `polyval` = `np.polyval(c, x)` -/
def polyvalH : Handler
  | [re, im, xr, xi] => do
    let c ← cxs "np.s.bt.polyval" re im; let xr ← float1 xr; let xi ← float1 xi
    pure (.ok (outCxs [polyval c ⟨xr, xi⟩]))
  | _ => throw "np.s.bt.polyval: expected 4 args"

/-- `np.s.bt.pow_n|<x>|<n>`: `powN` = `x ** n` -/
def powNH : Handler
  | [x, n] => do let x ← float1 x; let n ← nat1 n; pure (.ok [[showFloat (powN x n)]])
  | _ => throw "np.s.bt.pow_n: expected 2 args"

/-- `np.s.bt.buttap|<N>`: `buttap fnsFloat N` = `scipy.signal.buttap(N)` → zeros–poles–gain -/
def buttapH : Handler
  | [n] => do let n ← nat1 n; pure (.ok (outZpk (buttap fnsFloat n)))
  | _ => throw "np.s.bt.buttap: expected 1 arg"

/-- `np.s.bt.prewarp|<w>`: `prewarp fnsFloat w` = `2 * fs * tan(pi * w / fs)`, `fs = 2.0` -/
def prewarpH : Handler
  | [w] => do let w ← float1 w; pure (.ok [[showFloat (prewarp fnsFloat w)]])
  | _ => throw "np.s.bt.prewarp: expected 1 arg"

/-- `np.s.bt.rel_deg|<nz>|<np>`: `relDeg` of a triple with `nz` zeros and `np` poles -/
def relDegH : Handler
  | [nz, np] => do
    let nz ← nat1 nz; let np ← nat1 np
    let s : ZpkF := { z := List.replicate nz 0, p := List.replicate np 0, k := 1 }
    pure (.ok [[toString (relDeg s)]])
  | _ => throw "np.s.bt.rel_deg: expected 2 args"

/-- `np.s.bt.lp2lp|<zpk>|<wo>`: `lp2lp` = `scipy.signal.lp2lp_zpk(z, p, k, wo)` -/
def lp2lpH : Handler
  | [zr, zi, pr, pi, k, wo] => do
    let s ← zpkArgs "np.s.bt.lp2lp" zr zi pr pi k; let wo ← float1 wo
    pure (.ok (outZpk (lp2lp s wo)))
  | _ => throw "np.s.bt.lp2lp: expected 6 args"

/-- `np.s.bt.lp2hp|<zpk>|<wo>`: `lp2hp` = `scipy.signal.lp2hp_zpk(z, p, k, wo)` -/
def lp2hpH : Handler
  | [zr, zi, pr, pi, k, wo] => do
    let s ← zpkArgs "np.s.bt.lp2hp" zr zi pr pi k; let wo ← float1 wo
    pure (.ok (outZpk (lp2hp s wo)))
  | _ => throw "np.s.bt.lp2hp: expected 6 args"

/-- `np.s.bt.lp2bp|<zpk>|<wo>|<bw>`: `lp2bp fnsFloat` = `scipy.signal.lp2bp_zpk(z, p, k, wo, bw)` -/
def lp2bpH : Handler
  | [zr, zi, pr, pi, k, wo, bw] => do
    let s ← zpkArgs "np.s.bt.lp2bp" zr zi pr pi k; let wo ← float1 wo; let bw ← float1 bw
    pure (.ok (outZpk (lp2bp fnsFloat s wo bw)))
  | _ => throw "np.s.bt.lp2bp: expected 7 args"

/-- `np.s.bt.bilinear|<zpk>`: `bilinear` = `scipy.signal.bilinear_zpk(z, p, k, fs=2.0)` -/
def bilinearH : Handler
  | [zr, zi, pr, pi, k] => do
    let s ← zpkArgs "np.s.bt.bilinear" zr zi pr pi k
    pure (.ok (outZpk (bilinear s)))
  | _ => throw "np.s.bt.bilinear: expected 5 args"

/-- `np.s.bt.zpk2tf|<zpk>`: `zpk2tf` = `scipy.signal.zpk2tf(z, p, k)` → `ok|<b…>|<a…>` -/
def zpk2tfH : Handler
  | [zr, zi, pr, pi, k] => do
    let s ← zpkArgs "np.s.bt.zpk2tf" zr zi pr pi k
    let ba := zpk2tf s
    pure (.ok [outFloats ba.1, outFloats ba.2])
  | _ => throw "np.s.bt.zpk2tf: expected 5 args"

/-- `np.s.bt.accepts|<low/high/band>|<Wn…>`: `accepts` (the argument checks of `iirfilter`) → `ok|` / `err|ValueError` -/
def acceptsH : Handler
  | [ft, wn] => do
    let ft ← str1 ft; let wn ← floats wn
    let ft : FilterType ← (if ft = "low" then pure .low else if ft = "high" then pure .high else if ft = "band" then pure .band
      else throw s!"bad filter type '{ft}'")
    if accepts ft wn then pure (.ok [[]]) else pure (.err .ValueError)
  | _ => throw "np.s.bt.accepts: expected 2 args"

end Butter

/-! ### `Model/CavDpFloat.lean`: binary64 arithmetic on dyadic rationals -/
section CavDp
open EqsigVerif.Model.CavDpFloat

/-- `np.s.cv.log2|<p>`: `log2F` = `p.bit_length() - 1` (`0` for `p = 0`) -/
def log2H : Handler
  | [p] => do let p ← nat1 p; pure (.ok [[toString (log2F p)]])
  | _ => throw "np.s.cv.log2: expected 1 arg"

/-- `np.s.cv.round_q|<p>|<q>`: `roundQ p q` = the double nearest to `p / q` (Python `p / q` of two ints) -/
def roundQH : Handler
  | [p, q] => do
    let p ← nat1 p; let q ← nat1 q
    if q = 0 then throw "np.s.cv.round_q: outside the modelled domain" else pure (.ok [[showDy (roundQ p q)]])
  | _ => throw "np.s.cv.round_q: expected 2 args"

/-- `np.s.cv.fadd|<x>|<y>` etc.: `fadd / fsub / fdiv` = `fl(x + y)`, `fl(x − y)` (`x ≥ y`), `fl(x / y)` (`y > 0`) -/
def dy2H (name : String) (f : Dy → Dy → Dy) (dom : Dy → Dy → Bool) : Handler
  | [x, y] => do
    let x ← dy1 x; let y ← dy1 y
    if dom x y then pure (.ok [[showDy (f x y)]]) else throw s!"{name}: outside the modelled domain"
  | _ => throw s!"{name}: expected 2 args"

/-- `np.s.cv.fmul_nat|<n>|<x>`: `fmulNat` = `fl(n * x)` -/
def fmulNatH : Handler
  | [n, x] => do let n ← nat1 n; let x ← dy1 x; pure (.ok [[showDy (fmulNat n x)]])
  | _ => throw "np.s.cv.fmul_nat: expected 2 args"

/-- `np.s.cv.cmp|<x>|<y>`: `Dy.le`, `Dy.eqv` → `ok|<x ≤ y>|<x == y>` -/
def cmpH : Handler
  | [x, y] => do let x ← dy1 x; let y ← dy1 y; pure (.ok [[showBool (Dy.le x y)], [showBool (Dy.eqv x y)]])
  | _ => throw "np.s.cv.cmp: expected 2 args"

/-- `np.s.cv.ceil_floor|<x>`: `Dy.ceil`, `Dy.floor` → `ok|<math.ceil(x)>|<int(x)>` -/
def ceilFloorH : Handler
  | [x] => do let x ← dy1 x; pure (.ok [[toString x.ceil], [toString x.floor]])
  | _ => throw "np.s.cv.ceil_floor: expected 1 arg"

/-- `np.s.cv.dt_of|<pps>`: `dtOf` = the double `1 / pps` -/
def dtOfH : Handler
  | [n] => do
    let n ← nat1 n
    if n = 0 then throw "np.s.cv.dt_of: outside the modelled domain" else pure (.ok [[showDy (dtOf n)]])
  | _ => throw "np.s.cv.dt_of: expected 1 arg"

/-- `np.s.cv.pps_of|<dt>`: `ppsOf` = `int(1 / dt)` -/
def ppsOfH : Handler
  | [dt] => do
    let dt ← dy1 dt
    if dt.m = 0 then throw "np.s.cv.pps_of: outside the modelled domain" else pure (.ok [[toString (ppsOf dt)]])
  | _ => throw "np.s.cv.pps_of: expected 1 arg"

/-- `np.s.cv.arange|<dt>|<start>`: `arangeLenF`, `arangeF` = `np.arange(start * dt, (start * dt) + 1, dt)` → `ok|<len>|<elements…>` -/
def arangeH : Handler
  | [dt, start] => do
    let dt ← dy1 dt; let start ← nat1 start
    if dt.m = 0 then throw "np.s.cv.arange: outside the modelled domain"
    else pure (.ok [[toString (arangeLenF dt start)], (arangeF dt start).map showDy])
  | _ => throw "np.s.cv.arange: expected 2 args"

/-- `np.s.cv.selected|<dt>|<pps>|<start>`: `selectedF`, `panelsF` → `ok|<positions…>|<panels>` -/
def selectedH : Handler
  | [dt, pps, start] => do
    let dt ← dy1 dt; let pps ← nat1 pps; let start ← nat1 start
    if dt.m = 0 then throw "np.s.cv.selected: outside the modelled domain"
    else pure (.ok [outNats (selectedF dt pps start), [toString (panelsF dt pps start)]])
  | _ => throw "np.s.cv.selected: expected 3 args"

/-- `np.s.cv.window|<pps>|<i>`: `windowExact`, `windowLenExact` → `ok|<T/F>|<T/F>` -/
def windowH : Handler
  | [pps, i] => do
    let pps ← nat1 pps; let i ← nat1 i
    if pps = 0 then throw "np.s.cv.window: outside the modelled domain"
    else pure (.ok [[showBool (windowExact pps i)], [showBool (windowLenExact pps i)]])
  | _ => throw "np.s.cv.window: expected 2 args"

end CavDp

open EqsigVerif.Model.CavDpFloat in
def handlers : List (String × Handler) :=
  [-- Prelude/NpS.lean
   ("np.s.fadd", fl2H "np.s.fadd" NpS.fadd), ("np.s.fsub", fl2H "np.s.fsub" NpS.fsub),
   ("np.s.fmul", fl2H "np.s.fmul" NpS.fmul), ("np.s.fdiv", fl2H "np.s.fdiv" NpS.fdiv),
   ("np.s.finite", finiteH), ("np.s.trunc_z", truncZH),
   ("np.s.int_np_div", intDivH "np.s.int_np_div" NpS.intNpDivE),
   ("np.s.int_py_div", intDivH "np.s.int_py_div" NpS.intPyDivE),
   ("np.s.velo_disp", veloDispH), ("np.s.pga", listRatEH "np.s.pga" NpS.pgaE), ("np.s.time_arr", timeArrH),
   ("np.s.lo_idx", boundH "np.s.lo_idx" NpS.loIdx), ("np.s.hi_idx", boundH "np.s.hi_idx" NpS.hiIdx),
   ("np.s.slice_o", sliceOH), ("np.s.isub_scalar", isubScalarH), ("np.s.isub_array", isubArrayH),
   ("np.s.head", listRatEH "np.s.head" NpS.headE), ("np.s.last", listRatEH "np.s.last" NpS.lastE),
   ("np.s.fmean", fmeanH), ("np.s.fill_to", fillToH), ("np.s.diff_quot", diffQuotH),
   -- Prelude/NpT.lean
   ("np.s.py_at", pyAtH), ("np.s.cummax", cummaxH), ("np.s.cummax_from", cummaxFromH),
   ("np.s.trapz_axis0", trapzAxis0H), ("np.s.add_from", addFromH),
   -- Prelude/NpV.lean
   ("np.s.attr", attrH), ("np.s.scipy_nonempty", scipyNonemptyH),
   ("np.s.calc_peak", listRatEH "np.s.calc_peak" NpV.calcPeakE),
   ("np.s.linspace", linspaceH), ("np.s.isclose", iscloseH),
   -- Model/Butter.lean (Float twin)
   ("np.s.bt.fns", fnsH), ("np.s.bt.csqrt", csqrtH), ("np.s.bt.prod", prodH), ("np.s.bt.mul_linear", mulLinearH),
   ("np.s.bt.poly", polyH), ("np.s.bt.polyval", polyvalH), ("np.s.bt.pow_n", powNH), ("np.s.bt.buttap", buttapH),
   ("np.s.bt.prewarp", prewarpH), ("np.s.bt.rel_deg", relDegH), ("np.s.bt.lp2lp", lp2lpH), ("np.s.bt.lp2hp", lp2hpH),
   ("np.s.bt.lp2bp", lp2bpH), ("np.s.bt.bilinear", bilinearH), ("np.s.bt.zpk2tf", zpk2tfH), ("np.s.bt.accepts", acceptsH),
   -- Model/CavDpFloat.lean
   ("np.s.cv.log2", log2H), ("np.s.cv.round_q", roundQH),
   ("np.s.cv.fadd", dy2H "np.s.cv.fadd" fadd (fun _ _ => true)),
   ("np.s.cv.fsub", dy2H "np.s.cv.fsub" fsub (fun x y => Dy.le y x)),
   ("np.s.cv.fdiv", dy2H "np.s.cv.fdiv" fdiv (fun _ y => y.m != 0)),
   ("np.s.cv.fmul_nat", fmulNatH), ("np.s.cv.cmp", cmpH), ("np.s.cv.ceil_floor", ceilFloorH),
   ("np.s.cv.dt_of", dtOfH), ("np.s.cv.pps_of", ppsOfH), ("np.s.cv.arange", arangeH), ("np.s.cv.selected", selectedH),
   ("np.s.cv.window", windowH)]

end EqsigVerif.Handlers.PreludeS
