import EqsigVerif.Prelude.Wire
import EqsigVerif.Model.Butter
/-! driver handlers of `Model/Butter.lean` (the `Float` twin of `scipy.signal.butter` and of its analytic gain) -/
namespace EqsigVerif.Handlers.Butter
open EqsigVerif EqsigVerif.Wire EqsigVerif.Cplx EqsigVerif.Model.Butter
open EqsigVerif.Model.Single (FilterType)

def parseFt (s : String) : Except String FilterType :=
  if s = "low" then pure .low else if s = "high" then pure .high else if s = "band" then pure .band
  else throw s!"bad filter type '{s}'"

/-- `c17.butter_ba|<order>|<low/high/band>|<Wn floats…>` → `ok|<b…>|<a…>` of `Model.Butter.butter fnsFloat`, or `err|ValueError` -/
def butterH : Handler
  | [n, ft, wn] => do
    let n ← nat1 n; let ft ← (str1 ft >>= parseFt); let wn ← floats wn
    pure (ofExcept (fun (ba : List Float × List Float) => [outFloats ba.1, outFloats ba.2])
      (butter fnsFloat n ft wn))
  | _ => throw "butter: expected 3 args"

/-- `c17.butter_zpk|<order>|<type>|<Wn…>` → `ok|<z re…>|<z im…>|<p re…>|<p im…>|<k>` (`butter(…, output='zpk')`) -/
def butterZpkH : Handler
  | [n, ft, wn] => do
    let n ← nat1 n; let ft ← (str1 ft >>= parseFt); let wn ← floats wn
    if accepts ft wn then
      let s := digitalZpk fnsFloat n ft wn
      pure (.ok [outFloats (s.z.map (·.re)), outFloats (s.z.map (·.im)), outFloats (s.p.map (·.re)),
        outFloats (s.p.map (·.im)), [showFloat s.k]])
    else pure (.err .ValueError)
  | _ => throw "butter_zpk: expected 3 args"

/-- `c17.butter_gain|<order>|<type>|<Wn…>|<w…>` → `ok|<gainSq at each normalised frequency w>|<|H(e^{iπw})|² of the model's (b, a)>` -/
def butterGainH : Handler
  | [n, ft, wn, ws] => do
    let n ← nat1 n; let ft ← (str1 ft >>= parseFt); let wn ← floats wn; let ws ← floats ws
    match butter fnsFloat n ft wn with
    | .error k => pure (.err k)
    | .ok (b, a) =>
      let g := ws.map (fun w => gainSq fnsFloat n ft wn w)
      let h := ws.map (fun w => Cx.normSq (freqResp fnsFloat b a (fnsFloat.pi * w)))
      pure (.ok [outFloats g, outFloats h])
  | _ => throw "butter_gain: expected 4 args"

def handlers : List (String × Handler) :=
  [("c17.butter_ba", butterH), ("c17.butter_zpk", butterZpkH), ("c17.butter_gain", butterGainH)]

end EqsigVerif.Handlers.Butter
