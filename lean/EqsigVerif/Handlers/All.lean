import EqsigVerif.Handlers.Displacements
import EqsigVerif.Handlers.Peaks
/-! table of all driver handlers -/
namespace EqsigVerif.Handlers
open EqsigVerif.Wire

def table : List (String × Handler) :=
  Displacements.handlers ++ Peaks.handlers

end EqsigVerif.Handlers
