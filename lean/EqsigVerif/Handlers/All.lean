import EqsigVerif.Handlers.Displacements
import EqsigVerif.Handlers.Peaks
import EqsigVerif.Handlers.Switched
import EqsigVerif.Handlers.PowerLaw
/-! table of all driver handlers -/
namespace EqsigVerif.Handlers
open EqsigVerif.Wire

def table : List (String × Handler) :=
  Displacements.handlers ++ Peaks.handlers ++ Switched.handlers ++ PowerLaw.handlers

end EqsigVerif.Handlers
