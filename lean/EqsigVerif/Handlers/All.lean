import EqsigVerif.Handlers.Displacements
import EqsigVerif.Handlers.Peaks
import EqsigVerif.Handlers.Switched
import EqsigVerif.Handlers.PowerLaw
import EqsigVerif.Handlers.Im
import EqsigVerif.Handlers.Sdof
import EqsigVerif.Handlers.Fns
import EqsigVerif.Handlers.DesignSpectra
import EqsigVerif.Handlers.Loader
import EqsigVerif.Handlers.SignalSM
import EqsigVerif.Handlers.Fourier
import EqsigVerif.Handlers.TimeStep
import EqsigVerif.Handlers.Surface
import EqsigVerif.Handlers.Misc
import EqsigVerif.Handlers.Prelude
import EqsigVerif.Handlers.PreludeE
import EqsigVerif.Handlers.PreludeP
import EqsigVerif.Handlers.PreludeS
import EqsigVerif.Handlers.PreludeU
import EqsigVerif.Handlers.Butter
import EqsigVerif.Handlers.Single2
import EqsigVerif.Handlers.Spec2
import EqsigVerif.Handlers.Freq2
import EqsigVerif.Handlers.Single3
import EqsigVerif.Handlers.LwSmall
import EqsigVerif.Handlers.Rest2
/-! table of all driver handlers -/
namespace EqsigVerif.Handlers
open EqsigVerif.Wire

def table : List (String × Handler) :=
  Butter.handlers ++ Single2.handlers ++ Spec2.handlers ++ Freq2.handlers ++ Single3.handlers ++ LwSmall.handlers ++ Rest2.handlers ++ Prelude.handlers ++ PreludeE.handlers ++ PreludeP.handlers ++ PreludeS.handlers ++ PreludeU.handlers ++ Displacements.handlers ++ Sdof.handlers ++ Fns.handlers ++ DesignSpectra.handlers ++ Loader.handlers ++ SignalSM.handlers ++ Fourier.handlers ++ TimeStep.handlers ++ Surface.handlers ++ Misc.handlers ++ Peaks.handlers ++ Switched.handlers ++ PowerLaw.handlers ++ Im.handlers.map (fun (p : String × Handler) => (if p.1 = "peaks" then "pgx" else p.1, p.2))

end EqsigVerif.Handlers
