import EqsigVerif.Handlers.Displacements
/-! table of all driver handlers -/
namespace EqsigVerif.Handlers
open EqsigVerif.Wire

def table : List (String × Handler) :=
  Displacements.handlers

end EqsigVerif.Handlers
