import EqsigVerif.Handlers.Displacements
import EqsigVerif.Handlers.Peaks
import EqsigVerif.Handlers.Switched
/-! table of all driver handlers -/
namespace EqsigVerif.Handlers
open EqsigVerif.Wire

def table : List (String × Handler) :=
  Displacements.handlers ++ Peaks.handlers ++ Switched.handlers

end EqsigVerif.Handlers
