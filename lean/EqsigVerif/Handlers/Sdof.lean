import EqsigVerif.Prelude.Wire
import EqsigVerif.Model.Sdof
import EqsigVerif.Model.Spectra
import EqsigVerif.Gen.SdofABFloat
import EqsigVerif.Gen.Consts
/-! driver handlers for `Model/Sdof.lean` (Float twin: generated `computeABFloat`, generated constant) -/
namespace EqsigVerif.Handlers.Sdof
open EqsigVerif EqsigVerif.Wire EqsigVerif.Model.Sdof

/-- `nj_response|<xi>|<dt>|<periods…>|<acc…>` (floats) → `ok|u_0|v_0|a_0|u_1|v_1|a_1|…`; `IndexError` for no periods -/
def responseH : Handler
  | [xi, dt, periods, acc] => do
    let xi ← float1 xi; let dt ← float1 dt
    let periods ← floats periods; let acc ← floats acc
    match response Gen.Consts.njTwoPiFloat (fun p => p == 0) (fun w => Gen.SdofAB.computeABFloat xi w dt) xi acc periods with
    | none => pure (.err .IndexError)
    | some rows => pure (.ok (rows.flatMap (fun r => [outFloats r.1, outFloats r.2.1, outFloats r.2.2])))
  | _ => throw "nj_response: expected 4 args"

/-- `compute_ab|<xi>|<w>|<dt>` → the eight entries a11 a12 a21 a22 b11 b12 b21 b22 -/
def abH : Handler
  | [xi, w, dt] => do
    let xi ← float1 xi; let w ← float1 w; let dt ← float1 dt
    let m := Gen.SdofAB.computeABFloat xi w dt
    pure (.ok [outFloats [m.a11, m.a12, m.a21, m.a22, m.b11, m.b12, m.b21, m.b22]])
  | _ => throw "compute_ab: expected 3 args"

/-- `absmax|<x…>` (rationals) -/
def absmaxH : Handler
  | [x] => do
    let x ← rats x
    match Model.Spectra.absmax x with
    | some m => pure (.ok [[showRat m]])
    | none => pure (.err .ValueError)
  | _ => throw "absmax: expected 1 arg"

def handlers : List (String × Handler) := [("nj_response", responseH), ("compute_ab", abH), ("absmax", absmaxH)]

end EqsigVerif.Handlers.Sdof
