import EqsigVerif.Prelude.Wire
import EqsigVerif.Model.Surface
import EqsigVerif.Model.TimeShift
/-! driver handlers for `Model/Surface.lean` and `Model/TimeShift.lean`

2-D results are rendered as `ok|2d <nrows>|<row0…>|<row1…>|…`, 1-D results as `ok|1d|<row…>`. -/
namespace EqsigVerif.Handlers.Surface
open EqsigVerif EqsigVerif.Wire EqsigVerif.Model.Surface EqsigVerif.Model.TimeShift

def out2d (rs : List (List Rat)) : List (List String) := ["2d", toString rs.length] :: rs.map outRats
def outOut : Out → List (List String)
  | .row r => [["1d"], outRats r]
  | .rows rs => out2d rs

def parseClip (l : List String) : Except String Clip :=
  match l with
  | ["none"] => pure .none | ["start"] => pure .start | ["end"] => pure .end | ["both"] => pure .both
  | _ => throw "bad clip"

def parseJType (l : List String) : Except String JType :=
  match l with
  | ["add"] => pure .add | ["sub"] => pure .sub
  | _ => throw "bad jtype"

/-- `put2d|<values…>|<shifts…>|<clip>` -/
def put2dH : Handler
  | [v, s, c] => do
    let v ← rats v; let s ← ints s; let c ← parseClip c
    pure (ofExcept out2d (put2d v s c))
  | _ => throw "put2d: expected 3 args"

/-- `join_values|<values…>|<shifts…>|<add/sub>` -/
def joinValuesH : Handler
  | [v, s, j] => do
    let v ← rats v; let s ← ints s; let j ← parseJType j
    pure (ofExcept out2d (joinValuesWShifts v s j))
  | _ => throw "join_values: expected 3 args"

/-- `join_sig|<values…>|<dt>|<time_shifts…>|<add/sub>` -/
def joinSigH : Handler
  | [v, dt, s, j] => do
    let v ← rats v; let dt ← rat1 dt; let s ← rats s; let j ← parseJType j
    pure (ofExcept out2d (joinSigWTimeShift v dt s j))
  | _ => throw "join_sig: expected 4 args"

/-- `time_indices|<npts>|<dt>|<start>|<end>|<index>` → `ok|<s> <e>` -/
def timeIndicesH : Handler
  | [n, dt, s, e, ix] => do
    let n ← nat1 n; let dt ← rat1 dt; let s ← rat1 s; let e ← rat1 e; let ix ← bool1 ix
    pure (ofExcept (fun (p : Rat × Rat) => [[showRat p.1, showRat p.2]]) (timeIndices n dt s e ix))
  | _ => throw "time_indices: expected 5 args"

/-- `trim_to_length|<npts>|<tts…>|<dt>|<trim>|<start>|<stt>|<row0…>|<row1…>|…` -/
def trimToLengthH : Handler
  | n :: tts :: dt :: trim :: start :: stt :: rows => do
    let n ← nat1 n; let tts ← rats tts; let dt ← rat1 dt; let trim ← bool1 trim; let start ← bool1 start
    let stt ← rat1 stt
    let rows ← rows.mapM rats
    pure (ofExcept out2d (trimToLength rows n tts dt trim start stt))
  | _ => throw "trim_to_length: expected ≥ 6 args"

def parseRed (k up down : List String) : Except String Red :=
  match k with
  | ["S"] => do let u ← rat1 up; let d ← rat1 down; pure (.scalar u d)
  | ["R"] => do let u ← rats up; let d ← rats down; pure (.rows u d)
  | _ => throw "bad reduction kind"

def surfArgs (args : List (List String)) :
    Except String (List Rat × Rat × List Rat × Bool × Red × Rat × Bool × Bool) :=
  match args with
  | [v, dt, tts, nodal, k, up, down, stt, trim, start] => do
    let v ← rats v; let dt ← rat1 dt; let tts ← rats tts; let nodal ← bool1 nodal
    let red ← parseRed k up down
    let stt ← rat1 stt; let trim ← bool1 trim; let start ← bool1 start
    pure (v, dt, tts, nodal, red, stt, trim, start)
  | _ => throw "surface: expected 10 args"

/-- `surface_energy|<values…>|<dt>|<tts…>|<nodal>|<S/R>|<up…>|<down…>|<stt>|<trim>|<start>` -/
def surfaceEnergyH : Handler := fun args => do
  let (v, dt, tts, nodal, red, stt, trim, start) ← surfArgs args
  pure (ofExcept outOut (calcSurfaceEnergy v dt tts nodal red stt trim start))

def cumAbsSurfaceEnergyH : Handler := fun args => do
  let (v, dt, tts, nodal, red, stt, trim, start) ← surfArgs args
  pure (ofExcept outOut (calcCumAbsSurfaceEnergy v dt tts nodal red stt trim start))

def timeShiftMotionsH : Handler := fun args => do
  let (v, dt, tts, nodal, red, stt, trim, start) ← surfArgs args
  pure (ofExcept outOut (getTimeShiftMotions v dt tts nodal red stt trim start))

def handlers : List (String × Handler) :=
  [("put2d", put2dH), ("join_values", joinValuesH), ("join_sig", joinSigH), ("time_indices", timeIndicesH),
   ("trim_to_length", trimToLengthH), ("surface_energy", surfaceEnergyH),
   ("cum_abs_surface_energy", cumAbsSurfaceEnergyH), ("time_shift_motions", timeShiftMotionsH)]

end EqsigVerif.Handlers.Surface
