import EqsigVerif.Prelude.Wire
import EqsigVerif.Prelude.NpT
import EqsigVerif.Model.SpectraFns2
import EqsigVerif.Model.TimeStep
import EqsigVerif.Gen.SpecEnergy
import EqsigVerif.Gen.SpecObject
import EqsigVerif.Gen.SpecIm
import EqsigVerif.Gen.SpecSlow
/-! driver handlers for the generated definitions of `tools/py2lean_x_spec2.py` (`Gen/Spec{Energy,Object,Im,Slow}.lean`), the new models
of `Model/SpectraFns2.lean` and the prelude `Prelude/NpT.lean`; wire names `c03s.*` / `nps.*`.  Callees (`response_series`,
`pseudo_response_spectra`, …) are stubs built from the request: they return the impl's arrays iff they are called with the expected
arguments (`.Other` otherwise), so that the argument wiring of the generated code is checked too. -/
namespace EqsigVerif.Handlers.Spec2
open EqsigVerif EqsigVerif.Wire

/-- records in one field, each introduced by the marker token `r` -/
def splitRows : List String → List (List String)
  | [] => []
  | t :: ts =>
    let rest := splitRows ts
    if t = "r" then (ts.takeWhile (· ≠ "r")) :: rest else rest

def parseRows (l : List String) : Except String (List (List Rat)) := (splitRows l).mapM rats

def sepRows (ss : List (List Rat)) : List String :=
  [" ; ".intercalate (ss.map (fun s => " ".intercalate (outRats s)))]

def optRats (has : Bool) (v : List Rat) : Option (List Rat) := if has then some v else none
def optRat (has : Bool) (v : List Rat) : Option Rat := if has then v.head? else none

abbrev Rows := List (List Rat)

/-- a callee stub: the recorded result iff called with the recorded arguments -/
def stub4 {β : Type} (m : List Rat) (d : Rat) (p : List Rat) (x : Rat) (res : Except ErrKind β) :
    List Rat → Rat → List Rat → Rat → Except ErrKind β :=
  fun m' d' p' x' => if m' = m ∧ d' = d ∧ p' = p ∧ x' = x then res else .error .Other

/-- `c03s.energy|<uke/ie/ies>|<dt>|<values…>|<response_times…>|<T/F>|<periods…>|<T/F>|<xi>|<expected periods…>|<expected xi>|<V rows>` -/
def energyH : Handler
  | [mode, dt, values, rt, hp, ps, hx, xi, ep, ex, v] => do
    let mode ← str1 mode; let dt ← rat1 dt; let values ← rats values; let rt ← rats rt; let hp ← bool1 hp; let ps ← rats ps
    let hx ← bool1 hx; let xi ← rats xi; let ep ← rats ep; let ex ← rat1 ex; let v ← parseRows v
    let resp := stub4 values dt ep ex (.ok (([] : Rows), v, ([] : Rows)))
    let p := optRats hp ps; let x := optRat hx xi
    if mode = "uke" then pure (ofExcept (fun r => [outRats r]) (Gen.SpecEnergy.calcRespUkeSpectrum resp values dt rt p x))
    else if mode = "ie" then pure (ofExcept (fun r => [outRats r]) (Gen.SpecEnergy.calcInputEnergySpectrum resp values dt rt p x))
    else pure (ofExcept (fun r => [sepRows r]) (Gen.SpecEnergy.calcInputEnergySeries resp values dt rt p x))
  | _ => throw "c03s.energy: expected 11 args"

/-- `c03s.gen_input|<dt>|<min_dt_ratio>|<response_times…>|<values…>` → `ok|<values_interp…>|<dt_interp>` (generated step rule + C14 model) -/
def genInputH : Handler
  | [dt, ratio, rt, values] => do
    let dt ← rat1 dt; let ratio ← rat1 ratio; let rt ← rats rt; let values ← rats values
    pure (ofExcept (fun (r : List Rat × Rat) => [outRats r.1, [showRat r.2]])
      (Gen.SpecObject.genSpecInput Model.TimeStep.interpArrayToApproxDt values dt rt ratio))
  | _ => throw "c03s.gen_input: expected 4 args"

/-- `c03s.gen_target|<dt>|<min_dt_ratio>|<response_times…>` → `ok|<target_dt>` -/
def genTargetH : Handler
  | [dt, ratio, rt] => do
    let dt ← rat1 dt; let ratio ← rat1 ratio; let rt ← rats rt
    pure (ofExcept (fun (r : Rat) => [[showRat r]]) (Gen.SpecObject.genSpecTargetDt rt dt ratio))
  | _ => throw "c03s.gen_target: expected 3 args"

/-- `c03s.gen_spectrum|<dt>|<min_dt_ratio>|<T/F>|<response_times arg…>|<self response_times…>|<values…>|<xi>|<cached xi>|<expected motion…>|<expected dt>|<expected xi>|<sd…>|<sv…>|<sa…>`
→ `ok|<response_times…>|<s_d…>|<s_v…>|<s_a…>`: the whole generated method with a `pseudo_response_spectra` stub -/
def genSpectrumH : Handler
  | [dt, ratio, hr, rta, srt, values, xi, cx, em, ed, ex, sd, sv, sa] => do
    let dt ← rat1 dt; let ratio ← rat1 ratio; let hr ← bool1 hr; let rta ← rats rta; let srt ← rats srt; let values ← rats values
    let xi ← rat1 xi; let cx ← rat1 cx; let em ← rats em; let ed ← rat1 ed; let ex ← rat1 ex
    let sd ← rats sd; let sv ← rats sv; let sa ← rats sa
    let rt := if hr then rta else srt
    let pseudo := stub4 em ed rt ex (.ok (sd, sv, sa))
    pure (ofExcept (fun (r : List Rat × List Rat × List Rat × List Rat) => [outRats r.1, outRats r.2.1, outRats r.2.2.1, outRats r.2.2.2])
      (Gen.SpecObject.genResponseSpectrum Model.TimeStep.interpArrayToApproxDt pseudo values dt srt cx (optRats hr rta) xi ratio))
  | _ => throw "c03s.gen_spectrum: expected 14 args"

/-- the `np.arange` stub: the recorded grid iff called with the recorded `(start, stop, step)` -/
def arangeStub (a b c : Rat) (grid : List Rat) : Rat → Rat → Rat → List Rat :=
  fun a' b' c' => if a' = a ∧ b' = b ∧ c' = c then grid else []

/-- `c03s.intensity|<asi/vsi>|<dt>|<values…>|<xi>|<T/F>|<periods…>|<stop of the default grid>|<default grid…>|<sds…>|<psv…>|<psa…>` -/
def intensityH : Handler
  | [which, dt, values, xi, hp, ps, stop, grid, sd, sv, sa] => do
    let which ← str1 which; let dt ← rat1 dt; let values ← rats values; let xi ← rat1 xi; let hp ← bool1 hp; let ps ← rats ps
    let stop ← rat1 stop; let grid ← rats grid; let sd ← rats sd; let sv ← rats sv; let sa ← rats sa
    let ep := if hp then ps else grid
    let pseudo := stub4 values dt ep xi (.ok (sd, sv, sa))
    let ar := arangeStub (1/10) stop (1/100) grid
    if which = "asi" then pure (ofExcept (fun (r : Rat) => [[showRat r]]) (Gen.SpecIm.calcAsi pseudo ar values dt xi (optRats hp ps)))
    else pure (ofExcept (fun (r : Rat) => [[showRat r]]) (Gen.SpecIm.calcVsi pseudo ar values dt xi (optRats hp ps)))
  | _ => throw "c03s.intensity: expected 11 args"

/-- `c03s.vsi_temporal|<pi>|<dt>|<values…>|<xi>|<T/F>|<periods…>|<default grid…>|<U rows>` -/
def vsiTemporalH : Handler
  | [pi, dt, values, xi, hp, ps, grid, u] => do
    let pi ← rat1 pi; let dt ← rat1 dt; let values ← rats values; let xi ← rat1 xi; let hp ← bool1 hp; let ps ← rats ps
    let grid ← rats grid; let u ← parseRows u
    let ep := if hp then ps else grid
    let resp := stub4 values dt ep xi (.ok (u, ([] : Rows), ([] : Rows)))
    pure (ofExcept (fun (r : List Rat) => [outRats r])
      (Gen.SpecIm.calcVsiTemporal resp (arangeStub (1/10) (251/100) (1/100) grid) pi values dt xi (optRats hp ps)))
  | _ => throw "c03s.vsi_temporal: expected 8 args"

/-- `c03s.vsi_temporal_model|<c001>|<twoPi>|<periods…>|<U rows>`: `Model.SpectraFns2.vsiTemporal` -/
def vsiTemporalModelH : Handler
  | [c, tp, ps, u] => do
    let c ← rat1 c; let tp ← rat1 tp; let ps ← rats ps; let u ← parseRows u
    pure (.ok [outRats (Model.SpectraFns2.vsiTemporal c tp ps u)])
  | _ => throw "c03s.vsi_temporal_model: expected 4 args"

/-- `c03s.cum_arias|<pi>|<dt>|<values…>|<response_times…>|<T/F is arias>|<T/F>|<periods…>|<T/F>|<xi>|<expected periods…>|<expected xi>|<A rows>` -/
def cumAriasH : Handler
  | [pi, dt, values, rt, ia, hp, ps, hx, xi, ep, ex, a] => do
    let pi ← rat1 pi; let dt ← rat1 dt; let values ← rats values; let rt ← rats rt; let ia ← bool1 ia; let hp ← bool1 hp; let ps ← rats ps
    let hx ← bool1 hx; let xi ← rats xi; let ep ← rats ep; let ex ← rat1 ex; let a ← parseRows a
    let resp := stub4 values dt ep ex (.ok (([] : Rows), ([] : Rows), a))
    pure (ofExcept (fun r => [sepRows r]) (Gen.SpecIm.cumulativeResponseSpectra resp pi values dt rt ia (optRats hp ps) (optRat hx xi)))
  | _ => throw "c03s.cum_arias: expected 12 args"

/-- `c03s.max_period|<v/a>|<dt>|<values…>|<grid…>|<sd…>|<sv…>|<sa…>`: generated `calc_max_velocity_period` / `max_acceleration_period`
with stubs for `np.logspace` (the recorded grid) and the object's spectra (recorded iff called with that grid and the source's damping) -/
def maxPeriodH : Handler
  | [which, dt, values, grid, sd, sv, sa] => do
    let which ← str1 which; let dt ← rat1 dt; let values ← rats values; let grid ← rats grid
    let sd ← rats sd; let sv ← rats sv; let sa ← rats sa
    if which = "v" then
      let obj := stub4 values dt grid (3/20) (.ok (sd, sv, sa))
      let ls : Rat → Rat → Nat → List Rat := fun a b n => if a = -1 ∧ b = 3/10 ∧ n = 100 then grid else []
      pure (ofExcept (fun (r : Rat) => [[showRat r]]) (Gen.SpecIm.calcMaxVelocityPeriod obj ls values dt))
    else
      let obj := stub4 values dt grid 0 (.ok (sd, sv, sa))
      let ls : Rat → Rat → Nat → List Rat := fun a b n => if a = -1 ∧ b = 1 ∧ n = 100 then grid else []
      pure (ofExcept (fun (r : Rat) => [[showRat r]]) (Gen.SpecIm.maxAccelerationPeriod obj ls values dt))
  | _ => throw "c03s.max_period: expected 7 args"

/-- `c03s.period_at_max|<periods…>|<spectrum…>`: `Model.SpectraFns2.periodAtMax` -/
def periodAtMaxH : Handler
  | [ps, sp] => do
    let ps ← rats ps; let sp ← rats sp
    pure (ofExcept (fun (r : Rat) => [[showRat r]]) (Model.SpectraFns2.periodAtMax ps sp))
  | _ => throw "c03s.period_at_max: expected 2 args"

/-- `c03s.sir|<T/F has attribute>|<ai>|<T/F duration ok>|<duration>|<dt>|<values…>`: generated `calc_sir` -/
def sirH : Handler
  | [ha, ai, dok, d, dt, values] => do
    let ha ← bool1 ha; let ai ← rat1 ai; let dok ← bool1 dok; let d ← rat1 d; let dt ← rat1 dt; let values ← rats values
    let sd : List Rat → Rat → Rat → Rat → Except ErrKind Rat := fun m t s e =>
      if m = values ∧ t = dt ∧ s = 1/20 ∧ e = 19/20 then (if dok then .ok d else .error .IndexError) else .error .Other
    pure (ofExcept (fun (r : Rat) => [[showRat r]]) (Gen.SpecIm.calcSir sd (if ha then some ai else none) values dt))
  | _ => throw "c03s.sir: expected 6 args"

/-- `c03s.duhamel|<step>|<motion…>|<w_d>|<E(m) for m = 0…n…>|<S(m) …>` → `ok|<generated loop…>|<code-shaped model…>|<defining sums…>`:
the generated `single_elastic_response` with `exp` / `sin` given by the impl's tabulated factors (lookup on the exact argument is
replaced by the index: `E`, `S` are consumed through `duhamel`), and `Model.SpectraFns2.duhamel`, `duhamelSumAt` -/
def duhamelH : Handler
  | [step, motion, wd, e, s] => do
    let step ← rat1 step; let motion ← rats motion; let wd ← rat1 wd; let e ← rats e; let s ← rats s
    let n := motion.length
    let E : Nat → Rat := fun m => e.getD m 0
    let S : Nat → Rat := fun m => s.getD m 0
    let pAt : Nat → Rat := fun i => motion.getD i 0 * step / wd
    pure (.ok [outRats (Model.SpectraFns2.duhamel E S pAt n),
               outRats ((List.range n).map (Model.SpectraFns2.duhamelSumAt E S pAt))])
  | _ => throw "c03s.duhamel: expected 5 args"

/-- `c03s.ser_gen|<pi>|<step>|<period>|<xi>|<motion…>`: the GENERATED loop with rational stand-ins `sqrt x = x`, `exp t = 1 + t`,
`sin t = t` (structure check against the same stand-ins on the Python side) -/
def serGenH : Handler
  | [pi, step, period, xi, motion] => do
    let pi ← rat1 pi; let step ← rat1 step; let period ← rat1 period; let xi ← rat1 xi; let motion ← rats motion
    pure (.ok [outRats (Gen.SpecSlow.singleElasticResponse pi (fun x => x) (fun t => 1 + t) (fun t => t) motion step period xi)])
  | _ => throw "c03s.ser_gen: expected 5 args"

/-- `c03s.slow|<pi>|<step>|<motion…>|<periods…>|<xis…>|<disp rows, one per period>`: generated `slow_response_spectra` with the
`single_elastic_response` stub that returns row `j` for `periods[j]` -/
def slowH : Handler
  | [pi, step, motion, ps, xis, rows] => do
    let pi ← rat1 pi; let step ← rat1 step; let motion ← rats motion; let ps ← rats ps; let xis ← rats xis; let rows ← parseRows rows
    let ser : List Rat → Rat → Rat → Rat → List Rat := fun m s T x =>
      if m = motion ∧ s = step ∧ some x = xis.head? then
        match (ps.zip rows).find? (fun pr => pr.1 = T) with
        | some pr => pr.2
        | none => []
      else []
    pure (ofExcept (fun (r : List Rat × List Rat × List Rat) => [outRats r.1, outRats r.2.1, outRats r.2.2])
      (Gen.SpecSlow.slowResponseSpectra ser pi motion step ps xis))
  | _ => throw "c03s.slow: expected 6 args"

/-! prelude `NpT` -/
def cummaxH : Handler
  | [l] => do let l ← rats l; pure (.ok [outRats (NpT.cummax l)])
  | _ => throw "nps.cummax: expected 1 arg"
def trapzAxis0H : Handler
  | [m] => do let m ← parseRows m; pure (.ok [outRats (NpT.trapzAxis0 m)])
  | _ => throw "nps.trapz_axis0: expected 1 arg"
def addFromH : Handler
  | [i, b, v] => do let i ← nat1 i; let b ← rats b; let v ← rats v; pure (.ok [outRats (NpT.addFrom i b v)])
  | _ => throw "nps.add_from: expected 3 args"
def pyAtH : Handler
  | [l, k] => do let l ← rats l; let k ← nat1 k; pure (ofExcept (fun (r : Rat) => [[showRat r]]) (NpT.pyAt l k))
  | _ => throw "nps.py_at: expected 2 args"

def handlers : List (String × Handler) :=
  [("c03s.energy", energyH), ("c03s.gen_input", genInputH), ("c03s.gen_target", genTargetH), ("c03s.gen_spectrum", genSpectrumH),
   ("c03s.intensity", intensityH), ("c03s.vsi_temporal", vsiTemporalH), ("c03s.vsi_temporal_model", vsiTemporalModelH),
   ("c03s.cum_arias", cumAriasH), ("c03s.max_period", maxPeriodH), ("c03s.period_at_max", periodAtMaxH), ("c03s.sir", sirH),
   ("c03s.duhamel", duhamelH), ("c03s.ser_gen", serGenH), ("c03s.slow", slowH),
   ("nps.cummax", cummaxH), ("nps.trapz_axis0", trapzAxis0H), ("nps.add_from", addFromH), ("nps.py_at", pyAtH)]

end EqsigVerif.Handlers.Spec2
