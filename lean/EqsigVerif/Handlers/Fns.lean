import EqsigVerif.Prelude.Wire
import EqsigVerif.Model.Fns
/-! driver handlers for `Model/Fns.lean` -/
namespace EqsigVerif.Handlers.Fns
open EqsigVerif EqsigVerif.Wire EqsigVerif.Model.Fns

def chunk {β : Type} (w : Nat) (l : List β) : Nat → List (List β)
  | 0 => []
  | n + 1 => l.take w :: chunk w (l.drop w) n

def parseMode (s : String) : Except String Mode :=
  if s = "forward" then pure .forward else if s = "backward" then pure .backward
  else if s = "centre" then pure .centre else throw s!"bad mode '{s}'"

def parseDir (s : String) : Except String Dir :=
  if s = "none" then pure .none else if s = "up" then pure .up
  else if s = "down" then pure .down else throw s!"bad dir '{s}'"

def showOptRat : Option Rat → String
  | some q => showRat q
  | none => "nan"

/-- `interp2d|<x…>|<xf…>|<nrows>|<width>|<f flat…>` → `ok|<row0…>|<row1…>|…` -/
def interp2dH : Handler
  | [x, xf, nr, w, f] => do
    let x ← rats x; let xf ← rats xf; let nr ← nat1 nr; let w ← nat1 w; let f ← rats f
    pure (ofExcept (fun rows => rows.map outRats) (interp2d x xf (chunk w f nr)))
  | _ => throw "interp2d: expected 5 args"

/-- `interp_left|<x0…>|<x…>|<T/F has y>|<y…>` → `ok|<vals…>` -/
def interpLeftH : Handler
  | [x0, x, hy, y] => do
    let x0 ← rats x0; let x ← rats x; let hy ← bool1 hy; let y ← rats y
    pure (ofExcept (fun r => [outRats r]) (interpLeft x0 x (if hy then some y else none)))
  | _ => throw "interp_left: expected 4 args"

def interpLeftScalarH : Handler
  | [x0, x, hy, y] => do
    let x0 ← rat1 x0; let x ← rats x; let hy ← bool1 hy; let y ← rats y
    pure (ofExcept (fun r => [[showRat r]]) (interpLeftScalar x0 x (if hy then some y else none)))
  | _ => throw "interp_left_scalar: expected 4 args"

/-- `roll_av|<values…>|<steps>|<mode>` -/
def rollAvH : Handler
  | [v, st, m] => do
    let v ← rats v; let st ← nat1 st; let m ← str1 m; let m ← parseMode m
    pure (ofExcept (fun r => [outRats r]) (rollAv v st m))
  | _ => throw "roll_av: expected 3 args"

/-- `step_err|<values…>|<pow>|<dir>` -/
def stepErrH : Handler
  | [v, p, d] => do
    let v ← rats v; let p ← nat1 p; let d ← str1 d; let d ← parseDir d
    pure (ofExcept (fun r => [outRats r]) (stepErr v p d))
  | _ => throw "step_err: expected 3 args"

/-- `step_levels|<values…>|<T/F has ind>|<ind>` → `ok|<pre or nan>|<post or nan>` -/
def stepLevelsH : Handler
  | [v, hi, i] => do
    let v ← rats v; let hi ← bool1 hi
    let ind ← if hi then (do let i ← int1 i; pure (some i)) else pure none
    pure (ofExcept (fun r => [[showOptRat r.1], [showOptRat r.2]]) (stepLevels v ind))
  | _ => throw "step_levels: expected 3 args"

def handlers : List (String × Handler) :=
  [("interp2d", interp2dH), ("interp_left", interpLeftH), ("interp_left_scalar", interpLeftScalarH),
   ("roll_av", rollAvH), ("step_err", stepErrH), ("step_levels", stepLevelsH)]

end EqsigVerif.Handlers.Fns
