import EqsigVerif.Prelude.Wire
import EqsigVerif.Prelude.Fmt
import EqsigVerif.Model.Loader
/-! driver handlers for `Prelude/Fmt.lean` and `Model/Loader.lean`.

Strings travel as space-separated Unicode code points in decimal (tokens cannot contain spaces, newlines
or `|`); the empty string is the empty token list. -/
namespace EqsigVerif.Handlers.Loader
open EqsigVerif EqsigVerif.Wire EqsigVerif.Fmt EqsigVerif.Model.Loader

def strOfCps (l : List String) : Except String String := do
  let ns ← nats l
  pure (String.ofList (ns.map Char.ofNat))

def cpsOfStr (s : String) : List String := s.toList.map (fun c => toString c.toNat)

def showLoaded (r : Loaded) : List (List String) :=
  [[r.ty.toString], outRats r.values, [showRat r.dt], cpsOfStr r.label]

/-- `fmt_fixed|<q>|<d>` → `ok|<code points of '%.df' % q>` -/
def fmtFixedH : Handler
  | [q, d] => do
    let q ← rat1 q; let d ← nat1 d
    pure (.ok [cpsOfStr (fmtFixed q d)])
  | _ => throw "fmt_fixed: expected 2 args"

/-- `fmt_int|<n>` -/
def fmtIntH : Handler
  | [n] => do
    let n ← int1 n
    pure (.ok [cpsOfStr (fmtInt n)])
  | _ => throw "fmt_int: expected 1 arg"

/-- `parse_dec|<code points>` → `ok|<rat>` or `ok|none` -/
def parseDecH : Handler
  | [s] => do
    let s ← strOfCps s
    pure (.ok [[match parseDec s with | some q => showRat q | none => "none"]])
  | _ => throw "parse_dec: expected 1 arg"

/-- `save_text|<values…>|<dt>|<label code points>` → `ok|<code points of the file content>` -/
def saveTextH : Handler
  | [v, dt, lab] => do
    let v ← rats v; let dt ← rat1 dt; let lab ← strOfCps lab
    pure (.ok [cpsOfStr (saveText v dt lab)])
  | _ => throw "save_text: expected 3 args"

/-- `load_text|<code points>` → `ok|<values…>|<dt>` -/
def loadTextH : Handler
  | [t] => do
    let t ← strOfCps t
    pure (ofExcept (fun r => [outRats r.1, [showRat r.2]]) (loadText t))
  | _ => throw "load_text: expected 1 arg"

/-- `load_sig|<code points>|<m>` → `ok|<type>|<values…>|<dt>|<label code points>` -/
def loadSigH : Handler
  | [t, m] => do
    let t ← strOfCps t; let m ← rat1 m
    pure (ofExcept showLoaded (load_sig t m))
  | _ => throw "load_sig: expected 2 args"

/-- `load_asig|<code points>|<T/F load_label>|<m>` -/
def loadAsigH : Handler
  | [t, ll, m] => do
    let t ← strOfCps t; let ll ← bool1 ll; let m ← rat1 m
    pure (ofExcept showLoaded (load_asig t ll m))
  | _ => throw "load_asig: expected 3 args"

/-- `load_signal|<code points>|<astype code points>` → `ok|None` or as `load_sig` -/
def loadSignalH : Handler
  | [t, a] => do
    let t ← strOfCps t; let a ← strOfCps a
    pure (ofExcept (fun r => match r with | some l => showLoaded l | none => [["None"]]) (load_signal t a))
  | _ => throw "load_signal: expected 2 args"

/-- `save_signal|<Signal/AccSignal>|<values…>|<dt>|<label code points>` → `ok|<code points>` -/
def saveSignalH : Handler
  | [ty, v, dt, lab] => do
    let ty ← str1 ty
    let ty ← if ty = "Signal" then pure SigType.Signal else if ty = "AccSignal" then pure SigType.AccSignal
             else throw s!"bad type '{ty}'"
    let v ← rats v; let dt ← rat1 dt; let lab ← strOfCps lab
    pure (.ok [cpsOfStr (save_signal ⟨ty, v, dt, lab⟩)])
  | _ => throw "save_signal: expected 4 args"

def handlers : List (String × Handler) :=
  [("fmt_fixed", fmtFixedH), ("fmt_int", fmtIntH), ("parse_dec", parseDecH), ("save_text", saveTextH),
   ("load_text", loadTextH), ("load_sig", loadSigH), ("load_asig", loadAsigH), ("load_signal", loadSignalH),
   ("save_signal", saveSignalH)]

end EqsigVerif.Handlers.Loader
