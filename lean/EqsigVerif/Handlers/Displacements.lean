import EqsigVerif.Prelude.Wire
import EqsigVerif.Model.Displacements
/-! driver handlers for `Model/Displacements.lean` -/
namespace EqsigVerif.Handlers.Displacements
open EqsigVerif EqsigVerif.Wire EqsigVerif.Model.Displacements

/-- `velodisp|<trap>|<dt>|<a…>` → `ok|<v…>|<d…>` -/
def veloDispH : Handler
  | [trap, dt, a] => do
    let trap ← bool1 trap
    let dt ← rat1 dt
    let a ← rats a
    let (v, d) := veloDisp a dt trap
    pure (.ok [outRats v, outRats d])
  | _ => throw "velodisp: expected 3 args"

/-- `calc_peak|<x…>` → `ok|<peak>` or `err|ValueError` -/
def calcPeakH : Handler
  | [x] => do
    let x ← rats x
    match calcPeak? x with
    | some p => pure (.ok [[showRat p]])
    | none => pure (.err .ValueError)
  | _ => throw "calc_peak: expected 1 arg"

def handlers : List (String × Handler) :=
  [("velodisp", veloDispH), ("calc_peak", calcPeakH)]

end EqsigVerif.Handlers.Displacements
