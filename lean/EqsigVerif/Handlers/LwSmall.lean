import EqsigVerif.Prelude.Wire
import EqsigVerif.Model.Fns
import EqsigVerif.Spec.FnsDir
import EqsigVerif.Handlers.Fns
import EqsigVerif.Model.CavDpFloat
import EqsigVerif.Spec.SwitchedTol
/-! driver handlers for the executable definitions added by `lw_small` (round 7) -/
namespace EqsigVerif.Handlers.LwSmall
open EqsigVerif EqsigVerif.Wire EqsigVerif.Model.Fns

/-- `step_dir_split|<values…>|<pow>|<dir>` → `ok|<k>`: `np.argmin(calc_step_fn_vals_error(values, pow, dir))` -/
def stepDirSplitH : Handler
  | [v, p, d] => do
    let v ← rats v; let p ← nat1 p; let d ← str1 d; let d ← EqsigVerif.Handlers.Fns.parseDir d
    pure (ofExcept (fun (k : Nat) => [[toString k]]) (EqsigVerif.Spec.FnsDir.dirSplit v p d))
  | _ => throw "step_dir_split: expected 3 args"

/-- `fl64|<p>|<q>` (naturals, `q > 0`) → `ok|<fl(p/q) as an exact rational>` -/
def fl64H : Handler
  | [p, q] => do
    let p ← nat1 p; let q ← nat1 q
    pure (.ok [[showRat (EqsigVerif.Model.CavDpFloat.roundQ p q).toRat]])
  | _ => throw "fl64: expected 2 args"

/-- `cavdp_window_f|<dt = m k as two naturals, value m/2^k>|<start>` →
`ok|<int(1/dt)>|<len(arange)>|<selected positions…>|<arange elements…>` -/
def cavdpWindowFH : Handler
  | [dt, st] => do
    let dt ← nats dt; let st ← nat1 st
    match dt with
    | [m, k] =>
      let dt : EqsigVerif.Model.CavDpFloat.Dy := ⟨m, k⟩
      let pps := EqsigVerif.Model.CavDpFloat.ppsOf dt
      pure (.ok [[toString pps], [toString (EqsigVerif.Model.CavDpFloat.arangeLenF dt st)],
        (EqsigVerif.Model.CavDpFloat.selectedF dt pps st).map toString,
        outRats ((EqsigVerif.Model.CavDpFloat.arangeF dt st).map (·.toRat))])
    | _ => throw "cavdp_window_f: dt must be `m k`"
  | _ => throw "cavdp_window_f: expected 2 args"

/-- `switched_tol_conds|<values…>|<tol>` → `ok|<tolSplitsIncluded>|<firstPeakReachesTol>|<allPeaksReachTol>|<peak values…>` -/
def switchedTolCondsH : Handler
  | [v, tol] => do
    let v ← rats v; let tol ← rat1 tol
    pure (.ok [[showBool (EqsigVerif.Spec.SwitchedTol.tolSplitsIncluded v tol)],
      [showBool (EqsigVerif.Spec.SwitchedTol.firstPeakReachesTol v tol)],
      [showBool (EqsigVerif.Spec.SwitchedTol.allPeaksReachTol v tol)],
      outRats (EqsigVerif.Spec.SwitchedTol.peakValues v)])
  | _ => throw "switched_tol_conds: expected 2 args"

def handlers : List (String × Handler) :=
  [("step_dir_split", stepDirSplitH), ("fl64", fl64H), ("cavdp_window_f", cavdpWindowFH),
   ("switched_tol_conds", switchedTolCondsH)]

end EqsigVerif.Handlers.LwSmall
