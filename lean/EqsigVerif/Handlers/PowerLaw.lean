import EqsigVerif.Prelude.Wire
import EqsigVerif.Model.PowerLaw
import EqsigVerif.Model.SwitchedOut
/-! driver handlers for `Model/PowerLaw.lean` (Float twin; the record travels twice: float bit patterns for the
arithmetic and exact rationals for the index detection — the repaired `get_switched_peak_array_indices`,
`Model/SwitchedOut.lean`) -/
namespace EqsigVerif.Handlers.PowerLaw
open EqsigVerif EqsigVerif.Wire EqsigVerif.Model.PowerLaw EqsigVerif.Model.Switched

instance : Inhabited Float := ⟨0.0⟩

def maxAbsF (l : List Float) : Float := l.foldl (fun m x => if m < Float.abs x then Float.abs x else m) 0.0

/-- `n_cyc_power|<a_ref>|<b>|<cut_off>|<floats…>|<rats…>` -/
def nCycH : Handler
  | [aRef, b, cut, vf, vr] => do
    let aRef ← float1 aRef; let b ← float1 b; let cut ← float1 cut
    let vf ← floats vf; let vr ← rats vr
    match switchedPeaksOutE vr 0 with
    | .error k => pure (.err k)
    | .ok idx =>
      let pk := idx.map (fun i => Float.abs (vf.getD i 0.0))
      let pk := cutOff (1.0e-14 : Float) cut (maxAbsF vf) pk
      pure (.ok [outFloats (nCycCore Float.pow 0.5 vf.length idx pk aRef b)])
  | _ => throw "n_cyc_power: expected 5 args"

/-- `cyc_amp_power|<n_cyc>|<b>|<floats…>|<rats…>` -/
def cycAmpH : Handler
  | [nCyc, b, vf, vr] => do
    let nCyc ← float1 nCyc; let b ← float1 b
    let vf ← floats vf; let vr ← rats vr
    match switchedPeaksOutE vr 0 with
    | .error k => pure (.err k)
    | .ok idx => pure (.ok [outFloats (cycAmpCore Float.pow (peakOnlyAbs vf idx) nCyc b)])
  | _ => throw "cyc_amp_power: expected 4 args"

def handlers : List (String × Handler) := [("n_cyc_power", nCycH), ("cyc_amp_power", cycAmpH)]

end EqsigVerif.Handlers.PowerLaw
