import EqsigVerif.Prelude.Wire
import EqsigVerif.Model.Peaks
/-! driver handlers for `Model/Peaks.lean` -/
namespace EqsigVerif.Handlers.Peaks
open EqsigVerif EqsigVerif.Wire EqsigVerif.Model.Peaks

def ptypeH (pt : PType) : Handler
  | [v] => do
    let v ← rats v
    pure (ofExcept (fun l => [outNats l]) (getPeakArrayIndices v pt))
  | _ => throw "peaks: expected 1 arg"

/-- `ncyc|<startOrigin>|<v…>` -/
def ncycH : Handler
  | [o, v] => do
    let o ← bool1 o
    let v ← rats v
    pure (ofExcept (fun l => [outRats l]) (getNCycArray v o))
  | _ => throw "ncyc: expected 2 args"

def seriesH (f : List Rat → Except ErrKind (List Rat)) : Handler
  | [v] => do
    let v ← rats v
    pure (ofExcept (fun l => [outRats l]) (f v))
  | _ => throw "series: expected 1 arg"

def handlers : List (String × Handler) :=
  [("peaks", ptypeH .all), ("peaks_max", ptypeH .max), ("peaks_min", ptypeH .min), ("ncyc", ncycH),
   ("delta_series", seriesH deltaSeries), ("pseudo_cyclic", seriesH pseudoCyclicSeries)]

end EqsigVerif.Handlers.Peaks
