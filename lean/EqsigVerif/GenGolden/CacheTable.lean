import EqsigVerif.Model.SignalSM
/-!
# Golden effect table of `eqsig/single.py` (tree `/tmp/repo_fixed`, class `AccSignal` with the methods it
inherits from `Signal`; overridden methods — `clear_cache` — in their `AccSignal` version)

Hand-written by reading `single.py`; the regenerated twin is `EqsigVerif/Gen/CacheTable.lean`.
Conventions: inputs are the raw attributes (`_values`, `_dt`, `_smooth_fa_freqs`, `_response_times`, `_npts`);
guards are the flag attributes, the memo dict `_cached_params` is one guard per key (`_cached_params.pga`);
`self._cached_params = {}` clears all of them.  `reads` lists only *lazily cached* properties a method reads
before it writes (reads of plain getters such as `self.values`, `self.dt`, `self.npts`, `self.time` have no
effect on the state and are omitted).
-/
namespace EqsigVerif.GenGolden
open EqsigVerif.Model.SignalSM

/-- everything `AccSignal.clear_cache` resets (incl. `reset_all_motion_stats`: `_cached_params = {}`) -/
def allGuards : List String :=
  ["_cached_smooth_fa", "_cached_fa", "_cached_response_spectra", "_cached_disp_and_velo",
   "_cached_params.pga", "_cached_params.pgv", "_cached_params.pgd"]

def cacheTable : CacheTable := {
  methods := [
    -- Signal.__init__ + AccSignal.__init__: `_dt = dt`, `_values = np.array(values)`, smooth_fa_freqs setter
    -- (np.array(…, dtype=float)) or set_smooth_fa_frequecies_by_range (np.logspace), `_npts = len(values)`,
    -- response_times setter with np.linspace(…) / np.array(response_times); flags set False explicitly
    -- (`_cached_fa` only by the class default)
    { name := "__init__", ctor := true,
      writes := [⟨"_dt", .copy⟩, ⟨"_values", .copy⟩, ⟨"_smooth_fa_freqs", .copy⟩, ⟨"_response_times", .copy⟩],
      npts := .updated,
      clears := ["_cached_smooth_fa", "_cached_response_spectra", "_cached_disp_and_velo",
                 "_cached_params.pga", "_cached_params.pgv", "_cached_params.pgd"] },
    -- `values=` setter *returns* a ValueError object: no effect at all
    { name := "values=" },
    -- reset_values: `_values = np.array(new_values)`; `_npts = len(new_values)`; clear_cache()
    { name := "reset_values", writes := [⟨"_values", .copy⟩], npts := .updated, clears := allGuards },
    -- the following all end in `self.reset_values(<fresh array>)`
    { name := "add_constant", writes := [⟨"_values", .copy⟩], npts := .updated, clears := allGuards },
    { name := "add_series", writes := [⟨"_values", .copy⟩], npts := .updated, clears := allGuards },
    { name := "add_signal", writes := [⟨"_values", .copy⟩], npts := .updated, clears := allGuards },
    { name := "butter_pass", writes := [⟨"_values", .copy⟩], npts := .updated, clears := allGuards },
    { name := "remove_average", writes := [⟨"_values", .copy⟩], npts := .updated, clears := allGuards },
    { name := "remove_poly", writes := [⟨"_values", .copy⟩], npts := .updated, clears := allGuards },
    -- running_average: `_values = np.array(self.values, dtype=float)` (same length), `_values[i] = …`, clear_cache()
    { name := "running_average", writes := [⟨"_values", .copy⟩, ⟨"_values", .inplace⟩],
      npts := .lengthPreserved, clears := allGuards },
    -- remove_rolling_average(mtype="velocity"): reads self.velocity; `_values = acc` with
    -- acc = insert(diff(velocity)/dt, 0, ·) (a fresh array with the length of self.velocity; `_npts` is not
    -- assigned); clear_cache()
    { name := "remove_rolling_average/velocity", reads := ["velocity"], writes := [⟨"_values", .copy⟩],
      npts := .lengthOf "velocity", clears := allGuards },
    -- remove_rolling_average(mtype=other): `self._values -= roll`; clear_cache()
    { name := "remove_rolling_average/other", writes := [⟨"_values", .inplace⟩],
      npts := .lengthPreserved, clears := allGuards },
    -- rebase_displacement: reads self.displacement; `self._values -= c`; clear_cache()
    { name := "rebase_displacement", reads := ["displacement"], writes := [⟨"_values", .inplace⟩],
      npts := .lengthPreserved, clears := allGuards },
    -- set_zero_residual_*: `vals = self.values; vals[si:ei] -= d; self.reset_values(vals)`
    { name := "set_zero_residual_velocity", reads := ["velocity", "pga"],
      writes := [⟨"_values", .inplace⟩, ⟨"_values", .copy⟩], npts := .updated, clears := allGuards },
    { name := "set_zero_residual_displacement", reads := ["displacement"],
      writes := [⟨"_values", .inplace⟩, ⟨"_values", .copy⟩], npts := .updated, clears := allGuards },
    { name := "set_zero_residual_displacement_and_velocity", reads := ["displacement", "velocity"],
      writes := [⟨"_values", .inplace⟩, ⟨"_values", .copy⟩], npts := .updated, clears := allGuards },
    -- correct_me: reads self.displacement; reset_values(acc)
    { name := "correct_me", reads := ["displacement"], writes := [⟨"_values", .copy⟩],
      npts := .updated, clears := allGuards },
    -- smoothing-frequency settings
    { name := "smooth_fa_freqs=", writes := [⟨"_smooth_fa_freqs", .copy⟩], clears := ["_cached_smooth_fa"] },
    { name := "smooth_fa_frequencies=", writes := [⟨"_smooth_fa_freqs", .copy⟩], clears := ["_cached_smooth_fa"] },
    { name := "set_smooth_fa_frequecies_by_range", writes := [⟨"_smooth_fa_freqs", .copy⟩],
      clears := ["_cached_smooth_fa"] },
    { name := "smooth_freq_range=", writes := [⟨"_smooth_fa_freqs", .copy⟩], clears := ["_cached_smooth_fa"] },
    { name := "smooth_freq_points=", writes := [⟨"_smooth_fa_freqs", .copy⟩], clears := ["_cached_smooth_fa"] },
    -- response periods: the setter stores the caller's object (`self._response_times = response_times`)
    { name := "response_times=", writes := [⟨"_response_times", .reference⟩],
      clears := ["_cached_response_spectra"] },
    { name := "gen_response_spectrum/given", writes := [⟨"_response_times", .reference⟩],
      clears := ["_cached_response_spectra"], fills := ["_cached_response_spectra"] },
    { name := "gen_response_spectrum/omitted", fills := ["_cached_response_spectra"] },
    { name := "generate_response_spectrum/given", writes := [⟨"_response_times", .reference⟩],
      clears := ["_cached_response_spectra"], fills := ["_cached_response_spectra"] },
    { name := "generate_response_spectrum/omitted", fills := ["_cached_response_spectra"] },
    { name := "response_series/given", writes := [⟨"_response_times", .reference⟩],
      clears := ["_cached_response_spectra"] },
    { name := "response_series/omitted" },
    -- gen_smooth_fa_spectrum(smooth_fa_freqs=…): `_smooth_fa_freqs = smooth_fa_freqs` (no copy, no flag reset),
    -- then recomputes the smoothed spectrum (reading fa_freqs / fa_spectrum lazily) and sets the flag
    { name := "gen_smooth_fa_spectrum/given", writes := [⟨"_smooth_fa_freqs", .reference⟩],
      fills := ["_cached_smooth_fa"] },
    { name := "gen_smooth_fa_spectrum/omitted", fills := ["_cached_smooth_fa"] },
    { name := "generate_smooth_fa_spectrum", fills := ["_cached_smooth_fa"] },
    -- explicit recomputations with default arguments
    { name := "gen_fa_spectrum", fills := ["_cached_fa"] },
    { name := "generate_fa_spectrum", fills := ["_cached_fa"] },
    { name := "generate_displacement_and_velocity_series", fills := ["_cached_disp_and_velo"] },
    -- cache resets
    { name := "clear_cache", clears := allGuards },
    { name := "reset_all_motion_stats",
      clears := ["_cached_params.pga", "_cached_params.pgv", "_cached_params.pgd"] },
    -- methods without effect on inputs or caches
    { name := "get_section_average" },
    { name := "generate_peak_values" },
    { name := "generate_duration_stats" },
    { name := "generate_cumulative_stats" },
    { name := "generate_all_motion_stats" }
  ],
  quantities := [
    -- plain getters
    { name := "values", readsInputs := ["_values"] },
    { name := "dt", readsInputs := ["_dt"] },
    { name := "npts", readsInputs := ["_npts"] },
    { name := "time", readsQuantities := ["npts", "dt"] },
    { name := "smooth_fa_freqs", readsInputs := ["_smooth_fa_freqs"] },
    { name := "smooth_fa_frequencies", readsInputs := ["_smooth_fa_freqs"] },
    { name := "smooth_freq_range", readsQuantities := ["smooth_fa_freqs"] },
    { name := "smooth_freq_points", readsQuantities := ["smooth_fa_freqs"] },
    { name := "response_times", readsInputs := ["_response_times"] },
    -- Fourier spectrum: generate_fa_spectrum → gen_fa_spectrum reads self.npts, self.values, self.dt
    { name := "fa_spectrum", guard := some "_cached_fa", readsQuantities := ["npts", "values", "dt"] },
    { name := "fa_spectrum_abs", guard := some "_cached_fa", readsQuantities := ["npts", "values", "dt"] },
    { name := "fa_freqs", guard := some "_cached_fa", readsQuantities := ["npts", "values", "dt"] },
    { name := "fa_frequencies", readsQuantities := ["fa_freqs"] },
    -- smoothed spectrum: gen_smooth_fa_spectrum reads self.fa_freqs, self.fa_spectrum, self.smooth_fa_freqs
    { name := "smooth_fa_spectrum", guard := some "_cached_smooth_fa",
      readsQuantities := ["fa_freqs", "fa_spectrum", "smooth_fa_freqs"] },
    -- response spectra: gen_response_spectrum reads self.response_times, self.dt, self.values
    { name := "s_a", guard := some "_cached_response_spectra", readsQuantities := ["response_times", "dt", "values"] },
    { name := "s_v", guard := some "_cached_response_spectra", readsQuantities := ["response_times", "dt", "values"] },
    { name := "s_d", guard := some "_cached_response_spectra", readsQuantities := ["response_times", "dt", "values"] },
    -- velocity / displacement: generate_displacement_and_velocity_series reads self.values, self.dt
    { name := "velocity", guard := some "_cached_disp_and_velo", readsQuantities := ["values", "dt"] },
    { name := "displacement", guard := some "_cached_disp_and_velo", readsQuantities := ["values", "dt"] },
    -- peak memo
    { name := "pga", guard := some "_cached_params.pga", readsQuantities := ["values"] },
    { name := "pgv", guard := some "_cached_params.pgv", readsQuantities := ["velocity"] },
    { name := "pgd", guard := some "_cached_params.pgd", readsQuantities := ["displacement"] }
  ] }

end EqsigVerif.GenGolden
