import EqsigVerif.Model.Effects
/-!
# Golden in-place effect summary (PLACEHOLDER with three entries so that `Props/C05.lean` type-checks;
the real list is produced by `tools/py2lean.py --update-golden`)
-/
namespace EqsigVerif.GenGolden
open EqsigVerif.Model.Effects

def effects : List FnEffect := [
  { name := "eqsig.im.calc_peak", inplaceOnParam := false, line := 0 },
  { name := "eqsig.displacements.calc_velo_and_disp_from_accel_arr", inplaceOnParam := false, line := 0 },
  { name := "eqsig.sdof.pseudo_response_spectra", inplaceOnParam := false, line := 0 }
]

end EqsigVerif.GenGolden
