import EqsigVerif.Prelude.Np
import EqsigVerif.Prelude.Wire
import EqsigVerif.Model.Peaks

/-!
# Model of `eqsig/fns/peaks_and_crossings.py` — zero crossings and switched peaks
(hand model, Mathlib-free, executable, over `Rat`; follows the tree with the planned fixes, `/tmp/repo_fixed`)

## `get_zero_crossings_array_indices(values, keep_adj_zeros, tol)`  →  `zeroCrossings`, `zeroCrossingsE`
Stages (same order and tests as the code):
1. `zeroIdx`        : `np.where(values == 0)[0]`;
2. `pruneAdj`       : only `if not keep_adj_zeros and len(zero_indices) > 1`:
                      `diff_is = ediff1d(zero_indices, to_begin=10)`, `no_adj_is = where(diff_is > 1)`, `take`;
3. `signSwitch`     : `insert(values[1:] * values[:-1], 0, values[0])`, `throughZeroIdx = where(sign_switch < 0)`;
4. `sortAsc (z ++ t)` : `np.concatenate` + `.sort()`;
5. `[0]` fallback for an empty result, head insertion of `0` when the first entry is not `0`  (`allZc`);
6. `if tol > 0`: the pruning loop with its `rem_i` bookkeeping (`tolRemStep`, `tolRem`) and `np.delete` (`npDelete`).

Errors (`zeroCrossingsE`): `tol < 0` → `raise NotImplemented(..)` is a `TypeError` (`NotImplemented` is not callable);
empty `values` → `IndexError` (`values[0]` in stage 3).  `zeroCrossings` is the pure pipeline on the
domain `v ≠ []`, `tol ≥ 0` (all theorems are stated under `v ≠ []`).

## `get_switched_peak_array_indices(values, tol)`  →  `switchedPeaks`, `switchedPeaksE`  (the loop; the function's final
`return np.unique(switched_peak_indices)` — repair of finding F12-3 — is `switchedPeaksOut`, `switchedPeaksOutE` of `Model/SwitchedOut.lean`)
The running-set loop over `peaks v` as the recursive `groupsAux`/`groups` (seed `id` = the fixed code
`peak_values_set = [peak_values[0]]`; `fun _ => 0` would be the unfixed placeholder).  Groups hold
`(position in the peak arrays, peak value)` exactly as `peak_indices_set` / `peak_values_set`;
`report` is `peak_indices_set[np.argmax(np.abs(peak_values_set))]` (first maximum); the final flush is the
`[] => [cur]` case of `groupsAux` (the open set is never empty, so `if len(peak_values_set)` is always taken;
the two `append`s after it are dead code); the result is `np.take(peak_indices, new_peak_indices)`.
Errors (`switchedPeaksE`): empty `values` → `IndexError` (`values[0]` in `clean_out_non_changing`).
There is no `tol < 0` guard in this function; the model evaluates the same expression for every `tol`.
-/
namespace EqsigVerif.Model.Switched
open EqsigVerif

/-! ### zero crossings -/

/-- stage 1: `np.where(values == 0)[0]` -/
def zeroIdx (v : List Rat) : List Nat := Np.whereIdx (fun x => decide (x = 0)) v

/-- stage 2: `diff_is = np.ediff1d(zero_indices, to_begin=10); no_adj_is = np.where(diff_is > 1)[0];
`np.take(zero_indices, no_adj_is)` (index differences are computed in `Int`, as NumPy's `int64`) -/
def pruneAdj (z : List Nat) : List Nat :=
  let diffIs : List Int := Np.ediff1d 10 (z.map Int.ofNat)
  let noAdjIs : List Nat := Np.whereIdx (fun d => decide (1 < d)) diffIs
  noAdjIs.map (fun k => z.getD k 0)

/-- stage 3: `np.insert(values[1:] * values[:-1], 0, values[0])` (`zipWith` truncates `x :: xs` to `values[:-1]`) -/
def signSwitch : List Rat → List Rat
  | [] => []
  | x :: xs => x :: List.zipWith (· * ·) xs (x :: xs)

/-- stage 3: `np.where(sign_switch < 0)[0]` -/
def throughZeroIdx (v : List Rat) : List Nat := Np.whereIdx (fun s => decide (s < 0)) (signSwitch v)

/-- insertion into an ascending list -/
def insertAsc (a : Nat) : List Nat → List Nat
  | [] => [a]
  | b :: bs => if a ≤ b then a :: b :: bs else b :: insertAsc a bs

/-- stage 4: `ndarray.sort()` on an index array (insertion sort; only the sorted value matters) -/
def sortAsc (l : List Nat) : List Nat := l.foldr insertAsc []

/-- stages 1–5: `all_zc_indices` just before `if tol > 0` -/
def allZc (v : List Rat) (keepAdj : Bool) : List Nat :=
  let z0 := zeroIdx v
  let z := if !keepAdj && decide (1 < z0.length) then pruneAdj z0 else z0
  let all := sortAsc (z ++ throughZeroIdx v)
  match all with
  | [] => [0]                                            -- `if len(all_zc_indices) == 0: return np.array([0])`
  | a :: rest => if a ≠ 0 then 0 :: a :: rest else a :: rest   -- `np.insert(all_zc_indices, 0, 0)`

/-- stage 6, one iteration `k` of `for k, ind in enumerate(all_zc_indices[:-1])` on the state `rem_i` -/
def tolRemStep (v : List Rat) (tol : Rat) (zc : List Nat) (rem : List Nat) (k : Nat) : List Nat :=
  if k ∈ rem then rem                                    -- `if k in rem_i: continue`
  else
    let ind := zc.getD k 0
    let ind1 := zc.getD (k+1) 0
    match Np.maxL? (Np.absL (Np.slice v ind ind1)) with  -- `max(abs(values[ind:ind1]))`
    | some m => if m < tol then rem ++ [k, k+1] else rem -- `rem_i += [k, k+1]`
    | none => rem   -- `max([])` would be a `ValueError`; unreachable: `zc` is strictly ascending and `< len v`

/-- stage 6: the final `rem_i` -/
def tolRem (v : List Rat) (tol : Rat) (zc : List Nat) : List Nat :=
  (List.range (zc.length - 1)).foldl (tolRemStep v tol zc) []

/-- `np.delete(l, rem)` for in-range positions, from a running position -/
def npDeleteFrom (rem : List Nat) (i : Nat) : List Nat → List Nat
  | [] => []
  | x :: xs => if i ∈ rem then npDeleteFrom rem (i+1) xs else x :: npDeleteFrom rem (i+1) xs

/-- `np.delete(l, rem)` -/
def npDelete (l : List Nat) (rem : List Nat) : List Nat := npDeleteFrom rem 0 l

/-- `get_zero_crossings_array_indices(values, keep_adj_zeros, tol)` on its domain (`v ≠ []`, `tol ≥ 0`) -/
def zeroCrossings (v : List Rat) (keepAdj : Bool) (tol : Rat) : List Nat :=
  let all := allZc v keepAdj
  if 0 < tol then npDelete all (tolRem v tol all) else all

/-- `get_zero_crossings_array_indices` with its error branches -/
def zeroCrossingsE (v : List Rat) (keepAdj : Bool) (tol : Rat) : Except Wire.ErrKind (List Nat) :=
  if tol < 0 then .error .TypeError          -- `raise NotImplemented('not implemented')`
  else if v.isEmpty then .error .IndexError  -- `values[0]`
  else .ok (zeroCrossings v keepAdj tol)

/-! ### switched peaks -/

/-- `np.sign` -/
def sgn (x : Rat) : Rat := if 0 < x then 1 else if x < 0 then -1 else 0

/-- the loop `for i in range(1, len(peak_values))`: groups of `(i, peak_values[i])`;
`last` = reference value of the open group `cur`; `[] => [cur]` is the final flush -/
def groupsAux (tol : Rat) (last : Rat) (cur : List (Nat × Rat)) : List (Nat × Rat) → List (List (Nat × Rat))
  | [] => [cur]
  | (i, pv) :: rest =>
    if (pv + tol * sgn last) * last ≤ 0 then cur :: groupsAux tol pv [(i, pv)] rest
    else groupsAux tol last (cur ++ [(i, pv)]) rest

/-- `seed` is the value stored for position 0 in the first group:
the fixed code stores `peak_values[0]` (`seed = id`); the unfixed code stored the placeholder `0`. -/
def groups (tol : Rat) (seed : Rat → Rat) : List (Nat × Rat) → List (List (Nat × Rat))
  | [] => []
  | (i0, p0) :: rest => groupsAux tol p0 [(i0, seed p0)] rest

/-- `peak_indices_set[np.argmax(np.abs(peak_values_set))]` (first maximum of `|·|`) -/
def report (g : List (Nat × Rat)) : Nat :=
  (g.map (·.1)).getD (Np.argmax (Np.absL (g.map (·.2)))) 0

/-- `(i, peak_values[i])` for `i = 0 … len(peak_indices) − 1`, with `peak_values = np.take(values, peak_indices)` -/
def peakPosItems (v : List Rat) (pk : List Nat) : List (Nat × Rat) :=
  (List.range pk.length).zip (pk.map (fun p => v.getD p 0))

/-- `new_peak_indices` (positions in the peak arrays) -/
def newPeakPositions (v : List Rat) (tol : Rat) : List Nat :=
  (groups tol id (peakPosItems v (Peaks.peaks v))).map report

/-- the local `switched_peak_indices` of `get_switched_peak_array_indices(values, tol)` on its domain (`v ≠ []`):
`np.take(peak_indices, new_peak_indices)` (the function returns `np.unique` of it: `Model/SwitchedOut.lean`) -/
def switchedPeaks (v : List Rat) (tol : Rat) : List Nat :=
  let pk := Peaks.peaks v
  (newPeakPositions v tol).map (fun k => pk.getD k 0)

/-- the loop of `get_switched_peak_array_indices` with its error branch (the function itself: `switchedPeaksOutE`) -/
def switchedPeaksE (v : List Rat) (tol : Rat) : Except Wire.ErrKind (List Nat) :=
  if v.isEmpty then .error .IndexError       -- `values[0]` in `clean_out_non_changing`
  else .ok (switchedPeaks v tol)

end EqsigVerif.Model.Switched
