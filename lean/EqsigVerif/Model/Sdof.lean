/-!
# Model of `eqsig/sdof.py` — Nigam & Jennings response recurrence (hand model, Mathlib-free, generic)

`nigam_and_jennings_response(acc, dt, periods, xi)`:
* the record is negated; `s = 1` iff `periods[0] == 0`; `w = 6.2831853 / periods[s:]`;
* `A, B = compute_a_and_b(xi, w, dt)` (closed forms — *generated* from the Python source into
  `Gen/SdofAB*.lean`; here the propagator is a parameter `ab : α → AB α` from `w`);
* time-major update `x_{i+1} = A x_i + B (acc_i, acc_{i+1})` from the zero state, for every period at once
  (the rows do not interact, so the model computes row by row: theorem `C02.d`);
* third series `-2*xi*w*v - w**2*u`; with a leading zero period: zero rows of `u`,`v`, the (negated) record as `a` row.

`response_series` and `AccSignal.response_series` are thin wrappers (same arrays).
-/
namespace EqsigVerif.Model.Sdof

/-- the two 2×2 propagator matrices of one oscillator -/
structure AB (α : Type) where
  a11 : α
  a12 : α
  a21 : α
  a22 : α
  b11 : α
  b12 : α
  b21 : α
  b22 : α
  deriving Repr

variable {α : Type}

section Core
variable [Add α] [Mul α]

/-- Eq 2.7a: `x_{i+1} = A x_i + B (acc_i, acc_{i+1})` in the code's order of operations -/
def step (m : AB α) (x : α × α) (ai ai1 : α) : α × α :=
  (m.a11 * x.1 + m.a12 * x.2 + m.b11 * ai + m.b12 * ai1,
   m.a21 * x.1 + m.a22 * x.2 + m.b21 * ai + m.b22 * ai1)

/-- states after the current sample, given current state and current sample -/
def runFrom (m : AB α) (x : α × α) (ai : α) : List α → List (α × α)
  | [] => []
  | a :: rest => step m x ai a :: runFrom m (step m x ai a) a rest

variable [OfNat α 0]

/-- full state series `(u_i, v_i)` of one oscillator (same length as the record), zero initial state;
`acc` is the already negated record -/
def run (m : AB α) : List α → List (α × α)
  | [] => []
  | a :: rest => (0, 0) :: runFrom m (0, 0) a rest

end Core

section Rows
variable [Add α] [Mul α] [Sub α] [Neg α] [OfNat α 0] [OfNat α 2]

/-- third series of one oscillator: `-2*xi*w*v - w**2*u` (`w**2` as `w*w`) -/
def accRow (xi w : α) (uv : List (α × α)) : List α :=
  uv.map (fun x => -2 * xi * w * x.2 - w * w * x.1)

/-- the three series of one oscillator of circular frequency `w`; `nacc` is the negated record -/
def rowFor (ab : α → AB α) (xi w : α) (nacc : List α) : List α × List α × List α :=
  let uv := run (ab w) nacc
  (uv.map (·.1), uv.map (·.2), accRow xi w uv)

variable [Div α]

/-- `nigam_and_jennings_response`: rows of `(u, v, a)` per period. `c` is the constant `6.2831853`,
`isZero` the test `periods[0] == 0`. An empty period list is `IndexError` in Python (`none`). -/
def response (c : α) (isZero : α → Bool) (ab : α → AB α) (xi : α) (acc : List α) (periods : List α) :
    Option (List (List α × List α × List α)) :=
  let nacc := acc.map (fun x => -x)
  match periods with
  | [] => none
  | p0 :: rest =>
    if isZero p0 then
      some ((nacc.map (fun _ => 0), nacc.map (fun _ => 0), nacc) :: rest.map (fun p => rowFor ab xi (c / p) nacc))
    else
      some ((p0 :: rest).map (fun p => rowFor ab xi (c / p) nacc))

end Rows

end EqsigVerif.Model.Sdof
