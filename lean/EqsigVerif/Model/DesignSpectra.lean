import EqsigVerif.Prelude.Wire
/-!
# `eqsig/design_spectra.py` — NZS 1170.5 spectral shape tables (Mathlib-free, executable)

Hand model of `c_h_factor`, `sd_nzs`, `t_eff`, written once, generically over *core* operation
classes, so that the same definitions are
* executed by the driver at `Float` (`pow34 := fun x => Float.pow x 0.75`, `pi := 3.141592653589793`),
* reasoned about at `ℝ` (`pow34 := fun x => x ^ (0.75 : ℝ)`, `pi := Real.pi`) in `Props/C20f.lean`.

Conventions
* decimal literals of the source (`1.33`, `1.60`, `0.1`, …) are scientific literals through
  `[OfScientific α]`: the exact decimal at `ℚ`/`ℝ`, the nearest double at `Float` (as in Python);
  the integer literals of the source (`tt == 0`, `period < 0`, `2 * np.pi`) are `OfNat` literals;
* `x ** 0.75` is the abstract parameter `pow34`, `x ** 2` is written `x * x`, `np.pi` is the parameter `pi`;
* branches are in EXACTLY the Python order, one `if … else if …` chain per site class, expression
  shapes (association, precedence) as in the source;
* Python exceptions: `ValueError` ↦ `Except.error ErrKind.ValueError`; nothing is totalised.
-/
namespace EqsigVerif.Model.DesignSpectra
open EqsigVerif.Wire

/-- the three site classes the tables know (`'C'`, `'D'`, `'E'`) -/
inductive SiteClass
  | C | D | E
  deriving Repr, DecidableEq, Inhabited

/-- `site_class == 'C'` / `'D'` / `'E'`; any other string falls to the `else: raise ValueError` -/
def parseSiteClass (s : String) : Option SiteClass :=
  if s = "C" then some .C else if s = "D" then some .D else if s = "E" then some .E else none

section Tables
variable {α : Type} [Add α] [Sub α] [Mul α] [Div α] [LT α] [DecidableLT α] [BEq α]
  [OfNat α 0] [OfNat α 2] [OfScientific α]

/-! ### `c_h_factor`: the body of the `for` loop for one period `tt` -/

/-- `site_class == 'C'` chain of `c_h_factor` -/
def chC (pow34 : α → α) (tt : α) : α :=
  if tt == 0 then 1.33
  else if tt < 0.1 then 1.33 + 1.60 * (tt / 0.1)
  else if tt < 0.3 then 2.93
  else if tt < 1.5 then 2.0 * pow34 (0.5 / tt)
  else if tt < 3.0 then 1.32 / tt
  else 3.96 / (tt * tt)

/-- `site_class == 'D'` chain of `c_h_factor` -/
def chD (pow34 : α → α) (tt : α) : α :=
  if tt == 0 then 1.12
  else if tt < 0.1 then 1.12 + 1.88 * (tt / 0.1)
  else if tt < 0.56 then 3.0
  else if tt < 1.5 then 2.4 * pow34 (0.75 / tt)
  else if tt < 3.0 then 2.14 / tt
  else 6.42 / (tt * tt)

/-- `site_class == 'E'` chain of `c_h_factor` -/
def chE (pow34 : α → α) (tt : α) : α :=
  if tt == 0 then 1.12
  else if tt < 0.1 then 1.12 + 1.88 * (tt / 0.1)
  else if tt < 1.0 then 3.0
  else if tt < 1.5 then 3.0 / pow34 tt
  else if tt < 3.0 then 3.32 / tt
  else 9.96 / (tt * tt)

/-- the class dispatch `if site_class == 'C' … elif 'D' … elif 'E'` of `c_h_factor` -/
def chTable (pow34 : α → α) (tt : α) : SiteClass → α
  | .C => chC pow34 tt
  | .D => chD pow34 tt
  | .E => chE pow34 tt

/-- `c_h_factor(period, site_class)` for ONE period (`isinstance(period, float)`), class already parsed.
`if tt < 0: raise ValueError` comes first. -/
def c_h_factor (pow34 : α → α) (tt : α) (site_class : SiteClass) : Except ErrKind α :=
  if tt < 0 then .error .ValueError
  else .ok (chTable pow34 tt site_class)

/-- `c_h_factor(period, site_class)` for one period with the class as the Python string: the period check
comes first, then the `else: raise ValueError` of the class dispatch. -/
def c_h_factor_str (pow34 : α → α) (tt : α) (site_class : String) : Except ErrKind α :=
  if tt < 0 then .error .ValueError
  else
    match parseSiteClass site_class with
    | some c => .ok (chTable pow34 tt c)
    | none => .error .ValueError

/-- `c_h_factor(period, site_class)` for an array/list of periods: the loop fills `c_h_values[i]` in order,
the first period that raises aborts the call (an empty array returns an empty array). -/
def c_h_factor_arr (pow34 : α → α) (period : List α) (site_class : SiteClass) : Except ErrKind (List α) :=
  period.mapM (fun tt => c_h_factor pow34 tt site_class)

/-- array form with the class as a string (an unknown class raises at the first element — an EMPTY array
with an unknown class returns the empty array, as in Python). -/
def c_h_factor_arr_str (pow34 : α → α) (period : List α) (site_class : String) : Except ErrKind (List α) :=
  period.mapM (fun tt => c_h_factor_str pow34 tt site_class)

/-! ### `sd_nzs` -/

/-- `site_class == 'C'` chain of `sd_nzs` (the local `c_h`, which is `C_h(T)·T²`) -/
def sdC (pow34 : α → α) (period : α) : α :=
  if period == 0 then 1.33 * (period * period)
  else if period < 0.1 then (1.33 + 1.60 * (period / 0.1)) * (period * period)
  else if period < 0.3 then 2.93 * (period * period)
  else if period < 1.5 then (2.0 * pow34 (0.5 / period)) * (period * period)
  else if period < 3.0 then 1.32 / period * (period * period)
  else 3.96

/-- `site_class == 'D'` chain of `sd_nzs` -/
def sdD (pow34 : α → α) (period : α) : α :=
  if period == 0 then 1.12 * (period * period)
  else if period < 0.1 then (1.12 + 1.88 * (period / 0.1)) * (period * period)
  else if period < 0.56 then 3.0 * (period * period)
  else if period < 1.5 then 2.4 * pow34 (0.75 / period) * (period * period)
  else if period < 3.0 then 2.14 / period * (period * period)
  else 6.42

/-- `site_class == 'E'` chain of `sd_nzs` -/
def sdE (pow34 : α → α) (period : α) : α :=
  if period == 0 then 1.12 * (period * period)
  else if period < 0.1 then (1.12 + 1.88 * (period / 0.1)) * (period * period)
  else if period < 1.0 then 3.0 * (period * period)
  else if period < 1.5 then 3.0 / pow34 period * (period * period)
  else if period < 3.0 then 3.32 / period * (period * period)
  else 9.96

/-- class dispatch of `sd_nzs` -/
def sdTable (pow34 : α → α) (period : α) : SiteClass → α
  | .C => sdC pow34 period
  | .D => sdD pow34 period
  | .E => sdE pow34 period

/-- `sd_nzs(period, site_class, z_factor, r_factor, n_factor)` (scalar period), class already parsed:
`if period < 0: raise ValueError`, then the table, then `sd = c_h * z_factor * n_factor * r_factor`. -/
def sd_nzs (pow34 : α → α) (period : α) (site_class : SiteClass) (z_factor r_factor n_factor : α) :
    Except ErrKind α :=
  if period < 0 then .error .ValueError
  else
    let c_h := sdTable pow34 period site_class
    .ok (c_h * z_factor * n_factor * r_factor)

/-- `sd_nzs` with the class as the Python string (period check first, then the class). -/
def sd_nzs_str (pow34 : α → α) (period : α) (site_class : String) (z_factor r_factor n_factor : α) :
    Except ErrKind α :=
  if period < 0 then .error .ValueError
  else
    match parseSiteClass site_class with
    | some c =>
      let c_h := sdTable pow34 period c
      .ok (c_h * z_factor * n_factor * r_factor)
    | none => .error .ValueError

/-! ### `t_eff` -/

/-- `gravity = 9.81` -/
def gravity : α := 9.81

/-- `t_c = 3.0` (the same in the three branches) -/
def t_c : α := 3.0

/-- the leading coefficient of `d_c` in the three branches of `t_eff` (`3.96`, `6.42`, `9.96`) -/
def dcCoeff : SiteClass → α
  | .C => 3.96
  | .D => 6.42
  | .E => 9.96

/-- `d_c = 3.96 * z_factor * r_factor * n_factor / (2 * np.pi) ** 2 * gravity`
(Python association: `((((3.96*z)*r)*n) / (2π)²) * gravity`) -/
def d_c (pi : α) (site_class : SiteClass) (z_factor r_factor n_factor : α) : α :=
  dcCoeff site_class * z_factor * r_factor * n_factor / ((2 * pi) * (2 * pi)) * gravity

/-- `t_eff(displacement, site_class, z_factor, r_factor, n_factor)`, class already parsed:
`if displacement > d_c: raise ValueError else time = t_c * displacement / d_c`.
The division of Python floats raises `ZeroDivisionError` when `d_c == 0` (i.e. `z·r·n = 0`, reached only
for `displacement ≤ 0`) [observed: `t_eff(0., 'C', 0., 1., 1.)`]; it is not hidden in `x / 0 = 0`. -/
def t_eff (pi : α) (displacement : α) (site_class : SiteClass) (z_factor r_factor n_factor : α) :
    Except ErrKind α :=
  let dc := d_c pi site_class z_factor r_factor n_factor
  if dc < displacement then .error .ValueError
  else if dc == 0 then .error .ZeroDivisionError
  else .ok (t_c * displacement / dc)

/-- `t_eff` with the class as the Python string: the class check comes first. -/
def t_eff_str (pi : α) (displacement : α) (site_class : String) (z_factor r_factor n_factor : α) :
    Except ErrKind α :=
  match parseSiteClass site_class with
  | some c => t_eff pi displacement c z_factor r_factor n_factor
  | none => .error .ValueError

end Tables

end EqsigVerif.Model.DesignSpectra

