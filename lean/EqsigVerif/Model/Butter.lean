import EqsigVerif.Prelude.Wire
import EqsigVerif.Prelude.Cplx
import EqsigVerif.Model.Single
/-!
# Model of `scipy.signal.butter(N, Wn, btype)` — what `Signal.butter_pass` asks SciPy for (C17, gain clause)

`eqsig/single.py::butter_pass` ends with

```python
wp = cut_off / nyq                                   # Model.Single.normCut
b, a = butter(filter_order, wp, btype=filter_type)   # scipy.signal.butter, digital, output='ba'
mote = filtfilt(b, a, mote)
```

This file models the SciPy routine (scipy 1.18, `scipy/signal/_filter_design.py`: `butter` → `iirfilter(ftype='butter')`),
stage by stage:

```python
# iirfilter
if any(Wn <= 0): raise ValueError
if size(Wn) > 1 and not Wn[0] < Wn[1]: raise ValueError
z, p, k = buttap(N)                                  # z = [], p = -exp(1j*pi*m/(2N)), m = -N+1, -N+3 … N-1, k = 1
if any(Wn <= 0) or any(Wn >= 1): raise ValueError
fs = 2.0; warped = 2 * fs * tan(pi * Wn / fs)        # pre-warping
lowpass : size(Wn) != 1 → ValueError;  z, p, k = lp2lp_zpk(z, p, k, wo=warped)
highpass: size(Wn) != 1 → ValueError;  z, p, k = lp2hp_zpk(z, p, k, wo=warped)
bandpass: bw = warped[1] - warped[0]; wo = sqrt(warped[0] * warped[1])   (IndexError → ValueError)
          z, p, k = lp2bp_zpk(z, p, k, wo=wo, bw=bw)
z, p, k = bilinear_zpk(z, p, k, fs=fs)
return zpk2tf(z, p, k)                               # b = k * poly(z), a = poly(p)
```

Number types as in `Model/Resample.lean`: `α` reals, `β` complex numbers over `α` (`CxLike α β`; `Cx Float` when run,
Mathlib's `ℂ` in the theorems).  The transcendental functions are a parameter (`Fns α β`: `π`, `tan`, `sqrt`,
`θ ↦ e^{iθ}`, a complex square root); `fnsFloat` is the `Float` twin that the driver runs and that is compared with
the real `scipy.signal.butter` on every run (`corr_butter`).

`np.poly` returns the real part of the coefficient array when the roots are closed under conjugation; on the
Butterworth path they always are (theorems `Props.C17.butter_*_real`), the model takes the real parts.
`_relative_degree` raises when there are more zeros than poles: unreachable here (`buttap` has no zeros and every stage
keeps `len z ≤ len p`), the stages use the natural-number difference.

A critical frequency `Wn` is a list of the values handed over: `[w]` stands for the *scalar* `w` (what `butter_pass`
passes for low/high pass), `[w₁, w₂]` for the 2-array of a band pass.
-/
namespace EqsigVerif.Model.Butter
open EqsigVerif EqsigVerif.Cplx EqsigVerif.Wire
open EqsigVerif.Model.Single (FilterType)

/-- the transcendental functions `butter` uses: reals `α`, complex numbers `β` -/
structure Fns (α β : Type) where
  /-- `np.pi` -/
  pi : α
  /-- `np.tan` -/
  tan : α → α
  /-- `np.sqrt` on non-negative reals -/
  sqrt : α → α
  /-- `θ ↦ np.exp(1j*θ) = cos θ + i·sin θ` -/
  cis : α → β
  /-- `np.sqrt` on `complex128` (a square root: the theorems only use `csqrt w * csqrt w = w`) -/
  csqrt : β → β

/-- principal complex square root on `Cx Float` (the usual cancellation-free formulas) -/
def csqrtFloat (z : Cx Float) : Cx Float :=
  if z.re == 0.0 && z.im == 0.0 then ⟨0.0, z.im⟩
  else
    let m := Float.sqrt (z.re * z.re + z.im * z.im)
    let t := Float.sqrt ((Float.abs z.re + m) / 2.0)
    if z.re >= 0.0 then ⟨t, z.im / (2.0 * t)⟩
    else ⟨Float.abs z.im / (2.0 * t), if z.im < 0.0 then -t else t⟩

/-- the `Float` twin of the transcendental functions (libm) -/
def fnsFloat : Fns Float (Cx Float) where
  pi := 3.141592653589793
  tan := Float.tan
  sqrt := Float.sqrt
  cis := fun t => ⟨Float.cos t, Float.sin t⟩
  csqrt := csqrtFloat

section Poly
variable {β : Type} [Add β] [Sub β] [Mul β] [Neg β] [OfNat β 0] [OfNat β 1]

/-- `np.prod` -/
def prodL : List β → β
  | [] => 1
  | x :: xs => x * prodL xs

/-- `np.convolve(a, [1, -r])` (full): `out[i] = a[i] − r·a[i−1]` — multiplication of the polynomial with
coefficients `a` (highest power first) by `(x − r)`; defined by recursion with the carried previous entry -/
def mulLinearAux (r : β) (prev : β) : List β → List β
  | [] => [-(r * prev)]
  | x :: xs => (x - r * prev) :: mulLinearAux r x xs

/-- `convolve(a, [1, -r])` for a non-empty `a` -/
def mulLinear (a : List β) (r : β) : List β :=
  match a with
  | [] => []
  | x :: xs => x :: mulLinearAux r x xs

/-- `np.poly(roots)` before its real-part step: `a = [1]; for r in roots: a = convolve(a, [1, -r])` — the
coefficients (highest power first) of `Π (x − r)` -/
def poly (roots : List β) : List β := roots.foldl mulLinear [1]

/-- `np.polyval(c, x)` (Horner, highest power first) -/
def polyval (c : List β) (x : β) : β := c.foldl (fun acc ck => acc * x + ck) 0

end Poly

section Stages
variable {α β : Type} [Add α] [Sub α] [Mul α] [Div α] [OfNat α 0] [OfNat α 1] [NatCast α]
  [Add β] [Sub β] [Mul β] [Div β] [Neg β] [OfNat β 0] [OfNat β 1] [CxLike α β]

/-- `x ** n` for a natural exponent -/
def powN (x : α) : Nat → α
  | 0 => 1
  | n + 1 => powN x n * x

/-- a zeros–poles–gain triple -/
structure Zpk (α β : Type) where
  z : List β
  p : List β
  k : α

/-- `buttap(N)`: no zeros, poles `−exp(iπm/(2N))` for `m = −N+1, −N+3, …, N−1` (the `j`-th is `m = 2j+1−N`), gain 1 -/
def buttap (F : Fns α β) (n : Nat) : Zpk α β :=
  { z := []
    p := (List.range n).map (fun (j : Nat) =>
      -(F.cis (F.pi * (((2 * j + 1 : Nat) : α) - ((n : Nat) : α)) / (((2 * n : Nat)) : α))))
    k := 1 }

/-- pre-warping `2·fs·tan(π·Wn/fs)` with `fs = 2` -/
def prewarp (F : Fns α β) (w : α) : α := ((4 : Nat) : α) * F.tan (F.pi * w / ((2 : Nat) : α))

/-- `_relative_degree(z, p)` on its non-raising domain `len z ≤ len p` -/
def relDeg (s : Zpk α β) : Nat := s.p.length - s.z.length

/-- `lp2lp_zpk(z, p, k, wo)`: `z·wo`, `p·wo`, `k·wo^degree` -/
def lp2lp (s : Zpk α β) (wo : α) : Zpk α β :=
  { z := s.z.map (fun r => CxLike.ofReal wo * r)
    p := s.p.map (fun r => CxLike.ofReal wo * r)
    k := s.k * powN wo (relDeg s) }

/-- `lp2hp_zpk(z, p, k, wo)`: `wo/z ++ zeros(degree)`, `wo/p`, `k·real(prod(−z)/prod(−p))` -/
def lp2hp (s : Zpk α β) (wo : α) : Zpk α β :=
  { z := s.z.map (fun r => CxLike.ofReal wo / r) ++ List.replicate (relDeg s) 0
    p := s.p.map (fun r => CxLike.ofReal wo / r)
    k := s.k * CxLike.re (prodL (s.z.map (fun r => -r)) / prodL (s.p.map (fun r => -r))) }

/-- `lp2bp_zpk(z, p, k, wo, bw)`: with `z' = z·bw/2`, `p' = p·bw/2`:
`[z' + √(z'² − wo²)] ++ [z' − √(z'² − wo²)] ++ zeros(degree)`, the same for the poles, `k·bw^degree` -/
def lp2bp (F : Fns α β) (s : Zpk α β) (wo bw : α) : Zpk α β :=
  let half (r : β) : β := r * CxLike.ofReal bw / CxLike.ofReal ((2 : Nat) : α)
  let rt (r : β) : β := F.csqrt (half r * half r - CxLike.ofReal (wo * wo))
  { z := s.z.map (fun r => half r + rt r) ++ s.z.map (fun r => half r - rt r) ++ List.replicate (relDeg s) 0
    p := s.p.map (fun r => half r + rt r) ++ s.p.map (fun r => half r - rt r)
    k := s.k * powN bw (relDeg s) }

/-- `bilinear_zpk(z, p, k, fs)` with `fs = 2` (`fs2 = 4`): `(fs2 + z)/(fs2 − z) ++ (−1)·ones(degree)`,
`(fs2 + p)/(fs2 − p)`, `k·real(prod(fs2 − z)/prod(fs2 − p))` -/
def bilinear (s : Zpk α β) : Zpk α β :=
  let four : β := CxLike.ofReal ((4 : Nat) : α)
  { z := s.z.map (fun r => (four + r) / (four - r)) ++ List.replicate (relDeg s) (-1)
    p := s.p.map (fun r => (four + r) / (four - r))
    k := s.k * CxLike.re (prodL (s.z.map (fun r => four - r)) / prodL (s.p.map (fun r => four - r))) }

/-- `zpk2tf(z, p, k)`: `b = k·poly(z)`, `a = poly(p)` (real parts: the roots are closed under conjugation) -/
def zpk2tf (s : Zpk α β) : List α × List α :=
  ((poly s.z).map (fun c => s.k * CxLike.re c), (poly s.p).map (fun c => CxLike.re c))

end Stages

section Butter
variable {α β : Type} [Add α] [Sub α] [Mul α] [Div α] [OfNat α 0] [OfNat α 1] [NatCast α]
  [LT α] [DecidableLT α] [LE α] [DecidableLE α]
  [Add β] [Sub β] [Mul β] [Div β] [Neg β] [OfNat β 0] [OfNat β 1] [CxLike α β]

/-- the analog filter of the requested type: prototype, pre-warped frequencies, `lp2lp/lp2hp/lp2bp` (on accepted `Wn`) -/
def analogZpk (F : Fns α β) (n : Nat) (ft : FilterType) (wn : List α) : Zpk α β :=
  match ft with
  | .low => lp2lp (buttap F n) (prewarp F (wn.getD 0 0))
  | .high => lp2hp (buttap F n) (prewarp F (wn.getD 0 0))
  | .band =>
    let w0 := prewarp F (wn.getD 0 0)
    let w1 := prewarp F (wn.getD 1 0)
    lp2bp F (buttap F n) (F.sqrt (w0 * w1)) (w1 - w0)

/-- the digital filter in zeros–poles–gain form (`butter(…, output='zpk')`), on accepted `Wn` -/
def digitalZpk (F : Fns α β) (n : Nat) (ft : FilterType) (wn : List α) : Zpk α β :=
  bilinear (analogZpk F n ft wn)

/-- the argument checks of `iirfilter` for a digital filter: every `Wn` in `(0, 1)`, `Wn[0] < Wn[1]` when there are
several, one value for low/high pass, at least two for a band pass — every violation is a `ValueError` -/
def accepts (ft : FilterType) (wn : List α) : Bool :=
  wn.all (fun w => decide (0 < w)) &&
  (match wn with | a :: b :: _ => decide (a < b) | _ => true) &&
  wn.all (fun w => decide (w < 1)) &&
  (match ft with | .band => decide (2 ≤ wn.length) | _ => decide (wn.length = 1))

/-- `scipy.signal.butter(N, Wn, btype)` → `(b, a)`; `ValueError` when the arguments are rejected -/
def butter (F : Fns α β) (n : Nat) (ft : FilterType) (wn : List α) : Except ErrKind (List α × List α) :=
  if accepts ft wn then .ok (zpk2tf (digitalZpk F n ft wn)) else .error .ValueError

end Butter

section Response
variable {α β : Type} [Add α] [Sub α] [Mul α] [Div α] [OfNat α 0] [OfNat α 1] [NatCast α]
  [Add β] [Sub β] [Mul β] [Div β] [Neg β] [OfNat β 0] [OfNat β 1] [CxLike α β]

/-- `Σ_k c_k·w^k` (Horner from the last coefficient); with `w = z⁻¹` the numerator / denominator of the transfer
function `H(z) = Σ b_k z^{-k} / Σ a_k z^{-k}` of `lfilter(b, a, ·)` -/
def negPowSum (c : List α) (w : β) : β := c.foldr (fun ck acc => CxLike.ofReal ck + w * acc) 0

/-- frequency response `H(e^{iθ})` of the filter `(b, a)` (`scipy.signal.freqz`): evaluated at `w = e^{−iθ}` -/
def freqResp (F : Fns α β) (b a : List α) (theta : α) : β :=
  negPowSum b (F.cis (0 - theta)) / negPowSum a (F.cis (0 - theta))

/-- `H(z)` of a zeros–poles–gain triple: `k·Π(z − z_j)/Π(z − p_j)` -/
def evalZpk (s : Zpk α β) (x : β) : β :=
  CxLike.ofReal s.k * prodL (s.z.map (fun r => x - r)) / prodL (s.p.map (fun r => x - r))

/-- the frequency ratio `Ω` of the analytic Butterworth gain at the normalised frequency `w` (`ω = π·w`; `1` =
Nyquist), `t = tan(πw/2)`:  low pass `t/t_c`, high pass `t_c/t`, band pass `(t² − t_l·t_h)/(t·(t_h − t_l))` -/
def gainRatio (F : Fns α β) (ft : FilterType) (wn : List α) (w : α) : α :=
  let t (x : α) : α := F.tan (F.pi * x / ((2 : Nat) : α))
  match ft with
  | .low => t w / t (wn.getD 0 0)
  | .high => t (wn.getD 0 0) / t w
  | .band => (t w * t w - t (wn.getD 0 0) * t (wn.getD 1 0)) / (t w * (t (wn.getD 1 0) - t (wn.getD 0 0)))

/-- the analytic squared magnitude `|H(e^{iπw})|² = 1/(1 + Ω^{2N})` — the factor by which forward–backward filtering
(`filtfilt`) scales a sinusoid of normalised frequency `w` -/
def gainSq (F : Fns α β) (n : Nat) (ft : FilterType) (wn : List α) (w : α) : α :=
  1 / (1 + powN (gainRatio F ft wn w) (2 * n))

end Response

end EqsigVerif.Model.Butter
