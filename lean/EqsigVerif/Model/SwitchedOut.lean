import EqsigVerif.Prelude.NpU
import EqsigVerif.Model.Switched
/-!
# Model of the *repaired* `get_switched_peak_array_indices` (finding F12-3)

The repaired code ends with `return np.unique(switched_peak_indices)` instead of `return switched_peak_indices`:
the loop (`Model.Switched.switchedPeaks`, unchanged) followed by `np.unique` (`NpU.unique`: sort + drop repeated values).
`switchedPeaks` stays the model of the *loop* (the value of the local `switched_peak_indices`); `switchedPeaksOut` is what the
public function returns.  They differ only where the loop reports the same index twice: a constant series whose two
end-point "peaks" (`peaks v = [0, 0]`) are put in two groups — the all-zero series (every `tol`), and a non-zero constant `c`
with `tol ≤ -|c|`; there the loop gives `[0, 0]`, the function `[0]` (`Props/C12Repair.lean`).
Errors: as before, empty `values` → `IndexError` (`values[0]` in `clean_out_non_changing`); `np.unique` never raises.
-/
namespace EqsigVerif.Model.Switched
open EqsigVerif

/-- `get_switched_peak_array_indices(values, tol)` (repaired) on its domain (`v ≠ []`):
`np.unique(np.take(peak_indices, new_peak_indices))` -/
def switchedPeaksOut (v : List Rat) (tol : Rat) : List Nat := NpU.unique (switchedPeaks v tol)

/-- the repaired `get_switched_peak_array_indices` with its error branch -/
def switchedPeaksOutE (v : List Rat) (tol : Rat) : Except Wire.ErrKind (List Nat) :=
  if v.isEmpty then .error .IndexError       -- `values[0]` in `clean_out_non_changing`
  else .ok (switchedPeaksOut v tol)

end EqsigVerif.Model.Switched
