import EqsigVerif.Prelude.Wire
import EqsigVerif.Prelude.Cplx
/-!
# Model of `scipy.signal.resample(x, num)` — Fourier (periodic) resampling (C14.f)

`eqsig.fns.time_step.resample_to_approx_dt(asig, target_dt, even)` ends with

```python
acc_interp = resample(asig.values, int(new_npts))      # scipy.signal.resample
return eqsig.AccSignal(acc_interp, asig.dt / factor)
```

(`factor`, `new_npts`: `Model/TimeStep.lean`, `resampleNpts`).  This file models the SciPy routine
(scipy 1.18, `scipy/signal/_signaltools.py`, `resample`, defaults `t=None, axis=0, window=None,
domain='time'`), *two-sided FFT branch semantics*:

```python
n_x = x.shape[-1]; s_fac = n_x / num; m = min(num, n_x); m2 = m // 2 + 1
X = fft(x)
Y = zeros(num)
Y[:m2] = X[:m2]                          # copy part up to Nyquist frequency
if m2 < m: Y[m2-m:] = X[m2-m:]           # copy negative frequency part
if m % 2 == 0:                           # unpaired bin at m//2
    if num < n_x:   Y[-m//2] += X[-m//2]                      # down-sampling: unite the bin pair
    elif n_x < num: Y[m//2] /= 2; Y[num-m//2] = Y[m//2]       # up-sampling: split the bin
x_r = ifft(Y / s_fac, n=num)
```

For a real record SciPy takes the `rfft/irfft` branch, which computes the same numbers: with
`X[N-k] = conj X[k]` the united bin is `X[m/2] + conj X[m/2] = 2·Re X[m/2]` (`X[m//2] *= 2`, and `irfft`
drops the imaginary part of the last bin of an even-length output), the split bin `X[N/2]` is real,
and `irfft` supplies the conjugate negative-frequency half that the two-sided branch copies.  The result
of the model is a complex list whose imaginary parts vanish for a real record (theorem
`Props.C14.resample_real_of_real`); `resampleReal` takes the real parts (what `irfft` returns).

Mathlib-free and executable; number types as in `Model/Frequency.lean`: `α` reals, `β` complex numbers
over `α` (`Cx Float` when run, `ℂ` in the theorems), `fft/ifft` are the defining sums `Cplx.dft/idft`
(assumption `FftIsDft`), `tw N m = e^{-2πi m/N}` is a parameter.
-/
namespace EqsigVerif.Model.Resample
open EqsigVerif EqsigVerif.Cplx EqsigVerif.Wire

section Copy
variable {α β : Type} [Add β] [Div β] [OfNat β 0] [NatCast α] [CxLike α β]

/-- `m = min(num, n_x)`: number of relevant frequency bins -/
def relBins (N num : Nat) : Nat := min num N

/-- `m2 = m // 2 + 1`: number of relevant bins of a one-sided transform -/
def oneSided (N num : Nat) : Nat := relBins N num / 2 + 1

/-- number of copied negative-frequency bins, `m - m2` (`= ⌈m/2⌉ − 1`) -/
def negBins (N num : Nat) : Nat := relBins N num - oneSided N num

/-- stage 1: `Y = zeros(num); Y[:m2] = X[:m2]` -/
def copyPos (X : List β) (N num : Nat) : List β :=
  (List.range num).map (fun k => if k < oneSided N num then X.getD k 0 else 0)

/-- stage 2: `if m2 < m: Y[m2-m:] = X[m2-m:]` — the last `m − m2` entries of `Y` become the last
`m − m2` entries of `X` (`len X = N`) -/
def copyNeg (Y X : List β) (N num : Nat) : List β :=
  if oneSided N num < relBins N num then
    (List.range num).map (fun k =>
      if num - negBins N num ≤ k then X.getD (N - negBins N num + (k - (num - negBins N num))) 0
      else Y.getD k 0)
  else Y

/-- stage 3: the unpaired bin `m//2` of an even `m`.
* down-sampling (`num < n_x`, `m = num`): `Y[-m//2] += X[-m//2]`, i.e. `Y[num − m/2] += X[N − m/2]`;
* up-sampling (`n_x < num`, `m = n_x`): `Y[m//2] /= 2; Y[num − m//2] = Y[m//2]`;
* `num = n_x`: nothing. -/
def fixNyquist (Y X : List β) (N num : Nat) : List β :=
  let m := relBins N num
  if m % 2 = 0 then
    if num < N then
      (List.range num).map (fun k =>
        if k = num - m / 2 then Y.getD k 0 + X.getD (N - m / 2) 0 else Y.getD k 0)
    else if N < num then
      let h : β := Y.getD (m / 2) 0 / CxLike.ofReal (((2 : Nat) : α))
      (List.range num).map (fun k =>
        if k = num - m / 2 then h else if k = m / 2 then h else Y.getD k 0)
    else Y
  else Y

/-- the spectrum `Y` (length `num`) assembled from `X = fft(x)` (length `N`) -/
def copySpectrum (X : List β) (N num : Nat) : List β :=
  fixNyquist (copyNeg (copyPos X N num) X N num) X N num

end Copy

section Resample
variable {α β : Type} [Add β] [Mul β] [Div β] [OfNat β 0] [Div α] [NatCast α] [CxLike α β]

/-- `scipy.signal.resample(x, num)` for `len x ≥ 1`, `num ≥ 1` (two-sided branch, no window):
`X = fft(x)`, `Y = copySpectrum X`, `ifft(Y / s_fac, n=num)` with `s_fac = n_x / num`. -/
def resampleFourier (tw : Nat → Nat → β) (x : List β) (num : Nat) : List β :=
  let N := x.length
  let X := dft tw x N
  let Y := copySpectrum (α := α) X N num
  let sFac : α := ((N : Nat) : α) / ((num : Nat) : α)
  idft tw (Y.map (fun z => z / CxLike.ofReal sFac)) num

/-- the real parts (what the `rfft/irfft` branch returns for a real record) -/
def resampleReal (tw : Nat → Nat → β) (x : List β) (num : Nat) : List α :=
  (resampleFourier tw x num).map CxLike.re

/-- `scipy.signal.resample(x, num)` with its error behaviour [observed, scipy 1.18]:
`num = 0` → `ZeroDivisionError` (`s_fac = n_x / num`, evaluated first), empty `x` → `ValueError`
(`rfft`: "invalid number of data points (0)").  A negative `num` (`IndexError`) is excluded by the
type; `resample_to_approx_dt` reaches it only through `Model.TimeStep.resampleNpts`, which reports it. -/
def resample (tw : Nat → Nat → β) (x : List β) (num : Nat) : Except ErrKind (List β) :=
  if num = 0 then .error .ZeroDivisionError
  else if x.length = 0 then .error .ValueError
  else .ok (resampleFourier tw x num)

end Resample

end EqsigVerif.Model.Resample
