import EqsigVerif.Prelude.Np
/-!
# Model of `eqsig/sdof.py` — `absmax` (hand model, Mathlib-free, generic)

```python
def absmax(a, axis=None):
    amax = a.max(axis)
    amin = a.min(axis)
    return abs(np.where(-amin > amax, amin, amax))
```
`a.max()` of a zero-size array raises `ValueError` (`none` here).
-/
namespace EqsigVerif.Model.Spectra
open EqsigVerif.Np

variable {α : Type} [LT α] [DecidableLT α] [Neg α] [OfNat α 0]

/-- `absmax(a)` of a 1-D array (`axis=None`); `none` = `ValueError` of `a.max()` on a zero-size array -/
def absmax : List α → Option α
  | [] => none
  | x :: xs =>
    let amax := maxFrom x xs
    let amin := minFrom x xs
    some (absv (if amax < -amin then amin else amax))

/-- `absmax(a, axis=1)` of a 2-D array given as its list of rows (one value per row);
`none` = `ValueError` when the rows have zero length -/
def absmaxRows (rows : List (List α)) : Option (List α) := rows.mapM absmax

end EqsigVerif.Model.Spectra
