/-!
# Model of `eqsig/fns/peaks_and_crossings.py` — local peak detection (hand model, Mathlib-free, over `Rat`)

Stages of `get_peak_array_indices(values)`:
1. `clean_out_non_changing`  → `runs`   : `(index, value)` of every sample that differs from its predecessor, plus index 0
   (for `values[0] ≠ 0` the code lists index 0 twice; the duplicate only adds a zero difference and is
   not observable — the model keeps a single copy; the exhaustive correspondence ties the two);
2. `determine_indices_of_peaks_for_cleaned_array` → `peaksCleaned` : interior positions where the product of
   successive differences is `< 0`, plus first and last;
3. `np.take(non_zero_indices, …)` → `peaks` : back to original positions.
-/
namespace EqsigVerif.Model.Peaks

/-- stage 1 worker: `(index, value)` of every sample that differs from its predecessor -/
def runsAux (prev : Rat) (i : Nat) : List Rat → List (Nat × Rat)
  | [] => []
  | x :: xs => if x = prev then runsAux prev (i+1) xs else (i, x) :: runsAux x (i+1) xs

/-- stage 1 (`clean_out_non_changing`) -/
def runs : List Rat → List (Nat × Rat)
  | [] => []
  | x :: xs => (0, x) :: runsAux x 1 xs

/-- stage 2 worker: interior turning positions `k` of the cleaned sequence:
`(c[k]-c[k-1])*(c[k+1]-c[k]) < 0` -/
def turnIdx : Nat → List Rat → List Nat
  | k, a :: b :: c :: rest =>
      (if (b - a) * (c - b) < 0 then [k] else []) ++ turnIdx (k+1) (b :: c :: rest)
  | _, _ => []

/-- stage 2 (`determine_indices_of_peaks_for_cleaned_array`) -/
def peaksCleaned (c : List Rat) : List Nat := [0] ++ turnIdx 1 c ++ [c.length - 1]

/-- `get_peak_array_indices(values)` (`ptype='all'`) -/
def peaks (v : List Rat) : List Nat :=
  let rs := runs v
  (peaksCleaned (rs.map (·.2))).map (fun k => (rs.map (·.1)).getD k 0)

end EqsigVerif.Model.Peaks
