import EqsigVerif.Prelude.Np
import EqsigVerif.Prelude.Wire
import EqsigVerif.Model.Single
/-!
# Model of `eqsig/multiple.py`, `eqsig/fns/average.py:get_section_average`, `eqsig/fns/time_shift.py:time_indices`
(hand model, Mathlib-free; tree with the planned fix `same_start: signal_by_index(i)`)

* `combine_at_angle`, `compute_rotated` — generic over the number type, the values `cos(θ°)`, `sin(θ°)` are parameters;
* `Cluster.same_start`, `Cluster.time_match` — over `Rat`, a cluster is the list of its records (one `dt`).

Error tags: `SignalProcessingWarning` (raised by `time_indices`) is not in `ErrKind` ⇒ `.Other`;
`np.mean` of an empty section is `nan` in NumPy (no exception) ⇒ `.ZeroDivisionError` (tag for the
non-raising `0/0`); an operand pair NumPy cannot broadcast ⇒ `.ValueError`.
-/
namespace EqsigVerif.Model.Multiple
open EqsigVerif
open EqsigVerif.Wire (ErrKind)
open EqsigVerif.Model.Single (pySlice pyTo pyFrom mean mean? normIdx)

/-! ### `time_indices`, `get_section_average` -/

/-- Python `int(x)` for a float: truncation toward zero -/
def truncInt (q : Rat) : Int := if q < 0 then -((-q).floor) else q.floor

/-- `time_indices(npts, dt, start, end, index=False)`:
`e_index = int(end/dt)+1` unless `end == -1` (then `-1`), `s_index = int(start/dt)`; raises when `e_index > npts`.
(`dt = 0`: Python float division raises `ZeroDivisionError`.) -/
def timeIndices (npts : Nat) (dt start end_ : Rat) : Except ErrKind (Int × Int) :=
  if dt = 0 then .error .ZeroDivisionError else
  let eIndex : Int := if end_ ≠ -1 then truncInt (end_ / dt) + 1 else -1
  let sIndex : Int := truncInt (start / dt)
  if eIndex > (npts : Int) then .error .Other else .ok (sIndex, eIndex)

/-- `time_indices(npts, dt, start, end, index=True)` -/
def timeIndicesIdx (npts : Nat) (start end_ : Int) : Except ErrKind (Int × Int) :=
  if end_ > (npts : Int) then .error .Other else .ok (start, end_)

/-- `get_section_average(series, start, end, index=False)`; `.ok none` = `nan` (empty section, no exception) -/
def sectionAverageN (values : List Rat) (dt start end_ : Rat) : Except ErrKind (Option Rat) :=
  match timeIndices values.length dt start end_ with
  | .error e => .error e
  | .ok (s, e) => .ok (mean? (pySlice values s e))

/-- `get_section_average(series, start, end, index=True)`; `.ok none` = `nan` -/
def sectionAverageIdxN (values : List Rat) (start end_ : Int) : Except ErrKind (Option Rat) :=
  match timeIndicesIdx values.length start end_ with
  | .error e => .error e
  | .ok (s, e) => .ok (mean? (pySlice values s e))

/-- a `nan` outcome of a call that raised nothing is reported with the tag `.ZeroDivisionError` -/
def nanAsError {β : Type} : Except ErrKind (Option β) → Except ErrKind β
  | .error e => .error e
  | .ok none => .error .ZeroDivisionError
  | .ok (some m) => .ok m

/-- `get_section_average(…, index=False)` as a number (`nan` ⇒ `.ZeroDivisionError` tag) -/
def sectionAverage (values : List Rat) (dt start end_ : Rat) : Except ErrKind Rat :=
  nanAsError (sectionAverageN values dt start end_)

/-- `get_section_average(…, index=True)` as a number (`nan` ⇒ `.ZeroDivisionError` tag) -/
def sectionAverageIdx (values : List Rat) (start end_ : Int) : Except ErrKind Rat :=
  nanAsError (sectionAverageIdxN values start end_)

/-! ### `Cluster.same_start` -/

/-- `slave.values - (slave_average - master_average)`; `none` = an all-`nan` record -/
def shiftRecord (s : List Rat) : Option Rat → Option Rat → Option (List Rat)
  | some slaveAv, some masterAv => some (s.map (· - (slaveAv - masterAv)))
  | _, _ => none

/-- loop of `same_start` over the signals from position `i` on (exceptions abort, `nan`s do not) -/
def sameStartAux (dt start end_ : Rat) (masterAv : Option Rat) (master : Nat) :
    Nat → List (List Rat) → Except ErrKind (List (Option (List Rat)))
  | _, [] => .ok []
  | i, s :: rest =>
    if i ≠ master then
      match sectionAverageN s dt start end_ with
      | .error e => .error e
      | .ok slaveAv =>
        match sameStartAux dt start end_ masterAv master (i + 1) rest with
        | .error e => .error e
        | .ok r => .ok (shiftRecord s slaveAv masterAv :: r)
    else
      match sameStartAux dt start end_ masterAv master (i + 1) rest with
      | .error e => .error e
      | .ok r => .ok (some s :: r)

/-- all records are numbers, or `none` -/
def allSome {β : Type} : List (Option β) → Option (List β)
  | [] => some []
  | none :: _ => none
  | some x :: r => match allSome r with | none => none | some r' => some (x :: r')

/-- `Cluster.same_start(start=…, end=…)` (defaults `start = 0`, `end = 1`): the new records.
If no exception is raised but some record became `nan`: `.ZeroDivisionError` tag. -/
def sameStart (signals : List (List Rat)) (dt : Rat) (master : Nat) (start end_ : Rat) :
    Except ErrKind (List (List Rat)) :=
  match signals[master]? with
  | none => .error .IndexError
  | some m =>
    match sectionAverageN m dt start end_ with
    | .error e => .error e
    | .ok masterAv =>
      match sameStartAux dt start end_ masterAv master 0 signals with
      | .error e => .error e
      | .ok r => nanAsError (.ok (allSome r))

/-! ### `Cluster.time_match` -/

/-- `a - b` for 1-d arrays with NumPy broadcasting (equal lengths, or one operand of length 1) -/
def npSub? (a b : List Rat) : Except ErrKind (List Rat) :=
  if a.length = b.length then .ok (Np.subL a b)
  else match a, b with
    | [x], _ => .ok (b.map (x - ·))
    | _, [y] => .ok (a.map (· - y))
    | _, _ => .error .ValueError

/-- `sum((a - b) ** 2)` -/
def ssd (a b : List Rat) : Except ErrKind Rat :=
  match npSub? a b with
  | .error e => .error e
  | .ok d => .ok (Np.sum (Np.sq d))

/-- one lag loop: candidates `i` in the given order, residual `f i`, lag value `lagOf i`;
state `(min_diff, min_ind)`, strict `<` update -/
def scan (f : Nat → Except ErrKind Rat) (lagOf : Nat → Int) :
    List Nat → Rat × Int → Except ErrKind (Rat × Int)
  | [], st => .ok st
  | i :: is, (md, mi) =>
    match f i with
    | .error e => .error e
    | .ok d => scan f lagOf is (if d < md then (d, lagOf i) else (md, mi))

/-- residual of "other lags base" candidate `i`: `sum((om[i:-steps+i] - bm[0:-steps])**2)` -/
def resLag (bm om : List Rat) (steps i : Nat) : Except ErrKind Rat :=
  ssd (pySlice om (i : Int) (-(steps : Int) + (i : Int))) (pySlice bm 0 (-(steps : Int)))

/-- residual of "base lags other" candidate `i`: `sum((bm[i:-steps+i] - om[0:-steps])**2)` -/
def resLead (bm om : List Rat) (steps i : Nat) : Except ErrKind Rat :=
  ssd (pySlice bm (i : Int) (-(steps : Int) + (i : Int))) (pySlice om 0 (-(steps : Int)))

/-- the lag search for one slave: returns `min_ind` -/
def lagSearch (bm om : List Rat) (steps : Nat) : Except ErrKind Int :=
  match ssd (pySlice bm 0 (-(steps : Int))) (pySlice om 0 (-(steps : Int))) with
  | .error e => .error e
  | .ok d0 =>
    match scan (resLag bm om steps) (fun i => (i : Int)) (List.range steps) (d0, 0) with
    | .error e => .error e
    | .ok st1 =>
      match scan (resLead bm om steps) (fun i => -(i : Int)) (List.range steps) st1 with
      | .error e => .error e
      | .ok st2 => .ok st2.2

/-- the new values of a slave (`orig` when `min_ind = 0`: the code `continue`s) -/
def shiftSlave (orig om : List Rat) (minInd : Int) : Except ErrKind (List Rat) :=
  if minInd < 0 then
    match om.head? with
    | none => .error .IndexError
    | some x => .ok (List.replicate minInd.natAbs x ++ pyTo om minInd)
  else if minInd > 0 then
    match om.getLast? with
    | none => .error .IndexError
    | some x => .ok (pyFrom om minInd ++ List.replicate minInd.natAbs x)
  else .ok orig

/-- loop of `time_match` over the signals from position `i` on; `lag` = `min_ind` of the last processed slave -/
def timeMatchAux (bm : List Rat) (lc master steps : Nat) :
    Nat → List (List Rat) → Option Int → Except ErrKind (Option Int × List (List Rat))
  | _, [], lag => .ok (lag, [])
  | i, s :: rest, lag =>
    if i ≠ master then
      let om := s.take lc
      match lagSearch bm om steps with
      | .error e => .error e
      | .ok mi =>
        match shiftSlave s om mi with
        | .error e => .error e
        | .ok s' =>
          match timeMatchAux bm lc master steps (i + 1) rest (some mi) with
          | .error e => .error e
          | .ok (l, r) => .ok (l, s' :: r)
    else
      match timeMatchAux bm lc master steps (i + 1) rest lag with
      | .error e => .error e
      | .ok (l, r) => .ok (l, s :: r)

/-- `Cluster.time_match(steps=…)`: `(returned min_ind, new records)`.
`length_check = min(npts₀, npts₁)` (needs two signals: `IndexError`); no slave at all ⇒ the `return min_ind`
hits an unbound local (`.Other`) — impossible for a cluster with ≥ 2 signals. -/
def timeMatch (signals : List (List Rat)) (master steps : Nat) :
    Except ErrKind (Int × List (List Rat)) :=
  match signals[0]?, signals[1]? with
  | some s0, some s1 =>
    let lc := min s0.length s1.length
    match signals[master]? with
    | none => .error .IndexError
    | some m =>
      match timeMatchAux (m.take lc) lc master steps 0 signals none with
      | .error e => .error e
      | .ok (none, _) => .error .Other
      | .ok (some lag, r) => .ok (lag, r)
  | _, _ => .error .IndexError

/-! ### `combine_at_angle`, `compute_rotated` -/

section Generic
variable {α : Type} [Add α] [Mul α]

/-- `combo = ns * cos(θ) + we * sin(θ)` for equally long records -/
def combo (c s : α) (ns we : List α) : List α := List.zipWith (fun a b => a * c + b * s) ns we

/-- `combine_at_angle`: `combo = ns * cos(θ) + we * sin(θ)` (`c = cos(radians(angle))`, `s = sin(radians(angle))`);
NumPy broadcasting: equal lengths, or one record of length 1, else `ValueError` -/
def combineAtAngle (c s : α) (ns we : List α) : Except ErrKind (List α) :=
  if ns.length = we.length then .ok (combo c s ns we)
  else match ns, we with
    | [a], _ => .ok (we.map (fun b => a * c + b * s))
    | _, [b] => .ok (ns.map (fun a => a * c + b * s))
    | _, _ => .error .ValueError

end Generic

/-- `np.linspace(start, stop, num)` (`start + i·step`, `step = (stop−start)/(num−1)`, last element exactly `stop`) -/
def linspace (start stop : Rat) (num : Nat) : List Rat :=
  if num = 1 then [start] else
  let step := (stop - start) / (((num - 1 : Nat) : Int) : Rat)
  (List.range num).map fun (i : Nat) => if i + 1 = num then stop else start + ((i : Int) : Rat) * step

/-- `np.mod(x, m)` for `m > 0`: result in `[0, m)` (sign follows the divisor) -/
def npMod (x m : Rat) : Rat := x - m * (((x / m).floor : Int) : Rat)

/-- `degrees = np.mod(np.linspace(0 − off, 180 − off, points), 360)` -/
def rotatedDegrees (off : Rat) (points : Nat) : List Rat :=
  (linspace (0 - off) (180 - off) points).map (npMod · 360)

/-- how `compute_rotated` obtains the measure: `parameter`/`func` given or both `None` -/
def computeRotated {α β : Type} [Add α] [Mul α]
    (cosd sind : Rat → α)                     -- `cos(radians(·))`, `sin(radians(·))`
    (measure : Option (List α → β))           -- `getattr(sig, parameter)` / `func(sig)` (last element if array-valued); `none` = both `None`
    (dtNs dtWe : Rat) (ns we : List α) (off : Rat) (points : Nat) :
    Except ErrKind (List Rat × List β) :=
  if dtNs ≠ dtWe then .error .AssertionError
  else if ns.length ≠ we.length then .error .AssertionError
  else
    let degrees := rotatedDegrees off points
    match measure with
    | none => if degrees.isEmpty then .ok (degrees, []) else .error .ValueError
    | some f =>
      -- `combine_at_angle` on equally long records (asserted above) is `combo`
      .ok (degrees, degrees.map fun d => f (combo (cosd d) (sind d) ns we))

end EqsigVerif.Model.Multiple
