import EqsigVerif.Prelude.Np
import EqsigVerif.Prelude.Wire
import EqsigVerif.Prelude.Interp
import EqsigVerif.Model.TimeStep
import EqsigVerif.Model.TimeShift
/-!
# Model of `eqsig/surface.py` (hand model, Mathlib-free, exact over `Rat`)

`trim_to_length`, `calc_surface_energy`, `calc_cum_abs_surface_energy`, `get_time_shift_motions`.

Stages of `calc_surface_energy(asig, travel_times, nodal, up_red, down_red, stt, trim, start)`:
1. `travel_times` scalar → one-element array;
2. `shifts = 2 * travel_times / dt` (rational!), `max_shift = int(np.max(shifts))` (truncation);
3. `up_wave = np.pad(values, (0, max_shift))`;
4. `dshifted[i][k] = k - shifts[i]`, `k < npts + max_shift`; `down_waves = np.interp(dshifted, arange(npts), values, left=0, right=0)`;
5. reductions: scalar (`up_wave * up_red`, `down_waves *= down_red`) or per-row arrays (`[:, np.newaxis]` broadcasting);
6. `acc_series = ∓down_waves + up_wave` (`-` nodal);
7. `velocity = cumulative_trapezoid(acc_series, dx=dt, initial=0, axis=1)`, `e = 0.5 * velocity * |velocity|`;
8. `trim_to_length(e, npts, travel_times, dt, trim, start, stt)`;
9. `len(travel_times) == 1` → row 0 (1-D), else the 2-D array.
-/
namespace EqsigVerif.Model.Surface
open EqsigVerif.Wire (ErrKind)
open EqsigVerif.Np EqsigVerif.Interp
open EqsigVerif.Model.TimeStep (truncZ)
open EqsigVerif.Model.TimeShift (pySlice assignBroadcast maxInt? minInt?)

/-- reduction factors: Python scalars (`not hasattr(up_red, '__len__')`) or per-row NumPy arrays -/
inductive Red
  | scalar (up down : Rat)
  | rows (up down : List Rat)
  deriving Repr, Inhabited

/-- result: 1-D when `len(travel_times) == 1`, else 2-D -/
inductive Out
  | row (r : List Rat)
  | rows (rs : List (List Rat))
  deriving Repr, Inhabited, DecidableEq

/-! ### `trim_to_length` -/

/-- `surf_to_depth_shifts = np.array(travel_times / dt, dtype=int)` (C cast: truncation toward zero) -/
def s2dShifts (tts : List Rat) (dt : Rat) : List Int := tts.map (fun t => truncZ (t / dt))

/-- `extras = np.max([np.max(sis), 0]) - np.min([np.min(2 * surf_to_depth_shifts), 0])` -/
def trimExtras (sis s2d : List Int) : Except ErrKind Nat := do
  let mx ← maxInt? sis
  let mn ← minInt? (s2d.map (2 * ·))
  pure (max mx 0 - min mn 0).toNat

/-- one row of the output of `trim_to_length` (`outs[i]`, length `npts`), from `values[i]` and `sis[i]`:
* `sis < 0`: `outs[i] = values[i, -sis : npts - sis]`;
* else     : `outs[i, sis:] = values[i, : npts - sis]` (zero padded in front; `npts - sis` may be negative,
  then Python's negative-index rule applies to the source slice and the target slice is empty). -/
def trimRow (row : List Rat) (npts : Nat) (sis : Int) : Except ErrKind (List Rat) :=
  if sis < 0 then
    assignBroadcast npts (pySlice row (some (-sis)) (some ((npts : Int) - sis)))
  else do
    let lead := min sis.toNat npts
    let s ← assignBroadcast (npts - lead) (pySlice row none (some ((npts : Int) - sis)))
    pure (List.replicate lead 0 ++ s)

/-- `sis`: `start_shift - surf_to_depth_shifts` when `start`, zeros otherwise (`trim` only);
`start_shift = int(s2s_travel_time / dt)` -/
def trimSis (tts : List Rat) (dt : Rat) (start : Bool) (stt : Rat) : List Int :=
  if start then (s2dShifts tts dt).map (truncZ (stt / dt) - ·) else (s2dShifts tts dt).map (fun _ => 0)

/-- the row length of the array `trim_to_length` builds: `npts + extras` for `start ∧ ¬trim`, else `npts` -/
def trimWidth (npts : Nat) (tts : List Rat) (dt : Rat) (trim start : Bool) (stt : Rat) : Except ErrKind Nat :=
  if start && !trim then
    match trimExtras (trimSis tts dt start stt) (s2dShifts tts dt) with
    | .error e => .error e
    | .ok ex => .ok (npts + ex)
  else .ok npts

/-- `trim_to_length(values, npts, surf2depth_travel_times, dt, trim, start, s2s_travel_time)`.

| `start` | `trim` | `sis`                           | output length                         |
|---|---|---|---|
| F | F | —  (returns `values` unchanged) | width of `values`                     |
| F | T | `0`                             | `npts`                                |
| T | T | `start_shift − s2d`             | `npts`                                |
| T | F | `start_shift − s2d`             | `npts + extras`                       |

Errors: `ZeroDivisionError` for `dt == 0` (`int(s2s_travel_time / dt)`); `ValueError` for an empty travel-time
array with `start ∧ ¬trim` (`np.max`), and whenever a source slice does not have the target's length
(NumPy "could not broadcast input array"; a length-1 source *is* broadcast); `IndexError` when `values` has fewer
rows than travel times. -/
def trimToLength (values : List (List Rat)) (npts : Nat) (tts : List Rat) (dt : Rat)
    (trim start : Bool) (stt : Rat) : Except ErrKind (List (List Rat)) :=
  if dt = 0 then .error .ZeroDivisionError
  else if !start && !trim then .ok values
  else
    match trimWidth npts tts dt trim start stt with
    | .error e => .error e
    | .ok w =>
      (List.range tts.length).mapM (fun i =>
        match values[i]? with
        | none => .error .IndexError
        | some row => trimRow row w ((trimSis tts dt start stt).getD i 0))

/-! ### the shifted waves -/

/-- `max_shift = int(np.max(2 * travel_times / dt))`; `ValueError` for no travel times (`np.max`) and for a negative
result (`np.pad`: "index can't contain negative values"). -/
def maxShift (tts : List Rat) (dt : Rat) : Except ErrKind Nat :=
  match maxL? (tts.map (fun t => 2 * t / dt)) with
  | none => .error .ValueError
  | some mx => if truncZ mx < 0 then .error .ValueError else .ok (truncZ mx).toNat

/-- `D_s a`: the record delayed by `s` samples (fractional: linear interpolation), zero filled, on `width` samples:
`np.interp(np.arange(width) - s, np.arange(npts), values, left=0, right=0)` -/
def delayed (values : List Rat) (s : Rat) (width : Nat) : List Rat :=
  (List.range width).map (fun (k : Nat) => interpUnit values 0 0 ((k : Rat) - s))

/-- stages 1–6: `acc_series` (one row per travel time, width `npts + max_shift`).

Broadcasting of per-row reductions follows NumPy: `down_red` must have `len(travel_times)` entries or one;
`up_red` must have `len(travel_times)` entries or one — except that with a single travel time any non-empty
`up_red` is accepted (the result then has `len(up_red)` rows, of which every later stage reads row 0 only; with an
empty `up_red` that read fails with `IndexError`).
`dt = 0` is outside the domain (NumPy: `inf`/`nan` shifts, `OverflowError`/`ValueError`), reported as `Other`. -/
def accSeries (values : List Rat) (dt : Rat) (tts : List Rat) (nodal : Bool) (red : Red) :
    Except ErrKind (List (List Rat)) := do
  if dt = 0 then .error .Other else
  let ms ← maxShift tts dt
  let n := values.length
  let width := n + ms
  if n = 0 ∧ width > 0 then .error .ValueError else     -- np.interp: "array of sample points is empty"
  let m := tts.length
  let upWave := padRight values ms (0 : Rat)
  let down : List (List Rat) := tts.map (fun t => delayed values (2 * t / dt) width)
  let sgn : Rat := if nodal then -1 else 1
  match red with
  | .scalar u d =>
    pure (down.map (fun dw => List.zipWith (fun x y => sgn * (x * d) + y * u) dw upWave))
  | .rows us ds =>
    if ds.length ≠ m ∧ ds.length ≠ 1 then .error .ValueError else
    if us.length ≠ m ∧ us.length ≠ 1 ∧ m ≠ 1 then .error .ValueError else
    if us.length = 0 then .error .IndexError else
    pure ((List.range m).map (fun i =>
      let d := if ds.length = 1 then ds.getD 0 0 else ds.getD i 0
      let u := if us.length = m then us.getD i 0 else us.getD 0 0
      List.zipWith (fun x y => sgn * (x * d) + y * u) (down.getD i []) upWave))

/-- stage 9 -/
def squeeze (m : Nat) (rows : List (List Rat)) : Except ErrKind Out :=
  if m = 1 then
    match rows with
    | r :: _ => pure (.row r)
    | [] => .error .IndexError
  else pure (.rows rows)

/-- `e = 0.5 * velocity * np.abs(velocity)` -/
def halfVAbsV (v : Rat) : Rat := (1 / 2) * v * absv v

/-- stages 7: energy rows (before trimming) -/
def energyRows (acc : List (List Rat)) (dt : Rat) : List (List Rat) :=
  acc.map (fun row => (cumtrapz dt row).map halfVAbsV)

/-- `calc_surface_energy(asig, travel_times, nodal, up_red, down_red, stt, trim, start)` with
`asig.values = values`, `asig.dt = dt`.  An empty record raises `ValueError` (`np.interp` or
`cumulative_trapezoid`: "At least one point is required"). -/
def calcSurfaceEnergy (values : List Rat) (dt : Rat) (tts : List Rat) (nodal : Bool) (red : Red)
    (stt : Rat) (trim start : Bool) : Except ErrKind Out := do
  let acc ← accSeries values dt tts nodal red
  if values.length = 0 then .error .ValueError else
  let e := energyRows acc dt
  let e ← trimToLength e values.length tts dt trim start stt
  squeeze tts.length e

/-- `np.cumsum(np.abs(np.diff(row, prepend=0)))` -/
def cumAbsRow (row : List Rat) : List Rat := cumsum (absL (diffFrom 0 row))

/-- `calc_cum_abs_surface_energy(…)` -/
def calcCumAbsSurfaceEnergy (values : List Rat) (dt : Rat) (tts : List Rat) (nodal : Bool) (red : Red)
    (stt : Rat) (trim start : Bool) : Except ErrKind Out := do
  match ← calcSurfaceEnergy values dt tts nodal red stt trim start with
  | .row r => pure (.row (cumAbsRow r))
  | .rows rs => pure (.rows (rs.map cumAbsRow))

/-- `get_time_shift_motions(…)`: the (trimmed) acceleration series themselves -/
def getTimeShiftMotions (values : List Rat) (dt : Rat) (tts : List Rat) (nodal : Bool) (red : Red)
    (stt : Rat) (trim start : Bool) : Except ErrKind Out := do
  let acc ← accSeries values dt tts nodal red
  let a ← trimToLength acc values.length tts dt trim start stt
  squeeze tts.length a

end EqsigVerif.Model.Surface
