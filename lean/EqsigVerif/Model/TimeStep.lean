import EqsigVerif.Prelude.Interp
/-!
# Model of `eqsig/fns/time_step.py` (hand model, Mathlib-free, exact over `Rat`)

```python
def interp_array_to_approx_dt(values, dt, target_dt=0.01, even=True):
    factor = dt / target_dt
    if factor == 1:   pass
    elif factor > 1:  factor = int(np.ceil(factor))
    else:             factor = 1 / np.floor(1 / factor)
    t_int = np.arange(len(values))
    new_npts = factor * len(values)
    if even:
        new_npts = 2 * int(new_npts / 2)
    t_db = np.arange(new_npts) / factor
    acc_interp = np.interp(t_db, t_int, values)
    return acc_interp, dt / factor
```

The impl takes the three decisions `factor == 1`, `ceil`, `floor` on the *binary64* quotient; the model
therefore has two parts: `factorRule` (the rule on the exact quotient, C14.a) and `interpToApproxDt`, which
takes the already decided `factor` as a parameter (everything downstream of the decision, C14.b–d).
-/
namespace EqsigVerif.Model.TimeStep
open EqsigVerif.Wire (ErrKind)
open EqsigVerif.Interp

/-- Python `int(x)` of a float: truncation toward zero. -/
def truncZ (q : Rat) : Int := if q < 0 then Rat.ceil q else Rat.floor q

/-- `len(np.arange(x))` for a real stop `x`: `⌈x⌉` if positive, else `0`. -/
def arangeLen (x : Rat) : Nat := (Rat.ceil x).toNat

/-- the factor rule shared by `interp_array_to_approx_dt` and `resample_to_approx_dt`, on the exact
quotient `q = dt / target_dt`.  Domain `q ≠ 0` (the code divides by `q`; for `q = 0` Python raises
`ZeroDivisionError`, see `factorRule?`). -/
def factorRule (q : Rat) : Rat :=
  if q = 1 then q
  else if q > 1 then ((Rat.ceil q : Int) : Rat)
  else 1 / ((Rat.floor (1 / q) : Int) : Rat)

/-- `factor` from `(dt, target_dt)` with the two divisions by zero of the code as errors
(`dt / target_dt` with `target_dt == 0`, `1 / factor` with `factor == 0`; Python floats). -/
def factorRule? (dt target : Rat) : Except ErrKind Rat :=
  if target = 0 then .error .ZeroDivisionError
  else if dt = 0 then .error .ZeroDivisionError
  else .ok (factorRule (dt / target))

/-- `new_npts` after the optional `even` rounding (`2 * int(new_npts / 2)`); a rational in general. -/
def newNpts (n : Nat) (factor : Rat) (even : Bool) : Rat :=
  let npts := factor * (n : Rat)
  if even then (((2 * truncZ (npts / 2) : Int)) : Rat) else npts

/-- number of output samples `len(np.arange(new_npts))`. -/
def outLen (n : Nat) (factor : Rat) (even : Bool) : Nat := arangeLen (newNpts n factor even)

/-- `t_db = np.arange(new_npts) / factor` -/
def tDb (n : Nat) (factor : Rat) (even : Bool) : List Rat :=
  (List.range (outLen n factor even)).map (fun (i : Nat) => (i : Rat) / factor)

/-- the interpolated values `np.interp(t_db, t_int, values)` (defaults `left = values[0]`, `right = values[-1]`) -/
def interpValues (values : List Rat) (factor : Rat) (even : Bool) : List Rat :=
  (tDb values.length factor even).map
    (interpUnit values (values.getD 0 0) (values.getD (values.length - 1) 0))

/-- `interp_array_to_approx_dt(values, dt, target_dt, even)` downstream of the factor decision.
Returns `(acc_interp, dt / factor)`.
* `factor = 0` cannot be produced by the rule for `dt, target_dt > 0`; the code would reach
  `dt / factor` → `ZeroDivisionError`.
* empty `values`: `np.interp([], [], [])` is `[]` (no error) [observed]. -/
def interpToApproxDt (values : List Rat) (dt factor : Rat) (even : Bool) : Except ErrKind (List Rat × Rat) :=
  if factor = 0 then .error .ZeroDivisionError
  else .ok (interpValues values factor even, dt / factor)

/-- `interp_array_to_approx_dt` with the decision taken on the exact quotient. -/
def interpArrayToApproxDt (values : List Rat) (dt target : Rat) (even : Bool) : Except ErrKind (List Rat × Rat) := do
  let f ← factorRule? dt target
  interpToApproxDt values dt f even

/-- `resample_to_approx_dt`: only the length handed to `scipy.signal.resample` and the new step are modelled
(the Fourier resampling itself is external, kind X).
`factor` is a Python `int` exactly in the `factor > 1` branch; otherwise it is a float and
`new_npts = factor * npts` is a float, which `scipy.signal.resample` rejects with `TypeError` unless
`even` converted it to an `int` [observed: `even=False` with `dt ≤ target_dt` always raises]. A resulting
length `0` raises `ZeroDivisionError`, a negative one `IndexError` inside SciPy (not reachable for `n ≥ 2`, `factor > 0` … unless `even` and `factor·n < 2`). -/
def resampleNpts (n : Nat) (factor : Rat) (even : Bool) : Except ErrKind Nat :=
  if even then
    let k := 2 * truncZ (factor * (n : Rat) / 2)
    if k = 0 then .error .ZeroDivisionError
    else if k < 0 then .error .IndexError
    else .ok k.toNat
  else
    -- `resample(asig.values, int(new_npts))` (fix F14-2: before it, a float `new_npts` — every `dt ≤ target_dt` with
    -- `even=False` — raised `TypeError`)
    let k := truncZ (factor * (n : Rat))
    if k = 0 then .error .ZeroDivisionError
    else if k < 0 then .error .IndexError
    else .ok k.toNat

end EqsigVerif.Model.TimeStep
