import EqsigVerif.Prelude.Wire
import EqsigVerif.Prelude.Fmt
/-!
# Model of `eqsig/loader.py` (tree with the planned fixes: `/tmp/repo_fixed`) — Mathlib-free, executable

A file is modelled by its *text* (the `str` Python gets from `open(ffp).read()` before newline translation,
i.e. the decoded file content; `save_values_and_dt` writes exactly `saveText …` encoded in UTF-8).

Python functions mirrored:

* `save_values_and_dt(ffp, values, dt, label)` ↦ `saveText values dt label`
* `load_values_and_dt(ffp)`                    ↦ `loadText text`
* `load_sig(ffp, m)`, `load_asig(ffp, load_label, m)`, `load_signal(ffp, astype)`, `save_signal(ffp, signal)`

## What `load_values_and_dt` does (fixed tree) and how it is modelled

```
data = np.genfromtxt(ffp, skip_header=1, delimiter=",", names=True, usecols=0)   -- (G)
dt   = float(open(ffp).read().splitlines()[1].split()[1])                          -- (D)
values = np.atleast_1d(data.astype(float))
```
(the `except TypeError` fallback for numpy 1.19 is dead code on the pinned numpy 2.5: (G) does not raise
`TypeError` there).  The steps run in the order (G), (D), `data.astype(float)`, and the first exception wins
(`loadL`): every cell-conversion error belongs to (G) (`genfromtxtData`); the only exception of the last step is
the `TypeError` of `.astype(float)` on a 0-field dtype (`astypeFloat`), which therefore comes AFTER the errors of
(D) [observed: a file containing `"lab\n\t\n"` raises the `IndexError` of (D), `"lab\n1 2 #\t\n"` the `TypeError`].

**Line structure.** Both `open(ffp)` calls use universal newlines: `\r\n` and a lone `\r` become `\n`
(`universalNewlines`).  (G) iterates over *file lines* (`fileLines`: split at `\n` only), whereas (D) and the
label use `str.splitlines()` (`pySplitlines`: split at `\n \x0b \x0c \x1c \x1d \x1e \x85 U+2028 U+2029`;
`\r` no longer occurs).  In both, a final empty piece is dropped (`"a\n"` has one line).  The hypothesis
"label without line breaks" of C16.b (`NoLineBreak`) therefore means: none of
`\n \r \x0b \x0c \x1c \x1d \x1e \x85 U+2028 U+2029` occurs in the label.

**(G) `np.genfromtxt(skip_header=1, delimiter=",", names=True, usecols=0)`** as read from numpy 2.5
`_npyio_impl.genfromtxt` and probed (`val/probe_loader.py`, `probe2.py`, `probe3.py`):
1. the first file line is skipped (no line → `StopIteration` is caught, then `first_values[0]` → `IndexError`);
2. the *names line* is the next line whose content is non-blank, where the content of a line containing
   `#` is *what follows the first `#`* with all further `#` deleted (numpy's `names=True` convention), and
   "blank" means empty after `strip(" \r\n")`; no such line → `IndexError`.  The names line is consumed.
   Its comma-separated fields only matter through: if the first field is blank (`str.strip`) it is deleted,
   and if no field remains the result dtype has 0 fields — then ≥1 data row → `ValueError`, 0 rows →
   `TypeError` (from `data.astype(float)`)  [observed];
3. every further line: cut at the first `#`, `strip(" \r\n")`, skipped if empty, else split at `,` and the first
   column is converted by `float(bytes)` semantics: unparsable → **`ValueError`** (probed: *not* nan — with
   `names=True` the converter is a no-op and the conversion happens in `np.array(rows, dtype)`);
4. zero data rows → empty array (no exception) [observed], one row → 0-d array → `np.atleast_1d` → length 1.

**(D)** `lines[1]` → `IndexError` if fewer than 2 lines; `.split()` on Python (Unicode) whitespace; `[1]` →
`IndexError` if fewer than 2 tokens; `float(token)` → `ValueError` if unparsable.

**Numbers** are the *exact decimal values* of the parsed texts (`Fmt.parseDec`); Python rounds them to the
nearest double.  **Out of the modelled domain** — the model answers `.error .Other` where Python would
return a float (or raise `ValueError`, or yield `nan`): a number cell/token that `parseDec` rejects and that
is `inf`/`infinity`/`nan` (any case, signed), or contains `_` (digit grouping), or contains a non-ASCII
character.  None of these occurs in a file written by `saveText`.  Overflow to `inf` (`1e400`) is not
modelled (the model returns the exact rational).

**Constructors.** `Signal(values, dt)` / `AccSignal(values, dt, label=…)` (default label `'m1'`) do not raise
for any loaded array, including 0 and 1 values [probed]; they only store `values`, `dt`, `label` (the rest of
the object state — caches, smoothing frequencies — is out of scope here).
-/
namespace EqsigVerif.Model.Loader
open EqsigVerif EqsigVerif.Wire EqsigVerif.Fmt

/-- decidable equality of outcomes (for `decide +kernel` in examples); named instance local to this namespace -/
instance decEqExcept {ε α : Type} [DecidableEq ε] [DecidableEq α] : DecidableEq (Except ε α)
  | .ok a, .ok b => if h : a = b then isTrue (h ▸ rfl) else isFalse (fun h' => h (Except.ok.inj h'))
  | .error a, .error b => if h : a = b then isTrue (h ▸ rfl) else isFalse (fun h' => h (Except.error.inj h'))
  | .ok _, .error _ => isFalse (fun h => by cases h)
  | .error _, .ok _ => isFalse (fun h => by cases h)

/-! ## writer -/

/-- `"\n".join(lines)` -/
def joinLines : List (List Char) → List Char
  | [] => []
  | [l] => l
  | l :: ls => l ++ '\n' :: joinLines ls

/-- the header line `"%i %.4f" % (len(values), dt)` -/
def headerL (n : Nat) (dt : Rat) : List Char := fmtIntL (n : Int) ++ ' ' :: fmtFixedL dt 4

/-- the lines written by `save_values_and_dt` -/
def saveLines (values : List Rat) (dt : Rat) (label : List Char) : List (List Char) :=
  label :: headerL values.length dt :: values.map (fun v => fmtFixedL v 6)

def saveL (values : List Rat) (dt : Rat) (label : List Char) : List Char :=
  joinLines (saveLines values dt label)

/-- exact text written by `save_values_and_dt(ffp, values, dt, label)`:
    `label`, `"%i %.4f" % (len(values), dt)`, `"%.6f" % v` per value, joined by `"\n"`, no trailing newline. -/
def saveText (values : List Rat) (dt : Rat) (label : String) : String :=
  String.ofList (saveL values dt label.toList)

/-! ## line structure -/

/-- universal-newline translation of text-mode `open()`: `\r\n ↦ \n`, lone `\r ↦ \n`.
    The flag says that the previous character was a `\r`. -/
def unlAux : Bool → List Char → List Char
  | _, [] => []
  | prevCR, c :: cs =>
    if c.toNat = 13 then '\n' :: unlAux true cs
    else if c.toNat = 10 ∧ prevCR = true then unlAux false cs
    else c :: unlAux false cs

def universalNewlines (cs : List Char) : List Char := unlAux false cs

/-- pieces between separator characters (always at least one piece, the last one possibly empty) -/
def pieces (p : Char → Bool) : List Char → List (List Char)
  | [] => [[]]
  | c :: cs =>
    if p c then [] :: pieces p cs
    else match pieces p cs with
      | [] => [[c]]
      | l :: ls => (c :: l) :: ls

/-- lines in Python's sense: pieces, without a final empty piece (`"a\n"` is one line, `""` none) -/
def splitLinesBy (p : Char → Bool) (cs : List Char) : List (List Char) :=
  let ps := pieces p cs
  if ps.getLast? = some [] then ps.dropLast else ps

def isLF (c : Char) : Bool := c.toNat = 10

/-- the characters `str.splitlines()` splits on (after universal newlines no `\r` is left, it is listed for
    completeness): `\n \r \x0b \x0c \x1c \x1d \x1e \x85 U+2028 U+2029` -/
def isPyLineBreak (c : Char) : Bool :=
  (10 ≤ c.toNat && c.toNat ≤ 13) || (28 ≤ c.toNat && c.toNat ≤ 30) || c.toNat = 133 ||
    c.toNat = 8232 || c.toNat = 8233

/-- Python `str.isspace` characters (what `str.split()` / `str.strip()` use) -/
def isPySpace (c : Char) : Bool :=
  let n := c.toNat
  (9 ≤ n && n ≤ 13) || (28 ≤ n && n ≤ 32) || n = 133 || n = 160 || n = 5760 || (8192 ≤ n && n ≤ 8202) ||
    n = 8232 || n = 8233 || n = 8239 || n = 8287 || n = 12288

/-- lines as the file iterator of `np.genfromtxt` sees them (argument already newline-translated) -/
def fileLines (t : List Char) : List (List Char) := splitLinesBy isLF t

/-- `str.splitlines()` (argument already newline-translated) -/
def pySplitlines (t : List Char) : List (List Char) := splitLinesBy isPyLineBreak t

/-- `str.split()` -/
def pySplit (l : List Char) : List (List Char) := (pieces isPySpace l).filter (fun t => !t.isEmpty)

/-- "a label without line breaks": none of the characters `str.splitlines()` / universal-newline file iteration
    split on (`\n \r \x0b \x0c \x1c \x1d \x1e \x85 U+2028 U+2029`) occurs in it -/
def NoLineBreak (label : String) : Prop := ∀ c ∈ label.toList, isPyLineBreak c = false

instance (label : String) : Decidable (NoLineBreak label) := by unfold NoLineBreak; infer_instance

/-! ## number cells -/

def isHash (c : Char) : Bool := c.toNat = 35
def isComma (c : Char) : Bool := c.toNat = 44
/-- the class of `strip(" \r\n")` in numpy's `LineSplitter` -/
def isSpCrLf (c : Char) : Bool := c.toNat = 32 || c.toNat = 13 || c.toNat = 10

def lowerAscii (c : Char) : Char := if 65 ≤ c.toNat ∧ c.toNat ≤ 90 then Char.ofNat (c.toNat + 32) else c

/-- texts that Python's `float()` may accept but `parseDec` does not model -/
def unmodelledNumber (cs : List Char) : Bool :=
  let core := (stripBy isAsciiWs cs).map lowerAscii
  let core := match core with
    | [] => []
    | c :: r => if c.toNat = 45 ∨ c.toNat = 43 then r else core
  cs.any (fun c => c.toNat = 95 || 128 ≤ c.toNat) ||
    core = "inf".toList || core = "infinity".toList || core = "nan".toList

/-- `float(text)`: exact decimal value, `ValueError`, or `.Other` = outside the modelled domain -/
def pyFloat (cs : List Char) : Except ErrKind Rat :=
  match parseDecL cs with
  | some q => .ok q
  | none => if unmodelledNumber cs then .error .Other else .error .ValueError

/-! ## `np.genfromtxt(ffp, skip_header=1, delimiter=",", names=True, usecols=0)` -/

/-- content of a candidate names line: what follows the first `#` (further `#` deleted) if there is one -/
def namesContent (l : List Char) : List Char :=
  if l.any isHash then ((l.dropWhile (fun c => !isHash c)).drop 1).filter (fun c => !isHash c) else l

/-- `LineSplitter`: cut the comment, `strip(" \r\n")` -/
def dataContent (l : List Char) : List Char := stripBy isSpCrLf (l.takeWhile (fun c => !isHash c))

/-- lines after the names line, or `none` if no names line exists; also returns whether the names line
    yields at least one field name -/
def findNames : List (List Char) → Option (Bool × List (List Char))
  | [] => none
  | l :: ls =>
    let c := stripBy isSpCrLf (namesContent l)
    if c.isEmpty then findNames ls
    else
      let fields := pieces isComma c
      let fields := match fields with
        | [] => []
        | f :: fs => if (stripBy isPySpace f).isEmpty then fs else fields
      some (!fields.isEmpty, ls)

/-- first-column cells of the data rows -/
def dataCells (ls : List (List Char)) : List (List Char) :=
  (ls.map dataContent).filter (fun c => !c.isEmpty) |>.map (fun c => c.takeWhile (fun ch => !isComma ch))

/-- the array `np.genfromtxt(ffp, skip_header=1, delimiter=",", names=True, usecols=0)` returns (all its exceptions included):
    `some vals` — a dtype with a field, cells converted (`ValueError` for an unparsable cell);
    `none` — the 0-field dtype with no data row (an empty structured array; with ≥ 1 data row `ValueError`) -/
def genfromtxtData (flines : List (List Char)) : Except ErrKind (Option (List Rat)) :=
  match flines with
  | [] => .error .IndexError                      -- `next(fhd)` in the skip loop: StopIteration → `first_values[0]`
  | _ :: rest =>
    match findNames rest with
    | none => .error .IndexError                  -- no names line: `first_values = []`, `first_values[0]`
    | some (hasField, rows) =>
      let cells := dataCells rows
      if hasField then
        match cells.mapM pyFloat with
        | .error e => .error e
        | .ok vals => .ok (some vals)
      else if cells.isEmpty then .ok none
      else .error .ValueError                        -- tuple of length 1 into a structure with 0 fields

/-- `np.atleast_1d(data.astype(float))`: `TypeError` on the 0-field dtype, otherwise the values -/
def astypeFloat : Option (List Rat) → Except ErrKind (List Rat)
  | some vals => .ok vals
  | none => .error .TypeError

/-- (G) followed directly by `data.astype(float)` (the two steps without (D) in between; see `loadL` for the real order) -/
def genfromtxtCol0 (flines : List (List Char)) : Except ErrKind (List Rat) :=
  match flines with
  | [] => .error .IndexError                      -- `next(fhd)` in the skip loop: StopIteration → `first_values[0]`
  | _ :: rest =>
    match findNames rest with
    | none => .error .IndexError                  -- no names line: `first_values = []`, `first_values[0]`
    | some (hasField, rows) =>
      let cells := dataCells rows
      if hasField then cells.mapM pyFloat
      else if cells.isEmpty then .error .TypeError   -- `data.astype(float)` on a 0-field dtype
      else .error .ValueError                        -- tuple of length 1 into a structure with 0 fields

/-! ## `dt` from the header line -/

def headerDt (lines : List (List Char)) : Except ErrKind Rat :=
  match lines with
  | _ :: h :: _ =>
    match pySplit h with
    | _ :: tok :: _ => pyFloat tok
    | _ => .error .IndexError
  | _ => .error .IndexError

/-- `load_values_and_dt` on the decoded file content, in the order of the code: (G) `np.genfromtxt`, (D) the `dt` token,
    then `np.atleast_1d(data.astype(float))`; the first exception wins -/
def loadL (cs : List Char) : Except ErrKind (List Rat × Rat) :=
  let t := universalNewlines cs
  match genfromtxtData (fileLines t) with
  | .error e => .error e
  | .ok data =>
    match headerDt (pySplitlines t) with
    | .error e => .error e
    | .ok dt =>
      match astypeFloat data with
      | .error e => .error e
      | .ok vals => .ok (vals, dt)

/-- exact-decimal model of `load_values_and_dt(ffp)` on a file whose decoded content is `text` -/
def loadText (text : String) : Except ErrKind (List Rat × Rat) := loadL text.toList

/-! ## entry points -/

inductive SigType
  | Signal | AccSignal
  deriving Repr, DecidableEq, Inhabited

def SigType.toString : SigType → String
  | .Signal => "Signal" | .AccSignal => "AccSignal"

/-- the part of a `Signal` / `AccSignal` object the loader determines -/
structure Loaded where
  ty : SigType
  values : List Rat
  dt : Rat
  label : String
  deriving Repr, DecidableEq

/-- default `label` of `Signal.__init__` / `AccSignal.__init__` (`eqsig/single.py`) -/
def defaultLabel : String := "m1"

/-- first line of the file, `open(ffp).read().splitlines()[0]` -/
def firstLine (text : String) : Except ErrKind String :=
  match pySplitlines (universalNewlines text.toList) with
  | l :: _ => .ok (String.ofList l)
  | [] => .error .IndexError

/-- `load_sig(ffp, m=1.0)` = `Signal(vals * m, dt)` -/
def load_sig (text : String) (m : Rat := 1) : Except ErrKind Loaded :=
  match loadText text with
  | .error e => .error e
  | .ok (vals, dt) => .ok ⟨.Signal, vals.map (· * m), dt, defaultLabel⟩

/-- `load_asig(ffp, load_label=False, m=1.0)` = `AccSignal(vals * m, dt, label=…)` -/
def load_asig (text : String) (load_label : Bool := false) (m : Rat := 1) : Except ErrKind Loaded :=
  match loadText text with
  | .error e => .error e
  | .ok (vals, dt) =>
    if load_label then
      match firstLine text with
      | .error e => .error e
      | .ok label => .ok ⟨.AccSignal, vals.map (· * m), dt, label⟩
    else .ok ⟨.AccSignal, vals.map (· * m), dt, defaultLabel⟩

/-- `load_signal(ffp, astype='sig')`: `'signal'` → `Signal`, `'acc_sig'` → `AccSignal`, anything else
    (including the default `'sig'`) falls through both branches and returns `None`. -/
def load_signal (text : String) (astype : String := "sig") : Except ErrKind (Option Loaded) :=
  match loadText text with
  | .error e => .error e
  | .ok (vals, dt) =>
    if astype = "signal" then .ok (some ⟨.Signal, vals, dt, defaultLabel⟩)
    else if astype = "acc_sig" then .ok (some ⟨.AccSignal, vals, dt, defaultLabel⟩)
    else .ok none

/-- `save_signal(ffp, signal)` = `save_values_and_dt(ffp, signal.values, signal.dt, signal.label)` -/
def save_signal (s : Loaded) : String := saveText s.values s.dt s.label

end EqsigVerif.Model.Loader
