import EqsigVerif.Prelude.Np
import EqsigVerif.Prelude.Wire
/-!
# Model of `eqsig/fns/generic.py` (`interp2d`, `interp_left`) and `eqsig/fns/average.py`
(`calc_roll_av_vals`, `calc_step_fn_vals_error`, `calc_step_fn_steps_vals`)

Hand model, Mathlib-free, executable, over `Rat` (every double is a rational; the float arrays the
library works on are modelled by their exact values).  Python exceptions are `Except ErrKind`.
Each definition lists the Python statements it follows.
-/
namespace EqsigVerif.Model.Fns
open EqsigVerif.Wire EqsigVerif.Np

/-! ## small Python / NumPy helpers -/

/-- `np.sum` of a 1-d array (exact value; `List.sum`) -/
abbrev rsum (l : List Rat) : Rat := l.sum

/-- Python / NumPy integer indexing `l[i]` (negative `i` counts from the end); `IndexError` out of range -/
def pyGet {β : Type} (l : List β) (i : Int) : Except ErrKind β :=
  let j : Int := if i < 0 then i + l.length else i
  if j < 0 then .error .IndexError else
  match l[j.toNat]? with
  | some v => .ok v
  | none => .error .IndexError

/-- start/stop of a Python slice bound: negative counts from the end, then clipped to `[0, n]` -/
def pyBound (n : Nat) (i : Int) : Nat :=
  let j : Int := if i < 0 then i + n else i
  if j < 0 then 0 else if j > n then n else j.toNat

/-- `l[:i]` -/
def pySliceTo {β : Type} (l : List β) (i : Int) : List β := l.take (pyBound l.length i)
/-- `l[i:]` -/
def pySliceFrom {β : Type} (l : List β) (i : Int) : List β := l.drop (pyBound l.length i)

/-- `np.mean(l)`; `none` models the `nan` NumPy returns for an empty slice (RuntimeWarning, no raise) -/
def mean? (l : List Rat) : Option Rat :=
  if l.length = 0 then none else some (rsum l / (l.length : Rat))

/-! ## `interp2d(x, xf, f)` -/

/-- the literal `1e-10` (taken as the exact decimal) -/
def tol : Rat := 1 / 10000000000

/-- `s1 * f0_row + s0 * f1_row` -/
def rowComb (s1 s0 : Rat) (r0 r1 : List Rat) : List Rat :=
  List.zipWith (fun a b => s1 * a + s0 * b) r0 r1

/-- `ind = np.argmin(np.abs(x - xf))` for one query (first minimum) -/
def nearest (xf : List Rat) (x : Rat) : Nat := argmin (xf.map (fun a => absv (x - a)))

/-- `ind0 = np.clip(np.where(x_ind > x, ind - 1, ind), 0, None)` -/
def lowIdx (ind : Nat) (gt : Bool) : Int :=
  let i : Int := if gt then (ind : Int) - 1 else ind
  if i < 0 then 0 else i

/-- `ind1 = np.clip(np.where(x_ind > x, ind, ind + 1), None, len(xf) - 1)` -/
def highIdx (n ind : Nat) (gt : Bool) : Int :=
  let i : Int := if gt then (ind : Int) else (ind : Int) + 1
  if i > (n : Int) - 1 then (n : Int) - 1 else i

/-- `denom = a1 - a0; denom_adj = np.clip(denom, 1e-10, None);
s0 = np.where(denom > 0, (x - a0) / denom_adj, 1)` -/
def weight (a0 a1 x : Rat) : Rat :=
  let denom := a1 - a0
  let denom_adj := if denom < tol then tol else denom
  if denom > 0 then (x - a0) / denom_adj else 1

/-- one row of `interp2d`: everything the code does for the query `x` -/
def interp2dRow (xf : List Rat) (f : List (List Rat)) (x : Rat) : Except ErrKind (List Rat) := do
  -- ind = np.argmin(np.abs(x[:, np.newaxis] - xf), axis=1);  x_ind = xf[ind]
  let x_ind ← pyGet xf (nearest xf x : Nat)
  -- ind0 = np.where(x_ind > x, ind - 1, ind);  ind1 = np.where(x_ind > x, ind, ind + 1);  the two clips
  let ind0 := lowIdx (nearest xf x) (decide (x_ind > x))
  let ind1 := highIdx xf.length (nearest xf x) (decide (x_ind > x))
  -- f0 = f[ind0]; f1 = f[ind1]; a0 = xf[ind0]; a1 = xf[ind1]
  let f0 ← pyGet f ind0
  let f1 ← pyGet f ind1
  let a0 ← pyGet xf ind0
  let a1 ← pyGet xf ind1
  -- s0 = …;  s1 = 1 - s0;  s1[:, np.newaxis] * f0 + s0[:, np.newaxis] * f1
  pure (rowComb (1 - weight a0 a1 x) (weight a0 a1 x) f0 f1)

/-- `eqsig.fns.generic.interp2d(x, xf, f)`; `f` is a rectangular table with one row per node.
`ValueError` for an empty node array (`argmin` of an empty sequence — also for empty `x`),
`IndexError` when `f` has fewer rows than a used node index. -/
def interp2d (x xf : List Rat) (f : List (List Rat)) : Except ErrKind (List (List Rat)) :=
  if xf.length = 0 then .error .ValueError else x.mapM (interp2dRow xf f)

/-! ## `interp_left(x0, x, y=None)` -/

/-- `np.searchsorted(x, q, side='right')` for a sorted (non-decreasing) `x`:
the number of leading elements `≤ q` -/
def searchsortedRight : List Rat → Rat → Nat
  | [], _ => 0
  | a :: as, q => if a ≤ q then searchsortedRight as q + 1 else 0

/-- `inds = np.searchsorted(x, x0, side='right') - 1` after the two checks the code makes:
`min(x0)` (`ValueError` for empty `x0`), `x[0]` (`IndexError` for empty `x`), the `assert`. -/
def interpLeftInds (x0s x : List Rat) : Except ErrKind (List Int) :=
  match minL? x0s with
  | none => .error .ValueError
  | some m =>
    match x with
    | [] => .error .IndexError
    | xfirst :: _ =>
      -- assert min(x0) >= x[0]
      if m < xfirst then .error .AssertionError
      else .ok (x0s.map (fun q => (searchsortedRight x q : Int) - 1))

/-- `y = np.arange(len(x))` for `y is None`, else `np.array(y)` -/
def interpLeftY (x : List Rat) : Option (List Rat) → List Rat
  | none => (List.range x.length).map (fun (i : Nat) => (i : Rat))
  | some y => y

/-- array form `interp_left(x0, x, y)`; `y = none` returns the indices (as rationals) -/
def interpLeft (x0s x : List Rat) (y : Option (List Rat)) : Except ErrKind (List Rat) := do
  let inds ← interpLeftInds x0s x
  inds.mapM (pyGet (interpLeftY x y))

/-- scalar form (`x0` without `__len__`): `y[inds][0]` -/
def interpLeftScalar (x0 : Rat) (x : List Rat) (y : Option (List Rat)) : Except ErrKind Rat := do
  let r ← interpLeft [x0] x y
  pyGet r 0

/-! ## `calc_roll_av_vals(values, steps, mode)` -/

/-- `mode`: `'forward'`, `'backward'`, anything else (`'centre'`/`'center'`) -/
inductive Mode | forward | backward | centre
  deriving Repr, DecidableEq, Inhabited

/-- the edge-replicated series `x_ext` -/
def rollExt (values : List Rat) (v0 vl : Rat) (steps : Nat) : Mode → List Rat
  | .forward => values ++ List.replicate (steps - 1) vl
  | .backward => List.replicate (steps - 1) v0 ++ values
  | .centre =>
    let s := steps / 2            -- int(np.floor(steps / 2))
    let e := steps - s - 1
    List.replicate s v0 ++ values ++ List.replicate e vl

/-- `eqsig.fns.average.calc_roll_av_vals`.  `IndexError` for empty `values` (`values[-1]`/`values[0]`),
`ValueError` for `steps = 0` (`np.ones(-1)`); `steps ≥ 1` is the documented domain. -/
def rollAv (values : List Rat) (steps : Nat) (mode : Mode) : Except ErrKind (List Rat) :=
  match values.head?, values.getLast? with
  | some v0, some vl =>
    if steps = 0 then .error .ValueError else
    let x_ext := rollExt values v0 vl steps mode
    -- csum = np.zeros(len(values) + steps); csum[1:] = np.cumsum(x_ext)
    let csum : List Rat := 0 :: cumsum x_ext
    -- (csum[steps:] - csum[:-steps]) / steps
    .ok (List.zipWith (fun a b => (a - b) / (steps : Rat)) (csum.drop steps) (csum.take (csum.length - steps)))
  | _, _ => .error .IndexError

/-! ## `calc_step_fn_vals_error(values, pow, dir)` -/

/-- `dir`: `None` (or any other string), `'up'`, `'down'` -/
inductive Dir | none | up | down
  deriving Repr, DecidableEq, Inhabited

/-- row `i` of `np.tril(values)` for 1-d `values`: `values[j]` for `j ≤ i`, else `0` -/
def trilRow (values : List Rat) (i : Nat) : List Rat :=
  values.take (i + 1) ++ List.replicate (values.length - (i + 1)) 0

/-- row `i` of `np.triu(values)` for 1-d `values`: `values[j]` for `j ≥ i`, else `0` -/
def triuRow (values : List Rat) (i : Nat) : List Rat :=
  List.replicate (min i values.length) 0 ++ values.drop i

/-- `np.sum(np.abs(row - m) ** pow)` -/
def sumAbsPow (row : List Rat) (m : Rat) (pow : Nat) : Rat :=
  rsum (row.map (fun a => absv (a - m) ^ pow))

/-- `pre_mean[i] = np.sum(pre_a, axis=1)[i] / pre_n[i]` -/
def preMean (values : List Rat) (i : Nat) : Rat := rsum (trilRow values i) / ((i + 1 : Nat) : Rat)
/-- `post_mean[i] = np.sum(post_a, axis=1)[i] / post_n[i]` -/
def postMean (values : List Rat) (i : Nat) : Rat :=
  rsum (triuRow values i) / ((values.length - i : Nat) : Rat)

/-- `err_pre[i]` (with the fixed `np.abs(pre_mean) ** pow` correction for the padded zeros) -/
def errPre (values : List Rat) (pow : Nat) (i : Nat) : Rat :=
  sumAbsPow (trilRow values i) (preMean values i) pow
    - ((values.length - (i + 1) : Nat) : Rat) * absv (preMean values i) ^ pow
/-- `err_post[i]` -/
def errPost (values : List Rat) (pow : Nat) (i : Nat) : Rat :=
  sumAbsPow (triuRow values i) (postMean values i) pow
    - ((values.length - (values.length - i) : Nat) : Rat) * absv (postMean values i) ^ pow

/-- the error array before the `dir` rule: `err[:-1] = err_post[1:] + err_pre[:-1]`,
`err[-1] = np.sum(np.abs(values - np.mean(values)) ** pow)` -/
def stepErrRaw (values : List Rat) (pow : Nat) : List Rat :=
  let n := values.length
  (List.range (n - 1)).map (fun k => errPost values pow (k + 1) + errPre values pow k)
    ++ [sumAbsPow values (rsum values / (n : Rat)) pow]

/-- `eqsig.fns.average.calc_step_fn_vals_error(values, pow, dir)` on a float array, `pow ∈ ℕ`.
`IndexError` for empty `values` (`err[-1] = …`). -/
def stepErr (values : List Rat) (pow : Nat) (dir : Dir) : Except ErrKind (List Rat) :=
  let n := values.length
  if n = 0 then .error .IndexError else
  let err := stepErrRaw values pow
  match dir with
  | .none => .ok err
  | .down =>
    -- max_err = np.max(err); err = np.where(pre_mean < post_mean, max_err * 10, err)
    match maxL? err with
    | none => .error .ValueError
    | some max_err =>
      .ok (List.zipWith (fun k e =>
        if preMean values k < postMean values k then max_err * 10 else e) (List.range n) err)
  | .up =>
    match maxL? err with
    | none => .error .ValueError
    | some max_err =>
      .ok (List.zipWith (fun k e =>
        if preMean values k > postMean values k then max_err * 10 else e) (List.range n) err)

/-! ## `calc_step_fn_steps_vals(values, ind=None)` -/

/-- `pre = np.mean(values[:ind]); post = np.mean(values[ind + 1:])` for a given (Python) integer `ind`.
A component is `none` where NumPy returns `nan` (mean of an empty slice; RuntimeWarning, no raise). -/
def stepLevelsAt (values : List Rat) (ind : Int) : Option Rat × Option Rat :=
  (mean? (pySliceTo values ind), mean? (pySliceFrom values (ind + 1)))

/-- `eqsig.fns.average.calc_step_fn_steps_vals(values, ind=None)`:
default `ind = np.argmin(calc_step_fn_vals_error(values))` (first minimum of the `pow = 1`, `dir = None` error);
`IndexError` for empty `values` with the default `ind` (raised inside `calc_step_fn_vals_error`). -/
def stepLevels (values : List Rat) (ind : Option Int) : Except ErrKind (Option Rat × Option Rat) :=
  match ind with
  | some i => .ok (stepLevelsAt values i)
  | none =>
    match stepErr values 1 .none with
    | .error e => .error e
    | .ok err => .ok (stepLevelsAt values ((argmin err : Nat) : Int))

end EqsigVerif.Model.Fns
