import EqsigVerif.Prelude.Np
import EqsigVerif.Prelude.NpT
import EqsigVerif.Prelude.Wire
import EqsigVerif.Model.Im
/-!
# Models of the spectrum-based leftovers of C03 (hand models, Mathlib-free, generic `α`, executable)

`eqsig/im.py`: `calc_vsi_temporal`, `cumulative_response_spectra`, `calc_max_velocity_period`, `max_acceleration_period`;
`eqsig/sdof.py`: `single_elastic_response` (rectangular Duhamel sum), `slow_response_spectra`.

As in `Model/SpectraFns.lean` the response series of `nigam_and_jennings_response` (`u a : List (List α)`, one row per
period) and the spectra of a signal object are **inputs**; `twoPi` is the double `2 * np.pi`.
-/
namespace EqsigVerif.Model.SpectraFns2
open EqsigVerif
open EqsigVerif.Wire (ErrKind)

variable {α : Type}

section Temporal
variable [LT α] [DecidableLT α] [Neg α] [Add α] [Mul α] [Div α] [OfNat α 0] [OfNat α 2]

/-- one row of `abs(psv)` of `calc_vsi_temporal`: `|w · running max of the SIGNED displacement|`, `w = 2π/T` -/
def psvTimeRow (twoPi T : α) (u : List α) : List α := (NpT.cummax u).map (fun x => Np.absv (twoPi / T * x))

/-- `calc_vsi_temporal` given the displacement rows of the response: `0.01 * np.trapz(abs(psv), axis=0)`, one entry per sample
(`c001` is the double `0.01`) -/
def vsiTemporal (c001 twoPi : α) (periods : List α) (uRows : List (List α)) : List α :=
  (NpT.trapzAxis0 (List.zipWith (psvTimeRow twoPi) periods uRows)).map (c001 * ·)

/-- `cumulative_response_spectra(…, "arias_intensity")` given the total-acceleration rows of the response: the Arias series of
every row (`k = np.pi / (2 * 9.81)`) -/
def cumulativeArias (k dt : α) (aRows : List (List α)) : List (List α) := aRows.map (Model.Im.arias k dt)

/-- `periods[np.argmax(spectrum)]`: the period at the FIRST maximum (`ValueError` for an empty spectrum, `IndexError` if the
spectrum were longer than the period list) -/
def periodAtMax (periods spec : List α) : Except ErrKind α :=
  if spec.length = 0 then .error .ValueError else
  match periods[Np.argmax spec]? with
  | some T => .ok T
  | none => .error .IndexError

end Temporal

section Duhamel
variable [Add α] [Mul α] [OfNat α 0]

/-- what pass `i` of the loop of `single_elastic_response` adds to `disp[i:]`: entry `m` is `p_i · E(m) · S(m)`
(`E(m) = exp(−ξωₙ·m·step)`, `S(m) = sin(ω_d·m·step)`), `n − i` entries -/
def duhamelDNew (E S : Nat → α) (pAt : Nat → α) (n i : Nat) : List α :=
  (List.range (n - i)).map (fun m => pAt i * E m * S m)

/-- `single_elastic_response`, code-shaped: `n` passes `disp[i:] += d_new_i` on `np.zeros(n)` -/
def duhamel (E S : Nat → α) (pAt : Nat → α) (n : Nat) : List α :=
  (List.range n).foldl (fun disp i => NpT.addFrom i disp (duhamelDNew E S pAt n i)) (List.replicate n 0)

/-- the defining sum: `disp[k] = Σ_{i ≤ k} p_i · E(k − i) · S(k − i)` (rectangular Duhamel convolution) -/
def duhamelSumAt (E S : Nat → α) (pAt : Nat → α) (k : Nat) : α :=
  Np.sum ((List.range (k + 1)).map (fun i => pAt i * E (k - i) * S (k - i)))

end Duhamel

end EqsigVerif.Model.SpectraFns2
