import EqsigVerif.Prelude.Np
import EqsigVerif.Prelude.Wire
/-!
# Model of the record-editing methods of `eqsig/single.py` (hand model, Mathlib-free)

`Signal.butter_pass` (everything *around* the SciPy calls), `Signal.remove_poly` /
`eqsig.fns.generic.remove_poly` (everything around `np.polyfit`), `remove_average`, `add_constant`,
`add_series`, `add_signal`, `running_average` (tree with the planned fix: the loop reads from a float copy).

External calls are parameters:
* `F : List α → List α` stands for `filtfilt(b, a, ·)` with `(b, a) = butter(order, wp, btype)`;
* `cofs : List Rat` stands for the result of `np.polyfit(x, values, k)`.

NumPy facts used: a Python slice clips its bounds (`pySlice`), `np.mean` of an empty slice is `nan`
(not an exception): where that can happen the model returns `Except.error .ZeroDivisionError`
(tag for NumPy's non-raising `0/0`), never a number.
-/
namespace EqsigVerif.Model.Single
open EqsigVerif
open EqsigVerif.Wire (ErrKind)

/-! ### Python slicing and `np.mean` -/

/-- normalisation of one slice bound `b` for a sequence of length `n`
(`b < 0` counts from the end, everything is clipped to `[0, n]`) -/
def normIdx (n : Nat) (b : Int) : Nat :=
  if b < 0 then ((n : Int) + b).toNat else min b.toNat n

/-- `l[a:b]` with arbitrary integer bounds -/
def pySlice {α : Type} (l : List α) (a b : Int) : List α :=
  (l.take (normIdx l.length b)).drop (normIdx l.length a)

/-- `l[a:]` -/
def pyFrom {α : Type} (l : List α) (a : Int) : List α := l.drop (normIdx l.length a)

/-- `l[:b]` -/
def pyTo {α : Type} (l : List α) (b : Int) : List α := l.take (normIdx l.length b)

/-- `np.mean(l)` for a non-empty `l` (callers prove or test non-emptiness) -/
def mean (l : List Rat) : Rat := Np.sum l / (l.length : Rat)

/-- `np.mean(l)`; `none` = `nan` (empty slice) -/
def mean? (l : List Rat) : Option Rat := if l.isEmpty then none else some (mean l)

/-! ### `butter_pass` -/

/-- value of the keyword `remove_gibbs`: `None`, `'start'`, `'end'`, anything else (`'mid'`, `0`, …) -/
inductive GibbsMode | none | start | «end» | mid
  deriving Repr, DecidableEq, Inhabited

/-- `int(np.ceil(np.log2(n)))` for `n ≥ 1`: least `k` with `n ≤ 2^k` -/
def ceilLog2 (n : Nat) : Nat := if n ≤ 1 then 0 else Nat.log2 (n - 1) + 1

/-- the padding arithmetic of `butter_pass`: `(new_len, s_len, f_len)`.
Note `remove_gibbs == 'start'` gives `s_len = 0` (the record is placed at the *start*). -/
def butterBookkeeping (n : Nat) (mode : GibbsMode) (gibbsExtra : Nat) : Nat × Nat × Nat :=
  match mode with
  | .none => (n, 0, n)
  | m =>
    let nindex := ceilLog2 n + gibbsExtra
    let newLen := 2 ^ nindex
    let diffLen := newLen - n
    let sLen := match m with
      | .start => 0
      | .end => diffLen
      | _ => diffLen / 2          -- int(diff_len / 2)
    (newLen, sLen, sLen + n)

/-- the array handed to `filtfilt`.
`temp = start_value * ones(new_len); temp[f_len:] = end_value; temp[s_len:f_len] = values`
(index form: the last assignment that covers position `i` wins) -/
def butterPad (values : List Rat) (mode : GibbsMode) (gibbsExtra gibbsRange : Nat) : List Rat :=
  match mode with
  | .none => values
  | _ =>
    let (newLen, sLen, fLen) := butterBookkeeping values.length mode gibbsExtra
    let endValue := mean (pyFrom values (-(gibbsRange : Int)))
    let startValue := mean (pyTo values (gibbsRange : Int))
    (List.range newLen).map fun i =>
      if sLen ≤ i ∧ i < fLen then values.getD (i - sLen) 0
      else if fLen ≤ i then endValue
      else startValue

/-- `butter_pass` after the argument checks: pad, apply the external operator, cut `[s_len:f_len]` -/
def butterPass (F : List Rat → List Rat) (values : List Rat) (mode : GibbsMode)
    (gibbsExtra gibbsRange : Nat) : List Rat :=
  let (_, sLen, fLen) := butterBookkeeping values.length mode gibbsExtra
  Np.slice (F (butterPad values mode gibbsExtra gibbsRange)) sLen fLen

/-- Python type of the `cut_off` argument -/
inductive Container | list | tuple | ndarray | other
  deriving Repr, DecidableEq, Inhabited

inductive FilterType | low | high | band
  deriving Repr, DecidableEq, Inhabited

/-- container test, length test and filter-type selection of `butter_pass`.
Returns the filter type and the cut-off frequencies handed on (`[f]` or `[f₁, f₂]`).
`(None, None)` selects `'low'` with `cut_off = None`, and `None / nyq` raises `TypeError`. -/
def filterSelect (c : Container) (items : List (Option Rat)) : Except ErrKind (FilterType × List Rat) :=
  match c with
  | .other => .error .ValueError
  | _ =>
    match items with
    | [some f1, some f2] => .ok (.band, [f1, f2])
    | [none, some f] => .ok (.low, [f])
    | [none, none] => .error .TypeError
    | [some f, none] => .ok (.high, [f])
    | _ => .error .ValueError

/-- `wp = cut_off / nyq` with `nyq = (1/dt)·0.5` -/
def normCut (dt : Rat) (cut : List Rat) : List Rat := cut.map (· / ((1 / dt) * (1/2)))

/-- `scipy.signal.butter` rejects critical frequencies outside `(0, 1)` (`ValueError`), and for band filters
(through `lp2bp`/`bilinear`, as observed) needs nothing more; SciPy ≥ 1.12 also rejects `Wn[0] ≥ Wn[1]`. -/
def butterAccepts (wp : List Rat) : Bool :=
  wp.all (fun w => 0 < w ∧ w < 1) && (match wp with | [a, b] => a < b | _ => true)

/-- length of `a`/`b` returned by `butter(order, …)` -/
def ntaps (order : Nat) : FilterType → Nat
  | .band => 2 * order + 1
  | _ => order + 1

/-- `Signal.butter_pass(cut_off, filter_order, remove_gibbs, gibbs_extra, gibbs_range)`, whole method.
Guards: `dt ≠ 0` (Python float division raises), record non-empty (`log2(0)`/`filtfilt`), `gibbs_range ≥ 1`
are the stated domain; `filtfilt` raises `ValueError` when the padded record is not longer than
`padlen = 3·max(len a, len b)`. -/
def butterPassFull (F : FilterType → List Rat → List Rat → List Rat)
    (c : Container) (items : List (Option Rat)) (dt : Rat) (values : List Rat)
    (order : Nat) (mode : GibbsMode) (gibbsExtra gibbsRange : Nat) : Except ErrKind (List Rat) := do
  let (ft, cut) ← filterSelect c items
  if dt = 0 then throw .ZeroDivisionError
  let wp := normCut dt cut
  let (newLen, sLen, fLen) := butterBookkeeping values.length mode gibbsExtra
  let padded := butterPad values mode gibbsExtra gibbsRange
  if !butterAccepts wp then throw .ValueError
  if newLen ≤ 3 * ntaps order ft then throw .ValueError
  pure (Np.slice (F ft wp padded) sLen fLen)

/-! ### `remove_poly` (object level and `eqsig.fns.generic.remove_poly`: the same map) -/

/-- `np.linspace(0, 1.0, n)` (exact: `i/(n-1)`; `n = 1 ↦ [0]`) -/
def linspace01 (n : Nat) : List Rat := (List.range n).map fun (i : Nat) => (i : Rat) / ((n - 1 : Nat) : Rat)

/-- `y_cor = Σ_co cofs[co] · x**(k − co)` with `k = len(cofs) − 1` (the loop, accumulated left to right) -/
def polyCorrection (cofs : List Rat) (x : Rat) : Rat :=
  let k := cofs.length - 1
  (List.range cofs.length).foldl (fun acc co => acc + cofs.getD co 0 * x ^ (k - co)) (0 * x)

/-- `values − y_cor` for given polynomial coefficients (highest power first, as `np.polyfit` returns) -/
def removePolyWith (cofs : List Rat) (values : List Rat) : List Rat :=
  List.zipWith (fun v x => v - polyCorrection cofs x) values (linspace01 values.length)

/-- `Signal.remove_poly` and `fns.generic.remove_poly` with `polyfit` as a parameter -/
def removePoly (polyfit : List Rat → List Rat → Nat → List Rat) (values : List Rat) (k : Nat) : List Rat :=
  removePolyWith (polyfit (linspace01 values.length) values k) values

/-! ### `remove_average`, `add_*` -/

/-- `remove_average(section)`: subtracts `np.mean(values[:section])`; the default `section = -1`
averages all samples **but the last**. Empty section ⇒ `nan` record in NumPy ⇒ `.ZeroDivisionError` tag. -/
def removeAverage (values : List Rat) (section_ : Int := -1) : Except ErrKind (List Rat) :=
  match mean? (pyTo values section_) with
  | none => .error .ZeroDivisionError
  | some av => .ok (values.map (· - av))

/-- `add_constant` -/
def addConstant (values : List Rat) (c : Rat) : List Rat := values.map (· + c)

/-- `add_series`: raises `SignalProcessingError` iff the lengths differ -/
def addSeries (values series : List Rat) : Except ErrKind (List Rat) :=
  if series.length = values.length then .ok (Np.addL values series)
  else .error .SignalProcessingError

/-- the argument of `add_signal`: a `Signal` (sub)class instance or anything else -/
inductive Operand
  | signal (dt : Rat) (values : List Rat)
  | notSignal

/-- `add_signal`: raises `SignalProcessingError` iff the operand is not a `Signal` or its `dt` differs
(then `add_series`, which raises iff the lengths differ) -/
def addSignal (dt : Rat) (values : List Rat) : Operand → Except ErrKind (List Rat)
  | .signal dt' vals' => if dt' = dt then addSeries values vals' else .error .SignalProcessingError
  | .notSignal => .error .SignalProcessingError

/-! ### `running_average` -/

/-- one output sample of `running_average` (`mot` is the float copy of the record) -/
def runningAverageAt (mot : List Rat) (width : Nat) (i : Nat) : Rat :=
  let h : Nat := width / 2                       -- int(width / 2)
  if (i : Rat) < (width : Rat) / 2 then
    mean (pyTo mot ((i + h + 1 : Nat) : Int))
  else if (i : Rat) > (mot.length : Rat) - (width : Rat) / 2 then
    mean (pyFrom mot ((i : Int) - (h : Int)))
  else
    mean (pySlice mot ((i : Int) - (h : Int)) ((i + h + 1 : Nat) : Int))

/-- `Signal.running_average(width)` (fixed tree) -/
def runningAverage (values : List Rat) (width : Nat) : List Rat :=
  (List.range values.length).map (runningAverageAt values width)

end EqsigVerif.Model.Single
