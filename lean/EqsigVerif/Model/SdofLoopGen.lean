/-!
# Code-shaped combinators used by the *generated* translation of `eqsig/sdof.py` (`Gen/SdofLoop.lean`)

Hand-written, Mathlib-free.  The translator `tools/py2lean_x_sdof.py` maps
* `for i in range(n): <body>` ↦ `forRange n (fun i st => <body>) init` (left fold over `0 … n-1`),
* a column read `arr[s:, k]` of one row ↦ `row.getD k 0`, a column write `arr[s:, k] = e` of one row ↦ `row.set k e`,
* `base[s:] = rows` (block row assignment) ↦ `setRowsFrom s base rows`, `base[0] = r` ↦ `base.set 0 r`,
* `np.zeros([r, c])` ↦ `zeros2 r c`, one row of it ↦ `List.replicate c 0`.
`Lemmas/SdofLoopGen.lean` proves that the loop so written computes the recurrence series of `Model/Sdof.lean`.
-/
namespace EqsigVerif.Model.SdofLoopGen

variable {α β σ : Type}

/-- `for i in range(n): st = body i st` -/
def forRange (n : Nat) (body : Nat → σ → σ) (init : σ) : σ :=
  (List.range n).foldl (fun st i => body i st) init

/-- `np.zeros([r, c])` as a list of rows -/
def zeros2 [OfNat α 0] (r c : Nat) : List (List α) := List.replicate r (List.replicate c 0)

/-- `base[s:] = rows` for `rows.length = base.length - s` (any other row count is a broadcast/`ValueError` in NumPy) -/
def setRowsFrom (s : Nat) (base rows : List β) : List β := base.take s ++ rows

/-- the three 2-D arrays `(resp_u, resp_v, sdof_acc)` from per-row triples -/
def unzip3 (rows : List (List α × List α × List α)) : List (List α) × List (List α) × List (List α) :=
  (rows.map (·.1), rows.map (·.2.1), rows.map (·.2.2))

end EqsigVerif.Model.SdofLoopGen
