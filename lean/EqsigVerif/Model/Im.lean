import EqsigVerif.Prelude.Np
import EqsigVerif.Prelude.Wire
import EqsigVerif.Model.Displacements
/-!
# Model of the cumulative intensity measures and durations of `eqsig/im.py`
(hand model, Mathlib-free, executable)

Cumulative series (generic over core operation classes, run at `Rat`, reasoned about at any
linearly ordered field):

* `ariasCore`, `arias`      — `_raw_calc_arias_intensity`, `calc_arias_intensity`
* `cav`                     — `calc_cav`
* `isv`                     — `calc_isv`
* `intAbsAcc`, `intAbsVel`  — `calc_integral_of_abs_acceleration`, `calc_integral_of_abs_velocity`
* `unitKineticEnergy`       — `calc_unit_kinetic_energy`
* `velocity`, `displacement`, `pga`, `pgv`, `pgd` — the lazy `AccSignal` properties (`trap=True`)

Durations (over `Rat`):

* `sigDurSeries`, `sigDurVals`, `sigDur` (+ `…Dur` for `se=False`) — `calc_sig_dur_vals`, `calc_sig_dur`
* `bracDurSE`, `bracDur`    — `calc_brac_dur`

Standardised CAV (over `Rat`, on the domain `dt = 1/pps`):

* `cavDp`                   — `calc_cav_dp`

Empty record: SciPy's `cumulative_trapezoid` raises `ValueError` on an empty array while the prelude's
`cumtrapz [] = []`; the checked entry points `nonempty?`/`…?` reproduce the exception, the plain series
functions are used on non-empty records.
-/
namespace EqsigVerif.Model.Im
open EqsigVerif.Np EqsigVerif.Wire EqsigVerif.Model.Displacements

/-! ## cumulative series -/
section Series
variable {α : Type} [Add α] [Mul α] [Div α] [OfNat α 0] [OfNat α 2]

/-- `np.trapz(y, dx=dx)` / `scipy.integrate.trapezoid(y, dx=dx)`: the closed sum of the panels -/
def trapz (dx : α) : List α → α
  | [] => 0
  | [_] => 0
  | x :: y :: r => dx * (y + x) / 2 + trapz dx (y :: r)

/-- `cumulative_trapezoid(acc ** 2, dx=dt, initial=0)`: `_raw_calc_arias_intensity` without the constant -/
def ariasCore (dt : α) (a : List α) : List α := cumtrapz dt (sq a)

/-- `_raw_calc_arias_intensity(acc, dt) = k * cumulative_trapezoid(acc**2, dx=dt, initial=0)` with
`k = np.pi / (2 * 9.81)` (a real / float constant: it is a parameter here) -/
def arias (k : α) (dt : α) (a : List α) : List α := (ariasCore dt a).map (k * ·)

/-- `AccSignal.velocity` (lazy, `trap=True`) -/
def velocity (dt : α) (a : List α) : List α := (veloDispTrap a dt).1

/-- `AccSignal.displacement` (lazy, `trap=True`) -/
def displacement (dt : α) (a : List α) : List α := (veloDispTrap a dt).2

/-- `calc_isv`: `cumulative_trapezoid(velocity ** 2, dx=dt, initial=0)` -/
def isv (dt : α) (a : List α) : List α := cumtrapz dt (sq (velocity dt a))

section Abs
variable [LT α] [DecidableLT α] [Neg α]

/-- `calc_cav`: `cumulative_trapezoid(np.abs(values), dx=dt, initial=0)` -/
def cav (dt : α) (a : List α) : List α := cumtrapz dt (absL a)

/-- `calc_integral_of_abs_acceleration`: `np.cumsum(abs(values) * dt)` -/
def intAbsAcc (dt : α) (a : List α) : List α := cumsum ((absL a).map (· * dt))

/-- `calc_integral_of_abs_velocity`: `np.cumsum(abs(velocity) * dt)` -/
def intAbsVel (dt : α) (a : List α) : List α := cumsum ((absL (velocity dt a)).map (· * dt))

/-- `AccSignal.pga = calc_peak(values)` -/
def pga (a : List α) : Option α := calcPeak? a
/-- `AccSignal.pgv = calc_peak(velocity)` -/
def pgv (dt : α) (a : List α) : Option α := calcPeak? (velocity dt a)
/-- `AccSignal.pgd = calc_peak(displacement)` -/
def pgd (dt : α) (a : List α) : Option α := calcPeak? (displacement dt a)

variable [Sub α] [OfNat α 1]

/-- `kin_energy = 0.5 * velocity * np.abs(velocity)` -/
def kinEnergy (v : List α) : List α := v.map (fun x => (1 / 2 : α) * x * absv x)

/-- `np.cumsum(abs(np.insert(np.diff(kin), 0, kin[0])))`; `kin[0]` on an empty array is `IndexError` -/
def cumAbsDelta : List α → Except ErrKind (List α)
  | [] => .error .IndexError
  | k0 :: ks => .ok (cumsum (absL (ediff1d k0 (k0 :: ks))))

/-- `calc_unit_kinetic_energy` (on a non-empty record; the empty record raises earlier, see `nonempty?`) -/
def unitKineticEnergy (dt : α) (a : List α) : Except ErrKind (List α) :=
  cumAbsDelta (kinEnergy (velocity dt a))

end Abs

/-- SciPy's `cumulative_trapezoid` raises `ValueError` on an empty array -/
def nonempty? (a : List α) : Except ErrKind Unit :=
  match a with
  | [] => .error .ValueError
  | _ :: _ => .ok ()

end Series

/-! ## durations -/

/-- `(idx[0], idx[-1])` of an index array; `none` when it is empty (`IndexError` in NumPy) -/
def firstLast? (idx : List Nat) : Option (Nat × Nat) :=
  match idx.head?, idx.getLast? with
  | some i0, some i1 => some (i0, i1)
  | _, _ => none

/-- the mask `(im > start * im[-1]) & (im < end * im[-1])` -/
def sigMask (start end_ tot : Rat) (c : Rat) : Bool := decide (start * tot < c) && decide (c < end_ * tot)

/-- the shared part of `calc_sig_dur_vals` / `calc_sig_dur` for a cumulative series `im`:
`ind = np.where((im > start*im[-1]) & (im < end*im[-1]))[0]`, `(ind[0]*dt, ind[-1]*dt)`.
`IndexError` when no sample lies strictly between (or `im` is empty: `im[-1]`). -/
def sigDurSeries (im : List Rat) (dt start end_ : Rat) : Except ErrKind (Rat × Rat) :=
  match im.getLast? with
  | none => .error .IndexError
  | some tot =>
    match firstLast? (whereIdx (sigMask start end_ tot) im) with
    | some (i0, i1) => .ok ((i0 : Rat) * dt, (i1 : Rat) * dt)
    | none => .error .IndexError

/-- `se=False`: `end_time - start_time` -/
def durOf (r : Except ErrKind (Rat × Rat)) : Except ErrKind Rat :=
  match r with
  | .ok (s, e) => .ok (e - s)
  | .error k => .error k

/-- `calc_sig_dur_vals(motion, dt, start, end, se=True)`: cumulative sum of squares -/
def sigDurVals (motion : List Rat) (dt start end_ : Rat) : Except ErrKind (Rat × Rat) :=
  sigDurSeries (cumsum (sq motion)) dt start end_

/-- `calc_sig_dur_vals(motion, dt, start, end, se=False)` -/
def sigDurValsDur (motion : List Rat) (dt start end_ : Rat) : Except ErrKind Rat :=
  durOf (sigDurVals motion dt start end_)

/-- `calc_sig_dur(asig, start, end, im=None, se=True)` on the `ℚ` core of the Arias series (the positive
constant `π/(2·9.81)` cancels in both comparisons: `Lemmas.Im.sigDurSeries_scale_pos`) -/
def sigDur (a : List Rat) (dt start end_ : Rat) : Except ErrKind (Rat × Rat) :=
  sigDurSeries (ariasCore dt a) dt start end_

/-- `calc_sig_dur(asig, start, end, im=None, se=False)` -/
def sigDurDur (a : List Rat) (dt start end_ : Rat) : Except ErrKind Rat :=
  durOf (sigDur a dt start end_)

/-- `calc_brac_dur(asig, threshold, se=True)`: `time[np.where(abs(values) > thr)]` first / last;
`none` is Python's `(None, None)` -/
def bracDurSE (a : List Rat) (dt thr : Rat) : Option (Rat × Rat) :=
  match firstLast? (whereIdx (fun x => decide (thr < absv x)) a) with
  | some (i0, i1) => some ((i0 : Rat) * dt, (i1 : Rat) * dt)
  | none => none

/-- `calc_brac_dur(asig, threshold, se=False)`: `time2[-1] - time2[0]`, `0` when no sample exceeds -/
def bracDur (a : List Rat) (dt thr : Rat) : Rat :=
  match bracDurSE a dt thr with
  | some (s, e) => e - s
  | none => 0

/-! ## standardised CAV -/

/-- `scipy.integrate.trapezoid(y, x)` for equal-length `x`, `y` -/
def trapezoidXY : List Rat → List Rat → Rat
  | x0 :: x1 :: xs, y0 :: y1 :: ys => (x1 - x0) * (y1 + y0) / 2 + trapezoidXY (x1 :: xs) (y1 :: ys)
  | _, _ => 0

/-- length of `np.arange(start, stop, step)` for `step > 0`: `max(ceil((stop - start)/step), 0)` -/
def arangeLen (start stop step : Rat) : Nat := (Rat.ceil ((stop - start) / step)).toNat

/-- `np.arange(start, stop, step)` in exact arithmetic: `start + j*step` -/
def arangeQ (start stop step : Rat) : List Rat :=
  (List.range (arangeLen start stop step)).map (fun (j : Nat) => start + (j : Rat) * step)

/-- the constant `9.81` as an exact rational -/
def gAcc : Rat := 981 / 100

/-- the gate `0.025` (g) -/
def gate : Rat := 1 / 40

/-- one pass of the loop body of `calc_cav_dp` for the window starting at sample `start`:
returns `h * int_acc`. -/
def cavDpWindow (accG : List Rat) (pps : Nat) (dt : Rat) (start : Nat) : Except ErrKind Rat :=
  let end_ := start + pps
  let intervalTime := arangeQ ((start : Rat) * dt) ((start : Rat) * dt + 1) dt
  -- `acc_in_g[j] for j in range(start, end + 1)`
  let absAcc := absL (slice accG start (end_ + 1))
  let xLower := (start : Rat) * dt
  let xUpper := (end_ : Rat) * dt
  let idx := whereIdx (fun t => decide (xLower ≤ t) && decide (t ≤ xUpper)) intervalTime
  let xInt := takeIdx intervalTime idx
  -- fancy indexing `abs_acc_interval[np.where(mask)]`: out of range is `IndexError`
  if idx.all (· < absAcc.length) then
    let yInt := absL (takeIdx absAcc idx)
    let intAcc := trapezoidXY xInt yInt
    match maxL? absAcc with
    | none => .error .ValueError      -- `max()` of an empty sequence
    | some pgaW =>
      let h : Rat := if pgaW - gate < 0 then 0 else 1
      .ok (h * intAcc)
  else .error .IndexError

/-- the `for i in range(total_seconds)` loop: `rem` iterations left, window start, running sum -/
def cavDpLoop (accG : List Rat) (pps : Nat) (dt : Rat) : Nat → Nat → Rat → Except ErrKind (List Rat)
  | 0, _, _ => .ok []
  | rem + 1, start, acc =>
    match cavDpWindow accG pps dt start with
    | .error k => .error k
    | .ok w =>
      match cavDpLoop accG pps dt rem (start + pps) (acc + w) with
      | .error k => .error k
      | .ok rest => .ok ((acc + w) :: rest)

/-- `np.interp(x, np.arange(len(fp)), fp)` for a non-empty table (clamped at both ends) -/
def interpUnit (fp : List Rat) (x : Rat) : Rat :=
  if x < 0 then fp.headD 0
  else if ((fp.length - 1 : Nat) : Rat) < x then fp.getLastD 0
  else
    let j := (Rat.floor x).toNat
    if j + 1 < fp.length then
      let f0 := fp.getD j 0
      let f1 := fp.getD (j + 1) 0
      (f1 - f0) * (x - (j : Rat)) + f0
    else fp.getLastD 0

/-- `calc_cav_dp(asig)` for `asig.dt = 1/pps` (`points_per_sec = int(1/dt) = pps`):
`total_seconds = int(time[-1])`, windows of `pps+1` samples in g, gate `0.025 g`, running sum placed at
the integer seconds `0 … total_seconds-1`, `np.interp` back onto `time` (clamped).
Errors: empty record `IndexError` (`time[-1]`), `pps = 0` `ZeroDivisionError`, `total_seconds = 0`
`ValueError` (`np.interp` with an empty table). -/
def cavDp (a : List Rat) (pps : Nat) : Except ErrKind (List Rat) :=
  if pps = 0 then .error .ZeroDivisionError
  else
    let dt : Rat := 1 / (pps : Rat)
    match a with
    | [] => .error .IndexError
    | _ :: _ =>
      let n := a.length
      let totalSeconds := (Rat.floor (((n - 1 : Nat) : Rat) * dt)).toNat
      let accG := a.map (· / gAcc)
      match cavDpLoop accG pps dt totalSeconds 0 0 with
      | .error k => .error k
      | .ok series =>
        if series.isEmpty then .error .ValueError
        else .ok ((List.range n).map (fun (i : Nat) => interpUnit series ((i : Rat) * dt)))

end EqsigVerif.Model.Im
