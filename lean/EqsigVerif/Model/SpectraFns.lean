import EqsigVerif.Prelude.Np
import EqsigVerif.Prelude.Wire
/-!
# Model of the spectrum functions built on the SDOF response series (hand model, Mathlib-free, generic `α`)

`eqsig/sdof.py`: `absmax`, `pseudo_response_spectra`, `true_response_spectra`, `calc_resp_uke_spectrum`,
`calc_input_energy_spectrum`; `eqsig/single.py`: the step decision of `AccSignal.gen_response_spectrum`;
`eqsig/im.py`: `calc_asi`, `calc_vsi`.

The response series of `nigam_and_jennings_response` are **inputs** here (`u v a : List (List α)`, one row per period;
they are modelled in `Model/Sdof.lean`).  `twoPi` is the double `2 * np.pi`.
A number of rows different from the number of periods cannot be produced by the Python code; the model rejects such an
input with `.Other` instead of silently truncating.
-/
namespace EqsigVerif.Model.SpectraFns
open EqsigVerif
open EqsigVerif.Wire (ErrKind)

variable {α : Type}

/-! ### `absmax` -/
section Absmax
variable [LT α] [DecidableLT α] [Neg α] [OfNat α 0]

/-- `sdof.absmax(a)` on one row: `abs(np.where(-amin > amax, amin, amax))`; `none` for an empty row
(`ValueError`: zero-size array to reduction operation) -/
def absmaxL : List α → Option α
  | [] => none
  | x :: xs =>
    let amax := Np.maxFrom x xs
    let amin := Np.minFrom x xs
    some (Np.absv (if amax < -amin then amin else amax))

/-- `absmax(rows, axis=1)` -/
def rowsAbsmax : List (List α) → Except ErrKind (List α)
  | [] => .ok []
  | r :: rs =>
    match absmaxL r with
    | none => .error .ValueError
    | some m =>
      match rowsAbsmax rs with
      | .error e => .error e
      | .ok ms => .ok (m :: ms)

end Absmax

/-! ### `pseudo_response_spectra`, `true_response_spectra` -/
section Spectra
variable [LT α] [DecidableLT α] [Neg α] [OfNat α 0] [OfNat α 1] [OfNat α 6] [Mul α] [Div α] [DecidableEq α]

/-- the angular frequencies: `w[0] = 1` placeholder when the first period is 0, else `w = 2π/T` -/
def omegas (twoPi : α) : List α → Except ErrKind (List α)
  | [] => .error .IndexError                       -- periods[0]
  | p0 :: rest =>
    if p0 = 0 then .ok (1 :: rest.map (twoPi / ·))
    else .ok ((p0 :: rest).map (twoPi / ·))

/-- `np.where(periods < dt * 6, absmax(motion), sas)` -/
def pgaSubstitute (periods : List α) (dt pga : α) (sas : List α) : List α :=
  List.zipWith (fun T sa => if T < dt * 6 then pga else sa) periods sas

/-- `pseudo_response_spectra(motion, dt, periods, xi)` given the displacement rows `u` of the response: `(sds, svs, sas)` -/
def pseudoSpectra (twoPi : α) (motion : List α) (dt : α) (periods : List α) (u : List (List α)) :
    Except ErrKind (List α × List α × List α) :=
  match omegas twoPi periods with
  | .error e => .error e
  | .ok w =>
    if u.length ≠ periods.length then .error .Other else
    match rowsAbsmax u with
    | .error e => .error e
    | .ok sds =>
      let svs := List.zipWith (fun w sd => w * sd) w sds
      let sas := List.zipWith (fun w sd => w * w * sd) w sds        -- w ** 2 * sds
      match absmaxL motion with
      | none => .error .ValueError
      | some pga => .ok (sds, svs, pgaSubstitute periods dt pga sas)

/-- `true_response_spectra(motion, dt, periods, xi)` given the three response rows: `(sds, svs, sas)` -/
def trueSpectra (motion : List α) (dt : α) (periods : List α) (u v a : List (List α)) :
    Except ErrKind (List α × List α × List α) :=
  match periods with
  | [] => .error .IndexError                       -- periods[0] inside the response function
  | _ =>
    if u.length ≠ periods.length ∨ v.length ≠ periods.length ∨ a.length ≠ periods.length then .error .Other else
    match rowsAbsmax a with
    | .error e => .error e
    | .ok sas =>
      match rowsAbsmax v with
      | .error e => .error e
      | .ok svs =>
        match rowsAbsmax u with
        | .error e => .error e
        | .ok sds =>
          match absmaxL motion with
          | none => .error .ValueError
          | some pga => .ok (sds, svs, pgaSubstitute periods dt pga sas)

end Spectra

/-! ### the integration-step decision of `AccSignal.gen_response_spectrum` -/
section Step
variable [LT α] [DecidableLT α] [OfNat α 0] [OfNat α 20] [Div α] [DecidableEq α]

/-- `min_non_zero_period`: `response_times[0]` unless it is 0, then `response_times[1]` -/
def minNonZeroPeriod : List α → Except ErrKind α
  | [] => .error .IndexError
  | t0 :: rest =>
    if t0 ≠ 0 then .ok t0
    else match rest with
      | [] => .error .IndexError
      | t1 :: _ => .ok t1

/-- `target_dt = max(min_non_zero_period / 20, dt / min_dt_ratio)` (Python `max`: the first unless the second is larger) -/
def targetDt (respTimes : List α) (dt minDtRatio : α) : Except ErrKind α :=
  match minNonZeroPeriod respTimes with
  | .error e => .error e
  | .ok m =>
    if minDtRatio = 0 then .error .ZeroDivisionError
    else .ok (Np.max2 (m / 20) (dt / minDtRatio))

/-- what `gen_response_spectrum` feeds to `pseudo_response_spectra` -/
inductive SpecInput (α : Type)
  | raw                                 -- the samples and `dt` as they are
  | interp (targetDt : α)               -- `interp_array_to_approx_dt(values, dt, target_dt, even=False)`
  deriving Repr, DecidableEq

/-- branch `if target_dt < self.dt` -/
def genSpectrumInput (respTimes : List α) (dt minDtRatio : α) : Except ErrKind (SpecInput α) :=
  match targetDt respTimes dt minDtRatio with
  | .error e => .error e
  | .ok t => if t < dt then .ok (.interp t) else .ok .raw

end Step

/-! ### energy spectra -/
section Energy
variable [LT α] [DecidableLT α] [Neg α] [OfNat α 0] [OfNat α 1] [OfNat α 2] [Add α] [Sub α] [Mul α] [Div α]

/-- `kin_energy = 0.5 * resp_v ** 2 * mass` (`mass = 1`) for one row -/
def kinEnergy (v : List α) : List α := v.map fun x => (1 / 2) * (x * x) * 1

/-- `calc_resp_uke_spectrum`: `np.sum(abs(np.diff(kin_energy)), axis=1)` -/
def respUkeSpectrum (vRows : List (List α)) : List α :=
  vRows.map fun v => Np.sum (Np.absL (Np.diff (kinEnergy v)))

/-- one row of `acc_signal.values * resp_v * acc_signal.dt` -/
def powerRow (values : List α) (dt : α) (v : List α) : List α :=
  List.zipWith (fun a x => a * x * dt) values v

/-- `calc_input_energy_spectrum(series=False)`: `np.sum(values * resp_v * dt, axis=1)` -/
def inputEnergySpectrum (values : List α) (vRows : List (List α)) (dt : α) : List α :=
  vRows.map fun v => Np.sum (powerRow values dt v)

/-- `calc_input_energy_spectrum(series=True)`: `np.cumsum(values * resp_v * dt, axis=1)` -/
def inputEnergySeries (values : List α) (vRows : List (List α)) (dt : α) : List (List α) :=
  vRows.map fun v => Np.cumsum (powerRow values dt v)

end Energy

/-! ### `calc_asi`, `calc_vsi` -/
section Intensity
variable [LT α] [DecidableLT α] [Neg α] [OfNat α 0] [OfNat α 1] [OfNat α 2] [Add α] [Mul α] [Div α]

/-- `scipy.integrate.cumulative_trapezoid(y)` (`dx = 1`, no `initial`): one sample shorter than `y` -/
def cumtrapzNoInit (y : List α) : List α := (Np.cumtrapz 1 y).tail

/-- `max(0.01 * cumulative_trapezoid(abs(ps)))`; `c001` is the double `0.01`; Python `max` of an empty array: `ValueError` -/
def spectrumIntensity (c001 : α) (ps : List α) : Except ErrKind α :=
  match Np.maxL? ((cumtrapzNoInit (Np.absL ps)).map (c001 * ·)) with
  | none => .error .ValueError
  | some m => .ok m

/-- `calc_vsi` given the pseudo velocity spectrum at its period grid -/
def vsi (c001 : α) (psv : List α) : Except ErrKind α := spectrumIntensity c001 psv

/-- `calc_asi` given the pseudo acceleration spectrum at its period grid (`g` is the double `9.81`) -/
def asi (c001 g : α) (psa : List α) : Except ErrKind α :=
  match spectrumIntensity c001 psa with
  | .error e => .error e
  | .ok m => .ok (m / g)

end Intensity

end EqsigVerif.Model.SpectraFns
