import EqsigVerif.Prelude.Np
import EqsigVerif.Prelude.Wire
import EqsigVerif.Prelude.Cplx
/-!
# Model of `eqsig/stockwell.py` (C15) — Mathlib-free, executable

`α` = reals, `β` = complex numbers over `α` (`Prelude/Cplx.lean`); `exp`, `π` and the twiddle table
`tw N m = e^{-2πi m/N}` are parameters (`Float.exp`, `3.141592653589793`, `twFloat` in the driver;
`Real.exp`, `Real.pi`, `Complex.exp` in the theorems).  `np.fft.fft/ifft` and
`scipy.fftpack.fft/ifft` are the defining sums `Cplx.dft/idft` (assumption `FftIsDft`, DESIGN §3.3),
so `transform` and `transform_w_scipy_fft` have the same model.

Stages of `transform(acc)`:
1. `n_d2 = int(len(acc)/2)`, `N = 2·n_d2` (an odd record loses its last sample);
2. `gaussian = generate_gaussian(n_d2)` — `(N/2) × N`, row `k−1` (harmonic `k = 1..N/2`), column `m`:
   `exp(−(2π·m̃/k)²/2)` with `m̃` the signed index (`m` for `m ≤ N/2`, `m − N` above);
3. `fa = fft(acc, N)`;
4. `toeplitz(conj(fa[:n_d2+1]), fa)[1:n_d2+1, :]` — row `k`, column `m`: `fa[m−k]` for `m > k`, else `conj(fa[k−m])`;
5. pointwise product, inverse DFT along rows, `flipud` (row `r` of the result is harmonic `k = N/2 − r`).
-/
namespace EqsigVerif.Model.Stockwell
open EqsigVerif EqsigVerif.Cplx EqsigVerif.Wire

section Gaussian
variable {α : Type} [Mul α] [Div α] [Neg α] [OfNat α 1] [OfNat α 2] [NatCast α]

/-- `f_half = np.arange(0, n_d2 + 1, 1) / (2 * n_d2)` -/
def fHalf (nd2 : Nat) : List α :=
  (List.range (nd2 + 1)).map (fun k => ((k : Nat) : α) / ((2 * nd2 : Nat) : α))

/-- `f = np.concatenate((f_half, np.flipud(-f_half[1:-1])))` — the signed frequency vector, length `2·n_d2` -/
def fSigned (nd2 : Nat) : List α :=
  let fh : List α := fHalf nd2
  fh ++ ((Np.slice fh 1 (fh.length - 1)).map (fun x => -x)).reverse

/-- `generate_gaussian(n_d2)`: `p = 2π·outer(f, 1/f_half[1:])`, `exp(-p**2/2).transpose()`;
row `k−1` ↔ harmonic `k = 1..n_d2`, column `m = 0..2·n_d2−1` -/
def generateGaussian (exp : α → α) (pi : α) (nd2 : Nat) : List (List α) :=
  let fh : List α := fHalf nd2
  let f : List α := fSigned nd2
  (fh.drop 1).map (fun fk => f.map (fun fm =>
    let p := (2 * pi) * (fm * (1 / fk))
    exp (-(p * p) / 2)))

end Gaussian

section Transform
variable {α β : Type} [Mul α] [Div α] [Neg α] [OfNat α 1] [OfNat α 2] [NatCast α]
  [Add β] [Mul β] [Div β] [OfNat β 0] [CxLike α β]

/-- `scipy.linalg.toeplitz(c, r)`: first column `c`, first row `[c[0], r[1:]]` (SciPy ignores `r[0]`):
`T[i][j] = c[i−j]` for `j ≤ i`, `r[j−i]` for `j > i` -/
def toeplitz (c r : List β) : List (List β) :=
  (List.range c.length).map (fun i => (List.range r.length).map (fun j =>
    if j ≤ i then c.getD (i - j) 0 else r.getD (j - i) 0))

/-- `eqsig.stockwell.transform(acc)`; `ValueError` (from the FFT with `n = 0`) for records shorter than 2 -/
def transform (tw : Nat → Nat → β) (exp : α → α) (pi : α) (acc : List β) :
    Except ErrKind (List (List β)) :=
  let nd2 := acc.length / 2
  let N := 2 * nd2
  if N = 0 then .error .ValueError
  else
    let gaussian : List (List α) := generateGaussian exp pi nd2
    let fa := dft tw acc N
    let diagCon := toeplitz ((fa.take (nd2 + 1)).map CxLike.conj) fa
    let diagCon := Np.slice diagCon 1 (nd2 + 1)
    let prod := List.zipWith (List.zipWith (fun d g => d * CxLike.ofReal g)) diagCon gaussian
    .ok ((prod.map (fun row => idft tw row N)).reverse)

/-- `eqsig.stockwell.transform_w_scipy_fft(acc)` — same stages with `scipy.fftpack.fft/ifft`,
which `FftIsDft` identifies with the same sums -/
def transformWScipyFft (tw : Nat → Nat → β) (exp : α → α) (pi : α) (acc : List β) :
    Except ErrKind (List (List β)) :=
  transform tw exp pi acc

/-- `eqsig.stockwell.itransform(stock)`: row sums, Hermitian re-assembly
(`fas_ss[1:n//2] = flip(conj(ss[1:]))`, `fas_ss[n//2+1:] = ss[1:]`), inverse DFT, real part.
The code keeps `int(ceil(2 ** (log n / log 2)))` samples, which is `≥ n = 2·len(stock)` for every
`n ≤ 20000` (checked), i.e. all `n`.  `ValueError` (from `ifft`) for an array without rows. -/
def itransform (tw : Nat → Nat → β) (stock : List (List β)) : Except ErrKind (List α) :=
  let ss := stock.map sumL
  if ss.length = 0 then .error .ValueError
  else
    let n := 2 * ss.length
    let fasSs := [0] ++ (ss.tail.map CxLike.conj).reverse ++ [0] ++ ss.tail
    .ok (((idft tw fasSs n).take n).map CxLike.re)

end Transform

section MaxFreq
variable {α γ : Type} [Mul α] [Div α] [OfNat α 0] [NatCast α] [LT α] [DecidableLT α]

/-- `get_max_tifq_vals_freq(tifq_values, dt)` for a rectangular array given by rows, `mag = abs`
(for complex entries `|z|²` has the same first maximum):
`freqs = flipud(arange(1, points+1) / (2*points*dt))`, `take(freqs, argmax(abs(tifq), axis=0))`.
`get_max_stockwell_freq(asig)` is this on `transform(asig.values)` and `asig.dt`.
`ValueError` (`np.argmax` of an empty sequence) for an array without rows. -/
def getMaxTifqValsFreq (mag : γ → α) (tifq : List (List γ)) (dt : α) : Except ErrKind (List α) :=
  let pts := tifq.length
  if pts = 0 then .error .ValueError
  else
    let freqs : List α :=
      ((List.range pts).map (fun i => ((i + 1 : Nat) : α) / (((2 * pts : Nat) : α) * dt))).reverse
    let ncols := (tifq.head?.map List.length).getD 0
    .ok ((List.range ncols).map (fun j =>
      freqs.getD (Np.argmax (tifq.map (fun row => (row[j]?.map mag).getD 0))) 0))

end MaxFreq

end EqsigVerif.Model.Stockwell
