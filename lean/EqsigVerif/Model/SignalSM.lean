/-!
# Abstract state machine of `eqsig.single.Signal` / `AccSignal` (C04, C05) — Mathlib-free, executable

The numeric content of the object is abstracted away.  What is kept:

* the **stored inputs** of the object (`_values`, `_dt`, `_smooth_fa_freqs`, `_response_times`, `_npts`),
  each with a *version counter* (every write bumps it) — "which contents does the object hold now";
* the **lazy caches** (`_cached_fa`, `_cached_smooth_fa`, `_cached_response_spectra`,
  `_cached_disp_and_velo`, `_cached_params[...]`), each either empty or holding the *snapshot of input
  versions its value was computed from*;
* the tracked length `_npts` next to the true length of `_values`;
* an abstract **heap**: an array identity per stored input, a content counter per identity, and the set of
  identities the caller holds (arrays it passed to the constructor / `reset_values` / setters).

The behaviour of every public method is *not* written here: it is a row of a `CacheTable`, which
`tools/py2lean.py` regenerates from the Python AST (`EqsigVerif/Gen/CacheTable.lean`); the hand-written
reference copy is `EqsigVerif/GenGolden/CacheTable.lean`.
-/
namespace EqsigVerif.Model.SignalSM

/-! ## Table format (first-order, string-named; this is what the translator emits) -/

/-- How the value stored into an input attribute relates to what the caller passed / holds.
* `copy`      — a fresh array (`np.array(arg)`, result of arithmetic, `np.logspace …`): new identity;
* `reference` — the caller's object itself (`self._x = arg`): identity shared with the caller;
* `inplace`   — a write *through* the array the object already holds (`self._values -= c`,
                `self._values[i] = …`, `vals = self.values; vals[a:b] -= c`): same identity, new content. -/
inductive Store
  | copy | reference | inplace
  deriving DecidableEq, Repr

/-- What a method does to the tracked length `_npts`.
* `updated`         — assigns `self._npts = len(<the new values>)` (implicitly a write of input `_npts`);
* `lengthPreserved` — does not touch `_npts` and keeps `len(_values)` (in-place writes, same-length copy,
                      or does not write `_values` at all);
* `notUpdated`      — replaces `_values` by an array of another length without assigning `_npts`
                      (never correct; this is the value a row gets when the `_npts` line is dropped);
* `lengthOf q`      — replaces `_values`, without assigning `_npts`, by an array that has the length of the value
                      of the (record-shaped, lazily cached) property `q` the method has read
                      (`remove_rolling_average`: `self._values = acc`, `len(acc) = len(self.velocity)`): the
                      length is kept exactly when that cached value was computed from the current record — so
                      this row's correctness depends on C04. -/
inductive NptsEffect
  | updated | lengthPreserved | notUpdated | lengthOf (q : String)
  deriving DecidableEq, Repr

/-- one store into an input attribute -/
structure InputWrite where
  input : String
  store : Store
  deriving DecidableEq, Repr

/-- Effect summary of one call, in execution order `reads → writes → clears → fills`. -/
structure Effect where
  /-- lazily cached quantities read (through their property) *before* the writes; a read may fill a cache -/
  reads  : List String := []
  /-- stores into input attributes, in program order -/
  writes : List InputWrite := []
  npts   : NptsEffect := .lengthPreserved
  /-- guard flags reset after the last write (`self._cached_x = False`, `self._cached_params = {}`) -/
  clears : List String := []
  /-- guards whose cache the method recomputes itself after the writes (*write-then-fill*, or an explicit
      `gen_…()` call): semantically `clear g` followed by a read of the quantity generated under `g` -/
  fills  : List String := []
  deriving DecidableEq, Repr

/-- one row per public method / property setter (`"x="`) / argument variant (`"m/given"`, `"m/omitted"`) -/
structure MethodRow extends Effect where
  name : String
  /-- constructor row: runs on a new object (all instance caches empty by the class defaults) -/
  ctor : Bool := false
  deriving DecidableEq, Repr

/-- one row per readable property -/
structure QuantityRow where
  name : String
  /-- the flag that guards the stored value; `none` = recomputed on every read -/
  guard : Option String := none
  /-- input attributes the generator reads directly -/
  readsInputs : List String := []
  /-- other properties the generator reads (through their own lazy getter) -/
  readsQuantities : List String := []
  deriving DecidableEq, Repr

structure CacheTable where
  methods : List MethodRow
  quantities : List QuantityRow
  deriving DecidableEq, Repr

/-- the input attribute holding the record (C05.a is about its identity, C05.b about its length) -/
def valuesInput : String := "_values"
/-- the input attribute holding the tracked length -/
def nptsInput : String := "_npts"

/-! ## Look-ups and the transitive read set -/

def findQ (tbl : CacheTable) (n : String) : Option QuantityRow :=
  tbl.quantities.find? (fun q => q.name == n)

def findM (tbl : CacheTable) (n : String) : Option MethodRow :=
  tbl.methods.find? (fun m => m.name == n)

/-- the quantity whose generator runs when guard `g` is (re)filled: first row guarded by `g` -/
def genOf (tbl : CacheTable) (g : String) : Option QuantityRow :=
  tbl.quantities.find? (fun q => q.guard == some g)

def fuel (tbl : CacheTable) : Nat := tbl.quantities.length + 1

/-- inputs read by the generator of quantity `n`, through at most `k` levels of property reads -/
def depsAux (tbl : CacheTable) : Nat → String → List String
  | 0, _ => []
  | k + 1, n =>
    match findQ tbl n with
    | none => []
    | some q => q.readsInputs ++ q.readsQuantities.flatMap (depsAux tbl k)

/-- inputs the generator of `n` (transitively) reads -/
def deps (tbl : CacheTable) (n : String) : List String := depsAux tbl (fuel tbl) n

/-- `terminates k n`: every chain of property reads from `n` ends within `k` levels and resolves -/
def terminates (tbl : CacheTable) : Nat → String → Bool
  | 0, _ => false
  | k + 1, n =>
    match findQ tbl n with
    | none => false
    | some q => q.readsQuantities.all (terminates tbl k)

/-- all guards of the table -/
def guards (tbl : CacheTable) : List String := tbl.quantities.filterMap (·.guard)

/-- Sanity of a (generated) table: property reads resolve and are acyclic (so `fuel` suffices and `deps` is
the full closure); every read / cleared / filled name exists; names are unique. -/
def wellFormed (tbl : CacheTable) : Bool :=
  tbl.quantities.all (fun q => terminates tbl (fuel tbl) q.name) &&
  tbl.methods.all (fun m =>
    m.reads.all (fun q => (findQ tbl q).isSome) &&
    m.clears.all (fun g => (guards tbl).contains g) &&
    m.fills.all (fun g => (genOf tbl g).isSome)) &&
  (tbl.quantities.map (·.name)).Nodup && (tbl.methods.map (·.name)).Nodup

def WellFormed (tbl : CacheTable) : Prop := wellFormed tbl = true
instance (tbl : CacheTable) : Decidable (WellFormed tbl) := inferInstanceAs (Decidable (_ = true))

/-- inputs whose version a row bumps -/
def writtenInputs (m : MethodRow) : List String :=
  m.writes.map (·.input) ++ (if m.npts = .updated then [nptsInput] else [])

/-! ## Decidable obligations on a table -/

/-- C04: a (non-constructor) row that writes an input resets — or refills after the write — the guard of every
cached quantity whose generator (transitively) reads that input. -/
def rowOK (tbl : CacheTable) (m : MethodRow) : Bool :=
  m.ctor || tbl.quantities.all fun q =>
    match q.guard with
    | none => true
    | some g =>
      !((writtenInputs m).any fun i => (deps tbl q.name).contains i) || m.clears.contains g || m.fills.contains g

def tableOK (tbl : CacheTable) : Bool := tbl.methods.all (rowOK tbl)
def TableOK (tbl : CacheTable) : Prop := tableOK tbl = true
instance (tbl : CacheTable) : Decidable (TableOK tbl) := inferInstanceAs (Decidable (_ = true))

/-- C05.a: no row stores the caller's reference into input `inp` -/
def copiesOf (tbl : CacheTable) (inp : String) : Bool :=
  tbl.methods.all fun m => m.writes.all fun w => !(w.input == inp && w.store == .reference)
def CopiesOf (tbl : CacheTable) (inp : String) : Prop := copiesOf tbl inp = true
instance (tbl : CacheTable) (inp : String) : Decidable (CopiesOf tbl inp) :=
  inferInstanceAs (Decidable (_ = true))

/-- C05.a premise: every store of the record array `_values` is a copy -/
def AllCopies (tbl : CacheTable) : Prop := CopiesOf tbl valuesInput
instance (tbl : CacheTable) : Decidable (AllCopies tbl) := inferInstanceAs (Decidable (_ = true))

/-- C05.a, literal premise of the design: *every* store of *every* input is a copy (or in place) -/
def everyStoreCopies (tbl : CacheTable) : Bool :=
  tbl.methods.all fun m => m.writes.all fun w => !(w.store == .reference)
def EveryStoreCopies (tbl : CacheTable) : Prop := everyStoreCopies tbl = true
instance (tbl : CacheTable) : Decidable (EveryStoreCopies tbl) := inferInstanceAs (Decidable (_ = true))

/-- every input some row writes in place is never stored by reference (so in-place writes hit owned arrays) -/
def inplaceOwned (tbl : CacheTable) : Bool :=
  tbl.methods.all fun m => m.writes.all fun w => !(w.store == .inplace) || copiesOf tbl w.input
def InplaceOwned (tbl : CacheTable) : Prop := inplaceOwned tbl = true
instance (tbl : CacheTable) : Decidable (InplaceOwned tbl) := inferInstanceAs (Decidable (_ = true))

/-- C05.b: no row replaces the record by one of another length without assigning `_npts`; a row that takes the
new length from a cached property `q` has read `q`, `q` is generated from `_values`, and `_values` is owned -/
def nptsOK (tbl : CacheTable) : Bool :=
  tbl.methods.all fun m =>
    match m.npts with
    | .notUpdated => false
    | .lengthOf q => m.reads.contains q && (deps tbl q).contains valuesInput && copiesOf tbl valuesInput
    | _ => true
def NptsOK (tbl : CacheTable) : Prop := nptsOK tbl = true
instance (tbl : CacheTable) : Decidable (NptsOK tbl) := inferInstanceAs (Decidable (_ = true))

/-! ## State -/

/-- the input versions a value was computed from -/
abbrev Snap := String → Nat

structure Obj where
  /-- content version of every stored input (as seen through the object) -/
  ver : String → Nat
  /-- per guard flag: `none` = flag false; `some snap` = flag true, value computed from `snap` -/
  cache : String → Option Snap
  /-- true `len(self._values)` -/
  len : Nat
  /-- tracked `self._npts` -/
  npts : Nat
  /-- heap identity of the array stored in each input attribute -/
  ident : String → Nat
  /-- content version of every heap array -/
  content : Nat → Nat
  /-- next unused identity -/
  nextId : Nat
  /-- identities held by the caller (arrays it created and passed in) -/
  held : List Nat

/-- the state before the constructor body runs -/
def blank : Obj :=
  { ver := fun _ => 0, cache := fun _ => none, len := 0, npts := 0,
    ident := fun _ => 0, content := fun _ => 0, nextId := 1, held := [] }

structure Observation where
  quantity : String
  /-- the input versions the reported value was computed from -/
  snap : Snap

/-! ## Reads -/

/-- read the listed properties one after the other, threading the state, collecting their snapshots -/
def readSubs (rd : Obj → String → Obj × Snap) : List String → Obj → Obj × List (String × Snap)
  | [], s => (s, [])
  | q :: qs, s =>
    let r := rd s q
    let r2 := readSubs rd qs r.1
    (r2.1, (q, r.2) :: r2.2)

/-- versions a freshly generated value is computed from: the current ones for what is read directly, and
for what is read through another property that property's snapshot (oldest wins) -/
def mergeSnap (tbl : CacheTable) (cur : Snap) : List (String × Snap) → Snap
  | [] => cur
  | (q, sn) :: rest => fun i =>
    let m := mergeSnap tbl cur rest i
    if (deps tbl q).contains i then min m (sn i) else m

/-- `getattr(obj, n)`: returns the stored value if the guard flag is set, otherwise runs the generator
(which reads its sub-properties the same way), stores the result and sets the flag. -/
def readQ (tbl : CacheTable) : Nat → Obj → String → Obj × Snap
  | 0, s, _ => (s, s.ver)
  | k + 1, s, n =>
    match findQ tbl n with
    | none => (s, s.ver)
    | some q =>
      match q.guard with
      | none =>
        let r := readSubs (readQ tbl k) q.readsQuantities s
        (r.1, mergeSnap tbl r.1.ver r.2)
      | some g =>
        match s.cache g with
        | some snap => (s, snap)
        | none =>
          let r := readSubs (readQ tbl k) q.readsQuantities s
          let snap := mergeSnap tbl r.1.ver r.2
          ({ r.1 with cache := fun g' => if g' = g then some snap else r.1.cache g' }, snap)

def read (tbl : CacheTable) (s : Obj) (n : String) : Obj × Snap := readQ tbl (fuel tbl) s n

/-! ## Method calls -/

def preReads (tbl : CacheTable) : List String → Obj → Obj
  | [], s => s
  | q :: qs, s => preReads tbl qs (read tbl s q).1

/-- the array the caller passes: one it already holds (`some k`, `k ∈ held`) or a new one it keeps -/
def chooseArg (arg : Option Nat) (s : Obj) : Obj × Nat :=
  match arg with
  | some k =>
    if k ∈ s.held then (s, k)
    else ({ s with nextId := s.nextId + 1, held := s.nextId :: s.held }, s.nextId)
  | none => ({ s with nextId := s.nextId + 1, held := s.nextId :: s.held }, s.nextId)

def heapWrite (a : Nat) (s : Obj) (w : InputWrite) : Obj :=
  match w.store with
  | .copy => { s with ident := fun i => if i = w.input then s.nextId else s.ident i, nextId := s.nextId + 1 }
  | .reference => { s with ident := fun i => if i = w.input then a else s.ident i }
  | .inplace =>
    { s with content := fun k => if k = s.ident w.input then s.content k + 1 else s.content k }

def heapWrites (a : Nat) : List InputWrite → Obj → Obj
  | [], s => s
  | w :: ws, s => heapWrites a ws (heapWrite a s w)

def bumpClear (m : MethodRow) (s : Obj) : Obj :=
  { s with
    ver := fun i => if (writtenInputs m).contains i then s.ver i + 1 else s.ver i
    cache := fun g => if m.ctor || m.clears.contains g || m.fills.contains g then none else s.cache g }

/-- for a `lengthOf q` row: was the value of `q` the method read computed from the current record? -/
def lenFresh (tbl : CacheTable) (m : MethodRow) (s : Obj) : Bool :=
  match m.npts with
  | .lengthOf q => (read tbl s q).2 valuesInput == s.ver valuesInput
  | _ => true

def setLen (m : MethodRow) (newLen : Nat) (fresh : Bool) (s : Obj) : Obj :=
  match m.npts with
  | .updated => { s with len := newLen, npts := newLen }
  | .lengthPreserved => s
  | .notUpdated => { s with len := newLen }
  | .lengthOf _ => if fresh then s else { s with len := newLen }

def doFills (tbl : CacheTable) : List String → Obj → Obj
  | [], s => s
  | g :: gs, s =>
    match genOf tbl g with
    | some q => doFills tbl gs (read tbl s q.name).1
    | none => doFills tbl gs s

/-- one successful call of the method of row `m` (a call that raises changes nothing and is not an `Op`);
`newLen` = length of the new record, used by rows that replace `_values` by an array whose length the table does
not determine (`updated`, `notUpdated`, and `lengthOf q` when the cached `q` was stale) -/
def applyRow (tbl : CacheTable) (m : MethodRow) (arg : Option Nat) (newLen : Nat) (s : Obj) : Obj :=
  let s1 := preReads tbl m.reads s
  let sa := chooseArg arg s1
  let s3 := heapWrites sa.2 m.writes sa.1
  let s4 := setLen m newLen (lenFresh tbl m s1) (bumpClear m s3)
  doFills tbl m.fills s4

/-- the caller writes into array `k` it holds; whoever shares that array sees new content (no flag cleared) -/
def callerWrite (k : Nat) (s : Obj) : Obj :=
  if k ∈ s.held then
    { s with
      content := fun j => if j = k then s.content j + 1 else s.content j
      ver := fun i => if s.ident i = k then s.ver i + 1 else s.ver i }
  else s

inductive Op
  /-- call the method of row `row`; `arg` selects the caller array passed (see `chooseArg`), `newLen` is the
      length of the new record (used by rows that replace `_values`) -/
  | mutate (row : String) (arg : Option Nat) (newLen : Nat)
  | read (q : String)
  | callerWrite (k : Nat)
  deriving DecidableEq, Repr

/-- object operations: method calls and reads (everything but a write of the caller into an array it holds) -/
def Op.isObj : Op → Bool
  | .callerWrite _ => false
  | _ => true

/-- `s'` differs from `s` at most in the caches -/
def Frame (s' s : Obj) : Prop :=
  s'.ver = s.ver ∧ s'.len = s.len ∧ s'.npts = s.npts ∧ s'.ident = s.ident ∧ s'.content = s.content ∧
    s'.nextId = s.nextId ∧ s'.held = s.held

def step (tbl : CacheTable) (s : Obj) : Op → Obj × Option Observation
  | .mutate row arg n =>
    match findM tbl row with
    | some m => (applyRow tbl m arg n s, none)
    | none => (s, none)
  | .read q => let r := read tbl s q; (r.1, some ⟨q, r.2⟩)
  | .callerWrite k => (callerWrite k s, none)

def run (tbl : CacheTable) : Obj → List Op → Obj
  | s, [] => s
  | s, op :: ops => run tbl (step tbl s op).1 ops

/-- a new object: the constructor row applied to `blank` with a record of `n0` samples -/
def init (tbl : CacheTable) (n0 : Nat) : Obj :=
  match tbl.methods.find? (·.ctor) with
  | some m => applyRow tbl m none n0 blank
  | none => blank

/-! ## Freshness -/

/-- version-level freshness: the reported value was computed from the inputs the object holds now, i.e. it is
`eval q (current inputs)` — what a freshly constructed object with the same inputs reports -/
def Fresh (tbl : CacheTable) (s : Obj) (o : Observation) : Prop :=
  ∀ i, i ∈ deps tbl o.quantity → o.snap i = s.ver i

/-- executable freshness prediction, including the tracked length: a quantity that reads `_npts` agrees with
a new object only if `_npts = len(_values)` -/
def isFresh (tbl : CacheTable) (s : Obj) (o : Observation) : Bool :=
  (deps tbl o.quantity).all (fun i => o.snap i == s.ver i) &&
  (!(deps tbl o.quantity).contains nptsInput || s.npts == s.len)

/-- observations of a history, each with the model's freshness prediction -/
def runObs (tbl : CacheTable) : Obj → List Op → List (String × Bool)
  | _, [] => []
  | s, op :: ops =>
    let r := step tbl s op
    match r.2 with
    | some o => (o.quantity, isFresh tbl r.1 o) :: runObs tbl r.1 ops
    | none => runObs tbl r.1 ops

/-- every read of a history: the state right after it and what it reported -/
def observations (tbl : CacheTable) : Obj → List Op → List (Obj × Observation)
  | _, [] => []
  | s, op :: ops =>
    let r := step tbl s op
    match r.2 with
    | some o => (r.1, o) :: observations tbl r.1 ops
    | none => observations tbl r.1 ops

/-- The reported value under an *arbitrary* numeric interpretation: `val i v` is the content of input `i` at
version `v`, `eval q` the generator of `q` as a function of the input contents. -/
def Observation.value {V W : Type} (val : String → Nat → V) (eval : String → (String → V) → W)
    (o : Observation) : W :=
  eval o.quantity (fun i => val i (o.snap i))

/-- what a freshly constructed object holding the inputs of `s` reports for `q` -/
def freshValue {V W : Type} (val : String → Nat → V) (eval : String → (String → V) → W)
    (s : Obj) (q : String) : W :=
  eval q (fun i => val i (s.ver i))

/-- the generator of `q` depends only on the inputs in `deps tbl q` -/
def EvalLocal {V W : Type} (tbl : CacheTable) (eval : String → (String → V) → W) : Prop :=
  ∀ q f g, (∀ i, i ∈ deps tbl q → f i = g i) → eval q f = eval q g

/-! ## Table corruption (for non-vacuity examples and the harness's two-way check) -/

/-- the table of the source with the line that resets / refills guard `g` removed from method `row` -/
def CacheTable.dropClear (tbl : CacheTable) (row g : String) : CacheTable :=
  { tbl with methods := tbl.methods.map fun m =>
      if m.name == row then
        { m with clears := m.clears.filter (· != g), fills := m.fills.filter (· != g) }
      else m }

/-- the table of the source where guard `g` is dropped from every row that resets it
(a line removed from `clear_cache`, which every mutator calls) -/
def CacheTable.dropClearEverywhere (tbl : CacheTable) (g : String) : CacheTable :=
  { tbl with methods := tbl.methods.map fun m => { m with clears := m.clears.filter (· != g) } }

/-- the table of the source where method `row` stores input `inp` as given -/
def CacheTable.setStore (tbl : CacheTable) (row inp : String) (st : Store) : CacheTable :=
  { tbl with methods := tbl.methods.map fun m =>
      if m.name == row then
        { m with writes := m.writes.map fun w => if w.input == inp then { w with store := st } else w }
      else m }

/-- the table of the source where method `row` no longer assigns `_npts` -/
def CacheTable.dropNpts (tbl : CacheTable) (row : String) : CacheTable :=
  { tbl with methods := tbl.methods.map fun m =>
      if m.name == row then { m with npts := .notUpdated } else m }

/-! ## Harness entry points (histories by name) -/

/-- an operation by name: `"<method row>"`, `"<method row>#<newLen>"` (a value-replacing call with a record of
`newLen` samples; default: same length), `"<quantity>"` (a read), `"caller_write#<k>"` (the caller writes into
the `k`-th array it passed, counting from 1 = the constructor argument) -/
abbrev OpName := String

def parseOp (tbl : CacheTable) (s : Obj) (nm : OpName) : Except String Op :=
  let parts := nm.splitOn "#"
  let base := parts.head!
  let num : Option Nat := match parts with | [_, n] => n.toNat? | _ => none
  if base == "caller_write" then
    match num with
    | some k =>
      -- held is newest-first; the k-th array passed is at position `held.length - k`
      match s.held.reverse[k - 1]? with
      | some id => pure (.callerWrite id)
      | none => throw s!"caller_write: no {k}-th caller array"
    | none => throw "caller_write needs #k"
  else if (findM tbl base).isSome then pure (.mutate base none (num.getD s.len))
  else if (findQ tbl base).isSome then pure (.read base)
  else throw s!"unknown operation '{base}'"

def runNamed (tbl : CacheTable) : Obj → List OpName → Except String (Obj × List (String × Bool))
  | s, [] => pure (s, [])
  | s, nm :: rest => do
    let op ← parseOp tbl s nm
    let r := step tbl s op
    let (s', obs) ← runNamed tbl r.1 rest
    match r.2 with
    | some o => pure (s', (o.quantity, isFresh tbl r.1 o) :: obs)
    | none => pure (s', obs)

/-- default record length of the name-driven histories -/
def defaultLen : Nat := 64

/-- For each read in the history (on an object constructed first): does the model predict that the observation
equals what a freshly constructed object with the same values/dt/settings reports?  `Except.error` on a name
that is neither a method row nor a quantity. -/
def runHistory (tbl : CacheTable) (ops : List OpName) : Except String (List (String × Bool)) :=
  (runNamed tbl (init tbl defaultLen) ops).map (·.2)

/-- C05: after the history, is the array stored in input `inp` one the caller holds? -/
def aliasPredictionOf (tbl : CacheTable) (inp : String) (ops : List OpName) : Except String Bool :=
  (runNamed tbl (init tbl defaultLen) ops).map (fun r => r.1.held.contains (r.1.ident inp))

/-- C05.a: after the history, is the object's record array shared with a caller-held array? -/
def aliasPrediction (tbl : CacheTable) (ops : List OpName) : Except String Bool :=
  aliasPredictionOf tbl valuesInput ops

end EqsigVerif.Model.SignalSM
