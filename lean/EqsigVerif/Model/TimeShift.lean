import EqsigVerif.Prelude.Np
import EqsigVerif.Prelude.Wire
import EqsigVerif.Model.TimeStep
/-!
# Model of `eqsig/fns/time_shift.py` (hand model, Mathlib-free, exact over `Rat`/`Int`)

`put_array_in_2d_array`, `join_values_w_shifts`, `join_sig_w_time_shift`, `time_indices`, plus the Python/NumPy
slicing primitives they (and `eqsig/surface.py`) rely on: slices with negative bounds, slice assignment with
NumPy's length-1 broadcasting, 2-D + 1-D broadcasting.
-/
namespace EqsigVerif.Model.TimeShift
open EqsigVerif.Wire (ErrKind)
open EqsigVerif.Np
open EqsigVerif.Model.TimeStep (truncZ)

/-! ### Python slicing -/

/-- normalisation of one slice bound against a length (`PySlice_AdjustIndices`, step 1):
negative bounds count from the end, then clamp to `[0, len]`. -/
def pyIdx (len : Nat) (i : Int) : Nat :=
  if i < 0 then (i + (len : Int)).toNat else min i.toNat len

/-- `l[a:b]` (`none` = omitted bound) -/
def pySlice {α : Type} (l : List α) (a b : Option Int) : List α :=
  let lo := match a with | none => 0 | some i => pyIdx l.length i
  let hi := match b with | none => l.length | some i => pyIdx l.length i
  (l.take hi).drop lo

/-- NumPy assignment of a 1-D `src` to a 1-D target of length `t`: equal lengths copy, a length-1 source is
broadcast, anything else raises `ValueError` ("could not broadcast input array from shape …"). -/
def assignBroadcast (t : Nat) (src : List Rat) : Except ErrKind (List Rat) :=
  if src.length = t then .ok src
  else if src.length = 1 then .ok (List.replicate t (src.getD 0 0))
  else .error .ValueError

/-- `row[a:b] = src` for a 1-D NumPy row (returns the updated row) -/
def sliceAssign (row : List Rat) (a b : Int) (src : List Rat) : Except ErrKind (List Rat) := do
  let lo := pyIdx row.length a
  let hi := pyIdx row.length b
  let t := hi - lo
  let s ← assignBroadcast t src
  pure (row.take lo ++ s ++ row.drop (lo + t))

/-- `np.max(l)` / `np.min(l)` of an integer array; `ValueError` when empty -/
def maxInt? : List Int → Except ErrKind Int
  | [] => .error .ValueError
  | x :: xs => .ok (xs.foldl max x)

def minInt? : List Int → Except ErrKind Int
  | [] => .error .ValueError
  | x :: xs => .ok (xs.foldl min x)

/-! ### `put_array_in_2d_array` -/

inductive Clip
  | none | start | «end» | both
  deriving Repr, DecidableEq, Inhabited

/-- `end_extras = np.max([np.max(shifts), 0])`, `start_extras = -np.min([np.min(shifts), 0])` -/
def extras (shifts : List Int) : Except ErrKind (Nat × Nat) := do
  let mx ← maxInt? shifts
  let mn ← minInt? shifts
  pure ((- (min mn 0)).toNat, (max mx 0).toNat)    -- (start_extras, end_extras)

/-- the un-clipped array: `out = zeros((len(shifts), npts + se + ee)); out[i, se + j : se + npts + j] = values` -/
def put2dFull (values : List Rat) (shifts : List Int) : Except ErrKind (List (List Rat)) := do
  let (se, ee) ← extras shifts
  let npts := values.length
  let zero : List Rat := List.replicate (npts + se + ee) 0
  shifts.mapM (fun j => sliceAssign zero ((se : Int) + j) ((se : Int) + (npts : Int) + j) values)

/-- `put_array_in_2d_array(values, shifts, clip)`.
`ValueError` for empty `shifts` (`np.max` of an empty array).  Any `clip` string other than
`'start'`, `'end'`, `'both'` behaves as `'none'`. -/
def put2d (values : List Rat) (shifts : List Int) (clip : Clip) : Except ErrKind (List (List Rat)) := do
  let (se, ee) ← extras shifts
  let out ← put2dFull values shifts
  let out :=
    if (clip = .end ∨ clip = .both) ∧ ee > 0 then out.map (fun r => pySlice r none (some (-(ee : Int))))
    else out
  if clip = .start ∨ clip = .both then
    pure (out.map (fun r => pySlice r (some (se : Int)) none))
  else pure out

/-! ### `join_values_w_shifts` -/

inductive JType
  | add | sub
  deriving Repr, DecidableEq, Inhabited

/-- NumPy broadcasting of one row of a 2-D array against a 1-D array under `+` -/
def bcastAddRow (row b : List Rat) : Except ErrKind (List Rat) :=
  if row.length = b.length then .ok (List.zipWith (· + ·) row b)
  else if b.length = 1 then .ok (row.map (· + b.getD 0 0))
  else if row.length = 1 then .ok (b.map (row.getD 0 0 + ·))
  else .error .ValueError

/-- `join_values_w_shifts(values, shifts, jtype)`:
`a0 = np.pad(values, (0, np.max(shifts)))` (`ValueError` when `max(shifts) < 0` or `shifts` is empty),
`a1 = put_array_in_2d_array(values, shifts)`, result `±a1 + a0` with NumPy broadcasting — the widths
`npts + start_extras + end_extras` and `npts + max(shifts)` differ as soon as one shift is negative, and NumPy
then raises `ValueError` (unless one of the two widths is 1). -/
def joinValuesWShifts (values : List Rat) (shifts : List Int) (jtype : JType) : Except ErrKind (List (List Rat)) := do
  let mx ← maxInt? shifts
  if mx < 0 then .error .ValueError else
  let a0 := values ++ List.replicate mx.toNat 0
  let a1 ← put2d values shifts .none
  a1.mapM (fun row =>
    match jtype with
    | .add => bcastAddRow row a0
    | .sub => bcastAddRow (row.map (- ·)) a0)

/-- `join_sig_w_time_shift(sig, time_shifts, jtype)`: `shifts = np.array(time_shifts / sig.dt, dtype=int)`
(truncation toward zero).  `dt = 0` is outside the domain (`AccSignal` time step; NumPy would produce
`inf`/garbage integers with a warning): reported as `Other`. -/
def joinSigWTimeShift (values : List Rat) (dt : Rat) (timeShifts : List Rat) (jtype : JType) :
    Except ErrKind (List (List Rat)) :=
  if dt = 0 then .error .Other
  else joinValuesWShifts values (timeShifts.map (fun t => truncZ (t / dt))) jtype

/-! ### `time_indices` -/

/-- `time_indices(npts, dt, start, end, index)`.
`index=False`: `start`, `end` are times, converted by `int(x / dt)` (`end == -1` is kept as the sentinel);
`index=True`: returned unchanged.  Raises `SignalProcessingWarning` (reported as `Other`, the wire protocol has no
such kind) when the end index exceeds `npts`; `ZeroDivisionError` for `dt == 0` with `index=False`. -/
def timeIndices (npts : Nat) (dt start «end» : Rat) (index : Bool) : Except ErrKind (Rat × Rat) := do
  let (s, e) ←
    if index = false then
      if dt = 0 then (.error .ZeroDivisionError : Except ErrKind (Rat × Rat))
      else
        let e : Rat := if «end» ≠ -1 then ((truncZ («end» / dt) + 1 : Int) : Rat) else «end»
        pure (((truncZ (start / dt) : Int) : Rat), e)
    else pure (start, «end»)
  if e > (npts : Rat) then .error .Other else pure (s, e)

end EqsigVerif.Model.TimeShift
