/-!
# Exact model of the binary64 decisions in the window loop of `calc_cav_dp` (Mathlib-free, executable)

`calc_cav_dp` builds the abscissae of every one-second window with a FLOATING `np.arange`:

    points_per_sec = int(1 / asig.dt)
    interval_time  = np.arange(start * asig.dt, (start * asig.dt) + 1, asig.dt)
    mask           = (start * asig.dt <= interval_time) * (interval_time <= (start + points_per_sec) * asig.dt)

and integrates `len(selected) − 1` trapezoid panels.  The hand model `Model.Im.cavDp` does this in exact arithmetic
(`dt = 1/pps`): `pps` abscissae, `pps − 1` panels.  Here the same decisions are evaluated on binary64 numbers.

Every non-negative double is a dyadic rational `m / 2^k` (`Dy`, not normalised; natural-number arithmetic only, so that the
kernel evaluates it quickly).  `roundQ p q` is IEEE-754 round-to-nearest, ties-to-even, of `p/q` to a 53-bit significand
(no overflow / subnormals: all magnitudes here lie in `[1e-4, 1e7]`); every NumPy/Python operation is the exact
operation followed by that rounding.

NumPy facts used (`numpy/_core/src/multiarray/ctors.c`: `_calc_length`, `PyArray_ArangeObj`; `arraytypes.c.src`: `DOUBLE_fill`):
* length of `np.arange(start, stop, step)` = `ceil(fl(fl(stop − start) / step))`;
* element 0 is `start`, element 1 is `next = fl(start + step)`, element `j ≥ 2` is `fl(start + fl(j · delta))` with
  `delta = fl(next − start)`.
-/
namespace EqsigVerif.Model.CavDpFloat

/-- a non-negative dyadic rational `m / 2^k` (every non-negative finite double is one) -/
structure Dy where
  m : Nat
  k : Nat
  deriving Repr, Inhabited

namespace Dy
/-- the exact value -/
def toRat (x : Dy) : Rat := (x.m : Rat) / ((2 ^ x.k : Nat) : Rat)
def ofNat (n : Nat) : Dy := ⟨n, 0⟩
/-- `x ≤ y` (exact) -/
def le (x y : Dy) : Bool := Nat.ble (x.m <<< y.k) (y.m <<< x.k)
/-- `x == y` as numbers -/
def eqv (x y : Dy) : Bool := Nat.beq (x.m <<< y.k) (y.m <<< x.k)
/-- `math.ceil` -/
def ceil (x : Dy) : Nat := (x.m + (1 <<< x.k) - 1) >>> x.k
/-- `int(x)` for `x ≥ 0` -/
def floor (x : Dy) : Nat := x.m >>> x.k
end Dy

/-- strict `let` for the kernel: evaluates `v` to a numeral ONCE before it is substituted into `f` (the kernel
substitutes `let` values unevaluated; without this every use re-evaluates the whole chain of roundings).
Semantically `seqN v f = f v`. -/
def seqN {α : Type} (v : Nat) (f : Nat → α) : α :=
  match v with
  | .zero => f 0
  | .succ n => f (.succ n)

/-- strict `let` for a dyadic -/
def Dy.force {α : Type} (x : Dy) (f : Dy → α) : α :=
  match x with
  | ⟨m, k⟩ => seqN m (fun m => seqN k (fun k => f ⟨m, k⟩))

/-- bit length − 1 by binary search on shifts (`p < 2^1024`), using only operations the kernel evaluates natively -/
def log2Go (p acc : Nat) : List Nat → Nat
  | [] => acc
  | s :: ss =>
    if Nat.ble (1 <<< s) p then log2Go (p >>> s) (acc + s) ss else log2Go p acc ss

/-- `⌊log₂ p⌋` (`0` for `p = 0`), equal to `Nat.log2 p`; `Nat.log2` itself is not evaluated natively by the kernel
(well-founded recursion), so it is only the fallback for `p ≥ 2^1024` (never reached here) -/
def log2F (p : Nat) : Nat :=
  if Nat.ble (1 <<< 1024) p then Nat.log2 p else log2Go p 0 [512, 256, 128, 64, 32, 16, 8, 4, 2, 1]

/-- binary64 rounding (nearest, ties to even) of the non-negative rational `p / q` (`q > 0`):
scale so that the quotient `(p·2^a) / (q·2^b')` lies in `[2^52, 2^53)`, divide, round the remainder to nearest-even;
the result is `m'·2^b' / 2^a`. (`seqN` = strict `let`.) -/
def roundQ (p q : Nat) : Dy :=
  seqN (log2F p) fun lp => seqN (log2F q) fun lq =>
  -- (p · 2^a) / (q · 2^b) ∈ (2^52, 2^54)
  let a := (lq + 53) - lp
  let b := lp - (lq + 53)
  let n0 := p <<< a
  seqN (if Nat.ble (2 ^ 53) (n0 / (q <<< b)) then b + 1 else b) fun b' =>
  let d := q <<< b'
  let m := n0 / d                      -- 2^52 ≤ m < 2^53 (for p > 0)
  let r := n0 % d
  let up := Nat.blt d (2 * r) || (Nat.beq (2 * r) d && Nat.beq (m % 2) 1)
  ⟨(if up then m + 1 else m) <<< b', a⟩

/-- `fl(x + y)` -/
def fadd (x y : Dy) : Dy := roundQ ((x.m <<< y.k) + (y.m <<< x.k)) (1 <<< (x.k + y.k))
/-- `fl(x − y)` for `x ≥ y` (both uses below: `stop − start`, `next − start` with a positive step) -/
def fsub (x y : Dy) : Dy := roundQ ((x.m <<< y.k) - (y.m <<< x.k)) (1 <<< (x.k + y.k))
/-- `fl(n · x)` for a Python `int` `n` (converted exactly: `n < 2^53`) -/
def fmulNat (n : Nat) (x : Dy) : Dy := roundQ (n * x.m) (1 <<< x.k)
/-- `fl(x / y)` -/
def fdiv (x y : Dy) : Dy := roundQ (x.m <<< y.k) (y.m <<< x.k)

/-- the double the caller writes for a sampling rate of `pps` samples per second (`dt = 1/pps`, e.g. the literal `0.01`) -/
def dtOf (pps : Nat) : Dy := roundQ 1 pps

/-- `points_per_sec = int(1 / asig.dt)` -/
def ppsOf (dt : Dy) : Nat := (fdiv (Dy.ofNat 1) dt).force fun q => q.floor

/-- `len(np.arange(start * dt, (start * dt) + 1, dt))` -/
def arangeLenF (dt : Dy) (start : Nat) : Nat :=
  (fmulNat start dt).force fun a =>
  (fadd a (Dy.ofNat 1)).force fun b =>
  (fsub b a).force fun c =>
  (fdiv c dt).force fun q => q.ceil

/-- `np.arange(start * dt, (start * dt) + 1, dt)` element by element (NumPy's `fill`) -/
def arangeF (dt : Dy) (start : Nat) : List Dy :=
  (fmulNat start dt).force fun a =>
  (fadd a dt).force fun next =>
  (fsub next a).force fun delta =>
  (List.range (arangeLenF dt start)).map (fun (j : Nat) =>
    if j = 0 then a else if j = 1 then next else (fmulNat j delta).force fun jd => fadd a jd)

/-- positions with `p`, counted from `i` -/
def whereFrom (p : Dy → Bool) (i : Nat) : List Dy → List Nat
  | [] => []
  | x :: xs => seqN (i + 1) fun i' => if p x then i :: whereFrom p i' xs else whereFrom p i' xs

/-- the positions `np.where((x_lower <= interval_time) * (interval_time <= x_upper))` selects -/
def selectedF (dt : Dy) (pps start : Nat) : List Nat :=
  (fmulNat start dt).force fun xLower =>
  (fmulNat (start + pps) dt).force fun xUpper =>
  whereFrom (fun t => t.force fun t => Dy.le xLower t && Dy.le t xUpper) 0 (arangeF dt start)

/-- number of trapezoid panels the window starting at sample `start` integrates -/
def panelsF (dt : Dy) (pps start : Nat) : Nat := (selectedF dt pps start).length - 1

/-- `l == [i, i+1, …, n−1]` (natural-number tests only) -/
def isRangeFrom : List Nat → Nat → Nat → Bool
  | [], i, n => Nat.beq i n
  | x :: xs, i, n => Nat.beq x i && seqN (i + 1) fun i' => isRangeFrom xs i' n

/-- "window `i` (one-second windows of `pps` samples, `dt = fl(1/pps)`) behaves as in the exact model":
`pps` abscissae, all selected (positions `0 … pps−1`, hence `pps − 1` panels) -/
def windowExact (pps i : Nat) : Bool :=
  (dtOf pps).force fun dt =>
  Nat.beq (arangeLenF dt (i * pps)) pps && isRangeFrom (selectedF dt pps (i * pps)) 0 pps

/-- cheaper: only the length of the `arange` -/
def windowLenExact (pps i : Nat) : Bool := (dtOf pps).force fun dt => Nat.beq (arangeLenF dt (i * pps)) pps

end EqsigVerif.Model.CavDpFloat
