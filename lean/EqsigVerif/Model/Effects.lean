/-!
# In-place effect summary of the public array-level functions (C05.c) — format only

`tools/py2lean.py` scans every public function of `eqsig` and emits one `FnEffect` per function into
`EqsigVerif/Gen/Effects.lean` (`def EqsigVerif.Gen.effects : List FnEffect := [ … ]`):
`inplaceOnParam = true` iff some parameter — or a name bound to it without a fresh-copy constructor in
between, or a NumPy view of it — is the target of an in-place construct (`x op= …`, `x[...] = …`,
`np.put(x, …)`, `out=x`, `overwrite_x=True`, `.sort()`); `line` is the line of the first such construct
(`0` when there is none).
-/
namespace EqsigVerif.Model.Effects

structure FnEffect where
  name : String
  inplaceOnParam : Bool
  line : Nat
  deriving DecidableEq, Repr

/-- C05.c: no public function has an in-place construct whose target may alias a parameter -/
def EffectsClean (l : List FnEffect) : Prop := ∀ e, e ∈ l → e.inplaceOnParam = false

instance (l : List FnEffect) : Decidable (EffectsClean l) :=
  inferInstanceAs (Decidable (∀ e, e ∈ l → e.inplaceOnParam = false))

/-- the offending functions (for the report when `EffectsClean` fails) -/
def offenders (l : List FnEffect) : List FnEffect := l.filter (·.inplaceOnParam)

theorem effectsClean_iff_offenders_nil (l : List FnEffect) : EffectsClean l ↔ offenders l = [] := by
  unfold EffectsClean offenders
  rw [List.filter_eq_nil_iff]
  constructor
  · intro h e he; simp [h e he]
  · intro h e he; simpa using h e he

end EqsigVerif.Model.Effects
