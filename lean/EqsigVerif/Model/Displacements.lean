import EqsigVerif.Prelude.Np
/-!
# Model of `eqsig/displacements.py` and of `eqsig.im.calc_peak` (hand model, Mathlib-free, generic)

`calc_velo_and_disp_from_accel_arr(acceleration, dt, trap)`:
* `trap=True`  : `velocity = cumulative_trapezoid(acc, dx=dt, initial=0)`, `displacement = cumulative_trapezoid(velocity, …)`
* `trap=False` : the length `n+1` buffer `[0, acc*dt…]`, in-place `cumsum`, `displacement = cumsum(velocity*dt)`,
                 both cut by `[:-1]`.
-/
namespace EqsigVerif.Model.Displacements
open EqsigVerif.Np

variable {α : Type} [Add α] [Mul α] [Div α] [OfNat α 0] [OfNat α 2]

/-- `trap=True` branch -/
def veloDispTrap (a : List α) (dt : α) : List α × List α :=
  (cumtrapz dt a, cumtrapz dt (cumtrapz dt a))

/-- the un-truncated velocity buffer of the `trap=False` branch -/
def rectVFull (a : List α) (dt : α) : List α := cumsum (0 :: a.map (· * dt))

/-- `trap=False` branch, as the code builds it -/
def veloDispRect (a : List α) (dt : α) : List α × List α :=
  ((rectVFull a dt).dropLast, (cumsum ((rectVFull a dt).map (· * dt))).dropLast)

/-- `calc_velo_and_disp_from_accel_arr` -/
def veloDisp (a : List α) (dt : α) (trap : Bool) : List α × List α :=
  if trap then veloDispTrap a dt else veloDispRect a dt

section Peak
variable [LT α] [DecidableLT α] [Neg α]

/-- `eqsig.im.calc_peak(motion) = max(abs(min(motion)), max(motion))`; `none` for an empty series
(Python raises `ValueError`). -/
def calcPeak? (l : List α) : Option α :=
  match minL? l, maxL? l with
  | some mn, some mx => some (max2 (absv mn) mx)
  | _, _ => none

end Peak

end EqsigVerif.Model.Displacements
