import EqsigVerif.Prelude.Np
import EqsigVerif.Prelude.Wire
import EqsigVerif.Prelude.Cplx
/-!
# Model of the Fourier-amplitude-spectrum code (C06) and Konno–Ohmachi smoothing (C07)

Sources (tree with the planned fixes applied, `/tmp/repo_fixed`):
`eqsig/single.py` (`Signal.gen_fa_spectrum`, `fa_spectrum`, `fa_freqs`, `gen_smooth_fa_spectrum`),
`eqsig/fns/frequency.py` (`generate_fa_spectrum`, `calc_fa_spectrum`, `fas2values`, `fas2signal`,
`calc_smooth_fa_spectrum`, `calc_smoothing_matrix_konno_1998`, `calc_smooth_fa_spectrum_w_custom_matrix`,
`get_sig_array_indexes_range`), `eqsig/im.py` (`max_fa_period`, `calc_bandwidth_freqs/f_min/f_max`).

Mathlib-free and executable.  Number types: `α` = reals (`Float` in the driver, `Rat` for the exact
smoothing runs, `ℝ` in theorems), `β` = complex numbers over `α` (`Cx Float` in the driver, `ℂ` in
theorems) — see `Prelude/Cplx.lean`.  `np.fft.fft/ifft` are the defining sums `Cplx.dft/idft`
(assumption `FftIsDft`, DESIGN §3.3); the twiddle table `tw N m = e^{-2πi m/N}` is a parameter.

Stages of the three spectrum entry points:
1. transform length `N` (`nFactor`, `nextPow2`): explicit `n`, or `2 ** int(ceil(log2 npts) + p2_plus)`,
   or `npts` (unpadded);
2. `points = int(N/2)`;
3. `fa_spectrum = fft(values, n=N)[range(points)] * dt` (`fasOf`);
4. `fa_frequencies = arange(points) / (N * dt)` (`freqsOf`; the fixed tree uses `N`, not `2·points`).
-/
namespace EqsigVerif.Model.Frequency
open EqsigVerif EqsigVerif.Cplx EqsigVerif.Wire

/-! ## C06 — transform length -/

/-- `int(np.ceil(np.log2(n)))` for `n ≥ 1`: the least `e` with `n ≤ 2^e` -/
def clog2 (n : Nat) : Nat := if n ≤ 1 then 0 else Nat.log2 (n - 1) + 1

/-- `2 ** int(np.ceil(np.log2(n)))` for `n ≥ 1`: the least power of two `≥ n` -/
def nextPow2 (n : Nat) : Nat := 2 ^ clog2 n

/-- the transform length `n_factor` of `Signal.gen_fa_spectrum(p2_plus, n)`.
* explicit `n`: `N = n`; `n = 0` makes `np.fft.fft` raise `ValueError`;
* otherwise `N = 2 ** int(ceil(log2 npts) + p2_plus)`; `npts = 0` makes `int(ceil(-inf))` raise
  `OverflowError` (`ErrKind.Other`). -/
def nFactor (npts p2plus : Nat) (n? : Option Nat) : Except ErrKind Nat :=
  match n? with
  | some n => if n = 0 then .error .ValueError else .ok n
  | none => if npts = 0 then .error .Other else .ok (2 ^ (clog2 npts + p2plus))

/-- `points = int(n_factor / 2)` -/
def points (N : Nat) : Nat := N / 2

/-! ## C06 — spectrum and frequency grid (common core of the three entry points) -/
section Core
variable {α β : Type} [Add β] [Mul β] [OfNat β 0] [Mul α] [Div α] [NatCast α] [CxLike α β]

/-- `fa[range(points)] * dt` with `fa = np.fft.fft(values, n=N)` -/
def fasOf (tw : Nat → Nat → β) (values : List β) (dt : α) (N : Nat) : List β :=
  ((dft tw values N).take (points N)).map (fun z => z * CxLike.ofReal dt)

/-- `np.arange(points) / (N * dt)` -/
def freqsOf (dt : α) (N : Nat) : List α :=
  (List.range (points N)).map (fun k => ((k : Nat) : α) / (((N : Nat) : α) * dt))

/-- `(fa_spectrum, fa_frequencies)` for transform length `N` -/
def faCore (tw : Nat → Nat → β) (values : List β) (dt : α) (N : Nat) : List β × List α :=
  (fasOf tw values dt N, freqsOf dt N)

/-- `Signal.gen_fa_spectrum(p2_plus=0, n=None)` → `(self._fa_spectrum, self._fa_freqs)`.
`Signal.fa_spectrum` / `Signal.fa_freqs` (first access) are this with the defaults. -/
def signalGenFaSpectrum (tw : Nat → Nat → β) (values : List β) (dt : α)
    (p2plus : Nat := 0) (n? : Option Nat := none) : Except ErrKind (List β × List α) := do
  let N ← nFactor values.length p2plus n?
  pure (faCore tw values dt N)

/-- `eqsig.fns.frequency.generate_fa_spectrum(sig, n_pad=True)` -/
def generateFaSpectrum (tw : Nat → Nat → β) (values : List β) (dt : α)
    (nPad : Bool := true) : Except ErrKind (List β × List α) :=
  if nPad then
    -- n_factor = 2 ** int(np.ceil(np.log2(npts)))
    if values.length = 0 then .error .Other else .ok (faCore tw values dt (nextPow2 values.length))
  else
    -- np.fft.fft(sig.values): N = npts, ValueError on an empty array
    if values.length = 0 then .error .ValueError else .ok (faCore tw values dt values.length)

/-- `eqsig.fns.frequency.calc_fa_spectrum(sig, n=None, p2_plus=None)` -/
def calcFaSpectrum (tw : Nat → Nat → β) (values : List β) (dt : α)
    (n? : Option Nat := none) (p2plus? : Option Nat := none) : Except ErrKind (List β × List α) :=
  match n?, p2plus? with
  | some n, _ => if n = 0 then .error .ValueError else .ok (faCore tw values dt n)
  | none, some p =>
      if values.length = 0 then .error .Other else .ok (faCore tw values dt (2 ^ (clog2 values.length + p)))
  | none, none =>
      if values.length = 0 then .error .ValueError else .ok (faCore tw values dt values.length)

end Core

/-! ## C06 — inverse helper -/
section Inverse
variable {α β : Type} [Add β] [Mul β] [Div β] [OfNat β 0] [NatCast α] [CxLike α β]

/-- the Hermitian re-assembly of `fas2values` (for `len fas ≥ 1`, `n = 2·len fas`):
`a = zeros(n); a[1:n//2] = fas[1:]; a[n//2+1:] = flip(conj(fas[1:]))` -/
def hermitian (fas : List β) : List β :=
  [0] ++ fas.tail ++ [0] ++ (fas.tail.map CxLike.conj).reverse

/-- `eqsig.fns.frequency.fas2values(fas, dt)` (and the array inside `fas2signal`):
re-assembly, `a /= dt`, `np.fft.ifft`, all `n = 2·len(fas)` samples.
`len(fas) = 0` makes `np.fft.ifft` raise `ValueError`. -/
def fas2values (tw : Nat → Nat → β) (fas : List β) (dt : α) : Except ErrKind (List β) :=
  if fas.length = 0 then .error .ValueError
  else
    let n := 2 * fas.length
    let a := (hermitian fas).map (fun z => z / CxLike.ofReal dt)
    .ok ((idft tw a n).take n)

end Inverse

/-! ## C06 — dominant period -/
section MaxPeriod
variable {α β : Type} [Div α] [OfNat α 0] [OfNat α 1] [LT α] [DecidableLT α] [BEq α] [CxLike α β]

/-- `eqsig.im.max_fa_period(asig)` on `(asig.fa_spectrum, asig.fa_frequencies)`:
`1 / fa_frequencies[np.argmax(np.abs(fa_spectrum))]` (first maximum; `|z|` and `|z|²` have the same
first maximum).  Outcomes: `ValueError` for an empty spectrum (`np.argmax`), `ok none` for the
value `inf` NumPy returns when the maximum is the zero-frequency bin (`1./0.`), `ok (some T)` else. -/
def maxFaPeriod (fas : List β) (freqs : List α) : Except ErrKind (Option α) :=
  if fas.length = 0 then .error .ValueError
  else
    match freqs[Np.argmax (fas.map CxLike.normSq)]? with
    | none => .error .IndexError
    | some f => if f == 0 then .ok none else .ok (some (1 / f))

end MaxPeriod

/-! ## C07 — Konno–Ohmachi smoothing

The weight matrix is handled **column-major**: `W[j]` is the column of target frequency `fc_j`
(`wb_vals[:, j]` in the code), its entries run over the Fourier frequencies `f_i`.  Every operation of
the code (`np.where`, `/= np.sum(axis=0)`, `np.sum(... , axis=0)`, `np.dot`) is column-wise. -/
section Smooth
variable {α : Type} [Add α] [Mul α] [Div α] [Neg α] [OfNat α 0] [OfNat α 1] [LT α] [DecidableLT α] [BEq α]

/-- stage 1: `if fa_frequencies[0] == 0: fa_frequencies, fa_spectrum = fa_frequencies[1:], fa_spectrum[1:]`
(`IndexError` on an empty frequency array) -/
def dropZeroBin {γ : Type} (faFreqs : List α) (A : List γ) : Except ErrKind (List α × List γ) :=
  match faFreqs with
  | [] => .error .IndexError
  | f0 :: rest => if f0 == 0 then .ok (rest, A.drop 1) else .ok (faFreqs, A)

/-- `np.where(amp_array == 0, 1, wb_vals)` on one column -/
def whereCol (amp raw : List α) : List α :=
  List.zipWith (fun a w => if a == 0 then 1 else w) amp raw

/-- `wb_vals /= np.sum(wb_vals, axis=0)` on one column -/
def normCol (col : List α) : List α := col.map (fun w => w / sumL col)

/-- `np.sum(abs(fa_spectrum) * col)` = `np.dot(abs(fa_spectrum), col)` -/
def dotAbs (A col : List α) : α := sumL (List.zipWith (fun a w => Np.absv a * w) A col)

/-- the normalised smoothing matrix (`calc_smoothing_matrix_konno_1998`), from the matrix of window
arguments `amp = band·log10(f_i/fc_j)` and the RAW window values `raw = (sin(amp)/amp)^4`
(entries of `raw` where `amp == 0` are never used) -/
def smoothMatrix (amp raw : List (List α)) : List (List α) :=
  List.zipWith (fun a r => normCol (whereCol a r)) amp raw

/-- `calc_smooth_fa_spectrum(fa_frequencies, fa_spectrum, …)` with the window arguments and raw window
values as parameters (computed on the frequencies that remain after stage 1).
`A` is the real spectrum whose `abs` is smoothed (for a complex spectrum pass its moduli).
Domain: `len A = len faFreqs`, every column of `amp`/`raw` has one entry per remaining frequency;
a length mismatch of `A` is NumPy's broadcasting `ValueError` (unless one of the lengths is 1). -/
def smoothCore (faFreqs A : List α) (amp raw : List (List α)) : Except ErrKind (List α) := do
  let (fs, A') ← dropZeroBin faFreqs A
  if A'.length ≠ fs.length then throw .ValueError
  pure ((smoothMatrix amp raw).map (dotAbs A'))

/-- `calc_smooth_fa_spectrum_w_custom_matrix(asig, smooth_matrix)`:
`np.dot(abs(asig.fa_spectrum[1:]), smooth_matrix)` -/
def smoothWithMatrix (A : List α) (M : List (List α)) : List α := M.map (dotAbs (A.drop 1))

/-- generic Konno–Ohmachi window argument `band * log10(f / fc)` -/
def koArg (log10 : α → α) (band f fc : α) : α := band * log10 (f / fc)

/-- raw window `(sin(x)/x) ** 4` (as a fourfold product) -/
def koRaw (sin : α → α) (x : α) : α := let q := sin x / x; q * q * q * q

/-- the window with the `np.where(x == 0, 1, ·)` replacement -/
def koWindow (sin log10 : α → α) (band f fc : α) : α :=
  let x := koArg log10 band f fc
  if x == 0 then 1 else koRaw sin x

/-- the matrix of window arguments, column-major, for Fourier frequencies `fs` and targets `sm` -/
def koAmp (log10 : α → α) (band : α) (fs sm : List α) : List (List α) :=
  sm.map (fun fc => fs.map (fun f => koArg log10 band f fc))

/-- `calc_smoothing_matrix_konno_1998(fa_frequencies, smooth_fa_frequencies=None, band)` (column-major) -/
def calcSmoothingMatrix (sin log10 : α → α) (faFreqs : List α) (smooth? : Option (List α)) (band : α) :
    Except ErrKind (List (List α)) := do
  let (fs, _) ← dropZeroBin faFreqs ([] : List Unit)
  let amp := koAmp log10 band fs (smooth?.getD fs)
  pure (smoothMatrix amp (amp.map (·.map (koRaw sin))))

/-- `calc_smooth_fa_spectrum(fa_frequencies, fa_spectrum, smooth_fa_frequencies=None, band=40)`
with the transcendental functions as parameters (`Float.sin/Float.log10` in the driver,
`Real.sin`, `Real.log ·/Real.log 10` in the theorems).
`Signal.gen_smooth_fa_spectrum(smooth_fa_freqs, band)` is this on
`(self.fa_freqs, |self.fa_spectrum|, self.smooth_fa_freqs)`. -/
def calcSmoothFaSpectrum (sin log10 : α → α) (faFreqs A : List α) (smooth? : Option (List α)) (band : α) :
    Except ErrKind (List α) := do
  let (fs, _) ← dropZeroBin faFreqs A
  let amp := koAmp log10 band fs (smooth?.getD fs)
  smoothCore faFreqs A amp (amp.map (·.map (koRaw sin)))

/-! ## C07 — bandwidth limits -/

/-- indices `(ind2[0][0], ind2[0][-1])` with `ind2 = np.where(smooth > lim)`; `IndexError` if empty -/
def firstLastAbove (smooth : List α) (lim : α) : Except ErrKind (Nat × Nat) :=
  let idx := Np.whereIdx (fun s => decide (lim < s)) smooth
  match idx.head?, idx.getLast? with
  | some a, some b => .ok (a, b)
  | _, _ => .error .IndexError

/-- `eqsig.im.calc_bandwidth_freqs(asig, ratio)` on `(asig.smooth_fa_spectrum, asig.smooth_fa_frequencies)`.
`ValueError` for an empty spectrum (`max()`), `IndexError` iff no entry exceeds `max*ratio`
(or the frequency array is shorter than the spectrum). `calc_bandwidth_f_min/f_max` are its components. -/
def bandwidthFreqs (smooth freqs : List α) (ratio : α) : Except ErrKind (α × α) :=
  match Np.maxL? smooth with
  | none => .error .ValueError
  | some m => do
    let (a, b) ← firstLastAbove smooth (m * ratio)
    match freqs[a]?, freqs[b]? with
    | some fa, some fb => pure (fa, fb)
    | _, _ => throw .IndexError

/-- `calc_bandwidth_f_min` (reads only `smooth_fa_frequencies[ind2[0][0]]`) -/
def bandwidthFMin (smooth freqs : List α) (ratio : α) : Except ErrKind α :=
  match Np.maxL? smooth with
  | none => .error .ValueError
  | some m => do
    let (a, _) ← firstLastAbove smooth (m * ratio)
    match freqs[a]? with
    | some fa => pure fa
    | none => throw .IndexError

/-- `calc_bandwidth_f_max` (reads only `smooth_fa_frequencies[ind2[0][-1]]`) -/
def bandwidthFMax (smooth freqs : List α) (ratio : α) : Except ErrKind α :=
  match Np.maxL? smooth with
  | none => .error .ValueError
  | some m => do
    let (_, b) ← firstLastAbove smooth (m * ratio)
    match freqs[b]? with
    | some fb => pure fb
    | none => throw .IndexError

/-- `get_sig_array_indexes_range(fas1_smooth, ratio=15)`: first and last index above `max/ratio` -/
def sigArrayIndexesRange (smooth : List α) (ratio : α) : Except ErrKind (Nat × Nat) :=
  match Np.maxL? smooth with
  | none => .error .ValueError
  | some m => firstLastAbove smooth (m / ratio)

end Smooth

end EqsigVerif.Model.Frequency
