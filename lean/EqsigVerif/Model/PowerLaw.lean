import EqsigVerif.Prelude.Np
import EqsigVerif.Model.Switched
/-!
# Model of the power-law equivalent-cycle measures of `eqsig/im.py` (hand model, Mathlib-free, generic)

* `calc_n_cyc_array_w_power_law(values, a_ref, b, cut_off)`
* `calc_cyc_amp_array_w_power_law(values, n_cyc, b)` (scalar `b`)
* `calc_cyc_amp_combined_arrays_w_power_law`, `calc_cyc_amp_gm_arrays_w_power_law`

The switched-peak indices are computed by `Model.Switched.switchedPeaks` on the exact rational record; the
arithmetic (`x ** (1/b)`, sums) is generic in `α` with the power function as a parameter (`Float.pow` in the
driver, `Real.rpow` in the theorems).
-/
namespace EqsigVerif.Model.PowerLaw
open EqsigVerif.Np

variable {α : Type} [Add α] [Mul α] [Div α] [OfNat α 0] [OfNat α 1] [OfNat α 2] [LT α] [DecidableLT α] [Neg α]

/-- `interp1d(knots_x, knots_y, kind='previous')(i)`: value of the last knot with `x ≤ i`
(scipy sorts stably and takes the last of equal abscissae) -/
def prevKnot (i : Nat) (cur : α) : List (Nat × α) → α
  | [] => cur
  | (x, y) :: rest => if x ≤ i then prevKnot i y rest else cur

/-- core of `calc_n_cyc_array_w_power_law` given the switched-peak indices `idx` and their |values| `pk`
(already with the cut-off replacement applied); `half = 0.5` -/
def nCycCore (pow : α → α → α) (half : α) (n : Nat) (idx : List Nat) (pk : List α) (aRef b : α) : List α :=
  let perc := pk.map (fun p => half / (1 * pow (aRef / p) (1 / b)))
  let nEq := cumsum perc
  let last := nEq.getLastD 0
  -- knots: (0,0), (p_1,c_1) … (p_k,c_k), then the two `insert`s: n_eq gets c_k again before its last entry,
  -- peak_indices gets len(values) appended
  let knots := (0, 0) :: (idx.zip nEq) ++ [(n, last)]
  (List.range n).map (fun i => prevKnot i 0 knots)

/-- the cut-off replacement `where(csr_peaks < cut_off * max|values|, 1e-14, csr_peaks)` -/
def cutOff (tiny : α) (cut maxAbs : α) (pk : List α) : List α :=
  pk.map (fun p => if p < cut * maxAbs then tiny else p)

/-- core of `calc_cyc_amp_array_w_power_law` (scalar `b`) given the peak-only |value| series `csr`
(zeros away from the switched peaks) -/
def cycAmpCore (pow : α → α → α) (csr : List α) (nCyc b : α) : List α :=
  (cumsum (csr.map (fun x => pow (absv x) (1 / b) / 2 / nCyc))).map (fun s => pow s b)

/-- core of `calc_cyc_amp_combined_arrays_w_power_law` -/
def cycAmpCombinedCore (pow : α → α → α) (csr0 csr1 : List α) (nCyc b : α) : List α :=
  (cumsum (List.zipWith (fun x y => (pow (absv x) (1 / b) + pow (absv y) (1 / b)) / 2 / nCyc) csr0 csr1)).map
    (fun s => pow s b)

/-- `csr_peaks_s1 = zeros_like(values); np.put(csr_peaks_s1, idx, |values[idx]|)` -/
def peakOnlyAbs (vals : List α) (idx : List Nat) : List α :=
  putIdx (vals.map (fun _ => 0)) idx (idx.map (fun i => absv (vals.getD i 0)))

end EqsigVerif.Model.PowerLaw
