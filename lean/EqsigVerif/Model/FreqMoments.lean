import EqsigVerif.Prelude.NpF
import EqsigVerif.Model.Frequency
/-!
# Model of the Fourier-moment / Boore-bandwidth code (C06), of `fas2signal`, `get_sig_freq_range`, the deprecated
`generate_smooth_fa_spectrum` (C06/C07) and of the smoothing-frequency bookkeeping of `Signal` (C07)

Sources: `eqsig/fns/frequency.py` (`calc_fourier_moment`, `get_bandwidth_boore_2003`, `fas2signal`, `get_sig_freq_range`,
`generate_smooth_fa_spectrum`), `eqsig/single.py` (`Signal.set_smooth_fa_frequecies_by_range`, the `smooth_freq_range` /
`smooth_freq_points` properties and setters, `Signal.gen_smooth_fa_spectrum`, `generate_smooth_fa_spectrum`, `smooth_fa_spectrum`).

Mathlib-free and executable.  Number types: `α` = reals (frequencies, `np.pi`), `γ` = the number type of the spectrum the moment
is taken of (`asig.fa_spectrum`: complex for a `Signal`; any duck-typed object with a real spectrum gives `γ = α`), `emb : α → γ`
the embedding NumPy applies when a real array meets a complex one.

## `calc_fourier_moment(asig, n)`

`2 * np.trapz((2 * np.pi * asig.fa_frequencies) ** n * asig.fa_spectrum ** 2, x=asig.fa_frequencies)`

* `np.trapz` is looked up first: `AttributeError` on a NumPy without it (2.4 and later; the pinned 2.5.3) — flag `hasTrapz`;
* the integrand is `(2πf_i)^n · A_i²` — the **square of the (complex) spectrum value, not of its modulus**;
* the rule is the trapezoid rule on the (non-uniform) frequency grid itself: `Σ_i (f_{i+1} − f_i)·(g_{i+1} + g_i)/2`, times 2.
-/
namespace EqsigVerif.Model.FreqMoments
open EqsigVerif EqsigVerif.Cplx EqsigVerif.Wire

section Moments
variable {α γ : Type} [Mul α] [OfNat α 1] [OfNat α 2] [Add γ] [Sub γ] [Mul γ] [Div γ] [OfNat γ 0]

/-- the integrand `(2 * np.pi * f) ** n * A ** 2` at one frequency -/
def integrand (emb : α → γ) (pi : α) (n : Nat) (f : α) (A : γ) : γ := emb (NpF.powN ((2 : α) * pi * f) n) * (A * A)

/-- the value of `calc_fourier_moment` for arrays of equal length (the pure core): `2 · Σ panels` -/
def momentCore (emb : α → γ) (pi : α) (freqs : List α) (fas : List γ) (n : Nat) : γ :=
  emb 2 * sumL (NpF.panels (emb 2) (List.zipWith (integrand emb pi n) freqs fas) (freqs.map emb))

/-- `eqsig.fns.frequency.calc_fourier_moment(asig, n)` on `(asig.fa_frequencies, asig.fa_spectrum)`, `n` a non-negative integer.
`AttributeError` when NumPy has no `np.trapz`; `ValueError` when the two arrays cannot be broadcast. -/
def fourierMoment (emb : α → γ) (hasTrapz : Bool) (pi : α) (freqs : List α) (fas : List γ) (n : Nat) : Except ErrKind γ :=
  match NpF.attrE hasTrapz with
  | .error e => .error e
  | .ok _ =>
    match NpF.zipBE (fun r z => emb r * z) (freqs.map (fun f => NpF.powN ((2 : α) * pi * f) n)) (fas.map (fun z => z * z)) with
    | .error e => .error e
    | .ok y =>
      match NpF.trapzE (emb 2) y (freqs.map emb) with
      | .error e => .error e
      | .ok t => .ok (emb 2 * t)

/-- the argument of the square root in `get_bandwidth_boore_2003`: `m2 ** 2 / (m0 * m4)` from a moment function -/
def booreRatio (moment : Nat → Except ErrKind γ) : Except ErrKind γ :=
  match moment 0 with
  | .error e => .error e
  | .ok m0 =>
    match moment 2 with
    | .error e => .error e
    | .ok m2 =>
      match moment 4 with
      | .error e => .error e
      | .ok m4 => .ok (m2 * m2 / (m0 * m4))

/-- `eqsig.fns.frequency.get_bandwidth_boore_2003(asig)`: `np.sqrt(m2 ** 2 / (m0 * m4))`, `m_k = calc_fourier_moment(asig, k)`;
`csqrt` is `np.sqrt` on the number type of the moments (principal complex root for a `Signal`).  `m0 * m4 = 0` gives whatever `/`
of the number type gives (`nan` in NumPy, with a warning, no exception) — see `booreDefined`. -/
def boore (csqrt : γ → γ) (moment : Nat → Except ErrKind γ) : Except ErrKind γ :=
  match booreRatio moment with
  | .error e => .error e
  | .ok r => .ok (csqrt r)

/-- the Boore ratio is an honest quotient: `m0 * m4 ≠ 0` (otherwise NumPy returns `nan`) -/
def booreDefined [BEq γ] (moment : Nat → Except ErrKind γ) : Bool :=
  match moment 0, moment 4 with
  | .ok m0, .ok m4 => !(m0 * m4 == 0)
  | _, _ => false

end Moments

/-! ## `fas2signal(fas, dt, stype)` -/
section Fas2Signal
variable {α β : Type} [Add β] [Mul β] [Div β] [OfNat β 0] [NatCast α] [CxLike α β]

/-- which class `fas2signal` instantiates -/
inductive SigClass | signal | accSignal
  deriving Repr, DecidableEq, Inhabited

/-- `eqsig.fns.frequency.fas2signal(fas, dt, stype)`: the constructor arguments of the returned object — class (`Signal` iff
`stype == 'signal'`, `AccSignal` for every other value), values (exactly the array `fas2values(fas, dt)` computes) and time step.
`ValueError` (from `np.fft.ifft`) for an empty `fas`. -/
def fas2signal (tw : Nat → Nat → β) (fas : List β) (dt : α) (isSignal : Bool) : Except ErrKind (SigClass × List β × α) :=
  match Model.Frequency.fas2values tw fas dt with
  | .error e => .error e
  | .ok s => .ok (if isSignal then .signal else .accSignal, s, dt)

end Fas2Signal

/-! ## `get_sig_freq_range`, `generate_smooth_fa_spectrum` -/
section Range
variable {α : Type} [Add α] [Mul α] [Div α] [Neg α] [OfNat α 0] [OfNat α 1] [LT α] [DecidableLT α] [BEq α]

/-- `eqsig.fns.frequency.get_sig_freq_range(asig, ratio)` on `(asig.smooth_fa_spectrum, asig.smooth_fa_frequencies)`:
`np.take(freqs, get_sig_array_indexes_range(smooth, ratio))` -/
def sigFreqRange (smooth freqs : List α) (ratio : α) : Except ErrKind (α × α) :=
  match Model.Frequency.sigArrayIndexesRange smooth ratio with
  | .error e => .error e
  | .ok (a, b) =>
    match freqs[a]?, freqs[b]? with
    | some fa, some fb => .ok (fa, fb)
    | _, _ => .error .IndexError

/-- the deprecated `generate_smooth_fa_spectrum(smooth_fa_frequencies, fa_frequencies, fa_spectrum, band)`: the same function with
another argument order -/
def generateSmoothFaSpectrum (sin log10 : α → α) (smooth? : Option (List α)) (faFreqs A : List α) (band : α) :
    Except ErrKind (List α) :=
  Model.Frequency.calcSmoothFaSpectrum sin log10 faFreqs A smooth? band

end Range

/-! ## smoothing frequencies of a `Signal` (which target-frequency array is used) -/
section Targets
variable {α : Type} [Add α] [Sub α] [Mul α] [Div α] [NatCast α] [BEq α] [OfNat α 0]

/-- `lf = np.log10(limits)`; `np.logspace(lf[0], lf[1], n, base=10)`: `IndexError` when `limits` has fewer than two entries -/
def logspaceOfLimits (log10 pow10 : α → α) (limits : List α) (n : Nat) : Except ErrKind (List α) :=
  match limits[0]?, limits[1]? with
  | some a, some b => .ok (NpF.logspace pow10 (log10 a) (log10 b) n)
  | _, _ => .error .IndexError

/-- `Signal.set_smooth_fa_frequecies_by_range(limits, n_points)`: the new `_smooth_fa_freqs` (and `_smooth_freq_range = limits`) -/
def setByRange (log10 pow10 : α → α) (limits : List α) (nPoints : Nat) : Except ErrKind (List α × List α) :=
  match logspaceOfLimits log10 pow10 limits nPoints with
  | .error e => .error e
  | .ok f => .ok (f, limits)

/-- the constructor's default smoothing frequencies: `set_smooth_fa_frequecies_by_range(smooth_freq_range, 50)` -/
def ctorPoints : Nat := 50

/-- getter `Signal.smooth_freq_range`: `(smooth_fa_freqs[0], smooth_fa_freqs[-1])` -/
def freqRangeGet (cur : List α) : Except ErrKind (α × α) :=
  match cur[0]?, cur.getLast? with
  | some a, some b => .ok (a, b)
  | _, _ => .error .IndexError

/-- getter `Signal.smooth_freq_points`: `len(self.smooth_fa_freqs)` -/
def freqPointsGet (cur : List α) : Nat := cur.length

/-- setter `Signal.smooth_freq_range = limits`: `np.logspace(lf[0], lf[1], self.smooth_freq_points)` — the CURRENT number of
smoothing frequencies is kept (the class attribute `_smooth_freq_points = 61` is never read) -/
def freqRangeSet (log10 pow10 : α → α) (cur limits : List α) : Except ErrKind (List α) :=
  logspaceOfLimits log10 pow10 limits (freqPointsGet cur)

/-- setter `Signal.smooth_freq_points = value`: `lf = np.log10(self.smooth_freq_range)` (the CURRENT first and last smoothing
frequency), `np.logspace(lf[0], lf[1], int(value))` -/
def freqPointsSet (log10 pow10 : α → α) (cur : List α) (value : Nat) : Except ErrKind (List α) :=
  match freqRangeGet cur with
  | .error e => .error e
  | .ok (a, b) => .ok (NpF.logspace pow10 (log10 a) (log10 b) value)

/-- the target frequencies `Signal.gen_smooth_fa_spectrum(smooth_fa_freqs, band)` uses and leaves in `_smooth_fa_freqs`:
the argument when given, else the current ones -/
def smoothTargets (given? : Option (List α)) (cur : List α) : List α := given?.getD cur

variable [Neg α] [OfNat α 1] [LT α] [DecidableLT α]

/-- `Signal.gen_smooth_fa_spectrum(smooth_fa_freqs=None, band=40)` on the object's Fourier spectrum `(faFreqs, |fas|)` (cached or
freshly generated) → `(_smooth_fa_spectrum, _smooth_fa_freqs)` -/
def signalGenSmooth (sin log10 : α → α) (faFreqs absFas : List α) (given? : Option (List α)) (cur : List α) (band : α) :
    Except ErrKind (List α × List α) :=
  match Model.Frequency.calcSmoothFaSpectrum sin log10 faFreqs absFas (some (smoothTargets given? cur)) band with
  | .error e => .error e
  | .ok s => .ok (s, smoothTargets given? cur)

/-- default `band` of `gen_smooth_fa_spectrum` / `generate_smooth_fa_spectrum` -/
def defaultBand : Nat := 40

end Targets

end EqsigVerif.Model.FreqMoments
