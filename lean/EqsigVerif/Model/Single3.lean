import EqsigVerif.Prelude.NpV
import EqsigVerif.Prelude.NpR
import EqsigVerif.Model.Im
import EqsigVerif.Model.TimeStep
import EqsigVerif.Model.Switched
import EqsigVerif.Model.SwitchedOut
/-!
# Object-level statistics of `eqsig/single.py::AccSignal` (hand model, Mathlib-free, exact rationals)

`pgv`, `pgd`, `generate_peak_values`, `generate_duration_stats`, `generate_cumulative_stats`: which array-level function of
`eqsig/im.py` each one calls, with which arguments, and what it stores.

* `np.sqrt` cannot be taken in `ℚ`: `a_rms..` is `Root.sqrt r` with the radicand `r` (possibly non-finite: `1 / t_b` with `t_b = 0` is
  `inf`, `inf * 0 = nan`; NumPy scalars never raise) or the literal `Root.val (-1)` of the `except IndexError` branch.
* `np.trapz` does not exist in NumPy ≥ 2.4 (the pinned NumPy is 2.5.3): the attribute lookup raises `AttributeError`, which
  `except IndexError` does not catch.  `hasTrapz` says whether the running NumPy has the attribute (pinned tree: `false`).
* decimal literals (`9.8`, `0.01`, `0.05`, `0.1`, `0.95`) are the exact decimals (as in `Model/Im.lean`).
-/
namespace EqsigVerif.Model.Single3
open EqsigVerif EqsigVerif.Wire EqsigVerif.Np EqsigVerif.NpS EqsigVerif.NpV

/-! ### peaks -/

/-- `AccSignal.pgv` (cache miss): `im.calc_peak(self.velocity)`; the lazy velocity raises `ValueError` on an empty record -/
def pgv (values : List Rat) (dt : Rat) : Except ErrKind Rat := do
  let vd ← veloDispE values dt
  calcPeakE vd.1

/-- `AccSignal.pgd` (cache miss): `im.calc_peak(self.displacement)` -/
def pgd (values : List Rat) (dt : Rat) : Except ErrKind Rat := do
  let vd ← veloDispE values dt
  calcPeakE vd.2

/-- `AccSignal.generate_peak_values()`: deprecated, only warns; the record is unchanged and nothing is stored -/
def generatePeakValues (values : List Rat) : List Rat := values

/-! ### `generate_duration_stats` -/

/-- the constant `9.8` of `generate_duration_stats` (NOT `9.81`) -/
def gDur : Rat := 49 / 5

/-- one bracketed-duration block for the threshold `thr` (in g):
```
ind = np.where(abs_motion / 9.8 > thr);  time2 = time[ind]
try:    t_b = time2[-1] - time2[0];  a_rms = np.sqrt(1 / t_b * np.trapz(values[ind[0][0]:ind[0][-1]] ** 2, dx=dt))
except IndexError:  t_b = -1.;  a_rms = -1.
``` -/
def bracBlock (hasTrapz : Bool) (values : List Rat) (dt thr : Rat) : Except ErrKind (Rat × Root) :=
  let ind := whereIdx (fun t => decide (thr < t / gDur)) (absL values)
  let time2 := takeIdx (timeArr values.length dt) ind
  NpR.tryCatchE (do
      let t1 ← lastE time2
      let t0 ← headE time2
      let _ ← attrE hasTrapz
      let i0 ← headE ind
      let i1 ← lastE ind
      pure (t1 - t0, Root.sqrt (fmul (fdiv (some 1) (some (t1 - t0)))
        (some (Model.Im.trapz dt ((slice values i0 i1).map (fun t => t * t)))))))
    ErrKind.IndexError (pure (-1, Root.val (-1)))

/-- the public attributes stored by `generate_duration_stats` -/
structure DurationStats where
  t_b01 : Rat
  a_rms01 : Root
  t_b05 : Rat
  a_rms05 : Root
  t_b10 : Rat
  a_rms10 : Root
  sd_start : Rat
  sd_end : Rat
  t_595 : Rat
  deriving Repr, DecidableEq

/-- the attributes in the order of their first assignment -/
def DurationStats.toTuple (s : DurationStats) : Rat × Root × Rat × Root × Rat × Root × Rat × Rat × Rat :=
  (s.t_b01, s.a_rms01, s.t_b05, s.a_rms05, s.t_b10, s.a_rms10, s.sd_start, s.sd_end, s.t_595)

/-- the attributes from the tuple in the order of their first assignment -/
def DurationStats.ofTuple (t : Rat × Root × Rat × Root × Rat × Root × Rat × Rat × Rat) : DurationStats :=
  ⟨t.1, t.2.1, t.2.2.1, t.2.2.2.1, t.2.2.2.2.1, t.2.2.2.2.2.1, t.2.2.2.2.2.2.1, t.2.2.2.2.2.2.2.1, t.2.2.2.2.2.2.2.2⟩

/-- `AccSignal.generate_duration_stats()`: three bracketed blocks (0.01 g, 0.05 g, 0.10 g with g = 9.8), then
`sd_start, sd_end = im.calc_sig_dur_vals(self.values, self.dt, se=True)` (defaults 5 % – 95 %; its `IndexError` is NOT caught),
`t_595 = sd_end − sd_start` -/
def generateDurationStats (hasTrapz : Bool) (values : List Rat) (dt : Rat) : Except ErrKind DurationStats := do
  let b01 ← bracBlock hasTrapz values dt (1 / 100)
  let b05 ← bracBlock hasTrapz values dt (1 / 20)
  let b10 ← bracBlock hasTrapz values dt (1 / 10)
  let sd ← Model.Im.sigDurVals values dt (1 / 20) (19 / 20)
  pure ⟨b01.1, b01.2, b05.1, b05.2, b10.1, b10.2, sd.1, sd.2, sd.2 - sd.1⟩

/-! ### `generate_cumulative_stats` -/

/-- `AccSignal.generate_cumulative_stats()`: `(arias_intensity_series, arias_intensity, cav_series, cav)` with
`arias_intensity_series = im.calc_arias_intensity(self)` (`k = π/(2·9.81)` is a parameter), `cav_series = im.calc_cav(self)` and
their last entries; `ValueError` on an empty record (SciPy's `cumulative_trapezoid`) -/
def generateCumulativeStats (k : Rat) (values : List Rat) (dt : Rat) : Except ErrKind (List Rat × Rat × List Rat × Rat) := do
  let _ ← scipyNonemptyE values
  let ariasSeries := Model.Im.arias k dt values
  let ariasLast ← lastE ariasSeries
  let _ ← scipyNonemptyE values
  let cavSeries := Model.Im.cav dt values
  let cavLast ← lastE cavSeries
  pure (ariasSeries, ariasLast, cavSeries, cavLast)

/-! ### `fns/time_step.py`: `time_series_from_motion`, `interp_to_approx_dt` (object-level wrapper) -/

/-- `time_series_from_motion(motion, dt)` = `np.linspace(0, dt * (npts + 1), npts)` with `npts = len(motion)`.
NOTE: the spacing is `dt·(npts+1)/(npts−1)`, not `dt` (see `Props/C14GenObject.lean::time_series_step_ne_dt`) -/
def timeSeriesFromMotion (motion : List Rat) (dt : Rat) : List Rat :=
  linspace 0 (dt * ((motion.length + 1 : Nat) : Rat)) motion.length

/-- `interp_to_approx_dt(asig, target_dt, even)`: the `(values, dt)` handed to `eqsig.AccSignal(…)` — the array-level
`interp_array_to_approx_dt(asig.values, asig.dt, target_dt=target_dt, even=even)` with the decision on the exact quotient -/
def interpToApproxDtObject (values : List Rat) (dt target : Rat) (even : Bool) : Except ErrKind (List Rat × Rat) := do
  let r ← Model.TimeStep.interpArrayToApproxDt values dt target even
  pure (r.1, r.2)

/-- the same downstream of the factor decision (`factor` = the implementation's binary64 decision) -/
def interpToApproxDtObjectF (values : List Rat) (dt factor : Rat) (even : Bool) : Except ErrKind (List Rat × Rat) := do
  let r ← Model.TimeStep.interpToApproxDt values dt factor even
  pure (r.1, r.2)

/-! ### `fns/peaks_and_crossings.py`: `get_zero_and_peak_array_indices`, `get_major_change_indices` -/

/-- state of the loop of `get_zero_and_peak_array_indices`: `cc`, `new_ci`, `new_pi` -/
structure ZpState where
  cc : Int
  newCi : List Int
  newPi : List Int
  deriving Repr, DecidableEq

/-- one iteration `i` of `for i in range(1, len(ci))`; the Boolean is `break`.  `peak_indices[i - 1 - cc]` / `peak_indices[i - cc]` are Python
subscripts: a NEGATIVE position wraps around, a position `≥ len` raises `IndexError` -/
def zpStep (pk ci : List Int) (minStep : Int) (s : ZpState) (i : Nat) : Except ErrKind (Bool × ZpState) :=
  if (i : Int) - s.cc + 1 = (pk.length : Int) then .ok (true, s)
  else do
    let p0 ← NpR.pyGetE pk ((i : Int) - 1 - s.cc)
    let p1 ← NpR.pyGetE pk ((i : Int) - s.cc)
    let c ← NpR.pyGetE ci (i : Int)
    if p1 - minStep ≤ c then .ok (false, { s with cc := s.cc - 1 })
    else if p0 = c then .ok (false, s)
    else if p0 < c ∧ c < p1 then do
      let nci := s.newCi ++ [c]
      let npi := s.newPi ++ [p1]
      -- `if len(new_pi) > 1: assert new_pi[-2] < new_ci[-1]`
      let _ ← (match s.newPi.getLast? with
        | some q => NpE.assertE (decide (q < c))
        | none => .ok ())
      -- `assert new_pi[-1] > new_ci[-1]`
      let _ ← NpE.assertE (decide (c < p1))
      .ok (false, { s with newCi := nci, newPi := npi })
    else .ok (false, { s with cc := s.cc + 1 })

/-- the `for` loop with its `break` -/
def zpLoop (pk ci : List Int) (minStep : Int) : List Nat → ZpState → Except ErrKind ZpState
  | [], s => .ok s
  | i :: is, s => do
    let r ← zpStep pk ci minStep s i
    if r.1 then .ok r.2 else zpLoop pk ci minStep is r.2

/-- after the loop: fewer than two pairs → `([], [])`; else the four `assert`s (`min(x) > 0` / `max(x) < 0` of a non-empty array as "all entries") -/
def zpFinish (ci piz : List Int) : Except ErrKind (List Int × List Int) :=
  if ci.length < 2 then .ok ([], [])
  else do
    let _ ← NpE.assertE ((List.zipWith (· - ·) piz ci).all (fun d => decide (0 < d)))
    let _ ← NpE.assertE ((List.zipWith (· - ·) piz.dropLast (ci.drop 1)).all (fun d => decide (d < 0)))
    let _ ← NpE.assertE ((Np.diff piz).all (fun d => decide (0 < d)))
    let _ ← NpE.assertE ((Np.diff ci).all (fun d => decide (0 < d)))
    .ok (ci, piz)

/-- everything after the two callees: `peak_indices`, `ci` are given -/
def zeroPeakCore (pk ci : List Int) (minStep : Int) : Except ErrKind (List Int × List Int) := do
  let s ← zpLoop pk ci minStep (List.range' 1 (ci.length - 1)) ⟨0, [], []⟩
  zpFinish s.newCi s.newPi

/-- `get_zero_and_peak_array_indices(pvals, zvals=None, min_step=0)`: `(ci, piz)`; the callees are the C12 models
`get_switched_peak_array_indices(pvals)` and `get_zero_crossings_array_indices(zvals)` (defaults `tol=0`, `keep_adj_zeros=False`) -/
def getZeroAndPeakArrayIndices (pvals : List Rat) (zvals : Option (List Rat)) (minStep : Int) : Except ErrKind (List Int × List Int) := do
  let z := match zvals with | none => pvals | some z => z
  let pk ← Model.Switched.switchedPeaksOutE pvals 0   -- the public function (loop, then np.unique: fix 95bbcf0)
  let ci ← Model.Switched.zeroCrossingsE z false 0
  zeroPeakCore (pk.map Int.ofNat) (ci.map Int.ofNat) minStep

/-- the `while z_cur + i < npts - 1` loop of `get_major_change_indices` (`fuel` ≥ number of iterations; `z_cur + i` grows every iteration):
the indices appended to `inds` -/
def majorLoop (dydx : List Rat) (rtol atol : Rat) : Nat → Nat → Nat → List Nat
  | 0, _, _ => []
  | fuel + 1, zCur, i =>
    if zCur + i + 1 < dydx.length then
      let endZ := zCur + i
      let av := NpR.meanT (Np.slice dydx zCur endZ)
      if isclose av (dydx.getD (endZ + 1) 0) rtol atol then majorLoop dydx rtol atol fuel zCur (i + 1)
      else endZ :: majorLoop dydx rtol atol fuel (endZ + 1) 1
    else []

/-- `dydx` of `get_major_change_indices`: `y` itself (`already_diff`) or `np.diff(y, prepend=y[0]) / dx` (`y[0]`: `IndexError` on an empty array;
`dx = 0` gives a `nan/inf` array without an exception: tag `ZeroDivisionError`) -/
def majorDydx (y : List Rat) (alreadyDiff : Bool) (dx : Rat) : Except ErrKind (List Rat) :=
  if alreadyDiff then .ok y
  else match y with
    | [] => .error .IndexError
    | y0 :: _ => if dx = 0 then .error .ZeroDivisionError else .ok ((Np.diffFrom y0 y).map (· / dx))

/-- `get_major_change_indices(y, rtol, atol, already_diff, dx)`: `[0] + loop + [npts − 1]` (for `npts = 0` the last entry is `−1`) -/
def getMajorChangeIndices (y : List Rat) (rtol atol : Rat) (alreadyDiff : Bool) (dx : Rat) : Except ErrKind (List Int) := do
  let dydx ← majorDydx y alreadyDiff dx
  .ok ((0 : Int) :: (majorLoop dydx rtol atol dydx.length 0 1).map Int.ofNat ++ [(dydx.length : Int) - 1])

/-! ### `multiple.py`: `Cluster.values_by_index`, `combine_motions`, `calculate_ratios` -/

/-- `Cluster.values_by_index(index)` = `list(self.signals.items())[index][1].values`: `signals` = the records of the cluster in order; Python
subscript (negative wraps, `IndexError` out of range) -/
def valuesByIndex (signals : List (List Rat)) (index : Int) : Except ErrKind (List Rat) := NpR.pyGetE signals index

/-- position of a Python subscript in a list of length `n` (`none`: `IndexError`) -/
def pyPos (n : Nat) (i : Int) : Option Nat :=
  let j : Int := if i < 0 then i + n else i
  if j < 0 then none else if j.toNat < n then some j.toNat else none

/-- `a + b` of two NumPy arrays: equal lengths entry-wise, a length-1 array is broadcast, otherwise `ValueError` -/
def addBroadcastE (a b : List Rat) : Except ErrKind (List Rat) :=
  if a.length = b.length then .ok (Np.addL a b)
  else match a, b with
    | [x], _ => .ok (b.map (x + ·))
    | _, [y] => .ok (a.map (· + y))
    | _, _ => .error .ValueError

/-- `Cluster.combine_motions(f_ch, low_index, high_index, **kwargs)`: `hp` / `lp` are `butter_pass(cut_off=(f_ch, None), …)` /
`butter_pass(cut_off=(None, f_ch), …)` as functions record ↦ new record.  The HIGH-index signal is filtered first, IN PLACE, then the low-index
one (for `low_index = high_index` the same record is filtered twice); result: `(motion, the cluster's records after the call)` -/
def combineMotions (hp lp : List Rat → Except ErrKind (List Rat)) (signals : List (List Rat)) (lowIndex highIndex : Int) :
    Except ErrKind (List Rat × List (List Rat)) := do
  let h ← NpR.pyGetE signals highIndex
  let h' ← hp h
  let s1 := match pyPos signals.length highIndex with | some k => signals.set k h' | none => signals
  let l ← NpR.pyGetE s1 lowIndex
  let l' ← lp l
  let s2 := match pyPos s1.length lowIndex with | some k => s1.set k l' | none => s1
  let lv ← NpR.pyGetE s2 lowIndex
  let hv ← NpR.pyGetE s2 highIndex
  let motion ← addBroadcastE lv hv
  .ok (motion, s2)

/-- `Cluster.calculate_ratios()`: after `generate_response_spectrums()` (its outcome is the parameter: a `Signal` of stype `"custom"` has no
`generate_response_spectrum` → `AttributeError`) the method evaluates `self.motions(1)` — `Cluster` has no attribute `motions` → `AttributeError`.
The method can never return. -/
def calculateRatios (spectra : Except ErrKind Unit) : Except ErrKind Unit := do
  let _ ← spectra
  .error .AttributeError

end EqsigVerif.Model.Single3
