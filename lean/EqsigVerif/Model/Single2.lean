import EqsigVerif.Prelude.NpS
import EqsigVerif.Model.Single
/-!
# Model of the arithmetic of the in-place mutators of `eqsig/single.py::AccSignal` (hand model, Mathlib-free, exact rationals)

`rebase_displacement`, `set_zero_residual_velocity`, `set_zero_residual_displacement`, `set_zero_residual_displacement_and_velocity`
(with the optional `timezone` argument), `correct_me`, `remove_rolling_average`.

Every function returns the NEW record (`self.values` after the call; the cache effects are the subject of C04/C05, `Gen/CacheTable`).
`self.velocity` / `self.displacement` are the C08 model (`Model/Displacements.lean`, `trap=True`); they are read BEFORE the record is
changed.  Errors: the Python exception kind; a record that would contain `nan`/`inf` (NumPy's non-raising division by zero) is
`.error .ZeroDivisionError` (same tag as `Model/Single.lean`).

`timezone`: `none` = the default `None`; `some (t0, none)` = `(t0, None)`; `some (t0, some t1)` = `(t0, t1)` (Python floats).
-/
namespace EqsigVerif.Model.Single2
open EqsigVerif EqsigVerif.Wire EqsigVerif.NpS

/-- the `timezone` argument -/
abbrev Timezone := Option (Rat × Option Rat)

/-! ### `rebase_displacement` -/

/-- `acceleration_correction = 2 * end_disp / (self.dt * self.npts)` -/
def rebaseCorrection (endDisp dt : Rat) (n : Nat) : Fl :=
  fdiv (fmul (some 2) (some endDisp)) (some (dt * (n : Rat)))

/-- `AccSignal.rebase_displacement()`: `self._values -= 2 * self.displacement[-1] / (self.dt * self.npts)` -/
def rebaseDisplacement (values : List Rat) (dt : Rat) : Except ErrKind (List Rat) := do
  let vd ← veloDispE values dt
  let endDisp ← lastE vd.2
  isubScalarE values none none (rebaseCorrection endDisp dt values.length)

/-! ### `set_zero_residual_velocity` -/

/-- `delta_acc = post_vel / self.dt / nsteps` -/
def velDelta (postVel dt : Rat) (nsteps : Int) : Fl :=
  fdiv (fdiv (some postVel) (some dt)) (some (nsteps : Rat))

/-- `nsteps - 1 = int(abs(post_vel) / (self.pga * self.dt / 100))` of the default branch -/
def defaultStepsE (postVel pga dt : Rat) : Except ErrKind Int :=
  intNpDivE (Np.absv postVel) (pga * dt / 100)

/-- `set_zero_residual_velocity` once `nsteps` and the slice are known: `vals[si:ei] -= post_vel / self.dt / nsteps` -/
def zeroVelWith (values : List Rat) (dt postVel : Rat) (si ei : Option Int) (nsteps : Int) : Except ErrKind (List Rat) :=
  isubScalarE values si ei (velDelta postVel dt nsteps)

/-- `AccSignal.set_zero_residual_velocity(timezone)` -/
def setZeroResidualVelocity (values : List Rat) (dt : Rat) (timezone : Timezone) : Except ErrKind (List Rat) :=
  match timezone with
  | none => do
    let vd ← veloDispE values dt
    let postVel ← lastE vd.1
    let pga ← pgaE values
    let k ← defaultStepsE postVel pga dt
    zeroVelWith values dt postVel (some (-(k + 1))) none (k + 1)
  | some (t0, none) => do
    let vd ← veloDispE values dt
    let postVel ← lastE vd.1
    let si ← intPyDivE t0 dt
    zeroVelWith values dt postVel (some si) none ((values.length : Int) - si)
  | some (t0, some t1) => do
    let vd ← veloDispE values dt
    let postVel ← lastE vd.1
    let si ← intPyDivE t0 dt
    let ei ← intPyDivE t1 dt
    zeroVelWith values dt postVel (some si) (some ei) (ei - si)

/-! ### `set_zero_residual_displacement` -/

/-- `delta_acc = post_disp * 2 / ttime ** 2` -/
def dispDelta (postDisp ttime : Rat) : Fl :=
  fdiv (fmul (some postDisp) (some 2)) (some (ttime ^ 2))

/-- `AccSignal.set_zero_residual_displacement(timezone)`: any `timezone` other than `None` raises `ValueError('Not supported')` -/
def setZeroResidualDisplacement (values : List Rat) (dt : Rat) (timezone : Timezone) : Except ErrKind (List Rat) :=
  match timezone with
  | some _ => .error .ValueError
  | none => do
    let ttime ← lastE (timeArr values.length dt)
    let vd ← veloDispE values dt
    let postDisp ← lastE vd.2
    isubScalarE values none none (dispDelta postDisp ttime)

/-! ### `set_zero_residual_displacement_and_velocity` -/

/-- `b = (-2*pdisp + pvel*ttime)/ttime**3` -/
def cubicB (pdisp pvel ttime : Rat) : Fl :=
  fdiv (some (-2 * pdisp + pvel * ttime)) (some (ttime ^ 3))

/-- `a = (pdisp - b * ttime ** 3) / ttime ** 2` -/
def cubicA (pdisp ttime : Rat) (b : Fl) : Fl :=
  fdiv (fsub (some pdisp) (fmul b (some (ttime ^ 3)))) (some (ttime ^ 2))

/-- `delta_acc = 2 * a + 6 * b * tincs` -/
def cubicDelta (a b : Fl) (tincs : List Rat) : List Fl :=
  tincs.map (fun t => fadd (fmul (some 2) a) (fmul (fmul (some 6) b) (some t)))

/-- the common end of the three branches: `a`, `b`, `vals[si:ei] -= 2 * a + 6 * b * tincs` -/
def zeroDispVelWith (values : List Rat) (pdisp pvel ttime : Rat) (si ei : Option Int) (tincs : List Rat) :
    Except ErrKind (List Rat) :=
  let b := cubicB pdisp pvel ttime
  let a := cubicA pdisp ttime b
  isubArrayE values si ei (cubicDelta a b tincs)

/-- `AccSignal.set_zero_residual_displacement_and_velocity(timezone)` -/
def setZeroResidualDisplacementAndVelocity (values : List Rat) (dt : Rat) (timezone : Timezone) : Except ErrKind (List Rat) :=
  match timezone with
  | none => do
    let vd ← veloDispE values dt
    let pdisp ← lastE vd.2
    let pvel ← lastE vd.1
    let ttime ← lastE (timeArr values.length dt)
    zeroDispVelWith values pdisp pvel ttime none none (timeArr values.length dt)
  | some (t0, none) => do
    let vd ← veloDispE values dt
    let pdisp ← lastE vd.2
    let pvel ← lastE vd.1
    let si ← intPyDivE t0 dt
    let tEnd ← lastE (timeArr values.length dt)
    let tincs := sliceO (timeArr values.length dt) (some si) none
    let t00 ← headE tincs
    zeroDispVelWith values pdisp pvel (tEnd - t0) (some si) none (tincs.map (· - t00))
  | some (t0, some t1) => do
    let vd ← veloDispE values dt
    let pdisp ← lastE vd.2
    let _pvel ← lastE vd.1
    let si ← intPyDivE t0 dt
    let ei ← intPyDivE t1 dt
    let tincs := sliceO (sliceO (timeArr values.length dt) none (some ei)) (some si) none
    let t00 ← headE tincs
    zeroDispVelWith values pdisp 0 (t1 - t0) (some si) (some ei) (tincs.map (· - t00))

/-! ### `correct_me` -/

/-- `AccSignal.correct_me()`; `detrend` stands for `scipy.signal.detrend` (removal of the least-squares line; length preserving) -/
def correctMe (detrend : List Rat → List Rat) (values : List Rat) (dt : Rat) : Except ErrKind (List Rat) := do
  let vd ← veloDispE values dt
  let disp := detrend vd.2
  let vel := diffQuot (disp.map some) dt
  let acc := diffQuot vel dt
  finiteE (fillTo acc 10 (fmean (acc.take 10)))

/-! ### `remove_rolling_average` -/

/-- value of `mtype`: `"velocity"` or anything else -/
inductive MType | velocity | other
  deriving Repr, DecidableEq, Inhabited

/-- `width = int(1. / (freq_window * self.dt))`, `if width < 1: raise ValueError` -/
def rollWidthE (freqWindow dt : Rat) : Except ErrKind Nat := do
  let w ← intPyDivE 1 (freqWindow * dt)
  if w < 1 then .error .ValueError else .ok w.toNat

/-- `roll`: the loop of `remove_rolling_average` — the same window rule as `Signal.running_average` (`Model.Single.runningAverageAt`),
written into a SEPARATE buffer (`np.zeros_like(mot)`), reading `mot` only -/
def rollOf (mot : List Rat) (width : Nat) : List Rat :=
  (List.range mot.length).map (Model.Single.runningAverageAt mot width)

/-- `AccSignal.remove_rolling_average(mtype, freq_window)` -/
def removeRollingAverage (values : List Rat) (dt : Rat) (mtype : MType) (freqWindow : Rat) : Except ErrKind (List Rat) :=
  match mtype with
  | .velocity => do
    let vd ← veloDispE values dt
    let width ← rollWidthE freqWindow dt
    let velocity := Np.subL vd.1 (rollOf vd.1 width)
    let v0 ← headE velocity
    finiteE ((fdiv (some v0) (some dt)) :: (Np.diff velocity).map (fun x => fdiv (some x) (some dt)))
  | .other => do
    let width ← rollWidthE freqWindow dt
    .ok (Np.subL values (rollOf values width))

end EqsigVerif.Model.Single2
