import EqsigVerif.Model.Fns
import EqsigVerif.Spec.Fns
/-!
# Specification vocabulary for the `dir` rule of the step fit (C20.d/e), Mathlib-free
-/
namespace EqsigVerif.Spec.FnsDir
open EqsigVerif.Model.Fns EqsigVerif.Spec.Fns

/-- split sample `k` is *excluded* by `dir`: the code compares `pre_mean[k]` (mean of samples `0..k`) with
`post_mean[k]` (mean of samples `k..n−1`) — BOTH groups contain the split sample `k` —
`'down'` excludes `pre < post`, `'up'` excludes `pre > post`, `None` (any other value) excludes nothing. -/
def DirExcluded (d : Dir) (values : List Rat) (k : Nat) : Prop :=
  match d with
  | .none => False
  | .down => mean (values.take (k + 1)) < mean (values.drop k)
  | .up => mean (values.take (k + 1)) > mean (values.drop k)

instance (d : Dir) (values : List Rat) (k : Nat) : Decidable (DirExcluded d values k) := by
  unfold DirExcluded; cases d <;> infer_instance

/-- the split the caller obtains with `np.argmin(calc_step_fn_vals_error(values, pow, dir))` -/
def dirSplit (values : List Rat) (pow : Nat) (d : Dir) : Except EqsigVerif.Wire.ErrKind Nat :=
  match stepErr values pow d with
  | .error e => .error e
  | .ok err => .ok (EqsigVerif.Np.argmin err)

end EqsigVerif.Spec.FnsDir
