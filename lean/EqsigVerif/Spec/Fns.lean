import EqsigVerif.Prelude.Np
import EqsigVerif.Model.Fns
/-!
# Specifications for C20.a–e in the vocabulary of the property statement (Mathlib-free)
-/
namespace EqsigVerif.Spec.Fns

/-- `j` is the greatest node index with `x[j] ≤ q` ("left interpolation" takes the value there) -/
def IsLeftNode (x : List Rat) (q : Rat) (j : Nat) : Prop :=
  ∃ hj : j < x.length, x[j] ≤ q ∧ ∀ j' (hj' : j' < x.length), x[j'] ≤ q → j' ≤ j

/-- the edge-replicated series: `values[clamp(k, 0, n-1)]` for any integer position `k` -/
def edgeExt (values : List Rat) (k : Int) : Rat :=
  values.getD (if k < 0 then 0 else if k > (values.length : Int) - 1 then values.length - 1 else k.toNat) 0

/-- mean of `values` (edge-replicated) over the window of `steps` samples starting at integer position `a` -/
def windowMean (values : List Rat) (steps : Nat) (a : Int) : Rat :=
  ((List.range steps).map (fun (j : Nat) => edgeExt values (a + (j : Int)))).sum / (steps : Rat)

/-- position of the current sample inside its window: `'forward'` start, `'backward'` end, `'centre'` ⌊steps/2⌋ -/
def windowOffset (steps : Nat) : EqsigVerif.Model.Fns.Mode → Nat
  | .forward => 0
  | .backward => steps - 1
  | .centre => steps / 2

/-- what `interp_left` returns for the node index `j`: `y[j]`, or `j` itself for `y = None` -/
def leftVal (y : Option (List Rat)) (j : Nat) (v : Rat) : Prop :=
  match y with
  | some yv => yv[j]? = some v
  | none => v = (j : Rat)

/-- mean of a non-empty list -/
def mean (l : List Rat) : Rat := l.sum / (l.length : Rat)

/-- `Σ_i |v_i − m|^p` -/
def sumAbsDev (l : List Rat) (m : Rat) (p : Nat) : Rat :=
  (l.map (fun v => (if v - m < 0 then -(v - m) else v - m) ^ p)).sum

/-- error of fitting the two-level step function that switches after sample `k`
(samples `0..k` at their own mean, samples `k+1..` at their own mean) -/
def stepFitErr (values : List Rat) (p : Nat) (k : Nat) : Rat :=
  sumAbsDev (values.take (k + 1)) (mean (values.take (k + 1))) p
    + sumAbsDev (values.drop (k + 1)) (mean (values.drop (k + 1))) p

/-- column-wise linear interpolation between two table rows with weight `s` on the second -/
def lerpRow (s : Rat) (r0 r1 : List Rat) : List Rat :=
  List.zipWith (fun a b => (1 - s) * a + s * b) r0 r1

/-- `R` is the table `f` over the nodes `xf`, interpolated linearly column by column at `x`, clamped to the first /
last row outside the node range. (`f` has at least as many rows as there are nodes.) -/
def IsClampedLerp (xf : List Rat) (f : List (List Rat)) (hf : xf.length ≤ f.length) (x : Rat) (R : List Rat) : Prop :=
  (∃ h0 : 0 < xf.length, x ≤ xf[0] ∧ R = f[0]'(by omega)) ∨
  (∃ h0 : 0 < xf.length, xf[xf.length - 1]'(by omega) ≤ x ∧ R = f[xf.length - 1]'(by omega)) ∨
  (∃ i, ∃ hi : i + 1 < xf.length, xf[i]'(by omega) ≤ x ∧ x ≤ xf[i+1] ∧
      R = lerpRow ((x - xf[i]'(by omega)) / (xf[i+1] - xf[i]'(by omega))) (f[i]'(by omega)) (f[i+1]'(by omega)))

/-- strictly increasing nodes with gaps larger than the `1e-10` guard of `interp2d` -/
def GapNodes (xf : List Rat) : Prop :=
  ∀ i (h : i + 1 < xf.length), xf[i] + EqsigVerif.Model.Fns.tol < xf[i+1]

end EqsigVerif.Spec.Fns
