import EqsigVerif.Model.Switched
/-!
# A checkable condition under which `tol > 0` switched peaks are a subsequence of the `tol = 0` ones (Mathlib-free)

Both runs of the loop of `get_switched_peak_array_indices` (with `tol` and with `0`) are followed over the peak values; the
condition is that every set-closing decision of the `tol` run is also one of the `tol = 0` run.
-/
namespace EqsigVerif.Spec.SwitchedTol
open EqsigVerif EqsigVerif.Model.Switched

/-- the loop's test `adj_val * last <= 0` with `adj_val = peak_values[i] + tol * np.sign(last)` -/
def splits (tol last pv : Rat) : Bool := decide ((pv + tol * sgn last) * last ≤ 0)

/-- follow both runs (`lastT` / `last0` are the reference values `last` of the open sets): every split of the `tol` run
is a split of the `tol = 0` run -/
def inclAux (tol : Rat) (lastT last0 : Rat) : List Rat → Bool
  | [] => true
  | pv :: rest =>
    (!splits tol lastT pv || splits 0 last0 pv) &&
      inclAux tol (if splits tol lastT pv then pv else lastT) (if splits 0 last0 pv then pv else last0) rest

/-- the peak values `np.take(values, get_peak_array_indices(values))` -/
def peakValues (v : List Rat) : List Rat := (Model.Peaks.peaks v).map (fun p => v.getD p 0)

/-- **checkable condition 1**: the set boundaries of the `tol` run are set boundaries of the `tol = 0` run -/
def tolSplitsIncluded (v : List Rat) (tol : Rat) : Bool :=
  match peakValues v with
  | [] => true
  | p0 :: rest => inclAux tol p0 p0 rest

/-- **checkable condition 2** (implies 1, gives equality): every peak value after the first reaches `tol` in modulus -/
def allPeaksReachTol (v : List Rat) (tol : Rat) : Bool :=
  (peakValues v).tail.all (fun pv => decide (tol ≤ Np.absv pv))

/-- the local test on consecutive peak values `prev, pv, …`: a peak that reaches `tol` and has the strict sign of its
predecessor is preceded by a peak that reaches `tol` too -/
def localFrom (tol prev : Rat) : List Rat → Bool
  | [] => true
  | pv :: rest =>
    (!(decide (0 < prev * pv) && decide (tol ≤ Np.absv pv)) || decide (tol ≤ Np.absv prev)) && localFrom tol pv rest

/-- **checkable condition 3** (implies 1): within every run of consecutive peaks of one strict sign (the peaks of one
excursion), the first peak reaches `tol` whenever any peak of the run does — stated locally on neighbours -/
def firstPeakReachesTol (v : List Rat) (tol : Rat) : Bool :=
  match peakValues v with
  | [] => true
  | p0 :: rest => localFrom tol p0 rest

end EqsigVerif.Spec.SwitchedTol
