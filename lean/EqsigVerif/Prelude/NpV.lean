import EqsigVerif.Prelude.NpS
import EqsigVerif.Model.Im
/-!
# NumPy / SciPy / Python primitives used by `tools/py2lean_x_single3.py` (Mathlib-free, exact rationals)

Additions to `Prelude/NpS.lean` for the object-level statistics of `AccSignal` (`pgv`, `pgd`, `generate_duration_stats`,
`generate_cumulative_stats`), the object-level wrappers of `fns/time_step.py`, the index loops of `fns/peaks_and_crossings.py`
and `Cluster` of `multiple.py`.  Each definition names the Python expression it stands for and has a tiny example.
(Assumed = NumPy/Python behaviour; validated by the correspondence runs of `corr_single3`.)
-/
namespace EqsigVerif.NpV
open EqsigVerif EqsigVerif.Wire EqsigVerif.NpS

/-- a float that is either a finite value or `np.sqrt(r)` of a possibly non-finite float `r` (kept symbolic: `ℚ` has no square
roots; `np.sqrt(nan) = nan`, no exception).  `Root.val (-1)` is the literal `-1.`; `Root.sqrt (some 4)` is `2.0` -/
inductive Root
  | val (q : Rat)
  | sqrt (radicand : Fl)
  deriving Repr, DecidableEq, Inhabited

/-- attribute lookup `np.<name>` of a NumPy function that may be absent from the installed NumPy (`np.trapz` was removed in
NumPy 2.4): `AttributeError` when absent.  `attrE false = .error .AttributeError` -/
def attrE (present : Bool) : Except ErrKind Unit := if present then .ok () else .error .AttributeError

/-- `scipy.integrate.cumulative_trapezoid(y, …)` raises `ValueError` ("At least one point is required") on an empty array -/
def scipyNonemptyE (y : List Rat) : Except ErrKind Unit :=
  match y with
  | [] => .error .ValueError
  | _ :: _ => .ok ()

/-- `im.calc_peak(x) = max(abs(min(x)), max(x))`: `ValueError` on an empty series.  `calcPeakE [1, -3] = .ok 3` -/
def calcPeakE (x : List Rat) : Except ErrKind Rat :=
  match Model.Displacements.calcPeak? x with
  | some p => .ok p
  | none => .error .ValueError

/-- `np.linspace(a, b, n)` (endpoint included) in exact arithmetic: `a + i·(b − a)/(n − 1)`; `n = 1` gives `[a]`, `n = 0` gives `[]`.
`linspace 0 3 4 = [0, 1, 2, 3]` -/
def linspace (a b : Rat) (n : Nat) : List Rat :=
  (List.range n).map (fun (i : Nat) => if n ≤ 1 then a else a + (i : Rat) * ((b - a) / (((n - 1 : Nat) : Nat) : Rat)))

/-- `np.isclose(a, b, rtol, atol)` for finite floats: `|a − b| ≤ atol + rtol·|b|` -/
def isclose (a b rtol atol : Rat) : Bool := decide (Np.absv (a - b) ≤ atol + rtol * Np.absv b)

end EqsigVerif.NpV
