import EqsigVerif.Prelude.Np
import EqsigVerif.Prelude.Wire
/-!
# NumPy / Python primitives used by `tools/py2lean_x_spec2.py` (Mathlib-free)

Primitives of the response-spectrum leftovers of C03 that are neither in `Prelude/Np.lean` nor in `Prelude/NpE.lean` / `NpR.lean`.
Each definition names the NumPy / Python expression it stands for and has a tiny example.
(They are *assumed* to be the NumPy behaviour, like `Prelude/Np.lean`; differential test: handlers `nps.*` of `Handlers/Spec2.lean`.)
-/
namespace EqsigVerif.NpT
open EqsigVerif EqsigVerif.Wire

variable {α : Type}

/-- `l[k]` for a literal index `k ≥ 0` (`IndexError` when `k ≥ len(l)`).  `pyAt [5, 6] 1 = .ok 6`, `pyAt [5, 6] 2 = .error .IndexError` -/
def pyAt (l : List α) (k : Nat) : Except ErrKind α :=
  match l[k]? with
  | some v => .ok v
  | none => .error .IndexError

section Max
variable [LT α] [DecidableLT α]

/-- tail of `np.maximum.accumulate(l)` from a running maximum -/
def cummaxFrom (m : α) : List α → List α
  | [] => []
  | x :: xs => Np.max2 m x :: cummaxFrom (Np.max2 m x) xs

/-- `np.maximum.accumulate(l)` (running maximum of the SIGNED entries).  `cummax [1, -2, 3, 2] = [1, 1, 3, 3]` -/
def cummax : List α → List α
  | [] => []
  | x :: xs => x :: cummaxFrom x xs

end Max

section Trapz
variable [Add α] [Div α] [OfNat α 0] [OfNat α 2]

/-- `np.trapz(M, axis=0)` continued: `acc` = the sums so far, `prev` = the previous row -/
def trapzAxis0From (acc prev : List α) : List (List α) → List α
  | [] => acc
  | r :: rs => trapzAxis0From (List.zipWith (· + ·) acc (List.zipWith (fun y p => (y + p) / 2) r prev)) r rs

/-- `np.trapz(M, axis=0)` (unit spacing) of a 2-D array given by its rows: entry `k` is `Σ_j (M[j+1][k] + M[j][k]) / 2`;
one row gives zeros.  `trapzAxis0 [[1, 2], [3, 6], [5, 0]] = [6, 7]` -/
def trapzAxis0 : List (List α) → List α
  | [] => []
  | r :: rs => trapzAxis0From (r.map (fun _ => 0)) r rs

end Trapz

section AddFrom
variable [Add α]

/-- `base[i:] += v` for `len(v) = len(base) - i` (any other length is a broadcast `ValueError` in NumPy; callers guarantee it).
`addFrom 1 [1, 2, 3] [10, 20] = [1, 12, 23]` -/
def addFrom (i : Nat) (base v : List α) : List α := base.take i ++ List.zipWith (· + ·) (base.drop i) v

end AddFrom

end EqsigVerif.NpT
