import EqsigVerif.Prelude.Np
import EqsigVerif.Prelude.Wire
import EqsigVerif.Prelude.Cplx
import EqsigVerif.Prelude.NpE
/-!
# NumPy primitives used by the Fourier-moment / smoothing-frequency code (Mathlib-free) — targets of `tools/py2lean_x_freq2.py`

Each definition states the NumPy expression it stands for and which exception it reproduces.  They are *assumed* to be the NumPy
behaviour (like `Prelude/Np.lean`, `Prelude/NpE.lean`) and are differentially tested by `harness/prelude_check_freq2.py`.
-/
namespace EqsigVerif.NpF
open EqsigVerif EqsigVerif.Wire EqsigVerif.Cplx

/-- `x ** n` for a Python integer `n ≥ 0` on a float (array entry): `np.power(x, 0) = 1` (also for `x = 0`), otherwise the `n`-fold
product (the order of the multiplications is not observable in exact arithmetic; in binary64 NumPy uses `x*x` for `n = 2` and libm
`pow` beyond, a rounding-level difference) -/
def powN {α : Type} [Mul α] [OfNat α 1] (x : α) : Nat → α
  | 0 => 1
  | n + 1 => powN x n * x

/-- attribute lookup `np.<name>` of a function that exists in some NumPy versions only (`np.trapz`: removed in NumPy 2.4):
`AttributeError` when the installed NumPy does not have it.  The lookup happens before the arguments are evaluated. -/
def attrE (present : Bool) : Except ErrKind Unit := if present then .ok () else .error .AttributeError

section Broadcast
variable {γ δ ε : Type}

/-- NumPy's element-wise binary operation on two 1-D arrays with broadcasting: equal lengths → entry by entry; one operand of
length 1 → that entry against every entry of the other; otherwise `ValueError` ("operands could not be broadcast together") -/
def zipBE (f : γ → δ → ε) (a : List γ) (b : List δ) : Except ErrKind (List ε) :=
  if a.length = b.length then .ok (List.zipWith f a b)
  else match a, b with
    | [a0], _ => .ok (b.map (f a0))
    | _, [b0] => .ok (a.map (fun x => f x b0))
    | _, _ => .error .ValueError

end Broadcast

section Trapz
variable {γ : Type} [Add γ] [Sub γ] [Mul γ] [Div γ] [OfNat γ 0]

/-- the panel terms of `np.trapz(y, x=x)` for arrays of equal length: `diff(x) * (y[1:] + y[:-1]) / 2.0`; `two` is `2.0` -/
def panels (two : γ) (y x : List γ) : List γ :=
  List.zipWith (fun d s => d * s / two) (List.zipWith (fun b a => b - a) (x.drop 1) x) (List.zipWith (fun b a => b + a) (y.drop 1) y)

/-- `np.trapz(y, x=x)` (= `np.trapezoid`) of 1-D arrays: `d = np.diff(x)`, `(d * (y[1:] + y[:-1]) / 2.0).sum()`;
the product broadcasts (`ValueError` for incompatible lengths).  `two` is the constant `2.0` in the number type. -/
def trapzE (two : γ) (y x : List γ) : Except ErrKind γ :=
  match zipBE (fun d s => d * s / two) (List.zipWith (fun b a => b - a) (x.drop 1) x)
      (List.zipWith (fun b a => b + a) (y.drop 1) y) with
  | .error e => .error e
  | .ok t => .ok (sumL t)

end Trapz

section Take
variable {γ : Type}

/-- `np.take(x, idx)` for non-negative indices: `IndexError` when one is out of range -/
def takeE (x : List γ) (idx : List Nat) : Except ErrKind (List γ) := idx.mapM (NpE.getE x)

end Take

section Spaces
variable {α : Type} [Add α] [Sub α] [Mul α] [Div α] [NatCast α] [BEq α] [OfNat α 0]

/-- `np.linspace(start, stop, num)` (`endpoint=True`) for a non-negative integer `num`, following `numpy/_core/function_base.py`:
`y = arange(num)`; `delta = stop - start`; `div = num - 1`; for `div > 0`: `step = delta / div` and `y = y * step`
(or, when `step == 0`, `y = (y / div) * delta`); for `div = 0` (`num ≤ 1`): `y = y * delta`; then `y += start` and, for `num > 1`,
`y[-1] = stop`. -/
def linspace (start stop : α) (num : Nat) : List α :=
  let delta := stop - start
  let div := num - 1
  let y : List α := (List.range num).map (fun (i : Nat) => ((i : Nat) : α))
  let y1 : List α :=
    if div = 0 then y.map (fun v => v * delta)
    else if delta / ((div : Nat) : α) == 0 then (y.map (fun v => v / ((div : Nat) : α))).map (fun v => v * delta)
    else y.map (fun v => v * (delta / ((div : Nat) : α)))
  let y2 := y1.map (fun v => v + start)
  if num > 1 then y2.take (num - 1) ++ [stop] else y2

/-- `np.logspace(start, stop, num, base=10)` = `np.power(10, np.linspace(start, stop, num))`; `pow10 y` stands for `10.0 ** y` -/
def logspace (pow10 : α → α) (start stop : α) (num : Nat) : List α := (linspace start stop num).map pow10

end Spaces

end EqsigVerif.NpF
