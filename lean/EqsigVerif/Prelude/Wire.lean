/-!
# Line protocol between the Python harness and the Lean driver (Mathlib-free)

request : `<fn>|<arg>|<arg>|…`   each `<arg>` is a space separated list of tokens
response: `ok|<out>|<out>|…`     or  `err|<ErrKind>`  (model-level Python exception kind)
                                  or  `bad|<message>` (protocol error: unknown fn / unparsable token)

Numbers are exact: rationals travel as `n/d` or `n`, naturals/integers as decimal literals,
floats for the `Float` twins as the decimal rendering of their 64-bit pattern (`b<uint64>`).
-/
namespace EqsigVerif.Wire

/-- Python exception kinds the models reproduce. -/
inductive ErrKind
  | IndexError | ValueError | TypeError | AssertionError | SignalProcessingError | ZeroDivisionError
  | AttributeError | Other
  deriving Repr, DecidableEq, Inhabited

def ErrKind.toString : ErrKind → String
  | .IndexError => "IndexError" | .ValueError => "ValueError" | .TypeError => "TypeError"
  | .AssertionError => "AssertionError" | .SignalProcessingError => "SignalProcessingError"
  | .ZeroDivisionError => "ZeroDivisionError" | .AttributeError => "AttributeError" | .Other => "Other"

instance : ToString ErrKind := ⟨ErrKind.toString⟩

/-- result of a handler: protocol failure (`Except.error`) or a model outcome -/
inductive Outcome
  | ok (outs : List (List String))
  | err (k : ErrKind)

abbrev Handler := List (List String) → Except String Outcome

def parseInt (s : String) : Except String Int :=
  match s.toInt? with
  | some i => pure i
  | none => throw s!"bad int '{s}'"

def parseNat (s : String) : Except String Nat :=
  match s.toNat? with
  | some i => pure i
  | none => throw s!"bad nat '{s}'"

def parseRat (s : String) : Except String Rat :=
  match s.splitOn "/" with
  | [n] => do let i ← parseInt n; pure (i : Rat)
  | [n, d] => do
      let i ← parseInt n
      let k ← parseNat d
      if k = 0 then throw s!"zero denominator '{s}'" else pure (mkRat i k)
  | _ => throw s!"bad rat '{s}'"

/-- floats travel as `b<uint64 bit pattern>` -/
def parseFloat (s : String) : Except String Float :=
  if s.startsWith "b" then
    match (s.drop 1).toNat? with
    | some n => pure (Float.ofBits n.toUInt64)
    | none => throw s!"bad float '{s}'"
  else throw s!"bad float '{s}'"

def parseBool (s : String) : Except String Bool :=
  if s = "T" then pure true else if s = "F" then pure false else throw s!"bad bool '{s}'"

def showRat (q : Rat) : String := if q.den = 1 then s!"{q.num}" else s!"{q.num}/{q.den}"
def showFloat (f : Float) : String := s!"b{f.toBits.toNat}"
def showBool (b : Bool) : String := if b then "T" else "F"

def rats (l : List String) : Except String (List Rat) := l.mapM parseRat
def nats (l : List String) : Except String (List Nat) := l.mapM parseNat
def ints (l : List String) : Except String (List Int) := l.mapM parseInt
def floats (l : List String) : Except String (List Float) := l.mapM parseFloat

def rat1 (l : List String) : Except String Rat :=
  match l with | [x] => parseRat x | _ => throw "expected one rat"
def nat1 (l : List String) : Except String Nat :=
  match l with | [x] => parseNat x | _ => throw "expected one nat"
def int1 (l : List String) : Except String Int :=
  match l with | [x] => parseInt x | _ => throw "expected one int"
def float1 (l : List String) : Except String Float :=
  match l with | [x] => parseFloat x | _ => throw "expected one float"
def bool1 (l : List String) : Except String Bool :=
  match l with | [x] => parseBool x | _ => throw "expected one bool"
def str1 (l : List String) : Except String String :=
  match l with | [x] => pure x | _ => throw "expected one token"

def outRats (l : List Rat) : List String := l.map showRat
def outNats (l : List Nat) : List String := l.map toString
def outInts (l : List Int) : List String := l.map toString
def outFloats (l : List Float) : List String := l.map showFloat

def tokens (s : String) : List String := (s.splitOn " ").filter (· ≠ "")

def renderOutcome : Except String Outcome → String
  | .error m => "bad|" ++ (m.replace "\n" " ")
  | .ok (.err k) => "err|" ++ toString k
  | .ok (.ok outs) => "ok|" ++ "|".intercalate (outs.map (" ".intercalate ·))

/-- lift a model result `Except ErrKind β` into an `Outcome` -/
def ofExcept {β : Type} (f : β → List (List String)) : Except ErrKind β → Outcome
  | .ok b => .ok (f b)
  | .error k => .err k

end EqsigVerif.Wire
