import EqsigVerif.Prelude.Wire
/-!
# `np.interp` (Mathlib-free, exact over `Rat`)

NumPy's compiled `arr_interp` (numpy/_core/src/multiarray/compiled_base.c), for each `x`:

* `j = binary_search_with_guess(x, xp)`: `-1` if `x < xp[0]`, `len` if `x > xp[-1]`, `len-1` if `x == xp[-1]`,
  otherwise the `j` with `xp[j] <= x < xp[j+1]`;
* `j == -1 → left`, `j == len → right`, `j == len-1 → fp[-1]`, `xp[j] == x → fp[j]`, otherwise
  `slope*(x - xp[j]) + fp[j]` with `slope = (fp[j+1]-fp[j])/(xp[j+1]-xp[j])`;
* `len(xp) == 1`: `x < xp[0] → left`, `x > xp[0] → right`, else `fp[0]`;
* `len(xp) != len(fp)` raises `ValueError`; `len(xp) == 0` raises `ValueError` ("array of sample points is
  empty") **unless `x` is empty too**, in which case the result is the empty array [observed, numpy 2.5];
* defaults `left = fp[0]`, `right = fp[-1]`.

`interpUnit` is the special case `xp = np.arange(len(fp))` used by `interp_array_to_approx_dt` and by
`calc_surface_energy`; there `xp[j+1]-xp[j] = 1`, so `slope = fp[j+1]-fp[j]` (division by `1.0` is exact in
binary64 as well) and `j = ⌊x⌋`.
-/
namespace EqsigVerif.Interp
open EqsigVerif.Wire (ErrKind)

/-- `np.interp(x, np.arange(len(fp)), fp, left=left, right=right)` for one abscissa `x`, `fp` non-empty.
(`fp = []` makes NumPy raise; the array-level wrappers `npInterpUnit` below return that error, this
scalar function is only ever called by them on non-empty `fp` — the value `0` is never observed.) -/
def interpUnit (fp : List Rat) (left right : Rat) (x : Rat) : Rat :=
  if fp.length = 0 then 0
  else if x < 0 then left
  else if ((fp.length - 1 : Nat) : Rat) < x then right
  else
    let j := (Rat.floor x).toNat
    if j + 1 < fp.length then
      let f0 := fp.getD j 0
      let f1 := fp.getD (j+1) 0
      (f1 - f0) * (x - (j : Rat)) + f0     -- numpy: slope*(x - xp[j]) + fp[j]
    else fp.getD (fp.length - 1) 0

/-- `np.interp(xs, np.arange(len(fp)), fp, left=…, right=…)`; `none` = NumPy's default (`fp[0]` / `fp[-1]`).
`ValueError` for empty `fp` with non-empty `xs`. -/
def npInterpUnit (xs : List Rat) (fp : List Rat) (left right : Option Rat) : Except ErrKind (List Rat) :=
  match fp with
  | [] => if xs.isEmpty then .ok [] else .error .ValueError
  | f0 :: _ =>
    let l := left.getD f0
    let r := right.getD (fp.getD (fp.length - 1) 0)
    .ok (xs.map (interpUnit fp l r))

/-- scan for the bracketing interval; precondition `xp[0] ≤ x ≤ xp[-1]`, equal lengths.
In exact arithmetic `slope*(x - xp[j]) + fp[j] = fp[j]` at `x = xp[j]`, so NumPy's
`xp[j] == x → fp[j]` shortcut is not a separate branch. -/
def interpScan : List Rat → List Rat → Rat → Rat
  | x0 :: x1 :: xs, f0 :: f1 :: fs, x =>
    if x < x1 then (f1 - f0) / (x1 - x0) * (x - x0) + f0
    else interpScan (x1 :: xs) (f1 :: fs) x
  | _ :: _, [f0], _ => f0
  | [_], f0 :: _, _ => f0
  | _, _, _ => 0

/-- `np.interp(x, xp, fp, left, right)` for one abscissa, `xp` strictly increasing, `len xp = len fp ≥ 1`. -/
def interp (xp fp : List Rat) (left right : Rat) (x : Rat) : Rat :=
  match xp with
  | [] => 0
  | x0 :: _ =>
    if x < x0 then left
    else if xp.getD (xp.length - 1) 0 < x then right
    else interpScan xp fp x

/-- `np.interp(xs, xp, fp, left=…, right=…)`, `xp` strictly increasing (NumPy does not check monotonicity;
for non-increasing `xp` its result is unspecified and this model is not claimed).
`ValueError` for `len xp ≠ len fp`, and for empty `xp` with non-empty `xs`. -/
def npInterp (xs xp fp : List Rat) (left right : Option Rat) : Except ErrKind (List Rat) :=
  if xp.length ≠ fp.length then .error .ValueError
  else match fp with
  | [] => if xs.isEmpty then .ok [] else .error .ValueError
  | f0 :: _ =>
    let l := left.getD f0
    let r := right.getD (fp.getD (fp.length - 1) 0)
    .ok (xs.map (interp xp fp l r))

end EqsigVerif.Interp
