/-!
# NumPy / SciPy primitives (Mathlib-free)

Generic over *core* operation classes so that the same definitions are
* executed by the driver at `Rat` (exact) and `Float` (transcendental twins), and
* reasoned about in `Lemmas/` for an arbitrary linearly ordered field (`ℚ`, `ℝ`).

Every definition states which NumPy/SciPy call it models.  They are differentially tested
against the real NumPy by `harness/prelude_check.py` on every run (pseudo-property PRELUDE).
-/
namespace EqsigVerif.Np

variable {α : Type}

/-! ### sums -/
section Sum
variable [Add α] [OfNat α 0]

/-- `np.cumsum(l)` started from an accumulator. -/
def cumsumFrom (acc : α) : List α → List α
  | [] => []
  | x :: xs => (acc + x) :: cumsumFrom (acc + x) xs

/-- `np.cumsum(l)` -/
def cumsum (l : List α) : List α := cumsumFrom 0 l

/-- `np.sum(l)` (left fold, as the exact value does not depend on the order) -/
def sum (l : List α) : α := l.foldl (· + ·) 0

end Sum

/-! ### differences -/
section Diff
variable [Sub α]

/-- differences against a running previous value -/
def diffFrom (prev : α) : List α → List α
  | [] => []
  | x :: xs => (x - prev) :: diffFrom x xs

/-- `np.diff(l)` -/
def diff : List α → List α
  | [] => []
  | x :: xs => diffFrom x xs

/-- `np.ediff1d(l, to_begin=b)` and `np.insert(np.diff(l), 0, b)` and `np.diff(l, prepend=p)` with `b = l[0]-p` -/
def ediff1d (b : α) (l : List α) : List α := b :: diff l

end Diff

/-! ### quadrature -/
section Quad
variable [Add α] [Mul α] [Div α] [OfNat α 0] [OfNat α 2]

/-- tail of `scipy.integrate.cumulative_trapezoid(y, dx=dx, initial=0)` -/
def cumtrapzFrom (dx : α) (acc prev : α) : List α → List α
  | [] => []
  | y :: ys => (acc + dx * (y + prev) / 2) :: cumtrapzFrom dx (acc + dx * (y + prev) / 2) y ys

/-- `scipy.integrate.cumulative_trapezoid(y, dx=dx, initial=0)` -/
def cumtrapz (dx : α) : List α → List α
  | [] => []
  | y :: ys => 0 :: cumtrapzFrom dx 0 y ys

end Quad

/-! ### element-wise -/
section Elem
variable [Mul α]

/-- `c * l` -/
def scale (c : α) (l : List α) : List α := l.map (c * ·)

/-- `l ** 2` (as `x * x`) -/
def sq (l : List α) : List α := l.map (fun x => x * x)

end Elem

section ElemAdd
variable [Add α]
/-- `a + b` for equal-length arrays -/
def addL (a b : List α) : List α := List.zipWith (· + ·) a b
end ElemAdd

section ElemSub
variable [Sub α]
/-- `a - b` for equal-length arrays -/
def subL (a b : List α) : List α := List.zipWith (· - ·) a b
end ElemSub

section Abs
variable [LT α] [Neg α] [OfNat α 0] [DecidableLT α]

/-- `abs(x)` -/
def absv (x : α) : α := if x < 0 then -x else x

/-- `np.abs(l)` -/
def absL (l : List α) : List α := l.map absv

end Abs

section MaxMin
variable [LT α] [DecidableLT α]

/-- binary max as Python's `max(a, b)` (returns `a` on ties) -/
def max2 (a b : α) : α := if a < b then b else a
/-- binary min as Python's `min(a, b)` (returns `a` on ties) -/
def min2 (a b : α) : α := if b < a then b else a

/-- `max(l)` of a non-empty list with explicit head -/
def maxFrom (m : α) : List α → α
  | [] => m
  | x :: xs => maxFrom (max2 m x) xs

def minFrom (m : α) : List α → α
  | [] => m
  | x :: xs => minFrom (min2 m x) xs

/-- `np.max(l)`; `none` for the empty list (NumPy raises `ValueError`) -/
def maxL? : List α → Option α
  | [] => none
  | x :: xs => some (maxFrom x xs)

def minL? : List α → Option α
  | [] => none
  | x :: xs => some (minFrom x xs)

/-- index of the first maximum, `np.argmax` -/
def argmaxFrom (bi : Nat) (bv : α) (i : Nat) : List α → Nat
  | [] => bi
  | x :: xs => if bv < x then argmaxFrom i x (i+1) xs else argmaxFrom bi bv (i+1) xs

def argmax : List α → Nat
  | [] => 0
  | x :: xs => argmaxFrom 0 x 1 xs

/-- index of the first minimum, `np.argmin` -/
def argminFrom (bi : Nat) (bv : α) (i : Nat) : List α → Nat
  | [] => bi
  | x :: xs => if x < bv then argminFrom i x (i+1) xs else argminFrom bi bv (i+1) xs

def argmin : List α → Nat
  | [] => 0
  | x :: xs => argminFrom 0 x 1 xs

end MaxMin

/-! ### index manipulation -/

/-- `np.where(p(l))[0]` from a start index -/
def whereIdxFrom (p : α → Bool) (i : Nat) : List α → List Nat
  | [] => []
  | x :: xs => if p x then i :: whereIdxFrom p (i+1) xs else whereIdxFrom p (i+1) xs

/-- `np.where(p(l))[0]` -/
def whereIdx (p : α → Bool) (l : List α) : List Nat := whereIdxFrom p 0 l

/-- `np.take(l, idx)` for in-range indices (out-of-range is `IndexError` in NumPy; models guard) -/
def takeIdx [Inhabited α] (l : List α) (idx : List Nat) : List α := idx.map (fun i => l.getD i default)

/-- `np.put(base, idx, vals)` for in-range indices with `len idx = len vals` -/
def putIdx (base : List α) : List Nat → List α → List α
  | i :: is, v :: vs => putIdx (base.set i v) is vs
  | _, _ => base

/-- `np.pad(l, (0, n), constant_values=z)` -/
def padRight (l : List α) (n : Nat) (z : α) : List α := l ++ List.replicate n z

/-- `np.pad(l, (n, 0), constant_values=z)` -/
def padLeft (l : List α) (n : Nat) (z : α) : List α := List.replicate n z ++ l

/-- Python slice `l[a:b]` with non-negative bounds -/
def slice (l : List α) (a b : Nat) : List α := (l.take b).drop a

/-- `np.arange(n)` as naturals -/
def arange (n : Nat) : List Nat := List.range n

end EqsigVerif.Np
