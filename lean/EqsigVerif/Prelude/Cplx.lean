/-!
# Complex numbers and the discrete Fourier transform by its definition (Mathlib-free)

* `Cx α` — complex numbers as pairs `(re, im)` over any carrier `α` with core operation classes;
  executed by the driver at `Cx Float` (and at `Cx Rat` for the few exact cases `N ∣ 4`).
* `CxLike α β` — the handful of operations the models need from "a type `β` of complex numbers over
  the reals `α`" (`ofReal`, `conj`, `re`, `im`, `normSq`).  Instances: `CxLike α (Cx α)` here,
  `CxLike ℝ ℂ` in `Lemmas/Cplx.lean` (Mathlib).  All models are written once over an arbitrary `β`
  with core `+ - * /` and `CxLike α β`, so the *same* definitions are executed at `Cx Float` and
  reasoned about at Mathlib's `ℂ`.
* `dft tw x N` — `X_k = Σ_{j<N} x_j · tw N (j·k mod N)`, `x` zero-padded/truncated to `N`
  (`np.fft.fft(x, n=N)`), generic in the twiddle table: `tw N m` stands for `e^{-2πi m/N}`.
  `idft` — conjugate twiddles and division by `N` (`np.fft.ifft`).

**External assumption `FftIsDft`** (DESIGN §3.3, kind X): `np.fft.fft(x, n)`, `np.fft.ifft`,
`scipy.fftpack.fft/ifft` compute these defining sums (up to rounding).  It is not provable here; it
is validated numerically on every run (impl FFT vs this O(N²) sum at `Float`).
-/
namespace EqsigVerif.Cplx

/-- a complex number `re + i·im` over the carrier `α` -/
structure Cx (α : Type) where
  re : α
  im : α
  deriving Repr, DecidableEq, Inhabited

namespace Cx
variable {α : Type}

instance [Add α] : Add (Cx α) := ⟨fun a b => ⟨a.re + b.re, a.im + b.im⟩⟩
instance [Sub α] : Sub (Cx α) := ⟨fun a b => ⟨a.re - b.re, a.im - b.im⟩⟩
instance [Neg α] : Neg (Cx α) := ⟨fun a => ⟨-a.re, -a.im⟩⟩
instance [Add α] [Sub α] [Mul α] : Mul (Cx α) :=
  ⟨fun a b => ⟨a.re * b.re - a.im * b.im, a.re * b.im + a.im * b.re⟩⟩
/-- `(a+bi)/(c+di) = ((ac+bd) + (bc−ad)i)/(c²+d²)` -/
instance [Add α] [Sub α] [Mul α] [Div α] : Div (Cx α) :=
  ⟨fun a b => ⟨(a.re * b.re + a.im * b.im) / (b.re * b.re + b.im * b.im),
               (a.im * b.re - a.re * b.im) / (b.re * b.re + b.im * b.im)⟩⟩
instance [OfNat α 0] : OfNat (Cx α) 0 := ⟨⟨0, 0⟩⟩
instance [OfNat α 0] [OfNat α 1] : OfNat (Cx α) 1 := ⟨⟨1, 0⟩⟩

/-- complex conjugate -/
def conj [Neg α] (z : Cx α) : Cx α := ⟨z.re, -z.im⟩
/-- real multiple `c • z` -/
def scale [Mul α] (c : α) (z : Cx α) : Cx α := ⟨c * z.re, c * z.im⟩
/-- squared modulus `re² + im²` -/
def normSq [Add α] [Mul α] (z : Cx α) : α := z.re * z.re + z.im * z.im
/-- embedding of the reals -/
def ofReal [OfNat α 0] (a : α) : Cx α := ⟨a, 0⟩

@[simp] theorem add_re [Add α] (a b : Cx α) : (a + b).re = a.re + b.re := rfl
@[simp] theorem add_im [Add α] (a b : Cx α) : (a + b).im = a.im + b.im := rfl
@[simp] theorem sub_re [Sub α] (a b : Cx α) : (a - b).re = a.re - b.re := rfl
@[simp] theorem sub_im [Sub α] (a b : Cx α) : (a - b).im = a.im - b.im := rfl
@[simp] theorem mul_re [Add α] [Sub α] [Mul α] (a b : Cx α) : (a * b).re = a.re * b.re - a.im * b.im := rfl
@[simp] theorem mul_im [Add α] [Sub α] [Mul α] (a b : Cx α) : (a * b).im = a.re * b.im + a.im * b.re := rfl
@[simp] theorem zero_re [OfNat α 0] : (0 : Cx α).re = 0 := rfl
@[simp] theorem zero_im [OfNat α 0] : (0 : Cx α).im = 0 := rfl

end Cx

/-- what the models need from a type `β` of complex numbers over the reals `α` -/
class CxLike (α : outParam Type) (β : Type) where
  /-- embedding of the reals (`dt`, `1/N`, … as complex numbers) -/
  ofReal : α → β
  /-- `np.conj` -/
  conj : β → β
  /-- `np.real` -/
  re : β → α
  /-- `np.imag` -/
  im : β → α
  /-- `|z|²`; `np.abs(z)` is its square root, so `argmax |z| = argmax |z|²` -/
  normSq : β → α

instance {α : Type} [Add α] [Mul α] [Neg α] [OfNat α 0] : CxLike α (Cx α) where
  ofReal := Cx.ofReal
  conj := Cx.conj
  re := Cx.re
  im := Cx.im
  normSq := Cx.normSq

/-- `Float` has no core `NatCast`; the models only need it for `1/N` and `k/(N·dt)` -/
instance instNatCastFloat : NatCast Float := ⟨Float.ofNat⟩

section Sums
variable {β : Type} [Add β] [OfNat β 0]

/-- `Σ_{j<n} f j` (left to right) -/
def sumTo (f : Nat → β) : Nat → β
  | 0 => 0
  | n + 1 => sumTo f n + f n

/-- `np.sum(l)` -/
def sumL : List β → β
  | [] => 0
  | x :: xs => x + sumL xs

/-- `x` truncated or zero-padded on the right to exactly `N` entries — what `np.fft.fft(x, n=N)`
does to its input before transforming -/
def padTo (N : Nat) (x : List β) : List β := x.take N ++ List.replicate (N - x.length) 0

end Sums

section DFT
variable {β : Type} [Add β] [Mul β] [OfNat β 0]

/-- one DFT bin: `Σ_{j<N} x_j · tw N (j·k mod N)` with `x_j = 0` beyond the end of `x` -/
def dftBin (tw : Nat → Nat → β) (x : Array β) (N k : Nat) : β :=
  sumTo (fun j => x.getD j 0 * tw N (j * k % N)) N

/-- `np.fft.fft(x, n=N)` under `FftIsDft`: the defining sum, `tw N m = e^{-2πi m/N}` -/
def dft (tw : Nat → Nat → β) (x : List β) (N : Nat) : List β :=
  let xa := (padTo N x).toArray
  (List.range N).map (fun k => dftBin tw xa N k)

variable {α : Type} [Div β] [NatCast α] [CxLike α β]

/-- `np.fft.ifft(X, n=N)` under `FftIsDft`: conjugate twiddles, divided by `N` -/
def idft (tw : Nat → Nat → β) (X : List β) (N : Nat) : List β :=
  let xa := (padTo N X).toArray
  (List.range N).map
    (fun j => dftBin (fun n m => CxLike.conj (tw n m)) xa N j / CxLike.ofReal ((N : Nat) : α))

end DFT

/-- the `Float` twiddle table `e^{-2πi m/N} = cos(2πm/N) − i·sin(2πm/N)` -/
def twFloat (N m : Nat) : Cx Float :=
  let a := 2 * 3.141592653589793 * m.toFloat / N.toFloat
  ⟨Float.cos a, -Float.sin a⟩

/-- exact twiddles for `N ∣ 4` (`1, −i, −1, i`), used for exact `Rat` runs; `none` otherwise -/
def twExact? (N m : Nat) : Option (Cx Rat) :=
  if N = 1 then some ⟨1, 0⟩
  else if N = 2 then some (if m % 2 = 0 then ⟨1, 0⟩ else ⟨-1, 0⟩)
  else if N = 4 then
    some (match m % 4 with | 0 => ⟨1, 0⟩ | 1 => ⟨0, -1⟩ | 2 => ⟨-1, 0⟩ | _ => ⟨0, 1⟩)
  else none

end EqsigVerif.Cplx
