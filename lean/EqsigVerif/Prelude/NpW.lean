import EqsigVerif.Prelude.NpR
import EqsigVerif.Prelude.NpP
import EqsigVerif.Prelude.NpS
import EqsigVerif.Prelude.NpV
/-!
# Python / NumPy primitives used by `tools/py2lean_x_rest2.py` (Mathlib-free)

Control combinators (`for … break`, `while` with an iteration budget), string primitives of the fixed-width header parser of
`load_3_comp_values_and_dt_from_v2a`, the float `np.arange`, and small 2-d helpers.  Each definition names the Python expression it
stands for and has a tiny example.  (Assumed = Python/NumPy behaviour, like the other preludes; differentially tested by the handlers `r2.*`
of `Handlers/Rest2.lean` through `corr_rest2`.)
-/
namespace EqsigVerif.NpW
open EqsigVerif EqsigVerif.Wire

/-! ### loops -/

/-- `for i in range(a, a + n): (brk, s) = step(s, i); if brk: break` — a raised exception ends the loop -/
def forBreakFrom {σ : Type} (step : σ → Nat → Except ErrKind (Bool × σ)) : Nat → Nat → σ → Except ErrKind σ
  | _, 0, s => .ok s
  | a, n + 1, s =>
    match step s a with
    | .error e => .error e
    | .ok (true, s') => .ok s'
    | .ok (false, s') => forBreakFrom step (a + 1) n s'

/-- `for i in range(a, b)` whose body may `break` / `continue`: the step function returns `(True, state)` for `break` -/
def forRangeBreakE {σ : Type} (step : σ → Nat → Except ErrKind (Bool × σ)) (a b : Nat) (s : σ) : Except ErrKind σ :=
  forBreakFrom step a (b - a) s

example : forRangeBreakE (fun (s : List Nat) i => .ok (decide (i = 3), s ++ [i])) 1 9 [] = .ok [1, 2, 3] ∧
    forRangeBreakE (fun (s : List Nat) i => .ok (false, s ++ [i])) 3 1 [] = .ok [] := ⟨rfl, rfl⟩

/-- `while cond(s): s = step(s)` with an iteration budget `fuel`: `ErrKind.Other` stands for "still running after `fuel` iterations"
(the bridge theorems prove that the budget handed over by the translator is never exhausted) -/
def whileE {σ : Type} (cond : σ → Bool) (step : σ → Except ErrKind σ) : Nat → σ → Except ErrKind σ
  | 0, s => if cond s then .error .Other else .ok s
  | n + 1, s =>
    if cond s then
      match step s with
      | .error e => .error e
      | .ok s' => whileE cond step n s'
    else .ok s

example : whileE (fun (s : Nat) => decide (s < 5)) (fun s => .ok (s + 2)) 10 0 = .ok 6 ∧
    whileE (fun (s : Nat) => decide (s < 5)) (fun s => .ok (s + 2)) 1 0 = .error .Other := ⟨rfl, rfl⟩

/-! ### in-place update through a Python subscript -/

/-- the list after `l[i] = v` for a Python integer `i` that is a valid subscript (the caller has just read `l[i]`); unchanged otherwise.
`pySet [1, 2, 3] (-1) 9 = [1, 2, 9]` -/
def pySet {γ : Type} (l : List γ) (i : Int) (v : γ) : List γ :=
  let j : Int := if i < 0 then i + l.length else i
  if j < 0 then l else l.set j.toNat v

example : pySet [1, 2, 3] (-1) 9 = [1, 2, 9] ∧ pySet [1, 2, 3] 0 9 = [9, 2, 3] ∧ pySet [1, 2, 3] 5 9 = [1, 2, 3] := ⟨rfl, rfl, rfl⟩

/-! ### strings (as character lists) -/

/-- is `p` a prefix of `s` -/
def isPrefix : List Char → List Char → Bool
  | [], _ => true
  | _ :: _, [] => false
  | a :: as, b :: bs => a == b && isPrefix as bs

/-- Python `sub in s` for strings -/
def contains (sub : List Char) : List Char → Bool
  | [] => sub.isEmpty
  | c :: cs => isPrefix sub (c :: cs) || contains sub cs

example : contains "ab".toList "xaby".toList = true ∧ contains "ab".toList "xa".toList = false ∧ contains [] [] = true := ⟨rfl, rfl, rfl⟩

/-- worker of `splitOn`: `cur` = the characters of the current piece in reverse order; `fuel` ≥ length of the rest -/
def splitAux (sep : List Char) : Nat → List Char → List Char → List (List Char)
  | 0, _, cur => [cur.reverse]
  | _ + 1, [], cur => [cur.reverse]
  | fuel + 1, c :: cs, cur =>
    if isPrefix sep (c :: cs) then cur.reverse :: splitAux sep fuel ((c :: cs).drop sep.length) []
    else splitAux sep fuel cs (c :: cur)

/-- Python `s.split(sep)` for a NON-EMPTY separator (left-to-right, non-overlapping; always at least one piece).
`splitOn "ab" "1ab2ab" = ["1", "2", ""]` -/
def splitOn (sep s : List Char) : List (List Char) := splitAux sep (s.length + 1) s []

example : splitOn "ab".toList "1ab2ab".toList = ["1".toList, "2".toList, []] ∧ splitOn "ab".toList [] = [[]] := ⟨by decide, by decide⟩

/-- Python's `str.isspace` on the ASCII range (space, `\t`, `\n`, `\v`, `\f`, `\r`, and the separators `\x1c`–`\x1f`) -/
def isSpace (c : Char) : Bool := c == ' ' || (9 ≤ c.toNat && c.toNat ≤ 13) || (28 ≤ c.toNat && c.toNat ≤ 31)

/-- worker of `splitWs` -/
def splitWsAux : List Char → List Char → List (List Char)
  | [], cur => if cur.isEmpty then [] else [cur.reverse]
  | c :: cs, cur =>
    if isSpace c then (if cur.isEmpty then splitWsAux cs [] else cur.reverse :: splitWsAux cs [])
    else splitWsAux cs (c :: cur)

/-- Python `s.split()` (runs of white space separate; no empty pieces).  `splitWs " 1  2\n" = ["1", "2"]` -/
def splitWs (s : List Char) : List (List Char) := splitWsAux s []

example : splitWs " 1  2\n".toList = ["1".toList, "2".toList] ∧ splitWs "  ".toList = [] := ⟨by decide, by decide⟩

/-- Python `s.strip()` on the ASCII range -/
def strip (s : List Char) : List Char := ((s.dropWhile isSpace).reverse.dropWhile isSpace).reverse

/-- value of a non-empty run of ASCII digits (with single interior underscores, as Python's `int` accepts) -/
def digitsVal? : List Char → Option Nat
  | [] => none
  | cs =>
    if cs.head? = some '_' || cs.getLast? = some '_' then none
    else
      let rec go : List Char → Bool → Nat → Option Nat
        | [], _, acc => some acc
        | c :: rest, prevUs, acc =>
          if c = '_' then (if prevUs then none else go rest true acc)
          else if c.isDigit then go rest false (acc * 10 + (c.toNat - '0'.toNat))
          else none
      go cs false 0

/-- Python `int(s)` of a string (ASCII): optional surrounding white space, optional sign, decimal digits; `ValueError` otherwise.
`pyIntE " 42 " = .ok 42`, `pyIntE "4.0" = .error .ValueError` -/
def pyIntE (s : List Char) : Except ErrKind Int :=
  match strip s with
  | '-' :: ds => (match digitsVal? ds with | some n => .ok (-(n : Int)) | none => .error .ValueError)
  | '+' :: ds => (match digitsVal? ds with | some n => .ok (n : Int) | none => .error .ValueError)
  | ds => (match digitsVal? ds with | some n => .ok (n : Int) | none => .error .ValueError)

example : pyIntE " 42 ".toList = .ok 42 ∧ pyIntE "-7".toList = .ok (-7) ∧ pyIntE "4.0".toList = .error .ValueError ∧
    pyIntE [] = .error .ValueError := ⟨by rfl, by rfl, by rfl, by rfl⟩

/-! ### numbers -/

/-- `int(np.ceil(a / b))` for an integer `a` and a positive integer literal `b` (`float(a) / b`, exact for `|a| < 2^53`) -/
def ceilDivInt (a : Int) (b : Nat) : Int := -((-a) / (b : Int))

example : ceilDivInt 21 10 = 3 ∧ ceilDivInt 20 10 = 2 ∧ ceilDivInt 0 10 = 0 ∧ ceilDivInt (-5) 10 = 0 ∧ ceilDivInt (-15) 10 = -1 := by decide

/-- `np.arange(0, stop, step)` for FLOATS (exact arithmetic): `ceil(stop / step)` entries `i * step` (none when that is `≤ 0`);
`step = 0`: `ZeroDivisionError` (NumPy: "division by zero") -/
def arangeFloatE (stop step : Rat) : Except ErrKind (List Rat) :=
  if step = 0 then .error .ZeroDivisionError
  else .ok ((List.range (Rat.ceil (stop / step)).toNat).map (fun (i : Nat) => (i : Rat) * step))

example : (arangeFloatE 1 (1/4)).toOption = some [0, 1/4, 1/2, 3/4] ∧ (arangeFloatE (9/8) (1/4)).toOption = some [0, 1/4, 1/2, 3/4, 1] ∧
    (arangeFloatE (-1) (1/4)).toOption = some [] ∧ (arangeFloatE 1 0).toOption = none := by decide +kernel

/-- the array after `acc = np.zeros_like(v); acc[1:] = np.diff(v) / dt` for a finite `dt ≠ 0` handled by the caller: `0 :: diff(v) / dt`
(an empty `v` stays empty) -/
def zeroThenDiffQuot (v : List Rat) (dt : Rat) : List Rat :=
  match v with
  | [] => []
  | _ :: _ => 0 :: (Np.diff v).map (fun d => d / dt)

/-- `np.array(rows).astype(float)` for a list of lists of number strings: a ragged list (rows of different lengths) is a `ValueError`
("inhomogeneous shape") -/
def rectE {γ : Type} (rows : List (List γ)) : Except ErrKind (List (List γ)) :=
  match rows with
  | [] => .ok []
  | r :: rs => if rs.all (fun q => q.length == r.length) then .ok rows else .error .ValueError

end EqsigVerif.NpW
