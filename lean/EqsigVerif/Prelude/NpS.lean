import EqsigVerif.Prelude.NpR
import EqsigVerif.Model.Displacements
/-!
# NumPy / Python primitives used by `tools/py2lean_x_single2.py` (Mathlib-free, exact rationals)

Targets of the translator plug-in `py2lean_x_single2.py` (arithmetic of the in-place mutators of `AccSignal`).  The numbers are exact
rationals (`Rat`): `int(<float>)` (truncation) forces a concrete number type.

**Non-finite floats.**  A NumPy scalar division never raises: `x / 0` is `nan` / `±inf` (RuntimeWarning).  A value that may be
non-finite has type `Fl = Option Rat` (`none` = `nan` or `±inf`; every operation on `none` gives `none`).  A record that would contain
such a value is reported as `Except.error .ZeroDivisionError` (the tag for NumPy's non-raising division by zero used by
`Model/Single.lean`), but only if the entry is really written: an in-place update of an EMPTY slice by `nan` changes nothing.

Each definition names the Python expression it stands for and has a tiny example.  (Assumed = NumPy/Python behaviour; validated by the
correspondence runs of `corr_single2` and to be added to `harness/prelude_check.py`.)
-/
namespace EqsigVerif.NpS
open EqsigVerif EqsigVerif.Wire

/-! ### possibly non-finite floats -/

/-- a float that may be non-finite: `none` = `nan` / `±inf` -/
abbrev Fl := Option Rat

/-- `a + b` -/
def fadd (a b : Fl) : Fl := match a, b with | some x, some y => some (x + y) | _, _ => none
/-- `a - b` -/
def fsub (a b : Fl) : Fl := match a, b with | some x, some y => some (x - y) | _, _ => none
/-- `a * b` -/
def fmul (a b : Fl) : Fl := match a, b with | some x, some y => some (x * y) | _, _ => none
/-- `a / b` for NumPy scalars: `x / 0` is `nan` / `±inf` (no exception).  `fdiv (some 1) (some 0) = none`, `fdiv (some 1) (some 2) = some (1/2)` -/
def fdiv (a b : Fl) : Fl := match a, b with | some x, some y => if y = 0 then none else some (x / y) | _, _ => none

/-- an array of floats without a non-finite entry as exact numbers; `ZeroDivisionError` (tag of NumPy's non-raising `x / 0`) otherwise.
`finiteE [some 1, some 2] = .ok [1, 2]`, `finiteE [some 1, none] = .error .ZeroDivisionError` -/
def finiteE (l : List Fl) : Except ErrKind (List Rat) :=
  l.mapM (fun x => match x with | some v => .ok v | none => .error .ZeroDivisionError)

/-! ### Python `int(·)` -/

/-- Python `int(x)` of a finite float: truncation toward zero.  `truncZ (7/2) = 3`, `truncZ (-7/2) = -3` -/
def truncZ (q : Rat) : Int := if q < 0 then -(Rat.floor (-q)) else Rat.floor q

/-- `int(a / b)` for a NumPy-scalar quotient: `0 / 0 = nan` → `ValueError` ("cannot convert float NaN to integer"), `x / 0 = ±inf` →
`OverflowError` (`ErrKind.Other`).  `intNpDivE 7 2 = .ok 3`, `intNpDivE 0 0 = .error .ValueError` -/
def intNpDivE (a b : Rat) : Except ErrKind Int :=
  if b = 0 then (if a = 0 then .error .ValueError else .error .Other) else .ok (truncZ (a / b))

/-- `int(a / b)` for PYTHON floats / ints: `ZeroDivisionError` for `b = 0`.  `intPyDivE 7 2 = .ok 3`, `intPyDivE 1 0 = .error .ZeroDivisionError` -/
def intPyDivE (a b : Rat) : Except ErrKind Int :=
  if b = 0 then .error .ZeroDivisionError else .ok (truncZ (a / b))

/-! ### lazy properties of `AccSignal` -/

/-- `(self.velocity, self.displacement)` (lazy, `trap=True`): SciPy's `cumulative_trapezoid` raises `ValueError` on an empty record -/
def veloDispE (values : List Rat) (dt : Rat) : Except ErrKind (List Rat × List Rat) :=
  match values with
  | [] => .error .ValueError
  | _ :: _ => .ok (Model.Displacements.veloDispTrap values dt)

/-- `self.pga` = `im.calc_peak(self.values)`: `ValueError` on an empty record -/
def pgaE (values : List Rat) : Except ErrKind Rat :=
  match Model.Displacements.calcPeak? values with
  | some p => .ok p
  | none => .error .ValueError

/-- `self.time` = `np.arange(0, self.npts) * self.dt`.  `timeArr 3 (1/2) = [0, 1/2, 1]` -/
def timeArr (n : Nat) (dt : Rat) : List Rat := (List.range n).map (fun (i : Nat) => (i : Rat) * dt)

/-! ### slices with optional bounds, in-place updates -/

/-- start of `a[lo:…]` for `lo : None | int` -/
def loIdx (n : Nat) (lo : Option Int) : Nat := match lo with | none => 0 | some i => NpR.pyIdx n i
/-- stop of `a[…:hi]` for `hi : None | int` -/
def hiIdx (n : Nat) (hi : Option Int) : Nat := match hi with | none => n | some i => NpR.pyIdx n i

/-- `a[lo:hi]` for bounds that may be `None`.  `sliceO [0, 1, 2, 3] (some (-2)) none = [2, 3]` -/
def sliceO {γ : Type} (a : List γ) (lo hi : Option Int) : List γ := (a.take (hiIdx a.length hi)).drop (loIdx a.length lo)

/-- the array after `a[lo:hi] -= d` for a SCALAR float `d` (bounds `None | int`): the entries of the slice are decreased; a non-finite
`d` is written only if the slice is not empty (tag `ZeroDivisionError`).
`isubScalarE [1, 2, 3, 4] (some 1) (some 3) (some 1) = .ok [1, 1, 2, 4]`, `isubScalarE [1, 2] (some 1) (some 1) none = .ok [1, 2]` -/
def isubScalarE (a : List Rat) (lo hi : Option Int) (d : Fl) : Except ErrKind (List Rat) :=
  let l := loIdx a.length lo
  let h := hiIdx a.length hi
  if h ≤ l then .ok a
  else match d with
    | none => .error .ZeroDivisionError
    | some v => .ok (a.take l ++ ((a.take h).drop l).map (· - v) ++ a.drop h)

/-- the array after `a[lo:hi] -= d` for an ARRAY `d` of floats: `ValueError` (broadcasting) unless `len(d)` is the length of the slice
or 1; a non-finite entry that is written gives the tag `ZeroDivisionError`.
`isubArrayE [1, 2, 3] (some 1) none [some 1, some 2] = .ok [1, 1, 1]` -/
def isubArrayE (a : List Rat) (lo hi : Option Int) (d : List Fl) : Except ErrKind (List Rat) :=
  let l := loIdx a.length lo
  let h := hiIdx a.length hi
  let m := h - l
  if d.length = m then
    match finiteE d with
    | .error e => .error e
    | .ok dv => .ok (a.take l ++ List.zipWith (· - ·) ((a.take h).drop l) dv ++ a.drop (l + m))
  else match d with
    | [x] => isubScalarE a lo hi x
    | _ => .error .ValueError

/-- `x[0]`: `IndexError` for an empty array -/
def headE {γ : Type} (x : List γ) : Except ErrKind γ :=
  match x with
  | v :: _ => .ok v
  | [] => .error .IndexError

/-- `x[-1]`: `IndexError` for an empty array -/
def lastE {γ : Type} (x : List γ) : Except ErrKind γ := NpE.lastE x

/-- `np.mean(x)` of float entries that may be non-finite (`0 / 0 = nan` for an empty array) -/
def fmean (x : List Fl) : Fl :=
  fdiv (x.foldl fadd (some 0)) (some ((x.length : Nat) : Rat))

/-- the array after `a[:k] = v` for a non-negative integer `k` and a scalar `v`.  `fillTo [1, 2, 3] 2 9 = [9, 9, 3]` -/
def fillTo {γ : Type} (a : List γ) (k : Nat) (v : γ) : List γ := List.replicate (min k a.length) v ++ a.drop k

/-- the array `x` after `for i in range(n - 1): x[i + 1] = (y[i + 1] - y[i]) / d` on `x = np.zeros(n)` (`len(y) = n`): `x[0] = 0`.
`diffQuot [some 1, some 3, some 6] (1/2) = [some 0, some 4, some 6]` -/
def diffQuot (y : List Fl) (d : Rat) : List Fl :=
  match y with
  | [] => []
  | y0 :: ys => some 0 :: List.zipWith (fun b a => fdiv (fsub b a) (some d)) ys (y0 :: ys)

end EqsigVerif.NpS
