/-!
# Python number formatting / parsing used by `eqsig/loader.py` (Mathlib-free, executable)

* `rhe`       : round-half-to-even of an exact rational (what C `printf("%.df")` does to the *exact*
                value of the double: glibc / CPython's `PyOS_double_to_string` are correctly rounded).
* `fmtFixed`  : Python `'%.df' % x` for the exact value `q` of the double `x`.
* `fmtInt`    : Python `'%i' % n`.
* `parseDec`  : the exact decimal value denoted by a text that Python's `float()` accepts
                (i.e. the real number `float()` then rounds to the nearest double).

Everything is defined on `List Char` (suffix `L`) and wrapped with `String.ofList` / `.toList` at the
boundary, so that the lemmas (`Lemmas/Fmt.lean`) are about lists of characters.  All character tests
go through `Char.toNat` so that `omega` can decide them.

All recursions are structural (fuel for `natDigits`), so `decide +kernel` evaluates every function here.
-/
namespace EqsigVerif.Fmt

/-! ## rounding -/

/-- round-half-to-even of the exact value `s` -/
def rhe (s : Rat) : Int :=
  let f := Rat.floor s
  let r := s - f
  if r > 1/2 ∨ (r = 1/2 ∧ f % 2 = 1) then f + 1 else f

/-- `|q|` without Mathlib -/
def absR (q : Rat) : Rat := if q < 0 then -q else q

/-! ## digits -/

/-- the character of a decimal digit `n < 10` (`'0'` is code point 48) -/
def digitChar (n : Nat) : Char := Char.ofNat (48 + n % 10)

/-- exactly `k` decimal digits of `m`, most significant first (`m % 10^k` left-padded with zeros) -/
def digitsFixed (m : Nat) : Nat → List Char
  | 0 => []
  | k + 1 => digitsFixed (m / 10) k ++ [digitChar (m % 10)]

/-- fuel-driven decimal digits of `m` without leading zeros (`0 ↦ "0"`) -/
def natDigitsAux : Nat → Nat → List Char
  | 0, m => [digitChar m]
  | fuel + 1, m => if m < 10 then [digitChar m] else natDigitsAux fuel (m / 10) ++ [digitChar (m % 10)]

/-- decimal digits of `m` (Python `'%i' % m`, `m ≥ 0`); fuel `m` always suffices -/
def natDigits (m : Nat) : List Char := natDigitsAux m m

/-! ## rendering -/

/-- the text of `σ · m / 10^d` in fixed notation with exactly `d` decimals:
    `-` iff `neg`, integer part `m / 10^d`, and for `d > 0` a point followed by the `d` digits of `m % 10^d`
    (`'%.0f'` prints no point). -/
def renderL (neg : Bool) (m d : Nat) : List Char :=
  (if neg then ['-'] else []) ++ natDigits (m / 10 ^ d) ++
    (if d = 0 then [] else '.' :: digitsFixed (m % 10 ^ d) d)

def render (neg : Bool) (m d : Nat) : String := String.ofList (renderL neg m d)

/-- the magnitude that `'%.df'` prints for the exact value `q`: `rhe (|q|·10^d)` as a natural number -/
def fmtMag (q : Rat) (d : Nat) : Nat := (rhe (absR q * ((10 ^ d : Nat) : Rat))).toNat

/-- the sign that `'%.df'` prints: `-` iff `q < 0` (Python prints `-0.000000` for `-1e-9`; the float `-0.0`
    is not a rational and is not modelled: `q = 0` prints `0.000000`). -/
def fmtNeg (q : Rat) : Bool := decide (q < 0)

def fmtFixedL (q : Rat) (d : Nat) : List Char := renderL (fmtNeg q) (fmtMag q d) d

/-- Python `'%.df' % x` where `q` is the exact value of the (finite) double `x`. Never exponent notation. -/
def fmtFixed (q : Rat) (d : Nat) : String := String.ofList (fmtFixedL q d)

def fmtIntL (n : Int) : List Char := (if n < 0 then ['-'] else []) ++ natDigits n.natAbs

/-- Python `'%i' % n` -/
def fmtInt (n : Int) : String := String.ofList (fmtIntL n)

/-! ## parsing -/

def isDigit (c : Char) : Bool := 48 ≤ c.toNat && c.toNat ≤ 57
def digitVal (c : Char) : Nat := c.toNat - 48

/-- value of a digit string read left to right, starting from `acc` -/
def foldDigits (acc : Nat) (cs : List Char) : Nat := cs.foldl (fun a c => 10 * a + digitVal c) acc

/-- ASCII whitespace (C `isspace`, what `float(bytes)` strips): space, `\t \n \v \f \r`. -/
def isAsciiWs (c : Char) : Bool := c.toNat = 32 || (9 ≤ c.toNat && c.toNat ≤ 13)

/-- `l.strip(chars)` for the character class `p` -/
def stripBy (p : Char → Bool) (l : List Char) : List Char :=
  ((l.dropWhile p).reverse.dropWhile p).reverse

/-- mantissa `12`, `12.`, `.5`, `12.5` (at least one digit) → exact value -/
def parseMant (cs : List Char) : Option Rat :=
  let ip := cs.takeWhile isDigit
  match cs.dropWhile isDigit with
  | [] => if ip.isEmpty then none else some ((foldDigits 0 ip : Nat) : Rat)
  | c :: fp =>
    if c.toNat = 46 ∧ fp.all isDigit = true ∧ ¬ (ip.isEmpty = true ∧ fp.isEmpty = true) then
      some (((foldDigits 0 (ip ++ fp) : Nat) : Rat) / ((10 ^ fp.length : Nat) : Rat))
    else none

/-- exponent digits (after the `e`): optional sign, at least one digit -/
def parseExp (cs : List Char) : Option Int :=
  let (neg, ds) := match cs with
    | [] => (false, [])
    | c :: r => if c.toNat = 45 then (true, r) else if c.toNat = 43 then (false, r) else (false, cs)
  if ds.isEmpty ∨ ds.all isDigit = false then none
  else some (if neg then -((foldDigits 0 ds : Nat) : Int) else ((foldDigits 0 ds : Nat) : Int))

def isE (c : Char) : Bool := c.toNat = 101 || c.toNat = 69

/-- `10^e` for an integer exponent -/
def pow10 (e : Int) : Rat :=
  if e < 0 then 1 / ((10 ^ e.natAbs : Nat) : Rat) else ((10 ^ e.natAbs : Nat) : Rat)

/-- unsigned decimal: mantissa, optionally followed by `e`/`E` and an exponent -/
def parseUnsigned (cs : List Char) : Option Rat :=
  let mant := cs.takeWhile (fun c => !isE c)
  match cs.dropWhile (fun c => !isE c) with
  | [] => parseMant mant
  | _ :: ex =>
    match parseMant mant, parseExp ex with
    | some m, some e => some (m * pow10 e)
    | _, _ => none

/-- optional sign, then an unsigned decimal -/
def parseSigned (cs : List Char) : Option Rat :=
  match cs with
  | [] => none
  | c :: r =>
    if c.toNat = 45 then (parseUnsigned r).map (fun x => -x)
    else if c.toNat = 43 then parseUnsigned r
    else parseUnsigned cs

/-- The exact decimal value of a text as Python's `float()` reads it *before* rounding to a double:
    leading/trailing ASCII whitespace stripped, optional sign `+`/`-`, digits with an optional point
    (`12`, `12.`, `.5`, `12.5`; at least one digit), optional exponent `e`/`E` with optional sign and
    at least one digit.  Anything else → `none` (`float()` raises `ValueError`).

    **Not modelled** (→ `none`, whereas Python accepts them): `inf`/`infinity`/`nan` (any case, signed),
    digit-group underscores (`1_0.0`), non-ASCII decimal digits and non-ASCII/`\x1c–\x1f` whitespace (which
    `float(str)` accepts but `float(bytes)` does not).  Overflow is not modelled either: `1e400` denotes the
    rational `10^400` here while `float()` returns `inf`. -/
def parseDecL (cs : List Char) : Option Rat := parseSigned (stripBy isAsciiWs cs)

def parseDec (s : String) : Option Rat := parseDecL s.toList

/-- the rational denoted by the triple that `render` prints -/
def valueOf (neg : Bool) (m d : Nat) : Rat :=
  (if neg then -1 else 1) * ((m : Nat) : Rat) / ((10 ^ d : Nat) : Rat)

end EqsigVerif.Fmt
