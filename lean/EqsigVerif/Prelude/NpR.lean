import EqsigVerif.Prelude.NpE
/-!
# NumPy / Python primitives used by `tools/py2lean_x_rest.py` (Mathlib-free)

Targets of the translator plug-in `py2lean_x_rest.py` that are neither in `Prelude/Np.lean` nor in `Prelude/NpE.lean`.
Each definition names the NumPy / Python expression it stands for, the exception it reproduces, and a tiny example.
(They are *assumed* to be the NumPy behaviour, like `Prelude/Np.lean`; to be validated by `harness/prelude_check.py`.)
-/
namespace EqsigVerif.NpR
open EqsigVerif EqsigVerif.Wire EqsigVerif.Cplx

/-! ### control -/

/-- `if b: raise E` — `guardE true .ValueError = .error .ValueError`, `guardE false e = .ok ()` -/
def guardE (b : Bool) (e : ErrKind) : Except ErrKind Unit := if b then .error e else .ok ()

/-- `try: body / except K: handler` — the handler runs iff the body raised `K`.
`tryCatchE (.error .TypeError) .TypeError (.ok 1) = .ok 1`, `tryCatchE (.error .ValueError) .TypeError (.ok 1) = .error .ValueError` -/
def tryCatchE {γ : Type} (body : Except ErrKind γ) (k : ErrKind) (handler : Except ErrKind γ) : Except ErrKind γ :=
  match body with
  | .error e => if e = k then handler else .error e
  | .ok v => .ok v

/-- `sep.join(parts)` on strings as character lists.  `joinL [','] [['a'], ['b', 'c']] = ['a', ',', 'b', 'c']` -/
def joinL (sep : List Char) : List (List Char) → List Char
  | [] => []
  | [l] => l
  | l :: ls => l ++ sep ++ joinL sep ls

/-! ### indexing with Python integers -/
section Index
variable {γ : Type}

/-- `l[i]` for a Python / NumPy integer `i` (negative counts from the end); `IndexError` out of range.
`pyGetE [5, 6, 7] (-1) = .ok 7`, `pyGetE [5, 6, 7] 3 = .error .IndexError` -/
def pyGetE (l : List γ) (i : Int) : Except ErrKind γ :=
  let j : Int := if i < 0 then i + l.length else i
  if j < 0 then .error .IndexError else
  match l[j.toNat]? with
  | some v => .ok v
  | none => .error .IndexError

/-- `l[idx]` for an integer ARRAY `idx` (fancy indexing): entry by entry `l[i]`; `IndexError` when one index is out of range.
`takeE [5, 6, 7] [2, 0] = .ok [7, 5]` -/
def takeE (l : List γ) (idx : List Int) : Except ErrKind (List γ) := idx.mapM (pyGetE l)

/-- the array after `l[-1] = v`: `IndexError` for an empty array.  `setLastE [1, 2, 3] 9 = .ok [1, 2, 9]` -/
def setLastE (l : List γ) (v : γ) : Except ErrKind (List γ) :=
  if l.length = 0 then .error .IndexError else .ok (l.take (l.length - 1) ++ [v])

/-- the array after `l[i] = v` for a non-negative integer `i`: `IndexError` when out of range.
`setE [1, 2, 3] 1 9 = .ok [1, 9, 3]` -/
def setE (l : List γ) (i : Nat) (v : γ) : Except ErrKind (List γ) :=
  if i < l.length then .ok (l.set i v) else .error .IndexError

/-- start/stop of a Python slice bound for a sequence of length `n`: negative counts from the end, then clipped to `[0, n]`.
`pyIdx 5 (-2) = 3`, `pyIdx 5 9 = 5`, `pyIdx 5 (-9) = 0` -/
def pyIdx (n : Nat) (b : Int) : Nat := if b < 0 then ((n : Int) + b).toNat else min b.toNat n

/-- `l[a:b]` for Python integers `a`, `b`.  `pySlice [0, 1, 2, 3, 4] 1 (-1) = [1, 2, 3]` -/
def pySlice (l : List γ) (a b : Int) : List γ := (l.take (pyIdx l.length b)).drop (pyIdx l.length a)
/-- `l[a:]` for a Python integer `a`.  `pyFrom [0, 1, 2, 3] (-2) = [2, 3]` -/
def pyFrom (l : List γ) (a : Int) : List γ := l.drop (pyIdx l.length a)
/-- `l[:b]` for a Python integer `b`.  `pyTo [0, 1, 2, 3] (-1) = [0, 1, 2]` -/
def pyTo (l : List γ) (b : Int) : List γ := l.take (pyIdx l.length b)

/-- the array after `a[lo:] = v` for a Python integer `lo` and a SCALAR `v`.  `fillFromPy [1, 2, 3, 4] (-1) 9 = [1, 2, 3, 9]` -/
def fillFromPy (a : List γ) (lo : Int) (v : γ) : List γ :=
  a.take (pyIdx a.length lo) ++ List.replicate (a.length - pyIdx a.length lo) v

/-- the array after `a[lo:hi] = rhs` for Python integers `lo`, `hi` and an ARRAY `rhs`: the slice has `max (hi' - lo') 0` entries; `rhs`
must have that many, or exactly one (broadcast); otherwise NumPy raises `ValueError` ("could not broadcast input array").
`setSlicePyE [0, 0, 0, 0] 1 3 [7, 8] = .ok [0, 7, 8, 0]`, `setSlicePyE [0, 0, 0] 0 2 [1, 2, 3] = .error .ValueError` -/
def setSlicePyE (a : List γ) (lo hi : Int) (rhs : List γ) : Except ErrKind (List γ) :=
  let l := pyIdx a.length lo
  let m := pyIdx a.length hi - l
  if rhs.length = m then .ok (a.take l ++ rhs ++ a.drop (l + m))
  else match rhs with
    | [v] => .ok (a.take l ++ List.replicate m v ++ a.drop (l + m))
    | _ => .error .ValueError

end Index

/-! ### order -/
section Order
variable {γ : Type} [LT γ] [DecidableLT γ]

/-- Python's `min(x)`: `ValueError` for an empty sequence.  `minE [3, 1, 2] = .ok 1` -/
def minE (x : List γ) : Except ErrKind γ :=
  match Np.minL? x with
  | some v => .ok v
  | none => .error .ValueError

/-- `np.clip(v, lo, None)` (= `np.maximum(v, lo)`).  `clipLo (-1) 0 = 0`, `clipLo 3 0 = 3` -/
def clipLo (v lo : γ) : γ := if v < lo then lo else v

/-- `np.clip(v, None, hi)` (= `np.minimum(v, hi)`).  `clipHi 7 5 = 5`, `clipHi 3 5 = 3` -/
def clipHi (v hi : γ) : γ := if hi < v then hi else v

end Order

/-- `np.searchsorted(x, q, side='right')` for a SORTED (non-decreasing) `x`: the number of leading elements `≤ q`
(for an unsorted `x` NumPy's bisection returns something else; sortedness is the documented precondition).
`searchsortedRight [1, 2, 2, 5] 2 = 3` -/
def searchsortedRight {γ : Type} [LE γ] [DecidableLE γ] : List γ → γ → Nat
  | [], _ => 0
  | a :: as, q => if a ≤ q then searchsortedRight as q + 1 else 0

/-! ### triangular matrices of a 1-d array, means -/
section Tri
variable {γ : Type} [OfNat γ 0]

/-- row `i` of `np.tril(v, k=0)` for a 1-d `v` (NumPy broadcasts `v` to `len(v)` equal rows first): `v[j]` for `j ≤ i`, else `0`.
`trilRow [1, 2, 3] 1 = [1, 2, 0]` -/
def trilRow (v : List γ) (i : Nat) : List γ := v.take (i + 1) ++ List.replicate (v.length - (i + 1)) 0

/-- row `i` of `np.triu(v, k=0)` for a 1-d `v`: `v[j]` for `j ≥ i`, else `0`.  `triuRow [1, 2, 3] 1 = [0, 2, 3]` -/
def triuRow (v : List γ) (i : Nat) : List γ := List.replicate (min i v.length) 0 ++ v.drop i

/-- `np.mean(x)` as `np.sum(x) / len(x)`: for an empty `x` this is `0 / 0` of the number type (`nan` in NumPy, with a
RuntimeWarning and no exception).  `meanT [1, 2, 6] = 3` -/
def meanT [Add γ] [Div γ] [NatCast γ] (x : List γ) : γ := Cplx.sumL x / ((x.length : Nat) : γ)

end Tri

/-- `np.linspace(0, 1.0, n)` (exact values `i / (n - 1)`; for `n = 1` the single entry is `0 / 0` of the number type — `0` in an exact
field, while NumPy returns `[0.]`).  `linspace01 3 = [0, 1/2, 1]` -/
def linspace01 {γ : Type} [Div γ] [NatCast γ] (n : Nat) : List γ :=
  (List.range n).map fun (i : Nat) => ((i : Nat) : γ) / (((n - 1 : Nat) : Nat) : γ)

/-! ### complex arrays, transforms along an axis (targets of the Stockwell translation) -/
section Cx
variable {α β : Type} [Add β] [Mul β] [Div β] [OfNat β 0] [NatCast α] [CxLike α β]

/-- `scipy.linalg.toeplitz(c, r)`: first column `c`, first row `[c[0], r[1:]]` (SciPy ignores `r[0]`): `T[i][j] = c[i-j]` for `j ≤ i`,
`r[j-i]` for `j > i`.  `toeplitz [1, 2] [9, 5, 6] = [[1, 5, 6], [2, 1, 5]]` -/
def toeplitz {γ : Type} [OfNat γ 0] (c r : List γ) : List (List γ) :=
  (List.range c.length).map (fun i => (List.range r.length).map (fun j =>
    if j ≤ i then c.getD (i - j) 0 else r.getD (j - i) 0))

/-- `np.fft.ifft(M, axis=1)` of a 2-d array given by rows: the inverse transform of every row at its own length; `ValueError`
("Invalid number of FFT data points") when the rows are empty (an array without rows is returned unchanged) -/
def ifftRowsE (tw : Nat → Nat → β) (M : List (List β)) : Except ErrKind (List (List β)) :=
  M.mapM (fun row => NpE.ifft tw row row.length)

end Cx

/-- `np.argmax(M, axis=0)` of a rectangular 2-d array given by rows: for every column the row index of its first maximum;
`ValueError` ("attempt to get argmax of an empty sequence") for an array without rows.  `argmaxAxis0E [[1, 5], [3, 2]] = .ok [1, 0]` -/
def argmaxAxis0E {γ : Type} [LT γ] [DecidableLT γ] [OfNat γ 0] (M : List (List γ)) : Except ErrKind (List Nat) :=
  if M.length = 0 then .error .ValueError
  else .ok ((List.range ((M.head?.map List.length).getD 0)).map (fun j => Np.argmax (M.map (fun row => row.getD j 0))))

/-! ### Python float arithmetic -/

/-- `a / b` for Python FLOATS (not NumPy scalars): `ZeroDivisionError` for `b == 0`.  `pyDivE 1 0 = .error .ZeroDivisionError` -/
def pyDivE {γ : Type} [Div γ] [BEq γ] [OfNat γ 0] (a b : γ) : Except ErrKind γ :=
  if b == 0 then .error .ZeroDivisionError else .ok (a / b)

end EqsigVerif.NpR
