import EqsigVerif.Prelude.Np
import EqsigVerif.Prelude.Wire
import EqsigVerif.Prelude.Cplx
/-!
# NumPy / Python primitives WITH their exceptions (Mathlib-free) — targets of `tools/py2lean_x_freq.py`

The translator plug-in `py2lean_x_freq.py` maps every Python statement to one line of an `Except ErrKind` `do` block.  A call that
can raise is mapped to one of the combinators below (`let x ← NpE.f …`); a call that cannot is mapped to a total combinator of
`Prelude/Np.lean`, `Prelude/Cplx.lean`, core `List`, or to one of the total combinators of the second half of this file.

Each definition states the Python expression it stands for and which exception it reproduces.
(They are *assumed* to be the NumPy behaviour, like `Prelude/Np.lean`; to be validated by `harness/prelude_check.py`.)
-/
namespace EqsigVerif.NpE
open EqsigVerif EqsigVerif.Wire EqsigVerif.Cplx

/-! ### integer helpers -/

/-- `int(np.ceil(np.log2(n)))` for a non-negative integer `n`: the least `e` with `n ≤ 2^e`;
`n = 0`: `np.log2(0) = -inf`, `int(-inf)` raises `OverflowError` (`ErrKind.Other`). -/
def ceilLog2 (n : Nat) : Except ErrKind Nat :=
  if n = 0 then .error .Other else .ok (if n ≤ 1 then 0 else Nat.log2 (n - 1) + 1)

/-- `assert b` -/
def assertE (b : Bool) : Except ErrKind Unit := if b then .ok () else .error .AssertionError

/-! ### transforms (`tw N m` stands for `e^{-2πi m/N}`, external assumption `FftIsDft`) -/
section FFT
variable {α β : Type} [Add β] [Mul β] [OfNat β 0]

/-- `np.fft.fft(x, n=N)` (and `np.fft.fft(x)` with `N = len(x)`): `ValueError` ("Invalid number of FFT data points") for `N = 0` -/
def fft (tw : Nat → Nat → β) (x : List β) (N : Nat) : Except ErrKind (List β) :=
  if N = 0 then .error .ValueError else .ok (dft tw x N)

variable [Div β] [NatCast α] [CxLike α β]

/-- `np.fft.ifft(X, n=N)` (and `np.fft.ifft(X)` with `N = len(X)`): `ValueError` for `N = 0` -/
def ifft (tw : Nat → Nat → β) (X : List β) (N : Nat) : Except ErrKind (List β) :=
  if N = 0 then .error .ValueError else .ok (idft tw X N)

end FFT

/-! ### partial list operations -/
section Partial
variable {γ : Type}

/-- `x[i]` for a non-negative integer `i`: `IndexError` when out of range -/
def getE (x : List γ) (i : Nat) : Except ErrKind γ :=
  match x[i]? with
  | some v => .ok v
  | none => .error .IndexError

/-- `x[-1]`: `IndexError` for an empty array -/
def lastE (x : List γ) : Except ErrKind γ :=
  match x.getLast? with
  | some v => .ok v
  | none => .error .IndexError

variable [LT γ] [DecidableLT γ]

/-- Python's `max(x)` / `np.max(x)`: `ValueError` for an empty sequence -/
def maxE (x : List γ) : Except ErrKind γ :=
  match Np.maxL? x with
  | some v => .ok v
  | none => .error .ValueError

/-- `np.argmin(x)`: `ValueError` for an empty sequence -/
def argminE (x : List γ) : Except ErrKind Nat :=
  if x.length = 0 then .error .ValueError else .ok (Np.argmin x)

/-- `np.argmax(x)`: `ValueError` for an empty sequence -/
def argmaxE (x : List γ) : Except ErrKind Nat :=
  if x.length = 0 then .error .ValueError else .ok (Np.argmax x)

end Partial

/-! ### total list operations not in `Prelude/Np.lean` -/
section Total
variable {γ : Type}

/-- the array after `a[lo:hi] = rhs` when `len(rhs) = hi - lo` and `lo ≤ hi ≤ len(a)` (NumPy raises a broadcasting `ValueError`
for another length of `rhs` unless it is 1; the callers' lengths are fixed by construction and proved in the bridge) -/
def setSlice (a : List γ) (lo hi : Nat) (rhs : List γ) : List γ := a.take lo ++ rhs ++ a.drop hi

/-- `np.zeros(n)` -/
def zeros [OfNat γ 0] (n : Nat) : List γ := List.replicate n 0

/-- `np.flip(x, axis=0)` of a 1-D array -/
def flip (x : List γ) : List γ := x.reverse

/-- `x[:-k]` for a non-negative integer `k` (`x[:-0]` is `x[:0]`, the empty array) -/
def dropLast (x : List γ) (k : Nat) : List γ := if k = 0 then [] else x.take (x.length - k)

/-- start/stop of a Python slice bound: negative counts from the end, then clipped to `[0, n]` -/
def pyBound (n : Nat) (i : Int) : Nat :=
  let j : Int := if i < 0 then i + n else i
  if j < 0 then 0 else if j > n then n else j.toNat

/-- `x[:i]` for a Python integer `i` -/
def pySliceTo (x : List γ) (i : Int) : List γ := x.take (pyBound x.length i)
/-- `x[i:]` for a Python integer `i` -/
def pySliceFrom (x : List γ) (i : Int) : List γ := x.drop (pyBound x.length i)

/-- `np.ones(k)` for a Python integer `k`: `ValueError` ("negative dimensions are not allowed") for `k < 0` -/
def onesE [OfNat γ 1] (k : Int) : Except ErrKind (List γ) :=
  if k < 0 then .error .ValueError else .ok (List.replicate k.toNat 1)

/-- `np.mean(x)`; `none` stands for the `nan` NumPy returns for an empty array (RuntimeWarning, no exception) -/
def mean? [Add γ] [Div γ] [OfNat γ 0] [NatCast γ] (x : List γ) : Option γ :=
  if x.length = 0 then none else some (Cplx.sumL x / ((x.length : Nat) : γ))

end Total

end EqsigVerif.NpE
