import EqsigVerif.Prelude.Np
import EqsigVerif.Prelude.Wire
/-!
# NumPy / Python primitives used by `tools/py2lean_x_peaks.py` (Mathlib-free)

Targets of the translator plug-in for `eqsig/fns/peaks_and_crossings.py`.  Calls that can raise return `Except ErrKind`; every
definition names the NumPy / Python expression it stands for and has a tiny kernel-checked example.  They are *assumed* to be the
NumPy behaviour (like `Prelude/Np.lean`, `Prelude/NpE.lean`) and are to be validated by `harness/prelude_check.py`.
-/
namespace EqsigVerif.NpP
open EqsigVerif EqsigVerif.Wire

variable {β : Type}

/-! ### index normalisation, `np.take`, `np.put`, `np.delete` -/

/-- Python / NumPy normalisation of one integer index `i` against a length `n`: `i` for `0 ≤ i < n`, `i + n` for `-n ≤ i < 0`,
`none` otherwise (`IndexError`). -/
def wrapIdx (n : Nat) (i : Int) : Option Nat :=
  if 0 ≤ i then (if i < n then some i.toNat else none)
  else if 0 ≤ i + n then some (i + n).toNat else none

example : wrapIdx 3 (-1) = some 2 ∧ wrapIdx 3 2 = some 2 ∧ wrapIdx 3 3 = none ∧ wrapIdx 3 (-4) = none := ⟨rfl, rfl, rfl, rfl⟩

/-- `np.take(l, idx)` for an array `idx` of non-negative integers: `IndexError` when an index is `≥ len(l)`. -/
def takeE [Inhabited β] (l : List β) (idx : List Nat) : Except ErrKind (List β) :=
  if idx.all (fun i => decide (i < l.length)) then .ok (Np.takeIdx l idx) else .error .IndexError

example : takeE [5, 6, 7] [2, 0] = .ok [7, 5] ∧ takeE [5, 6, 7] [3] = .error .IndexError ∧
    takeE ([] : List Nat) [] = .ok [] := ⟨rfl, rfl, rfl⟩

/-- `np.take(l, idx)` for an array `idx` of (possibly negative) integers: negative indices count from the end,
`IndexError` outside `[-len(l), len(l))`. -/
def takeIE (l : List β) (idx : List Int) : Except ErrKind (List β) :=
  idx.mapM (fun i => match wrapIdx l.length i with
    | some k => (match l[k]? with | some x => .ok x | none => .error .IndexError)
    | none => .error .IndexError)

example : takeIE [5, 6, 7] [0, -1] = .ok [5, 7] ∧ takeIE [5, 6, 7] [-4] = .error .IndexError ∧
    takeIE ([] : List Nat) [0, -1] = .error .IndexError := ⟨rfl, rfl, rfl⟩

/-- worker of `np.put`: the values are consumed in step with the indices and start again from the beginning (`all`) when
they run out ("if `v` is shorter than `ind` it will be repeated as necessary") -/
def putCyc (all : List β) : List β → List Nat → List β → List β
  | base, [], _ => base
  | base, i :: is, v :: vs => putCyc all (base.set i v) is vs
  | base, i :: is, [] =>
    match all with
    | [] => base
    | v :: vs => putCyc all (base.set i v) is vs

/-- `np.put(base, idx, vals)` (the new content of `base`) for an array `idx` of non-negative integers: `IndexError` when an
index is `≥ len(base)` (default `mode='raise'`); `vals` repeated when shorter than `idx`, surplus values ignored; nothing is
written (and nothing raised) when `vals` is empty. -/
def putE (base : List β) (idx : List Nat) (vals : List β) : Except ErrKind (List β) :=
  if vals.isEmpty then .ok base
  else if idx.all (fun i => decide (i < base.length)) then .ok (putCyc vals base idx vals) else .error .IndexError

example : putE [0, 0, 0, 0] [0, 1, 2] [5, 6] = .ok [5, 6, 5, 0] ∧ putE [0, 0] [2] [1] = .error .IndexError ∧
    putE [0, 0] [9] [] = .ok [0, 0] ∧ putE [0, 0, 0] [2, 0] [7, 8, 9] = .ok [8, 0, 7] := ⟨rfl, rfl, rfl, rfl⟩

/-- `np.put(base, idx, vals)` for an array `idx` of (possibly negative) integers -/
def putIE (base : List β) (idx : List Int) (vals : List β) : Except ErrKind (List β) :=
  if vals.isEmpty then .ok base
  else match idx.mapM (fun i => wrapIdx base.length i) with
    | some is => .ok (putCyc vals base is vals)
    | none => .error .IndexError

example : putIE [0, 0, 0, 0] [-1, 0] [1, 2, 3] = .ok [2, 0, 0, 1] ∧ putIE [0, 0] [0, 2] [1, 2] = .error .IndexError := ⟨rfl, rfl⟩

/-- positions `i, i+1, …` of `l` that are not listed in `rem` -/
def deleteFrom (rem : List Nat) (i : Nat) : List β → List β
  | [] => []
  | x :: xs => if i ∈ rem then deleteFrom rem (i+1) xs else x :: deleteFrom rem (i+1) xs

/-- `np.delete(l, rem)` for a Python list `rem` of non-negative integers (duplicates allowed): `IndexError` when a position is
`≥ len(l)`. -/
def deleteE (l : List β) (rem : List Nat) : Except ErrKind (List β) :=
  if rem.all (fun i => decide (i < l.length)) then .ok (deleteFrom rem 0 l) else .error .IndexError

example : deleteE [1, 2, 3] [0, 0, 2] = .ok [2] ∧ deleteE [1, 2, 3] [] = .ok [1, 2, 3] ∧
    deleteE [1, 2, 3] [0, 3] = .error .IndexError := ⟨rfl, rfl, rfl⟩

/-! ### slices and in-place slice updates -/

/-- worker of `sliceStep`: `k` = number of elements still to skip before the next kept one -/
def strideAux (step : Nat) : Nat → List β → List β
  | _, [] => []
  | 0, x :: xs => x :: strideAux step (step - 1) xs
  | k + 1, _ :: xs => strideAux step k xs

/-- Python slice `l[start::step]` for integer literals `start ≥ 0`, `step ≥ 1` -/
def sliceStep (l : List β) (start step : Nat) : List β := strideAux step 0 (l.drop start)

example : sliceStep [1, 2, 3, 4, 5] 1 2 = [2, 4] ∧ sliceStep [1, 2, 3, 4, 5] 0 2 = [1, 3, 5] ∧
    sliceStep ([] : List Nat) 1 2 = [] := ⟨rfl, rfl, rfl⟩

/-- the array after `l[k:] += s` (`k ≥ 0`) -/
def iaddFrom [Add β] (l : List β) (k : Nat) (s : β) : List β := l.take k ++ (l.drop k).map (· + s)

example : iaddFrom [0, 1, 2] 1 10 = [0, 11, 12] ∧ iaddFrom ([] : List Nat) 1 10 = [] := ⟨rfl, rfl⟩

/-! ### element-wise -/

/-- `np.sign(x)` of a real number: `-1`, `0` or `1` -/
def sign [LT β] [DecidableLT β] [Neg β] [OfNat β 0] [OfNat β 1] (x : β) : β :=
  if x < 0 then -1 else if 0 < x then 1 else 0

example : sign (-3 : Int) = -1 ∧ sign (0 : Int) = 0 ∧ sign (7 : Int) = 1 := ⟨rfl, rfl, rfl⟩

/-! ### sorting an index array -/

/-- insertion into an ascending list -/
def insertAsc (a : Nat) : List Nat → List Nat
  | [] => [a]
  | b :: bs => if a ≤ b then a :: b :: bs else b :: insertAsc a bs

/-- the content of an integer index array after `ndarray.sort()` (ascending; insertion sort — only the value matters) -/
def sortAsc (l : List Nat) : List Nat := l.foldr insertAsc []

example : sortAsc [3, 1, 2, 1] = [1, 1, 2, 3] := rfl

/-! ### Python `for` loops as folds of an extracted step function (a raised exception ends the loop) -/

/-- `for k, x in enumerate(l): s = step(s, k, x)`, counting from `k` -/
def forEnumFrom {σ : Type} (step : σ → Nat → β → Except ErrKind σ) : Nat → List β → σ → Except ErrKind σ
  | _, [], s => .ok s
  | k, x :: xs, s =>
    match step s k x with
    | .error e => .error e
    | .ok s' => forEnumFrom step (k+1) xs s'

/-- `for k, x in enumerate(l): s = step(s, k, x)` -/
def forEnumE {σ : Type} (step : σ → Nat → β → Except ErrKind σ) (l : List β) (s : σ) : Except ErrKind σ :=
  forEnumFrom step 0 l s

example : forEnumE (fun (s : Nat) k (x : Nat) => if x = 9 then .error .ValueError else .ok (s + k * x)) [5, 6, 7] 0 = .ok 20 ∧
    forEnumE (fun (s : Nat) k (x : Nat) => if x = 9 then .error .ValueError else .ok (s + k * x)) [5, 9, 7] 0 = .error .ValueError := ⟨rfl, rfl⟩

/-- `for i in range(a, a + n): s = step(s, i)` -/
def forCountFrom {σ : Type} (step : σ → Nat → Except ErrKind σ) : Nat → Nat → σ → Except ErrKind σ
  | _, 0, s => .ok s
  | a, n + 1, s =>
    match step s a with
    | .error e => .error e
    | .ok s' => forCountFrom step (a+1) n s'

/-- `for i in range(a, b): s = step(s, i)` (no iteration when `b ≤ a`) -/
def forRangeE {σ : Type} (step : σ → Nat → Except ErrKind σ) (a b : Nat) (s : σ) : Except ErrKind σ :=
  forCountFrom step a (b - a) s

example : forRangeE (fun (s : List Nat) i => .ok (s ++ [i])) 1 4 [] = .ok [1, 2, 3] ∧
    forRangeE (fun (s : List Nat) i => .ok (s ++ [i])) 3 1 [] = .ok [] := ⟨rfl, rfl⟩

/-- the value of the loop variable `i` read **after** `for i in range(a, b): …`: the last value `b - 1`; when the loop did not
run the name is unbound (`UnboundLocalError`, reported as `ErrKind.Other`) -/
def lastRangeE (a b : Nat) : Except ErrKind Nat := if a < b then .ok (b - 1) else .error .Other

example : lastRangeE 1 4 = .ok 3 ∧ lastRangeE 1 1 = .error .Other := ⟨rfl, rfl⟩

end EqsigVerif.NpP
