import EqsigVerif.Prelude.NpP
/-!
# `np.unique` on index arrays (Mathlib-free) — target of `tools/py2lean_x_peaks.py`

`np.unique(ar)` of a 1-D integer array, as NumPy computes it (`numpy/lib/_arraysetops_impl.py::_unique1d`):
`ar.sort()`, then the mask `concatenate(([True], ar[1:] != ar[:-1]))` keeps the first element of every run of equal values.
Assumed to be the NumPy behaviour; validated by the differential test `np.u.unique` / `np.u.dedup_adj` (`Handlers/PreludeU.lean`,
generator lines in NOTES.md of the delivery `fx_f123`).
-/
namespace EqsigVerif.NpU
open EqsigVerif

/-- `ar[np.concatenate(([True], ar[1:] != ar[:-1]))]`: the first element of every run of equal adjacent values -/
def dedupAdj : List Nat → List Nat
  | [] => []
  | [a] => [a]
  | a :: b :: rest => if a = b then dedupAdj (b :: rest) else a :: dedupAdj (b :: rest)

example : dedupAdj [0, 0, 1, 1, 1, 0, 2] = [0, 1, 0, 2] ∧ dedupAdj [] = [] ∧ dedupAdj [4] = [4] := ⟨rfl, rfl, rfl⟩

/-- `np.unique(l)` for a 1-D array of non-negative integers: the sorted distinct values (never raises; `[]` for `[]`) -/
def unique (l : List Nat) : List Nat := dedupAdj (NpP.sortAsc l)

example : unique [3, 1, 2, 1, 3] = [1, 2, 3] ∧ unique [0, 0] = [0] ∧ unique [] = [] ∧ unique [0, 3, 5, 7] = [0, 3, 5, 7] :=
  ⟨rfl, rfl, rfl, rfl⟩

end EqsigVerif.NpU
