import EqsigVerif.Model.Frequency
import EqsigVerif.Gen.KoWindow
/-!
# C07.c — translator tie: the Konno–Ohmachi window expression REGENERATED from `eqsig/fns/frequency.py`
(`band * log10(f / fc)`, `(sin(x)/x) ** 4`, `np.where(x == 0, 1, ·)`; in `calc_smooth_fa_spectrum` and in
`calc_smoothing_matrix_konno_1998`) is the hand model's `koWindow`.
-/
namespace EqsigVerif.Props.C07
open EqsigVerif

variable {α : Type} [Add α] [Mul α] [Div α] [Neg α] [OfNat α 0] [OfNat α 1] [LT α] [DecidableLT α] [BEq α]

/-- direct form (`calc_smooth_fa_spectrum`) -/
theorem gen_ko_window_direct (sin log10 : α → α) (band f fc : α) :
    Gen.KoWindow.koWindowDirect sin log10 band f fc = Model.Frequency.koWindow sin log10 band f fc := rfl

/-- matrix form (`calc_smoothing_matrix_konno_1998`) -/
theorem gen_ko_window_matrix (sin log10 : α → α) (band f fc : α) :
    Gen.KoWindow.koWindowMatrix sin log10 band f fc = Model.Frequency.koWindow sin log10 band f fc := rfl

/-- the two functions use the same window -/
theorem gen_ko_windows_agree (sin log10 : α → α) (band f fc : α) :
    Gen.KoWindow.koWindowDirect sin log10 band f fc = Gen.KoWindow.koWindowMatrix sin log10 band f fc := rfl

end EqsigVerif.Props.C07
