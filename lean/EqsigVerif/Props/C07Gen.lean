import EqsigVerif.Model.Frequency
import EqsigVerif.Gen.KoWindow
import Mathlib.Tactic.Ring
import Mathlib.Tactic.FieldSimp
import Mathlib.Tactic.SplitIfs
import Mathlib.Data.Real.Basic
/-!
# C07.c — translator tie: the Konno–Ohmachi window expression REGENERATED from `eqsig/fns/frequency.py`
(`band * log10(f / fc)`, `(sin(x)/x) ** 4`, `np.where(x == 0, 1, ·)`; in `calc_smooth_fa_spectrum` and in
`calc_smoothing_matrix_konno_1998`) is the hand model's `koWindow`, as a real function for arbitrary `sin`, `log10`
(proved semantically: first `rfl`, otherwise case analysis + field algebra, so `sin(x)**4 / x**4` would be accepted while
another exponent, argument or replacement value is not).
-/
namespace EqsigVerif.Props.C07
open EqsigVerif

macro "window_bridge" : tactic =>
  `(tactic| first
    | rfl
    | (simp only [Gen.KoWindow.koWindowDirect, Gen.KoWindow.koWindowMatrix, Gen.KoWindow.koArgDirect, Gen.KoWindow.koArgMatrix,
         Gen.KoWindow.koRawDirect, Gen.KoWindow.koRawMatrix, Model.Frequency.koWindow, Model.Frequency.koArg,
         Model.Frequency.koRaw, beq_iff_eq] <;>
       split_ifs <;> first
        | rfl
        | (ring_nf; done)
        | (field_simp; done)
        | (field_simp <;> ring_nf <;> done)
        | (simp_all; done)))

/-- direct form (`calc_smooth_fa_spectrum`) -/
theorem gen_ko_window_direct (sin log10 : ℝ → ℝ) (band f fc : ℝ) :
    Gen.KoWindow.koWindowDirect sin log10 band f fc = Model.Frequency.koWindow sin log10 band f fc := by
  window_bridge

/-- matrix form (`calc_smoothing_matrix_konno_1998`) -/
theorem gen_ko_window_matrix (sin log10 : ℝ → ℝ) (band f fc : ℝ) :
    Gen.KoWindow.koWindowMatrix sin log10 band f fc = Model.Frequency.koWindow sin log10 band f fc := by
  window_bridge

/-- the two functions use the same window -/
theorem gen_ko_windows_agree (sin log10 : ℝ → ℝ) (band f fc : ℝ) :
    Gen.KoWindow.koWindowDirect sin log10 band f fc = Gen.KoWindow.koWindowMatrix sin log10 band f fc := by
  rw [gen_ko_window_direct, gen_ko_window_matrix]

end EqsigVerif.Props.C07
