import EqsigVerif.Model.FreqMoments
import EqsigVerif.Gen.FreqMoments
import EqsigVerif.Gen.FreqGrid
import EqsigVerif.Lemmas.FreqMoments
import EqsigVerif.Lemmas.NpE
import EqsigVerif.Lemmas.CplxC
import EqsigVerif.Props.C06Gen
import EqsigVerif.Props.C06Moments
/-!
# C06 — translator tie: Fourier moments, Boore bandwidth and `fas2signal`, REGENERATED from the source

`Gen/FreqMoments.lean` is regenerated on every run by `tools/py2lean_x_freq2.py` from `eqsig/fns/frequency.py`
(`calc_fourier_moment`, `get_bandwidth_boore_2003`, `fas2signal`).  The bridges are equalities FOR ALL ARGUMENTS, ERRORS INCLUDED,
over any number types (core classes: they hold for the `Float` twin as well); the consequence theorems restate the C06 moment
clauses about the generated code.
-/
set_option linter.unusedSectionVars false
set_option linter.unusedVariables false
namespace EqsigVerif.Props.C06
open EqsigVerif EqsigVerif.Cplx EqsigVerif.Wire

section Bridges
variable {α β : Type} [Add β] [Sub β] [Mul β] [Div β] [OfNat β 0] [Mul α] [OfNat α 1] [OfNat α 2] [CxLike α β]

/-- **bridge** `calc_fourier_moment(asig, n)`: generated = model (`emb` = the real-to-complex embedding), for all arguments: the
`AttributeError` of a NumPy without `np.trapz`, the broadcasting `ValueError`s and the value -/
theorem gen_calc_fourier_moment (hasTrapz : Bool) (pi : α) (freqs : List α) (fas : List β) (n : ℕ) :
    Gen.FreqMoments.calcFourierMoment hasTrapz pi freqs fas n =
      Model.FreqMoments.fourierMoment (CxLike.ofReal : α → β) hasTrapz pi freqs fas n := by
  simp only [Gen.FreqMoments.calcFourierMoment, Model.FreqMoments.fourierMoment, List.map_map, Function.comp_def, bind, Except.bind,
    pure, Except.pure]
  cases NpF.attrE hasTrapz with
  | error e => rfl
  | ok u =>
    simp only []
    cases NpF.zipBE (fun (r : α) (z : β) => CxLike.ofReal r * z) (freqs.map (fun x => NpF.powN ((2 : α) * pi * x) n))
        (fas.map (fun z => z * z)) with
    | error e => rfl
    | ok y =>
      simp only []
      cases NpF.trapzE (CxLike.ofReal (2 : α)) y (freqs.map (CxLike.ofReal : α → β)) <;> rfl

end Bridges

section Boore
variable {β : Type} [Mul β] [Div β]

/-- **bridge** `get_bandwidth_boore_2003(asig)`: generated = model for every moment function (errors of the three calls in order
`m0, m2, m4`) and every `np.sqrt` -/
theorem gen_bandwidth_boore (moment : ℕ → Except ErrKind β) (csqrt : β → β) :
    Gen.FreqMoments.getBandwidthBoore2003 moment csqrt = Model.FreqMoments.boore csqrt moment := by
  simp only [Gen.FreqMoments.getBandwidthBoore2003, Model.FreqMoments.boore, Model.FreqMoments.booreRatio, bind, Except.bind, pure,
    Except.pure]
  cases moment 0 with
  | error e => rfl
  | ok m0 =>
    simp only []
    cases moment 2 with
    | error e => rfl
    | ok m2 =>
      simp only []
      cases moment 4 <;> rfl

end Boore

section Fas2Signal
variable {α β : Type} [Add β] [Mul β] [Div β] [OfNat β 0] [NatCast α] [CxLike α β]

/-- the generated class tag ↦ the model's -/
def genSigClass : Gen.FreqMoments.SigClass → Model.FreqMoments.SigClass
  | .signal => .signal
  | .accSignal => .accSignal

/-- the generated `stype` value ↦ "is the literal 'signal'" -/
def genIsSignal : Gen.FreqMoments.SType → Bool
  | .signal => true
  | .other => false

/-- **bridge** `fas2signal(fas, dt, stype)`: the generated function (its own copy of the Hermitian re-assembly, `/ dt`, `ifft`,
truncation, then the constructor call selected by `stype == 'signal'`) = the model, i.e. `fas2values` wrapped in the class tag -/
theorem gen_fas2signal (tw : ℕ → ℕ → β) (fas : List β) (dt : α) (st : Gen.FreqMoments.SType) :
    (Gen.FreqMoments.fas2signal tw fas dt st).map (fun p => (genSigClass p.1, p.2)) =
      Model.FreqMoments.fas2signal tw fas dt (genIsSignal st) := by
  have key : ∀ (c : Gen.FreqMoments.SigClass),
      (do
        let e1 ← NpE.ifft tw ((NpE.setSlice (NpE.setSlice (NpE.zeros (2 * fas.length) : List β) 1 ((2 * fas.length) / 2) (fas.drop 1))
          (((2 * fas.length) / 2) + 1) (NpE.setSlice (NpE.zeros (2 * fas.length) : List β) 1 ((2 * fas.length) / 2) (fas.drop 1)).length
          (NpE.flip ((fas.drop 1).map CxLike.conj))).map (fun z => z / CxLike.ofReal dt))
          ((NpE.setSlice (NpE.setSlice (NpE.zeros (2 * fas.length) : List β) 1 ((2 * fas.length) / 2) (fas.drop 1))
          (((2 * fas.length) / 2) + 1) (NpE.setSlice (NpE.zeros (2 * fas.length) : List β) 1 ((2 * fas.length) / 2) (fas.drop 1)).length
          (NpE.flip ((fas.drop 1).map CxLike.conj))).map (fun z => z / CxLike.ofReal dt)).length
        pure (c, e1.take (2 * fas.length), dt) : Except ErrKind (Gen.FreqMoments.SigClass × List β × α)) =
      (Gen.FreqGrid.fas2values tw fas dt).map (fun s => (c, s, dt)) := by
    intro c
    simp only [Gen.FreqGrid.fas2values, bind, Except.bind, pure, Except.pure, Except.map]
    split <;> simp_all
  cases st with
  | signal =>
    simp only [Gen.FreqMoments.fas2signal, key, genIsSignal, Model.FreqMoments.fas2signal, ← gen_fas2values]
    cases Gen.FreqGrid.fas2values tw fas dt <;> rfl
  | other =>
    simp only [Gen.FreqMoments.fas2signal, key, genIsSignal, Model.FreqMoments.fas2signal, ← gen_fas2values]
    cases Gen.FreqGrid.fas2values tw fas dt <;> rfl

/-- the default `stype` of the signature is the literal the code tests for: `fas2signal(fas, dt)` returns a `Signal` -/
theorem gen_fas2signal_default : genIsSignal Gen.FreqMoments.fas2signalDefaultStype = true := rfl

/-- **C06.g for the generated `fas2signal`** (relation to `fas2values`): same exceptions; on success the class is `Signal` iff
`stype == 'signal'`, the values are exactly those of the generated `fas2values`, `dt` is passed through; `2·len(fas)` samples -/
theorem gen_fas2signal_spec (tw : ℕ → ℕ → β) (fas : List β) (dt : α) (st : Gen.FreqMoments.SType) :
    (∀ e, Gen.FreqMoments.fas2signal tw fas dt st = .error e ↔ Gen.FreqGrid.fas2values tw fas dt = .error e) ∧
    (∀ c s d, Gen.FreqMoments.fas2signal tw fas dt st = .ok (c, s, d) →
      Gen.FreqGrid.fas2values tw fas dt = .ok s ∧ d = dt ∧ (c = .signal ↔ st = .signal) ∧ s.length = 2 * fas.length) := by
  have hb := gen_fas2signal tw fas dt st
  have hlen := gen_fas2values_length tw fas dt
  rw [gen_fas2values] at *
  simp only [Model.FreqMoments.fas2signal] at hb
  constructor
  · intro e
    cases hv : Model.Frequency.fas2values tw fas dt with
    | error e' =>
      rw [hv] at hb
      cases hg : Gen.FreqMoments.fas2signal tw fas dt st with
      | error e'' => rw [hg] at hb; simp only [Except.map] at hb; injection hb with h; subst h; simp
      | ok p => rw [hg] at hb; simp [Except.map] at hb
    | ok s =>
      rw [hv] at hb
      cases hg : Gen.FreqMoments.fas2signal tw fas dt st with
      | error e'' => rw [hg] at hb; simp [Except.map] at hb
      | ok p => simp
  · intro c s d hg
    rw [hg] at hb
    cases hv : Model.Frequency.fas2values tw fas dt with
    | error e' => rw [hv] at hb; simp [Except.map] at hb
    | ok s' =>
      rw [hv] at hb
      simp only [Except.map, Except.ok.injEq, Prod.mk.injEq] at hb
      obtain ⟨hc, hs, hd⟩ := hb
      subst hs hd
      refine ⟨rfl, rfl, ?_, ?_⟩
      · cases st <;> cases c <;> simp_all [genSigClass, genIsSignal]
      · by_cases hf : fas = []
        · have := hlen.1 hf; rw [hv] at this; cases this
        · obtain ⟨s2, h2, hl⟩ := hlen.2 hf
          rw [hv] at h2; cases h2; exact hl

end Fas2Signal

/-! ## consequences: the C06 moment clauses about the generated code -/

/-- a real spectrum: the real numbers as "complex numbers over themselves" (`asig.fa_spectrum` real, e.g. an amplitude spectrum) -/
local instance instCxLikeRealSelf : CxLike ℝ ℝ where
  ofReal := fun x => x
  conj := fun x => x
  re := fun x => x
  im := fun _ => 0
  normSq := fun x => x * x

/-- **Boore bandwidth in [0, 1] for the generated code**: `get_bandwidth_boore_2003` composed of the generated
`calc_fourier_moment`, on a real spectrum over an ascending frequency grid (NumPy with `np.trapz`) -/
theorem gen_boore_mem_unit (pi : ℝ) (f A : List ℝ) (hf : f.Pairwise (· ≤ ·)) (h : f.length = A.length) :
    ∃ b, Gen.FreqMoments.getBandwidthBoore2003 (Gen.FreqMoments.calcFourierMoment true pi f A) Real.sqrt = .ok b ∧ 0 ≤ b ∧ b ≤ 1 := by
  rw [gen_bandwidth_boore]
  have : (fun n => Gen.FreqMoments.calcFourierMoment true pi f A n) = Model.FreqMoments.fourierMoment (fun x => x) true pi f A := by
    funext n; rw [gen_calc_fourier_moment]; rfl
  rw [show Gen.FreqMoments.calcFourierMoment true pi f A = fun n => Gen.FreqMoments.calcFourierMoment true pi f A n from rfl, this]
  exact boore_mem_unit pi f A hf h

/-- **Cauchy–Schwarz for the generated moments** (real spectrum, ascending grid): `m2² ≤ m0·m4` -/
theorem gen_moment_m2_sq_le (pi : ℝ) (f A : List ℝ) (hf : f.Pairwise (· ≤ ·)) (h : f.length = A.length) :
    ∃ m0 m2 m4, Gen.FreqMoments.calcFourierMoment true pi f A 0 = .ok m0 ∧ Gen.FreqMoments.calcFourierMoment true pi f A 2 = .ok m2 ∧
      Gen.FreqMoments.calcFourierMoment true pi f A 4 = .ok m4 ∧ 0 ≤ m0 ∧ 0 ≤ m4 ∧ m2 ^ 2 ≤ m0 * m4 := by
  refine ⟨_, _, _, ?_, ?_, ?_, moment_nonneg_even pi f A 0 hf, moment_nonneg_even pi f A 2 hf, moment_m2_sq_le pi f A hf⟩ <;>
    · rw [gen_calc_fourier_moment]; exact Model.FreqMoments.fourierMoment_ok (fun x => x) pi f A _ h

/-- **outcome of the generated `calc_fourier_moment`** on a NumPy without `np.trapz` (2.4 and later): `AttributeError`, whatever
the arguments -/
theorem gen_moment_no_trapz {α β : Type} [Add β] [Sub β] [Mul β] [Div β] [OfNat β 0] [Mul α] [OfNat α 1] [OfNat α 2] [CxLike α β]
    (pi : α) (freqs : List α) (fas : List β) (n : ℕ) :
    Gen.FreqMoments.calcFourierMoment false pi freqs fas n = .error .AttributeError := by
  rw [gen_calc_fourier_moment]; rfl

/-- **the [0,1] clause is false of the generated code for a complex spectrum** (what a `Signal` has): spectrum `[1, i, 2]` on the grid
`[0, 1, 2]` gives `np.sqrt(98/93)`, for every `pi ≠ 0` -/
theorem gen_boore_complex_counterexample (pi : ℝ) (hpi : pi ≠ 0) (csqrt : ℂ → ℂ) :
    Gen.FreqMoments.getBandwidthBoore2003 (Gen.FreqMoments.calcFourierMoment true pi [0, 1, 2] [1, Complex.I, 2]) csqrt =
      .ok (csqrt (98 / 93)) := by
  rw [gen_bandwidth_boore]
  have : Gen.FreqMoments.calcFourierMoment true pi [0, 1, 2] [1, Complex.I, 2] =
      Model.FreqMoments.fourierMoment (Complex.ofRealHom : ℝ →+* ℂ) true pi [0, 1, 2] [1, Complex.I, 2] := by
    funext n; rw [gen_calc_fourier_moment]; rfl
  rw [this]
  simp only [Model.FreqMoments.boore,
    boore_complex_spectrum_counterexample (Complex.ofRealHom : ℝ →+* ℂ) pi hpi Complex.I Complex.I_mul_I]

/-! ## concrete instances of the generated definitions (kernel-checked) -/
section Examples

example : Gen.FreqMoments.calcFourierMoment true (3 : ℚ) [0, 1, 2] ([⟨1, 0⟩, ⟨0, 1⟩, ⟨2, 0⟩] : List (Cx ℚ)) 2 = .ok ⟨504, 0⟩ := by
  decide +kernel
example : Gen.FreqMoments.calcFourierMoment false (3 : ℚ) [0, 1, 2] ([⟨1, 0⟩, ⟨0, 1⟩, ⟨2, 0⟩] : List (Cx ℚ)) 2 = .error .AttributeError := by
  decide +kernel
example : Gen.FreqMoments.calcFourierMoment true (3 : ℚ) [0, 1, 2] ([⟨1, 0⟩, ⟨0, 1⟩] : List (Cx ℚ)) 2 = .error .ValueError := by
  decide +kernel
example : Gen.FreqMoments.getBandwidthBoore2003
    (Gen.FreqMoments.calcFourierMoment true (3 : ℚ) [0, 1, 2] ([⟨1, 0⟩, ⟨0, 1⟩, ⟨2, 0⟩] : List (Cx ℚ))) (fun z => z) = .ok ⟨98 / 93, 0⟩ := by
  decide +kernel

def twQ4' (N m : ℕ) : Cx ℚ := (twExact? N m).getD ⟨0, 0⟩
def f2' : List (Cx ℚ) := [⟨3, 0⟩, ⟨-1, -1⟩]

example : Gen.FreqMoments.fas2signal twQ4' f2' (1/2 : ℚ) .signal = .ok (.signal, [⟨-1, 0⟩, ⟨1, 0⟩, ⟨1, 0⟩, ⟨-1, 0⟩], 1/2) := by decide +kernel
example : Gen.FreqMoments.fas2signal twQ4' f2' (1/2 : ℚ) .other = .ok (.accSignal, [⟨-1, 0⟩, ⟨1, 0⟩, ⟨1, 0⟩, ⟨-1, 0⟩], 1/2) := by decide +kernel
example : Gen.FreqMoments.fas2signal twQ4' ([] : List (Cx ℚ)) (1/2 : ℚ) .signal = .error .ValueError := by decide +kernel

end Examples

end EqsigVerif.Props.C06
