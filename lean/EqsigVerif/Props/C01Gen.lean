import EqsigVerif.Model.Sdof
import EqsigVerif.Model.SdofLoopGen
import EqsigVerif.Gen.SdofLoop
import EqsigVerif.Gen.Consts
import EqsigVerif.Lemmas.SdofLoopGen
import EqsigVerif.Props.C01
/-!
# C01 — translator tie for `nigam_and_jennings_response` (sign, zero-period rule, recurrence loop, third series)

`Gen/SdofLoop.lean` is regenerated on every run from the current `eqsig/sdof.py` by `tools/py2lean_x_sdof.py`.
Bridges: the generated pieces equal the hand model `Model/Sdof.lean` (`step`, `run`, `accRow`, `response`), so the
C01 theorems are statements about the code as it is now (consequence theorems at the end).
-/
set_option linter.unusedSectionVars false
set_option linter.unusedVariables false
set_option linter.unreachableTactic false
namespace EqsigVerif.Props.C01
open EqsigVerif EqsigVerif.Model.Sdof EqsigVerif.Model.SdofLoopGen

/-! ## bridges that hold by unfolding, for every number type -/
section Core
variable {α : Type} [Add α] [Sub α] [Mul α] [Div α] [Neg α] [BEq α] [OfNat α 0] [OfNat α 2] [OfScientific α]

/-- `acc = -np.array(acc, dtype=float)`: the record is negated, as in `Model.Sdof.response` -/
theorem gen_negAcc (acc : List α) : Gen.SdofLoop.negAcc acc = acc.map (fun x => -x) := rfl

/-- `w = 6.2831853 / periods[s:]` with `s` from `periods[0] == 0` -/
theorem gen_omegas (p0 : α) (rest : List α) :
    Gen.SdofLoop.omegas (Gen.SdofLoop.startIdx p0) (p0 :: rest) =
      if p0 == 0 then rest.map (fun p => Gen.SdofLoop.njConst / p)
      else (p0 :: rest).map (fun p => Gen.SdofLoop.njConst / p) := by
  unfold Gen.SdofLoop.omegas Gen.SdofLoop.startIdx
  split <;> rfl

end Core

/-- the literal of `w = <literal> / periods[s:]` is the constant `Gen.Consts.njTwoPiRat` of C01.f -/
theorem gen_njConst : (Gen.SdofLoop.njConst : Rat) = Gen.Consts.njTwoPiRat := by decide +kernel

/-! ## the loop and the whole function (proved, over a commutative ring / field) -/
section Ring
variable {α : Type} [CommRing α]

/-- loop body of `nigam_and_jennings_response` = Eq 2.7a of the model (semantic: up to commutative-ring identities; the
order-of-operations version is `gen_step_rfl` in `Props/C01GenRfl.lean`) -/
theorem gen_step (m : AB α) (x : α × α) (ai ai1 : α) : Gen.SdofLoop.step m x ai ai1 = step m x ai ai1 := by
  refine Prod.ext ?_ ?_ <;> (simp only [Gen.SdofLoop.step, step] <;> ring)

/-- `sdof_acc = -2 * xi * w * resp_v - w2 * resp_u` (`else:` branch) is the model's third series -/
theorem gen_accExpr (xi w : α) (uv : List (α × α)) : uv.map (Gen.SdofLoop.accExpr xi w) = accRow xi w uv := by
  simp only [accRow]
  apply List.map_congr_left
  intro x _
  simp only [Gen.SdofLoop.accExpr] <;> ring

/-- the same expression in the branch `if s:` -/
theorem gen_accExprLead (xi w : α) (uv : List (α × α)) : uv.map (Gen.SdofLoop.accExprLead xi w) = accRow xi w uv := by
  simp only [accRow]
  apply List.map_congr_left
  intro x _
  simp only [Gen.SdofLoop.accExprLead] <;> ring

/-- the `for i in range(len(acc) - 1)` loop on two zero rows yields the model's state series `run m acc`
(`acc` = the negated record) -/
theorem gen_runRow (m : AB α) (acc : List α) :
    Gen.SdofLoop.runRow m acc = ((run m acc).map (·.1), (run m acc).map (·.2)) :=
  loop_eq_run m (Gen.SdofLoop.step m) (gen_step m) acc

end Ring

section Field
variable {α : Type} [Field α] [BEq α]

theorem zip_fst_snd {β : Type} (uv : List (β × β)) : List.zip (uv.map (fun x => x.1)) (uv.map (fun x => x.2)) = uv := by
  induction uv with
  | nil => rfl
  | cons a l ih => simp_all

/-- **bridge for the whole function**: `nigam_and_jennings_response(acc, dt, periods, xi)` as generated
(`cab` = `compute_a_and_b`) returns the three 2-D arrays made of the rows of the model's `response`, with the source's
constant, the test `periods[0] == 0` and the propagator `w ↦ compute_a_and_b(xi, w, dt)`. -/
theorem gen_response (cab : α → α → α → AB α) (xi dt : α) (acc periods : List α) :
    Gen.SdofLoop.response cab xi dt acc periods =
      (response Gen.SdofLoop.njConst (fun p => p == 0) (fun w => cab xi w dt) xi acc periods).map unzip3 := by
  cases periods with
  | nil => rfl
  | cons p0 rest =>
    unfold Gen.SdofLoop.response
    simp only [gen_omegas, gen_runRow, Gen.SdofLoop.negAcc]
    by_cases h : (p0 == 0) = true
    · rw [response_cons_zero _ (fun p => p == 0) _ _ _ _ _ h]
      simp only [h, Gen.SdofLoop.startIdx, if_true, Option.map_some, unzip3, setRowsFrom, zeros2, zeroRow]
      simp [List.zipWith_map, List.zipWith_self, zip_fst_snd, gen_accExprLead, Function.comp_def, List.replicate_succ, rowOf, rowFor]
    · have h' : (p0 == 0) = false := by simpa using h
      rw [response_cons_nonzero _ (fun p => p == 0) _ _ _ _ _ h']
      simp only [h', Gen.SdofLoop.startIdx, Option.map_some, unzip3, setRowsFrom, zeros2]
      simp [List.zipWith_map, List.zipWith_self, zip_fst_snd, gen_accExpr, Function.comp_def, rowOf, rowFor]

/-- inversion of `gen_response`: the three generated arrays are the component rows of the model's response -/
theorem gen_response_some (cab : α → α → α → AB α) (xi dt : α) (acc periods : List α) (U V A : List (List α))
    (h : Gen.SdofLoop.response cab xi dt acc periods = some (U, V, A)) :
    ∃ r, response Gen.SdofLoop.njConst (fun p => p == 0) (fun w => cab xi w dt) xi acc periods = some r ∧
      U = r.map (·.1) ∧ V = r.map (·.2.1) ∧ A = r.map (·.2.2) := by
  rw [gen_response] at h
  cases hr : response Gen.SdofLoop.njConst (fun p => p == 0) (fun w => cab xi w dt) xi acc periods with
  | none => rw [hr] at h; cases h
  | some r =>
    rw [hr] at h
    simp only [Option.map_some, unzip3, Option.some.injEq, Prod.mk.injEq] at h
    exact ⟨r, rfl, h.1.symm, h.2.1.symm, h.2.2.symm⟩

/-! ## consequence theorems: the C01 statements about the generated code -/

/-- **C01.d** (shape) for the generated function: one row per period in each of the three arrays, every row as long
as the record. -/
theorem gen_resp_shape (cab : α → α → α → AB α) (xi dt : α) (acc periods : List α) (U V A : List (List α))
    (h : Gen.SdofLoop.response cab xi dt acc periods = some (U, V, A)) :
    U.length = periods.length ∧ V.length = periods.length ∧ A.length = periods.length ∧
      (∀ row ∈ U, row.length = acc.length) ∧ (∀ row ∈ V, row.length = acc.length) ∧ (∀ row ∈ A, row.length = acc.length) := by
  obtain ⟨r, hr, rfl, rfl, rfl⟩ := gen_response_some cab xi dt acc periods U V A h
  obtain ⟨hl, hrow⟩ := resp_shape _ _ _ xi acc periods r hr
  refine ⟨by simp [hl], by simp [hl], by simp [hl], ?_, ?_, ?_⟩ <;>
  · intro row hm
    obtain ⟨t, ht, rfl⟩ := List.mem_map.mp hm
    first | exact (hrow t ht).1 | exact (hrow t ht).2.1 | exact (hrow t ht).2.2

/-- **C01.d** (third series) for the generated function: for every non-zero period `p` the row of `sdof_acc` is
`−(2ξw·v + w²·u)` of the rows of `resp_u`, `resp_v`, with `w = 6.2831853 / p`. -/
theorem gen_resp_acc_series (cab : α → α → α → AB α) (xi dt : α) (acc periods : List α) (U V A : List (List α))
    (h : Gen.SdofLoop.response cab xi dt acc periods = some (U, V, A))
    (j : Nat) (p : α) (hj : periods[j]? = some p) (hp : (p == 0) = false) :
    ∃ u v a, U[j]? = some u ∧ V[j]? = some v ∧ A[j]? = some a ∧
      a = List.zipWith (fun u v => -(2 * xi * (Gen.SdofLoop.njConst / p) * v + (Gen.SdofLoop.njConst / p) ^ 2 * u)) u v := by
  obtain ⟨r, hr, rfl, rfl, rfl⟩ := gen_response_some cab xi dt acc periods U V A h
  obtain ⟨row, hrow, hacc⟩ := resp_acc_series _ (fun p => p == 0) _ xi acc periods r hr j p hj hp
  exact ⟨row.1, row.2.1, row.2.2, by simp [hrow], by simp [hrow], by simp [hrow], hacc⟩

/-- **C01.e** for the generated function: a leading period `0` gives zero `u`, `v` rows and the sign-flipped record as
acceleration row. -/
theorem gen_resp_leading_zero (cab : α → α → α → AB α) (xi dt : α) (acc : List α) (p0 : α) (rest : List α)
    (h0 : (p0 == 0) = true) :
    ∃ U V A, Gen.SdofLoop.response cab xi dt acc (p0 :: rest) = some (U, V, A) ∧
      U[0]? = some (List.replicate acc.length 0) ∧ V[0]? = some (List.replicate acc.length 0) ∧
      A[0]? = some (acc.map (fun x => -x)) := by
  rw [gen_response, resp_leading_zero _ (fun p => p == 0) _ xi acc p0 rest h0]
  exact ⟨_, _, _, rfl, rfl, rfl, rfl⟩

end Field

/-! ## real-number consequences (the propagator is the generated `compute_a_and_b`) -/
section Real
open EqsigVerif.Gen.SdofAB

/-- **C01.a** for the generated loop body: one pass of the body with the generated `compute_a_and_b` is the exact
solution of `φ'' + 2ξw φ' + w² φ = f₀ + (f₁ − f₀) τ / dt` over one panel (record negated as the code does). -/
theorem gen_nj_step_exact (xi w dt u0 v0 f0 f1 : ℝ) (hw : 0 < w) (hdt : 0 < dt) (hxi0 : 0 ≤ xi) (hxi1 : xi < 1) :
    ∃ φ φ' : ℝ → ℝ,
      (∀ τ, HasDerivAt φ (φ' τ) τ) ∧
      (∀ τ, HasDerivAt φ' (f0 + (f1 - f0) * τ / dt - 2 * xi * w * φ' τ - w ^ 2 * φ τ) τ) ∧
      φ 0 = u0 ∧ φ' 0 = v0 ∧
      (φ dt, φ' dt) = Gen.SdofLoop.step (computeABReal xi w dt) (u0, v0) (-f0) (-f1) := by
  rw [gen_step]
  exact nj_step_exact xi w dt u0 v0 f0 f1 hw hdt hxi0 hxi1

theorem gen_njConst_pos : (0 : ℝ) < Gen.SdofLoop.njConst := by
  unfold Gen.SdofLoop.njConst; norm_num

/-- **C01.c** for the generated function: for every strictly positive period `T`, the rows of `resp_u`, `resp_v`
returned for it are the samples of the chain of exact panel solutions for the record `acc` (right-hand side `+acc`),
with `w = 6.2831853 / T`. -/
theorem gen_resp_series_exact (xi dt : ℝ) (hdt : 0 < dt) (hxi0 : 0 ≤ xi) (hxi1 : xi < 1)
    (acc ps : List ℝ) (U V A : List (List ℝ))
    (hr : Gen.SdofLoop.response computeABReal xi dt acc ps = some (U, V, A))
    (j : Nat) (T : ℝ) (hj : ps[j]? = some T) (hT : 0 < T) :
    ∃ u v : List ℝ, U[j]? = some u ∧ V[j]? = some v ∧
      ∃ (hu : u.length = acc.length) (hv : v.length = acc.length),
        (∀ h : 0 < acc.length, u[0] = 0 ∧ v[0] = 0) ∧
        ∀ (i : Nat) (hi : i + 1 < acc.length), ∃ φ φ' : ℝ → ℝ,
          (∀ τ, HasDerivAt φ (φ' τ) τ) ∧
          (∀ τ, HasDerivAt φ' (acc[i] + (acc[i + 1] - acc[i]) * τ / dt
              - 2 * xi * (Gen.SdofLoop.njConst / T) * φ' τ - (Gen.SdofLoop.njConst / T) ^ 2 * φ τ) τ) ∧
          φ 0 = u[i] ∧ φ' 0 = v[i] ∧ φ dt = u[i + 1] ∧ φ' dt = v[i + 1] := by
  obtain ⟨r, hr', rfl, rfl, rfl⟩ := gen_response_some computeABReal xi dt acc ps U V A hr
  have hTz : (fun p : ℝ => p == 0) T = false := by simpa using hT.ne'
  obtain ⟨u, v, a, hrow, hu, hv, h0, hpan⟩ := resp_series_exact Gen.SdofLoop.njConst xi dt gen_njConst_pos hdt hxi0 hxi1
    (fun p => p == 0) acc ps r hr' j T hj hT hTz
  exact ⟨u, v, by simp [hrow], by simp [hrow], hu, hv, h0, hpan⟩

end Real

/-! ## concrete instances of every generated definition (`ℚ`; `cabQ` stands in for `compute_a_and_b`) -/
private def cabQ : Rat → Rat → Rat → AB Rat := fun xi w dt => ⟨1, dt, -w, 1 / 2, xi, 2, 3, -1⟩

example : Gen.SdofLoop.negAcc ([1, 0, -2] : List Rat) = [-1, 0, 2] := by decide +kernel
example : Gen.SdofLoop.startIdx (0 : Rat) = 1 ∧ Gen.SdofLoop.startIdx (3 : Rat) = 0 := by decide +kernel
example : Gen.SdofLoop.omegas (Gen.SdofLoop.startIdx (0 : Rat)) [0, 6.2831853, 3.14159265] = [1, 2] := by decide +kernel
example : Gen.SdofLoop.step (cabQ (1/2) 1 (1/4)) (2, -3) 5 7 = (71/4, 9/2) := by decide +kernel
example : Gen.SdofLoop.runRow (cabQ (1/2) 1 (1/4)) [-1, 0, -2] = ([0, -1/2, -21/4], [0, -3, 1]) := by decide +kernel
example : Gen.SdofLoop.accExpr (1/2 : Rat) 2 (3, 5) = -22 ∧ Gen.SdofLoop.accExprLead (1/2 : Rat) 2 (3, 5) = -22 := by
  decide +kernel
example : Gen.SdofLoop.response cabQ (1/2) (1/4) [1, 0, 2] [0, 6.2831853]
    = some ([[0, 0, 0], [0, -1/2, -21/4]], [[0, 0, 0], [0, -3, 1]], [[-1, 0, -2], [0, 7/2, 17/4]]) := by decide +kernel
example : Gen.SdofLoop.response cabQ (1/2) (1/4) [1, 0, 2] [6.2831853, 3.14159265]
    = some ([[0, -1/2, -21/4], [0, -1/2, -21/4]], [[0, -3, 1], [0, -3, 3/2]], [[0, 7/2, 17/4], [0, 8, 18]]) := by
  decide +kernel
example : Gen.SdofLoop.response cabQ (1/2) (1/4) [1, 0, 2] [] = none := by decide +kernel

end EqsigVerif.Props.C01
