import EqsigVerif.Model.SwitchedOut
import EqsigVerif.Lemmas.Scale
/-!
# C13 (extension) — scale invariance of the *repaired* `get_switched_peak_array_indices` (finding F12-3)

`Props/C13Scale.lean` proves `scale_switched_peaks(_tol)` about the loop `switchedPeaks`; the public function now returns
`switchedPeaksOut = np.unique ∘ switchedPeaks` (`Model/SwitchedOut.lean`), so the same invariance holds for what the function returns.
-/
namespace EqsigVerif.Props.C13
open EqsigVerif EqsigVerif.Model.Switched

/-- `get_switched_peak_array_indices(α·values, |α|·tol) = get_switched_peak_array_indices(values, tol)` (repaired function), `α ≠ 0` -/
theorem scale_switched_out_tol (v : List ℚ) (α : ℚ) (hα : α ≠ 0) (tol : ℚ) :
    switchedPeaksOut (v.map (α * ·)) (|α| * tol) = switchedPeaksOut v tol := by
  unfold switchedPeaksOut
  rw [Lemmas.Scale.switchedPeaks_scale_tol α hα v tol]

example : switchedPeaksOut (([0, 1, 3, 2, -2, -1, -4, 0, 0, 5, 1] : List ℚ).map ((-2 : ℚ) * ·)) (|(-2 : ℚ)| * (3/2)) =
      switchedPeaksOut [0, 1, 3, 2, -2, -1, -4, 0, 0, 5, 1] (3/2) ∧
    switchedPeaksOut ([0, 1, 3, 2, -2, -1, -4, 0, 0, 5, 1] : List ℚ) (3/2) = [0, 2, 6, 9] :=
  ⟨scale_switched_out_tol _ _ (by norm_num) _, by decide +kernel⟩

/-- the default `tol = 0`: the returned indices are invariant under every `α ≠ 0` (in particular under negation) -/
theorem scale_switched_out (v : List ℚ) (α : ℚ) (hα : α ≠ 0) :
    switchedPeaksOut (v.map (α * ·)) 0 = switchedPeaksOut v 0 := by
  have h := scale_switched_out_tol v α hα 0
  rwa [mul_zero] at h

example : switchedPeaksOut (([0, 0, 0] : List ℚ).map ((-3/2 : ℚ) * ·)) 0 = [0] ∧ switchedPeaksOut ([0, 0, 0] : List ℚ) 0 = [0] := by
  rw [scale_switched_out _ _ (by norm_num)]
  exact ⟨by decide +kernel, by decide +kernel⟩

/-- with the error branch (empty series: `IndexError` on both sides) -/
theorem scale_switched_outE (v : List ℚ) (α : ℚ) (hα : α ≠ 0) (tol : ℚ) :
    switchedPeaksOutE (v.map (α * ·)) (|α| * tol) = switchedPeaksOutE v tol := by
  unfold switchedPeaksOutE
  rw [scale_switched_out_tol v α hα tol]
  simp

example : switchedPeaksOutE (([] : List ℚ).map ((3 : ℚ) * ·)) (|(3 : ℚ)| * 1) = .error .IndexError := by
  rw [scale_switched_outE _ _ (by norm_num)]; rfl

end EqsigVerif.Props.C13
