import EqsigVerif.Model.Loader
import EqsigVerif.Gen.Consts
/-!
# C16 — translator tie for the two format strings of `save_values_and_dt`

`Gen/Consts.lean` is regenerated on every run; `loaderDtDecimals` / `loaderValueDecimals` are the digit counts parsed from the
format strings `"%i %.4f"` and `"%.6f"` of the source. The model's writer uses exactly those precisions, so the round-trip bounds
`½·10⁻⁴` / `½·10⁻⁶` of `Props/C16.lean` are bounds for what the source writes now.
-/
namespace EqsigVerif.Props.C16
open EqsigVerif EqsigVerif.Model.Loader

/-- the header line is written with the source's dt precision -/
theorem gen_header_format (n : Nat) (dt : Rat) :
    headerL n dt = EqsigVerif.Fmt.fmtIntL (n : Int) ++ ' ' :: EqsigVerif.Fmt.fmtFixedL dt Gen.Consts.loaderDtDecimals := rfl

/-- every value line is written with the source's value precision -/
theorem gen_value_format (values : List Rat) (dt : Rat) (label : List Char) :
    saveLines values dt label =
      label :: headerL values.length dt :: values.map (fun v => EqsigVerif.Fmt.fmtFixedL v Gen.Consts.loaderValueDecimals) := rfl

end EqsigVerif.Props.C16
