import EqsigVerif.Model.FreqMoments
import EqsigVerif.Gen.SmoothFreqs
import EqsigVerif.Gen.FreqBand
import EqsigVerif.Props.C07GenBand
import EqsigVerif.Props.C07SmoothFreqs
/-!
# C07 — translator tie: `get_sig_freq_range`, the deprecated smoothing alias and the smoothing-frequency code of `Signal`, REGENERATED

`Gen/SmoothFreqs.lean` is regenerated on every run by `tools/py2lean_x_freq2.py` from `eqsig/fns/frequency.py`
(`get_sig_freq_range`, `generate_smooth_fa_spectrum`) and `eqsig/single.py` (`Signal.set_smooth_fa_frequecies_by_range`, the
`smooth_freq_range` / `smooth_freq_points` getters and setters, the `smooth_fa_freqs` / `smooth_fa_frequencies` setters,
`gen_smooth_fa_spectrum`, the constructor's default grid).  Bridges: equalities for all arguments, errors included, over any
number type; calls of other eqsig functions are parameters of the generated definitions and are instantiated here by THEIR generated
definitions (`Gen/FreqBand.lean`).
-/
set_option linter.unusedSectionVars false
set_option linter.unusedVariables false
set_option linter.unusedSimpArgs false
set_option linter.unreachableTactic false
namespace EqsigVerif.Props.C07
open EqsigVerif EqsigVerif.Cplx EqsigVerif.Wire

section Range
variable {α : Type} [Add α] [Mul α] [Div α] [Neg α] [OfNat α 0] [OfNat α 1] [LT α] [DecidableLT α] [BEq α]

/-- **bridge** `get_sig_freq_range(asig, ratio)`: the generated function, with the generated `get_sig_array_indexes_range` as its
callee, is the model (the two-element array as a pair), for all arguments, errors included -/
theorem gen_get_sig_freq_range (smooth freqs : List α) (ratio : α) :
    Gen.SmoothFreqs.getSigFreqRange Gen.FreqBand.sigArrayIndexesRange smooth freqs ratio =
      (Model.FreqMoments.sigFreqRange smooth freqs ratio).map (fun p => [p.1, p.2]) := by
  simp only [Gen.SmoothFreqs.getSigFreqRange, gen_sig_array_indexes_range, Model.FreqMoments.sigFreqRange, bind, Except.bind,
    pure, Except.pure]
  cases Model.Frequency.sigArrayIndexesRange smooth ratio with
  | error e => rfl
  | ok p =>
    obtain ⟨a, b⟩ := p
    simp only [NpF.takeE, NpE.getE, List.mapM_cons, List.mapM_nil, bind, Except.bind, pure, Except.pure]
    cases freqs[a]? <;> cases freqs[b]? <;> rfl

/-- the default `ratio` of `get_sig_freq_range` is that of `get_sig_array_indexes_range` -/
theorem gen_sig_freq_range_default : Gen.SmoothFreqs.getSigFreqRangeDefaultRatio = 15 ∧
    Gen.SmoothFreqs.getSigFreqRangeDefaultRatio = Gen.FreqBand.sigArrayIndexesRangeDefaultRatio := by
  constructor <;> decide +kernel

end Range

section Alias
variable {α : Type}

/-- **bridge** the deprecated `generate_smooth_fa_spectrum(sm, f, A, band)` calls `calc_smooth_fa_spectrum(f, A, sm, band)` —
for EVERY callee (the argument permutation is the content) -/
theorem gen_generate_smooth_alias (callee : List α → List α → Option (List α) → α → Except ErrKind (List α))
    (smooth? : Option (List α)) (faFreqs A : List α) (band : α) :
    Gen.SmoothFreqs.generateSmoothFaSpectrum callee smooth? faFreqs A band = callee faFreqs A smooth? band := by
  cases smooth? <;> simp only [Gen.SmoothFreqs.generateSmoothFaSpectrum, bind, Except.bind, pure, Except.pure] <;>
    (cases callee faFreqs A _ band <;> rfl)

/-- … and with the generated `calc_smooth_fa_spectrum` as callee it is the model's alias (over `ℝ`, arbitrary `sin`, `log10`) -/
theorem gen_generate_smooth_alias_model (sin log10 : ℝ → ℝ) (smooth? : Option (List ℝ)) (faFreqs A : List ℝ) (band : ℝ)
    (hl : A.length = faFreqs.length) :
    Gen.SmoothFreqs.generateSmoothFaSpectrum (Gen.FreqBand.calcSmoothFaSpectrum sin log10) smooth? faFreqs A band =
      Model.FreqMoments.generateSmoothFaSpectrum sin log10 smooth? faFreqs A band := by
  rw [gen_generate_smooth_alias, gen_calc_smooth_fa_spectrum sin log10 faFreqs A smooth? band hl]
  rfl

theorem gen_alias_default_band : Gen.SmoothFreqs.generateSmoothFaSpectrumDefaultBand = Gen.FreqBand.calcSmoothFaSpectrumDefaultBand := by
  decide +kernel

end Alias

section Setters
variable {α : Type} [Add α] [Sub α] [Mul α] [Div α] [NatCast α] [OfNat α 0] [BEq α]

theorem getE_map {γ δ : Type} (g : γ → δ) (l : List γ) (i : ℕ) :
    NpE.getE (l.map g) i = match l[i]? with | some v => .ok (g v) | none => .error .IndexError := by
  simp only [NpE.getE, List.getElem?_map]
  cases l[i]? <;> rfl

/-- **bridge** `Signal.set_smooth_fa_frequecies_by_range(limits, n_points)` -/
theorem gen_set_by_range (log10 pow10 : α → α) (limits : List α) (n : ℕ) :
    Gen.SmoothFreqs.setSmoothFaFrequeciesByRange log10 pow10 limits n = Model.FreqMoments.setByRange log10 pow10 limits n := by
  simp only [Gen.SmoothFreqs.setSmoothFaFrequeciesByRange, Model.FreqMoments.setByRange, Model.FreqMoments.logspaceOfLimits, getE_map,
    bind, Except.bind, pure, Except.pure]
  match limits with
  | [] => rfl
  | [_] => rfl
  | _ :: _ :: _ => rfl

/-- **bridge** the constructor's default grid: `set_smooth_fa_frequecies_by_range((0.1, 30), 50)` -/
theorem gen_ctor_defaults : Gen.SmoothFreqs.ctorSmoothFreqPoints = Model.FreqMoments.ctorPoints ∧
    Gen.SmoothFreqs.ctorSmoothFreqRange = [1 / 10, 30] := by
  constructor <;> decide +kernel

/-- **bridge** getter `smooth_freq_points` -/
theorem gen_freq_points_get (cur : List α) :
    Gen.SmoothFreqs.smoothFreqPoints cur = .ok (Model.FreqMoments.freqPointsGet cur) := rfl

/-- **bridge** getter `smooth_freq_range` -/
theorem gen_freq_range_get (cur : List α) :
    Gen.SmoothFreqs.smoothFreqRange cur = Model.FreqMoments.freqRangeGet cur := by
  simp only [Gen.SmoothFreqs.smoothFreqRange, Model.FreqMoments.freqRangeGet, NpE.getE, NpE.lastE, bind, Except.bind, pure, Except.pure]
  cases h0 : cur[0]? with
  | none =>
    have : cur = [] := by cases cur <;> simp_all
    subst this; rfl
  | some a => cases cur.getLast? <;> rfl

/-- **bridge** setter `smooth_freq_range = limits` (the array handed to the `smooth_fa_freqs` setter) -/
theorem gen_freq_range_set (log10 pow10 : α → α) (cur limits : List α) :
    Gen.SmoothFreqs.setSmoothFreqRange log10 pow10 cur limits = Model.FreqMoments.freqRangeSet log10 pow10 cur limits := by
  simp only [Gen.SmoothFreqs.setSmoothFreqRange, Model.FreqMoments.freqRangeSet, Model.FreqMoments.logspaceOfLimits,
    Model.FreqMoments.freqPointsGet, getE_map, bind, Except.bind, pure, Except.pure]
  match limits with
  | [] => rfl
  | [_] => rfl
  | _ :: _ :: _ => rfl

/-- **bridge** setter `smooth_freq_points = value` -/
theorem gen_freq_points_set (log10 pow10 : α → α) (cur : List α) (value : ℕ) :
    Gen.SmoothFreqs.setSmoothFreqPoints log10 pow10 cur value = Model.FreqMoments.freqPointsSet log10 pow10 cur value := by
  simp only [Gen.SmoothFreqs.setSmoothFreqPoints, Model.FreqMoments.freqPointsSet, ← gen_freq_range_get, Gen.SmoothFreqs.smoothFreqRange,
    NpE.getE, NpE.lastE, bind, Except.bind, pure, Except.pure]
  cases cur[0]? with
  | none => rfl
  | some a => cases cur.getLast? <;> rfl

/-- **bridge** the two setters `smooth_fa_freqs = x` / `smooth_fa_frequencies = x` store the array they are given -/
theorem gen_freq_setters (freqs : List α) :
    Gen.SmoothFreqs.setSmoothFaFreqs freqs = .ok freqs ∧ Gen.SmoothFreqs.setSmoothFaFrequencies freqs = .ok freqs := ⟨rfl, rfl⟩

end Setters

section Object
variable {α : Type} [Add α] [Sub α] [Mul α] [Div α] [Neg α] [NatCast α] [OfNat α 0] [OfNat α 1] [LT α] [DecidableLT α] [BEq α]

/-- **bridge** `Signal.gen_smooth_fa_spectrum(smooth_fa_freqs, band)`: with the model's `calc_smooth_fa_spectrum` as callee the
generated method is the model `signalGenSmooth`, for all arguments, errors included -/
theorem gen_signal_gen_smooth (sin log10 : α → α) (faFreqs absFas cur : List α) (given? : Option (List α)) (band : α) :
    Gen.SmoothFreqs.signalGenSmoothFaSpectrum (Model.Frequency.calcSmoothFaSpectrum sin log10) faFreqs absFas cur given? band =
      Model.FreqMoments.signalGenSmooth sin log10 faFreqs absFas given? cur band := by
  cases given? <;>
    simp only [Gen.SmoothFreqs.signalGenSmoothFaSpectrum, Model.FreqMoments.signalGenSmooth, Model.FreqMoments.smoothTargets,
      Option.getD, bind, Except.bind, pure, Except.pure] <;>
    (cases Model.Frequency.calcSmoothFaSpectrum sin log10 faFreqs absFas _ band <;> rfl)

theorem gen_signal_smooth_default_band : Gen.SmoothFreqs.signalGenSmoothDefaultBand = 40 ∧
    Gen.SmoothFreqs.signalGenerateSmoothDefaultBand = 40 ∧ Model.FreqMoments.defaultBand = 40 := by
  refine ⟨?_, ?_, rfl⟩ <;> decide +kernel

end Object

/-- **C07 object level = array level, for the generated code** (over `ℝ`): the generated `Signal.gen_smooth_fa_spectrum`, calling the
generated `calc_smooth_fa_spectrum`, stores the model's smoothed spectrum of the object's Fourier spectrum on exactly the given
targets — or the current ones when none is given — and leaves exactly those targets in `_smooth_fa_freqs` -/
theorem gen_signal_smooth_eq_array (sin log10 : ℝ → ℝ) (faFreqs absFas cur : List ℝ) (given? : Option (List ℝ)) (band : ℝ)
    (hl : absFas.length = faFreqs.length) :
    Gen.SmoothFreqs.signalGenSmoothFaSpectrum (Gen.FreqBand.calcSmoothFaSpectrum sin log10) faFreqs absFas cur given? band =
      (Model.Frequency.calcSmoothFaSpectrum sin log10 faFreqs absFas (some (given?.getD cur)) band).map (fun s => (s, given?.getD cur)) := by
  have h : Gen.FreqBand.calcSmoothFaSpectrum sin log10 faFreqs absFas = Model.Frequency.calcSmoothFaSpectrum sin log10 faFreqs absFas := by
    funext sm b; exact gen_calc_smooth_fa_spectrum sin log10 faFreqs absFas sm b hl
  have h2 : Gen.SmoothFreqs.signalGenSmoothFaSpectrum (Gen.FreqBand.calcSmoothFaSpectrum sin log10) faFreqs absFas cur given? band =
      Gen.SmoothFreqs.signalGenSmoothFaSpectrum (Model.Frequency.calcSmoothFaSpectrum sin log10) faFreqs absFas cur given? band := by
    cases given? <;> simp only [Gen.SmoothFreqs.signalGenSmoothFaSpectrum, h]
  rw [h2, gen_signal_gen_smooth, signal_smooth_eq_array]
  rfl

/-- **`get_sig_freq_range` ordered / bracketing, for the generated code** (C07.d) -/
theorem gen_sig_freq_range_ordered {α : Type} [Field α] [LinearOrder α] [IsStrictOrderedRing α] [BEq α]
    (smooth freqs : List α) (ratio m fa fb : α) (hm : Np.maxL? smooth = some m) (hs : freqs.Pairwise (· ≤ ·))
    (h : Gen.SmoothFreqs.getSigFreqRange Gen.FreqBand.sigArrayIndexesRange smooth freqs ratio = .ok [fa, fb]) :
    fa ≤ fb ∧ ∀ (k : ℕ) (s fk : α), smooth[k]? = some s → freqs[k]? = some fk → m / ratio < s → fa ≤ fk ∧ fk ≤ fb := by
  rw [gen_get_sig_freq_range] at h
  cases hq : Model.FreqMoments.sigFreqRange smooth freqs ratio with
  | error e => rw [hq] at h; simp [Except.map] at h
  | ok p =>
    rw [hq] at h
    simp only [Except.map, Except.ok.injEq, List.cons.injEq, and_true] at h
    obtain ⟨h1, h2⟩ := h
    obtain ⟨p1, p2⟩ := p
    simp only at h1 h2
    subst h1 h2
    exact sig_freq_range_ordered smooth freqs ratio m _ _ hm hs hq

/-! ## concrete instances of the generated definitions (kernel-checked) -/
section Examples

example : Gen.SmoothFreqs.getSigFreqRange Gen.FreqBand.sigArrayIndexesRange [1, 30, 4, 45, 2, (3 : ℚ)] [1/2, 1, 2, 4, 8, 16] 15 = .ok [1, 4] := by
  decide +kernel
example : Gen.SmoothFreqs.getSigFreqRange Gen.FreqBand.sigArrayIndexesRange [1, 30, 4, 45, 2, (3 : ℚ)] [1/2, 1, 2] 15 = .error .IndexError := by
  decide +kernel
example : Gen.SmoothFreqs.setSmoothFaFrequeciesByRange (fun (x : ℚ) => x) (fun x => 2 * x) [1, 3] 5 = .ok ([2, 3, 4, 5, 6], [1, 3]) := by
  decide +kernel
example : Gen.SmoothFreqs.smoothFreqRange ([1, 2, 4] : List ℚ) = .ok (1, 4) := by decide +kernel
example : Gen.SmoothFreqs.smoothFreqPoints ([1, 2, 4] : List ℚ) = .ok 3 := by decide +kernel
example : Gen.SmoothFreqs.setSmoothFreqRange (fun (x : ℚ) => x) (fun x => 2 * x) [7, 8, 9] [1, 3] = .ok [2, 4, 6] := by decide +kernel
example : Gen.SmoothFreqs.setSmoothFreqPoints (fun (x : ℚ) => x) (fun x => 2 * x) [1, 8, 3] 5 = .ok [2, 3, 4, 5, 6] := by decide +kernel
example : Gen.SmoothFreqs.setSmoothFreqPoints (fun (x : ℚ) => x) (fun x => 2 * x) [] 5 = .error .IndexError := by decide +kernel
example : Gen.SmoothFreqs.signalGenSmoothFaSpectrum (Model.Frequency.calcSmoothFaSpectrum (fun (x : ℚ) => x) (fun x => x))
    [0, 1, 2] [5, 3, 3] [1, 2] (some [2]) 40 = .ok ([3], [2]) := by decide +kernel
example : Gen.SmoothFreqs.generateSmoothFaSpectrum (Model.Frequency.calcSmoothFaSpectrum (fun (x : ℚ) => x) (fun x => x))
    (some [1, 2]) [0, 1, 2] [5, 3, 3] 40 = .ok [3, 3] := by decide +kernel

end Examples

end EqsigVerif.Props.C07
