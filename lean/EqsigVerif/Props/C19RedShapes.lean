import EqsigVerif.Model.Surface
import EqsigVerif.Lemmas.Surface
import EqsigVerif.Lemmas.SurfaceRed
/-!
# C19 — reduction shapes of `calc_surface_energy` / `calc_cum_abs_surface_energy` / `get_time_shift_motions`

`up_red`, `down_red` given as NumPy arrays of ANY length (`m = len(travel_times)`, `lu = len(up_red)`, `ld = len(down_red)`):
* legal (`RedLegal`): `ld ∈ {m, 1}` and (`lu ∈ {m, 1}` or `m = 1 ≤ lu`) — the result is the one for the written-out
  per-row reductions `bcastRed` (`up[i] = up_red[i]` if `lu = m` else `up_red[0]`; `down[i] = down_red[0]` if `ld = 1`
  else `down_red[i]`), for which every theorem of `Props/C19.lean` (guard `RedOK`) applies;
* illegal (`RedMismatch`): `ValueError` (NumPy broadcasting), for every option combination;
* `lu = 0` with `m = 1 = ld`: `IndexError`.
Guard as in `Props/C19.lean`: `dt ≠ 0`, non-empty record, `maxShift tts dt = .ok ms` (the code reaches stage 5).
-/
namespace EqsigVerif.Props.C19
open EqsigVerif EqsigVerif.Np EqsigVerif.Wire EqsigVerif.Model.Surface

/-- **C19 (reduction shapes, legal)** NumPy broadcasting of array reductions: for every legal shape the three
functions return exactly what they return for the written-out reductions `bcastRed red m` (one entry per travel
time; `RedOK`, so `surface_energy_def` & co. apply to the right-hand sides). No guard is needed: outside the guard
both sides raise the same error. -/
theorem reductions_broadcast (values : List ℚ) (dt : ℚ) (tts : List ℚ) (nodal : Bool) (red : Red)
    (stt : ℚ) (trim start : Bool) (hleg : RedLegal red tts.length) :
    RedOK (bcastRed red tts.length) tts.length ∧
    calcSurfaceEnergy values dt tts nodal red stt trim start
      = calcSurfaceEnergy values dt tts nodal (bcastRed red tts.length) stt trim start ∧
    calcCumAbsSurfaceEnergy values dt tts nodal red stt trim start
      = calcCumAbsSurfaceEnergy values dt tts nodal (bcastRed red tts.length) stt trim start ∧
    getTimeShiftMotions values dt tts nodal red stt trim start
      = getTimeShiftMotions values dt tts nodal (bcastRed red tts.length) stt trim start :=
  ⟨bcastRed_ok _ _, fns_of_accSeries_eq values dt tts nodal red _ stt trim start
    (accSeries_bcast values dt tts nodal red hleg)⟩

/-- `down_red` of length 1 with per-row `up_red`, three travel times -/
example : RedLegal (.rows [1, 1/2, 2] [3/4]) 3 ∧
    calcSurfaceEnergy [1, 2, -1, 3] (1/2) [1/8, 1/4, 1/2] true (bcastRed (.rows [1, 1/2, 2] [3/4]) 3) 0 true false
      = calcSurfaceEnergy [1, 2, -1, 3] (1/2) [1/8, 1/4, 1/2] true (.rows [1, 1/2, 2] [3/4, 3/4, 3/4]) 0 true false ∧
    calcSurfaceEnergy [1, 2, -1, 3] (1/2) [1/8, 1/4, 1/2] true (.rows [1, 1/2, 2] [3/4]) 0 true false
      = .ok (.rows [[0, 225/2048, 121/2048, 81/512], [0, 9/512, -1/32, -9/512], [0, 9/8, 841/512, 81/32]]) := by
  decide +kernel

/-- **C19 (reduction shapes, result)** under the guard, a legal shape gives (before trimming) the rows
`accRow … up[i] down[i]` with the broadcast factors, and `calc_surface_energy` is `trim_to_length` + squeeze of the
energy rows with those factors. -/
theorem reductions_broadcast_rows (values : List ℚ) (dt : ℚ) (tts : List ℚ) (nodal : Bool) (us ds : List ℚ) (ms : ℕ)
    (stt : ℚ) (trim start : Bool)
    (hdt : dt ≠ 0) (hv : values ≠ []) (hms : maxShift tts dt = .ok ms)
    (hleg : RedLegal (.rows us ds) tts.length) :
    calcSurfaceEnergy values dt tts nodal (.rows us ds) stt trim start =
      (trimToLength ((List.range tts.length).map (fun i =>
          energyRow values dt ms (2 * tts.getD i 0 / dt) nodal (bcastUp us tts.length i) (bcastDown ds i)))
        values.length tts dt trim start stt) >>= squeeze tts.length := by
  rw [(reductions_broadcast values dt tts nodal _ stt trim start hleg).2.1,
    calcSurfaceEnergy_general values dt tts nodal _ ms stt trim start hdt hv hms (bcastRed_ok _ _)]
  congr 2
  unfold specRows
  apply List.map_congr_left
  intro i hi
  have hi' : i < tts.length := by simpa using hi
  rw [(upOf_bcastRed_rows us ds tts.length i hi').1, (upOf_bcastRed_rows us ds tts.length i hi').2]

example : (List.range 2).map (fun i => (bcastUp [5] 2 i, bcastDown [7, 9] i)) = [(5, 7), (5, 9)] ∧
    (List.range 1).map (fun i => (bcastUp [5, 6, 8] 1 i, bcastDown [7] i)) = [(5, 7)] := by decide +kernel

/-- **C19 (length-1 arrays are scalars; a single travel time reads `up_red[0]` only)** under the guard:
(a) arrays of length 1 behave exactly like the Python scalars `up_red[0]`, `down_red[0]`;
(b) with ONE travel time, `down_red` of length 1 and ANY non-empty `up_red` (also longer than 1 — NumPy broadcasts the
single down-going row against `len(up_red)` up-going rows and every later stage reads row 0) the result is that of the
scalars `up_red[0]`, `down_red[0]`. -/
theorem reductions_len1_scalar (values : List ℚ) (dt : ℚ) (tts : List ℚ) (nodal : Bool) (u d : ℚ) (us : List ℚ)
    (ms : ℕ) (stt : ℚ) (trim start : Bool)
    (hdt : dt ≠ 0) (hv : values ≠ []) (hms : maxShift tts dt = .ok ms) :
    calcSurfaceEnergy values dt tts nodal (.rows [u] [d]) stt trim start
      = calcSurfaceEnergy values dt tts nodal (.scalar u d) stt trim start ∧
    (tts.length = 1 →
      calcSurfaceEnergy values dt tts nodal (.rows (u :: us) [d]) stt trim start
        = calcSurfaceEnergy values dt tts nodal (.scalar u d) stt trim start) := by
  have hm : tts.length ≠ 0 := by
    have := tts_ne_nil_of_maxShift tts dt ms hms
    simpa using this
  have key : ∀ us : List ℚ, (us = [] ∨ tts.length = 1) →
      accSeries values dt tts nodal (.rows (u :: us) [d]) = accSeries values dt tts nodal (.scalar u d) := by
    intro us hus
    have hleg : RedLegal (.rows (u :: us) [d]) tts.length := by
      refine ⟨?_, fun h => by cases h⟩
      rintro (⟨-, h⟩ | ⟨-, h1, h2⟩)
      · exact h rfl
      · rcases hus with rfl | h
        · exact h1 rfl
        · exact h2 h
    rw [(accSeries_outcome values dt tts nodal _ ms hdt hv hms).2.2 hleg,
      accSeries_general values dt tts nodal (.scalar u d) ms hdt hv hms trivial]
    congr 1
    apply specAccRows_congr
    intro i hi
    rw [(upOf_bcastRed_rows (u :: us) [d] tts.length i hi).1, (upOf_bcastRed_rows (u :: us) [d] tts.length i hi).2]
    simp only [upOf, downOf, bcastUp, bcastDown, List.length_cons, List.length_nil]
    refine ⟨?_, by simp⟩
    rcases hus with rfl | h
    · split
      · have : i = 0 := by simp at *; omega
        subst this; simp
      · simp
    · have : i = 0 := by omega
      subst this
      split <;> simp
  exact ⟨(fns_of_accSeries_eq values dt tts nodal _ _ stt trim start (key [] (Or.inl rfl))).1,
    fun h => (fns_of_accSeries_eq values dt tts nodal _ _ stt trim start (key us (Or.inr h))).1⟩

example : calcSurfaceEnergy [1, 2, -1, 3] (1/2) [1/2, 3/2] true (.rows [2] [1/2]) 0 true false
      = calcSurfaceEnergy [1, 2, -1, 3] (1/2) [1/2, 3/2] true (.scalar 2 (1/2)) 0 true false ∧
    calcSurfaceEnergy [1, 2, -1, 3] (1/2) [3/2] true (.rows [2, 7, -1] [1/2]) 0 true false
      = .ok (.row [0, 9/8, 2, 9/2]) ∧
    calcSurfaceEnergy [1, 2, -1, 3] (1/2) [3/2] true (.scalar 2 (1/2)) 0 true false = .ok (.row [0, 9/8, 2, 9/2]) := by
  decide +kernel

/-- **C19 (reduction shapes, illegal — error kinds)** under the guard, for EVERY option combination
(`nodal`, `stt`, `trim`, `start`) and all three functions:
* a shape NumPy cannot broadcast (`RedMismatch`: `ld ∉ {m, 1}`, or `lu ∉ {m, 1}` with `m ≠ 1`) raises `ValueError`;
* otherwise an empty `up_red` (then `m = 1 = ld`) raises `IndexError`;
* and the reduction stage succeeds exactly for the legal shapes. -/
theorem reductions_illegal_raise (values : List ℚ) (dt : ℚ) (tts : List ℚ) (nodal : Bool) (red : Red) (ms : ℕ)
    (stt : ℚ) (trim start : Bool)
    (hdt : dt ≠ 0) (hv : values ≠ []) (hms : maxShift tts dt = .ok ms) :
    (RedMismatch red tts.length →
      calcSurfaceEnergy values dt tts nodal red stt trim start = .error .ValueError ∧
      calcCumAbsSurfaceEnergy values dt tts nodal red stt trim start = .error .ValueError ∧
      getTimeShiftMotions values dt tts nodal red stt trim start = .error .ValueError) ∧
    (¬ RedMismatch red tts.length → RedEmptyUp red →
      calcSurfaceEnergy values dt tts nodal red stt trim start = .error .IndexError ∧
      calcCumAbsSurfaceEnergy values dt tts nodal red stt trim start = .error .IndexError ∧
      getTimeShiftMotions values dt tts nodal red stt trim start = .error .IndexError) ∧
    (RedLegal red tts.length ↔ ∃ acc, accSeries values dt tts nodal red = .ok acc) := by
  obtain ⟨h1, h2, h3⟩ := accSeries_outcome values dt tts nodal red ms hdt hv hms
  refine ⟨fun h => fns_of_accSeries_error values dt tts nodal red stt trim start _ (h1 h),
    fun h he => fns_of_accSeries_error values dt tts nodal red stt trim start _ (h2 h he), ?_, ?_⟩
  · intro h; exact ⟨_, h3 h⟩
  · rintro ⟨acc, hacc⟩
    refine ⟨fun h => ?_, fun he => ?_⟩
    · rw [h1 h] at hacc; cases hacc
    · by_cases hm : RedMismatch red tts.length
      · rw [h1 hm] at hacc; cases hacc
      · rw [h2 hm he] at hacc; cases hacc

/-- illegal shapes: `ld = 3`, `m = 2`; `lu = 3`, `m = 2`; `ld = 0`; `lu = 0` with `m = 2` (ValueError) and with `m = 1` (IndexError) -/
example :
    [calcSurfaceEnergy [1, 2, -1, 3] (1/2) [1/2, 3/2] true (.rows [1, 1] [1, 1, 1]) 0 false false,
     calcSurfaceEnergy [1, 2, -1, 3] (1/2) [1/2, 3/2] true (.rows [1, 1, 1] [1, 1]) 0 true true,
     calcSurfaceEnergy [1, 2, -1, 3] (1/2) [1/2] false (.rows [1] []) 0 true false,
     calcSurfaceEnergy [1, 2, -1, 3] (1/2) [1/2, 3/2] true (.rows [] [1]) 0 false true,
     calcSurfaceEnergy [1, 2, -1, 3] (1/2) [1/2] true (.rows [] [1]) 0 false false]
    = [.error .ValueError, .error .ValueError, .error .ValueError, .error .ValueError, .error .IndexError] := by
  decide +kernel
example : RedMismatch (.rows [1, 1] [1, 1, 1]) 2 ∧ RedMismatch (.rows [1, 1, 1] [1, 1]) 2 ∧ RedMismatch (.rows [1] []) 1 ∧
    RedMismatch (.rows [] [1]) 2 ∧ ¬ RedMismatch (.rows [] [1]) 1 ∧ RedEmptyUp (.rows [] [1]) ∧
    maxShift [1/2, 3/2] (1/2) = .ok 6 := by decide +kernel

end EqsigVerif.Props.C19
