import EqsigVerif.Model.Displacements
import EqsigVerif.Lemmas.Np
/-! # C08 — property theorems (first batch; the full set is being added) -/
namespace EqsigVerif.Props.C08
open EqsigVerif.Np EqsigVerif.Model.Displacements

/-- C08.a (trap=True): velocity and displacement have the record's length -/
theorem trap_lengths (a : List ℚ) (dt : ℚ) :
    (veloDispTrap a dt).1.length = a.length ∧ (veloDispTrap a dt).2.length = a.length := by
  simp [veloDispTrap]

example : (veloDispTrap [1, 2, (3/4 : ℚ)] (1/2)).1.length = 3 := by decide +kernel

end EqsigVerif.Props.C08
