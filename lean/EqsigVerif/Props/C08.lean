import EqsigVerif.Model.Displacements
import EqsigVerif.Model.Im
import EqsigVerif.Lemmas.Np
import EqsigVerif.Lemmas.Im.Velo
/-!
# C08 — velocity and displacement are cumulative trapezoid integrals; peaks are max abs

All theorems are stated for an arbitrary linearly ordered field `α` (the driver executes the same
definitions at `ℚ`; the statements also hold at `ℝ`).  `TrapIncr dt y out`, `RectIncrDelayed`, `RectIncr`
(defined in `Lemmas/Im/Velo.lean`) are the increment laws *with* equal length and the start value.
-/
set_option linter.unusedSectionVars false
set_option linter.unusedVariables false
namespace EqsigVerif.Props.C08
open EqsigVerif.Np EqsigVerif.Model.Displacements EqsigVerif.Model.Im EqsigVerif.Lemmas.Im

variable {α : Type} [Field α] [LinearOrder α] [IsStrictOrderedRing α]

/-! ## C08.a lengths and zero start (both branches) -/

/-- C08.a: for both values of `trap`, velocity and displacement have the record's length -/
theorem lengths (a : List α) (dt : α) (trap : Bool) :
    (veloDisp a dt trap).1.length = a.length ∧ (veloDisp a dt trap).2.length = a.length := by
  cases trap
  · simp [veloDisp, veloDispRect, length_rectVFull]
  · simp [veloDisp, veloDispTrap]

example : (veloDisp [1, 2, 4] (1/2 : ℚ) true).1.length = 3 ∧ (veloDisp [1, 2, 4] (1/2 : ℚ) false).2.length = 3 := by
  decide +kernel

/-- C08.a: for a non-empty record, both series start at zero (both branches) -/
theorem zero_start (a : List α) (dt : α) (trap : Bool) (h : a ≠ []) :
    (veloDisp a dt trap).1[0]? = some 0 ∧ (veloDisp a dt trap).2[0]? = some 0 := by
  have hpos : 0 < a.length := List.length_pos_iff.mpr h
  cases trap
  · obtain ⟨hl1, h1, _⟩ := rect_velocity a dt
    obtain ⟨hl2, h2, _⟩ := rect_displacement a dt
    simp only [veloDisp, Bool.false_eq_true, if_false]
    constructor
    · rw [List.getElem?_eq_getElem (by omega), h1 hpos]
    · rw [List.getElem?_eq_getElem (by omega), h2 (by omega), h1 hpos, mul_zero]
  · obtain ⟨hl1, h1, _⟩ := trapIncr_cumtrapz dt a
    obtain ⟨hl2, h2, _⟩ := trapIncr_cumtrapz dt (cumtrapz dt a)
    simp only [veloDisp, if_true, veloDispTrap]
    constructor
    · rw [List.getElem?_eq_getElem (by omega), h1 hpos]
    · rw [List.getElem?_eq_getElem (by omega), h2 (by omega)]

example : (veloDisp [3, 2, 4] (1/2 : ℚ) false).1[0]? = some 0 ∧ (veloDisp [3, 2, 4] (1/2 : ℚ) true).2[0]? = some 0 := by
  decide +kernel

/-! ## C08.b trapezoid increments and their converse -/

/-- C08.b `trap_increments`: with `(v, d) = veloDispTrap a dt`:
same lengths, `v[0] = d[0] = 0`, `v[i+1]-v[i] = dt*(a[i+1]+a[i])/2` and `d[i+1]-d[i] = dt*(v[i+1]+v[i])/2`
at every index (see `TrapIncr`). -/
theorem trap_increments (a : List α) (dt : α) :
    TrapIncr dt a (veloDispTrap a dt).1 ∧ TrapIncr dt (veloDispTrap a dt).1 (veloDispTrap a dt).2 :=
  ⟨trapIncr_cumtrapz dt a, trapIncr_cumtrapz dt (cumtrapz dt a)⟩

/-- C08.b in index form -/
theorem trap_increments_getElem (a : List α) (dt : α) (i : Nat) (h : i + 1 < a.length) :
    (veloDispTrap a dt).1[i+1]'(by simp [veloDispTrap]; omega) - (veloDispTrap a dt).1[i]'(by simp [veloDispTrap]; omega)
        = dt * (a[i+1] + a[i]) / 2 ∧
    (veloDispTrap a dt).2[i+1]'(by simp [veloDispTrap]; omega) - (veloDispTrap a dt).2[i]'(by simp [veloDispTrap]; omega)
        = dt * ((veloDispTrap a dt).1[i+1]'(by simp [veloDispTrap]; omega)
                + (veloDispTrap a dt).1[i]'(by simp [veloDispTrap]; omega)) / 2 := by
  obtain ⟨⟨_, _, h1⟩, ⟨_, _, h2⟩⟩ := trap_increments a dt
  exact ⟨h1 i h, h2 i (by simp [veloDispTrap]; omega)⟩

example : (veloDispTrap [1, 2, 4] (1/2 : ℚ)).1[2] - (veloDispTrap [1, 2, 4] (1/2 : ℚ)).1[1] = (1/2) * (4 + 2) / 2 := by
  decide +kernel

/-- C08.b converse: any pair `(v, d)` with the record's length, zero start and the trapezoid
increments **is** the model output (so any deviation of an implementation from the model is a violated
increment identity, at an identifiable index). -/
theorem trap_increments_converse (a v d : List α) (dt : α)
    (hv : TrapIncr dt a v) (hd : TrapIncr dt v d) : (v, d) = veloDispTrap a dt := by
  have h1 : v = cumtrapz dt a := (trapIncr_iff dt a v).mp hv
  have h2 : d = cumtrapz dt v := (trapIncr_iff dt v d).mp hd
  rw [h2, h1]; rfl

example : TrapIncr (1/2 : ℚ) [1, 2, 4] [0, 3/4, 9/4] := by
  rw [trapIncr_iff]; decide +kernel

/-! ## C08.c rectangle-rule increments (`trap=False`) -/

/-- C08.c `rect_increments`: with `(v, d) = veloDispRect a dt`: same lengths, `v[0] = 0`,
`v[i+1]-v[i] = dt*a[i]`; `d[0] = dt*v[0] (= 0)`, `d[i+1]-d[i] = dt*v[i+1]`. -/
theorem rect_increments (a : List α) (dt : α) :
    RectIncrDelayed dt a (veloDispRect a dt).1 ∧ RectIncr dt (veloDispRect a dt).1 (veloDispRect a dt).2 :=
  ⟨rect_velocity a dt, rect_displacement a dt⟩

example : veloDispRect [1, 2, 4] (1/2 : ℚ) = ([0, 1/2, 3/2], [0, 1/4, 1]) := by decide +kernel

/-- C08.c converse: the rectangle increments with their start values determine the output -/
theorem rect_increments_converse (a v d : List α) (dt : α)
    (hv : RectIncrDelayed dt a v) (hd : RectIncr dt v d) : (v, d) = veloDispRect a dt := by
  have h1 : v = (veloDispRect a dt).1 := rectIncrDelayed_unique dt a _ _ hv (rect_velocity a dt)
  subst h1
  have h2 : d = (veloDispRect a dt).2 := rectIncr_unique dt _ _ _ hd (rect_displacement a dt)
  rw [h2]

example : RectIncrDelayed (1/2 : ℚ) [1, 2, 4] [0, 1/2, 3/2] := by
  have h : ([0, 1/2, 3/2] : List ℚ) = (veloDispRect [1, 2, 4] (1/2 : ℚ)).1 := by decide +kernel
  rw [h]; exact rect_velocity _ _

/-! ## C08.d linearity and exactness -/

/-- C08.d additivity (both branches): integrating `a + b` gives the sums of the series -/
theorem linear_add (a b : List α) (dt : α) (trap : Bool) (h : a.length = b.length) :
    veloDisp (List.zipWith (· + ·) a b) dt trap =
      (List.zipWith (· + ·) (veloDisp a dt trap).1 (veloDisp b dt trap).1,
       List.zipWith (· + ·) (veloDisp a dt trap).2 (veloDisp b dt trap).2) := by
  cases trap
  · simp only [veloDisp, Bool.false_eq_true, if_false]; exact veloDispRect_add a b dt h
  · simp only [veloDisp, if_true]; exact veloDispTrap_add a b dt h

example : veloDisp (List.zipWith (· + ·) [1, 2, 4] [0, -1, 3]) (1/2 : ℚ) true =
    (List.zipWith (· + ·) (veloDisp [1, 2, 4] (1/2 : ℚ) true).1 (veloDisp [0, -1, 3] (1/2 : ℚ) true).1,
     List.zipWith (· + ·) (veloDisp [1, 2, 4] (1/2 : ℚ) true).2 (veloDisp [0, -1, 3] (1/2 : ℚ) true).2) :=
  linear_add _ _ _ _ rfl

/-- C08.d homogeneity (both branches): integrating `c•a` gives `c•v`, `c•d` -/
theorem linear_smul (a : List α) (dt c : α) (trap : Bool) :
    veloDisp (a.map (c * ·)) dt trap =
      ((veloDisp a dt trap).1.map (c * ·), (veloDisp a dt trap).2.map (c * ·)) := by
  cases trap
  · simp only [veloDisp, Bool.false_eq_true, if_false]; exact veloDispRect_smul a dt c
  · simp only [veloDisp, if_true]; exact veloDispTrap_smul a dt c

example : veloDisp ([1, 2, 4].map ((-3 : ℚ) * ·)) (1/2) false = ([0, -3/2, -9/2], [0, -3/4, -3]) := by
  decide +kernel

/-- C08.d exactness for constant acceleration `a ≡ c`: `v[i] = c·tᵢ`, `d[i] = c·tᵢ²/2` with `tᵢ = i·dt` -/
theorem exact_constant (n : Nat) (c dt : α) :
    veloDispTrap (List.replicate n c) dt =
      ((List.range n).map (fun (i : Nat) => c * ((i : α) * dt)),
       (List.range n).map (fun (i : Nat) => c * ((i : α) * dt) ^ 2 / 2)) := by
  have ha : List.replicate n c = sampled n dt (fun _ => c) := by
    simp [sampled, times, Function.comp_def, List.map_const']
  have hv : cumtrapz dt (sampled n dt (fun _ => c)) = sampled n dt (fun t => c * t) :=
    cumtrapz_sampled n dt _ _ (by ring) (fun i => by ring)
  have hd : cumtrapz dt (sampled n dt (fun t => c * t)) = sampled n dt (fun t => c * t ^ 2 / 2) :=
    cumtrapz_sampled n dt _ _ (by ring) (fun i => by ring)
  simp only [veloDispTrap]
  rw [ha, hv, hd]
  simp [sampled, times, Function.comp_def]

example : veloDispTrap (List.replicate 4 (3 : ℚ)) (1/2) = ([0, 3/2, 3, 9/2], [0, 3/8, 3/2, 27/8]) := by
  decide +kernel

/-- C08.d exactness for linearly varying acceleration `a(t) = c₀ + c₁·t` sampled at `tᵢ = i·dt`:
`v[i] = c₀tᵢ + c₁tᵢ²/2` **exactly**, and `d[i] = c₀tᵢ²/2 + c₁tᵢ³/6 + c₁·dt²·tᵢ/12`: the second
trapezoid stage integrates a quadratic, its exact error is the last term (zero iff `c₁ = 0`, `dt = 0` or `i = 0`). -/
theorem exact_linear (n : Nat) (c0 c1 dt : α) :
    veloDispTrap ((List.range n).map (fun (i : Nat) => c0 + c1 * ((i : α) * dt))) dt =
      ((List.range n).map (fun (i : Nat) => c0 * ((i : α) * dt) + c1 * ((i : α) * dt) ^ 2 / 2),
       (List.range n).map (fun (i : Nat) =>
          c0 * ((i : α) * dt) ^ 2 / 2 + c1 * ((i : α) * dt) ^ 3 / 6 + c1 * dt ^ 2 * ((i : α) * dt) / 12)) := by
  have ha : (List.range n).map (fun (i : Nat) => c0 + c1 * ((i : α) * dt)) = sampled n dt (fun t => c0 + c1 * t) := by
    simp [sampled, times, Function.comp_def]
  have hv : cumtrapz dt (sampled n dt (fun t => c0 + c1 * t)) = sampled n dt (fun t => c0 * t + c1 * t ^ 2 / 2) :=
    cumtrapz_sampled n dt _ _ (by ring) (fun i => by ring)
  have hd : cumtrapz dt (sampled n dt (fun t => c0 * t + c1 * t ^ 2 / 2)) =
      sampled n dt (fun t => c0 * t ^ 2 / 2 + c1 * t ^ 3 / 6 + c1 * dt ^ 2 * t / 12) :=
    cumtrapz_sampled n dt _ _ (by ring) (fun i => by field_simp; ring)
  simp only [veloDispTrap]
  rw [ha, hv, hd]
  simp [sampled, times, Function.comp_def]

/-- the displacement of a ramp is *not* the exact integral: `a = t` (`c₀=0, c₁=1`), `dt = 1`, `t₂ = 2`:
`d[2] = 3/2 = 2³/6 + 1·1²·2/12`, whereas `∫∫ = 4/3`. -/
example : (veloDispTrap ((List.range 3).map (fun (i : Nat) => (0 : ℚ) + 1 * ((i : ℚ) * 1))) 1).2 = [0, 1/4, 3/2] := by
  decide +kernel

/-! ## C08.e `calc_peak` -/

/-- C08.e `calc_peak_spec`: for a non-empty series `calc_peak x` is the largest `|xᵢ|`
(an upper bound of all `|xᵢ|` that is attained); for the empty series it fails (`ValueError`). -/
theorem calc_peak_spec (x : List α) :
    (x = [] → calcPeak? x = none) ∧
    (x ≠ [] → ∃ p, calcPeak? x = some p ∧ (∀ y ∈ x, |y| ≤ p) ∧ ∃ y ∈ x, |y| = p) := by
  constructor
  · rintro rfl; rfl
  · intro h; exact calcPeak_isMaxAbs x h

example : calcPeak? ([1, -5, 3] : List ℚ) = some 5 := by decide +kernel

/-- C08.e: and conversely the result is determined by that specification -/
theorem calc_peak_unique (x : List α) (p : α) (hne : x ≠ [])
    (hub : ∀ y ∈ x, |y| ≤ p) (hatt : ∃ y ∈ x, |y| = p) : calcPeak? x = some p :=
  (calcPeak_eq_some_iff x p).mpr ⟨hne, hub, hatt⟩

example : calcPeak? ([1, -5, 3] : List ℚ) = some 5 :=
  calc_peak_unique _ _ (by simp) (by intro y hy; simp at hy; rcases hy with rfl | rfl | rfl <;> norm_num [abs_le])
    ⟨-5, by simp, by norm_num [abs_of_neg]⟩

/-- C08.e invariance under sign reversal -/
theorem calc_peak_neg (x : List α) : calcPeak? (x.map (fun y => -y)) = calcPeak? x := calcPeak_neg x

example : calcPeak? (([1, -5, 3] : List ℚ).map (fun y => -y)) = calcPeak? ([1, -5, 3] : List ℚ) := by decide +kernel

/-- C08.e scaling: `calc_peak (α•x) = |α|·calc_peak x` -/
theorem calc_peak_smul (x : List α) (c : α) :
    calcPeak? (x.map (c * ·)) = (calcPeak? x).map (|c| * ·) := calcPeak_smul x c

example : calcPeak? (([1, -5, 3] : List ℚ).map ((-2 : ℚ) * ·)) = some 10 := by decide +kernel

/-- C08.e: `pga`, `pgv`, `pgd` are `calc_peak` of the values, the model velocity and the model
displacement; hence all three are sign-invariant and scale with `|c|`. -/
theorem pgx_scale (a : List α) (dt c : α) :
    pga (a.map (c * ·)) = (pga a).map (|c| * ·) ∧
    pgv dt (a.map (c * ·)) = (pgv dt a).map (|c| * ·) ∧
    pgd dt (a.map (c * ·)) = (pgd dt a).map (|c| * ·) := by
  refine ⟨calcPeak_smul a c, ?_, ?_⟩
  · simp only [pgv, velocity, veloDispTrap_smul]; exact calcPeak_smul _ c
  · simp only [pgd, displacement, veloDispTrap_smul]; exact calcPeak_smul _ c

example : pga ([1, -5, 3] : List ℚ) = some 5 ∧ pgv (1/2 : ℚ) [1, -5, 3] = some (3/2) ∧ pgd (1/2 : ℚ) [1, -5, 3] = some (7/8) := by
  decide +kernel

theorem pgx_neg (a : List α) (dt : α) :
    pga (a.map (fun y => -y)) = pga a ∧ pgv dt (a.map (fun y => -y)) = pgv dt a ∧
    pgd dt (a.map (fun y => -y)) = pgd dt a := by
  have e : (fun y : α => -y) = (fun y => -1 * y) := by funext y; ring
  obtain ⟨h1, h2, h3⟩ := pgx_scale a dt (-1)
  rw [e, h1, h2, h3]
  simp only [abs_neg, abs_one, one_mul]
  refine ⟨?_, ?_, ?_⟩ <;> simp

example : pgv (1/2 : ℚ) (([1, -5, 3] : List ℚ).map (fun y => -y)) = some (3/2) := by decide +kernel

end EqsigVerif.Props.C08
