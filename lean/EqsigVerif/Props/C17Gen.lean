import EqsigVerif.Props.C17
import EqsigVerif.Gen.Mutators
import Mathlib.Tactic.Ring
/-!
# C17 — translator tie for the simple mutators of `eqsig/single.py`

`Gen/Mutators.lean` is regenerated on every run by `tools/py2lean_x_shift.py`: the entry expressions of `add_constant`,
`add_series`, `remove_average`, the guards (`len(series) == self.npts`, `isinstance(new_signal, Signal)`, `new_signal.dt == self.dt`)
with their `raise SignalProcessingError`, the averaged slice and default `section` of `remove_average`, and the container test /
length test / filter-type selection table of `butter_pass`.  Not translated (still hand-modelled only): `running_average`,
`remove_poly` bookkeeping, the Gibbs padding arithmetic of `butter_pass`.
-/
namespace EqsigVerif.Props.C17
open EqsigVerif
open EqsigVerif.Wire (ErrKind)
open EqsigVerif.Model.Single

/-- semantic form of the entries (insensitive to the order of the operands) -/
theorem gen_addSeries_entry (v s : ℚ) : Gen.Mutators.addSeriesEntry v s = v + s := by
  unfold Gen.Mutators.addSeriesEntry; ring

theorem gen_addConstant_entry (v c : ℚ) : Gen.Mutators.addConstantEntry v c = v + c := by
  unfold Gen.Mutators.addConstantEntry; ring

/-- `add_constant`: `self.reset_values(self.values + constant)` -/
theorem gen_addConstant (values : List Rat) (c : Rat) :
    addConstant values c = values.map (fun v => Gen.Mutators.addConstantEntry v c) := by
  unfold addConstant
  apply List.map_congr_left
  intro v _
  rw [gen_addConstant_entry]

/-- `add_series`: the length guard with its `SignalProcessingError`, then `self.values + series` entry by entry -/
theorem gen_addSeries (values series : List Rat) :
    addSeries values series =
      if Gen.Mutators.addSeriesOk values series then .ok (List.zipWith Gen.Mutators.addSeriesEntry values series)
      else .error .SignalProcessingError := by
  have hiff : Gen.Mutators.addSeriesOk values series = true ↔ series.length = values.length := by
    unfold Gen.Mutators.addSeriesOk; rw [decide_eq_true_eq]; omega
  have hent : Gen.Mutators.addSeriesEntry = (fun v s => v + s) := by
    funext v s; exact gen_addSeries_entry v s
  unfold addSeries
  by_cases h : series.length = values.length
  · rw [if_pos h, if_pos (hiff.mpr h), hent]; rfl
  · rw [if_neg h, if_neg (fun hh => h (hiff.mp hh))]

/-- consequence (C17.e `add_constant_spec` about the generated entry): same length, entry `i` is the generated expression -/
theorem gen_add_constant_spec (v : List ℚ) (c : ℚ) :
    (v.map (fun x => Gen.Mutators.addConstantEntry x c)).length = v.length ∧
    ∀ i (hi : i < v.length), (v.map (fun x => Gen.Mutators.addConstantEntry x c))[i]'(by simpa using hi) =
      Gen.Mutators.addConstantEntry v[i] c := by
  simp

/-- consequence (C17.e `add_series_spec` about the generated guard): the generated code raises iff the lengths differ -/
theorem gen_add_series_raises (v s : List ℚ) :
    Gen.Mutators.addSeriesOk v s = false ↔ addSeries v s = .error .SignalProcessingError := by
  rw [(add_series_spec v s).1]
  unfold Gen.Mutators.addSeriesOk
  rw [decide_eq_false_iff_not]
  omega

/-- `add_signal`: `isinstance` test, then `dt` test, then `add_series(new_signal.values)`; both failures raise
`SignalProcessingError` (exception classes are pattern-checked by the translator) -/
theorem gen_addSignal (dt : Rat) (values : List Rat) (op : Operand) :
    addSignal dt values op =
      match op with
      | .signal dt' vals' =>
        if Gen.Mutators.addSignalIsSignalTest true then
          (if Gen.Mutators.addSignalDtTest dt dt' then addSeries values vals' else .error .SignalProcessingError)
        else .error .SignalProcessingError
      | .notSignal =>
        if Gen.Mutators.addSignalIsSignalTest false then .ok values else .error .SignalProcessingError := by
  cases op with
  | signal dt' vals' =>
    simp only [addSignal, Gen.Mutators.addSignalIsSignalTest, Gen.Mutators.addSignalDtTest, if_true, decide_eq_true_eq]
  | notSignal => simp [addSignal, Gen.Mutators.addSignalIsSignalTest]

/-- `remove_average`: the averaged slice is `self.values[:section]` with default `section = -1`; every entry loses the average -/
theorem gen_removeAverage (values : List Rat) (section_ : Int) :
    removeAverage values section_ =
      match mean? (pyTo values (Gen.Mutators.removeAverageStop section_)) with
      | none => .error .ZeroDivisionError
      | some av => .ok (values.map (fun v => Gen.Mutators.removeAverageEntry v av)) := rfl

theorem gen_removeAverage_default (values : List Rat) :
    removeAverage values = removeAverage values Gen.Mutators.removeAverageDefaultSection := rfl

/-- the Python string a `FilterType` stands for (`btype` handed to `scipy.signal.butter`) -/
def ftStr : FilterType → String
  | .low => "low" | .high => "high" | .band => "band"

/-- the model's `Container` as the names of the accepted Python types -/
def containerName : Container → Option String
  | .list => some "list" | .tuple => some "tuple" | .ndarray => some "np.ndarray" | .other => none

/-- the container test accepts exactly the model's three containers -/
theorem gen_butter_containers (c : Container) :
    (c ≠ .other) ↔ ∃ s, containerName c = some s ∧ s ∈ Gen.Mutators.butterContainers := by
  cases c <;> simp [containerName, Gen.Mutators.butterContainers]

/-- the length test: `ValueError` unless `len(cut_off) == 2` -/
theorem gen_butter_len (c : Container) (items : List (Option ℚ))
    (h : Gen.Mutators.butterLenRaises (items.length : ℤ) = true) : filterSelect c items = .error .ValueError := by
  have hl : items.length ≠ 2 := by
    have : ¬ ((items.length : ℤ) = 2) := by simpa [Gen.Mutators.butterLenRaises] using h
    omega
  exact (filter_select_value_error c items).mpr (Or.inr hl)

/-- the filter-type selection table: for a two-element `cut_off` in an accepted container the model selects the generated
`btype` and hands on the generated element(s); `(None, None)` selects `'low'` with `cut_off = None` (the model's `TypeError`) -/
theorem gen_butter_select (c : Container) (a b : Option Rat) (hc : c ≠ .other) :
    (match filterSelect c [a, b] with
      | .ok (ft, _) => some (ftStr ft)
      | .error _ => none) =
      (if a = none ∧ b = none then none else some (Gen.Mutators.butterFilterType a b)) ∧
    (Gen.Mutators.butterFilterType none none = "low") ∧
    (∀ f, filterSelect c [none, some f] = .ok (.low, [([none, some f] : List (Option Rat)).getD Gen.Mutators.butterPickSecondBranch.toNat none |>.getD 0])) ∧
    (∀ f, filterSelect c [some f, none] = .ok (.high, [([some f, none] : List (Option Rat)).getD Gen.Mutators.butterPickThirdBranch.toNat none |>.getD 0])) := by
  refine ⟨?_, by decide, ?_, ?_⟩
  · cases c <;> first | exact absurd rfl hc | (cases a <;> cases b <;> simp [filterSelect, ftStr, Gen.Mutators.butterFilterType])
  · intro f; cases c <;> first | exact absurd rfl hc | rfl
  · intro f; cases c <;> first | exact absurd rfl hc | rfl

example : Gen.Mutators.addConstantEntry 2 3 = 5 ∧ Gen.Mutators.addSeriesOk [1, 2] [3, 4] = true ∧
    Gen.Mutators.addSeriesOk [1, 2] [3] = false ∧ Gen.Mutators.addSeriesEntry 2 3 = 5 ∧
    Gen.Mutators.addSignalIsSignalTest true = true ∧ Gen.Mutators.addSignalDtTest (1/2) (1/2) = true ∧
    Gen.Mutators.addSignalDtTest (1/2) (1/4) = false ∧ Gen.Mutators.removeAverageDefaultSection = -1 ∧
    Gen.Mutators.removeAverageStop 3 = 3 ∧ Gen.Mutators.removeAverageEntry 5 2 = 3 ∧
    Gen.Mutators.butterContainers = ["list", "tuple", "np.ndarray"] ∧ Gen.Mutators.butterLenRaises 3 = true ∧
    Gen.Mutators.butterFilterType (some 1) (some 2) = "band" ∧ Gen.Mutators.butterFilterType none (some 2) = "low" ∧
    Gen.Mutators.butterFilterType (some 1) none = "high" ∧ Gen.Mutators.butterPickSecondBranch = 1 ∧
    Gen.Mutators.butterPickThirdBranch = 0 := by decide +kernel

/-! ## parameter identities (see `Props/C19Gen.lean`) -/

example : Gen.Mutators.addConstantSignatures =
  [("addConstantEntry", ["v", "constant"])] := rfl

example : Gen.Mutators.addSeriesSignatures =
  [("addSeriesOk", ["values", "series"]),
   ("addSeriesEntry", ["v", "s"])] := rfl

example : Gen.Mutators.addSignalSignatures =
  [("addSignalIsSignalTest", ["new_signal_is_Signal"]),
   ("addSignalDtTest", ["dt", "new_dt"])] := rfl

example : Gen.Mutators.removeAverageSignatures =
  [("removeAverageDefaultSection", []),
   ("removeAverageStop", ["section_"]),
   ("removeAverageEntry", ["v", "np.mean of ⟨entry of slice 1⟩"])] := rfl

example : Gen.Mutators.butterSignatures =
  [("butterContainers", []),
   ("butterLenRaises", ["n_cut_off"]),
   ("butterFilterType", ["cut_off_0", "cut_off_1"]),
   ("butterPickSecondBranch", []),
   ("butterPickThirdBranch", [])] := rfl

end EqsigVerif.Props.C17
