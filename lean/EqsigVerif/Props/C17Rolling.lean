import EqsigVerif.Model.Single2
import EqsigVerif.Lemmas.Single2
import EqsigVerif.Lemmas.Single
import EqsigVerif.Props.C17
/-!
# C17 — `AccSignal.remove_rolling_average` uses a separate buffer: it subtracts `Signal.running_average`'s window mean of the ORIGINAL samples

`remove_rolling_average(mtype, freq_window)`: `width = int(1. / (freq_window * dt))` (`ZeroDivisionError` for `freq_window·dt = 0`,
`ValueError` for `width < 1`), `roll[i]` = the window mean of `running_average` computed from `mot` (never from already averaged
samples: `roll` is a separate buffer), then
* `mtype ≠ "velocity"`: `values − roll` (`mot = values`),
* `mtype = "velocity"`: `mot = velocity`; the new record is the difference quotient of `velocity − roll`
  (`acc[0] = (velocity − roll)[0]/dt`, `acc[i] = ((velocity − roll)[i] − (velocity − roll)[i−1])/dt`).
-/
set_option linter.unusedSectionVars false
set_option linter.unusedVariables false
set_option linter.unusedSimpArgs false
namespace EqsigVerif.Props.C17
open EqsigVerif EqsigVerif.Wire EqsigVerif.Np EqsigVerif.NpS EqsigVerif.Model.Single EqsigVerif.Model.Single2
open EqsigVerif.Lemmas.Single2 EqsigVerif.Model.Displacements

/-- the window rule: `width = int(1. / (freq_window * dt))` (truncation), `ZeroDivisionError` for `freq_window·dt = 0`, `ValueError`
for `width < 1` -/
theorem roll_width_rule (fw dt : ℚ) :
    (fw * dt = 0 → rollWidthE fw dt = .error .ZeroDivisionError) ∧
    (fw * dt ≠ 0 → truncZ (1 / (fw * dt)) < 1 → rollWidthE fw dt = .error .ValueError) ∧
    (fw * dt ≠ 0 → 1 ≤ truncZ (1 / (fw * dt)) → rollWidthE fw dt = .ok (truncZ (1 / (fw * dt))).toNat) := by
  refine ⟨fun h => ?_, fun h h1 => ?_, fun h h1 => ?_⟩
  · simp [rollWidthE, intPyDivE, h, bind, Except.bind]
  · simp only [rollWidthE, intPyDivE, h, if_false, bind, Except.bind, h1, if_true]
  · simp only [rollWidthE, intPyDivE, h, if_false, bind, Except.bind, Int.not_lt.mpr h1]

example : rollWidthE 5 (1/32) = .ok 6 ∧ rollWidthE 5 (1/2) = .error .ValueError ∧ rollWidthE 0 (1/2) = .error .ZeroDivisionError := by
  decide +kernel

/-- the buffer `roll` IS `Signal.running_average` of `mot` (same window rule, computed from the unmodified samples) -/
theorem roll_eq_running_average (mot : List ℚ) (w : ℕ) : rollOf mot w = runningAverage mot w := rfl

example : rollOf [1, 2, 3, 4, 5] 3 = [3/2, 2, 3, 4, 9/2] ∧ runningAverage [1, 2, 3, 4, 5] 3 = [3/2, 2, 3, 4, 9/2] := by decide +kernel

/-- **C17 `remove_rolling_average` (record itself, `mtype ≠ "velocity"`)**: for an accepted window `w`: the new record is
`values − running_average(values, w)`: same length, and sample `i` is `values[i]` minus the mean of the ORIGINAL samples `j` with
`|j − i| ≤ ⌊w/2⌋` (`window n i h`, as in `running_average_spec`). -/
theorem remove_rolling_average_spec (values : List ℚ) (dt fw : ℚ) (w : ℕ) (hw : rollWidthE fw dt = .ok w) :
    ∃ new, removeRollingAverage values dt .other fw = .ok new ∧ new = Np.subL values (runningAverage values w) ∧
      new.length = values.length ∧
      ∀ i (hi : i < values.length), new[i]? = some (values[i] -
        (∑ j ∈ window values.length i (w / 2), values.getD j 0) / ((window values.length i (w / 2)).card : ℚ)) := by
  obtain ⟨hlen, hspec⟩ := running_average_spec values w
  refine ⟨_, ?_, rfl, ?_, ?_⟩
  · simp [removeRollingAverage, hw, bind, Except.bind, roll_eq_running_average]
  · simp [Np.subL, hlen]
  · intro i hi
    obtain ⟨_, h2⟩ := hspec i hi
    simp only [Np.subL, List.getElem?_zipWith]
    rw [List.getElem?_eq_getElem hi, List.getElem?_eq_getElem (by rw [hlen]; exact hi), h2]

example : removeRollingAverage [1, 2, 3, 4, 5] (1/16) .other 5 = .ok [-1/2, 0, 0, 0, 1/2] ∧ rollWidthE 5 (1/16) = .ok 3 := by
  decide +kernel

/-- **C17 `remove_rolling_average` (`mtype = "velocity"`)**: for a non-empty record and an accepted window `w` (then `dt ≠ 0`), with
`u = velocity − running_average(velocity, w)`: the new record is `u[0]/dt :: diff(u)/dt` (so that its rectangle-rule integral is `u`). -/
theorem remove_rolling_average_velocity_spec (values : List ℚ) (dt fw : ℚ) (w : ℕ) (hne : values ≠ [])
    (hw : rollWidthE fw dt = .ok w) :
    ∃ u0 us, Np.subL (veloDispTrap values dt).1 (runningAverage (veloDispTrap values dt).1 w) = u0 :: us ∧
      removeRollingAverage values dt .velocity fw = .ok ((u0 / dt) :: (Np.diff (u0 :: us)).map (· / dt)) := by
  have hdt : dt ≠ 0 := by
    intro h
    simp [rollWidthE, intPyDivE, h, bind, Except.bind] at hw
  obtain ⟨hlen, _⟩ := running_average_spec (veloDispTrap values dt).1 w
  have hl : (Np.subL (veloDispTrap values dt).1 (runningAverage (veloDispTrap values dt).1 w)).length = values.length := by
    simp [Np.subL, hlen, veloDispTrap]
  cases hu : Np.subL (veloDispTrap values dt).1 (runningAverage (veloDispTrap values dt).1 w) with
  | nil =>
    rw [hu] at hl
    exact absurd (List.eq_nil_of_length_eq_zero hl.symm) hne
  | cons u0 us =>
    refine ⟨u0, us, rfl, ?_⟩
    have hf : ∀ l : List ℚ, l.map (fun x => fdiv (some x) (some dt)) = (l.map (· / dt)).map some := by
      intro l; simp [List.map_map, Function.comp_def, fdiv_some _ _ hdt]
    simp only [removeRollingAverage, veloDispE_ne values dt hne, hw, bind, Except.bind, roll_eq_running_average, hu, headE,
      fdiv_some _ _ hdt, hf]
    have := finiteE_some ((u0 / dt) :: (Np.diff (u0 :: us)).map (· / dt))
    simpa [List.map_map, Function.comp_def] using this

example : removeRollingAverage [1, 2, 3, 4, 5] (1/16) .velocity 5 = .ok [-3/4, 5/12, 0, 0, 31/12] := by decide +kernel

/-- error order of `remove_rolling_average`: with `mtype = "velocity"` the lazy velocity of an EMPTY record raises first
(`ValueError`), otherwise the window rule decides -/
theorem remove_rolling_average_errors (dt fw : ℚ) (e : ErrKind) (values : List ℚ) (h : rollWidthE fw dt = .error e) :
    removeRollingAverage [] dt .velocity fw = .error .ValueError ∧
    removeRollingAverage values dt .other fw = .error e ∧
    (values ≠ [] → removeRollingAverage values dt .velocity fw = .error e) := by
  refine ⟨rfl, by simp [removeRollingAverage, h, bind, Except.bind], fun hne => ?_⟩
  simp [removeRollingAverage, veloDispE_ne values dt hne, h, bind, Except.bind]

example : removeRollingAverage [1, 2] (1/2) .other 5 = .error .ValueError := by decide +kernel

end EqsigVerif.Props.C17
