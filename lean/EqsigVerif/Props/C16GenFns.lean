import EqsigVerif.Model.Loader
import EqsigVerif.Gen.LoaderFns
import EqsigVerif.Props.C16
/-!
# C16 — translator tie: the functions of `eqsig/loader.py` REGENERATED from the source

`Gen/LoaderFns.lean` is regenerated on every run by `tools/py2lean_x_rest.py`: the lines written by `save_values_and_dt` (label, header
layout `"%i %.<d>f"`, one `"%.<d>f"` per value, joined by `"\n"`; the digit counts stay the constants of `Gen/Consts.lean`), the
arguments `save_signal` passes, the options of the two `np.genfromtxt` calls, the `try … except TypeError` structure and the recovery of
`dt` (`read().splitlines()[1].split()[1]`, `float`) in `load_values_and_dt`, and for `load_sig` / `load_asig` / `load_signal`: the scale
factor `m`, the label handling, the class constructed, the branch on `astype`, the defaults.

`np.genfromtxt`, `.astype(float)`, `float(str)` stay parameters; the bridge instantiates them with the model's `genfromtxtData`
(everything `np.genfromtxt` does, cell conversion included), `astypeFloat` (`np.atleast_1d(data.astype(float))`) and `pyFloat`.

**History (error precedence).**  The generated definition evaluates the `dt` token *between* `np.genfromtxt` and `data.astype(float)`, as
the code does.  An earlier `Model.Loader.loadL` finished `genfromtxtCol0` (including the `TypeError` of `astype` on a 0-field dtype)
*before* the `dt` token; on `"lab\n\t\n"` Python raises `IndexError`, that model answered `TypeError`.  `loadL` was repaired to the
code's order; the bridge `gen_load` is now unconditional and `load_precedence_agreement` records the former witnesses.
-/
set_option linter.unusedSectionVars false
set_option linter.unusedVariables false
set_option linter.unusedSimpArgs false
namespace EqsigVerif.Props.C16
open EqsigVerif EqsigVerif.Wire EqsigVerif.Fmt EqsigVerif.Model.Loader

/-! ## writer -/

theorem joinL_nl : ∀ ls : List (List Char), NpR.joinL "\n".toList ls = joinLines ls
  | [] => rfl
  | [l] => rfl
  | l :: l' :: t => by
    have ih := joinL_nl (l' :: t)
    show l ++ "\n".toList ++ NpR.joinL "\n".toList (l' :: t) = l ++ '\n' :: joinLines (l' :: t)
    rw [ih, show "\n".toList = ['\n'] from rfl]
    simp

/-- **bridge** the lines `save_values_and_dt` collects: generated = model (label, header layout, one line per value) -/
theorem gen_saveLines (values : List ℚ) (dt : ℚ) (label : List Char) :
    Gen.LoaderFns.saveLines values dt label = saveLines values dt label := by
  show [label, fmtIntL ((values.length : ℕ) : ℤ) ++ [' '] ++ fmtFixedL dt 4] ++ values.map (fun v => fmtFixedL v 6) = _
  simp [saveLines, headerL]

/-- **bridge** the text `save_values_and_dt(ffp, values, dt, label)` writes: generated = model -/
theorem gen_saveText (values : List ℚ) (dt : ℚ) (label : String) :
    String.ofList (Gen.LoaderFns.saveText values dt label.toList) = saveText values dt label := by
  simp only [Gen.LoaderFns.saveText, gen_saveLines, joinL_nl, saveText, saveL]

/-- **bridge** `save_signal(ffp, signal)` passes `signal.values, signal.dt, signal.label` in this order -/
theorem gen_saveSignal (s : Loaded) :
    String.ofList (Gen.LoaderFns.saveSignal s.values s.dt s.label.toList) = save_signal s := by
  simp only [Gen.LoaderFns.saveSignal, gen_saveText, save_signal]

/-! ## `load_values_and_dt` -/

/-- the options of the two `np.genfromtxt` calls (the model's `genfromtxtCol0` is the first one; the second is the numpy-1.19 fallback) -/
theorem gen_genfromtxt_options : Gen.LoaderFns.genfromtxtOptions = ((1, ",", true, 0), (2, ",", false, 0)) := rfl

/-- `np.genfromtxt(ffp, skip_header=1, …)` on the decoded file content (it opens the file itself: universal newlines, file lines) -/
def gModel (text : List Char) : Except ErrKind (Option (List ℚ)) := genfromtxtData (fileLines (universalNewlines text))

/-- `dt = float(open(ffp).read().splitlines()[1].split()[1])` is the model's `headerDt` -/
theorem gen_dt (text : List Char) :
    (do let e2 ← NpE.getE (pySplitlines (universalNewlines text)) 1
        let e3 ← NpE.getE (pySplit e2) 1
        pyFloat e3) = headerDt (pySplitlines (universalNewlines text)) := by
  unfold headerDt
  cases pySplitlines (universalNewlines text) with
  | nil => rfl
  | cons a t =>
    cases t with
    | nil => rfl
    | cons h t' =>
      show (do let e3 ← NpE.getE (pySplit h) 1; pyFloat e3) = _
      dsimp only
      cases pySplit h with
      | nil => rfl
      | cons x t'' =>
        cases t'' with
        | nil => rfl
        | cons tok t''' => rfl

theorem tryCatch_of_ne {γ : Type} (body handler : Except ErrKind γ) (k : ErrKind) (h : body ≠ .error k) :
    NpR.tryCatchE body k handler = body := by
  cases body with
  | error e =>
    have : e ≠ k := fun h' => h (h' ▸ rfl)
    simp only [NpR.tryCatchE, this, if_false]
  | ok v => rfl

section Load
variable {δ : Type} (G G' : List Char → Except ErrKind δ) (toValues : δ → Except ErrKind (List ℚ))

/-- the generated `load_values_and_dt` when `np.genfromtxt` does not raise `TypeError` (the `except` handler is dead code, as on the
pinned numpy): `np.genfromtxt`, then the `dt` token, then `astype` — in THIS order -/
theorem gen_load_unfold (text : List Char) (hG : G text ≠ .error .TypeError)
    (hD : headerDt (pySplitlines (universalNewlines text)) ≠ .error .TypeError) :
    Gen.LoaderFns.loadValuesAndDt G G' toValues pyFloat text =
      (G text >>= fun d => headerDt (pySplitlines (universalNewlines text)) >>= fun dt =>
        toValues d >>= fun vals => pure (vals, dt)) := by
  have hdt := gen_dt text
  have hB : (do
      let e1 ← G text
      let e2 ← NpE.getE (pySplitlines (universalNewlines text)) 1
      let e3 ← NpE.getE (pySplit e2) 1
      let e4 ← pyFloat e3
      pure (e1, e4)) = (G text >>= fun d => headerDt (pySplitlines (universalNewlines text)) >>= fun dt => pure (d, dt)) := by
    rw [← hdt]; simp only [bind_assoc]
  have hne : (G text >>= fun d => headerDt (pySplitlines (universalNewlines text)) >>= fun dt => (pure (d, dt) : Except ErrKind (δ × ℚ)))
      ≠ .error .TypeError := by
    cases hg : G text with
    | error e => intro h; apply hG; rw [hg]; simpa [bind, Except.bind] using h
    | ok d =>
      cases hh : headerDt (pySplitlines (universalNewlines text)) with
      | error e => intro h; apply hD; rw [hh]; simpa [bind, Except.bind] using h
      | ok dt => intro h; cases h
  unfold Gen.LoaderFns.loadValuesAndDt
  rw [hB, tryCatch_of_ne _ _ _ hne]
  simp only [bind_assoc, pure_bind]

end Load

theorem headerDt_not_typeError (lines : List (List Char)) : headerDt lines ≠ .error .TypeError := by
  unfold headerDt
  split
  · split
    · unfold pyFloat; split
      · intro h; cases h
      · split <;> (intro h; cases h)
    · intro h; cases h
  · intro h; cases h

theorem pyFloat_not_typeError (c : List Char) : pyFloat c ≠ .error .TypeError := by
  unfold pyFloat; split
  · intro h; cases h
  · split <;> (intro h; cases h)

theorem mapM_pyFloat_not_typeError (cells : List (List Char)) : cells.mapM pyFloat ≠ .error .TypeError := by
  induction cells with
  | nil => intro h; cases h
  | cons c t ih =>
    rw [List.mapM_cons]
    cases hc : pyFloat c with
    | error e =>
      intro h
      exact pyFloat_not_typeError c (by rw [hc]; simpa [bind, Except.bind] using h)
    | ok v =>
      cases ht : t.mapM pyFloat with
      | error e =>
        intro h
        exact ih (by rw [ht]; simpa [bind, Except.bind] using h)
      | ok vs => intro h; cases h

/-- `np.genfromtxt` (as modelled) never raises `TypeError`: the `except TypeError` handler of `load_values_and_dt` is dead code -/
theorem gModel_not_typeError (text : List Char) : gModel text ≠ .error .TypeError := by
  unfold gModel genfromtxtData
  split
  · intro h; cases h
  · split
    · intro h; cases h
    · dsimp only
      split
      · have := mapM_pyFloat_not_typeError (dataCells ‹List (List Char)›)
        split
        · rename_i e he; intro h; cases h; exact this he
        · intro h; cases h
      · split <;> (intro h; cases h)

/-- **bridge** `load_values_and_dt(ffp)`: generated = model for EVERY file content, errors included, and for every behaviour `G'` of
the fallback `np.genfromtxt` call in the dead `except TypeError` handler -/
theorem gen_load (G' : List Char → Except ErrKind (Option (List ℚ))) (text : List Char) :
    Gen.LoaderFns.loadValuesAndDt gModel G' astypeFloat pyFloat text = loadL text := by
  rw [gen_load_unfold gModel G' astypeFloat text (gModel_not_typeError text) (headerDt_not_typeError _)]
  unfold loadL gModel
  dsimp only
  rcases h1 : genfromtxtData (fileLines (universalNewlines text)) with e | d
  · simp [bind, Except.bind]
  · rcases h2 : headerDt (pySplitlines (universalNewlines text)) with e | dt
    · simp [bind, Except.bind]
    · rcases hv : astypeFloat d with e' | v <;> simp [bind, Except.bind, pure, Except.pure, hv]

/-- the same for the model's entry point on strings -/
theorem gen_loadText (G' : List Char → Except ErrKind (Option (List ℚ))) (text : String) :
    Gen.LoaderFns.loadValuesAndDt gModel G' astypeFloat pyFloat text.toList = loadText text :=
  gen_load G' text.toList

/-- **agreement on the former precedence witnesses** (Python outcomes probed on the pinned tree): names line without a field name and
no `dt` token → `IndexError` of the `dt` line; the same with an unparsable `dt` token → `ValueError`; with a `dt` token →
`TypeError` of `.astype(float)`; empty file / label only / header only → `IndexError` of `np.genfromtxt`; header + blank line → `[]` -/
theorem load_precedence_agreement :
    (["lab\n\t\n", "lab\n\n\t\n", "lab\n1 x #\t\n", "lab\n1 2 #\t\n", "lab\n\t\n1.0\n", "", "lab", "lab\n", "2 0.01", "lab\n2 0.01",
      "lab\n2 0.01\n\n", "l\nonly\nabc", "l\nonly\n1.5"].map (fun s => loadL s.toList))
      = [.error .IndexError, .error .IndexError, .error .ValueError, .error .TypeError, .error .ValueError, .error .IndexError,
         .error .IndexError, .error .IndexError, .error .IndexError, .ok ([], 1 / 100), .ok ([], 1 / 100), .error .ValueError,
         .error .IndexError] ∧
    Gen.LoaderFns.loadValuesAndDt gModel gModel astypeFloat pyFloat "lab\n\t\n".toList = .error .IndexError := by
  constructor <;> decide +kernel

/-! ## `load_sig`, `load_asig`, `load_signal` -/

/-- what the constructor call means for the model's `Loaded`: the class by its name, `label=` omitted = the constructor default -/
def toLoaded (o : String × List ℚ × ℚ × Option (List Char)) : Loaded :=
  ⟨if o.1 = "Signal" then .Signal else .AccSignal, o.2.1, o.2.2.1,
    match o.2.2.2 with | none => defaultLabel | some l => String.ofList l⟩

/-- **bridge** `load_sig(ffp, m)`: class `Signal`, values `vals * m`, `dt`, no `label=` — generated = model for all files -/
theorem gen_load_sig (text : String) (m : ℚ) :
    (Gen.LoaderFns.loadSig loadL text.toList m).map toLoaded = load_sig text m := by
  unfold Gen.LoaderFns.loadSig load_sig loadText
  simp only [bind, Except.bind, pure, Except.pure]
  cases loadL text.toList with
  | error e => rfl
  | ok r => rfl

/-- **bridge** `load_asig(ffp, load_label, m)`: class `AccSignal`, `label` = first line of the file or the literal `'m1'` -/
theorem gen_load_asig (text : String) (load_label : Bool) (m : ℚ) :
    (Gen.LoaderFns.loadAsig loadL text.toList load_label m).map toLoaded = load_asig text load_label m := by
  unfold Gen.LoaderFns.loadAsig load_asig loadText firstLine
  cases load_label <;> simp only [bind, Except.bind, pure, Except.pure]
  · cases loadL text.toList with
    | error e => rfl
    | ok r => rfl
  · cases loadL text.toList with
    | error e => rfl
    | ok r =>
      cases pySplitlines (universalNewlines text.toList) with
      | nil => rfl
      | cons l t => rfl

/-- **bridge** `load_signal(ffp, astype)`: `'signal'` → `Signal`, `'acc_sig'` → `AccSignal`, anything else → `None` -/
theorem gen_load_signal (text : String) (astype : String) :
    (Gen.LoaderFns.loadSignal loadL text.toList (Gen.LoaderFns.LoadAs.ofString astype)).map (Option.map toLoaded)
      = load_signal text astype := by
  unfold Gen.LoaderFns.loadSignal load_signal loadText Gen.LoaderFns.LoadAs.ofString
  by_cases h1 : astype = "signal"
  · subst h1
    simp only [bind, Except.bind, pure, Except.pure, if_true]
    cases loadL text.toList <;> rfl
  · by_cases h2 : astype = "acc_sig"
    · subst h2
      simp only [bind, Except.bind, pure, Except.pure, h1, if_false, if_true]
      cases loadL text.toList <;> rfl
    · simp only [bind, Except.bind, pure, Except.pure, h1, h2, if_false]
      cases loadL text.toList <;> rfl

/-- the defaults read from the signatures: `m=1.0`, `load_label=False`, `astype='sig'` (which matches no branch) -/
theorem gen_loader_defaults : Gen.LoaderFns.loadSigDefaultM = 1 ∧ Gen.LoaderFns.loadAsigDefaults = (false, 1) ∧
    Gen.LoaderFns.loadSignalDefaultAstype = .other := by decide +kernel

/-! ## consequences: C16 clauses about the generated code -/

/-- **C16.b for the generated code**: loading (model) the text the GENERATED writer produces succeeds with the same number of points,
`|dt' − dt| ≤ ½·10⁻⁴`, `|v'ᵢ − vᵢ| ≤ ½·10⁻⁶` -/
theorem gen_save_load (v : List ℚ) (dt : ℚ) (label : String) (hl : NoLineBreak label) :
    ∃ v' dt', Gen.LoaderFns.loadValuesAndDt gModel gModel astypeFloat pyFloat (Gen.LoaderFns.saveText v dt label.toList) = .ok (v', dt') ∧
      v'.length = v.length ∧ |dt' - dt| ≤ 1 / 2 / (10 : ℚ) ^ 4 ∧
      ∀ i (h : i < v.length) (h' : i < v'.length), |v'[i] - v[i]| ≤ 1 / 2 / (10 : ℚ) ^ 6 := by
  obtain ⟨v', dt', h, rest⟩ := save_load v dt label hl
  refine ⟨v', dt', ?_, rest⟩
  rw [gen_load]
  rw [← gen_saveText] at h
  simpa [loadText] using h

/-- **C16.c for the generated code**: the class constructed per entry point -/
theorem gen_load_types (text : List Char) (m : ℚ) (ll : Bool) (o : String × List ℚ × ℚ × Option (List Char)) :
    (Gen.LoaderFns.loadSig loadL text m = .ok o → o.1 = "Signal" ∧ o.2.2.2 = none) ∧
    (Gen.LoaderFns.loadAsig loadL text ll m = .ok o → o.1 = "AccSignal" ∧ o.2.2.2.isSome) := by
  constructor
  · unfold Gen.LoaderFns.loadSig
    simp only [bind, Except.bind, pure, Except.pure]
    cases loadL text with
    | error e => intro h; cases h
    | ok r => intro h; cases h; exact ⟨rfl, rfl⟩
  · unfold Gen.LoaderFns.loadAsig
    cases ll <;> simp only [bind, Except.bind, pure, Except.pure]
    · cases loadL text with
      | error e => intro h; cases h
      | ok r => intro h; cases h; exact ⟨rfl, rfl⟩
    · cases loadL text with
      | error e => intro h; cases h
      | ok r =>
        cases NpE.getE (pySplitlines (universalNewlines text)) 0 with
        | error e => intro h; cases h
        | ok l => intro h; cases h; exact ⟨rfl, rfl⟩

example : String.ofList (Gen.LoaderFns.saveText [3 / 2, -3 / 128] (5 / 2) "lab".toList) = "lab\n2 2.5000\n1.500000\n-0.023438" ∧
    Gen.LoaderFns.saveLines [] (1 / 100) "x".toList = ["x".toList, "0 0.0100".toList] ∧
    String.ofList (Gen.LoaderFns.saveSignal [1] 1 "s".toList) = "s\n1 1.0000\n1.000000" := by decide +kernel
example : Gen.LoaderFns.loadValuesAndDt gModel gModel astypeFloat pyFloat "l\n1 0.5\n2.5".toList = .ok ([5 / 2], 1 / 2) ∧
    Gen.LoaderFns.loadValuesAndDt gModel gModel astypeFloat pyFloat "only a label".toList = .error .IndexError ∧
    Gen.LoaderFns.loadValuesAndDt gModel gModel astypeFloat pyFloat "l\n1 x\n2.5".toList = .error .ValueError ∧
    Gen.LoaderFns.loadValuesAndDt (fun _ => .error .TypeError) gModel astypeFloat pyFloat "l\n1 0.5\n2.5".toList = .ok ([5 / 2], 1 / 2) := by
  decide +kernel
example : Gen.LoaderFns.loadSig loadL "l\n1 0.5\n2.5".toList 3 = .ok ("Signal", [15 / 2], 1 / 2, none) := by decide +kernel
example : Gen.LoaderFns.loadAsig loadL "l\n1 0.5\n2.5".toList true 3 = .ok ("AccSignal", [15 / 2], 1 / 2, some "l".toList) := by
  decide +kernel
example : Gen.LoaderFns.loadAsig loadL "l\n1 0.5\n2.5".toList false 1 = .ok ("AccSignal", [5 / 2], 1 / 2, some "m1".toList) := by
  decide +kernel
example : (Gen.LoaderFns.loadSignal loadL "l\n1 0.5\n2.5".toList Gen.LoaderFns.loadSignalDefaultAstype).map (Option.map toLoaded)
    = .ok none := by decide +kernel
example : (Gen.LoaderFns.loadSignal loadL "l\n1 0.5\n2.5".toList (.ofString "acc_sig")).map (Option.map toLoaded)
    = .ok (some ⟨.AccSignal, [5 / 2], 1 / 2, "m1"⟩) := by decide +kernel

end EqsigVerif.Props.C16
