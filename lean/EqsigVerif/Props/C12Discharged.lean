import EqsigVerif.Props.C12
import EqsigVerif.Props.C11
/-!
# C12 — the theorems of `Props/C12.lean` whose hypotheses are conclusions of C11, with those hypotheses discharged

`Props/C12.lean` states C12.d, C12.e and strict ascent with the needed facts about the peak list as explicit
hypotheses (so that it does not depend on the C11 development); here they are instantiated with the C11 theorems,
giving the unconditional statements of the property.
-/
namespace EqsigVerif.Props.C12
open EqsigVerif.Model.Switched EqsigVerif.Model.Peaks EqsigVerif.Lemmas.Peaks

/-- C12.d, unconditional: the global absolute maximum is attained at a reported switched-peak index -/
theorem switched_global_max_full (v : List ℚ) (hv : v ≠ []) :
    ∃ r ∈ switchedPeaks v 0, ∀ i, i < v.length → |v.getD i 0| ≤ |v.getD r 0| :=
  switched_global_max v hv (EqsigVerif.Props.C11.peaks_dominate v)

example : ∃ r ∈ switchedPeaks [5, 1, 3, -1] 0, ∀ i, i < 4 → |([5, 1, 3, -1] : List ℚ).getD i 0| ≤ |([5, 1, 3, -1] : List ℚ).getD r 0| :=
  switched_global_max_full [5, 1, 3, -1] (by simp)

/-- C12.e, unconditional (non-constant series): every excursion contains exactly one reported index, at its largest
|value|; every reported index is a peak that is zero-valued or lies in an excursion -/
theorem switched_excursions_full (v : List ℚ) (hv : NonConstant v) :
    (∀ i, i < v.length → v.getD i 0 ≠ 0 →
      ∃ r ∈ switchedPeaks v 0, SameExc v i r ∧
        (∀ j, j < v.length → SameExc v i j → |v.getD j 0| ≤ |v.getD r 0|) ∧
        ∀ r' ∈ switchedPeaks v 0, SameExc v i r' → r' = r) ∧
    (∀ r ∈ switchedPeaks v 0, r ∈ peaks v ∧ (v.getD r 0 = 0 ∨ SameExc v r r)) :=
  switched_excursions v (nonConstant_ne_nil v hv)
    (EqsigVerif.Props.C11.peaks_shape v hv) (EqsigVerif.Props.C11.peaks_segments v hv).1

/-- strict ascent of the switched result for non-constant series (any tolerance) -/
theorem switched_strict_ascending_full (v : List ℚ) (hv : NonConstant v) (tol : ℚ) :
    (switchedPeaks v tol).Pairwise (· < ·) :=
  switched_strict_ascending v (nonConstant_ne_nil v hv) tol (EqsigVerif.Props.C11.peaks_shape v hv).1

end EqsigVerif.Props.C12
