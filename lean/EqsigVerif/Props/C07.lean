import EqsigVerif.Model.Frequency
import EqsigVerif.Lemmas.Np
import EqsigVerif.Lemmas.Cplx
import EqsigVerif.Lemmas.Frequency
import EqsigVerif.Lemmas.Smooth
import EqsigVerif.Lemmas.KoWindow
/-!
# C07 — Konno–Ohmachi smoothing is a normalised non-negative log-frequency window

Model: `Model/Frequency.lean`, smoothing part.  The weight matrix is column-major (`W[j]` = the column
of target frequency `fc_j`).  C07.a, b, d are proved for an arbitrary linearly ordered field `α`
(so they hold at `ℚ`, which the driver executes on the impl's own raw weights, and at `ℝ`) and for an
ARBITRARY raw weight matrix; C07.c (the window itself, over `ℝ`) is in the second half.
-/
set_option linter.unusedSectionVars false
set_option linter.unusedVariables false
namespace EqsigVerif.Props.C07
open EqsigVerif EqsigVerif.Cplx EqsigVerif.Wire EqsigVerif.Model.Frequency

section
variable {α : Type} [Field α] [LinearOrder α] [IsStrictOrderedRing α]

/-! ## C07.a -/

/-- **C07.a** for any raw matrix (after the `where` replacement) with entries `≥ 0` and positive column
sums, the normalised weights (`calc_smoothing_matrix_konno_1998`) are `≥ 0` and every column sums to 1. -/
theorem weights_normalised (amp raw : List (List α))
    (h : ∀ col ∈ List.zipWith whereCol amp raw, (∀ w ∈ col, 0 ≤ w) ∧ 0 < sumL col) :
    (smoothMatrix amp raw).length = (List.zipWith whereCol amp raw).length ∧
    ∀ col ∈ smoothMatrix amp raw, (∀ w ∈ col, 0 ≤ w) ∧ sumL col = 1 := by
  rw [smoothMatrix_eq_map]
  refine ⟨by simp, ?_⟩
  intro col hcol
  obtain ⟨c, hc, rfl⟩ := List.mem_map.mp hcol
  obtain ⟨h0, hs⟩ := h c hc
  exact ⟨normCol_nonneg c h0 hs, sumL_normCol c (ne_of_gt hs)⟩

example : smoothMatrix [[0, 1], [2, 0]] [[0, 3], [1, (7 : ℚ)]] = [[1/4, 3/4], [1/2, 1/2]] := by
  decide +kernel
example : ∀ col ∈ List.zipWith whereCol [[0, 1], [2, 0]] [[0, 3], [1, (7 : ℚ)]],
    (∀ w ∈ col, 0 ≤ w) ∧ 0 < sumL col := by decide +kernel

/-! ## C07.b -/

/-- **C07.b** (direct form, mean property) on the domain of the code (`len A = len faFreqs`, one weight per
remaining frequency in every column, weights `≥ 0` with positive column sums — C07.c supplies these
for the Konno–Ohmachi window): the call succeeds, has one value per target frequency,
`smooth_j = Σ_i |A_i|·w_ij / Σ_i w_ij` over the non-zero-frequency bins `A'`, and every value lies
between any lower and any upper bound of `|A'|` — in particular `min|A'| ≤ smooth_j ≤ max|A'|`. -/
theorem smooth_is_mean (faFreqs A fs A' : List α) (amp raw : List (List α))
    (h1 : dropZeroBin faFreqs A = .ok (fs, A')) (h2 : A'.length = fs.length)
    (hW : ∀ col ∈ List.zipWith whereCol amp raw,
      col.length = A'.length ∧ (∀ w ∈ col, 0 ≤ w) ∧ 0 < sumL col) :
    ∃ out, smoothCore faFreqs A amp raw = .ok out ∧
      out = (List.zipWith whereCol amp raw).map (fun col => dotAbs A' (normCol col)) ∧
      ∀ s ∈ out, (∀ lo, (∀ a ∈ A', lo ≤ |a|) → lo ≤ s) ∧ (∀ hi, (∀ a ∈ A', |a| ≤ hi) → s ≤ hi) := by
  refine ⟨_, smoothCore_ok faFreqs A fs A' amp raw h1 h2, ?_, ?_⟩
  · rw [smoothMatrix_eq_map, List.map_map]; rfl
  · intro s hs
    rw [smoothMatrix_eq_map, List.map_map] at hs
    obtain ⟨col, hcol, rfl⟩ := List.mem_map.mp hs
    obtain ⟨hlen, h0, hpos⟩ := hW col hcol
    have hn0 := normCol_nonneg col h0 hpos
    have hn1 := sumL_normCol col (ne_of_gt hpos)
    constructor
    · intro lo hlo
      have := dotAbs_ge A' (normCol col) (by simpa using hlen) hn0 lo hlo
      simpa [hn1] using this
    · intro hi hhi
      have := dotAbs_le A' (normCol col) (by simpa using hlen) hn0 hi hhi
      simpa [hn1] using this

/-- **C07.b** a constant spectrum is reproduced exactly. -/
theorem smooth_const (faFreqs A fs A' : List α) (amp raw : List (List α)) (c : α)
    (h1 : dropZeroBin faFreqs A = .ok (fs, A')) (h2 : A'.length = fs.length)
    (hW : ∀ col ∈ List.zipWith whereCol amp raw,
      col.length = A'.length ∧ (∀ w ∈ col, 0 ≤ w) ∧ 0 < sumL col)
    (hc : ∀ a ∈ A', |a| = c) :
    ∃ out, smoothCore faFreqs A amp raw = .ok out ∧ ∀ s ∈ out, s = c := by
  obtain ⟨out, hout, -, hb⟩ := smooth_is_mean faFreqs A fs A' amp raw h1 h2 hW
  refine ⟨out, hout, fun s hs => ?_⟩
  obtain ⟨hlo, hhi⟩ := hb s hs
  exact le_antisymm (hhi c (fun a ha => le_of_eq (hc a ha))) (hlo c (fun a ha => le_of_eq (hc a ha).symm))

/-- **C07.b** scaling: `smooth(k•A) = |k|•smooth(A)` (any raw weights, including which inputs raise). -/
theorem smooth_smul (k : α) (faFreqs A : List α) (amp raw : List (List α)) :
    smoothCore faFreqs (A.map (k * ·)) amp raw
      = (smoothCore faFreqs A amp raw).map (fun out => out.map (|k| * ·)) := by
  rw [smoothCore_eq, smoothCore_eq, dropZeroBin_map]
  cases h : dropZeroBin faFreqs A with
  | error e => rfl
  | ok p =>
    obtain ⟨fs, A'⟩ := p
    by_cases hl : A'.length = fs.length
    · simp only [List.length_map, hl, if_true, Except.map, List.map_map]
      congr 1
      apply List.map_congr_left
      intro col _
      simp [dotAbs_smul]
    · simp [hl, Except.map]

/-- **C07.b** the matrix form `np.dot(abs(fa_spectrum[1:]), calc_smoothing_matrix_konno_1998(...))`
(`calc_smooth_fa_spectrum_w_custom_matrix`) equals the direct form (`calc_smooth_fa_spectrum`) whenever
the Fourier grid starts at the zero frequency (always so for `Signal.fa_frequencies`). -/
theorem matrix_form_eq_direct (rest A : List α) (amp raw : List (List α))
    (hl : (A.drop 1).length = rest.length) :
    smoothCore (0 :: rest) A amp raw = .ok (smoothWithMatrix A (smoothMatrix amp raw)) := by
  rw [smoothCore_eq]
  simp only [dropZeroBin, beq_self_eq_true, if_true, hl, smoothWithMatrix]

example : smoothCore [0, 1, 2] [5, -2, 4] [[0, 1], [2, 0]] [[0, 3], [1, (7 : ℚ)]] = .ok [7/2, 3] := by
  decide +kernel
example : dropZeroBin [0, 1, 2] [5, -2, (4 : ℚ)] = .ok ([1, 2], [-2, 4]) := by decide +kernel

/-! ## C07.d -/

/-- **C07.d** bandwidth limits are ordered and bracket the smoothed peak: for ascending smoothing
frequencies, `0 < ratio < 1` and a positive maximum, `calc_bandwidth_freqs` succeeds and
`f_min ≤ f_peak ≤ f_max`, where `f_peak` is the frequency of the first maximum
(`calc_bandwidth_f_min/f_max` return the two components). -/
theorem bandwidth_ordered (smooth freqs : List α) (ratio m : α)
    (hlen : freqs.length = smooth.length) (hasc : freqs.Pairwise (· ≤ ·))
    (hr0 : 0 < ratio) (hr1 : ratio < 1) (hm : Np.maxL? smooth = some m) (hpos : 0 < m) :
    ∃ fmin fmax fpeak, bandwidthFreqs smooth freqs ratio = .ok (fmin, fmax) ∧
      bandwidthFMin smooth freqs ratio = .ok fmin ∧ bandwidthFMax smooth freqs ratio = .ok fmax ∧
      freqs[Np.argmax smooth]? = some fpeak ∧ fmin ≤ fpeak ∧ fpeak ≤ fmax := by
  obtain ⟨hpk, hall⟩ := maxL?_eq_getElem_argmax smooth m hm
  have hlim : m * ratio < m := by nlinarith
  obtain ⟨hE, hOk, hEx⟩ := firstLastAbove_spec smooth (m * ratio)
  obtain ⟨a, b, hab⟩ := hEx ⟨m, List.mem_of_getElem? hpk, hlim⟩
  obtain ⟨⟨sa, sb, hsa, hsb, -, -⟩, hbr⟩ := hOk a b hab
  obtain ⟨hap, hpb⟩ := hbr _ m hpk hlim
  have ha : a < freqs.length := by rw [hlen]; exact (List.getElem?_eq_some_iff.mp hsa).1
  have hb : b < freqs.length := by rw [hlen]; exact (List.getElem?_eq_some_iff.mp hsb).1
  have hp : Np.argmax smooth < freqs.length := by
    rw [hlen]; exact (List.getElem?_eq_some_iff.mp hpk).1
  refine ⟨freqs[a], freqs[b], freqs[Np.argmax smooth], ?_, ?_, ?_, by simp [hp], ?_, ?_⟩
  · simp [bandwidthFreqs, hm, hab, bind, Except.bind, pure, Except.pure, ha, hb]
  · simp [bandwidthFMin, hm, hab, bind, Except.bind, pure, Except.pure, ha]
  · simp [bandwidthFMax, hm, hab, bind, Except.bind, pure, Except.pure, hb]
  · rcases Nat.eq_or_lt_of_le hap with h | h
    · simp [h]
    · exact (List.pairwise_iff_getElem.mp hasc) _ _ ha hp h
  · rcases Nat.eq_or_lt_of_le hpb with h | h
    · simp [← h]
    · exact (List.pairwise_iff_getElem.mp hasc) _ _ hp hb h

/-- **C07.d** error behaviour: on a non-empty spectrum with one frequency per entry,
`calc_bandwidth_freqs` raises `IndexError` iff no entry exceeds `max·ratio`
(e.g. `ratio ≥ 1`, or an all-zero spectrum). -/
theorem bandwidth_index_error (smooth freqs : List α) (ratio m : α)
    (hlen : freqs.length = smooth.length) (hm : Np.maxL? smooth = some m) :
    bandwidthFreqs smooth freqs ratio = .error .IndexError ↔ ∀ s ∈ smooth, ¬ m * ratio < s := by
  obtain ⟨hE, hOk, hEx⟩ := firstLastAbove_spec smooth (m * ratio)
  constructor
  · intro h
    by_contra hc
    push Not at hc
    obtain ⟨s, hs, hlt⟩ := hc
    obtain ⟨a, b, hab⟩ := hEx ⟨s, hs, hlt⟩
    obtain ⟨⟨sa, sb, hsa, hsb, -, -⟩, -⟩ := hOk a b hab
    have ha : a < freqs.length := by rw [hlen]; exact (List.getElem?_eq_some_iff.mp hsa).1
    have hb : b < freqs.length := by rw [hlen]; exact (List.getElem?_eq_some_iff.mp hsb).1
    simp [bandwidthFreqs, hm, hab, bind, Except.bind, pure, Except.pure, ha, hb] at h
  · intro h
    have := hE.mpr h
    simp [bandwidthFreqs, hm, this, bind, Except.bind]

example : bandwidthFreqs [1, 3, 4, 4, 2, (3 : ℚ)] [1, 2, 3, 4, 5, 6] (707 / 1000) = .ok (2, 6) := by
  decide +kernel
example : ([1, 2, 3, 4, 5, (6 : ℚ)]).Pairwise (· ≤ ·) ∧ Np.maxL? [1, 3, 4, 4, 2, (3 : ℚ)] = some 4 := by
  decide +kernel
example : bandwidthFreqs [1, 3, 4, 4, 2, (3 : ℚ)] [1, 2, 3, 4, 5, 6] 1 = .error .IndexError := by
  decide +kernel

/-- `get_sig_array_indexes_range(fas1_smooth, ratio)`: the first and the last index whose entry exceeds
`max/ratio`; every other such index lies between them; `IndexError` iff there is none. -/
theorem sig_array_indexes_range_spec (smooth : List α) (ratio m : α) (hm : Np.maxL? smooth = some m) :
    (sigArrayIndexesRange smooth ratio = .error .IndexError ↔ ∀ s ∈ smooth, ¬ m / ratio < s) ∧
    (∀ a b, sigArrayIndexesRange smooth ratio = .ok (a, b) →
      (∃ sa sb, smooth[a]? = some sa ∧ smooth[b]? = some sb ∧ m / ratio < sa ∧ m / ratio < sb) ∧
      ∀ k s, smooth[k]? = some s → m / ratio < s → a ≤ k ∧ k ≤ b) := by
  obtain ⟨hE, hOk, -⟩ := firstLastAbove_spec smooth (m / ratio)
  simp only [sigArrayIndexesRange, hm]
  exact ⟨hE, hOk⟩

example : sigArrayIndexesRange [1, 30, 4, 45, 2, (3 : ℚ)] 15 = .ok (1, 3) := by decide +kernel

end

/-! ## C07.c — the window over `ℝ` (`Real.sin`, `log10R x = Real.log x / Real.log 10`) -/
section Window

/-- **C07.c** the model's raw window IS `(sin x / x)^4` (breaks if the exponent or the argument changes),
and it lies in `[0, 1]` for every real `x`. -/
theorem ko_window (x : ℝ) :
    koRaw Real.sin x = (Real.sin x / x) ^ 4 ∧ 0 ≤ koRaw Real.sin x ∧ koRaw Real.sin x ≤ 1 :=
  ⟨koRaw_eq x, koRaw_nonneg x, koRaw_le_one x⟩

/-- **C07.c** the window argument `band·log10(f/fc)` vanishes exactly when `f = fc` (positive frequencies,
`band ≠ 0`); there the `where` branch yields the value 1, so the model never uses `sin 0 / 0`; the
window with the replacement lies in `[0, 1]` everywhere. -/
theorem ko_window_centre (band f fc : ℝ) (hb : band ≠ 0) (hf : 0 < f) (hfc : 0 < fc) :
    (koArg log10R band f fc = 0 ↔ f = fc) ∧
    koWindow Real.sin log10R band fc fc = 1 ∧
    0 ≤ koWindow Real.sin log10R band f fc ∧ koWindow Real.sin log10R band f fc ≤ 1 :=
  ⟨koArg_eq_zero_iff band f fc hb hf hfc, koWindow_self band fc (ne_of_gt hfc),
    koWindow_nonneg band f fc, koWindow_le_one band f fc⟩

example : koWindow Real.sin log10R 40 (5 / 2) (5 / 2) = 1 := koWindow_self 40 (5 / 2) (by norm_num)

/-- **C07.c** the replaced raw matrix of the model (`np.where(amp_array == 0, 1, wb_vals)`) is the matrix
of window values; every entry is `≥ 0`; the column of a target frequency that lies on the Fourier grid
sums to `≥ 1 > 0` (so its normalisation is finite). -/
theorem ko_column (band : ℝ) (fs sm : List ℝ) :
    List.zipWith whereCol (koAmp log10R band fs sm)
        ((koAmp log10R band fs sm).map (fun col => col.map (koRaw Real.sin)))
      = sm.map (fun fc => fs.map (fun f => koWindow Real.sin log10R band f fc)) ∧
    (∀ fc ∈ sm, ∀ w ∈ fs.map (fun f => koWindow Real.sin log10R band f fc), 0 ≤ w) ∧
    (∀ fc ∈ sm, fc ≠ 0 → fc ∈ fs →
      1 ≤ sumL (fs.map (fun f => koWindow Real.sin log10R band f fc))) :=
  ⟨zipWith_whereCol_koAmp band fs sm, fun fc _ => ko_col_nonneg band fc fs,
    fun fc _ h0 hmem => ko_col_sum_ge_one band fc fs h0 hmem⟩

/-- **C07.c** for an off-grid target, positivity of the column sum needs one non-vanishing window value
(`band·log10(fᵢ/fc) ∉ π·(ℤ∖{0})` for some `i`; cannot fail in binary64) — kept as the explicit hypothesis. -/
theorem ko_column_sum_pos_of_exists (band fc : ℝ) (fs : List ℝ)
    (h : ∃ f ∈ fs, koWindow Real.sin log10R band f fc ≠ 0) :
    0 < sumL (fs.map (fun f => koWindow Real.sin log10R band f fc)) := by
  obtain ⟨f, hf, hne⟩ := h
  have hpos : 0 < koWindow Real.sin log10R band f fc :=
    lt_of_le_of_ne (koWindow_nonneg band f fc) (Ne.symm hne)
  exact lt_of_lt_of_le hpos
    (le_sumL_of_mem _ (ko_col_nonneg band fc fs) _ (List.mem_map.mpr ⟨f, hf, rfl⟩))

/-- **C07.b + C07.c end to end** `calc_smooth_fa_spectrum` with the real Konno–Ohmachi window, every
target frequency on the (non-zero) Fourier grid — in particular the default `smooth_fa_frequencies=None`:
the call succeeds, returns one finite value per target, and every value lies between any lower and
any upper bound of the non-zero-frequency amplitudes `|A'|`. -/
theorem ko_smooth_on_grid_is_mean (faFreqs A fs A' : List ℝ) (smooth? : Option (List ℝ)) (band : ℝ)
    (h1 : dropZeroBin faFreqs A = .ok (fs, A')) (h2 : A'.length = fs.length)
    (hgrid : ∀ fc ∈ smooth?.getD fs, fc ≠ 0 ∧ fc ∈ fs) :
    ∃ out, calcSmoothFaSpectrum Real.sin log10R faFreqs A smooth? band = .ok out ∧
      out.length = (smooth?.getD fs).length ∧
      ∀ s ∈ out, (∀ lo, (∀ a ∈ A', lo ≤ |a|) → lo ≤ s) ∧ (∀ hi, (∀ a ∈ A', |a| ≤ hi) → s ≤ hi) := by
  rw [calcSmoothFaSpectrum_eq faFreqs A fs A' smooth? band h1]
  have hW : ∀ col ∈ List.zipWith whereCol (koAmp log10R band fs (smooth?.getD fs))
      ((koAmp log10R band fs (smooth?.getD fs)).map (fun col => col.map (koRaw Real.sin))),
      col.length = A'.length ∧ (∀ w ∈ col, 0 ≤ w) ∧ 0 < sumL col := by
    rw [zipWith_whereCol_koAmp]
    intro col hcol
    obtain ⟨fc, hfc, rfl⟩ := List.mem_map.mp hcol
    obtain ⟨h0, hmem⟩ := hgrid fc hfc
    exact ⟨by simp [h2], ko_col_nonneg band fc fs,
      lt_of_lt_of_le zero_lt_one (ko_col_sum_ge_one band fc fs h0 hmem)⟩
  obtain ⟨out, hout, hform, hb⟩ := smooth_is_mean faFreqs A fs A' _ _ h1 h2 hW
  refine ⟨out, hout, ?_, hb⟩
  rw [hform, zipWith_whereCol_koAmp]
  simp

example : dropZeroBin [0, 1, 2, 4] [5, -2, 4, (1 : ℝ)] = .ok ([1, 2, 4], [-2, 4, 1]) := by
  simp [dropZeroBin]

end Window

end EqsigVerif.Props.C07
