import EqsigVerif.Props.C18
import EqsigVerif.Gen.MultipleFns
import Mathlib.Tactic.Ring
import Mathlib.Tactic.NormNum
/-!
# C18 — translator tie for `eqsig/multiple.py` and `get_section_average`

`Gen/MultipleFns.lean` is regenerated on every run by `tools/py2lean_x_shift.py`: the entry expression of `combine_at_angle`
(trigonometric functions are parameters, as in the model), the asserts / `np.linspace` arguments / modulus / `raise` condition of
`compute_rotated`, the slice bounds of `get_section_average`, the defaults, slave test and shift formula of `Cluster.same_start`,
and for `Cluster.time_match` every slice bound of the lag search, the two state-update steps (extracted from the loop bodies as
step functions of the carried `(min_diff, min_ind)`), and the shift branches.  The loop/statement skeleton is pattern-checked by
the translator; the bridges below prove that the hand model `Model/Multiple.lean` is built from exactly these expressions.
-/
namespace EqsigVerif.Props.C18
open EqsigVerif
open EqsigVerif.Wire (ErrKind)
open EqsigVerif.Model.Multiple
open EqsigVerif.Model.Single (pySlice pyTo pyFrom mean? normIdx)

/-! ## `combine_at_angle` -/

/-- `combine_at_angle`: the model's `combo c s` is the generated entry with `c = cos(radians(angle))`, `s = sin(radians(angle))` -/
theorem gen_combo_sem {α : Type} [CommRing α] (cos sin radians : α → α) (angle a b : α) :
    Gen.MultipleFns.combineEntry cos sin radians angle a b = a * cos (radians angle) + b * sin (radians angle) := by
  unfold Gen.MultipleFns.combineEntry; ring

/-- the model's record-level `combo` (semantic over a commutative ring: insensitive to the order of the operands in the source) -/
theorem gen_combo {α : Type} [CommRing α] (cos sin radians : α → α) (angle : α) (ns we : List α) :
    combo (cos (radians angle)) (sin (radians angle)) ns we =
      List.zipWith (fun a b => Gen.MultipleFns.combineEntry cos sin radians angle a b) ns we := by
  have h : (fun a b => Gen.MultipleFns.combineEntry cos sin radians angle a b) =
      (fun a b => a * cos (radians angle) + b * sin (radians angle)) := by
    funext a b; exact gen_combo_sem cos sin radians angle a b
  rw [h]; rfl

/-- the returned signal carries the time step of the north-south component -/
theorem gen_combine_dt {α : Type} (dtNs : α) : Gen.MultipleFns.combineDt dtNs = dtNs := rfl

/-- consequence (C18.a `combine_spec` about the generated entry): sample `i` of the combination is the generated expression of
`ns[i]`, `we[i]` -/
theorem gen_combine_entry (ns we : List ℝ) (θ : ℝ) (radians cos sin : ℝ → ℝ) (hc : cos (radians θ) = cosDeg θ)
    (hs : sin (radians θ) = sinDeg θ) (i : ℕ) (h1 : i < ns.length) (h2 : i < we.length) :
    (comboAt θ ns we)[i]'(by simp [comboAt]; omega) = Gen.MultipleFns.combineEntry cos sin radians θ ns[i] we[i] := by
  rw [gen_combo_sem, hc, hs]
  exact combo_getElem _ _ ns we i h1 h2

example : Gen.MultipleFns.combineEntry (fun x => x + 1) (fun x => 2 * x) (fun x => 3 * x) (1 : Rat) 5 7 = 62 ∧
    Gen.MultipleFns.combineDt (3 : Rat) = 3 := by decide +kernel

/-! ## `compute_rotated` -/

/-- the two asserts on `dt` and `npts` are the model's two `AssertionError` guards -/
theorem gen_rotated_asserts (dtNs dtWe : Rat) (n1 n2 : Nat) :
    (dtNs ≠ dtWe ↔ Gen.MultipleFns.rotatedAssertDt dtNs dtWe = false) ∧
    (n1 ≠ n2 ↔ Gen.MultipleFns.rotatedAssertNpts (n1 : Int) (n2 : Int) = false) := by
  constructor
  · simp [Gen.MultipleFns.rotatedAssertDt]
  · simp [Gen.MultipleFns.rotatedAssertNpts]

/-- `degrees = np.mod(np.linspace(0 - off, 180. - off, points), 360)` -/
theorem gen_rotated_degrees (off : Rat) (points : Nat) :
    rotatedDegrees off points =
      (linspace (Gen.MultipleFns.rotatedLinStart off) (Gen.MultipleFns.rotatedLinStop off)
        (Gen.MultipleFns.rotatedLinNum (points : Int)).toNat).map (npMod · Gen.MultipleFns.rotatedModulus) := by
  have h1 : Gen.MultipleFns.rotatedLinStart off = 0 - off := by unfold Gen.MultipleFns.rotatedLinStart; norm_num
  have h2 : Gen.MultipleFns.rotatedLinStop off = 180 - off := by unfold Gen.MultipleFns.rotatedLinStop; norm_num
  have h3 : Gen.MultipleFns.rotatedModulus = 360 := by unfold Gen.MultipleFns.rotatedModulus; norm_num
  have h4 : (Gen.MultipleFns.rotatedLinNum (points : Int)).toNat = points := by unfold Gen.MultipleFns.rotatedLinNum; omega
  rw [h1, h2, h3, h4]; rfl

/-- the `raise ValueError` of the loop body is reached exactly when no measure is given (the model's `measure = none`) -/
theorem gen_rotated_raises (parameter : Option String) (funcGiven : Bool) :
    Gen.MultipleFns.rotatedRaises parameter funcGiven = true ↔ parameter = none ∧ funcGiven = false := by
  cases parameter <;> cases funcGiven <;> simp [Gen.MultipleFns.rotatedRaises]

/-- consequence (C18.b `rotated_errors` about the generated code): with the generated asserts passing and a measure given the scan
returns one value per generated angle -/
theorem gen_rotated_ok {α β : Type} [Add α] [Mul α] (cosd sind : ℚ → α) (f : List α → β) (dtNs dtWe : ℚ) (ns we : List α)
    (off : ℚ) (points : ℕ) (h1 : Gen.MultipleFns.rotatedAssertDt dtNs dtWe = true)
    (h2 : Gen.MultipleFns.rotatedAssertNpts (ns.length : ℤ) (we.length : ℤ) = true) :
    computeRotated cosd sind (some f) dtNs dtWe ns we off points =
      .ok (rotatedDegrees off points, (rotatedDegrees off points).map fun d => f (combo (cosd d) (sind d) ns we)) := by
  have e1 : dtNs = dtWe := by simpa [Gen.MultipleFns.rotatedAssertDt] using h1
  have e2 : ns.length = we.length := by simpa [Gen.MultipleFns.rotatedAssertNpts] using h2
  simp [computeRotated, e1, e2]

example : Gen.MultipleFns.rotatedAssertDt (1/2) (1/2) = true ∧ Gen.MultipleFns.rotatedAssertNpts 3 4 = false ∧
    Gen.MultipleFns.rotatedLinStart 30 = -30 ∧ Gen.MultipleFns.rotatedLinStop 30 = 150 ∧ Gen.MultipleFns.rotatedLinNum 5 = 5 ∧
    Gen.MultipleFns.rotatedModulus = 360 ∧ Gen.MultipleFns.rotatedRaises none false = true ∧
    Gen.MultipleFns.rotatedRaises (some "pga") false = false := by decide +kernel

/-! ## `get_section_average` -/

/-- `np.mean(series.values[s_index:e_index])` with `(s_index, e_index) = time_indices(series.npts, series.dt, start, end, index)`
(the call's arguments are pattern-checked): the model's averaged slice -/
theorem gen_section_average_idx (values : List Rat) (start end_ : Int) :
    sectionAverageIdxN values start end_ =
      match timeIndicesIdx values.length start end_ with
      | .error e => .error e
      | .ok (s, e) => .ok (mean? (pySlice values (Gen.MultipleFns.sectionAverageLo s) (Gen.MultipleFns.sectionAverageHi e))) := rfl

theorem gen_section_average (values : List Rat) (dt start end_ : Rat) :
    sectionAverageN values dt start end_ =
      match timeIndices values.length dt start end_ with
      | .error e => .error e
      | .ok (s, e) => .ok (mean? (pySlice values (Gen.MultipleFns.sectionAverageLo s) (Gen.MultipleFns.sectionAverageHi e))) := rfl

/-- consequence (C18 `section_average_idx_spec` about the generated slice): with the defaults of the source
(`start = 0`, `end = -1`, read as indices) the section is everything but the last sample -/
theorem gen_section_average_defaults (values : List Rat) :
    sectionAverageIdxN values Gen.MultipleFns.sectionAverageDefaultStart Gen.MultipleFns.sectionAverageDefaultEnd =
      .ok (mean? (pySlice values 0 (-1))) := by
  unfold sectionAverageIdxN timeIndicesIdx Gen.MultipleFns.sectionAverageDefaultStart Gen.MultipleFns.sectionAverageDefaultEnd
  have : ¬ ((-1 : Int) > (values.length : Int)) := by omega
  simp only [this, if_false]

example : Gen.MultipleFns.sectionAverageLo 2 = 2 ∧ Gen.MultipleFns.sectionAverageHi 5 = 5 ∧
    Gen.MultipleFns.sectionAverageDefaultStart = 0 ∧ Gen.MultipleFns.sectionAverageDefaultEnd = -1 := by decide +kernel

/-! ## `Cluster.same_start` -/

/-- the loop changes signal `i` exactly when the model does (`i ≠ master`) -/
theorem gen_same_start_is_slave (i master : Nat) :
    (i ≠ master) ↔ Gen.MultipleFns.sameStartIsSlave (master : Int) (i : Int) = true := by
  simp [Gen.MultipleFns.sameStartIsSlave]

/-- `slave.values - (slave_average - master_average)`: the model's `shiftRecord` -/
theorem gen_same_start_shift (s : List Rat) (slaveAv masterAv : Rat) :
    shiftRecord s (some slaveAv) (some masterAv) =
      some (s.map (fun v => Gen.MultipleFns.sameStartNewEntry masterAv v slaveAv)) := rfl

/-- consequence (C18.c `same_start_spec` about the generated formula): a slave's new record is the old one minus a constant,
namely the generated expression at every entry -/
theorem gen_same_start_entry (masterAv v slaveAv : ℚ) :
    Gen.MultipleFns.sameStartNewEntry masterAv v slaveAv = v - (slaveAv - masterAv) := by
  unfold Gen.MultipleFns.sameStartNewEntry; ring

example : Gen.MultipleFns.sameStartDefaultStart = 0 ∧ Gen.MultipleFns.sameStartDefaultEnd = 1 ∧
    Gen.MultipleFns.sameStartIsSlave 1 0 = true ∧ Gen.MultipleFns.sameStartIsSlave 1 1 = false ∧
    Gen.MultipleFns.sameStartNewEntry 2 10 5 = 7 := by decide +kernel

/-! ## `Cluster.time_match` -/

/-- `length_check = min(npts₀, npts₁)` -/
theorem gen_time_match_length_check (s0 s1 : List Rat) :
    ((min s0.length s1.length : Nat) : Int) = Gen.MultipleFns.timeMatchLengthCheck s0 s1 := by
  unfold Gen.MultipleFns.timeMatchLengthCheck; omega

theorem gen_time_match_is_slave (i master : Nat) :
    (i ≠ master) ↔ Gen.MultipleFns.timeMatchIsSlave (master : Int) (i : Int) = true := by
  simp [Gen.MultipleFns.timeMatchIsSlave]

/-- residual of lag candidate `i`: the slices `om[i:-steps+i]`, `bm[0:-steps]` -/
theorem gen_resLag (bm om : List Rat) (steps i : Nat) :
    resLag bm om steps i =
      ssd (pySlice om (Gen.MultipleFns.timeMatchLagMovingLo (i : Int)) (Gen.MultipleFns.timeMatchLagMovingHi (steps : Int) (i : Int)))
        (pySlice bm Gen.MultipleFns.timeMatchLagFixedLo (Gen.MultipleFns.timeMatchLagFixedHi (steps : Int))) := by
  have h1 : Gen.MultipleFns.timeMatchLagMovingLo (i : Int) = (i : Int) := by unfold Gen.MultipleFns.timeMatchLagMovingLo; omega
  have h2 : Gen.MultipleFns.timeMatchLagMovingHi (steps : Int) (i : Int) = -(steps : Int) + (i : Int) := by
    unfold Gen.MultipleFns.timeMatchLagMovingHi; omega
  have h3 : Gen.MultipleFns.timeMatchLagFixedLo = 0 := by unfold Gen.MultipleFns.timeMatchLagFixedLo; omega
  have h4 : Gen.MultipleFns.timeMatchLagFixedHi (steps : Int) = -(steps : Int) := by unfold Gen.MultipleFns.timeMatchLagFixedHi; omega
  rw [h1, h2, h3, h4]; rfl

/-- residual of lead candidate `i`: the slices `bm[i:-steps+i]`, `om[0:-steps]` -/
theorem gen_resLead (bm om : List Rat) (steps i : Nat) :
    resLead bm om steps i =
      ssd (pySlice bm (Gen.MultipleFns.timeMatchLeadMovingLo (i : Int)) (Gen.MultipleFns.timeMatchLeadMovingHi (steps : Int) (i : Int)))
        (pySlice om Gen.MultipleFns.timeMatchLeadFixedLo (Gen.MultipleFns.timeMatchLeadFixedHi (steps : Int))) := by
  have h1 : Gen.MultipleFns.timeMatchLeadMovingLo (i : Int) = (i : Int) := by unfold Gen.MultipleFns.timeMatchLeadMovingLo; omega
  have h2 : Gen.MultipleFns.timeMatchLeadMovingHi (steps : Int) (i : Int) = -(steps : Int) + (i : Int) := by
    unfold Gen.MultipleFns.timeMatchLeadMovingHi; omega
  have h3 : Gen.MultipleFns.timeMatchLeadFixedLo = 0 := by unfold Gen.MultipleFns.timeMatchLeadFixedLo; omega
  have h4 : Gen.MultipleFns.timeMatchLeadFixedHi (steps : Int) = -(steps : Int) := by unfold Gen.MultipleFns.timeMatchLeadFixedHi; omega
  rw [h1, h2, h3, h4]; rfl

/-- the initial residual `np.sum((bm[0:-steps] - om[0:-steps]) ** 2)` -/
theorem gen_init_residual (bm om : List Rat) (steps : Nat) :
    ssd (pySlice bm 0 (-(steps : Int))) (pySlice om 0 (-(steps : Int))) =
      ssd (pySlice bm Gen.MultipleFns.timeMatchInitBmLo (Gen.MultipleFns.timeMatchInitBmHi (steps : Int)))
        (pySlice om Gen.MultipleFns.timeMatchInitOmLo (Gen.MultipleFns.timeMatchInitOmHi (steps : Int))) := by
  have h1 : Gen.MultipleFns.timeMatchInitBmLo = 0 := by unfold Gen.MultipleFns.timeMatchInitBmLo; omega
  have h2 : Gen.MultipleFns.timeMatchInitBmHi (steps : Int) = -(steps : Int) := by unfold Gen.MultipleFns.timeMatchInitBmHi; omega
  have h3 : Gen.MultipleFns.timeMatchInitOmLo = 0 := by unfold Gen.MultipleFns.timeMatchInitOmLo; omega
  have h4 : Gen.MultipleFns.timeMatchInitOmHi (steps : Int) = -(steps : Int) := by unfold Gen.MultipleFns.timeMatchInitOmHi; omega
  rw [h1, h2, h3, h4]

/-- the state update of the two search loops (step functions extracted from the loop bodies): the model's `scan` step with
`lagOf i = i` (first loop) and `lagOf i = -i` (second loop), strict `<` -/
theorem gen_scan_step (d md : Rat) (mi : Int) (i : Nat) :
    (if d < md then (d, (i : Int)) else (md, mi)) =
      (Gen.MultipleFns.timeMatchLagMinDiff md d, Gen.MultipleFns.timeMatchLagMinInd (i : Int) md mi d) ∧
    (if d < md then (d, -(i : Int)) else (md, mi)) =
      (Gen.MultipleFns.timeMatchLeadMinDiff md d, Gen.MultipleFns.timeMatchLeadMinInd (i : Int) md mi d) := by
  unfold Gen.MultipleFns.timeMatchLagMinDiff Gen.MultipleFns.timeMatchLagMinInd Gen.MultipleFns.timeMatchLeadMinDiff
    Gen.MultipleFns.timeMatchLeadMinInd
  constructor <;> split <;> simp

/-- the model's `scan` is the fold of the generated step functions (first loop) -/
theorem gen_scan_lag (f : Nat → Except ErrKind Rat) (l : List Nat) (st : Rat × Int) :
    scan f (fun i => (i : Int)) l st =
      scan f (fun i => (i : Int)) l st ∧
    ∀ i d, f i = .ok d → scan f (fun i => (i : Int)) (i :: l) st =
      scan f (fun i => (i : Int)) l
        (Gen.MultipleFns.timeMatchLagMinDiff st.1 d, Gen.MultipleFns.timeMatchLagMinInd (i : Int) st.1 st.2 d) := by
  refine ⟨rfl, ?_⟩
  intro i d h
  obtain ⟨md, mi⟩ := st
  simp only [scan, h]
  rw [(gen_scan_step d md mi i).1]

/-- the shift of a slave: branch conditions, number of padding copies and kept slice are the generated ones -/
theorem gen_shiftSlave (orig om : List Rat) (minInd : Int) :
    shiftSlave orig om minInd =
      if Gen.MultipleFns.timeMatchShiftNegCond minInd then
        match om.head? with
        | none => .error .IndexError
        | some x => .ok (List.replicate (Gen.MultipleFns.timeMatchShiftNegCount minInd).toNat x ++
            pyTo om (Gen.MultipleFns.timeMatchShiftNegStop minInd))
      else if Gen.MultipleFns.timeMatchShiftPosCond minInd then
        match om.getLast? with
        | none => .error .IndexError
        | some x => .ok (pyFrom om (Gen.MultipleFns.timeMatchShiftPosStart minInd) ++
            List.replicate (Gen.MultipleFns.timeMatchShiftPosCount minInd).toNat x)
      else .ok orig := by
  have h1 : (Gen.MultipleFns.timeMatchShiftNegCount minInd).toNat = minInd.natAbs := by
    unfold Gen.MultipleFns.timeMatchShiftNegCount Np.absv; split <;> omega
  have h2 : (Gen.MultipleFns.timeMatchShiftPosCount minInd).toNat = minInd.natAbs := by
    unfold Gen.MultipleFns.timeMatchShiftPosCount Np.absv; split <;> omega
  have h3 : Gen.MultipleFns.timeMatchShiftNegStop minInd = minInd := by unfold Gen.MultipleFns.timeMatchShiftNegStop; omega
  have h4 : Gen.MultipleFns.timeMatchShiftPosStart minInd = minInd := by unfold Gen.MultipleFns.timeMatchShiftPosStart; omega
  unfold shiftSlave
  simp only [h1, h2, h3, h4, Gen.MultipleFns.timeMatchShiftNegCond, Gen.MultipleFns.timeMatchShiftPosCond, decide_eq_true_eq]
  by_cases hn : minInd < 0
  · simp only [hn, if_true]; cases om.head? <;> rfl
  · by_cases hp : minInd > 0
    · simp only [hn, hp, if_true, if_false]; cases om.getLast? <;> rfl
    · simp only [hn, hp, if_false]

/-- consequence (C18.d `lag_search_spec` about the generated residual slices): when lag `L` is the unique minimiser, the search —
whose residuals are the generated slices by `gen_resLag`/`gen_resLead` — returns it -/
theorem gen_lag_search (bm om : List ℚ) (n steps : ℕ) (L : ℤ) (hbm : bm.length = n) (hom : om.length = n)
    (hS : steps ≤ n) (hL : -(steps : ℤ) < L ∧ L < steps)
    (hmin : ∀ l : ℤ, -(steps : ℤ) < l → l < steps → l ≠ L →
      lagResidual bm om (n - steps) L < lagResidual bm om (n - steps) l) :
    lagSearch bm om steps = .ok L ∧
    (∀ i : ℕ, resLag bm om steps i = ssd
      (pySlice om (Gen.MultipleFns.timeMatchLagMovingLo (i : ℤ)) (Gen.MultipleFns.timeMatchLagMovingHi (steps : ℤ) (i : ℤ)))
      (pySlice bm Gen.MultipleFns.timeMatchLagFixedLo (Gen.MultipleFns.timeMatchLagFixedHi (steps : ℤ)))) :=
  ⟨lag_search_spec bm om n steps L hbm hom hS hL hmin, fun i => gen_resLag bm om steps i⟩

example : Gen.MultipleFns.timeMatchDefaultSteps = 10 ∧ Gen.MultipleFns.timeMatchLengthCheck [1, 2, 3] [1, 2] = 2 ∧
    Gen.MultipleFns.timeMatchIsSlave 0 1 = true ∧ Gen.MultipleFns.timeMatchInitBmLo = 0 ∧ Gen.MultipleFns.timeMatchInitBmHi 3 = -3 ∧
    Gen.MultipleFns.timeMatchInitOmLo = 0 ∧ Gen.MultipleFns.timeMatchInitOmHi 3 = -3 ∧ Gen.MultipleFns.timeMatchLagMovingLo 2 = 2 ∧
    Gen.MultipleFns.timeMatchLagMovingHi 3 2 = -1 ∧ Gen.MultipleFns.timeMatchLagFixedLo = 0 ∧ Gen.MultipleFns.timeMatchLagFixedHi 3 = -3 ∧
    Gen.MultipleFns.timeMatchLagMinDiff 5 4 = 4 ∧ Gen.MultipleFns.timeMatchLagMinDiff 5 5 = 5 ∧
    Gen.MultipleFns.timeMatchLagMinInd 2 5 0 4 = 2 ∧ Gen.MultipleFns.timeMatchLagMinInd 2 5 0 5 = 0 ∧
    Gen.MultipleFns.timeMatchLeadMovingLo 2 = 2 ∧ Gen.MultipleFns.timeMatchLeadMovingHi 3 2 = -1 ∧
    Gen.MultipleFns.timeMatchLeadFixedLo = 0 ∧ Gen.MultipleFns.timeMatchLeadFixedHi 3 = -3 ∧
    Gen.MultipleFns.timeMatchLeadMinDiff 5 4 = 4 ∧ Gen.MultipleFns.timeMatchLeadMinInd 2 5 0 4 = -2 ∧
    Gen.MultipleFns.timeMatchShiftNegCond (-2) = true ∧ Gen.MultipleFns.timeMatchShiftNegCount (-2) = 2 ∧
    Gen.MultipleFns.timeMatchShiftNegStop (-2) = -2 ∧ Gen.MultipleFns.timeMatchShiftPosCond 2 = true ∧
    Gen.MultipleFns.timeMatchShiftPosCount 2 = 2 ∧ Gen.MultipleFns.timeMatchShiftPosStart 2 = 2 := by decide +kernel

/-! ## parameter identities

The parameter lists of the generated definitions are derived from the symbols their text mentions; the tables `…Signatures` say
which quantity each parameter stands for.  Pinning them here makes an edit that swaps *which* quantity an expression reads (same type,
same arity) fail the build even where the bridge above passes the arguments positionally. -/

example : Gen.MultipleFns.combineSignatures =
  [("combineEntry", ["cos", "sin", "radians", "angle", "ns", "we"]),
   ("combineDt", ["dt_ns"])] := rfl

example : Gen.MultipleFns.rotatedSignatures =
  [("rotatedAssertDt", ["dt_ns", "dt_we"]),
   ("rotatedAssertNpts", ["npts_ns", "npts_we"]),
   ("rotatedLinStart", ["angle_off_ns"]),
   ("rotatedLinStop", ["angle_off_ns"]),
   ("rotatedLinNum", ["points"]),
   ("rotatedModulus", []),
   ("rotatedRaises", ["parameter", "func_given"])] := rfl

example : Gen.MultipleFns.sectionAverageSignatures =
  [("sectionAverageLo", ["s_index"]),
   ("sectionAverageHi", ["e_index"]),
   ("sectionAverageDefaultStart", []),
   ("sectionAverageDefaultEnd", [])] := rfl

example : Gen.MultipleFns.sameStartSignatures =
  [("sameStartDefaultStart", []),
   ("sameStartDefaultEnd", []),
   ("sameStartIsSlave", ["master_index", "index of loop 1"]),
   ("sameStartNewEntry", ["section average of signal master_index", "entry of signal ⟨index of loop 1⟩", "section average of signal ⟨index of loop 1⟩"])] := rfl

example : Gen.MultipleFns.timeMatchSignatures =
  [("timeMatchLagMinDiff", ["carried Rat 0 before the iteration", "sum of (⟨entry of slice 5⟩ - ⟨entry of slice 6⟩) * (⟨entry of slice 5⟩ - ⟨entry of slice 6⟩)"]),
   ("timeMatchLagMinInd", ["index of loop 2", "carried Rat 0 before the iteration", "carried Int 1 before the iteration", "sum of (⟨entry of slice 5⟩ - ⟨entry of slice 6⟩) * (⟨entry of slice 5⟩ - ⟨entry of slice 6⟩)"]),
   ("timeMatchLeadMinDiff", ["carried Rat 0 before the iteration", "sum of (⟨entry of slice 7⟩ - ⟨entry of slice 8⟩) * (⟨entry of slice 7⟩ - ⟨entry of slice 8⟩)"]),
   ("timeMatchLeadMinInd", ["index of loop 3", "carried Rat 0 before the iteration", "carried Int 1 before the iteration", "sum of (⟨entry of slice 7⟩ - ⟨entry of slice 8⟩) * (⟨entry of slice 7⟩ - ⟨entry of slice 8⟩)"]),
   ("timeMatchDefaultSteps", []),
   ("timeMatchLengthCheck", ["values of signal 0", "values of signal 1"]),
   ("timeMatchIsSlave", ["master_index", "index of loop 1"]),
   ("timeMatchInitBmLo", []),
   ("timeMatchInitBmHi", ["steps"]),
   ("timeMatchInitOmLo", []),
   ("timeMatchInitOmHi", ["steps"]),
   ("timeMatchLagMovingLo", ["index of loop 2"]),
   ("timeMatchLagMovingHi", ["steps", "index of loop 2"]),
   ("timeMatchLagFixedLo", []),
   ("timeMatchLagFixedHi", ["steps"]),
   ("timeMatchLeadMovingLo", ["index of loop 3"]),
   ("timeMatchLeadMovingHi", ["steps", "index of loop 3"]),
   ("timeMatchLeadFixedLo", []),
   ("timeMatchLeadFixedHi", ["steps"]),
   ("timeMatchShiftNegCond", ["timeMatchLagMinInd"]),
   ("timeMatchShiftNegCount", ["timeMatchLagMinInd"]),
   ("timeMatchShiftNegStop", ["timeMatchLagMinInd"]),
   ("timeMatchShiftPosCond", ["timeMatchLagMinInd"]),
   ("timeMatchShiftPosCount", ["timeMatchLagMinInd"]),
   ("timeMatchShiftPosStart", ["timeMatchLagMinInd"])] := rfl

end EqsigVerif.Props.C18
