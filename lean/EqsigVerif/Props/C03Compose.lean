import EqsigVerif.Model.ObjectSpectra
import EqsigVerif.Lemmas.ObjectSpectra
import EqsigVerif.Gen.SdofABReal
import Mathlib.Data.List.GetD
/-!
# C03.d — the composition theorem for the object-level spectra (`AccSignal.gen_response_spectrum`)

Completes `object_spectra_spec_partial` of `Props/C03.lean` (the branch decision) with the composition:
`Model/ObjectSpectra.lean` models `gen_response_spectrum` end to end from
`Model.SpectraFns.targetDt`, `Model.TimeStep.interpArrayToApproxDt`, `Model.Sdof.response` (arbitrary propagator) and
`Model.SpectraFns.pseudoSpectra`.

* `object_spectra_errors`   — which inputs raise (`IndexError`, `ZeroDivisionError`);
* `object_spectra_spec`     — (a) the result is `pseudo_response_spectra` of `(values', dt')` with the stated `(values', dt')`,
                               step bound and integer factor; any number type, any propagator;
* `object_spectra_retains`  — (b) the interpolated record retains every original sample at index `k·i`, and is exactly
                               `refine k values ++ (k−1 copies of values[-1])`;
* `object_spectra_rows_sampled` — (c) over `ℝ`, generated propagator: every displacement row of the object's response, read
                               at the multiples of `k`, is the row of the response to the raw samples at step `dt`
                               (the `k − 1` tail samples come *after* the last original instant, so by causality they do
                               not matter: nothing is missing, the statement is full);
* `object_spectra_sd_ge_raw` — (c) `S_d` and `S_v` of the object are `≥` the values computed from the raw samples, and `S_a` too
                               outside the corner `6·dt' ≤ T < 6·dt` (finding F03-1: there the raw computation substitutes the
                               PGA and the object does not).

The rules of `Lemmas/TimeStep.lean`, `Lemmas/SdofRefine.lean` behind C14 `factor_rule`/`consumer_integer_factor`/
`refinement_retains` and C02 `resp_refine`/`resp_refine_spectra` are used (Props files do not import each other).
-/
set_option linter.unusedVariables false
set_option linter.unusedSimpArgs false
set_option linter.unusedSectionVars false
namespace EqsigVerif.Props.C03
open EqsigVerif
open EqsigVerif.Wire (ErrKind)
open EqsigVerif.Model.SpectraFns EqsigVerif.Model.TimeStep EqsigVerif.Model.Sdof EqsigVerif.Model.ObjectSpectra
open EqsigVerif.Lemmas.ObjectSpectra EqsigVerif.Gen.SdofAB

/-- a concrete rational propagator and zero test for the non-vacuity examples -/
private def abQ : Rat → Rat → Rat → AB Rat := fun xi w dt => ⟨1, dt, -w * dt, 1 - xi, dt / 2, dt / 3, 1, -1⟩
private def isZ : Rat → Bool := fun p => p == 0

section Generic
variable {α : Type} [LT α] [DecidableLT α] [Neg α] [OfNat α 0] [OfNat α 1] [OfNat α 2] [OfNat α 6]
  [Add α] [Sub α] [Mul α] [Div α] [DecidableEq α]

/-! ## errors -/

/-- `gen_response_spectrum` raises `IndexError` when there is no non-zero-period candidate (`response_times` empty, or
`[0]`), and `ZeroDivisionError` for `min_dt_ratio = 0` — before anything else is computed. -/
theorem object_spectra_errors (cast : ℚ → α) (twoPi c : α) (isZero : α → Bool) (ab : α → α → α → AB α) (xi : α)
    (values : List ℚ) (dt ratio : ℚ) (rt : List ℚ) :
    (∀ e, minNonZeroPeriod rt = .error e →
      objectSpectra cast twoPi c isZero ab xi values dt rt ratio = .error e) ∧
    (∀ Tmin, minNonZeroPeriod rt = .ok Tmin → ratio = 0 →
      objectSpectra cast twoPi c isZero ab xi values dt rt ratio = .error .ZeroDivisionError) := by
  constructor
  · intro e he
    have : targetDt rt dt ratio = .error e := by simp [targetDt, he]
    simp [objectSpectra, objectSpectraWith, objectInput_error _ _ _ _ _ this]
  · intro Tmin hT hr
    have : targetDt rt dt ratio = .error .ZeroDivisionError := by simp [targetDt, hT, hr]
    simp [objectSpectra, objectSpectraWith, objectInput_error _ _ _ _ _ this]

example : objectSpectra id 6 6 isZ abQ (1/20) [1, -2, 3] (1/2) [0] 4 = .error .IndexError ∧
    objectSpectra id 6 6 isZ abQ (1/20) [1, -2, 3] (1/2) [1] 0 = .error .ZeroDivisionError := by decide +kernel

/-! ## (a) the composition -/

/-- **C03.d (a)** `object_spectra_spec`.  With `Tmin` = the first period unless it is 0 (then the second),
`target_dt = max(Tmin/20, dt/min_dt_ratio)` (`dt, min_dt_ratio > 0`), and
`spectraOf v d = pseudo_response_spectra(v, d, response_times, xi)` (response rows of `(v, d)` + the reductions):
* `target_dt ≥ dt`: the object's spectra are `spectraOf values dt` (raw samples, raw step);
* `target_dt < dt`: they are `spectraOf values' dt'` with
  `(values', dt') = interp_array_to_approx_dt(values, dt, target_dt, even=False)
                 = interpToApproxDt values dt (factorRule (dt/target_dt)) false = (interpValues values k false, dt/k)`,
  where `k = ⌈dt/target_dt⌉ ∈ ℕ`, `k ≥ 2`, `dt' = dt/k ≤ target_dt`, `dt/dt' = k`.
Holds for every number type `α` (with `cast : ℚ → α`) and every propagator `ab`. -/
theorem object_spectra_spec (cast : ℚ → α) (twoPi c : α) (isZero : α → Bool) (ab : α → α → α → AB α) (xi : α)
    (values : List ℚ) (dt ratio : ℚ) (rt : List ℚ) (Tmin : ℚ)
    (hmin : minNonZeroPeriod rt = .ok Tmin) (hdt : 0 < dt) (hr : 0 < ratio) :
    let target := max (Tmin / 20) (dt / ratio)
    let spectraOf := fun (v : List ℚ) (d : ℚ) =>
      pseudoResponseSpectra twoPi (respRowsU c isZero ab xi) (v.map cast) (cast d) (rt.map cast)
    targetDt rt dt ratio = .ok target ∧ 0 < target ∧
    (dt ≤ target →
      objectInput values dt rt ratio = .ok (values, dt) ∧
      objectSpectra cast twoPi c isZero ab xi values dt rt ratio = spectraOf values dt) ∧
    (target < dt →
      ∃ k : ℕ, 2 ≤ k ∧ factorRule (dt / target) = (k : ℚ) ∧ (k : ℚ) = ((⌈dt / target⌉ : ℤ) : ℚ) ∧
        dt / (k : ℚ) ≤ target ∧ dt / (dt / (k : ℚ)) = (k : ℚ) ∧
        interpToApproxDt values dt (factorRule (dt / target)) false =
          .ok (interpValues values (k : ℚ) false, dt / (k : ℚ)) ∧
        objectInput values dt rt ratio = .ok (interpValues values (k : ℚ) false, dt / (k : ℚ)) ∧
        objectSpectra cast twoPi c isZero ab xi values dt rt ratio =
          spectraOf (interpValues values (k : ℚ) false) (dt / (k : ℚ))) := by
  intro target spectraOf
  have htd : targetDt rt dt ratio = .ok target := by
    simp only [targetDt, hmin, hr.ne', if_false, Np.max2_eq_max, target]
  have htpos : 0 < target := lt_max_of_lt_right (div_pos hdt hr)
  refine ⟨htd, htpos, ?_, ?_⟩
  · intro hge
    have hin := objectInput_raw values dt rt ratio target htd hge
    exact ⟨hin, by simp only [objectSpectra, objectSpectraWith, hin, spectraOf]⟩
  · intro hlt
    obtain ⟨k, hk2, hf, hceil, hle, hi, hin⟩ := objectInput_interp values dt rt ratio target htd htpos hlt
    have hk0 : (k : ℚ) ≠ 0 := by exact_mod_cast (by omega : k ≠ 0)
    refine ⟨k, hk2, hf, hceil, hle, by field_simp, hi, hin, ?_⟩
    simp only [objectSpectra, objectSpectraWith, hin, spectraOf]

/-- non-vacuity: `dt = 1/2`, `min_dt_ratio = 4`, periods `[0, 5, 8]` ⇒ `Tmin = 5`, `target_dt = 1/4 < dt`, `k = 2`:
the object interpolates to `[1, -1/2, -2, 1/2, 3, 3]` at `dt' = 1/4`; periods `[20, 30]` ⇒ `target_dt = 1 ≥ dt`: raw. -/
example :
    minNonZeroPeriod ([0, 5, 8] : List ℚ) = .ok 5 ∧ max ((5 : ℚ) / 20) ((1/2) / 4) = 1/4 ∧
    objectInput [1, -2, 3] (1/2) [0, 5, 8] 4 = .ok ([1, -1/2, -2, 1/2, 3, 3], 1/4) ∧
    objectSpectra id 6 6 isZ abQ (1/20) [1, -2, 3] (1/2) [0, 5, 8] 4 =
      pseudoResponseSpectra 6 (respRowsU 6 isZ abQ (1/20)) [1, -1/2, -2, 1/2, 3, 3] (1/4) [0, 5, 8] ∧
    objectSpectra id 6 6 isZ abQ (1/20) [1, -2, 3] (1/2) [0, 5, 8] 4 =
      .ok ([0, 10607/9600, 6963077/6144000], [0, 10607/8000, 6963077/8192000], [3, 31821/20000, 20889231/32768000]) ∧
    objectInput [1, -2, 3] (1/2) [20, 30] 4 = .ok ([1, -2, 3], 1/2) ∧
    objectSpectra id 6 6 isZ abQ (1/20) [1, -2, 3] (1/2) [20, 30] 4 =
      .ok ([17/12, 17/12], [17/40, 17/60], [51/400, 17/300]) := by
  refine ⟨by decide +kernel, by norm_num, by decide +kernel, by decide +kernel, by decide +kernel,
    by decide +kernel, by decide +kernel⟩

end Generic

/-! ## (b) retained samples -/

/-- **C03.d (b)** `object_spectra_retains`.  In the interpolated case (`0 < target_dt < dt`) the record handed to
`pseudo_response_spectra` has `k·n` samples at step `dt/k` (`k = ⌈dt/target_dt⌉ ≥ 2`), contains every original sample
at index `k·i`, and is exactly the linear refinement `refine k values` (C02.e) followed by `k − 1` copies of the last
sample (`np.interp` to the right of the record). -/
theorem object_spectra_retains (values : List ℚ) (dt ratio : ℚ) (rt : List ℚ) (target : ℚ)
    (h : targetDt rt dt ratio = .ok target) (ht : 0 < target) (hlt : target < dt) :
    ∃ k : ℕ, 2 ≤ k ∧ (k : ℚ) = ((⌈dt / target⌉ : ℤ) : ℚ) ∧ ∃ vi : List ℚ,
      objectInput values dt rt ratio = .ok (vi, dt / (k : ℚ)) ∧
      vi.length = k * values.length ∧
      (∀ i, i < values.length → vi[k * i]? = values[i]?) ∧
      (values ≠ [] →
        vi = refine k values ++ List.replicate (k - 1) (values.getD (values.length - 1) 0)) := by
  obtain ⟨k, hk2, hf, hceil, hle, hi, hin⟩ := objectInput_interp values dt rt ratio target h ht hlt
  refine ⟨k, hk2, hceil, interpValues values (k : ℚ) false, hin, ?_, ?_, ?_⟩
  · rw [length_interpValues, outLen_refine_odd]
  · intro i hi'; exact interpValues_retains values k (by omega) i hi'
  · intro hne; exact interpValues_eq_refine values k (by omega) hne

example : ∃ k : ℕ, 2 ≤ k ∧ (k : ℚ) = ((⌈(1/2 : ℚ) / (1/4)⌉ : ℤ) : ℚ) ∧ ∃ vi : List ℚ,
    objectInput [1, -2, 3] (1/2) [0, 5, 8] 4 = .ok (vi, (1/2) / (k : ℚ)) ∧ vi.length = k * 3 ∧
    (∀ i, i < 3 → vi[k * i]? = ([1, -2, 3] : List ℚ)[i]?) ∧
    (([1, -2, 3] : List ℚ) ≠ [] → vi = refine k [1, -2, 3] ++ List.replicate (k - 1) (([1, -2, 3] : List ℚ).getD 2 0)) :=
  object_spectra_retains [1, -2, 3] (1/2) 4 [0, 5, 8] (1/4) (by decide +kernel) (by norm_num) (by norm_num)

example : refine 2 ([1, -2, 3] : List ℚ) ++ List.replicate 1 3 = [1, -1/2, -2, 1/2, 3, 3] := by decide +kernel

/-! ## (c) never below the raw-sample spectra (`ℝ`, generated propagator) -/

/-- **C03.d (c), rows** `object_spectra_rows_sampled`.  Interpolated case, integer factor `k ≥ 1`, non-empty record,
`0 ≤ ξ < 1`, `dt > 0`, a period that is positive or a leading zero: the row (all three series) of the response to the
interpolated record `interpValues values k false` at step `dt/k`, read at the multiples of `k`, is the row of the
response to the raw samples at step `dt`.  (The interpolated record is `refine k values` plus `k − 1` samples *after*
the last original instant; by causality they cannot influence the samples `k·i`, `i < n`.) -/
theorem object_spectra_rows_sampled (c xi dt : ℝ) (hc : 0 < c) (hdt : 0 < dt) (hxi0 : 0 ≤ xi) (hxi1 : xi < 1)
    (k : ℕ) (hk : 1 ≤ k) (values : List ℚ) (hne : values ≠ []) (isZero : ℝ → Bool) (ps : List ℝ) (j : ℕ)
    (hps : (j = 0 ∧ isZero (ps.getD 0 0) = true) ∨ 0 < ps.getD j 0)
    (R R0 : List (List ℝ × List ℝ × List ℝ)) (hj : j < ps.length)
    (hR : response c isZero (fun w => computeABReal xi w (dt / k)) xi
      ((interpValues values (k : ℚ) false).map (Rat.cast : ℚ → ℝ)) ps = some R)
    (hR0 : response c isZero (fun w => computeABReal xi w dt) xi (values.map (Rat.cast : ℚ → ℝ)) ps = some R0) :
    ∃ row row0, R[j]? = some row ∧ R0[j]? = some row0 ∧ Sampled3 k values.length row row0 := by
  obtain ⟨_, h1⟩ := response_getD c isZero _ xi _ ps R hR
  obtain ⟨_, h2⟩ := response_getD c isZero _ xi _ ps R0 hR0
  exact ⟨_, _, h1 j hj, h2 j hj, rowAt_interp_sampled c xi dt hc hdt hxi0 hxi1 k hk values hne isZero ps j hps⟩

example : True := by
  have hR0 : response 6 isZR (fun w => computeABReal (1/20) w (1/2)) (1/20)
      (([1, -2, 3] : List ℚ).map (Rat.cast : ℚ → ℝ)) [0, 5] = some _ := response_cons_zero _ _ _ _ _ _ _ (by simp [isZR])
  have hR : response 6 isZR (fun w => computeABReal (1/20) w ((1/2) / (2 : ℕ))) (1/20)
      ((interpValues [1, -2, 3] ((2 : ℕ) : ℚ) false).map (Rat.cast : ℚ → ℝ)) [0, 5] = some _ :=
    response_cons_zero _ _ _ _ _ _ _ (by simp [isZR])
  have := object_spectra_rows_sampled 6 (1/20) (1/2) (by norm_num) (by norm_num) (by norm_num) (by norm_num) 2
    (by norm_num) [1, -2, 3] (by simp) isZR [0, 5] 1 (Or.inr (by norm_num)) _ _ (by norm_num) hR hR0
  trivial

/-- **C03.d (c)** `object_spectra_sd_ge_raw`.  Over `ℝ` with the generated closed-form propagator (`0 ≤ ξ < 1`),
`dt, min_dt_ratio > 0`, periods positive except possibly a leading zero.  Let `(s_d, s_v, s_a)` be the object's spectra,
`(values', dt')` what the object feeds to `pseudo_response_spectra`, and `(s_d⁰, s_v⁰, s_a⁰)` the spectra computed from the
raw samples at the raw step.  Then `dt' ≤ dt` and for every period index `j`:
`s_d⁰[j] ≤ s_d[j]`, `s_v⁰[j] ≤ s_v[j]`, and `s_a⁰[j] ≤ s_a[j]` unless `6·dt' ≤ T_j < 6·dt`
(in that corner the raw computation returns the PGA and the object `ω²·s_d`, which may be smaller: finding F03-1). -/
theorem object_spectra_sd_ge_raw (twoPi c xi : ℝ) (h2pi : 0 < twoPi) (hc : 0 < c) (hxi0 : 0 ≤ xi) (hxi1 : xi < 1)
    (values : List ℚ) (dt ratio : ℚ) (rt : List ℚ) (hdt : 0 < dt) (hratio : 0 < ratio)
    (hps : ∀ (j : ℕ) (p : ℚ), rt[j]? = some p → (j = 0 ∧ p = 0) ∨ 0 < p)
    (vi : List ℚ) (dti : ℚ) (hin : objectInput values dt rt ratio = .ok (vi, dti))
    (sds svs sas sds0 svs0 sas0 : List ℝ)
    (hobj : objectSpectra (Rat.cast : ℚ → ℝ) twoPi c isZR computeABReal xi values dt rt ratio = .ok (sds, svs, sas))
    (hraw : pseudoResponseSpectra twoPi (respRowsU c isZR computeABReal xi) (values.map (Rat.cast : ℚ → ℝ)) (dt : ℝ)
      (rt.map (Rat.cast : ℚ → ℝ)) = .ok (sds0, svs0, sas0)) :
    dti ≤ dt ∧ ∀ j, j < rt.length →
      sds0.getD j 0 ≤ sds.getD j 0 ∧ svs0.getD j 0 ≤ svs.getD j 0 ∧
      (((dt : ℝ) * 6 ≤ ((rt.getD j 0 : ℚ) : ℝ) ∨ ((rt.getD j 0 : ℚ) : ℝ) < (dti : ℝ) * 6) →
        sas0.getD j 0 ≤ sas.getD j 0) := by
  -- the target step
  cases htd : targetDt rt dt ratio with
  | error e => rw [objectInput_error _ _ _ _ _ htd] at hin; cases hin
  | ok target =>
  have hobj' : pseudoResponseSpectra twoPi (respRowsU c isZR computeABReal xi) (vi.map (Rat.cast : ℚ → ℝ)) (dti : ℝ)
      (rt.map (Rat.cast : ℚ → ℝ)) = .ok (sds, svs, sas) := by
    simpa only [objectSpectra, objectSpectraWith, hin] using hobj
  rcases le_or_gt dt target with hge | hlt
  · -- raw branch: the two computations are the same
    rw [objectInput_raw values dt rt ratio target htd hge, Except.ok.injEq, Prod.mk.injEq] at hin
    obtain ⟨rfl, rfl⟩ := hin
    rw [hraw, Except.ok.injEq, Prod.mk.injEq, Prod.mk.injEq] at hobj'
    obtain ⟨rfl, rfl, rfl⟩ := hobj'
    exact ⟨le_refl _, fun j _ => ⟨le_refl _, le_refl _, fun _ => le_refl _⟩⟩
  · -- interpolated branch
    have htpos : 0 < target := by
      unfold targetDt at htd
      cases hm : minNonZeroPeriod rt with
      | error e => simp [hm] at htd
      | ok m =>
        simp only [hm, hratio.ne', if_false, Except.ok.injEq, Np.max2_eq_max] at htd
        rw [← htd]; exact lt_max_of_lt_right (div_pos hdt hratio)
    obtain ⟨k, hk2, hf, hceil, hle, hi, hin'⟩ := objectInput_interp values dt rt ratio target htd htpos hlt
    rw [hin', Except.ok.injEq, Prod.mk.injEq] at hin
    obtain ⟨rfl, rfl⟩ := hin
    have hk1 : 1 ≤ k := by omega
    have hkq : (0 : ℚ) < (k : ℚ) := by exact_mod_cast (by omega : 0 < k)
    have hdti : dt / (k : ℚ) ≤ dt := by
      rw [div_le_iff₀ hkq]
      have : (1 : ℚ) ≤ (k : ℚ) := by exact_mod_cast hk1
      nlinarith
    refine ⟨hdti, ?_⟩
    -- unfold the two computations
    have hcastdt : (((dt / (k : ℚ) : ℚ)) : ℝ) = (dt : ℝ) / (k : ℝ) := by push_cast; rfl
    unfold pseudoResponseSpectra at hobj' hraw
    push_cast at hobj'
    cases hu : respRowsU c isZR computeABReal xi ((interpValues values (k : ℚ) false).map (Rat.cast : ℚ → ℝ))
        ((dt : ℝ) / (k : ℝ)) (rt.map (Rat.cast : ℚ → ℝ)) with
    | error e => simp [hu] at hobj'
    | ok u =>
    cases hu0 : respRowsU c isZR computeABReal xi (values.map (Rat.cast : ℚ → ℝ)) (dt : ℝ)
        (rt.map (Rat.cast : ℚ → ℝ)) with
    | error e => simp [hu0] at hraw
    | ok u0 =>
    simp only [hu] at hobj'
    simp only [hu0] at hraw
    obtain ⟨_, _, _, _, pga, hpga, hJ⟩ := pseudoSpectra_ok twoPi _ _ _ u sds svs sas hobj'
    obtain ⟨_, _, _, _, pga0, hpga0, hJ0⟩ := pseudoSpectra_ok twoPi _ _ _ u0 sds0 svs0 sas0 hraw
    have hne : values ≠ [] := by
      rintro rfl
      obtain ⟨x, hx, _⟩ := hpga0.2
      simp at hx
    obtain ⟨_, hrow⟩ := respRowsU_getD c isZR computeABReal xi _ _ _ u hu
    obtain ⟨_, hrow0⟩ := respRowsU_getD c isZR computeABReal xi _ _ _ u0 hu0
    have hdtR : (0 : ℝ) < (dt : ℝ) := by exact_mod_cast hdt
    -- the record: every raw sample occurs in the interpolated record, so the PGA does not decrease
    have hpga_le : pga0 ≤ pga := by
      apply IsAbsMax.le_of_sampled hpga0 hpga
      intro i hi'
      refine ⟨k * i, ?_⟩
      rw [List.getElem?_map, List.getElem?_map, interpValues_retains values k hk1 i (by simpa using hi')]
    intro j hj
    have hjm : j < (rt.map (Rat.cast : ℚ → ℝ)).length := by simpa using hj
    obtain ⟨a1, a2, a3⟩ := hJ j hjm
    obtain ⟨b1, b2, b3⟩ := hJ0 j hjm
    -- the period
    have hgetD : (rt.map (Rat.cast : ℚ → ℝ)).getD j 0 = ((rt.getD j 0 : ℚ) : ℝ) := by
      have := List.getD_map (l := rt) (d := (0 : ℚ)) (n := j) (Rat.cast : ℚ → ℝ)
      simpa only [Rat.cast_zero] using this
    have hgetD0 : (rt.map (Rat.cast : ℚ → ℝ)).getD 0 0 = ((rt.getD 0 0 : ℚ) : ℝ) := by
      have := List.getD_map (l := rt) (d := (0 : ℚ)) (n := 0) (Rat.cast : ℚ → ℝ)
      simpa only [Rat.cast_zero] using this
    have hpj := hps j (rt[j]) (List.getElem?_eq_getElem hj)
    have hrtj : rt.getD j 0 = rt[j] := by simp [List.getD_eq_getElem?_getD, List.getElem?_eq_getElem hj]
    have hps' : (j = 0 ∧ isZR ((rt.map (Rat.cast : ℚ → ℝ)).getD 0 0) = true) ∨
        0 < (rt.map (Rat.cast : ℚ → ℝ)).getD j 0 := by
      rcases hpj with ⟨hj0, hp0⟩ | hp
      · left
        refine ⟨hj0, ?_⟩
        subst hj0
        rw [hgetD0, hrtj, hp0]
        simp [isZR]
      · right; rw [hgetD, hrtj]; exact_mod_cast hp
    -- displacement rows: sampled
    have hs := rowAt_interp_sampled c xi (dt : ℝ) hc hdtR hxi0 hxi1 k hk1 values hne isZR
      (rt.map (Rat.cast : ℚ → ℝ)) j hps'
    have hsd : sds0.getD j 0 ≤ sds.getD j 0 := by
      apply IsAbsMax.le_of_sampled b1 a1
      intro i hi'
      rw [hrow0 j hjm, rowAt_length, List.length_map] at hi'
      refine ⟨k * i, ?_⟩
      rw [hrow j hjm, hrow0 j hjm]
      exact (hs i hi').1
    -- ω_j ≥ 0
    have hw : 0 ≤ omegaAt twoPi (rt.map (Rat.cast : ℚ → ℝ)) j := by
      unfold omegaAt
      split
      · exact zero_le_one
      · apply div_nonneg h2pi.le
        rw [hgetD, hrtj]
        rcases hpj with ⟨_, hp0⟩ | hp
        · rw [hp0]; simp
        · exact_mod_cast hp.le
    refine ⟨hsd, by rw [a2, b2]; exact mul_le_mul_of_nonneg_left hsd hw, ?_⟩
    intro hcorner
    rw [a3, b3, hgetD, ← hcastdt]
    have hdtiR : (((dt / (k : ℚ) : ℚ)) : ℝ) ≤ (dt : ℝ) := by exact_mod_cast hdti
    rcases hcorner with h6 | h6
    · have n1 : ¬ (((rt.getD j 0 : ℚ) : ℝ) < (dt : ℝ) * 6) := not_lt.2 h6
      have n2 : ¬ (((rt.getD j 0 : ℚ) : ℝ) < (((dt / (k : ℚ) : ℚ)) : ℝ) * 6) := by
        apply not_lt.2; linarith
      rw [if_neg n1, if_neg n2]
      exact mul_le_mul_of_nonneg_left hsd (mul_nonneg hw hw)
    · have p2 : ((rt.getD j 0 : ℚ) : ℝ) < (dt : ℝ) * 6 := by linarith
      rw [if_pos h6, if_pos p2]
      exact hpga_le

/-- non-vacuity: `values = [1, -2, 3]`, `dt = 1/2`, `min_dt_ratio = 4`, periods `[0, 5, 8]` (interpolated, `k = 2`),
`ξ = 1/20`; both computations return a value (`pseudoResponseSpectra_isOk`), so all hypotheses hold together. -/
example : ∃ sds svs sas sds0 svs0 sas0 : List ℝ,
    objectSpectra (Rat.cast : ℚ → ℝ) 6 6 isZR computeABReal (1/20) [1, -2, 3] (1/2) [0, 5, 8] 4 = .ok (sds, svs, sas) ∧
    pseudoResponseSpectra 6 (respRowsU 6 isZR computeABReal (1/20)) (([1, -2, 3] : List ℚ).map (Rat.cast : ℚ → ℝ))
      ((1/2 : ℚ) : ℝ) (([0, 5, 8] : List ℚ).map (Rat.cast : ℚ → ℝ)) = .ok (sds0, svs0, sas0) ∧
    ∀ j, j < 3 → sds0.getD j 0 ≤ sds.getD j 0 ∧ svs0.getD j 0 ≤ svs.getD j 0 := by
  have hin : objectInput [1, -2, 3] (1/2) [0, 5, 8] 4 = .ok ([1, -1/2, -2, 1/2, 3, 3], 1/4) := by decide +kernel
  obtain ⟨⟨sds, svs, sas⟩, hobj'⟩ := pseudoResponseSpectra_isOk 6 6 (1/20) isZR computeABReal
    (([1, -1/2, -2, 1/2, 3, 3] : List ℚ).map (Rat.cast : ℚ → ℝ)) ((1/4 : ℚ) : ℝ)
    (([0, 5, 8] : List ℚ).map (Rat.cast : ℚ → ℝ)) (by simp) (by simp)
  obtain ⟨⟨sds0, svs0, sas0⟩, hraw⟩ := pseudoResponseSpectra_isOk 6 6 (1/20) isZR computeABReal
    (([1, -2, 3] : List ℚ).map (Rat.cast : ℚ → ℝ)) ((1/2 : ℚ) : ℝ)
    (([0, 5, 8] : List ℚ).map (Rat.cast : ℚ → ℝ)) (by simp) (by simp)
  have hobj : objectSpectra (Rat.cast : ℚ → ℝ) 6 6 isZR computeABReal (1/20) [1, -2, 3] (1/2) [0, 5, 8] 4
      = .ok (sds, svs, sas) := by
    simp only [objectSpectra, objectSpectraWith, hin]; exact hobj'
  refine ⟨sds, svs, sas, sds0, svs0, sas0, hobj, hraw, ?_⟩
  have h := object_spectra_sd_ge_raw 6 6 (1/20) (by norm_num) (by norm_num) (by norm_num) (by norm_num)
    [1, -2, 3] (1/2) 4 [0, 5, 8] (by norm_num) (by norm_num)
    (by
      intro j p hj
      match j, hj with
      | 0, hj => left; simp at hj; exact ⟨rfl, hj.symm⟩
      | 1, hj => right; simp at hj; rw [← hj]; norm_num
      | 2, hj => right; simp at hj; rw [← hj]; norm_num
      | (n + 3), hj => simp at hj)
    _ _ hin sds svs sas sds0 svs0 sas0 hobj hraw
  intro j hj
  exact ⟨(h.2 j hj).1, (h.2 j hj).2.1⟩

end EqsigVerif.Props.C03
