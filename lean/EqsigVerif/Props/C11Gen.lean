import EqsigVerif.Gen.PeaksFns
import EqsigVerif.Props.C11
import EqsigVerif.Lemmas.PeaksGen
/-!
# C11 — bridges from the definitions generated from `eqsig/fns/peaks_and_crossings.py` (`Gen/PeaksFns.lean`) to `Model/Peaks.lean`

The generated definitions follow the code statement by statement (NumPy pipeline: `ediff1d`, `where`, `insert`, `take`, slices);
the hand model is list-recursive (`runs`, `turnIdx`).  The bridges are proofs for **all** series (errors included), via the stage
lemmas of `Lemmas/PeaksGen.lean`.
-/
-- the simp sets contain the variants for commuted operands in the source (used only after such a rewrite)
set_option linter.unusedSimpArgs false
namespace EqsigVerif.Props.C11
open EqsigVerif EqsigVerif.Wire EqsigVerif.Model.Peaks EqsigVerif.Lemmas.Peaks EqsigVerif.Lemmas.PeaksGen

theorem takeE_ok_rat (l : List ℚ) (idx : List ℕ) (h : ∀ i ∈ idx, i < l.length) :
    NpP.takeE l idx = .ok (idx.map (fun i => l.getD i 0)) := takeE_ok l idx h

theorem gen_clean_out_non_changing (v : List ℚ) (hv : v ≠ []) :
    Gen.PeaksFns.cleanOutNonChanging v = .ok (codeVals v, codeIdx v) := by
  obtain ⟨x, xs, rfl⟩ := List.exists_cons_of_ne_nil hv
  unfold Gen.PeaksFns.cleanOutNonChanging
  rw [getE_ok _ 0 0 (by simp)]
  simp only [bind, Except.bind, List.getD_cons_zero]
  rw [nonzero_idx_eq, takeE_ok_rat _ _ (codeIdx_lt _ (by simp)), codeVals_eq]
  rfl

theorem gen_clean_out_non_changing_nil : Gen.PeaksFns.cleanOutNonChanging ([] : List ℚ) = .error .IndexError := rfl

theorem gen_peak_idx_cleaned (c : List ℚ) (hc : c ≠ []) :
    Gen.PeaksFns.peakIdxCleaned c = (peaksCleaned c).map Int.ofNat := by
  unfold Gen.PeaksFns.peakIdxCleaned peaksCleaned
  simp only [whereIdx_turnIdx, whereIdx_turnIdx_comm]
  have : ((c.length : ℤ) - 1) = Int.ofNat (c.length - 1) := by
    have := List.length_pos_of_ne_nil hc
    simp; omega
  rw [this]
  simp

/-- the `ptype` argument: `'min'`, `'max'`, every other string behaves like `'all'` -/
def ptypeOf (s : String) : PType := if s = "min" then .min else if s = "max" then .max else .all

theorem gen_get_peak_array_indices (v : List ℚ) (p : String) :
    Gen.PeaksFns.getPeakArrayIndices v p = getPeakArrayIndices v (ptypeOf p) := by
  cases v with
  | nil =>
    unfold Gen.PeaksFns.getPeakArrayIndices
    rw [gen_clean_out_non_changing_nil]; rfl
  | cons x xs =>
    have hv : x :: xs ≠ [] := by simp
    have hl := peaks_length_ge (x :: xs)
    unfold Gen.PeaksFns.getPeakArrayIndices
    rw [gen_clean_out_non_changing _ hv]
    simp only [bind, Except.bind]
    rw [gen_peak_idx_cleaned _ (codeVals_ne_nil _ hv), takeIE_code _ hv]
    simp only
    rw [getE_ok (peaks (x :: xs)) 1 0 (by omega), getE_ok (peaks (x :: xs)) 0 0 (by omega)]
    simp only
    have h1 : (peaks (x :: xs)).getD 1 0 < (x :: xs).length := pd_lt _ hv 1 (by omega)
    have h0 : (peaks (x :: xs)).getD 0 0 < (x :: xs).length := pd_lt _ hv 0 (by omega)
    rw [getE_ok (x :: xs) _ 0 h1, getE_ok (x :: xs) _ 0 h0]
    simp only [sliceStep_odds, sliceStep_evens]
    unfold ptypeOf getPeakArrayIndices peaksMin peaksMax firstMove
    split_ifs <;> rfl

/-- `np.interp(x, xp, fp)` on integer abscissae and knots, as modelled by hand in `Model/Peaks.lean` (`interp`) -/
def interpM (xs xp : List ℕ) (fp : List ℚ) : Except ErrKind (List ℚ) := .ok (xs.map (fun x => interp x xp fp))

/-- the `start` argument of `get_n_cyc_array` -/
def startOf (so : Bool) : String := if so then "origin" else "peak"

theorem gen_get_n_cyc_array (sw : List ℚ → Except ErrKind (List ℕ)) (v : List ℚ) (so : Bool) :
    Gen.PeaksFns.getNCycArray sw interpM v "all" (startOf so) = getNCycArray v so := by
  unfold Gen.PeaksFns.getNCycArray
  rw [gen_get_peak_array_indices]
  cases v with
  | nil => rfl
  | cons x xs =>
    have hv : x :: xs ≠ [] := by simp
    have hl := peaks_length_ge (x :: xs)
    have hh := peaks_head (x :: xs) hv
    have h0 : (peaks (x :: xs)).getD 0 0 = 0 := by
      rw [List.getD_eq_getElem?_getD, ← List.head?_eq_getElem?, hh]; rfl
    have hp : getPeakArrayIndices (x :: xs) (ptypeOf "all") = .ok (peaks (x :: xs)) := rfl
    have hs : (if startOf so = "origin" then (pure (-0.25 : ℚ) : Except ErrKind ℚ)
        else if startOf so = "peak" then pure 0 else Except.error ErrKind.ValueError) =
        .ok (if so then (-0.25 : ℚ) else 0) := by
      cases so <;> simp [startOf] <;> rfl
    simp only [if_true, hp, bind, Except.bind, pure, Except.pure] at hs ⊢
    rw [hs]
    simp only
    rw [getE_ok _ 0 0 (by omega), h0]
    simp only [ne_eq, not_true_eq_false, if_false]
    unfold interpM getNCycArray nCycAll nCycFrom
    simp only [knots_eq, knots_eq_comm, hh, if_true]
    rfl

/-- `get_n_cyc_array(values, opt='switched', start)`: the index list comes from `get_switched_peak_array_indices(values)` (the parameter
`sw`, instantiated with the generated definition in `Props/C12Gen.lean`); the rest is the model's `nCycFrom`. -/
theorem gen_get_n_cyc_array_switched (sw : List ℚ → Except ErrKind (List ℕ)) (v : List ℚ) (so : Bool) (idx : List ℕ)
    (hsw : sw v = .ok idx) (hne : idx ≠ []) :
    Gen.PeaksFns.getNCycArray sw interpM v "switched" (startOf so) = .ok (nCycFrom v.length idx so) := by
  unfold Gen.PeaksFns.getNCycArray
  have hs : (if startOf so = "origin" then (pure (-0.25 : ℚ) : Except ErrKind ℚ)
      else if startOf so = "peak" then pure 0 else Except.error ErrKind.ValueError) =
      .ok (if so then (-0.25 : ℚ) else 0) := by
    cases so <;> simp [startOf] <;> rfl
  have h1 : ¬ ("switched" = "all") := by decide
  simp only [h1, if_false, if_true, hsw, bind, Except.bind, pure, Except.pure] at hs ⊢
  rw [hs]
  simp only
  obtain ⟨i0, rest, rfl⟩ := List.exists_cons_of_ne_nil hne
  rw [getE_ok _ 0 0 (by simp)]
  unfold interpM nCycFrom
  simp only [List.getD_cons_zero, List.head?_cons, Option.some.injEq, knots_eq, knots_eq_comm]
  by_cases h : i0 = 0 <;> simp [h, Np.arange]

/-- `get_n_cyc_array`: `opt` other than `'all'` / `'switched'` raises `ValueError` (before anything else is evaluated) -/
theorem gen_get_n_cyc_array_bad_opt (sw : List ℚ → Except ErrKind (List ℕ)) (v : List ℚ) (opt start : String)
    (h1 : opt ≠ "all") (h2 : opt ≠ "switched") :
    Gen.PeaksFns.getNCycArray sw interpM v opt start = .error .ValueError := by
  unfold Gen.PeaksFns.getNCycArray
  simp only [h1, h2, if_false]
  rfl

/-- `get_n_cyc_array`: `start` other than `'origin'` / `'peak'` raises `ValueError` (for a non-empty series; on the empty series
`get_peak_array_indices` has raised `IndexError` before) -/
theorem gen_get_n_cyc_array_bad_start (sw : List ℚ → Except ErrKind (List ℕ)) (v : List ℚ) (hv : v ≠ []) (start : String)
    (h1 : start ≠ "origin") (h2 : start ≠ "peak") :
    Gen.PeaksFns.getNCycArray sw interpM v "all" start = .error .ValueError := by
  obtain ⟨x, xs, rfl⟩ := List.exists_cons_of_ne_nil hv
  unfold Gen.PeaksFns.getNCycArray
  rw [gen_get_peak_array_indices]
  have hp : getPeakArrayIndices (x :: xs) (ptypeOf "all") = .ok (peaks (x :: xs)) := rfl
  simp only [if_true, hp, h1, h2, if_false, bind, Except.bind, pure, Except.pure]

/-- deprecated wrapper `determine_indices_of_peaks_for_cleaned` -/
theorem gen_peak_idx_cleaned_deprecated (c : List ℚ) :
    Gen.PeaksFns.peakIdxCleanedDeprecated c = Gen.PeaksFns.peakIdxCleaned c := rfl

/-- `determine_indices_of_peaks_for_cleaned_array([])` is `[0, -1]` (the reason why the generated definition is `Int`-valued) -/
theorem gen_peak_idx_cleaned_nil : Gen.PeaksFns.peakIdxCleaned ([] : List ℚ) = [0, -1] := by decide +kernel

/-- `get_peak_indices(asig)` (the default `ptype='all'` is read from the callee's signature) -/
theorem gen_get_peak_indices (v : List ℚ) : Gen.PeaksFns.getPeakIndices v = getPeakArrayIndices v .all := by
  unfold Gen.PeaksFns.getPeakIndices
  rw [gen_get_peak_array_indices]
  cases v <;> rfl

/-! ### the C11 theorems stated about the generated definitions -/

theorem gen_all_ok (v : List ℚ) (hv : v ≠ []) : Gen.PeaksFns.getPeakArrayIndices v "all" = .ok (peaks v) := by
  rw [gen_get_peak_array_indices]
  obtain ⟨x, xs, rfl⟩ := List.exists_cons_of_ne_nil hv
  rfl

/-- C11.a about the generated `get_peak_array_indices` -/
theorem gen_peaks_shape (v : List ℚ) (hv : NonConstant v) :
    ∃ P, Gen.PeaksFns.getPeakArrayIndices v "all" = .ok P ∧ P.Pairwise (· < ·) ∧ P.head? = some 0 ∧
      ∃ k, P.getLast? = some k ∧ 0 < k ∧ k < v.length ∧ v.getD (k-1) 0 ≠ v.getD k 0 ∧
        ∀ j, k ≤ j → j < v.length → v.getD j 0 = v.getD k 0 :=
  ⟨_, gen_all_ok v (nonConstant_ne_nil v hv), peaks_shape v hv⟩

/-- C11.b about the generated `get_peak_array_indices` (alternation of the direction between consecutive reported indices) -/
theorem gen_peaks_alternate (v : List ℚ) (hv : NonConstant v) :
    ∃ P, Gen.PeaksFns.getPeakArrayIndices v "all" = .ok P ∧
      ∀ k, k + 2 < P.length → (v.getD (P.getD (k+1) 0) 0 - v.getD (P.getD k 0) 0) *
        (v.getD (P.getD (k+2) 0) 0 - v.getD (P.getD (k+1) 0) 0) < 0 :=
  ⟨_, gen_all_ok v (nonConstant_ne_nil v hv), (peaks_segments v hv).2⟩

/-- C11.c about the generated `get_peak_array_indices` -/
theorem gen_peaks_complete (v : List ℚ) (hv : NonConstant v) :
    ∃ P, Gen.PeaksFns.getPeakArrayIndices v "all" = .ok P ∧ ∀ i, i ∈ P ↔ i = 0 ∨ P.getLast? = some i ∨ IsTurn v i :=
  ⟨_, gen_all_ok v (nonConstant_ne_nil v hv), peaks_complete v hv⟩

/-- C11.d about the generated `get_peak_array_indices(values, 'max' | 'min')` -/
theorem gen_ptype_spec (v : List ℚ) (hv : NonConstant v) :
    ∃ P Pmax Pmin, Gen.PeaksFns.getPeakArrayIndices v "all" = .ok P ∧ Gen.PeaksFns.getPeakArrayIndices v "max" = .ok Pmax ∧
      Gen.PeaksFns.getPeakArrayIndices v "min" = .ok Pmin ∧ Pmax.Sublist P ∧ Pmin.Sublist P ∧
      (∀ i, i ∈ Pmax ↔ ∃ k, k < P.length ∧ P.getD k 0 = i ∧ LocalMaxAt v k) ∧
      (∀ i, i ∈ Pmin ↔ ∃ k, k < P.length ∧ P.getD k 0 = i ∧ LocalMinAt v k) := by
  have hne := nonConstant_ne_nil v hv
  refine ⟨peaks v, peaksMax v, peaksMin v, gen_all_ok v hne, ?_, ?_, ptype_spec v hv⟩
  · rw [gen_get_peak_array_indices]
    obtain ⟨x, xs, rfl⟩ := List.exists_cons_of_ne_nil hne
    rfl
  · rw [gen_get_peak_array_indices]
    obtain ⟨x, xs, rfl⟩ := List.exists_cons_of_ne_nil hne
    rfl

/-- C11.e about the generated `get_n_cyc_array(values, 'all', start)`: length, the values at the reported peaks, monotonicity -/
theorem gen_ncyc_spec (sw : List ℚ → Except ErrKind (List ℕ)) (v : List ℚ) (hv : NonConstant v) (so : Bool) :
    ∃ N, Gen.PeaksFns.getNCycArray sw interpM v "all" (startOf so) = .ok N ∧ N.length = v.length ∧
      (∀ k, k < (peaks v).length →
        N.getD ((peaks v).getD k 0) 0 = if k = 0 then 0 else (k : ℚ) / 2 - (if so then 1/4 else 0)) ∧
      (∀ x y, x ≤ y → y < v.length → N.getD x 0 ≤ N.getD y 0) := by
  have hne := nonConstant_ne_nil v hv
  have h := ncyc_spec v hv so
  refine ⟨nCycAll v so, ?_, h.1, h.2.1, h.2.2.2.1⟩
  rw [gen_get_n_cyc_array]
  obtain ⟨x, xs, rfl⟩ := List.exists_cons_of_ne_nil hne
  rfl

/-! ### concrete instances (kernel-checked), one per generated definition -/

example : Gen.PeaksFns.cleanOutNonChanging ([1, 1, 2, 1] : List ℚ) = .ok ([1, 1, 2, 1], [0, 0, 2, 3]) := by decide +kernel
example : Gen.PeaksFns.cleanOutNonChanging ([0, 0, 2, 2] : List ℚ) = .ok ([0, 2], [0, 2]) := by decide +kernel
example : Gen.PeaksFns.peakIdxCleaned ([0, 2, 1, 3] : List ℚ) = [0, 1, 2, 3] := by decide +kernel
example : Gen.PeaksFns.peakIdxCleanedDeprecated ([0, 2, 3, 1] : List ℚ) = [0, 2, 3] := by decide +kernel
example : Gen.PeaksFns.getPeakArrayIndices ([0, 2, 1, 2, -1, 1, 1, 3/10, -1, 1/5, 1, 1/5] : List ℚ) "all" =
    .ok [0, 1, 2, 3, 4, 5, 8, 10, 11] := by decide +kernel
example : Gen.PeaksFns.getPeakArrayIndices ([1, 1, 2, 1] : List ℚ) "max" = .ok [2] ∧
    Gen.PeaksFns.getPeakArrayIndices ([1, 1, 2, 1] : List ℚ) "min" = .ok [0, 3] := by decide +kernel
example : Gen.PeaksFns.getPeakIndices ([1, 1, 2, 1] : List ℚ) = .ok [0, 2, 3] := by decide +kernel
example : Gen.PeaksFns.getNCycArray (fun _ => .error .Other) interpM ([0, 2, 2, 1, 3] : List ℚ) "all" "origin" =
    .ok [0, 1/4, 1/2, 3/4, 5/4] := by decide +kernel

end EqsigVerif.Props.C11
