import EqsigVerif.Model.Multiple
import EqsigVerif.Lemmas.Multiple
import EqsigVerif.Lemmas.MultipleRagged
/-!
# C18.d (extension) — `Cluster.time_match` on ragged clusters (records of different lengths)

`Props/C18.lean: time_match_spec` assumes that all records have one length.  The code itself works with
`length_check = min(npts₀, npts₁)` (the first **two** signals, whatever the master is), compares
`bm = master.values[:length_check]` with `om = slave.values[:length_check]`, and — when the lag is non-zero — stores the
shifted **truncated** record (`m_temp` is built from `om`), so a longer slave is cut to `length_check` samples, while a
slave with lag `0` (`continue`) and the master keep their full length.

* `time_match_ragged_spec` — every record at least `length_check` long (`steps ≤ length_check`): exactly that behaviour,
  with the lag characterised as in `time_match_spec` (unique strict minimum of the residual over the truncated window);
* `time_match_ragged_short_raises` — a slave that is shorter than `length_check` (its compared window and the master's
  both at least two samples long) makes NumPy's broadcasting fail: `ValueError`, provided the earlier signals are at
  least `length_check` long.
-/
set_option linter.unusedVariables false
namespace EqsigVerif.Props.C18
open EqsigVerif EqsigVerif.Model.Multiple
open EqsigVerif.Wire (ErrKind)

/-- **C18.d, ragged clusters** `time_match_ragged_spec`.  `lc = min(len s₀, len s₁)`; every record has at least `lc`
samples; `steps ≤ lc`.  If `time_match` returns `(lag, out)`: the number of records is unchanged; the master is unchanged
(full length); for every slave `k` with record `s`, `mi` = the lag found between `master[:lc]` and `s[:lc]`
(`|mi| < steps`; equal to `L` whenever the residual over the window of `lc − steps` samples has a unique strict minimum at
`L`), the new record is `s` itself when `mi = 0`, and otherwise has exactly `lc` samples: `s[:lc]` advanced by `mi`
(`mi > 0`, padded with `s[lc−1]`) or delayed by `|mi|` (`mi < 0`, padded with `s[0]`); the returned `lag` is the `mi` of the
last slave in cluster order. -/
theorem time_match_ragged_spec (signals : List (List ℚ)) (master steps : ℕ) (s0 s1 : List ℚ)
    (h0 : signals[0]? = some s0) (h1 : signals[1]? = some s1)
    (hlen : ∀ s ∈ signals, min s0.length s1.length ≤ s.length) (hS : steps ≤ min s0.length s1.length)
    (lag : ℤ) (out : List (List ℚ)) (h : timeMatch signals master steps = .ok (lag, out)) :
    out.length = signals.length ∧
    ∃ m, signals[master]? = some m ∧ out[master]? = some m ∧
      ∀ k s, k ≠ master → signals[k]? = some s →
        ∃ mi o, lagSearch (m.take (min s0.length s1.length)) (s.take (min s0.length s1.length)) steps = .ok mi ∧
          (mi = 0 ∨ (-(steps : ℤ) < mi ∧ mi < steps)) ∧
          out[k]? = some o ∧ shiftSlave s (s.take (min s0.length s1.length)) mi = .ok o ∧
          (mi = 0 → o = s) ∧ (mi ≠ 0 → o.length = min s0.length s1.length) ∧
          (0 < mi → ∀ t, t + mi.toNat < min s0.length s1.length → o.getD t 0 = s.getD (t + mi.toNat) 0) ∧
          (mi < 0 → ∀ t, t + mi.natAbs < min s0.length s1.length → o.getD (t + mi.natAbs) 0 = s.getD t 0) ∧
          (∀ L : ℤ, -(steps : ℤ) < L → L < steps →
            (∀ l : ℤ, -(steps : ℤ) < l → l < steps → l ≠ L →
              lagResidual (m.take (min s0.length s1.length)) (s.take (min s0.length s1.length))
                  (min s0.length s1.length - steps) L <
                lagResidual (m.take (min s0.length s1.length)) (s.take (min s0.length s1.length))
                  (min s0.length s1.length - steps) l) → mi = L) ∧
          ((∀ k', k < k' → k' < signals.length → k' = master) → lag = mi) := by
  set lc := min s0.length s1.length with hlc
  unfold timeMatch at h
  simp only [h0, h1] at h
  cases hm : signals[master]? with
  | none => simp [hm] at h
  | some m =>
    simp only [hm, ← hlc] at h
    cases haux : timeMatchAux (m.take lc) lc master steps 0 signals none with
    | error e => simp [haux] at h
    | ok p =>
      obtain ⟨l, r⟩ := p
      simp only [haux] at h
      cases l with
      | none => simp at h
      | some lg =>
        simp only [Except.ok.injEq, Prod.mk.injEq] at h
        obtain ⟨e1, e2⟩ := h
        subst e1; subst e2
        obtain ⟨hl, hk, _⟩ := timeMatchAux_spec (m.take lc) lc master steps 0 signals none (some lg) r haux
        have htl : ∀ s ∈ signals, (s.take lc).length = lc := fun s hs => by
          rw [List.length_take]; exact Nat.min_eq_left (hlen s hs)
        have hmmem : m ∈ signals := List.mem_of_getElem? hm
        refine ⟨hl, m, rfl, (hk master m hm).1 (by omega), ?_⟩
        intro k s hkm hs
        have hmem : s ∈ signals := List.mem_of_getElem? hs
        obtain ⟨mi, s', a1, a2, a3, a4⟩ := (hk k s hs).2 (by omega)
        have hr := lagSearch_range _ _ steps mi a1
        obtain ⟨new, b1, b2, b3, b4, b5⟩ := shiftSlave_spec s (s.take lc) lc mi (htl s hmem)
          (by rcases hr with hr | hr
              · left; exact hr
              · right; constructor <;> omega)
        rw [a2] at b1
        simp only [Except.ok.injEq] at b1
        subst b1
        refine ⟨mi, s', a1, hr, a3, a2, b2, b3, ?_, ?_, ?_, ?_⟩
        · intro hpos t ht
          rw [b4 hpos t ht, getD_take_lt _ _ _ (by omega)]
        · intro hneg t ht
          rw [b5 hneg t ht, getD_take_lt _ _ _ (by omega)]
        · intro L hL1 hL2 hmin
          have := lagSearch_unique_min (m.take lc) (s.take lc) lc steps L (htl m hmmem) (htl s hmem) hS
            ⟨hL1, hL2⟩ hmin
          rw [a1] at this
          simpa using this
        · intro hall
          have := a4 (fun k' h1 h2 => by have := hall k' h1 h2; omega)
          simpa using this

/-- non-vacuity: three records of lengths 11, 8, 10 (`lc = 8`), master 1, `steps = 3`: slave 0 (master delayed by 1) and
slave 2 (advanced by 2) are both cut to 8 samples; with lag 0 the long slave keeps its 9 samples. -/
example : timeMatch [[9, 0, 1, 4, 2, 0, 0, 0, 5, 5, 5], [0, 1, 4, 2, 0, 0, 0, 0], [4, 2, 0, 0, 0, 0, 7, 7, 1, 2]] 1 3
      = .ok (-2, [[0, 1, 4, 2, 0, 0, 0, 0], [0, 1, 4, 2, 0, 0, 0, 0], [4, 4, 4, 2, 0, 0, 0, 0]]) ∧
    timeMatch [[0, 1, 4, 2, 0, 0, 0, 0, 3], [0, 1, 4, 2, 0, 0, 0, 0], [4, 2, 0, 0, 0, 0, 7, 7, 1, 2]] 1 3
      = .ok (-2, [[0, 1, 4, 2, 0, 0, 0, 0, 3], [0, 1, 4, 2, 0, 0, 0, 0], [4, 4, 4, 2, 0, 0, 0, 0]]) := by
  decide +kernel

example : ∀ s ∈ ([[9, 0, 1, 4, 2, 0, 0, 0, 5, 5, 5], [0, 1, 4, 2, 0, 0, 0, 0], [4, 2, 0, 0, 0, 0, 7, 7, 1, 2]] : List (List ℚ)),
    min 11 8 ≤ s.length := by decide +kernel

/-- **C18.d, ragged clusters** `time_match_ragged_short_raises`.  `lc = min(len s₀, len s₁)`, `1 ≤ steps`, the master has
at least `lc` samples, its compared window `lc − steps` at least two.  If slave `k` is shorter than `lc` (its window
`len s − steps` is not exactly one sample, which NumPy would broadcast) and every signal before it has at least `lc`
samples, `time_match` raises `ValueError` (`operands could not be broadcast together`).  Hence a cluster whose third or
later record is shorter than the first two cannot be matched; records that are *longer* are silently cut
(`time_match_ragged_spec`). -/
theorem time_match_ragged_short_raises (signals : List (List ℚ)) (master steps k : ℕ) (s0 s1 m s : List ℚ)
    (h0 : signals[0]? = some s0) (h1 : signals[1]? = some s1) (hm : signals[master]? = some m)
    (hml : min s0.length s1.length ≤ m.length) (hk : signals[k]? = some s) (hkm : k ≠ master)
    (hshort : s.length < min s0.length s1.length) (hS1 : 1 ≤ steps) (hwin : steps + 2 ≤ min s0.length s1.length)
    (hone : s.length ≠ steps + 1)
    (hbefore : ∀ k' s', k' < k → signals[k']? = some s' → min s0.length s1.length ≤ s'.length) :
    timeMatch signals master steps = .error .ValueError := by
  set lc := min s0.length s1.length with hlc
  have hbm : (m.take lc).length = lc := by rw [List.length_take]; exact Nat.min_eq_left hml
  have hom : (s.take lc).length = s.length := by rw [List.length_take]; exact Nat.min_eq_right hshort.le
  have herr : lagSearch (m.take lc) (s.take lc) steps = .error .ValueError :=
    lagSearch_valueError _ _ steps hS1 (by rw [hbm, hom]; omega) (by rw [hbm]; omega) (by rw [hom]; omega)
  have haux : timeMatchAux (m.take lc) lc master steps 0 signals none = .error .ValueError := by
    apply timeMatchAux_error (m.take lc) lc master steps .ValueError signals 0 none k s hk (by omega) herr
    intro k' s' hk' hs' _
    have hl' : (s'.take lc).length = lc := by
      rw [List.length_take]; exact Nat.min_eq_left (hbefore k' s' hk' hs')
    obtain ⟨mi, hmi⟩ := lagSearch_isOk (m.take lc) (s'.take lc) lc steps hbm hl' hS1 (by omega)
    have hr := lagSearch_range _ _ steps mi hmi
    obtain ⟨o, ho, _⟩ := shiftSlave_spec s' (s'.take lc) lc mi hl'
      (by rcases hr with hr | hr
          · left; exact hr
          · right; constructor <;> omega)
    exact ⟨mi, o, hmi, ho⟩
  unfold timeMatch
  simp only [h0, h1, hm, ← hlc, haux]

/-- non-vacuity: third record of 5 samples, `lc = 8`, `steps = 3` (windows 5 and 2): `ValueError`; with 4 samples the
slave's window has one sample, NumPy broadcasts it and no error is raised (the hypothesis `len s ≠ steps + 1`). -/
example : timeMatch [[9, 0, 1, 4, 2, 0, 0, 0, 5, 5, 5], [0, 1, 4, 2, 0, 0, 0, 0], [4, 2, 0, 0, 0]] 1 3
      = .error .ValueError ∧
    timeMatch [[9, 0, 1, 4, 2, 0, 0, 0, 5, 5, 5], [0, 1, 4, 2, 0, 0, 0, 0], [4, 2, 0, 0]] 1 3
      = .ok (1, [[0, 1, 4, 2, 0, 0, 0, 0], [0, 1, 4, 2, 0, 0, 0, 0], [2, 0, 0, 0]]) := by
  decide +kernel

example : timeMatch [[9, 0, 1, 4, 2, 0, 0, 0, 5, 5, 5], [0, 1, 4, 2, 0, 0, 0, 0], [4, 2, 0, 0, 0]] 1 3
    = .error .ValueError :=
  time_match_ragged_short_raises _ 1 3 2 [9, 0, 1, 4, 2, 0, 0, 0, 5, 5, 5] [0, 1, 4, 2, 0, 0, 0, 0]
    [0, 1, 4, 2, 0, 0, 0, 0] [4, 2, 0, 0, 0] rfl rfl rfl (by decide) rfl (by decide) (by decide) (by decide)
    (by decide) (by decide)
    (by
      intro k' s' hk' hs'
      match k', hk', hs' with
      | 0, _, hs' => simp at hs'; subst hs'; decide
      | 1, _, hs' => simp at hs'; subst hs'; decide)

end EqsigVerif.Props.C18
