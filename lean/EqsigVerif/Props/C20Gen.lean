import EqsigVerif.Model.DesignSpectra
import EqsigVerif.Gen.DesignSpectra
/-!
# C20.f — translator tie: the tables REGENERATED from `eqsig/design_spectra.py` are the hand model's tables

`Gen/DesignSpectra.lean` is emitted on every run from the Python AST of `c_h_factor` and `sd_nzs` (branch order, comparison
operators, literals as written in the source, `x ** 0.75` as the abstract `pow34`, `x ** 2` as `x * x`).  The theorems of
`Props/C20.lean` are about `Model.DesignSpectra`; these `rfl` bridges make them theorems about what the source says now:
any edit of a breakpoint, coefficient, operator or branch order breaks the corresponding bridge.
-/
namespace EqsigVerif.Props.C20
open EqsigVerif

variable {α : Type} [Add α] [Sub α] [Mul α] [Div α] [LT α] [DecidableLT α] [BEq α]
  [OfNat α 0] [OfNat α 2] [OfScientific α]

/-- the generated `c_h_factor` tables (site classes C, D, E) equal the model's, as functions, over every number type -/
theorem gen_ch_tables_eq_model (pow34 : α → α) (tt : α) :
    Gen.DesignSpectra.chC pow34 tt = Model.DesignSpectra.chC pow34 tt ∧
    Gen.DesignSpectra.chD pow34 tt = Model.DesignSpectra.chD pow34 tt ∧
    Gen.DesignSpectra.chE pow34 tt = Model.DesignSpectra.chE pow34 tt := ⟨rfl, rfl, rfl⟩

/-- the generated `sd_nzs` tables equal the model's -/
theorem gen_sd_tables_eq_model (pow34 : α → α) (period : α) :
    Gen.DesignSpectra.sdC pow34 period = Model.DesignSpectra.sdC pow34 period ∧
    Gen.DesignSpectra.sdD pow34 period = Model.DesignSpectra.sdD pow34 period ∧
    Gen.DesignSpectra.sdE pow34 period = Model.DesignSpectra.sdE pow34 period := ⟨rfl, rfl, rfl⟩

example : Gen.DesignSpectra.chC (fun x : Rat => x) (1/20 : Rat) = 1.33 + 1.60 * ((1/20 : Rat) / 0.1) := by decide +kernel

end EqsigVerif.Props.C20
