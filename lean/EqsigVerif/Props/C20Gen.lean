import EqsigVerif.Model.DesignSpectra
import EqsigVerif.Gen.DesignSpectra
import Mathlib.Tactic.Ring
import Mathlib.Tactic.NormNum
import Mathlib.Tactic.Linarith
import Mathlib.Tactic.SplitIfs
import Mathlib.Tactic.FieldSimp
import Mathlib.Data.Real.Basic
/-!
# C20.f — translator tie: the tables REGENERATED from `eqsig/design_spectra.py` are the hand model's tables

`Gen/DesignSpectra.lean` is emitted on every run from the Python AST of `c_h_factor` and `sd_nzs` (branch order, comparison
operators, literals as written in the source, `x ** 0.75` as the abstract `pow34`, `x ** 2` as `x * x`).  The theorems of
`Props/C20.lean` are about `Model.DesignSpectra` instantiated at `ℝ`; these bridges make them theorems about what the source
says now: any edit of a breakpoint, coefficient, operator or branch order that changes the function breaks them.

The bridges are stated at `ℝ` (for an arbitrary `pow34`) and proved *semantically* — first by `rfl`, and if the generated text
is no longer syntactically the model's (a harmless respelling such as `1.6` for `1.60`, a reordered product, `tt < 0.10`) by
case analysis on the branch conditions and `norm_num`/`ring`/`linarith` — so that harmless rewrites of the source do not break
them while any change of the function's values does.
-/
namespace EqsigVerif.Props.C20
open EqsigVerif

/-- closes `gen = model` for two if-chains over `ℝ` -/
macro "table_bridge" : tactic =>
  `(tactic| (
    simp only [Gen.DesignSpectra.chC, Model.DesignSpectra.chC, Gen.DesignSpectra.chD, Model.DesignSpectra.chD,
      Gen.DesignSpectra.chE, Model.DesignSpectra.chE, Gen.DesignSpectra.sdC, Model.DesignSpectra.sdC,
      Gen.DesignSpectra.sdD, Model.DesignSpectra.sdD, Gen.DesignSpectra.sdE, Model.DesignSpectra.sdE, beq_iff_eq] <;>
    split_ifs <;> first
      | rfl
      | (ring_nf; done)
      | (exfalso; norm_num at * <;> linarith)
      | (norm_num <;> ring_nf <;> done)
      | (field_simp <;> ring_nf <;> done)))

/-- the generated `c_h_factor` tables (site classes C, D, E) equal the model's, as real functions -/
theorem gen_ch_tables_eq_model (pow34 : ℝ → ℝ) (tt : ℝ) :
    Gen.DesignSpectra.chC pow34 tt = Model.DesignSpectra.chC pow34 tt ∧
    Gen.DesignSpectra.chD pow34 tt = Model.DesignSpectra.chD pow34 tt ∧
    Gen.DesignSpectra.chE pow34 tt = Model.DesignSpectra.chE pow34 tt := by
  refine ⟨?_, ?_, ?_⟩
  · table_bridge
  · table_bridge
  · table_bridge

/-- the generated `sd_nzs` tables equal the model's, as real functions -/
theorem gen_sd_tables_eq_model (pow34 : ℝ → ℝ) (period : ℝ) :
    Gen.DesignSpectra.sdC pow34 period = Model.DesignSpectra.sdC pow34 period ∧
    Gen.DesignSpectra.sdD pow34 period = Model.DesignSpectra.sdD pow34 period ∧
    Gen.DesignSpectra.sdE pow34 period = Model.DesignSpectra.sdE pow34 period := by
  refine ⟨?_, ?_, ?_⟩
  · table_bridge
  · table_bridge
  · table_bridge

example : Gen.DesignSpectra.chC (fun x => x) (1/20 : ℝ) = 2.13 := by
  simp only [Gen.DesignSpectra.chC]; norm_num

end EqsigVerif.Props.C20
