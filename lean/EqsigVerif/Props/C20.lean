import EqsigVerif.Model.Fns
import EqsigVerif.Spec.Fns
import EqsigVerif.Lemmas.Fns
import EqsigVerif.Model.DesignSpectra
import EqsigVerif.Lemmas.DesignSpectra
/-!
# C20 — Interpolation, averaging, step-fit and design-spectrum helpers match their definitions

Models: `EqsigVerif/Model/Fns.lean`; specification vocabulary: `EqsigVerif/Spec/Fns.lean`.
C20.f (design-spectrum tables): model `EqsigVerif/Model/DesignSpectra.lean` (generic), instantiated at `ℝ` with
`pow34 := pow34R = fun x => x ^ (0.75 : ℝ)` (`Real.rpow`) and `pi := Real.pi` (`Lemmas/DesignSpectra.lean`).
-/
namespace EqsigVerif.Props.C20
open EqsigVerif EqsigVerif.Np EqsigVerif.Wire EqsigVerif.Model.Fns EqsigVerif.Spec.Fns EqsigVerif.Lemmas.Fns

/-! ## C20.a `interp2d` -/

/-- **C20.a** For strictly increasing nodes `xf` (every gap larger than the `1e-10` guard), a rectangular table `f`
of width `w` with at least one row per node, and *every* query array `x` (inside, on a node, outside):
`interp2d` succeeds and each output row `R` for the query `q`
* is the clamped column-wise linear interpolation of the table (`IsClampedLerp`: one of the three cases below applies),
* equals the first row whenever `q ≤ xf[0]`, the last node's row whenever `q ≥ xf[n-1]`,
* equals `(1-s)·f[i] + s·f[i+1]`, `s = (q - xf[i]) / (xf[i+1] - xf[i])`, for every bracket `xf[i] ≤ q ≤ xf[i+1]`. -/
theorem interp2d_spec (x xf : List ℚ) (f : List (List ℚ)) (w : Nat) (hne : xf ≠ []) (hg : GapNodes xf)
    (hf : xf.length ≤ f.length) (hw : ∀ r ∈ f, r.length = w) :
    ∃ rows, interp2d x xf f = .ok rows ∧
      List.Forall₂ (fun q R =>
        IsClampedLerp xf f hf q R ∧
        (∀ h0 : 0 < xf.length, q ≤ xf[0] → R = f[0]'(by omega)) ∧
        (∀ h0 : 0 < xf.length, xf[xf.length - 1] ≤ q → R = f[xf.length - 1]'(by omega)) ∧
        (∀ i (hi : i + 1 < xf.length), xf[i] ≤ q → q ≤ xf[i+1] →
          R = lerpRow ((q - xf[i]) / (xf[i+1] - xf[i])) (f[i]'(by omega)) (f[i+1]'(by omega)))) x rows := by
  obtain ⟨rows, hr, hfa⟩ := interp2d_clamped x xf f hne hg hf
  refine ⟨rows, hr, hfa.imp ?_⟩
  intro q R hR
  exact ⟨hR, fun h0 hx => clamped_low xf f hg hf w hw q R hR h0 hx,
    fun h0 hx => clamped_high xf f hg hf w hw q R hR h0 hx,
    fun i hi h1 h2 => clamped_mid xf f hg hf w hw q R hR i hi h1 h2⟩

/-- the docstring example of `interp2d`, plus queries on a node, midway (argmin tie) and outside -/
example : interp2d [1/2, 1, 11/5, 5/2, -1, 7, 3/2] [0, 1, 2, 3] [[0, 0, 0], [0, 1, 4], [2, 6, 2], [10, 10, 10]]
    = .ok [[0, 1/2, 2], [0, 1, 4], [18/5, 34/5, 18/5], [6, 8, 6], [0, 0, 0], [10, 10, 10], [1, 7/2, 3]] := by
  decide +kernel
example : GapNodes [0, 1, 2, 3] := by
  intro i h
  have : i = 0 ∨ i = 1 ∨ i = 2 := by simp at h; omega
  rcases this with rfl | rfl | rfl <;> norm_num [tol]
/-- without the rectangular-table hypothesis the statement fails (NumPy arrays are rectangular): `zipWith` truncates -/
example : interp2d [0] [0, 1] [[1, 2], [3]] = .ok [[1]] := by decide +kernel

/-! ## C20.b `interp_left` -/

/-- **C20.b** (array form). For a non-decreasing node array `x` (the domain of `np.searchsorted`), a non-empty
query array `x0s` and `y` at least as long as `x` (or `y = None`): the call raises `AssertionError` iff some
query lies below the first node; otherwise it returns, for every query `q`, `y[j]` (or `j` itself for
`y = None`) at the greatest node index `j` with `x[j] ≤ q`. -/
theorem interp_left_spec (x0s x : List ℚ) (y : Option (List ℚ)) (hx0 : x0s ≠ []) (hx : x ≠ [])
    (hs : x.Pairwise (· ≤ ·)) (hy : ∀ yv, y = some yv → x.length ≤ yv.length) :
    (interpLeft x0s x y = .error .AssertionError ↔ ∃ q ∈ x0s, q < x.head hx) ∧
    ((∀ q ∈ x0s, x.head hx ≤ q) → ∃ r, interpLeft x0s x y = .ok r ∧
      List.Forall₂ (fun q v => ∃ j, IsLeftNode x q j ∧ leftVal y j v) x0s r) :=
  ⟨interpLeft_assert x0s x y hx0 hx hs hy, interpLeft_ok x0s x y hx0 hx hs hy⟩

example : interpLeft [1, 5/2, 2, 7] [1, 2, 2, 3] (some [5, 6, 7, 8]) = .ok [5, 7, 7, 8] := by decide +kernel
example : interpLeft [1, 5/2, 2, 7] [1, 2, 2, 3] none = .ok [0, 2, 2, 3] := by decide +kernel
example : interpLeft [1, 1/2] [1, 2, 2, 3] none = .error .AssertionError := by decide +kernel
example : ([1, 2, 2, 3] : List ℚ).Pairwise (· ≤ ·) := by decide +kernel

/-- **C20.b** (scalar form): `AssertionError` iff the query is below the first node, else the value at the
greatest node `≤` the query. -/
theorem interp_left_scalar_spec (q : ℚ) (x : List ℚ) (y : Option (List ℚ)) (hx : x ≠ [])
    (hs : x.Pairwise (· ≤ ·)) (hy : ∀ yv, y = some yv → x.length ≤ yv.length) :
    (interpLeftScalar q x y = .error .AssertionError ↔ q < x.head hx) ∧
    (x.head hx ≤ q → ∃ v, interpLeftScalar q x y = .ok v ∧ ∃ j, IsLeftNode x q j ∧ leftVal y j v) := by
  have hne : [q] ≠ [] := by simp
  constructor
  · constructor
    · intro herr
      by_contra hc
      obtain ⟨r, hr, hf⟩ := interpLeft_ok [q] x y hne hx hs hy (by simpa using not_lt.mp hc)
      cases hf with
      | cons hp ht =>
        cases ht
        unfold interpLeftScalar at herr
        rw [hr] at herr
        cases herr
    · intro h
      have := (interpLeft_assert [q] x y hne hx hs hy).2 ⟨q, by simp, h⟩
      unfold interpLeftScalar
      rw [this]; rfl
  · intro h
    obtain ⟨r, hr, hf⟩ := interpLeft_ok [q] x y hne hx hs hy (by simpa using h)
    cases hf with
    | cons hp ht =>
      cases ht
      rename_i v
      refine ⟨v, ?_, hp⟩
      unfold interpLeftScalar
      rw [hr]; rfl

example : interpLeftScalar 2 [1, 2, 2, 3] none = .ok 2 := by decide +kernel
example : interpLeftScalar (1/2) [1, 2, 2, 3] none = .error .AssertionError := by decide +kernel

/-! ## C20.c `calc_roll_av_vals` -/

/-- **C20.c** For a non-empty series and `steps ≥ 1`, the rolling average is, sample by sample, the mean of the
edge-replicated series over the window of `steps` samples that starts `windowOffset` samples before the
current one (`0` forward, `steps−1` backward, `⌊steps/2⌋` centred); in particular the length is kept. -/
theorem roll_av_spec (values : List ℚ) (hne : values ≠ []) (steps : Nat) (hs : 1 ≤ steps) (mode : Mode) :
    rollAv values steps mode = .ok ((List.range values.length).map
      (fun (i : Nat) => windowMean values steps ((i : Int) - (windowOffset steps mode : Int)))) :=
  rollAv_spec values hne steps hs mode

example : rollAv [1, 2, 4] 5 .centre = .ok [9/5, 12/5, 3] := by decide +kernel
example : rollAv [1, 2, 4] 2 .forward = .ok [3/2, 3, 4] := by decide +kernel
example : rollAv [1, 2, 4] 2 .backward = .ok [1, 3/2, 3] := by decide +kernel

/-- **C20.c** length kept -/
theorem roll_av_length (values : List ℚ) (hne : values ≠ []) (steps : Nat) (hs : 1 ≤ steps) (mode : Mode) :
    ∃ r, rollAv values steps mode = .ok r ∧ r.length = values.length :=
  ⟨_, rollAv_spec values hne steps hs mode, by simp⟩

example : ∃ r, rollAv [1, 2, 4, -3] 3 .backward = .ok r ∧ r.length = 4 :=
  roll_av_length [1, 2, 4, -3] (by simp) 3 (by omega) .backward

/-- **C20.c** constants are preserved -/
theorem roll_av_const (n : Nat) (hn : 0 < n) (c : ℚ) (steps : Nat) (hs : 1 ≤ steps) (mode : Mode) :
    rollAv (List.replicate n c) steps mode = .ok (List.replicate n c) :=
  rollAv_const n hn c steps hs mode

example : rollAv [-7/2, -7/2, -7/2] 4 .centre = .ok [-7/2, -7/2, -7/2] :=
  roll_av_const 3 (by omega) (-7/2) 4 (by omega) .centre

/-- **C20.c** `steps = 1` is the identity -/
theorem roll_av_one (values : List ℚ) (hne : values ≠ []) (mode : Mode) :
    rollAv values 1 mode = .ok values :=
  rollAv_one values hne mode

example : rollAv [1, -2, 4] 1 .centre = .ok [1, -2, 4] := roll_av_one _ (by simp) _

/-! ## C20.d `calc_step_fn_vals_error` -/

/-- **C20.d** For a non-empty (float) series and every power `p ∈ ℕ`: entry `k` of the error array is
`Σ_{i≤k} |vᵢ − μ_pre|ᵖ + Σ_{i>k} |vᵢ − μ_post|ᵖ` with `μ_pre`, `μ_post` the means of the samples `0..k` and `k+1..`
(`stepFitErr`); this includes the last entry, where the second group is empty. -/
theorem step_err_spec (values : List ℚ) (hne : values ≠ []) (p : Nat) :
    stepErr values p .none = .ok ((List.range values.length).map (stepFitErr values p)) :=
  stepErr_none values hne p

/-- the DESIGN witness of finding F20-1: with the fix the `p = 1` error is 18, 13, 4, … -/
example : stepErr [-1, -2, -3, 4, 5, 6] 1 .none = .ok [18, 13, 4, 10, 78/5, 21] := by decide +kernel
example : stepErr [-1, -2, -3, 4, 5, 6] 3 .none = .ok [288, 1009/4, 4, 221/2, 24102/125, 1197/4] := by
  decide +kernel

/-- **C20.d** the last entry is the one-level error `Σ |vᵢ − mean(v)|ᵖ` -/
theorem step_err_last (values : List ℚ) (hne : values ≠ []) (p : Nat) :
    stepFitErr values p (values.length - 1) = sumAbsDev values (mean values) p := by
  have h1 : values.length - 1 + 1 = values.length := by
    have := List.length_pos_iff.mpr hne; omega
  unfold stepFitErr
  rw [h1, List.take_length, List.drop_length]
  simp [sumAbsDev]

example : stepFitErr [-1, -2, -3, 4, 5, 6] 1 5 = 21 := by decide +kernel

/-- **C20.d** the `dir` rule: with `M = max(err)`, entries whose left mean (samples `0..k`) is below (`'down'`) /
above (`'up'`) the mean of the samples `k..` (the code includes sample `k` on both sides here) become `10·M`. -/
theorem step_err_dir (values : List ℚ) (hne : values ≠ []) (p : Nat) :
    ∃ M, M ∈ (List.range values.length).map (stepFitErr values p) ∧
      (∀ e ∈ (List.range values.length).map (stepFitErr values p), e ≤ M) ∧
      stepErr values p .down = .ok ((List.range values.length).map (fun k =>
        if mean (values.take (k+1)) < mean (values.drop k) then M * 10 else stepFitErr values p k)) ∧
      stepErr values p .up = .ok ((List.range values.length).map (fun k =>
        if mean (values.take (k+1)) > mean (values.drop k) then M * 10 else stepFitErr values p k)) :=
  stepErr_dir values hne p

example : stepErr [-1, -2, -3, 4, 5, 6] 1 .down = .ok [210, 210, 210, 210, 210, 210] := by decide +kernel
example : stepErr [-1, -2, -3, 4, 5, 6] 1 .up = .ok [18, 13, 4, 10, 78/5, 21] := by decide +kernel
example : stepErr [6, 5, 4, -3, 7, -1] 1 .down = .ok [88/5, 16, 14, 20, 68/5, 20] := by decide +kernel
example : stepErr [6, 5, 4, -3, 7, -1] 1 .up = .ok [200, 200, 200, 200, 200, 200] := by decide +kernel

/-! ## C20.e `calc_step_fn_steps_vals` -/

/-- **C20.e** explicit split sample `k` (`0 ≤ k < n`): the levels are the means of the samples strictly before and
strictly after sample `k` (`mean?` is `none`, NumPy's `nan`, exactly for an empty side: `k = 0` / `k = n−1`). -/
theorem step_levels_spec (values : List ℚ) (k : Nat) (hk : k < values.length) :
    stepLevels values (some (k : Int)) = .ok (mean? (values.take k), mean? (values.drop (k + 1))) ∧
    (∀ l : List ℚ, mean? l = if l = [] then none else some (mean l)) :=
  ⟨stepLevels_some values k hk, mean?_eq⟩

example : stepLevels [1, 2, 4, 4] (some 1) = .ok (some 1, some 4) := by decide +kernel
example : stepLevels [1, 2, 4, 4] (some 0) = .ok (none, some (10/3)) := by decide +kernel

/-- **C20.e** default split: the first minimiser `k` of the `p = 1` step-fit error. -/
theorem step_levels_default_spec (values : List ℚ) (hne : values ≠ []) :
    ∃ k, k < values.length ∧ (∀ j, j < values.length → stepFitErr values 1 k ≤ stepFitErr values 1 j) ∧
      (∀ j, j < k → stepFitErr values 1 k < stepFitErr values 1 j) ∧
      stepLevels values none = .ok (mean? (values.take k), mean? (values.drop (k + 1))) :=
  stepLevels_none values hne

example : stepLevels [1, 2, 4, 4] none = .ok (some 1, some 4) := by decide +kernel
example : stepLevels [-1, -2, -3, 4, 5, 6] none = .ok (some (-3/2), some 5) := by decide +kernel

/-! ## which inputs raise (the guards under which the theorems above are stated are exactly the code's) -/

/-- `calc_roll_av_vals` raises `IndexError` iff the series is empty, `ValueError` iff (non-empty and) `steps = 0`. -/
theorem roll_av_raises (values : List ℚ) (steps : Nat) (mode : Mode) :
    (rollAv values steps mode = .error .IndexError ↔ values = []) ∧
    (rollAv values steps mode = .error .ValueError ↔ values ≠ [] ∧ steps = 0) :=
  rollAv_raises values steps mode

example : rollAv [] 3 .forward = .error .IndexError := by decide +kernel
example : rollAv [1, 2] 0 .centre = .error .ValueError := by decide +kernel

/-- `calc_step_fn_vals_error` raises (`IndexError`) iff the series is empty; otherwise the length is kept. -/
theorem step_err_raises (values : List ℚ) (p : Nat) (d : Dir) :
    (stepErr values p d = .error .IndexError ↔ values = []) ∧
    (values ≠ [] → ∃ r, stepErr values p d = .ok r ∧ r.length = values.length) :=
  stepErr_raises values p d

example : stepErr [] 2 .up = .error .IndexError := by decide +kernel

/-- `calc_step_fn_steps_vals(values)` (default split) raises (`IndexError`) iff the series is empty. -/
theorem step_levels_raises (values : List ℚ) :
    stepLevels values none = .error .IndexError ↔ values = [] :=
  stepLevels_raises values

/-- `interp2d` with an empty node array raises `ValueError` (`argmin` of an empty sequence) for every `x`, `f`. -/
theorem interp2d_raises_empty_nodes (x : List ℚ) (f : List (List ℚ)) :
    interp2d x [] f = .error .ValueError :=
  EqsigVerif.Lemmas.Fns.interp2d_raises_empty_nodes x f

example : interp2d [1] [] [] = .error .ValueError := by decide +kernel

/-! ## C20.f design-spectrum tables (`eqsig/design_spectra.py`: `c_h_factor`, `sd_nzs`, `t_eff`) at `ℝ` -/
section DesignSpectra
open EqsigVerif.Model.DesignSpectra EqsigVerif.Lemmas.DesignSpectra

/-! ### `sd_nzs = C_h · T² · Z · N · R` -/

/-- C20.f: for every period `T ≥ 0`, class and factors, both functions return and
`sd_nzs T c Z R N = c_h_factor T c · T² · Z · N · R` (at `T = 0` both sides are `0`; for `T ≥ 3` the code's
constant `3.96` is `3.96 / T² · T²`). -/
theorem sd_eq_ch_mul_sq {T : ℝ} (hT : 0 ≤ T) (c : SiteClass) (Z R N : ℝ) :
    ∃ s h, sd_nzs pow34R T c Z R N = .ok s ∧ c_h_factor pow34R T c = .ok h ∧
      s = h * T ^ 2 * Z * N * R := by
  refine ⟨_, _, sd_nzs_ok _ hT c Z R N, c_h_factor_ok _ hT c, ?_⟩
  rw [sdTable_eq]; ring

example : sd_nzs pow34R 2 .C 0.4 1.3 1.1 = .ok (1.32 / 2 * (2 * 2) * 0.4 * 1.1 * 1.3) ∧
    c_h_factor pow34R 2 .C = .ok (1.32 / 2) := by
  constructor
  · rw [sd_nzs_ok _ (by norm_num)]; simp only [sdTable, sdC]; norm_num
  · rw [c_h_factor_ok _ (by norm_num)]; simp only [chTable, chC]; norm_num

example : sd_nzs pow34R 4 .D 0.4 1.3 1.1 = .ok (6.42 * 0.4 * 1.1 * 1.3) ∧
    c_h_factor pow34R 4 .D = .ok (6.42 / (4 * 4)) := by
  constructor
  · rw [sd_nzs_ok _ (by norm_num)]; simp only [sdTable, sdD]; norm_num
  · rw [c_h_factor_ok _ (by norm_num)]; simp only [chTable, chD]; norm_num

/-! ### `ValueError` -/

/-- C20.f: `c_h_factor` and `sd_nzs` raise (`ValueError`) exactly for a negative period; for the three known
classes there is no other error. -/
theorem valueError_iff_neg (T : ℝ) (c : SiteClass) (Z R N : ℝ) :
    (c_h_factor pow34R T c = .error .ValueError ↔ T < 0) ∧
    (sd_nzs pow34R T c Z R N = .error .ValueError ↔ T < 0) ∧
    (∀ e, c_h_factor pow34R T c = .error e → e = .ValueError) ∧
    (∀ e, sd_nzs pow34R T c Z R N = .error e → e = .ValueError) := by
  rcases lt_or_ge T 0 with h | h
  · rw [c_h_factor_neg _ h, sd_nzs_neg _ h]
    refine ⟨by simp [h], by simp [h], ?_, ?_⟩ <;> intro e he <;> cases he <;> rfl
  · rw [c_h_factor_ok _ h, sd_nzs_ok _ h]
    refine ⟨by simp [not_lt.mpr h], by simp [not_lt.mpr h], ?_, ?_⟩ <;> intro e he <;> cases he

example : c_h_factor pow34R (-0.5) .E = .error .ValueError ∧
    sd_nzs pow34R (-0.5) .E 0.4 1 1 = .error .ValueError :=
  ⟨c_h_factor_neg _ (by norm_num) _, sd_nzs_neg _ (by norm_num) _ _ _ _⟩

/-- C20.f (string level): the class strings `"C"`, `"D"`, `"E"` select the three tables, and for ANY other
string the three functions raise `ValueError`; `c_h_factor`/`sd_nzs` raise `ValueError` iff the period is
negative or the class is unknown (period check first — the error kind is the same). -/
theorem valueError_unknown_class (T : ℝ) (s : String) (Z R N d : ℝ) :
    (c_h_factor_str pow34R T s = .error .ValueError ↔ T < 0 ∨ (s ≠ "C" ∧ s ≠ "D" ∧ s ≠ "E")) ∧
    (sd_nzs_str pow34R T s Z R N = .error .ValueError ↔ T < 0 ∨ (s ≠ "C" ∧ s ≠ "D" ∧ s ≠ "E")) ∧
    ((s ≠ "C" ∧ s ≠ "D" ∧ s ≠ "E") → t_eff_str Real.pi d s Z R N = .error .ValueError) := by
  rw [← parseSiteClass_eq_none_iff]
  unfold c_h_factor_str sd_nzs_str t_eff_str
  refine ⟨?_, ?_, ?_⟩
  · split_ifs with h
    · simp [h]
    · cases hp : parseSiteClass s <;> simp [h]
  · split_ifs with h
    · simp [h]
    · cases hp : parseSiteClass s <;> simp [h]
  · intro hp; rw [hp]

example : c_h_factor_str pow34R 0.5 "A" = .error .ValueError ∧
    sd_nzs_str pow34R 0.5 "c" 1 1 1 = .error .ValueError ∧
    t_eff_str Real.pi 0.1 "CD" 1 1 1 = .error .ValueError := by
  have h1 := (valueError_unknown_class 0.5 "A" 1 1 1 0.1).1
  have h2 := (valueError_unknown_class 0.5 "c" 1 1 1 0.1).2.1
  have h3 := (valueError_unknown_class 0.5 "CD" 1 1 1 0.1).2.2
  exact ⟨h1.mpr (Or.inr (by decide)), h2.mpr (Or.inr (by decide)), h3 (by decide)⟩

/-- the string-level entry points on the three known class strings are the parsed ones -/
theorem str_known_class (T Z R N d : ℝ) :
    (c_h_factor_str pow34R T "C" = c_h_factor pow34R T .C ∧
     c_h_factor_str pow34R T "D" = c_h_factor pow34R T .D ∧
     c_h_factor_str pow34R T "E" = c_h_factor pow34R T .E) ∧
    (sd_nzs_str pow34R T "C" Z R N = sd_nzs pow34R T .C Z R N ∧
     sd_nzs_str pow34R T "D" Z R N = sd_nzs pow34R T .D Z R N ∧
     sd_nzs_str pow34R T "E" Z R N = sd_nzs pow34R T .E Z R N) ∧
    (t_eff_str Real.pi d "C" Z R N = t_eff Real.pi d .C Z R N ∧
     t_eff_str Real.pi d "D" Z R N = t_eff Real.pi d .D Z R N ∧
     t_eff_str Real.pi d "E" Z R N = t_eff Real.pi d .E Z R N) := by
  have hC : parseSiteClass "C" = some .C := by decide
  have hD : parseSiteClass "D" = some .D := by decide
  have hE : parseSiteClass "E" = some .E := by decide
  unfold c_h_factor_str sd_nzs_str t_eff_str c_h_factor sd_nzs
  simp only [hC, hD, hE, and_self]

example : c_h_factor_str pow34R 2 "C" = .ok (1.32 / 2) := by
  rw [(str_known_class 2 1 1 1 0).1.1, c_h_factor_ok _ (by norm_num)]; simp only [chTable, chC]; norm_num

/-! ### `t_eff` -/

/-- C20.f: below or at the corner displacement `d_c` (and `Z·R·N ≠ 0`, the guard under which the code's
division is defined; then `d_c ≠ 0`) `t_eff` is the linear map `d ↦ 3·d / d_c`. -/
theorem t_eff_linear {d : ℝ} (c : SiteClass) {Z R N : ℝ} (hZRN : Z * R * N ≠ 0)
    (hd : d ≤ d_c Real.pi c Z R N) :
    t_eff Real.pi d c Z R N = .ok (3 * d / d_c Real.pi c Z R N) :=
  t_eff_ok c (fun h => hZRN ((d_c_eq_zero_iff c Z R N).mp h)) hd

example : ((0.4 : ℝ) * 1 * 1 ≠ 0) ∧ (0.05 : ℝ) ≤ d_c Real.pi .D 0.4 1 1 := by
  refine ⟨by norm_num, ?_⟩
  rw [d_c_eq]; simp only [dcCoeff]
  have h1 := Real.pi_gt_three
  have h2 := Real.pi_lt_d2
  rw [div_mul_eq_mul_div, le_div_iff₀ (by positivity)]
  nlinarith

/-- C20.f: `t_eff` is homogeneous and additive in the displacement on its domain `d ≤ d_c`. -/
theorem t_eff_homogeneous_additive (c : SiteClass) {Z R N : ℝ} (hZRN : Z * R * N ≠ 0) :
    (∀ a d t, d ≤ d_c Real.pi c Z R N → a * d ≤ d_c Real.pi c Z R N →
      t_eff Real.pi d c Z R N = .ok t → t_eff Real.pi (a * d) c Z R N = .ok (a * t)) ∧
    (∀ d₁ d₂ t₁ t₂, d₁ ≤ d_c Real.pi c Z R N → d₂ ≤ d_c Real.pi c Z R N →
      d₁ + d₂ ≤ d_c Real.pi c Z R N →
      t_eff Real.pi d₁ c Z R N = .ok t₁ → t_eff Real.pi d₂ c Z R N = .ok t₂ →
      t_eff Real.pi (d₁ + d₂) c Z R N = .ok (t₁ + t₂)) := by
  constructor
  · intro a d t hd had ht
    rw [t_eff_linear c hZRN hd] at ht
    rw [t_eff_linear c hZRN had]
    cases ht; congr 1; ring
  · intro d₁ d₂ t₁ t₂ h1 h2 h12 ht1 ht2
    rw [t_eff_linear c hZRN h1] at ht1
    rw [t_eff_linear c hZRN h2] at ht2
    rw [t_eff_linear c hZRN h12]
    cases ht1; cases ht2; congr 1; ring

example : t_eff Real.pi (0.5 * d_c Real.pi .C 0.4 1 1) .C 0.4 1 1 = .ok (0.5 * 3) := by
  have hpos : 0 < d_c Real.pi .C 0.4 1 1 := d_c_pos .C (by norm_num)
  have hZ : (0.4 : ℝ) * 1 * 1 ≠ 0 := by norm_num
  refine (t_eff_homogeneous_additive .C hZ).1 0.5 _ 3 le_rfl (by linarith) ?_
  rw [t_eff_linear .C hZ le_rfl, mul_div_assoc, div_self hpos.ne', mul_one]

/-- C20.f: at the corner displacement the effective period is the corner period `3`. -/
theorem t_eff_corner (c : SiteClass) {Z R N : ℝ} (hZRN : Z * R * N ≠ 0) :
    t_eff Real.pi (d_c Real.pi c Z R N) c Z R N = .ok 3 := by
  have hdc : d_c Real.pi c Z R N ≠ 0 := fun h => hZRN ((d_c_eq_zero_iff c Z R N).mp h)
  rw [t_eff_linear c hZRN le_rfl, mul_div_assoc, div_self hdc, mul_one]

example : t_eff Real.pi (d_c Real.pi .E 0.13 1.3 1) .E 0.13 1.3 1 = .ok 3 :=
  t_eff_corner .E (by norm_num)

/-- C20.f: `t_eff` raises `ValueError` exactly above the corner displacement (for all factors, also
`Z·R·N = 0`); its only other failure is the `ZeroDivisionError` of `3·d / 0` when `Z·R·N = 0` and `d ≤ 0`. -/
theorem t_eff_valueError_iff_gt (d : ℝ) (c : SiteClass) (Z R N : ℝ) :
    (t_eff Real.pi d c Z R N = .error .ValueError ↔ d > d_c Real.pi c Z R N) ∧
    (t_eff Real.pi d c Z R N = .error .ZeroDivisionError ↔ Z * R * N = 0 ∧ d ≤ 0) :=
  ⟨t_eff_valueError_iff d c Z R N, t_eff_zeroDivision_iff d c Z R N⟩

example : t_eff Real.pi 10 .C 1 1 1 = .error .ValueError := by
  rw [(t_eff_valueError_iff_gt 10 .C 1 1 1).1, d_c_eq]; simp only [dcCoeff]
  have h1 := Real.pi_gt_three
  rw [gt_iff_lt, mul_one, mul_one, mul_one, div_lt_iff₀ (by positivity)]
  nlinarith

/-- C20.f (link): `d_c` is the spectral displacement at the corner period `T = 3`:
`sd_nzs(3, c, Z, R, N) · g / (2π)² = d_c`, i.e. `t_eff` inverts `T ↦ (d_c/3)·T` with `t_eff(d_c) = 3`. -/
theorem t_eff_inverts_corner (c : SiteClass) (Z R N : ℝ) :
    ∃ s, sd_nzs pow34R 3 c Z R N = .ok s ∧
      s * gravity / (2 * Real.pi) ^ 2 = d_c Real.pi c Z R N := by
  refine ⟨_, sd_nzs_ok _ (by norm_num) c Z R N, ?_⟩
  have h3 : ∀ c, sdTable pow34R 3 c = dcCoeff c := by
    intro c; cases c <;> simp only [sdTable, sdC, sdD, sdE, dcCoeff] <;> norm_num
  rw [h3]; unfold d_c; ring

example : sd_nzs pow34R 3 .C 1 1 1 = .ok 3.96 := by
  rw [sd_nzs_ok _ (by norm_num)]; simp only [sdTable, sdC]; norm_num

/-! ### breakpoints -/

/-- for `T ≥ 0` the value returned by `c_h_factor` is the table `chTable` (used to state the limits below) -/
theorem c_h_factor_eq_table {T : ℝ} (hT : 0 ≤ T) (c : SiteClass) :
    c_h_factor pow34R T c = .ok (chTable pow34R T c) :=
  c_h_factor_ok _ hT c

example : c_h_factor pow34R 0.2 .C = .ok 2.93 := by
  rw [c_h_factor_eq_table (by norm_num)]; simp only [chTable]; rw [chC_seg2 _ (by norm_num) (by norm_num)]

/-- C20.f: at every breakpoint `b` of every class (the right end of a bounded branch `(a, b)` of the table:
`0.1`, `0.3`/`0.56`/`1.0`, `1.5`, `3.0`) the model equals the branch formula `L` on the open segment `(a, b)`,
and the value `L b` of the branch left of `b` differs from the model's value at `b` (the branch right of `b`)
by at most 0.5 % of that value. `segments c` lists `(a, b, L)` in the order of the code. (Largest jump:
class D at `0.56`, 0.405 %; then class C at `1.5`, 0.297 %.) -/
theorem breakpoint_jumps (c : SiteClass) :
    ∀ seg ∈ segments c,
      (∀ T, seg.a < T → T < seg.b → c_h_factor pow34R T c = .ok (seg.L T)) ∧
      ∃ v, c_h_factor pow34R seg.b c = .ok v ∧ |seg.L seg.b - v| ≤ 0.005 * v :=
  jumps_all c

example : (segments .C).map (fun s => (s.a, s.b)) = [(0, 0.1), (0.1, 0.3), (0.3, 1.5), (1.5, 3.0)] ∧
    (segments .D).map (fun s => (s.a, s.b)) = [(0, 0.1), (0.1, 0.56), (0.56, 1.5), (1.5, 3.0)] ∧
    (segments .E).map (fun s => (s.a, s.b)) = [(0, 0.1), (0.1, 1.0), (1.0, 1.5), (1.5, 3.0)] :=
  ⟨rfl, rfl, rfl⟩

example : ∃ v, c_h_factor pow34R 0.56 .D = .ok v ∧ |(3.0 : ℝ) - v| ≤ 0.005 * v :=
  ((breakpoint_jumps .D) ⟨0.1, 0.56, fun _ => 3.0⟩ (by simp [segments])).2

/-- C20.f: at the breakpoint `0` there is no jump: the `== 0` branch is the value at `0` of the formula of the
first segment `(0, 0.1)`. -/
theorem breakpoint_zero_exact (c : SiteClass) :
    ∃ seg, (segments c).head? = some seg ∧ seg.a = 0 ∧ c_h_factor pow34R 0 c = .ok (seg.L 0) :=
  zero_exact c

example : c_h_factor pow34R 0 .C = .ok 1.33 := by
  rw [c_h_factor_ok _ le_rfl]; simp only [chTable, chC_seg0]

/-- C20.f (jump as a statement about the model alone, no copied formulas): at every breakpoint `b` of every
class the table `T ↦ chTable pow34R T c` (the value `c_h_factor` returns for `T ≥ 0`) has a LEFT LIMIT `L`
(unique, as `𝓝[<] b` is non-trivial), and `L` differs from the value at `b` by at most 0.5 % of that value. -/
theorem breakpoint_jumps_limit (c : SiteClass) :
    ∀ b ∈ (match c with
        | .C => [0.1, 0.3, 1.5, 3.0] | .D => [0.1, 0.56, 1.5, 3.0] | .E => [0.1, 1.0, 1.5, 3.0] : List ℝ),
      ∃ L, Filter.Tendsto (fun T => chTable pow34R T c) (nhdsWithin b (Set.Iio b)) (nhds L) ∧
        |L - chTable pow34R b c| ≤ 0.005 * chTable pow34R b c := by
  have h := jump_limit_all c
  cases c <;> exact h

example : (0.56 : ℝ) ∈ ([0.1, 0.56, 1.5, 3.0] : List ℝ) ∧ chTable pow34R 0.56 .D = 2.4 * pow34R (0.75 / 0.56) :=
  ⟨by simp, chD_seg3 _ le_rfl (by norm_num)⟩

/-- C20.f: at `0` the table is continuous from the right (the `== 0` branch is the limit of the `< 0.1` branch). -/
theorem breakpoint_zero_limit (c : SiteClass) :
    Filter.Tendsto (fun T => chTable pow34R T c) (nhdsWithin 0 (Set.Ioi 0)) (nhds (chTable pow34R 0 c)) :=
  zero_limit c

example : chTable pow34R 0 .E = 1.12 := chE_seg0 _

end DesignSpectra

end EqsigVerif.Props.C20
