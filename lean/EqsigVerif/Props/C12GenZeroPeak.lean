import EqsigVerif.Gen.ZeroPeak
import EqsigVerif.Lemmas.Rest2
import EqsigVerif.Lemmas.Single3
import EqsigVerif.Props.C12Gen
import EqsigVerif.Props.C12ZeroPeak
/-!
# C12 — translator tie: `get_zero_and_peak_array_indices`, `get_major_change_indices` REGENERATED from the source

`Gen/ZeroPeak.lean` is regenerated on every run by `tools/py2lean_x_rest2.py` from `eqsig/fns/peaks_and_crossings.py`: the body of the
`for i in range(1, len(ci))` loop as a step function (`break`, the three `continue` paths, both appends, the two `assert`s with their Python
subscripts `new_pi[-2]`, `new_ci[-1]`), the part after the loop (`len(ci) < 2`, the four `assert min(…) > 0` / `max(…) < 0`), the composition with
the two (generated) callees; the `while z_cur + i < npts - 1` loop of `get_major_change_indices` as condition + step function, `dydx`, the final append.
The bridges hold for ALL series and all arguments, error branches (`IndexError`, `AssertionError`, nan tag) included.
-/
set_option linter.unusedSectionVars false
set_option linter.unusedVariables false
set_option linter.unusedSimpArgs false
namespace EqsigVerif.Props.C12
open EqsigVerif EqsigVerif.Wire EqsigVerif.Np EqsigVerif.NpV EqsigVerif.Model.Single3 EqsigVerif.Lemmas.Rest2

/-- the loop state of the hand model as the tuple `(cc, new_ci, new_pi)` of the generated step function -/
def zpTuple (s : ZpState) : Int × List Int × List Int := (s.cc, s.newCi, s.newPi)

/-- **bridge** (loop body of `get_zero_and_peak_array_indices`): one iteration of the generated step function = `zpStep`, for every state and index,
exceptions included -/
theorem gen_zp_step (pk ci : List Int) (m : Int) (s : ZpState) (i : Nat) :
    Gen.ZeroPeak.zeroAndPeakArrayIndicesStep pk ci m (zpTuple s) i = (zpStep pk ci m s i).map (fun r => (r.1, zpTuple r.2)) := by
  unfold Gen.ZeroPeak.zeroAndPeakArrayIndicesStep zpStep zpTuple
  simp only []
  by_cases h0 : (i : Int) - s.cc + 1 = (pk.length : Int)
  · simp only [h0, if_true]; rfl
  · simp only [h0, if_false]
    cases h1 : NpR.pyGetE pk ((i : Int) - 1 - s.cc) with
    | error e => rfl
    | ok p0 =>
      cases h2 : NpR.pyGetE pk ((i : Int) - s.cc) with
      | error e => rfl
      | ok p1 =>
        cases h3 : NpR.pyGetE ci (i : Int) with
        | error e => rfl
        | ok c =>
          simp only [bind, Except.bind, pure, Except.pure]
          by_cases c1 : p1 - m ≤ c
          · simp only [c1, if_true]; rfl
          · simp only [c1, if_false]
            by_cases c2 : p0 = c
            · simp only [c2, if_true]; rfl
            · simp only [c2, if_false]
              by_cases c3 : p0 < c ∧ c < p1
              · simp only [c3, and_self, if_true]
                rw [pyGetE_concat_last, pyGetE_concat_last]
                rcases List.eq_nil_or_concat s.newPi with hn | ⟨l, q, hq⟩
                · simp [hn, NpE.assertE, c3.2, Except.map]
                · rw [List.concat_eq_append] at hq
                  have hlen : (1 : Int) < (((s.newPi ++ [p1]).length : Nat) : Int) := by rw [hq]; simp; omega
                  simp only [hlen, if_true]
                  rw [hq, pyGetE_concat_prev]
                  simp only [List.getLast?_append, List.getLast?_singleton, Option.some_or]
                  by_cases c4 : q < c
                  · simp [NpE.assertE, c4, c3.2, Except.map]
                  · simp [NpE.assertE, c4, Except.map]
              · simp only [c3, if_false]; rfl

/-- **bridge** (the `for` loop with its `break`): folding the generated step function over `range(a, a + n)` = `zpLoop` on the same indices -/
theorem gen_zp_loop (pk ci : List Int) (m : Int) (n : Nat) : ∀ (a : Nat) (s : ZpState),
    NpW.forBreakFrom (Gen.ZeroPeak.zeroAndPeakArrayIndicesStep pk ci m) a n (zpTuple s) =
      (zpLoop pk ci m (List.range' a n) s).map zpTuple := by
  induction n with
  | zero => intro a s; rfl
  | succ n ih =>
    intro a s
    simp only [NpW.forBreakFrom, List.range'_succ, zpLoop, gen_zp_step]
    cases h : zpStep pk ci m s a with
    | error e => rfl
    | ok r =>
      obtain ⟨b, s'⟩ := r
      cases b with
      | true => rfl
      | false =>
        simp only [Except.map, bind, Except.bind]
        exact ih (a + 1) s'

/-- **bridge** `get_zero_and_peak_array_indices`, everything after the two callees: generated = `zeroPeakCore` for all index lists and every `min_step`,
`IndexError` / `AssertionError` included -/
theorem gen_zeroAndPeakCore (pk ci : List Int) (m : Int) : Gen.ZeroPeak.zeroAndPeakCore pk ci m = zeroPeakCore pk ci m := by
  unfold Gen.ZeroPeak.zeroAndPeakCore zeroPeakCore NpW.forRangeBreakE
  have hl := gen_zp_loop pk ci m (ci.length - 1) 1 ⟨0, [], []⟩
  simp only [zpTuple] at hl
  rw [hl]
  cases hz : zpLoop pk ci m (List.range' 1 (ci.length - 1)) ⟨0, [], []⟩ with
  | error e => rfl
  | ok s =>
    obtain ⟨hlen, _, _⟩ := Lemmas.Single3.zpLoop_inv pk ci m _ _ s ⟨rfl, by simp, by simp⟩ hz
    simp only [Except.map, bind, Except.bind, zpTuple, zpFinish]
    by_cases h2 : s.newCi.length < 2
    · have : ((s.newCi.length : Nat) : Int) < (2 : Int) := by omega
      simp only [this, h2, if_true]; rfl
    · have : ¬ ((s.newCi.length : Nat) : Int) < (2 : Int) := by omega
      simp only [this, h2, if_false]
      have n1 : List.zipWith (fun a b => a - b) s.newPi s.newCi ≠ [] := by
        intro h; have := congrArg List.length h; rw [List.length_zipWith, List.length_nil] at this; omega
      have n2 : List.zipWith (fun a b => a - b) s.newPi.dropLast (s.newCi.drop 1) ≠ [] := by
        intro h; have := congrArg List.length h
        simp only [List.length_zipWith, List.length_dropLast, List.length_drop, List.length_nil] at this; omega
      have n3 : Np.diff s.newPi ≠ [] := by
        intro h; have := congrArg List.length h; rw [length_diff, List.length_nil] at this; omega
      have n4 : Np.diff s.newCi ≠ [] := by
        intro h; have := congrArg List.length h; rw [length_diff, List.length_nil] at this; omega
      have e1 := minE_assert_pos _ n1
      have e2 := maxE_assert_neg _ n2
      have e3 := minE_assert_pos _ n3
      have e4 := minE_assert_pos _ n4
      simp only [bind, Except.bind] at e1 e2 e3 e4
      -- the four `let e ← min/max …; let _ ← assert …` pairs, one after the other
      cases a1 : NpR.minE (List.zipWith (fun a b => a - b) s.newPi s.newCi) with
      | error e => rw [a1] at e1; simp only [] at e1; rw [← e1]
      | ok v1 =>
        rw [a1] at e1; simp only [] at e1 ⊢; rw [e1]
        cases b1 : NpE.assertE ((List.zipWith (fun a b => a - b) s.newPi s.newCi).all fun d => decide (0 < d)) with
        | error e => rfl
        | ok u1 =>
          simp only []
          cases a2 : NpE.maxE (List.zipWith (fun a b => a - b) s.newPi.dropLast (s.newCi.drop 1)) with
          | error e => rw [a2] at e2; simp only [] at e2; rw [← e2]
          | ok v2 =>
            rw [a2] at e2; simp only [] at e2 ⊢; rw [e2]
            cases b2 : NpE.assertE ((List.zipWith (fun a b => a - b) s.newPi.dropLast (s.newCi.drop 1)).all fun d => decide (d < 0)) with
            | error e => rfl
            | ok u2 =>
              simp only []
              cases a3 : NpR.minE (Np.diff s.newPi) with
              | error e => rw [a3] at e3; simp only [] at e3; rw [← e3]
              | ok v3 =>
                rw [a3] at e3; simp only [] at e3 ⊢; rw [e3]
                cases b3 : NpE.assertE ((Np.diff s.newPi).all fun d => decide (0 < d)) with
                | error e => rfl
                | ok u3 =>
                  simp only []
                  cases a4 : NpR.minE (Np.diff s.newCi) with
                  | error e => rw [a4] at e4; simp only [] at e4; rw [← e4]
                  | ok v4 =>
                    rw [a4] at e4; simp only [] at e4 ⊢; rw [e4]
                    cases b4 : NpE.assertE ((Np.diff s.newCi).all fun d => decide (0 < d)) with
                    | error e => rfl
                    | ok u4 => rfl

example : Gen.ZeroPeak.zeroAndPeakCore [1, 3, 5, 7, 9] [0, 2, 4, 6, 8, 10] 0 = .ok ([2, 4, 6], [3, 5, 7]) := by decide +kernel

/-- **bridge** `get_zero_and_peak_array_indices(pvals, zvals, min_step)`: generated (on top of the generated callees of `Gen/CrossingsFns.lean`) = the hand
model (on top of the C12 models), for every series, `zvals=None` or given, every `min_step`; defaults of the callees read from their signatures -/
theorem gen_zeroAndPeakArrayIndices (pvals : List ℚ) (zvals : Option (List ℚ)) (m : Int) :
    Gen.ZeroPeak.zeroAndPeakArrayIndices pvals zvals m = getZeroAndPeakArrayIndices pvals zvals m := by
  unfold Gen.ZeroPeak.zeroAndPeakArrayIndices getZeroAndPeakArrayIndices
  simp only [gen_switched_peaks, gen_zero_crossings, gen_zeroAndPeakCore]
  rfl

example : Gen.ZeroPeak.zeroAndPeakArrayIndices [0, 1, 0, -1, 0, 2, 0, -2, 0, 1, 0] none Gen.ZeroPeak.zeroAndPeakMinStepDefault = .ok ([4, 6, 8], [5, 7, 9]) := by
  decide +kernel

/-- the default `min_step=0` -/
theorem gen_zeroAndPeak_default : Gen.ZeroPeak.zeroAndPeakMinStepDefault = 0 := rfl

/-- **C12 `zero_peak_spec` transported to the generated code**: a pair returned by the generated `get_zero_and_peak_array_indices` (after the callees) is
empty or: equal lengths ≥ 2, crossings ⊆ `ci`, peaks ⊆ `peak_indices`, interleaving `c[k] < p[k] < c[k+1]`, both strictly increasing -/
theorem gen_zero_peak_spec (pk ci : List Int) (m : Int) (c p : List Int) (h : Gen.ZeroPeak.zeroAndPeakCore pk ci m = .ok (c, p)) :
    (c = [] ∧ p = []) ∨
    (2 ≤ c.length ∧ c.length = p.length ∧ (∀ x ∈ c, x ∈ ci) ∧ (∀ x ∈ p, x ∈ pk) ∧
      (∀ k (h1 : k < c.length) (h2 : k < p.length), c[k] < p[k]) ∧
      (∀ k (h1 : k + 1 < c.length) (h2 : k < p.length), p[k] < c[k + 1]) ∧
      (∀ k (h1 : k + 1 < c.length), c[k] < c[k + 1]) ∧ (∀ k (h1 : k + 1 < p.length), p[k] < p[k + 1])) :=
  zero_peak_spec pk ci m c p (by rw [← gen_zeroAndPeakCore]; exact h)

example : Gen.ZeroPeak.zeroAndPeakCore [0, 2, 5, 8, 10, 12, 14] [0, 4, 7, 10, 12, 14] 0 = .ok ([], []) ∧
    Gen.ZeroPeak.zeroAndPeakCore [0, 1, 2] [0, 1, 2] 0 = .error .IndexError := by decide +kernel

/-! ## `get_major_change_indices` -/

/-- the generated loop condition on a state with non-negative `z_cur`, `i` -/
theorem gen_major_cond (dydx : List ℚ) (rtol atol : ℚ) (inds : List Int) (zc i : Nat) :
    Gen.ZeroPeak.majorChangeIndicesStepCond rtol atol dydx ((dydx.length : Nat) : Int) (inds, (zc : Int), (i : Int)) = decide (zc + i + 1 < dydx.length) := by
  unfold Gen.ZeroPeak.majorChangeIndicesStepCond
  simp only []
  rw [Bool.eq_iff_iff]
  simp only [decide_eq_true_eq]
  omega

/-- **bridge** (loop body of `get_major_change_indices`): one iteration of the generated step function on an in-range state; the subscript
`dydx[end_z + 1]` cannot raise there -/
theorem gen_major_step (dydx : List ℚ) (rtol atol : ℚ) (inds : List Int) (zc i : Nat) (h : zc + i + 1 < dydx.length) :
    Gen.ZeroPeak.majorChangeIndicesStep rtol atol dydx ((dydx.length : Nat) : Int) (inds, (zc : Int), (i : Int)) =
      .ok (if isclose (NpR.meanT (Np.slice dydx zc (zc + i))) (dydx.getD (zc + i + 1) 0) rtol atol then (inds, (zc : Int), ((i + 1 : Nat) : Int))
        else (inds ++ [((zc + i : Nat) : Int)], ((zc + i + 1 : Nat) : Int), ((1 : Nat) : Int))) := by
  unfold Gen.ZeroPeak.majorChangeIndicesStep
  simp only []
  have e1 : ((zc : Int) + (i : Int)) + (1 : Int) = ((zc + i + 1 : Nat) : Int) := by push_cast; ring
  have e2 : ((zc : Int) + (i : Int)) = ((zc + i : Nat) : Int) := by push_cast; ring
  rw [e1, pyGetE_nat_getD dydx (zc + i + 1) 0 h, e2, pySlice_nat dydx zc (zc + i) (by omega) (by omega)]
  simp only [bind, Except.bind, pure, Except.pure]
  cases hc : isclose (NpR.meanT (Np.slice dydx zc (zc + i))) (dydx.getD (zc + i + 1) 0) rtol atol with
  | true => simp
  | false => simp

/-- **bridge** (the `while` loop): the generated condition / step folded by `NpW.whileE` with any sufficient budget `f` appends exactly the indices of
`majorLoop` (any sufficient fuel `g`) — in particular the budget `(npts − 1) − (z_cur + i)` handed over by the translator is never exhausted -/
theorem gen_major_loop (dydx : List ℚ) (rtol atol : ℚ) : ∀ (f g zc i : Nat) (inds : List Int),
    dydx.length ≤ f + zc + i + 1 → dydx.length ≤ g + zc + i + 1 →
    (NpW.whileE (Gen.ZeroPeak.majorChangeIndicesStepCond rtol atol dydx ((dydx.length : Nat) : Int))
      (Gen.ZeroPeak.majorChangeIndicesStep rtol atol dydx ((dydx.length : Nat) : Int)) f (inds, (zc : Int), (i : Int))).map (·.1) =
      .ok (inds ++ (majorLoop dydx rtol atol g zc i).map Int.ofNat) := by
  intro f
  induction f with
  | zero =>
    intro g zc i inds hf hg
    have hc : ¬ (zc + i + 1 < dydx.length) := by omega
    simp only [NpW.whileE, gen_major_cond, hc, decide_false, Bool.false_eq_true, if_false, Except.map]
    cases g with
    | zero => simp [majorLoop]
    | succ g => simp [majorLoop, hc]
  | succ f ih =>
    intro g zc i inds hf hg
    by_cases hc : zc + i + 1 < dydx.length
    · obtain ⟨g', rfl⟩ : ∃ g', g = g' + 1 := ⟨g - 1, by omega⟩
      simp only [NpW.whileE, gen_major_cond, hc, decide_true, if_true, gen_major_step dydx rtol atol inds zc i hc, majorLoop]
      cases hcl : isclose (NpR.meanT (Np.slice dydx zc (zc + i))) (dydx.getD (zc + i + 1) 0) rtol atol with
      | true =>
        simp only [if_true]
        exact ih g' zc (i + 1) inds (by omega) (by omega)
      | false =>
        simp only [Bool.false_eq_true, if_false]
        have := ih g' (zc + i + 1) 1 (inds ++ [((zc + i : Nat) : Int)]) (by omega) (by omega)
        rw [this]
        simp
    · simp only [NpW.whileE, gen_major_cond, hc, decide_false, Bool.false_eq_true, if_false, Except.map]
      cases g with
      | zero => simp [majorLoop]
      | succ g => simp [majorLoop, hc]

/-- **bridge** `get_major_change_indices(y, rtol, atol, already_diff, dx)`: generated = hand model for every series and all arguments (`IndexError` of
`y[0]`, the nan tag of `dx = 0`, `already_diff`) -/
theorem gen_majorChangeIndices (y : List ℚ) (rtol atol : ℚ) (ad : Bool) (dx : ℚ) :
    Gen.ZeroPeak.majorChangeIndices y rtol atol ad dx = getMajorChangeIndices y rtol atol ad dx := by
  have key : ∀ dydx : List ℚ,
      (NpW.whileE (Gen.ZeroPeak.majorChangeIndicesStepCond rtol atol dydx ((dydx.length : Nat) : Int))
        (Gen.ZeroPeak.majorChangeIndicesStep rtol atol dydx ((dydx.length : Nat) : Int))
        ((((dydx.length : Nat) : Int) - (1 : Int)) - ((0 : Int) + (1 : Int))).toNat ([(0 : Int)], (0 : Int), (1 : Int)) >>=
          fun e3 => (pure (e3.1 ++ [((dydx.length : Nat) : Int) - (1 : Int)]) : Except ErrKind (List Int))) =
      .ok ((0 : Int) :: (majorLoop dydx rtol atol dydx.length 0 1).map Int.ofNat ++ [(dydx.length : Int) - 1]) := by
    intro dydx
    have h := gen_major_loop dydx rtol atol ((((dydx.length : Nat) : Int) - (1 : Int)) - ((0 : Int) + (1 : Int))).toNat dydx.length 0 1 [(0 : Int)]
      (by omega) (by omega)
    simp only [Nat.cast_zero, Nat.cast_one] at h
    cases hw : NpW.whileE (Gen.ZeroPeak.majorChangeIndicesStepCond rtol atol dydx ((dydx.length : Nat) : Int))
        (Gen.ZeroPeak.majorChangeIndicesStep rtol atol dydx ((dydx.length : Nat) : Int))
        ((((dydx.length : Nat) : Int) - (1 : Int)) - ((0 : Int) + (1 : Int))).toNat ([(0 : Int)], (0 : Int), (1 : Int)) with
    | error e => rw [hw] at h; simp [Except.map] at h
    | ok r =>
      rw [hw] at h
      simp only [Except.map, Except.ok.injEq] at h
      simp only [bind, Except.bind, pure, Except.pure, h]
      simp
  unfold Gen.ZeroPeak.majorChangeIndices getMajorChangeIndices majorDydx
  cases ad with
  | true =>
    simp only [if_true, bind, Except.bind, pure, Except.pure]
    exact key y
  | false =>
    cases y with
    | nil => rfl
    | cons y0 ys =>
      have hg : NpR.pyGetE (y0 :: ys) (0 : Int) = .ok y0 := rfl
      simp only [Bool.false_eq_true, if_false, hg, bind, Except.bind, pure, Except.pure]
      rw [finiteE_fdiv _ dx (by simp [Np.diffFrom])]
      by_cases hdx : dx = 0
      · simp [hdx]
      · simp only [hdx, if_false]
        exact key _

example : Gen.ZeroPeak.majorChangeIndices [0, 1, 2, 3, 3, 3, 3, 5, 7, 9] (1/100000000) (1/100000) false 1 = .ok [0, 1, 3, 6, 9] := by
  decide +kernel

/-- the defaults `rtol=1e-8, atol=1e-5, already_diff=False, dx=1` -/
theorem gen_majorChangeIndices_defaults : Gen.ZeroPeak.majorChangeIndicesDefaults = (1 / 100000000, 1 / 100000, false, 1) := by
  unfold Gen.ZeroPeak.majorChangeIndicesDefaults; norm_num

/-- **C12 `major_change_spec` transported to the generated code**: the result is `0`, strictly increasing interior indices `e` with `1 ≤ e`, `e + 1 < n`,
then `n − 1` -/
theorem gen_major_change_spec (y : List ℚ) (rtol atol : ℚ) (ad : Bool) (dx : ℚ) (inds : List Int)
    (h : Gen.ZeroPeak.majorChangeIndices y rtol atol ad dx = .ok inds) :
    ∃ (dydx : List ℚ) (mid : List Nat), majorDydx y ad dx = .ok dydx ∧
      inds = (0 : Int) :: mid.map Int.ofNat ++ [(dydx.length : Int) - 1] ∧
      (∀ e ∈ mid, 1 ≤ e ∧ e + 1 < dydx.length) ∧ mid.Pairwise (· < ·) ∧ (ad = true → dydx = y) ∧
      (ad = false → dydx.length = y.length ∧ y ≠ []) :=
  major_change_spec y rtol atol ad dx inds (by rw [← gen_majorChangeIndices]; exact h)

example : Gen.ZeroPeak.majorChangeIndices [] 0 0 false 1 = .error .IndexError ∧ Gen.ZeroPeak.majorChangeIndices [] 0 0 true 1 = .ok [0, -1] ∧
    Gen.ZeroPeak.majorChangeIndices [1, 2] 0 0 false 0 = .error .ZeroDivisionError := by decide +kernel

end EqsigVerif.Props.C12
