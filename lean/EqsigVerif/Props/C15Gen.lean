import EqsigVerif.Model.Stockwell
import EqsigVerif.Gen.StockwellFns
import EqsigVerif.Lemmas.Stockwell
import EqsigVerif.Lemmas.Fns
import EqsigVerif.Props.C15
import Mathlib.Tactic.NormNum
import Mathlib.Tactic.Ring
/-!
# C15 — translator tie: the functions of `eqsig/stockwell.py` REGENERATED from the source

`Gen/StockwellFns.lean` is regenerated on every run by `tools/py2lean_x_rest.py`: truncation to even length (`n_d2 = int(len(acc)/2)`,
`n_factor = 2 * n_d2`), the Gaussian window expression of `generate_gaussian` (frequency vector, signed part `flipud(-f_half[1:-1])`,
`np.outer`, `exp(-p**2/2)`, `.transpose()`), the Toeplitz arguments and the row range `[1:n_d2 + 1, :]`, the product with the window,
`ifft(axis=1)`, `flipud`; for `itransform` the row sums, the two slice stores that build the Hermitian spectrum, `ifft`, `np.real`,
`[:npts]`; for `get_max_*_freq` the frequency axis, `argmax(axis=0)`, `np.take`, and the `hasattr(asig, "swtf")` branch.
The FFT stays the twiddle parameter `tw` (assumption `FftIsDft`), `np.exp`/`np.pi` stay parameters, as in the hand model.
Bridges over `ℝ`/`ℂ` (the number types of `Props/C15.lean`); `get_max_tifq_vals_freq` over any number type.
-/
set_option linter.unusedSectionVars false
set_option linter.unusedVariables false
set_option linter.unusedSimpArgs false
set_option linter.unusedTactic false
set_option linter.unreachableTactic false
namespace EqsigVerif.Props.C15
open EqsigVerif EqsigVerif.Cplx EqsigVerif.Wire EqsigVerif.Model.Stockwell

/-! ## prelude combinators = the model's helpers -/

theorem npr_toeplitz (c r : List ℂ) : NpR.toeplitz c r = toeplitz c r := rfl
theorem npr_pyGet {β : Type} (l : List β) (i : ℤ) : NpR.pyGetE l i = Model.Fns.pyGet l i := rfl

/-- `x[1:-1]` is `Np.slice x 1 (len x - 1)` -/
theorem pySlice_one_neg_one {γ : Type} (l : List γ) : NpR.pySlice l (1 : ℤ) (-1 : ℤ) = Np.slice l 1 (l.length - 1) := by
  have h1 : NpR.pyIdx l.length (-1 : ℤ) = l.length - 1 := by simp only [NpR.pyIdx]; split_ifs <;> omega
  have h2 : NpR.pyIdx l.length (1 : ℤ) = min 1 l.length := by simp only [NpR.pyIdx]; split_ifs <;> omega
  simp only [NpR.pySlice, Np.slice, h1, h2]
  cases l with
  | nil => rfl
  | cons a t => simp

theorem one_lit : (1.0 : ℝ) = 1 := by norm_num

/-! ## `generate_gaussian` -/

/-- **bridge** `generate_gaussian(n_d2)`: generated = model for every `n_d2`, every `exp`, `π` -/
theorem gen_generateGaussian (exp : ℝ → ℝ) (pi : ℝ) (n : ℕ) :
    Gen.StockwellFns.generateGaussian exp pi n = generateGaussian exp pi n := by
  simp only [Gen.StockwellFns.generateGaussian, generateGaussian, fSigned, fHalf, pySlice_one_neg_one, NpE.flip, one_lit]
  -- reached only when the source spells the window expression differently (e.g. commuted factors): compare entry by entry over `ℝ`
  try (apply List.map_congr_left; intro a _; apply List.map_congr_left; intro b _; congr 1; ring)

/-! ## `transform`, `transform_w_scipy_fft` -/

theorem ifftRows_ok (tw : ℕ → ℕ → ℂ) (M : List (List ℂ)) (N : ℕ) (hN : N ≠ 0) (h : ∀ row ∈ M, row.length = N) :
    NpR.ifftRowsE (α := ℝ) tw M = .ok (M.map (fun row => idft tw row N)) := by
  unfold NpR.ifftRowsE
  apply Lemmas.Fns.mapM_ok
  intro row hrow
  simp only [NpE.ifft, h row hrow, hN, if_false]

/-- **bridge** `transform(acc)`: generated = model for every record (errors included), every twiddle table, `exp`, `π` -/
theorem gen_transform (tw : ℕ → ℕ → ℂ) (exp : ℝ → ℝ) (pi : ℝ) (acc : List ℂ) :
    Gen.StockwellFns.transform tw exp pi acc = transform tw exp pi acc := by
  unfold Gen.StockwellFns.transform transform
  simp only [gen_generateGaussian, npr_toeplitz]
  by_cases hN : 2 * (acc.length / 2) = 0
  · simp [NpE.fft, hN, bind, Except.bind]
  · have hnd : 1 ≤ acc.length / 2 := by omega
    simp only [NpE.fft, hN, if_false, bind, Except.bind, pure, Except.pure]
    rw [ifftRows_ok tw _ (2 * (acc.length / 2)) hN]
    · rfl
    · intro row hrow
      rw [generateGaussian_eq exp pi _ hnd, toeplitz_slice_eq _ _ hnd (by simp), zipWith_map_range] at hrow
      obtain ⟨i, _, rfl⟩ := List.mem_map.mp hrow
      simp [zipWith_map_range]

/-- **bridge** `transform_w_scipy_fft(acc)`: the same generated text as `transform` (the two sources differ only in which FFT they
import), hence the same model -/
theorem gen_transformWScipyFft (tw : ℕ → ℕ → ℂ) (exp : ℝ → ℝ) (pi : ℝ) (acc : List ℂ) :
    Gen.StockwellFns.transformWScipyFft tw exp pi acc = transformWScipyFft tw exp pi acc := by
  rw [implementations_agree, ← gen_transform]; rfl

/-! ## `itransform` -/

theorem pyIdx_nat (n k : ℕ) : NpR.pyIdx n ((k : ℕ) : ℤ) = min k n := by
  simp only [NpR.pyIdx]; split_ifs <;> omega

/-- the two slice stores of `itransform` on `np.zeros(2L)`: `fas[1:L] = A`, `fas[L+1:] = B` for `len A = len B = L - 1` -/
theorem hermitian_stores (L : ℕ) (hL : 1 ≤ L) (A B : List ℂ) (hA : A.length = L - 1) (hB : B.length = L - 1) :
    NpR.setSlicePyE (NpE.zeros (2 * L) : List ℂ) (1 : ℤ) ((((2 * L) / 2 : ℕ)) : ℤ) A = .ok ([0] ++ A ++ List.replicate L 0) ∧
    NpR.setSlicePyE ([0] ++ A ++ List.replicate L (0 : ℂ)) (((((2 * L) / 2) + 1 : ℕ)) : ℤ)
        (((([0] ++ A ++ List.replicate L (0 : ℂ)).length : ℕ)) : ℤ) B = .ok ([0] ++ A ++ [0] ++ B) := by
  have hdiv : 2 * L / 2 = L := by omega
  obtain ⟨k, rfl⟩ : ∃ k, L = k + 1 := ⟨L - 1, by omega⟩
  have hA' : A.length = k := by omega
  have hB' : B.length = k := by omega
  constructor
  · have h1 : NpR.pyIdx (2 * (k + 1)) (1 : ℤ) = 1 := by
      have := pyIdx_nat (2 * (k + 1)) 1
      simp only [Nat.cast_one] at this
      rw [this]; omega
    have h2 : NpR.pyIdx (2 * (k + 1)) (((2 * (k + 1) / 2 : ℕ)) : ℤ) = k + 1 := by rw [pyIdx_nat]; omega
    simp only [NpR.setSlicePyE, NpE.zeros, List.length_replicate, h1, h2, Nat.add_sub_cancel, hA', if_true]
    congr 1
    rw [List.take_replicate, List.drop_replicate]
    have : 2 * (k + 1) - (1 + k) = k + 1 := by omega
    rw [this]
    have h4 : min 1 (2 * (k + 1)) = 1 := by omega
    rw [h4]
    rfl
  · have hlen : ([0] ++ A ++ List.replicate (k + 1) (0 : ℂ)).length = 2 * (k + 1) := by
      simp only [List.length_append, List.length_replicate, List.length_cons, List.length_nil, hA']; omega
    have h1 : NpR.pyIdx (2 * (k + 1)) ((((2 * (k + 1) / 2) + 1 : ℕ)) : ℤ) = k + 2 := by rw [pyIdx_nat]; omega
    have h2 : NpR.pyIdx (2 * (k + 1)) (((2 * (k + 1) : ℕ)) : ℤ) = 2 * (k + 1) := by rw [pyIdx_nat]; omega
    have h3 : 2 * (k + 1) - (k + 2) = k := by omega
    simp only [NpR.setSlicePyE, hlen, h1, h2, h3, hB', if_true]
    congr 1
    have e1 : ([0] ++ A ++ List.replicate (k + 1) (0 : ℂ)) = ([0] ++ A ++ [0]) ++ List.replicate k 0 := by
      simp [List.replicate_succ]
    rw [e1, List.take_left' (by simp [hA']), List.drop_of_length_le (by simp [hA']; omega)]
    simp

/-- **bridge** `itransform(stock)`: generated = model for every array (errors included), under the one hypothesis the model states in
words: the float expression `int(np.ceil(2 ** (np.log(n) / np.log(2))))` is at least `n = 2·len(stock)` -/
theorem gen_itransform (tw : ℕ → ℕ → ℂ) (c : ℕ → ℕ) (stock : List (List ℂ)) (hc : 2 * stock.length ≤ c (2 * stock.length)) :
    Gen.StockwellFns.itransform (α := ℝ) tw c stock = itransform tw stock := by
  cases hs : stock with
  | nil => rfl
  | cons r0 rest =>
    rw [← hs]
    have hL : 1 ≤ (stock.map sumL).length := by simp [hs]
    have hL' : 1 ≤ stock.length := by simp [hs]
    have hL0 : (stock.map sumL).length ≠ 0 := by omega
    obtain ⟨h1, h2⟩ := hermitian_stores (stock.map sumL).length hL
      (NpE.flip (((stock.map sumL).drop 1).map (fun a => (CxLike.conj a : ℂ)))) ((stock.map sumL).drop 1)
      (by simp [NpE.flip]) (by simp)
    unfold Gen.StockwellFns.itransform itransform
    simp only [bind, Except.bind, pure, Except.pure, h1, h2, hL0, if_false]
    have hlen : ([0] ++ NpE.flip (((stock.map sumL).drop 1).map (fun a => (CxLike.conj a : ℂ))) ++ [0] ++ (stock.map sumL).drop 1).length
        = 2 * (stock.map sumL).length := by
      simp [NpE.flip]; omega
    have hne : 2 * (stock.map sumL).length ≠ 0 := by omega
    simp only [NpE.ifft, hlen, hne, if_false]
    have hc' : 2 * (stock.map sumL).length ≤ c (2 * (stock.map sumL).length) := by simpa using hc
    rw [List.take_of_length_le (by simpa using hc), List.take_of_length_le (by simp)]
    simp only [NpE.flip, List.drop_one]

/-! ## `get_max_tifq_vals_freq`, `get_max_stockwell_freq` -/

section MaxFreq
variable {α γ : Type} [Mul α] [Div α] [OfNat α 0] [NatCast α] [LT α] [DecidableLT α]

theorem argmaxFrom_lt (bi : ℕ) (bv : α) (i : ℕ) (l : List α) (h : bi < i) : Np.argmaxFrom bi bv i l < i + l.length := by
  induction l generalizing bi bv i with
  | nil => simpa [Np.argmaxFrom] using h
  | cons x xs ih =>
    simp only [Np.argmaxFrom, List.length_cons]
    split_ifs
    · have := ih i x (i + 1) (by omega); omega
    · have := ih bi bv (i + 1) (by omega); omega

theorem argmax_lt (l : List α) (h : l ≠ []) : Np.argmax l < l.length := by
  cases l with
  | nil => exact absurd rfl h
  | cons x xs =>
    have := argmaxFrom_lt 0 x 1 xs (by omega)
    simpa [Np.argmax, Nat.add_comm] using this

/-- **bridge** `get_max_tifq_vals_freq(tifq_values, dt)`: generated = model for all arguments (errors included), over ANY number type
and any entry type (`cabs` = `abs` on the entries) -/
theorem gen_getMaxTifqValsFreq (cabs : γ → α) (tifq : List (List γ)) (dt : α) :
    Gen.StockwellFns.getMaxTifqValsFreq cabs tifq dt = getMaxTifqValsFreq cabs tifq dt := by
  unfold Gen.StockwellFns.getMaxTifqValsFreq getMaxTifqValsFreq
  by_cases h0 : tifq.length = 0
  · simp [NpR.argmaxAxis0E, h0, bind, Except.bind]
  · have hne : tifq ≠ [] := fun h => h0 (by simp [h])
    simp only [NpR.argmaxAxis0E, List.length_map, h0, if_false, bind, Except.bind, pure, Except.pure, NpR.takeE, NpE.flip,
      List.head?_map, Option.map_map, Function.comp_def, List.map_map]
    have hcol : ∀ j : ℕ, (fun (row : List γ) => (row.map cabs).getD j 0) = (fun row => (row[j]?.map cabs).getD 0) := by
      intro j; funext row; simp [List.getD_eq_getElem?_getD]
    rw [Lemmas.Fns.mapM_ok _ (fun (k : ℤ) =>
      (((List.range tifq.length).map (fun (i : ℕ) => ((i + 1 : ℕ) : α) / (((2 * tifq.length : ℕ) : α) * dt))).reverse).getD k.toNat 0)]
    · simp only [List.map_map, Function.comp_def, Int.toNat_natCast, hcol]
    · intro k hk
      obtain ⟨j, _, rfl⟩ := List.mem_map.mp hk
      simp only [hcol]
      have hlt : Np.argmax (tifq.map (fun row => (row[j]?.map cabs).getD 0)) < tifq.length := by
        have := argmax_lt (tifq.map (fun row => (row[j]?.map cabs).getD 0)) (by simpa using hne)
        simpa using this
      rw [npr_pyGet, Lemmas.Fns.pyGet_nat _ _ (by simpa using hlt)]
      simp [List.getD_eq_getElem?_getD, hlt]

end MaxFreq

/-- **bridge** `get_max_stockwell_freq(asig)`: without a cached `swtf` it is `get_max_tifq_vals_freq` on `transform(asig.values)` and
`asig.dt` (what the model's doc comment says), with one it is `get_max_tifq_vals_freq` on the cached array -/
theorem gen_getMaxStockwellFreq (cabs : ℂ → ℝ) (tw : ℕ → ℕ → ℂ) (exp : ℝ → ℝ) (pi : ℝ) (values : List ℂ) (dt : ℝ) :
    Gen.StockwellFns.getMaxStockwellFreq cabs tw exp values dt pi none
      = (transform tw exp pi values >>= fun S => getMaxTifqValsFreq cabs S dt) ∧
    ∀ S, Gen.StockwellFns.getMaxStockwellFreq cabs tw exp values dt pi (some S) = getMaxTifqValsFreq cabs S dt := by
  constructor
  · rw [← gen_transform]
    simp only [← gen_getMaxTifqValsFreq]
    rfl
  · intro S
    rw [← gen_getMaxTifqValsFreq]
    rfl

/-! ## the axes `get_stockwell_freqs`, `get_stockwell_times` (no hand model: closed forms) -/

/-- `get_stockwell_freqs(asig)`: entry `i < ⌊R/2⌋` (`R = len(asig.swtf)`) is `(R/2 − i) / (len(values)·dt)`; never raises -/
theorem gen_getStockwellFreqs (swtf : List (List ℂ)) (values : List ℂ) (dt : ℝ) :
    Gen.StockwellFns.getStockwellFreqs swtf values dt
      = .ok ((List.range (swtf.length / 2)).map (fun (i : ℕ) => ((swtf.length : ℝ) / 2 - i) / ((values.length : ℝ) * dt))) := rfl

/-- `get_stockwell_times(asig)`: entry `j < len(asig.swtf[0])` is `j·dt/2`; `IndexError` for an array without rows -/
theorem gen_getStockwellTimes (swtf : List (List ℂ)) (values : List ℂ) (dt : ℝ) :
    Gen.StockwellFns.getStockwellTimes swtf values dt
      = match swtf with
        | [] => .error .IndexError
        | r0 :: _ => .ok ((List.range r0.length).map (fun (j : ℕ) => (j : ℝ) * dt / 2)) := by
  cases swtf <;> rfl

/-! ## consequences: C15 clauses about the generated code -/

/-- **C15.a for the generated code**: for a record of length `n ≥ 2` the generated transform succeeds and is an `(N/2) × N` array,
`N = 2⌊n/2⌋`; row `r` is the inverse DFT of the windowed, shifted spectrum of harmonic `k = N/2 − r` -/
theorem gen_shape (tw : ℕ → ℕ → ℂ) (exp : ℝ → ℝ) (pi : ℝ) (acc : List ℂ) (h : 2 ≤ acc.length) :
    ∃ S, Gen.StockwellFns.transform tw exp pi acc = .ok S ∧ S.length = acc.length / 2 ∧
      (∀ row ∈ S, row.length = 2 * (acc.length / 2)) ∧
      ∀ r (hr : r < S.length), S[r] =
        idft tw (prodRow exp pi (dft tw acc (2 * (acc.length / 2))) (acc.length / 2)
          (acc.length / 2 - r)) (2 * (acc.length / 2)) := by
  rw [gen_transform]; exact shape tw exp pi acc h

/-- **C15.a for the generated code**: records shorter than 2 samples raise `ValueError` -/
theorem gen_short_record_raises (tw : ℕ → ℕ → ℂ) (exp : ℝ → ℝ) (pi : ℝ) (acc : List ℂ) (h : acc.length < 2) :
    Gen.StockwellFns.transform tw exp pi acc = .error .ValueError := by
  rw [gen_transform]; exact short_record_raises tw exp pi acc h

/-- **C15.c for the generated code**: both implementations are the same generated function -/
theorem gen_implementations_agree (tw : ℕ → ℕ → ℂ) (exp : ℝ → ℝ) (pi : ℝ) (acc : List ℂ) :
    Gen.StockwellFns.transformWScipyFft tw exp pi acc = Gen.StockwellFns.transform tw exp pi acc := rfl

/-- **C15.e for the generated code**: the generated `itransform` of the generated `transform` of a REAL record is the record
(truncated to `N` samples) minus its mean and Nyquist components -/
theorem gen_inverse (c : ℕ → ℕ) (hc : ∀ n, n ≤ c n) (x : List ℂ) (h : 2 ≤ x.length)
    (hx : ∀ j, starRingEnd ℂ (x.getD j 0) = x.getD j 0) :
    ∃ S y, Gen.StockwellFns.transform twC Real.exp Real.pi x = .ok S ∧ Gen.StockwellFns.itransform (α := ℝ) twC c S = .ok y ∧
      y.length = 2 * (x.length / 2) ∧
      ∀ j, j < 2 * (x.length / 2) → y.getD j 0 =
        (x.getD j 0 - (∑ l ∈ Finset.range (2 * (x.length / 2)), x.getD l 0) / (2 * (x.length / 2) : ℕ)
          - (-1) ^ j * (∑ l ∈ Finset.range (2 * (x.length / 2)), (-1) ^ l * x.getD l 0)
            / (2 * (x.length / 2) : ℕ)).re := by
  obtain ⟨S, y, h1, h2, h3⟩ := inverse x h hx
  exact ⟨S, y, by rw [gen_transform]; exact h1, by rw [gen_itransform _ _ _ (hc _)]; exact h2, h3⟩

/-! ## concrete runs of the generated definitions (kernel; exact arithmetic, `exp := id`, `π := 3`, the `N = 2` twiddles `±1`) -/
def tw2 : ℕ → ℕ → Cx ℚ := fun _ m => if m % 2 = 0 then ⟨1, 0⟩ else ⟨-1, 0⟩

example : Gen.StockwellFns.generateGaussian (fun x => x) (3 : ℚ) 1 = [[0, -18]] ∧
    Gen.StockwellFns.generateGaussian (fun x => x) (3 : ℚ) 2 = [[0, -18, -72, -18], [0, -9 / 2, -18, -9 / 2]] := by decide +kernel
example : Gen.StockwellFns.transform tw2 (fun x => x) (3 : ℚ) [⟨1, 0⟩, ⟨3, 0⟩, ⟨7, 0⟩] = .ok [[⟨-36, 0⟩, ⟨36, 0⟩]] ∧
    Gen.StockwellFns.transformWScipyFft tw2 (fun x => x) (3 : ℚ) [⟨1, 0⟩, ⟨3, 0⟩] = .ok [[⟨-36, 0⟩, ⟨36, 0⟩]] ∧
    Gen.StockwellFns.transform tw2 (fun x => x) (3 : ℚ) [⟨1, 0⟩] = .error .ValueError := by decide +kernel
example : Gen.StockwellFns.itransform (α := ℚ) tw2 (fun n => n) [[⟨-36, 0⟩, ⟨36, 0⟩]] = .ok [0, 0] ∧
    Gen.StockwellFns.itransform (α := ℚ) tw2 (fun n => n) ([] : List (List (Cx ℚ))) = .error .ValueError := by decide +kernel
example : Gen.StockwellFns.getMaxTifqValsFreq (fun (z : ℚ) => z) [[1, 5, 2], [3, 2, 2]] (1 / 2) = .ok [1 / 2, 1, 1] ∧
    Gen.StockwellFns.getMaxTifqValsFreq (fun (z : ℚ) => z) ([] : List (List ℚ)) (1 / 2) = .error .ValueError := by decide +kernel
example : Gen.StockwellFns.getMaxStockwellFreq (fun (z : Cx ℚ) => z.re) tw2 (fun x => x) [⟨1, 0⟩, ⟨3, 0⟩] (1 / 2) (3 : ℚ) none = .ok [1, 1] ∧
    Gen.StockwellFns.getStockwellFreqs [[(1 : Cx ℚ)], [1], [1], [1]] [(1 : Cx ℚ), 1] (1 / 2 : ℚ) = .ok [2, 1] ∧
    Gen.StockwellFns.getStockwellTimes [[(1 : Cx ℚ), 1, 1]] [(1 : Cx ℚ)] (1 / 2 : ℚ) = .ok [0, 1 / 4, 1 / 2] ∧
    Gen.StockwellFns.getStockwellTimes ([] : List (List (Cx ℚ))) [(1 : Cx ℚ)] (1 / 2 : ℚ) = .error .IndexError := by decide +kernel

end EqsigVerif.Props.C15
