import EqsigVerif.Model.Single
import EqsigVerif.Gen.Mutators2
import EqsigVerif.Lemmas.Single
import EqsigVerif.Lemmas.Cplx
import EqsigVerif.Props.C17
import Mathlib.Algebra.Order.Ring.Rat
import Mathlib.Tactic.Ring
import Mathlib.Tactic.NormNum
/-!
# C17 — translator tie: `running_average`, `remove_poly`, Gibbs padding of `butter_pass` REGENERATED from `eqsig/single.py`

`Gen/Mutators2.lean` is regenerated on every run by `tools/py2lean_x_rest.py`.  Bridges: generated = hand model of `Model/Single.lean`
(over `ℚ`).  `running_average`: for all arguments.  `remove_poly`: under the named hypothesis "`np.polyfit` returns `poly_fit + 1`
coefficients".  `butter_pass`: for a non-empty record (for an empty one the code raises `OverflowError` in `int(np.ceil(np.log2(0)))`
when padding is requested — proved separately; the model's stated domain is a non-empty record).
-/
set_option linter.unusedSectionVars false
set_option linter.unusedVariables false
set_option linter.unusedSimpArgs false
namespace EqsigVerif.Props.C17
open EqsigVerif EqsigVerif.Cplx EqsigVerif.Wire EqsigVerif.Model.Single

/-! ## prelude combinators of `Prelude/NpR.lean` = the model's helpers -/

theorem npr_mean (l : List ℚ) : NpR.meanT l = mean l := by
  simp only [NpR.meanT, mean, sumL_eq_sum, npSum_eq_sum]

theorem npr_pyIdx (n : ℕ) (b : ℤ) : NpR.pyIdx n b = normIdx n b := rfl
theorem npr_pyFrom (l : List ℚ) (a : ℤ) : NpR.pyFrom l a = pyFrom l a := rfl
theorem npr_pySlice (l : List ℚ) (a b : ℤ) : NpR.pySlice l a b = pySlice l a b := rfl

theorem take_eq_pyTo (l : List ℚ) (k : ℕ) : l.take k = pyTo l (k : ℤ) := by
  rw [pyTo, normIdx_nat, List.take_eq_take_iff]; omega

/-! ## `running_average` -/

/-- **bridge** the sample written by iteration `i` of `Signal.running_average(width)`: generated = model, all arguments -/
theorem gen_runningAverageAt (mot : List ℚ) (width i : ℕ) :
    Gen.Mutators2.runningAverageAt mot width i = runningAverageAt mot width i := by
  simp only [Gen.Mutators2.runningAverageAt, runningAverageAt, npr_mean, npr_pyFrom, npr_pySlice, take_eq_pyTo, gt_iff_lt,
    Nat.cast_ofNat, Nat.add_assoc, Nat.add_comm, Nat.add_left_comm]

/-- **bridge** `Signal.running_average(width)` (new `self._values`): generated = model, all arguments -/
theorem gen_runningAverage (values : List ℚ) (width : ℕ) :
    Gen.Mutators2.runningAverage values width = runningAverage values width := by
  simp only [Gen.Mutators2.runningAverage, runningAverage, funext (gen_runningAverageAt values width)]

/-- **C17.f for the generated code**: the length is kept and `out[i]` is the mean of the ORIGINAL samples over the window -/
theorem gen_running_average_spec (v : List ℚ) (w : ℕ) :
    (Gen.Mutators2.runningAverage v w).length = v.length ∧
    ∀ i (hi : i < v.length),
      i ∈ window v.length i (w / 2) ∧
      (Gen.Mutators2.runningAverage v w)[i]'(by simpa [Gen.Mutators2.runningAverage] using hi)
        = (∑ j ∈ window v.length i (w / 2), v.getD j 0) / ((window v.length i (w / 2)).card : ℚ) := by
  simp only [gen_runningAverage]
  exact running_average_spec v w

example : Gen.Mutators2.runningAverage [1, 2, 3, 4, (5 : ℚ)] 3 = [3/2, 2, 3, 4, 9/2] ∧
    Gen.Mutators2.runningAverage [1, 2, 3, 4, (5 : ℚ)] 4 = [2, 5/2, 3, 7/2, 4] ∧
    Gen.Mutators2.runningAverage [1, 2, (6 : ℚ)] 7 = [3, 3, 3] ∧
    Gen.Mutators2.runningAverageDefaultWidth = 1 := by decide +kernel

/-! ## `remove_poly` -/

theorem npr_linspace (n : ℕ) : (NpR.linspace01 n : List ℚ) = linspace01 n := rfl

theorem foldl_range_congr {β : Type} (f g : β → ℕ → β) (n : ℕ) (h : ∀ acc i, i < n → f acc i = g acc i) (init : β) :
    (List.range n).foldl f init = (List.range n).foldl g init := by
  induction n with
  | zero => rfl
  | succ k ih =>
    rw [List.range_succ, List.foldl_append, List.foldl_append, ih (fun acc i hi => h acc i (by omega))]
    simp only [List.foldl_cons, List.foldl_nil]
    exact h _ k (by omega)

/-- the entry-wise fold of the loop `for co in range(len(cofs)): y_cor += cofs[co] * x ** (poly_fit - co)` is the model's
`polyCorrection` when `np.polyfit` returned `poly_fit + 1` coefficients -/
theorem gen_polyCorrection (cofs : List ℚ) (k : ℕ) (hc : cofs.length = k + 1) (x : ℚ) :
    (List.range cofs.length).foldl (fun acc co => acc + ((cofs.getD co 0) * (x ^ (((k : ℕ) : ℤ) - ((co : ℕ) : ℤ))))) ((0 : ℚ) * x)
      = polyCorrection cofs x := by
  unfold polyCorrection
  apply foldl_range_congr
  intro acc i hi
  have hik : i ≤ k := by omega
  have h1 : ((k : ℕ) : ℤ) - ((i : ℕ) : ℤ) = (((cofs.length - 1 - i : ℕ)) : ℤ) := by omega
  rw [h1, zpow_natCast]

/-- the same with the product of the step written `mods * cofs[co]` -/
theorem gen_polyCorrection' (cofs : List ℚ) (k : ℕ) (hc : cofs.length = k + 1) (x : ℚ) :
    (List.range cofs.length).foldl (fun acc co => acc + ((x ^ (((k : ℕ) : ℤ) - ((co : ℕ) : ℤ))) * (cofs.getD co 0))) ((0 : ℚ) * x)
      = polyCorrection cofs x := by
  rw [← gen_polyCorrection cofs k hc x]
  congr 1
  funext acc co
  ring

/-- **bridge** `eqsig.fns.generic.remove_poly(values, poly_fit)`: generated = model under the named hypothesis "`np.polyfit` returns
`poly_fit + 1` coefficients" -/
theorem gen_removePoly (polyfit : List ℚ → List ℚ → ℕ → List ℚ) (values : List ℚ) (k : ℕ)
    (hc : (polyfit (linspace01 values.length) values k).length = k + 1) :
    Gen.Mutators2.removePoly polyfit values k = removePoly polyfit values k := by
  simp only [Gen.Mutators2.removePoly, removePoly, removePolyWith, npr_linspace, gen_polyCorrection _ k hc, gen_polyCorrection' _ k hc]

/-- **bridge** `Signal.remove_poly(poly_fit)` (the array handed to `reset_values`): the same model function, same hypothesis -/
theorem gen_signalRemovePoly (polyfit : List ℚ → List ℚ → ℕ → List ℚ) (values : List ℚ) (k : ℕ)
    (hc : (polyfit (linspace01 values.length) values k).length = k + 1) :
    Gen.Mutators2.signalRemovePoly polyfit values k = removePoly polyfit values k := by
  simp only [Gen.Mutators2.signalRemovePoly, removePoly, removePolyWith, npr_linspace, gen_polyCorrection _ k hc, gen_polyCorrection' _ k hc]

/-- object level and array level `remove_poly` are the same function (under the `polyfit` hypothesis); both default to `poly_fit = 0` -/
theorem gen_removePoly_object_eq_array (polyfit : List ℚ → List ℚ → ℕ → List ℚ) (values : List ℚ) (k : ℕ)
    (hc : (polyfit (linspace01 values.length) values k).length = k + 1) :
    Gen.Mutators2.signalRemovePoly polyfit values k = Gen.Mutators2.removePoly polyfit values k ∧
    Gen.Mutators2.removePolyDefaults = (0, 0) :=
  ⟨by rw [gen_signalRemovePoly polyfit values k hc, gen_removePoly polyfit values k hc], rfl⟩

/-- **C17.c for the generated code**: the result has the length of the record (for any `polyfit` returning `k + 1` coefficients) -/
theorem gen_removePoly_length (polyfit : List ℚ → List ℚ → ℕ → List ℚ) (values : List ℚ) (k : ℕ)
    (hc : (polyfit (linspace01 values.length) values k).length = k + 1) :
    (Gen.Mutators2.removePoly polyfit values k).length = values.length := by
  rw [gen_removePoly polyfit values k hc]
  exact (detrend_projection k values _ hc).1

example : Gen.Mutators2.removePoly (fun _ _ _ => [2, (1 : ℚ)]) [1, 2, (6 : ℚ)] 1 = [0, 0, 3] ∧
    Gen.Mutators2.signalRemovePoly (fun _ _ _ => [(1 : ℚ)]) [1, 2, (6 : ℚ)] 0 = [0, 1, 5] := by decide +kernel

/-! ## Gibbs padding of `butter_pass` -/

/-- the model's modes as the generated inductive (`'mid'` / anything else is the code's `else` branch) -/
def genGibbs : GibbsMode → Gen.Mutators2.GibbsMode
  | .none => .none
  | .start => .start
  | .end => .«end»
  | .mid => .other

theorem npe_ceilLog2 (n : ℕ) (hn : n ≠ 0) : NpE.ceilLog2 n = .ok (ceilLog2 n) := by
  simp only [NpE.ceilLog2, hn, if_false, ceilLog2]

theorem ones_mul_left (N : ℕ) (sv : ℚ) : (List.replicate N (1 : ℚ)).map (fun a => sv * a) = List.replicate N sv := by
  simp [List.map_replicate]
theorem ones_mul_right (N : ℕ) (sv : ℚ) : (List.replicate N (1 : ℚ)).map (fun a => a * sv) = List.replicate N sv := by
  simp [List.map_replicate]

/-- `temp = sv * np.ones(N); temp[f:] = ev; temp[s:f] = v` for `s = S`, `f = S + len(v) ≤ N` (as Python integers) -/
theorem pad_store (N S : ℕ) (sv ev : ℚ) (v : List ℚ) (hle : S + v.length ≤ N) :
    NpR.setSlicePyE (NpR.fillFromPy (List.replicate N sv) ((S + v.length : ℕ) : ℤ) ev)
        ((S : ℕ) : ℤ) ((S + v.length : ℕ) : ℤ) v
      = .ok (List.replicate S sv ++ v ++ List.replicate (N - (S + v.length)) ev) := by
  have h2 : NpR.pyIdx N (((S + v.length : ℕ)) : ℤ) = S + v.length := by rw [npr_pyIdx, normIdx_nat]; omega
  have h3 : NpR.pyIdx N ((S : ℕ) : ℤ) = S := by rw [npr_pyIdx, normIdx_nat]; omega
  have hfill : NpR.fillFromPy (List.replicate N sv) (((S + v.length : ℕ)) : ℤ) ev
      = List.replicate (S + v.length) sv ++ List.replicate (N - (S + v.length)) ev := by
    simp only [NpR.fillFromPy, List.length_replicate, h2, List.take_replicate, Nat.min_eq_left hle]
  rw [hfill]
  have hlen : (List.replicate (S + v.length) sv ++ List.replicate (N - (S + v.length)) ev).length = N := by
    simp only [List.length_append, List.length_replicate]; omega
  simp only [NpR.setSlicePyE, hlen, h2, h3, Nat.add_sub_cancel_left, if_true]
  congr 1
  rw [List.take_append_of_le_length (by simp), List.take_replicate, Nat.min_eq_left (by omega),
    List.drop_append_of_le_length (by simp), List.drop_replicate, Nat.sub_self]
  simp

/-- the same with `s_len = 0` spelled as the integer literal -/
theorem pad_store0 (N : ℕ) (sv ev : ℚ) (v : List ℚ) (hle : 0 + v.length ≤ N) :
    NpR.setSlicePyE (NpR.fillFromPy (List.replicate N sv) ((0 + v.length : ℕ) : ℤ) ev)
        (0 : ℤ) ((0 + v.length : ℕ) : ℤ) v
      = .ok (List.replicate 0 sv ++ v ++ List.replicate (N - (0 + v.length)) ev) := by
  have := pad_store N 0 sv ev v hle
  simpa using this

theorem pySlice_nat (l : List ℚ) (S F : ℕ) : NpR.pySlice l ((S : ℕ) : ℤ) ((F : ℕ) : ℤ) = Np.slice l S F := by
  simp only [NpR.pySlice, npr_pyIdx, normIdx_nat, Np.slice]
  rw [show List.take (min F l.length) l = List.take F l from by rw [List.take_eq_take_iff]; omega]
  by_cases h : S ≤ l.length
  · rw [Nat.min_eq_left h]
  · rw [Nat.min_eq_right (by omega), List.drop_of_length_le (by simp), List.drop_of_length_le (by simp; omega)]

theorem tdiv_two (a : ℕ) : Int.tdiv ((a : ℕ) : ℤ) (2 : ℤ) = ((a / 2 : ℕ) : ℤ) := by
  rw [Int.tdiv_eq_ediv_of_nonneg (by omega)]; omega

/-- **bridge** the Gibbs padding of `butter_pass` for a non-empty record: the padded array, the cut bounds and the array handed to
`reset_values` are the model's `butterPad`, `butterBookkeeping`, `butterPass` (`F` = `filtfilt(b, a, ·)`) -/
theorem gen_butter (F : List ℚ → List ℚ) (values : List ℚ) (hne : values ≠ []) (mode : GibbsMode) (ge gr : ℕ) :
    Gen.Mutators2.butterPad F ge gr values (genGibbs mode) = .ok (butterPad values mode ge gr) ∧
    Gen.Mutators2.butterBounds F ge gr values (genGibbs mode)
      = .ok (((butterBookkeeping values.length mode ge).2.1 : ℤ), ((butterBookkeeping values.length mode ge).2.2 : ℤ)) ∧
    Gen.Mutators2.butterPass F ge gr values (genGibbs mode) = .ok (butterPass F values mode ge gr) := by
  have hn : values.length ≠ 0 := fun h => hne (List.length_eq_zero_iff.mp h)
  have hN : values.length ≤ 2 ^ (ceilLog2 values.length + ge) :=
    calc values.length ≤ 2 ^ ceilLog2 values.length := le_two_pow_ceilLog2 _
      _ ≤ 2 ^ (ceilLog2 values.length + ge) := Nat.pow_le_pow_right (by norm_num) (by omega)
  have e1 : ((2 ^ (ceilLog2 values.length + ge) : ℕ) : ℤ) - ((values.length : ℕ) : ℤ)
      = ((2 ^ (ceilLog2 values.length + ge) - values.length : ℕ) : ℤ) := (Nat.cast_sub hN).symm
  cases hm : mode
  · refine ⟨rfl, ?_, ?_⟩
    · simp [Gen.Mutators2.butterBounds, genGibbs, butterBookkeeping, pure, Except.pure]
    · simp [Gen.Mutators2.butterPass, genGibbs, butterPass, butterBookkeeping, butterPad, pure, Except.pure]
  all_goals
    have hpad := butterPad_eq_append values mode ge gr (by simp [hm])
    have hb := bookkeeping_bounds values.length mode ge
    simp only [hm, butterBookkeeping] at hpad hb
    refine ⟨?_, ?_, ?_⟩
    all_goals
      simp only [Gen.Mutators2.butterPad, Gen.Mutators2.butterBounds, Gen.Mutators2.butterPass, genGibbs, npe_ceilLog2 _ hn, bind,
        Except.bind, pure, Except.pure, npr_mean, npr_pyFrom, take_eq_pyTo, e1, tdiv_two, ← Nat.cast_add, ones_mul_left, ones_mul_right]
      first
        | rw [pad_store0 _ _ _ _ hb.2]
        | rw [pad_store _ _ _ _ _ hb.2]
      simp only [butterPass, butterBookkeeping, hpad, pySlice_nat, Nat.cast_zero]
      try rfl

/-- for an EMPTY record the generated code raises (`int(np.ceil(np.log2(0)))`: `OverflowError` = `ErrKind.Other`) whenever padding is
requested; without padding it hands `F []` on -/
theorem gen_butter_empty (F : List ℚ → List ℚ) (m : Gen.Mutators2.GibbsMode) (hm : m ≠ .none) (ge gr : ℕ) :
    Gen.Mutators2.butterPass F ge gr [] m = .error .Other ∧ Gen.Mutators2.butterPad F ge gr [] m = .error .Other := by
  cases m
  · exact absurd rfl hm
  all_goals exact ⟨rfl, rfl⟩

/-- the keyword defaults read from the `kwargs.get` calls: `filter_order=4`, `gibbs_extra=1`, `gibbs_range=50` (`remove_gibbs=None`);
the string literals of `remove_gibbs` -/
theorem gen_butter_defaults : Gen.Mutators2.butterKwDefaults = (4, 1, 50) ∧
    Gen.Mutators2.GibbsMode.ofString "start" = genGibbs .start ∧ Gen.Mutators2.GibbsMode.ofString "end" = genGibbs .end ∧
    Gen.Mutators2.GibbsMode.ofString "mid" = genGibbs .mid := by decide

/-- **C17.a for the generated code** (`butter_bookkeeping`): for a non-empty record, every mode and `gibbs_extra`: the generated cut
bounds satisfy `f_len = s_len + n`, the padded array has length `new_len ≥ f_len`, and for every length-preserving external operator the
array handed to `reset_values` has exactly the length of the record -/
theorem gen_butter_bookkeeping (v : List ℚ) (hne : v ≠ []) (mode : GibbsMode) (ge gr : ℕ) (F : List ℚ → List ℚ)
    (hF : ∀ x, (F x).length = x.length) :
    ∃ (s f : ℕ) (pad out : List ℚ),
      Gen.Mutators2.butterBounds F ge gr v (genGibbs mode) = .ok ((s : ℤ), (f : ℤ)) ∧
      Gen.Mutators2.butterPad F ge gr v (genGibbs mode) = .ok pad ∧
      Gen.Mutators2.butterPass F ge gr v (genGibbs mode) = .ok out ∧
      f = s + v.length ∧ f ≤ pad.length ∧
      pad.length = (if mode = .none then v.length else 2 ^ (ceilLog2 v.length + ge)) ∧ out.length = v.length := by
  obtain ⟨h1, h2, h3⟩ := gen_butter F v hne mode ge gr
  obtain ⟨b1, b2, b3, b4, _, b6⟩ := butter_bookkeeping v mode ge gr F hF
  exact ⟨_, _, _, _, h2, h1, h3, b1, b3 ▸ b2, b3.trans b4, b6⟩

example : Gen.Mutators2.butterBounds id 1 2 [1, 2, 3, 4, (5 : ℚ)] .other = .ok (5, 10) ∧
    Gen.Mutators2.butterPass id 1 2 [1, 2, 3, 4, (5 : ℚ)] .other = .ok [1, 2, 3, 4, 5] ∧
    Gen.Mutators2.butterPad id 0 2 [1, 2, 3, 4, (5 : ℚ)] .«end» = .ok [3/2, 3/2, 3/2, 1, 2, 3, 4, 5] ∧
    Gen.Mutators2.butterPad id 0 2 [1, 2, 3, 4, (5 : ℚ)] .start = .ok [1, 2, 3, 4, 5, 9/2, 9/2, 9/2] ∧
    Gen.Mutators2.butterPass List.reverse 1 2 [1, 2, (3 : ℚ)] .none = .ok [3, 2, 1] := by decide +kernel

end EqsigVerif.Props.C17
