import EqsigVerif.Model.SpectraFns2
import EqsigVerif.Gen.SpecSlow
import EqsigVerif.Lemmas.SpectraFns2
import EqsigVerif.Lemmas.Duhamel
import Mathlib.Tactic.NormNum
/-!
# C03 — the loop of `single_elastic_response` IS the rectangular Duhamel sum (`eqsig/sdof.py`)

`single_elastic_response` runs `n` passes `disp[i:] += d_new_i` over `np.zeros(n)` (model `Model.SpectraFns2.duhamel`, tied to the
generated loop by `Props/C03GenSpec2b.lean::gen_single_elastic_response`). Here: entry `k` of the result is the defining sum
`duhamelSumAt k = Σ_{i ≤ k} p_i · E(k − i) · S(k − i)`, summed left to right from `0` — in exactly the order the loop performs
its additions, so the identity needs NO algebraic law: it holds over any carrier with `+`, `*`, `0` (in particular for the
`Float` instance, bit for bit), by induction over the passes of the loop.
-/
set_option linter.unusedSectionVars false
set_option linter.unusedVariables false
set_option linter.unusedSimpArgs false
namespace EqsigVerif.Props.C03
open EqsigVerif EqsigVerif.Model.SpectraFns2 EqsigVerif.Lemmas.Duhamel

section Raw
variable {α : Type} [Add α] [Mul α] [OfNat α 0]

/-- **`duhamel = duhamelSumAt`** (tw_spec2 NOTES item 10): the `n` passes `disp[i:] += p_i · E(0…) · S(0…)` of
`single_elastic_response` compute, entry by entry, the rectangular Duhamel sum `disp[k] = Σ_{i ≤ k} p_i · E(k − i) · S(k − i)`
(left-to-right from `0`). No algebraic law is used: the carrier only needs `+`, `*`, `0`, so this also holds for `Float`. -/
theorem duhamel_eq_sum (E S pAt : Nat → α) (n : Nat) :
    duhamel E S pAt n = (List.range n).map (duhamelSumAt E S pAt) := by
  rw [duhamel, duhamel_passes E S pAt n n (Nat.le_refl n)]
  apply List.map_congr_left
  intro k hk
  have hk' : k < n := List.mem_range.mp hk
  have e : min (k + 1) n = k + 1 := by omega
  simp only [duhamelPartialAt, duhamelSumAt, e]

example : duhamel (fun m => ([1, 1 / 2, 1 / 4, 1 / 8] : List ℚ).getD m 0) (fun m => ([0, 1, -1, 3] : List ℚ).getD m 0)
        (fun i => ([1, -2, 4, 8] : List ℚ).getD i 0) 4 =
      (List.range 4).map (duhamelSumAt (fun m => ([1, 1 / 2, 1 / 4, 1 / 8] : List ℚ).getD m 0)
        (fun m => ([0, 1, -1, 3] : List ℚ).getD m 0) (fun i => ([1, -2, 4, 8] : List ℚ).getD i 0)) ∧
    duhamel (fun m => ([1, 1 / 2, 1 / 4, 1 / 8] : List ℚ).getD m 0) (fun m => ([0, 1, -1, 3] : List ℚ).getD m 0)
        (fun i => ([1, -2, 4, 8] : List ℚ).getD i 0) 4 = [0, 1 / 2, -5 / 4, 23 / 8] :=
  ⟨duhamel_eq_sum _ _ _ _, by decide +kernel⟩

/-- the length and the entries of the result: `len(disp) = n`, `disp[k] = duhamelSumAt k` -/
theorem duhamel_getElem (E S pAt : Nat → α) (n k : Nat) (hk : k < n) :
    (duhamel E S pAt n).length = n ∧ (duhamel E S pAt n)[k]? = some (duhamelSumAt E S pAt k) := by
  rw [duhamel_eq_sum]
  simp [hk]

example : (duhamel (fun m => ([1, 1 / 2, 1 / 4, 1 / 8] : List ℚ).getD m 0) (fun m => ([0, 1, -1, 3] : List ℚ).getD m 0)
        (fun i => ([1, -2, 4, 8] : List ℚ).getD i 0) 4)[2]? = some ((-5 / 4 : ℚ)) ∧
    duhamelSumAt (fun m => ([1, 1 / 2, 1 / 4, 1 / 8] : List ℚ).getD m 0) (fun m => ([0, 1, -1, 3] : List ℚ).getD m 0)
        (fun i => ([1, -2, 4, 8] : List ℚ).getD i 0) 2 = (-5 / 4 : ℚ) := by
  decide +kernel

end Raw

section Field
variable {α : Type} [Field α]

/-- the generated `single_elastic_response` (`Gen/SpecSlow.lean`) is the rectangular Duhamel convolution: with
`ωₙ = 2π/T`, `ω_d = ωₙ·sqrt(1 − ξ²)`, entry `k` is `Σ_{i ≤ k} (motion[i]·step/ω_d) · exp(−ξωₙ·step·(k−i)) · sin(ω_d·step·(k−i))` -/
theorem gen_single_elastic_response_sum (pi : α) (sqrt exp sin : α → α) (motion : List α) (step period xi : α) :
    Gen.SpecSlow.singleElasticResponse pi sqrt exp sin motion step period xi =
      (List.range motion.length).map (duhamelSumAt (fun m => exp (-(xi * (2 * pi / period)) * (step * (m : α))))
        (fun m => sin (2 * pi / period * sqrt (1 - xi * xi) * (step * (m : α))))
        (fun i => motion.getD i 0 * step / (2 * pi / period * sqrt (1 - xi * xi)))) := by
  rw [← duhamel_eq_sum]
  simp only [Gen.SpecSlow.singleElasticResponse, duhamel]
  congr 1
  funext disp i
  simp only [Gen.SpecSlow.serStep, Gen.SpecSlow.serDNew, duhamelDNew, List.length_map, List.length_range, ← List.map_take,
    List.take_range, List.map_map]
  congr 2
  · congr 1; omega

example : Gen.SpecSlow.singleElasticResponse (3 : ℚ) (fun x => x) (fun x => 1 - x) (fun x => x) [1, -2, 4] (1 / 2) 2 0 =
    [0, 1 / 4, 0] ∧
    (List.range 3).map (duhamelSumAt (fun m => (1 : ℚ) - (-(0 * (2 * 3 / 2)) * (1 / 2 * (m : ℚ))))
        (fun m => 2 * 3 / 2 * (1 - 0 * 0) * (1 / 2 * (m : ℚ)))
        (fun i => ([1, -2, 4] : List ℚ).getD i 0 * (1 / 2) / (2 * 3 / 2 * (1 - 0 * 0)))) = [0, 1 / 4, 0] := by
  decide +kernel

end Field

end EqsigVerif.Props.C03
