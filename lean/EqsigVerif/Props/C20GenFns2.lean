import EqsigVerif.Model.Fns
import EqsigVerif.Model.DesignSpectra
import EqsigVerif.Gen.GenericFns2
import EqsigVerif.Lemmas.NpE
import EqsigVerif.Lemmas.Cplx
import EqsigVerif.Props.C20
import Mathlib.Algebra.Order.Ring.Rat
import Mathlib.Tactic.Ring
import Mathlib.Tactic.NormNum
import Mathlib.Tactic.SplitIfs
/-!
# C20 — translator tie: `interp_left`, `interp2d`, `calc_step_fn_vals_error`, `t_eff` REGENERATED from the source

`Gen/GenericFns2.lean` is regenerated on every run by `tools/py2lean_x_rest.py` from `eqsig/fns/generic.py`, `eqsig/fns/average.py`
and `eqsig/design_spectra.py`.  Bridges: generated = hand model (`Model/Fns.lean` over `ℚ`, `Model/DesignSpectra.lean` over any
number type) for ALL arguments, errors included.  The vectorised code of `interp2d` / `calc_step_fn_vals_error` is translated
entry-wise (one generic row), which is the shape of the hand models.
-/
set_option linter.unusedSectionVars false
set_option linter.unusedVariables false
set_option linter.unusedSimpArgs false
set_option linter.unusedTactic false
set_option linter.unreachableTactic false
namespace EqsigVerif.Props.C20
open EqsigVerif EqsigVerif.Cplx EqsigVerif.Wire

/-! ## prelude combinators of `Prelude/NpR.lean` = the model's helpers -/

theorem npr_pyGet {β : Type} (l : List β) (i : ℤ) : NpR.pyGetE l i = Model.Fns.pyGet l i := rfl

theorem npr_ssr (x : List ℚ) (q : ℚ) : NpR.searchsortedRight x q = Model.Fns.searchsortedRight x q := by
  induction x with
  | nil => rfl
  | cons a t ih =>
    simp only [NpR.searchsortedRight, Model.Fns.searchsortedRight, ih]

theorem npr_tril (v : List ℚ) (i : ℕ) : NpR.trilRow v i = Model.Fns.trilRow v i := rfl
theorem npr_triu (v : List ℚ) (i : ℕ) : NpR.triuRow v i = Model.Fns.triuRow v i := rfl

/-! ## `interp_left` -/

/-- **bridge** `interp_left(x0, x, y)` (array `x0`): generated = model for all arguments, errors included -/
theorem gen_interp_left (x0 x : List ℚ) (y : Option (List ℚ)) :
    Gen.GenericFns2.interpLeft x0 x y = Model.Fns.interpLeft x0 x y := by
  cases hm : Np.minL? x0 with
  | none =>
    cases y <;> simp only [Gen.GenericFns2.interpLeft, Model.Fns.interpLeft, Model.Fns.interpLeftInds, NpR.minE, hm, bind, Except.bind]
  | some m =>
    cases x with
    | nil =>
      cases y <;> simp only [Gen.GenericFns2.interpLeft, Model.Fns.interpLeft, Model.Fns.interpLeftInds, NpR.minE, hm, bind, Except.bind,
        NpE.getE, List.getElem?_nil]
    | cons a t =>
      by_cases hlt : m < a
      · have hle : ¬ a ≤ m := not_le.mpr hlt
        cases y <;> simp only [Gen.GenericFns2.interpLeft, Model.Fns.interpLeft, Model.Fns.interpLeftInds, NpR.minE, hm, bind, Except.bind,
          NpE.getE, List.getElem?_cons_zero, NpE.assertE, hlt, hle, decide_false, if_true, if_false, Bool.false_eq_true]
      · have hle : a ≤ m := not_lt.mp hlt
        cases y <;> simp only [Gen.GenericFns2.interpLeft, Model.Fns.interpLeft, Model.Fns.interpLeftInds, NpR.minE, hm, bind, Except.bind,
          NpE.getE, List.getElem?_cons_zero, NpE.assertE, hlt, hle, decide_true, if_true, if_false, NpR.takeE, npr_ssr, npr_pyGet,
          Model.Fns.interpLeftY] <;> rfl

/-- **bridge** `interp_left(x0, x, y)` (scalar `x0`, no `__len__`): generated = model for all arguments, errors included -/
theorem gen_interp_left_scalar (x0 : ℚ) (x : List ℚ) (y : Option (List ℚ)) :
    Gen.GenericFns2.interpLeftScalar x0 x y = Model.Fns.interpLeftScalar x0 x y := by
  have hg : ∀ v : List ℚ, NpE.getE v 0 = Model.Fns.pyGet v 0 := fun v => by cases v <;> rfl
  have h : Gen.GenericFns2.interpLeftScalar x0 x y = (Gen.GenericFns2.interpLeft [x0] x y >>= fun r => Model.Fns.pyGet r 0) := by
    cases y <;> simp only [Gen.GenericFns2.interpLeftScalar, Gen.GenericFns2.interpLeft, bind_assoc, pure_bind, hg]
  rw [h, gen_interp_left]; rfl

/-! ## `interp2d` -/

theorem tol_lit : (1e-10 : ℚ) = Model.Fns.tol := by unfold Model.Fns.tol; norm_num

/-- **bridge** one row of `interp2d` (everything the vectorised code does for one query): generated = model, errors included -/
theorem gen_interp2d_row (xf : List ℚ) (f : List (List ℚ)) (xq : ℚ) :
    Gen.GenericFns2.interp2dRow xf f xq = Model.Fns.interp2dRow xf f xq := by
  simp only [Gen.GenericFns2.interp2dRow, Model.Fns.interp2dRow, Model.Fns.lowIdx, Model.Fns.highIdx, Model.Fns.weight,
    Model.Fns.rowComb, Model.Fns.nearest, NpR.clipLo, NpR.clipHi, npr_pyGet, tol_lit, decide_eq_true_eq, gt_iff_lt, Nat.cast_ite,
    Nat.cast_add, Nat.cast_one]

/-- **bridge** `interp2d(x, xf, f)`: generated = model for all arguments, errors included -/
theorem gen_interp2d (x xf : List ℚ) (f : List (List ℚ)) :
    Gen.GenericFns2.interp2d x xf f = Model.Fns.interp2d x xf f := by
  have hrow : Gen.GenericFns2.interp2dRow xf f = Model.Fns.interp2dRow xf f := funext (gen_interp2d_row xf f)
  by_cases h : xf.length = 0 <;>
    simp only [Gen.GenericFns2.interp2d, Model.Fns.interp2d, NpR.guardE, h, decide_true, decide_false, if_true, if_false, bind,
      Except.bind, hrow, Bool.false_eq_true]

/-! ## `calc_step_fn_vals_error` -/

/-- the model's three directions as the generated inductive -/
def genDir : Model.Fns.Dir → Gen.GenericFns2.StepDir
  | .none => .other
  | .up => .up
  | .down => .down

/-- `err = np.ones_like(values); err[:-1] = R; err[-1] = L` for `len(R) = len(values) - 1 ≥ 0` is `R ++ [L]` -/
theorem raw_store (n : ℕ) (hn : n ≠ 0) (R : List ℚ) (hR : R.length = n - 1) (L : ℚ) :
    NpR.setLastE (NpE.setSlice (List.replicate n (1 : ℚ)) 0 ((List.replicate n (1 : ℚ)).length - 1) R) L = .ok (R ++ [L]) := by
  obtain ⟨k, rfl⟩ : ∃ k, n = k + 1 := ⟨n - 1, by omega⟩
  have h1 : NpE.setSlice (List.replicate (k + 1) (1 : ℚ)) 0 ((List.replicate (k + 1) (1 : ℚ)).length - 1) R = R ++ [1] := by
    simp [NpE.setSlice, List.replicate_succ']
  have h2 : (R ++ [(1 : ℚ)]).length ≠ 0 := by simp
  have h3 : (R ++ [(1 : ℚ)]).length - 1 = R.length := by simp
  rw [h1]
  simp only [NpR.setLastE, h2, if_false, h3, List.take_left']

theorem cast_sub_pre (n i : ℕ) (h : i + 1 ≤ n) : ((((n : ℕ) : ℤ) - (((i + 1) : ℕ) : ℤ) : ℤ) : ℚ) = ((n - (i + 1) : ℕ) : ℚ) := by
  push_cast [Nat.cast_sub h]; ring

theorem cast_sub_post (n i : ℕ) : ((((n : ℕ) : ℤ) - (((n - i) : ℕ) : ℤ) : ℤ) : ℚ) = ((n - (n - i) : ℕ) : ℚ) := by
  push_cast [Nat.cast_sub (Nat.sub_le n i)]; ring

/-- **bridge** `calc_step_fn_vals_error(values, pow, dir)`: generated = model for all arguments, errors included -/
theorem gen_step_err (values : List ℚ) (pow : ℕ) (dir : Model.Fns.Dir) :
    Gen.GenericFns2.stepErr values pow (genDir dir) = Model.Fns.stepErr values pow dir := by
  by_cases hn : values.length = 0
  · have : values = [] := List.length_eq_zero_iff.mp hn
    subst this
    cases dir <;> rfl
  · have hraw : ∀ G : ℕ → ℚ, ∀ L, NpR.setLastE (NpE.setSlice (List.replicate values.length (1 : ℚ)) 0
        ((List.replicate values.length (1 : ℚ)).length - 1) ((List.range (values.length - 1)).map G)) L
          = .ok ((List.range (values.length - 1)).map G ++ [L]) :=
      fun G L => raw_store values.length hn _ (by simp) L
    have key : ∀ (G : ℕ → ℚ) (L : ℚ),
        (∀ i, i + 1 < values.length → G i = Model.Fns.errPost values pow (i + 1) + Model.Fns.errPre values pow i) →
        L = Model.Fns.sumAbsPow values (Model.Fns.rsum values / (values.length : ℚ)) pow →
        (List.range (values.length - 1)).map G ++ [L] = Model.Fns.stepErrRaw values pow := by
      intro G L hG hL
      unfold Model.Fns.stepErrRaw
      rw [hL]
      congr 1
      apply List.map_congr_left
      intro i hi
      exact hG i (by have := List.mem_range.mp hi; omega)
    have hpre : ∀ i, Cplx.sumL (NpR.trilRow values i) / (((i + 1) : ℕ) : ℚ) = Model.Fns.preMean values i := fun i => by
      simp only [Model.Fns.preMean, Model.Fns.rsum, sumL_eq_sum, npr_tril]
    have hpost : ∀ i, Cplx.sumL (NpR.triuRow values i) / (((values.length - i) : ℕ) : ℚ) = Model.Fns.postMean values i := fun i => by
      simp only [Model.Fns.postMean, Model.Fns.rsum, sumL_eq_sum, npr_triu]
    cases dir
    all_goals
      simp only [genDir, Gen.GenericFns2.stepErr, Model.Fns.stepErr, hn, if_false, hraw, bind, Except.bind, pure, Except.pure,
        NpE.maxE, gt_iff_lt]
      rw [key]
      all_goals first
        | (intro i hi
           simp only [Model.Fns.errPost, Model.Fns.errPre, Model.Fns.sumAbsPow, Model.Fns.postMean, Model.Fns.preMean, Model.Fns.rsum,
             sumL_eq_sum, npr_tril, npr_triu, cast_sub_pre _ _ (Nat.le_of_lt hi), cast_sub_post]
           done)
        | (simp only [Model.Fns.sumAbsPow, Model.Fns.rsum, sumL_eq_sum, NpR.meanT]; done)
        | (cases Np.maxL? (Model.Fns.stepErrRaw values pow) <;> simp only [hpre, hpost]; done)

/-- the defaults `pow=1, dir=None` read from the signature -/
theorem gen_step_err_defaults : Gen.GenericFns2.stepErrDefaults = (1, genDir .none) := rfl

/-- the two string literals of `dir` -/
theorem gen_step_dir_strings : Gen.GenericFns2.StepDir.ofString "down" = genDir .down ∧ Gen.GenericFns2.StepDir.ofString "up" = genDir .up ∧
    Gen.GenericFns2.StepDir.ofString "sideways" = genDir .none := by decide

/-! ## `t_eff` -/

/-- the model's site classes as the generated inductive -/
def genClass : Model.DesignSpectra.SiteClass → Gen.GenericFns2.TEffClass
  | .C => .C
  | .D => .D
  | .E => .E

section TEff
variable {α : Type} [Add α] [Sub α] [Mul α] [Div α] [LT α] [DecidableLT α] [BEq α] [OfNat α 0] [OfNat α 2] [OfScientific α]

/-- **bridge** `t_eff(displacement, site_class, z_factor, r_factor, n_factor)`, class parsed: generated = model over ANY number type
(so also the `Float` twin), errors included, under the one hypothesis the model leaves implicit: the float division by `(2π)²`
does not raise (`(2 * pi) * (2 * pi) == 0` is false) -/
theorem gen_t_eff (pi d z r n : α) (c : Model.DesignSpectra.SiteClass) (hpi : ((((2 : α) * pi) * ((2 : α) * pi)) == 0) = false) :
    Gen.GenericFns2.tEff pi d (genClass c) z r n = Model.DesignSpectra.t_eff pi d c z r n := by
  cases c <;>
    simp only [genClass, Gen.GenericFns2.tEff, Model.DesignSpectra.t_eff, Model.DesignSpectra.d_c, Model.DesignSpectra.dcCoeff,
      Model.DesignSpectra.gravity, Model.DesignSpectra.t_c, NpR.pyDivE, NpR.guardE, hpi, bind, Except.bind, pure, Except.pure,
      Bool.false_eq_true, if_false] <;>
    split_ifs <;> simp_all

/-- **bridge** `t_eff` with the class as the Python string: the class test comes first; an unknown class raises `ValueError` -/
theorem gen_t_eff_str (pi d z r n : α) (s : String) (hpi : ((((2 : α) * pi) * ((2 : α) * pi)) == 0) = false) :
    Gen.GenericFns2.tEff pi d (Gen.GenericFns2.TEffClass.ofString s) z r n = Model.DesignSpectra.t_eff_str pi d s z r n := by
  unfold Model.DesignSpectra.t_eff_str Model.DesignSpectra.parseSiteClass Gen.GenericFns2.TEffClass.ofString
  split_ifs
  · exact gen_t_eff pi d z r n .C hpi
  · exact gen_t_eff pi d z r n .D hpi
  · exact gen_t_eff pi d z r n .E hpi
  · rfl

end TEff

/-! ## consequences: C20 clauses about the generated code -/
open Model.Fns Spec.Fns in
/-- **C20.b for the generated code** (array form): `AssertionError` iff some query lies below the first node; otherwise every query
gets `y[j]` (or `j`) at the greatest node index `j` with `x[j] ≤ q` -/
theorem gen_interp_left_spec (x0s x : List ℚ) (y : Option (List ℚ)) (hx0 : x0s ≠ []) (hx : x ≠ [])
    (hs : x.Pairwise (· ≤ ·)) (hy : ∀ yv, y = some yv → x.length ≤ yv.length) :
    (Gen.GenericFns2.interpLeft x0s x y = .error .AssertionError ↔ ∃ q ∈ x0s, q < x.head hx) ∧
    ((∀ q ∈ x0s, x.head hx ≤ q) → ∃ r, Gen.GenericFns2.interpLeft x0s x y = .ok r ∧
      List.Forall₂ (fun q v => ∃ j, IsLeftNode x q j ∧ leftVal y j v) x0s r) := by
  rw [gen_interp_left]; exact interp_left_spec x0s x y hx0 hx hs hy

open Model.Fns Spec.Fns in
/-- **C20.b for the generated code** (scalar form) -/
theorem gen_interp_left_scalar_spec (q : ℚ) (x : List ℚ) (y : Option (List ℚ)) (hx : x ≠ [])
    (hs : x.Pairwise (· ≤ ·)) (hy : ∀ yv, y = some yv → x.length ≤ yv.length) :
    (Gen.GenericFns2.interpLeftScalar q x y = .error .AssertionError ↔ q < x.head hx) ∧
    (x.head hx ≤ q → ∃ v, Gen.GenericFns2.interpLeftScalar q x y = .ok v ∧ ∃ j, IsLeftNode x q j ∧ leftVal y j v) := by
  rw [gen_interp_left_scalar]; exact interp_left_scalar_spec q x y hx hs hy

open Model.Fns Spec.Fns in
/-- **C20.a for the generated code**: clamped column-wise linear interpolation of the table for strictly increasing nodes -/
theorem gen_interp2d_spec (x xf : List ℚ) (f : List (List ℚ)) (w : ℕ) (hne : xf ≠ []) (hg : GapNodes xf)
    (hf : xf.length ≤ f.length) (hw : ∀ r ∈ f, r.length = w) :
    ∃ rows, Gen.GenericFns2.interp2d x xf f = .ok rows ∧
      List.Forall₂ (fun q R =>
        IsClampedLerp xf f hf q R ∧
        (∀ h0 : 0 < xf.length, q ≤ xf[0] → R = f[0]'(by omega)) ∧
        (∀ h0 : 0 < xf.length, xf[xf.length - 1] ≤ q → R = f[xf.length - 1]'(by omega)) ∧
        (∀ i (hi : i + 1 < xf.length), xf[i] ≤ q → q ≤ xf[i+1] →
          R = lerpRow ((q - xf[i]) / (xf[i+1] - xf[i])) (f[i]'(by omega)) (f[i+1]'(by omega)))) x rows := by
  rw [gen_interp2d]; exact interp2d_spec x xf f w hne hg hf hw

/-- the generated `interp2d` with an empty node array raises `ValueError` for every `x`, `f` -/
theorem gen_interp2d_raises_empty_nodes (x : List ℚ) (f : List (List ℚ)) :
    Gen.GenericFns2.interp2d x [] f = .error .ValueError := by
  rw [gen_interp2d]; exact interp2d_raises_empty_nodes x f

open Model.Fns Spec.Fns in
/-- **C20.d for the generated code**: entry `k` of the error array is `Σ_{i≤k} |vᵢ − μ_pre|ᵖ + Σ_{i>k} |vᵢ − μ_post|ᵖ` -/
theorem gen_step_err_spec (values : List ℚ) (hne : values ≠ []) (p : ℕ) :
    Gen.GenericFns2.stepErr values p .other = .ok ((List.range values.length).map (stepFitErr values p)) := by
  have := gen_step_err values p .none
  rw [genDir] at this
  rw [this]; exact step_err_spec values hne p

open Model.Fns in
/-- the generated `calc_step_fn_vals_error` raises (`IndexError`) iff the series is empty; otherwise the length is kept -/
theorem gen_step_err_raises (values : List ℚ) (p : ℕ) (d : Dir) :
    (Gen.GenericFns2.stepErr values p (genDir d) = .error .IndexError ↔ values = []) ∧
    (values ≠ [] → ∃ r, Gen.GenericFns2.stepErr values p (genDir d) = .ok r ∧ r.length = values.length) := by
  rw [gen_step_err]; exact step_err_raises values p d

theorem real_two_pi_sq : ((((2 : ℝ) * Real.pi) * ((2 : ℝ) * Real.pi)) == 0) = false := by
  simp [Real.pi_ne_zero]

open Model.DesignSpectra in
/-- **C20.f for the generated code**: below or at the corner displacement (and `Z·R·N ≠ 0`) the generated `t_eff` is `d ↦ 3·d / d_c` -/
theorem gen_t_eff_linear {d : ℝ} (c : SiteClass) {Z R N : ℝ} (hZRN : Z * R * N ≠ 0) (hd : d ≤ d_c Real.pi c Z R N) :
    Gen.GenericFns2.tEff Real.pi d (genClass c) Z R N = .ok (3 * d / d_c Real.pi c Z R N) := by
  rw [gen_t_eff _ _ _ _ _ _ real_two_pi_sq]; exact t_eff_linear c hZRN hd

open Model.DesignSpectra in
/-- **C20.f for the generated code**: `ValueError` exactly above the corner displacement; `ZeroDivisionError` iff `Z·R·N = 0 ∧ d ≤ 0` -/
theorem gen_t_eff_valueError_iff_gt (d : ℝ) (c : SiteClass) (Z R N : ℝ) :
    (Gen.GenericFns2.tEff Real.pi d (genClass c) Z R N = .error .ValueError ↔ d > d_c Real.pi c Z R N) ∧
    (Gen.GenericFns2.tEff Real.pi d (genClass c) Z R N = .error .ZeroDivisionError ↔ Z * R * N = 0 ∧ d ≤ 0) := by
  rw [gen_t_eff _ _ _ _ _ _ real_two_pi_sq]; exact t_eff_valueError_iff_gt d c Z R N

/-! ## concrete runs of the generated definitions (kernel) -/
example : Gen.GenericFns2.interpLeft [1, 5/2, 2, 7] [1, 2, 2, (3 : ℚ)] (some [5, 6, 7, 8]) = .ok [5, 7, 7, 8] ∧
    Gen.GenericFns2.interpLeft [1, 5/2, 2, 7] [1, 2, 2, (3 : ℚ)] none = .ok [0, 2, 2, 3] ∧
    Gen.GenericFns2.interpLeft [1, 1/2] [1, 2, 2, (3 : ℚ)] none = .error .AssertionError ∧
    Gen.GenericFns2.interpLeft [] [1, (2 : ℚ)] none = .error .ValueError ∧
    Gen.GenericFns2.interpLeft [(1 : ℚ)] [] none = .error .IndexError ∧
    Gen.GenericFns2.interpLeft [(5 : ℚ)] [1, 2, 3] (some [7]) = .error .IndexError := by decide +kernel
example : Gen.GenericFns2.interpLeftScalar (5/2) [1, 2, 2, (3 : ℚ)] (some [5, 6, 7, 8]) = .ok 7 ∧
    Gen.GenericFns2.interpLeftScalar (5/2) [1, 2, 2, (3 : ℚ)] none = .ok 2 ∧
    Gen.GenericFns2.interpLeftScalar (1/2) [1, 2, 2, (3 : ℚ)] none = .error .AssertionError := by decide +kernel
example : Gen.GenericFns2.interp2d [1/2, 1, 11/5, 5/2, -1, 7, 3/2] [0, 1, 2, (3 : ℚ)] [[0, 0, 0], [0, 1, 4], [2, 6, 2], [10, 10, 10]]
    = .ok [[0, 1/2, 2], [0, 1, 4], [18/5, 34/5, 18/5], [6, 8, 6], [0, 0, 0], [10, 10, 10], [1, 7/2, 3]] := by
  decide +kernel
example : Gen.GenericFns2.interp2dRow [0, 1, 2, (3 : ℚ)] [[0, 0, 0], [0, 1, 4]] (5/2) = .error .IndexError ∧
    Gen.GenericFns2.interp2d [] [] ([] : List (List ℚ)) = .error .ValueError := by decide +kernel
example : Gen.GenericFns2.stepErr [-1, -2, -3, 4, 5, (6 : ℚ)] 1 .other = .ok [18, 13, 4, 10, 78/5, 21] ∧
    Gen.GenericFns2.stepErr [-1, -2, -3, 4, 5, (6 : ℚ)] 3 .other = .ok [288, 1009/4, 4, 221/2, 24102/125, 1197/4] ∧
    Gen.GenericFns2.stepErr [-1, -2, -3, 4, 5, (6 : ℚ)] 1 .down = .ok [210, 210, 210, 210, 210, 210] ∧
    Gen.GenericFns2.stepErr [6, 5, 4, -3, 7, (-1 : ℚ)] 1 .down = .ok [88/5, 16, 14, 20, 68/5, 20] ∧
    Gen.GenericFns2.stepErr [6, 5, 4, -3, 7, (-1 : ℚ)] 1 .up = .ok [200, 200, 200, 200, 200, 200] ∧
    Gen.GenericFns2.stepErr ([] : List ℚ) 2 .up = .error .IndexError := by decide +kernel
example : Gen.GenericFns2.tEff (3 : ℚ) 1 .C 1 1 1 = .ok (3 / (3.96 / 36 * 9.81)) ∧
    Gen.GenericFns2.tEff (3 : ℚ) 10 .D 1 1 1 = .error .ValueError ∧
    Gen.GenericFns2.tEff (3 : ℚ) 0 .E 0 1 1 = .error .ZeroDivisionError ∧
    Gen.GenericFns2.tEff (0 : ℚ) 1 .E 1 1 1 = .error .ZeroDivisionError ∧
    Gen.GenericFns2.tEff (3 : ℚ) 1 (Gen.GenericFns2.TEffClass.ofString "F") 1 1 1 = .error .ValueError := by decide +kernel

end EqsigVerif.Props.C20
