import EqsigVerif.Gen.StockwellFns2
import EqsigVerif.Props.C15Gen
/-!
# C15 — translator tie: `transform_slow`, `dep_itransform` of `eqsig/stockwell.py` REGENERATED from the source

`Gen/StockwellFns2.lean` (plug-in `tools/py2lean_x_rest2.py::gen_stockwell2`).  `transform_slow` shares its statements up to the Toeplitz rows with
`transform` (checked by the translator, same generated text); it then transforms only the rows `[:-ith]` and leaves the others zero.
**Observed and proved: with the default `ith=0` the slice `[:-0]` is EMPTY, so `transform_slow(acc)` returns an all-zero array — it is NOT `transform(acc)`.**
-/
set_option linter.unusedSectionVars false
set_option linter.unusedVariables false
set_option linter.unusedSimpArgs false
namespace EqsigVerif.Props.C15
open EqsigVerif EqsigVerif.Cplx EqsigVerif.Wire EqsigVerif.Model.Stockwell

/-- records shorter than 2 samples: `transform_slow` raises the same `ValueError` (FFT with `n = 0`) as `transform`, for every `ith` -/
theorem gen_transformSlow_error (tw : ℕ → ℕ → ℂ) (exp : ℝ → ℝ) (pi : ℝ) (acc : List ℂ) (ith : ℤ) (h : 2 * (acc.length / 2) = 0) :
    Gen.StockwellFns2.transformSlow tw exp pi acc ith = .error .ValueError ∧ transform tw exp pi acc = .error .ValueError := by
  unfold Gen.StockwellFns2.transformSlow transform
  simp [NpE.fft, h, bind, Except.bind]

example : Gen.StockwellFns2.transformSlow (fun _ _ => (1 : ℂ)) (fun x : ℝ => x) 3 [1] 0 = .error .ValueError :=
  (gen_transformSlow_error _ _ _ _ _ (by decide)).1

/-- **the default `ith = 0` transforms nothing** (`aa[:-0]` is `aa[:0]`): for every record with at least two samples `transform_slow(acc)` returns an
array with one row per harmonic whose entries are ALL ZERO (the rows of `np.zeros_like(aa)`), whatever the record -/
theorem gen_transformSlow_default_zero (tw : ℕ → ℕ → ℂ) (exp : ℝ → ℝ) (pi : ℝ) (acc : List ℂ) (h : 2 * (acc.length / 2) ≠ 0) :
    ∃ rows, Gen.StockwellFns2.transformSlow tw exp pi acc Gen.StockwellFns2.transformSlowIthDefault = .ok rows ∧
      (∀ row ∈ rows, ∀ z ∈ row, z = 0) := by
  unfold Gen.StockwellFns2.transformSlow Gen.StockwellFns2.transformSlowIthDefault
  have hp : ∀ n : ℕ, NpR.pyIdx n (-(0 : ℤ)) = 0 := by intro n; simp [NpR.pyIdx]
  have hp0 : ∀ n : ℕ, NpR.pyIdx n (0 : ℤ) = 0 := by intro n; simp [NpR.pyIdx]
  simp only [NpE.fft, h, if_false, bind, Except.bind, NpR.pyTo, hp, List.take_zero, NpR.ifftRowsE, List.mapM_nil, pure, Except.pure,
    NpR.setSlicePyE, hp0, List.length_nil, Nat.sub_self, if_true, List.nil_append, List.drop_zero, NpE.flip]
  refine ⟨_, rfl, ?_⟩
  intro row hrow z hz
  rw [List.mem_reverse, Nat.add_zero, List.drop_zero, List.mem_map] at hrow
  obtain ⟨r, _, rfl⟩ := hrow
  rw [List.mem_map] at hz
  obtain ⟨_, _, rfl⟩ := hz
  rfl

example : ∃ rows, Gen.StockwellFns2.transformSlow (fun _ _ => (1 : ℂ)) (fun x : ℝ => x) 3 [1, 2, 3, 4] 0 = .ok rows ∧ ∀ row ∈ rows, ∀ z ∈ row, z = 0 := by
  obtain ⟨rows, h1, h2⟩ := gen_transformSlow_default_zero (fun _ _ => (1 : ℂ)) (fun x : ℝ => x) 3 [1, 2, 3, 4] (by decide)
  exact ⟨rows, h1, h2⟩

/-- the default `ith=0` and the literal `skip_is = 0` (no low-frequency row is skipped) -/
theorem gen_transformSlow_ith_default : Gen.StockwellFns2.transformSlowIthDefault = 0 ∧ Gen.StockwellFns2.transformSlowSkip = 0 := ⟨rfl, rfl⟩

/-- **`dep_itransform(stock)`**: the inverse DFT of the row sums at THEIR length `len(stock)` (real parts) — `ValueError` for an array without rows;
`itransform` instead rebuilds a Hermitian spectrum of length `2·len(stock)` from the same row sums (`Model.Stockwell.itransform`) -/
theorem gen_depItransform (tw : ℕ → ℕ → ℂ) (stock : List (List ℂ)) :
    Gen.StockwellFns2.depItransform (α := ℝ) tw stock =
      if stock.length = 0 then .error .ValueError else .ok ((idft (α := ℝ) tw (stock.map sumL) stock.length).map CxLike.re) := by
  unfold Gen.StockwellFns2.depItransform
  simp only [NpE.ifft, List.length_map]
  split_ifs <;> rfl

example : Gen.StockwellFns2.depItransform (α := ℝ) (fun _ _ => (1 : ℂ)) [] = .error .ValueError := by
  rw [gen_depItransform]; rfl

end EqsigVerif.Props.C15
