import EqsigVerif.Model.Single2
import EqsigVerif.Lemmas.Single2
/-!
# C08 (object level) — what the residual-removing mutators of `AccSignal` achieve, in terms of the C08 model

`velocity dt a` / `displacement dt a` are the cumulative-trapezoid series of `Model/Displacements.lean` (`trap=True`); "final" = last
sample.  `n = len(values)`, `T = (n - 1)·dt` (`self.time[-1]`).  All statements are exact over `ℚ`.

Summary (details at the theorems; concrete inputs in the `example`s):
* `rebase_displacement`: `values ↦ values − 2D/(dt·n)`; the final displacement becomes `D·(1 − (n−1)²·dt/n)` — NOT zero in general
  (the docstring says "make the displacement zero at the end"): `rebase_not_zero`.
* `set_zero_residual_displacement()`: `values ↦ values − 2D/T²`; final displacement exactly `0` (`n ≥ 2`, `dt ≠ 0`).
* `set_zero_residual_velocity`: `values[si:ei] −= V/dt/nsteps`; the final velocity becomes `V·(1 − w/nsteps)`, `w` = number of window
  samples, the first / last sample of the record counting half.  Exactly `0` for an interior window `(t0, t1)` (`1 ≤ si < ei ≤ n−1`);
  with the default `timezone=None` it is `V/(2·nsteps)` (`nsteps < n`) or `V·(nsteps−n+1)/nsteps` (`nsteps ≥ n`): never `0` unless `V = 0`.
* `set_zero_residual_displacement_and_velocity()`: `values ↦ values − (2a + 6b·t)`; final velocity exactly `0`, final displacement
  `(2D − V·T)·dt²/(2T²)` (the second trapezoid stage is not exact for a quadratic velocity).
-/
set_option linter.unusedSectionVars false
set_option linter.unusedVariables false
set_option linter.unusedSimpArgs false
namespace EqsigVerif.Props.C08
open EqsigVerif EqsigVerif.Wire EqsigVerif.Np EqsigVerif.NpS EqsigVerif.Model.Im EqsigVerif.Model.Displacements
open EqsigVerif.Model.Single2 EqsigVerif.Lemmas.Single2

/-! ## `rebase_displacement` -/

/-- **rebase_displacement** = `values ↦ values − 2·D/(dt·n)` with `D` the final displacement (non-empty record, `dt ≠ 0`); the
length is unchanged.  (Empty record: `ValueError`; `dt = 0`: a `nan` record, tag `ZeroDivisionError`.) -/
theorem rebase_spec (values : List ℚ) (dt : ℚ) (hne : values ≠ []) (hdt : dt ≠ 0) :
    ∃ D, (displacement dt values).getLast? = some D ∧
      rebaseDisplacement values dt = .ok (values.map (· - 2 * D / (dt * (values.length : ℚ)))) ∧
      rebaseDisplacement [] dt = .error .ValueError ∧
      rebaseDisplacement values 0 = .error .ZeroDivisionError := by
  obtain ⟨D, hD⟩ := displacement_getLast_isSome dt values hne
  obtain ⟨D0, hD0⟩ := displacement_getLast_isSome 0 values hne
  have hn : (values.length : ℚ) ≠ 0 := by
    have := List.length_pos_iff.mpr hne
    positivity
  have hl : 0 < values.length := List.length_pos_iff.mpr hne
  have hD' : (veloDispTrap values dt).2.getLast? = some D := hD
  have hD0' : (veloDispTrap values 0).2.getLast? = some D0 := hD0
  refine ⟨D, hD, ?_, rfl, ?_⟩
  · simp only [rebaseDisplacement, veloDispE_ne values dt hne, bind, Except.bind, lastE_eq _ D hD', rebaseCorrection, fmul_some,
      fdiv_some _ _ (mul_ne_zero hdt hn), isubScalarE_all]
  · simp only [rebaseDisplacement, veloDispE_ne values 0 hne, bind, Except.bind, lastE_eq _ D0 hD0', rebaseCorrection, fmul_some,
      zero_mul, fdiv_zero]
    simp [isubScalarE, loIdx, hiIdx, Nat.not_le.mpr hl]

example : rebaseDisplacement [1, 1, 1] 1 = .ok [-1/3, -1/3, -1/3] ∧ (displacement 1 [1, 1, (1 : ℚ)]).getLast? = some 2 := by
  decide +kernel

/-- **what `rebase_displacement` achieves**: the final displacement of the new record is `D·(1 − (n−1)²·dt/n)`; the final velocity is
`V − 2·D·(n−1)/n`. -/
theorem rebase_final (values : List ℚ) (dt : ℚ) (hne : values ≠ []) (hdt : dt ≠ 0) :
    ∃ V D new, (velocity dt values).getLast? = some V ∧ (displacement dt values).getLast? = some D ∧
      rebaseDisplacement values dt = .ok new ∧ new.length = values.length ∧
      (displacement dt new).getLast? = some (D * (1 - ((values.length - 1 : ℕ) : ℚ) ^ 2 * dt / (values.length : ℚ))) ∧
      (velocity dt new).getLast? = some (V - 2 * D * ((values.length - 1 : ℕ) : ℚ) / (values.length : ℚ)) := by
  obtain ⟨D, hD, hr, _, _⟩ := rebase_spec values dt hne hdt
  have hV := velocity_getLast dt values hne
  have hn : (values.length : ℚ) ≠ 0 := by
    have := List.length_pos_iff.mpr hne
    positivity
  obtain ⟨h1, h2⟩ := final_after_const values dt (2 * D / (dt * (values.length : ℚ))) _ D hne hV hD
  refine ⟨_, D, _, hV, hD, hr, by simp, ?_, ?_⟩
  · rw [h2]; congr 1; field_simp
  · rw [h1]; congr 1; field_simp

/-- the displacement is NOT rebased to zero in general: `[1, 1, 1]`, `dt = 1` (final displacement `2`) gives the final displacement
`−2/3` (it is zero iff `D = 0` or `(n−1)²·dt = n`) -/
theorem rebase_not_zero :
    rebaseDisplacement [1, 1, 1] 1 = .ok [-1/3, -1/3, -1/3] ∧
    (displacement 1 [-1/3, -1/3, (-1/3 : ℚ)]).getLast? = some (-2/3) := by decide +kernel

example := rebase_final [1, 2, 4, -1] (1/2) (by simp) (by norm_num)

/-! ## `set_zero_residual_displacement` -/

/-- **set_zero_residual_displacement()** (`timezone=None`, `n ≥ 2`, `dt ≠ 0`) = `values ↦ values − 2·D/T²`; the new record has the same
length and its final displacement is **exactly 0**; its final velocity is `V − 2·D/T`.  Any `timezone` raises `ValueError`; a
one-sample record or `dt = 0` gives a `nan` record (tag `ZeroDivisionError`); the empty record raises `IndexError` (`self.time[-1]`). -/
theorem zero_disp_spec (values : List ℚ) (dt : ℚ) (hn : 2 ≤ values.length) (hdt : dt ≠ 0) :
    ∃ V D new, (velocity dt values).getLast? = some V ∧ (displacement dt values).getLast? = some D ∧
      setZeroResidualDisplacement values dt none = .ok new ∧
      new = values.map (· - 2 * D / ((((values.length - 1 : ℕ) : ℚ) * dt) ^ 2)) ∧ new.length = values.length ∧
      (displacement dt new).getLast? = some 0 ∧
      (velocity dt new).getLast? = some (V - 2 * D / (((values.length - 1 : ℕ) : ℚ) * dt)) := by
  have hne : values ≠ [] := by intro h; simp [h] at hn
  obtain ⟨D, hD⟩ := displacement_getLast_isSome dt values hne
  have hV := velocity_getLast dt values hne
  have hT : (((values.length - 1 : ℕ) : ℚ) * dt) ≠ 0 := by
    refine mul_ne_zero ?_ hdt
    have : 0 < values.length - 1 := by omega
    positivity
  have hN : ((values.length - 1 : ℕ) : ℚ) ≠ 0 := by
    have : 0 < values.length - 1 := by omega
    positivity
  have hD' : (veloDispTrap values dt).2.getLast? = some D := hD
  obtain ⟨h1, h2⟩ := final_after_const values dt (2 * D / ((((values.length - 1 : ℕ) : ℚ) * dt) ^ 2)) _ D hne hV hD
  refine ⟨_, D, _, hV, hD, ?_, rfl, by simp, ?_, ?_⟩
  · simp only [setZeroResidualDisplacement, lastE_eq _ _ (timeArr_getLast values.length (by omega) dt), veloDispE_ne values dt hne, bind,
      Except.bind, lastE_eq _ D hD', dispDelta, fmul_some, fdiv_some _ _ (pow_ne_zero 2 hT), isubScalarE_all]
    congr 2; funext x; ring
  · rw [h2]; congr 1; field_simp; ring
  · rw [h1]; congr 1; field_simp

theorem zero_disp_errors (values : List ℚ) (dt : ℚ) (tz : ℚ × Option ℚ) (x : ℚ) :
    setZeroResidualDisplacement values dt (some tz) = .error .ValueError ∧
    setZeroResidualDisplacement [] dt none = .error .IndexError ∧
    setZeroResidualDisplacement [x] dt none = .error .ZeroDivisionError := by
  refine ⟨rfl, rfl, ?_⟩
  simp [setZeroResidualDisplacement, timeArr, NpS.lastE, NpE.lastE, veloDispE, bind, Except.bind, dispDelta, veloDispTrap,
    Np.cumtrapz, Np.cumtrapzFrom, isubScalarE, loIdx, hiIdx]

example : setZeroResidualDisplacement [0, 1, 0, 0, 2, 1, 0, 0] (1/2) none
      = .ok [-4/7, 3/7, -4/7, -4/7, 10/7, 3/7, -4/7, -4/7] ∧
    (displacement (1/2) [-4/7, 3/7, -4/7, -4/7, 10/7, 3/7, -4/7, (-4/7 : ℚ)]).getLast? = some 0 := by decide +kernel

/-! ## `set_zero_residual_velocity` -/

/-- **set_zero_residual_velocity, every branch** (`zeroVelWith` is the common end of the three branches: `vals[si:ei] −= V/dt/nsteps`):
for a non-empty slice `[l, h)`, `dt ≠ 0`, `nsteps ≠ 0` the new record has the same length and its final velocity is
`V₀ − (V/nsteps)·(h − l − [l = 0]/2 − [h = n]/2)` (`V₀` the old final velocity, `V` the `post_vel` used). -/
theorem zero_vel_window (values : List ℚ) (dt V : ℚ) (si ei : Option ℤ) (nsteps : ℤ) (hdt : dt ≠ 0) (hns : nsteps ≠ 0)
    (hlh : loIdx values.length si < hiIdx values.length ei) :
    ∃ new, zeroVelWith values dt V si ei nsteps = .ok new ∧ new.length = values.length ∧
      (velocity dt new).getLast? = some (trapz dt values - V / (nsteps : ℚ) *
        (((hiIdx values.length ei - loIdx values.length si : ℕ) : ℚ)
          - (if loIdx values.length si = 0 then 1/2 else 0) - (if hiIdx values.length ei = values.length then 1/2 else 0))) := by
  have hz : zeroVelWith values dt V si ei nsteps = .ok (values.take (loIdx values.length si)
      ++ ((values.take (hiIdx values.length ei)).drop (loIdx values.length si)).map (· - V / dt / (nsteps : ℚ))
      ++ values.drop (hiIdx values.length ei)) := by
    have hnsq : (nsteps : ℚ) ≠ 0 := by exact_mod_cast hns
    simp only [zeroVelWith, velDelta, fdiv_some _ _ hdt, fdiv_some _ _ hnsq]
    exact isubScalarE_some values si ei _ hlh
  have hle : hiIdx values.length ei ≤ values.length := hiIdx_le _ _
  generalize loIdx values.length si = l at hlh hz ⊢
  generalize hiIdx values.length ei = h at hlh hz hle ⊢
  have hnsq : (nsteps : ℚ) ≠ 0 := by exact_mod_cast hns
  have hB : (values.take h).drop l ≠ [] := by
    intro h0
    have := congrArg List.length h0
    rw [List.length_drop, List.length_take, List.length_nil] at this; omega
  have hBl : ((values.take h).drop l).length = h - l := by rw [List.length_drop, List.length_take]; omega
  have hA : (values.take l = []) ↔ l = 0 := by
    constructor
    · intro h0; have := congrArg List.length h0; rw [List.length_take, List.length_nil] at this; omega
    · intro h0; simp [h0]
  have hC : (values.drop h = []) ↔ h = values.length := by
    constructor
    · intro h0; have := congrArg List.length h0; rw [List.length_drop, List.length_nil] at this; omega
    · intro h0; simp [h0]
  refine ⟨_, hz, ?_, ?_⟩
  · have := congrArg List.length (split3 values l h hlh.le)
    simpa using this
  · have hne : values.take l ++ ((values.take h).drop l).map (· - V / dt / (nsteps : ℚ)) ++ values.drop h ≠ [] := by
      intro h0
      have := congrArg List.length h0
      simp only [List.length_append, List.length_map, List.length_nil, hBl] at this
      omega
    rw [velocity_getLast dt _ hne, trapz_window dt _ _ _ _ hB, split3 values l h hlh.le, hBl]
    simp only [hA, hC]
    congr 1
    field_simp

example := zero_vel_window [0, 1, 0, 0, 2, 1, 0, 0] (1/2) 2 (some 2) (some 6) 4 (by norm_num) (by norm_num) (by decide)
example : zeroVelWith [0, 1, 0, 0, 2, 1, 0, 0] (1/2) 2 (some 2) (some 6) 4 = .ok [0, 1, -1, -1, 1, 0, 0, 0] := by decide +kernel

/-- **interior window ⇒ exactly zero**: `set_zero_residual_velocity(timezone=(t0, t1))` with `1 ≤ si < ei ≤ n − 1`
(`si = int(t0/dt)`, `ei = int(t1/dt)`): the final velocity of the new record is **exactly 0**. -/
theorem zero_vel_interior (values : List ℚ) (dt t0 t1 : ℚ) (hdt : dt ≠ 0) (si ei : ℕ)
    (hsi : truncZ (t0 / dt) = (si : ℤ)) (hei : truncZ (t1 / dt) = (ei : ℤ)) (h1 : 1 ≤ si) (h2 : si < ei) (h3 : ei + 1 ≤ values.length) :
    ∃ new, setZeroResidualVelocity values dt (some (t0, some t1)) = .ok new ∧ new.length = values.length ∧
      (velocity dt new).getLast? = some 0 := by
  have hne : values ≠ [] := by intro h; simp [h] at h3
  have hV := velocity_getLast dt values hne
  have hV' : (veloDispTrap values dt).1.getLast? = some (trapz dt values) := hV
  have hlo : loIdx values.length (some (si : ℤ)) = si := by
    have : ¬ ((si : ℤ) < 0) := by omega
    simp only [loIdx, NpR.pyIdx, this, if_false, Int.toNat_natCast]; omega
  have hhi : hiIdx values.length (some (ei : ℤ)) = ei := by
    have : ¬ ((ei : ℤ) < 0) := by omega
    simp only [hiIdx, NpR.pyIdx, this, if_false, Int.toNat_natCast]; omega
  have hns : ((ei : ℤ) - (si : ℤ)) ≠ 0 := by omega
  obtain ⟨new, hnew, hlen, hfin⟩ := zero_vel_window values dt (trapz dt values) (some (si : ℤ)) (some (ei : ℤ)) ((ei : ℤ) - (si : ℤ)) hdt hns
    (by rw [hlo, hhi]; exact h2)
  refine ⟨new, ?_, hlen, ?_⟩
  · simp only [setZeroResidualVelocity, veloDispE_ne values dt hne, bind, Except.bind, lastE_eq _ _ hV', intPyDivE, hdt, if_false, hsi, hei]
    exact hnew
  · rw [hfin, hlo, hhi]
    have e1 : si ≠ 0 := by omega
    have e2 : ei ≠ values.length := by omega
    have hq : (((ei : ℤ) - (si : ℤ) : ℤ) : ℚ) = ((ei - si : ℕ) : ℚ) := by
      rw [Nat.cast_sub (by omega)]; push_cast; ring
    have hpos : ((ei - si : ℕ) : ℚ) ≠ 0 := by
      have : 0 < ei - si := by omega
      positivity
    simp only [e1, e2, if_false, sub_zero, hq]
    congr 1
    field_simp
    ring

example : setZeroResidualVelocity [0, 1, 0, 0, 2, 1, 0, 0] (1/2) (some (1, some 3)) = .ok [0, 1, -1, -1, 1, 0, 0, 0] ∧
    (velocity (1/2) [0, 1, -1, -1, 1, 0, 0, (0 : ℚ)]).getLast? = some 0 := by decide +kernel

/-- **default `timezone=None` leaves a residual**: with `nsteps = k + 1` (`k = int(|V| / (pga·dt/100)) ≥ 0`) the last `min nsteps n`
samples are decreased by `V/dt/nsteps`; the final velocity of the new record is `V/(2·nsteps)` when `nsteps < n`, and
`V·(nsteps − n + 1)/nsteps` when `nsteps ≥ n` (`n ≥ 2`) — **never zero unless `V = 0`**. -/
theorem zero_vel_default_residual (values : List ℚ) (dt pga : ℚ) (k : ℕ) (hdt : dt ≠ 0) (hn : 2 ≤ values.length)
    (hpga : pgaE values = .ok pga) (hk : defaultStepsE (trapz dt values) pga dt = .ok (k : ℤ)) :
    ∃ new, setZeroResidualVelocity values dt none = .ok new ∧ new.length = values.length ∧
      (velocity dt new).getLast? = some (if k + 1 < values.length then trapz dt values / (2 * ((k : ℚ) + 1))
        else trapz dt values * (((k : ℚ) + 1 - (values.length : ℚ) + 1) / ((k : ℚ) + 1))) := by
  have hne : values ≠ [] := by intro h; simp [h] at hn
  have hV := velocity_getLast dt values hne
  have hV' : (veloDispTrap values dt).1.getLast? = some (trapz dt values) := hV
  have hlo : loIdx values.length (some (-((k : ℤ) + 1))) = values.length - (k + 1) := by
    have : (-((k : ℤ) + 1) < 0) := by omega
    simp only [loIdx, NpR.pyIdx, this, if_true]; omega
  have hhi : hiIdx values.length none = values.length := rfl
  have hns : ((k : ℤ) + 1) ≠ 0 := by omega
  obtain ⟨new, hnew, hlen, hfin⟩ := zero_vel_window values dt (trapz dt values) (some (-((k : ℤ) + 1))) none ((k : ℤ) + 1) hdt hns
    (by rw [hlo, hhi]; omega)
  refine ⟨new, ?_, hlen, ?_⟩
  · simp only [setZeroResidualVelocity, veloDispE_ne values dt hne, bind, Except.bind, lastE_eq _ _ hV', hpga, hk]
    exact hnew
  · rw [hfin, hlo, hhi]
    have hk1 : ((k : ℚ) + 1) ≠ 0 := by positivity
    have hq : ((((k : ℤ) + 1 : ℤ)) : ℚ) = (k : ℚ) + 1 := by push_cast; ring
    by_cases hc : k + 1 < values.length
    · have e1 : values.length - (k + 1) ≠ 0 := by omega
      have e2 : ((values.length - (values.length - (k + 1)) : ℕ) : ℚ) = (k : ℚ) + 1 := by
        have : values.length - (values.length - (k + 1)) = k + 1 := by omega
        rw [this]; push_cast; ring
      simp only [hc, e1, if_true, if_false, e2, hq]
      congr 1; field_simp; ring
    · have e1 : values.length - (k + 1) = 0 := by omega
      simp only [hc, e1, if_true, if_false, Nat.sub_zero, hq]
      congr 1; field_simp; ring

/-- concrete instance (and the witness that the default call does NOT zero the final velocity): `[0,1,0,0,2,1,0,0]`, `dt = 1/2`:
`V = 2`, `pga = 2`, `nsteps = 201 ≥ n = 8`; the final velocity stays `2·194/201` -/
example : setZeroResidualVelocity [0, 1, 0, 0, 2, 1, 0, 0] (1/2) none
      = .ok [-4/201, 197/201, -4/201, -4/201, 398/201, 197/201, -4/201, -4/201] ∧
    (velocity (1/2) [-4/201, 197/201, -4/201, -4/201, 398/201, 197/201, -4/201, (-4/201 : ℚ)]).getLast? = some (388/201) ∧
    pgaE [0, 1, 0, 0, 2, 1, 0, 0] = .ok 2 ∧ defaultStepsE (trapz (1/2) [0, 1, 0, 0, 2, 1, 0, 0]) 2 (1/2) = .ok ((200 : ℕ) : ℤ) := by
  decide +kernel

/-! ## `set_zero_residual_displacement_and_velocity` -/

/-- **set_zero_residual_displacement_and_velocity()** (`timezone=None`, `n ≥ 2`, `dt ≠ 0`) = `values ↦ values − (2a + 6b·tᵢ)` with
`b = (−2D + V·T)/T³`, `a = (D − b·T³)/T²`; same length; the final velocity of the new record is **exactly 0**; its final displacement
is `(2D − V·T)·dt²/(2T²)` (zero iff `2D = V·T`): the second trapezoid stage is not exact for the quadratic velocity correction. -/
theorem zero_disp_vel_spec (values : List ℚ) (dt : ℚ) (hn : 2 ≤ values.length) (hdt : dt ≠ 0) :
    ∃ V D new, (velocity dt values).getLast? = some V ∧ (displacement dt values).getLast? = some D ∧
      setZeroResidualDisplacementAndVelocity values dt none = .ok new ∧ new.length = values.length ∧
      new = List.zipWith (· - ·) values ((timeArr values.length dt).map (fun t =>
          2 * ((D - (-2 * D + V * (((values.length - 1 : ℕ) : ℚ) * dt)) / (((values.length - 1 : ℕ) : ℚ) * dt) ^ 3
                    * (((values.length - 1 : ℕ) : ℚ) * dt) ^ 3) / (((values.length - 1 : ℕ) : ℚ) * dt) ^ 2)
          + 6 * ((-2 * D + V * (((values.length - 1 : ℕ) : ℚ) * dt)) / (((values.length - 1 : ℕ) : ℚ) * dt) ^ 3) * t)) ∧
      (velocity dt new).getLast? = some 0 ∧
      (displacement dt new).getLast? = some ((2 * D - V * (((values.length - 1 : ℕ) : ℚ) * dt)) * dt ^ 2
                                              / (2 * (((values.length - 1 : ℕ) : ℚ) * dt) ^ 2)) := by
  have hne : values ≠ [] := by intro h; simp [h] at hn
  obtain ⟨D, hD⟩ := displacement_getLast_isSome dt values hne
  have hV := velocity_getLast dt values hne
  have hT : (((values.length - 1 : ℕ) : ℚ) * dt) ≠ 0 := by
    refine mul_ne_zero ?_ hdt
    have : 0 < values.length - 1 := by omega
    positivity
  have hN : ((values.length - 1 : ℕ) : ℚ) ≠ 0 := by
    have : 0 < values.length - 1 := by omega
    positivity
  obtain ⟨V, hVdef⟩ : ∃ V, V = trapz dt values := ⟨_, rfl⟩
  rw [← hVdef] at hV
  obtain ⟨h1, h2⟩ := final_after_linear values dt
    (2 * ((D - (-2 * D + V * (((values.length - 1 : ℕ) : ℚ) * dt)) / (((values.length - 1 : ℕ) : ℚ) * dt) ^ 3
        * (((values.length - 1 : ℕ) : ℚ) * dt) ^ 3) / (((values.length - 1 : ℕ) : ℚ) * dt) ^ 2))
    (6 * ((-2 * D + V * (((values.length - 1 : ℕ) : ℚ) * dt)) / (((values.length - 1 : ℕ) : ℚ) * dt) ^ 3)) V D hne hV hD
  have hV' : (veloDispTrap values dt).1.getLast? = some V := hV
  have hD' : (veloDispTrap values dt).2.getLast? = some D := hD
  have hz := isubArrayE_all values ((timeArr values.length dt).map
    (fun t => 2 * ((D - (-2 * D + V * (((values.length - 1 : ℕ) : ℚ) * dt)) / (((values.length - 1 : ℕ) : ℚ) * dt) ^ 3
        * (((values.length - 1 : ℕ) : ℚ) * dt) ^ 3) / (((values.length - 1 : ℕ) : ℚ) * dt) ^ 2)
      + 6 * ((-2 * D + V * (((values.length - 1 : ℕ) : ℚ) * dt)) / (((values.length - 1 : ℕ) : ℚ) * dt) ^ 3) * t)) (by simp [timeArr])
  rw [List.map_map] at hz
  refine ⟨V, D, _, hV, hD, ?_, ?_, rfl, ?_, ?_⟩
  · simp only [setZeroResidualDisplacementAndVelocity, veloDispE_ne values dt hne, bind, Except.bind, lastE_eq _ D hD', lastE_eq _ _ hV',
      lastE_eq _ _ (timeArr_getLast values.length (by omega) dt), zeroDispVelWith, cubicB, cubicA, cubicDelta,
      fdiv_some _ _ (pow_ne_zero 3 hT), fdiv_some _ _ (pow_ne_zero 2 hT), fmul_some, fsub_some, fadd_some]
    exact hz
  · simp [timeArr]
  · rw [h1]; congr 1; field_simp; ring
  · rw [h2]; congr 1; field_simp; ring

example : setZeroResidualDisplacementAndVelocity [1, 2, 4] (1/2) none = .ok [-1/8, -1/4, 5/8] ∧
    (velocity (1/2) [-1/8, -1/4, (5/8 : ℚ)]).getLast? = some 0 ∧
    (displacement (1/2) [-1/8, -1/4, (5/8 : ℚ)]).getLast? = some (-3/64) ∧
    (velocity (1/2) [1, 2, (4 : ℚ)]).getLast? = some (9/4) ∧ (displacement (1/2) [1, 2, (4 : ℚ)]).getLast? = some (15/16) := by
  decide +kernel

/-- error branches of `set_zero_residual_displacement_and_velocity`: empty record `ValueError`; an empty window `IndexError`
(`tincs[0]`); a one-sample record a `nan` record -/
theorem zero_disp_vel_errors (dt x : ℚ) :
    setZeroResidualDisplacementAndVelocity [] dt none = .error .ValueError ∧
    setZeroResidualDisplacementAndVelocity [x] dt none = .error .ZeroDivisionError ∧
    setZeroResidualDisplacementAndVelocity [1, 2, 3] (1/2) (some (1/2, some (1/2))) = .error .IndexError ∧
    setZeroResidualDisplacementAndVelocity [1, 2, 3] 0 (some (1/2, none)) = .error .ZeroDivisionError := by
  refine ⟨rfl, ?_, by decide +kernel, by decide +kernel⟩
  simp [setZeroResidualDisplacementAndVelocity, timeArr, NpS.lastE, NpE.lastE, veloDispE, bind, Except.bind, veloDispTrap,
    Np.cumtrapz, Np.cumtrapzFrom, zeroDispVelWith, cubicB, cubicA, cubicDelta, isubArrayE, loIdx, hiIdx, finiteE, fmul, fsub, fadd,
    pure, Except.pure]

example : setZeroResidualDisplacementAndVelocity [5] (1/2) none = .error .ZeroDivisionError :=
  (zero_disp_vel_errors (1/2) 5).2.1

/-! ## `correct_me` -/

/-- **correct_me** (structure): for a length-preserving `detrend` the new record has the length of the old one (`dt ≠ 0`), and the
result does not depend on the record except through `detrend (displacement)`.
Full statement (not proved here, correspondence only): `acc[i] = (d[i] − 2·d[i−1] + d[i−2])/dt²` for `i ≥ 10`, and the first ten
samples are replaced by their mean, where `d = detrend(displacement)`. -/
theorem correct_me_length_partial (detrend : List ℚ → List ℚ) (hdet : ∀ x, (detrend x).length = x.length)
    (values : List ℚ) (dt : ℚ) (new : List ℚ) (h : correctMe detrend values dt = .ok new) : new.length = values.length := by
  cases values with
  | nil => simp [correctMe, veloDispE, bind, Except.bind] at h
  | cons x xs =>
    simp only [correctMe, veloDispE_cons, bind, Except.bind] at h
    have hlen := finiteE_length
    have hdq : ∀ (y : List Fl), (diffQuot y dt).length = y.length := by
      intro y; cases y with
      | nil => rfl
      | cons y0 ys => simp [diffQuot]
    rw [hlen _ _ h]
    simp only [fillTo, List.length_append, List.length_replicate, List.length_drop, hdq, List.length_map, hdet]
    simp [veloDispTrap]
    omega

example : correctMe id [1, 2, 4] (1/2) = .ok [1, 1, 1] := by decide +kernel

end EqsigVerif.Props.C08
