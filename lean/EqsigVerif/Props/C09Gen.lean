import EqsigVerif.Model.Im
import EqsigVerif.Gen.Consts
import Mathlib.Tactic.NormNum
import Mathlib.Data.Real.Basic
/-!
# C09 — translator tie for the literals of `eqsig/im.py` the model refers to

`Gen/Consts.lean` is regenerated from the source on every run: the `9.81` and `0.025` of `calc_cav_dp`
(`acc_in_g = asig.values / 9.81`, `(pga - 0.025) < 0`) and the `2`, `9.81` of the Arias constant `np.pi / (2 * 9.81)`.
The model uses `gAcc = 981/100`, `gate = 1/40` and the theorems `arias_real`, `cavdp_*` of `Props/C09.lean` speak about
`π/(2·9.81)` and `0.025 g`; these bridges make them statements about the literals the source contains now.
-/
namespace EqsigVerif.Props.C09
open EqsigVerif

/-- the g used by the model of `calc_cav_dp` is the literal of the source -/
theorem gen_cavdp_g : Model.Im.gAcc = Gen.Consts.cavdpGRat := by
  unfold Model.Im.gAcc Gen.Consts.cavdpGRat; norm_num

/-- the 0.025 g gate of the model is the literal of the source -/
theorem gen_cavdp_gate : Model.Im.gate = Gen.Consts.cavdpGateRat := by
  unfold Model.Im.gate Gen.Consts.cavdpGateRat; norm_num

/-- the denominator of the Arias constant in the source is `2 · 9.81` (the constant of `arias_real`) -/
theorem gen_arias_denominator :
    ((Gen.Consts.ariasDenARat : ℚ) : ℝ) * ((Gen.Consts.ariasDenBRat : ℚ) : ℝ) = 2 * 9.81 := by
  unfold Gen.Consts.ariasDenARat Gen.Consts.ariasDenBRat; norm_num

end EqsigVerif.Props.C09
