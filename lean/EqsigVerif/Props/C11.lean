import EqsigVerif.Model.Peaks
import EqsigVerif.Lemmas.Peaks
/-!
# C11 — Local-peak detection is sound and complete on every series

Samples are read with the total accessor `v.getD i 0`; every index that occurs is proved `< v.length`
(`peaks_lt_length`), so the default is never used.
-/
namespace EqsigVerif.Props.C11
open EqsigVerif.Model.Peaks EqsigVerif.Lemmas.Peaks

/-- every reported index is a valid position -/
theorem peaks_lt_length (v : List ℚ) (hv : v ≠ []) : ∀ p ∈ peaks v, p < v.length :=
  EqsigVerif.Lemmas.Peaks.peaks_lt_length v hv

example : ∀ p ∈ peaks [1, 1, 2, 1], p < 4 := by decide +kernel

/-- (used by C12.d) every sample of **any** series, constant or not, is dominated in magnitude by the
sample at a reported peak. -/
theorem peaks_dominate (v : List ℚ) :
    ∀ i, i < v.length → ∃ p ∈ peaks v, |v.getD i 0| ≤ |v.getD p 0| :=
  fun i hi => peaks_dominate' v i hi

example : ∃ p ∈ peaks [5, 1, 3, -1], |([5, 1, 3, -1] : List ℚ).getD 2 0| ≤ |([5, 1, 3, -1] : List ℚ).getD p 0| :=
  peaks_dominate _ 2 (by decide)

end EqsigVerif.Props.C11
