import EqsigVerif.Model.Peaks
import EqsigVerif.Lemmas.Peaks
/-!
# C11 — Local-peak detection is sound and complete on every series

Samples are read with the total accessor `v.getD i 0`; every index that occurs is proved `< v.length`
(`peaks_lt_length`), so the default is never used.
-/
namespace EqsigVerif.Props.C11
open EqsigVerif.Model.Peaks EqsigVerif.Lemmas.Peaks

/-- every reported index is a valid position -/
theorem peaks_lt_length (v : List ℚ) (hv : v ≠ []) : ∀ p ∈ peaks v, p < v.length :=
  EqsigVerif.Lemmas.Peaks.peaks_lt_length v hv

example : ∀ p ∈ peaks [1, 1, 2, 1], p < 4 := by decide +kernel

/-- (used by C12.d) every sample of **any** series, constant or not, is dominated in magnitude by the
sample at a reported peak. -/
theorem peaks_dominate (v : List ℚ) :
    ∀ i, i < v.length → ∃ p ∈ peaks v, |v.getD i 0| ≤ |v.getD p 0| :=
  fun i hi => peaks_dominate' v i hi

example : ∃ p ∈ peaks [5, 1, 3, -1], |([5, 1, 3, -1] : List ℚ).getD 2 0| ≤ |([5, 1, 3, -1] : List ℚ).getD p 0| :=
  peaks_dominate _ 2 (by decide)

/-- **C11.a** For a non-constant series the reported indices are strictly ascending, start at `0`, and end at the
first index `k` of the final constant run (`v[k-1] ≠ v[k]`, `v` constant on `[k, n)`). -/
theorem peaks_shape (v : List ℚ) (hv : NonConstant v) :
    (peaks v).Pairwise (· < ·) ∧ (peaks v).head? = some 0 ∧
    ∃ k, (peaks v).getLast? = some k ∧ 0 < k ∧ k < v.length ∧ v.getD (k-1) 0 ≠ v.getD k 0 ∧
      ∀ j, k ≤ j → j < v.length → v.getD j 0 = v.getD k 0 := by
  have hne := nonConstant_ne_nil v hv
  have hm := two_le_runs v hv
  refine ⟨peaks_pairwise v hv, peaks_head v hne, _, peaks_getLast v, ?_, idxs_lt v _ (by omega), ?_, ?_⟩
  · have := idxs_strictMono v 0 ((runs v).length - 1) (by omega) (by omega)
    omega
  · have hmem : (idxs v).getD ((runs v).length - 1) 0 ∈ idxs v := by
      rw [getD_eq _ _ _ (by simp; omega)]; exact List.getElem_mem _
    have h0 := idxs_strictMono v 0 ((runs v).length - 1) (by omega) (by omega)
    rcases ((mem_idxs v _).mp hmem).2 with h | h
    · omega
    · exact fun e => h e.symm
  · intro j h1 h2
    exact const_after_last v hne j h1 h2

example : NonConstant [1, 1, 2, 1, 1] ∧ peaks [1, 1, 2, 1, 1] = [0, 2, 3] := by decide +kernel

/-- **C11.b** Between consecutive reported indices `p < q` the series is weakly monotone with `v[p] ≠ v[q]`
(first conjunct: strictly rising end values and non-decreasing inside, or strictly falling and non-increasing),
and the direction strictly alternates from each segment to the next (second conjunct). -/
theorem peaks_segments (v : List ℚ) (hv : NonConstant v) :
    (∀ k, k + 1 < (peaks v).length →
      (v.getD ((peaks v).getD k 0) 0 < v.getD ((peaks v).getD (k+1) 0) 0 ∧
        ∀ s t, (peaks v).getD k 0 ≤ s → s ≤ t → t ≤ (peaks v).getD (k+1) 0 → v.getD s 0 ≤ v.getD t 0) ∨
      (v.getD ((peaks v).getD (k+1) 0) 0 < v.getD ((peaks v).getD k 0) 0 ∧
        ∀ s t, (peaks v).getD k 0 ≤ s → s ≤ t → t ≤ (peaks v).getD (k+1) 0 → v.getD t 0 ≤ v.getD s 0)) ∧
    (∀ k, k + 2 < (peaks v).length →
      (v.getD ((peaks v).getD (k+1) 0) 0 - v.getD ((peaks v).getD k 0) 0) *
        (v.getD ((peaks v).getD (k+2) 0) 0 - v.getD ((peaks v).getD (k+1) 0) 0) < 0) :=
  ⟨fun k hk => orig_segment v hv k hk, fun k hk => orig_alternate v hv k hk⟩

example : NonConstant [0, 2, 2, 1, 3] ∧ (peaks [0, 2, 2, 1, 3]).length = 4 := by decide +kernel

/-- **C11.c** An index is reported iff it is `0`, the last reported index (first sample of the final constant run,
see `peaks_shape`), or a turning point `IsTurn v i`: the first sample of a plateau `[i, j)` whose predecessor
`v[i-1]` and successor `v[j]` lie strictly on the same side of the plateau value. -/
theorem peaks_complete (v : List ℚ) (hv : NonConstant v) (i : ℕ) :
    i ∈ peaks v ↔ i = 0 ∨ (peaks v).getLast? = some i ∨ IsTurn v i := by
  have hne := nonConstant_ne_nil v hv
  constructor
  · intro hi
    obtain ⟨q, hq, rfl⟩ := (mem_peaks_iff v i).mp hi
    rcases (mem_peaksCleaned _ _).mp hq with h | h | h
    · left; rw [h]; exact idxs_zero v hne
    · right; right; exact turn_of_mem v hne q h
    · right; left; rw [peaks_getLast, h]; simp
  · rintro (h | h | h)
    · rw [h]; exact List.mem_of_mem_head? (peaks_head v hne)
    · exact List.mem_of_getLast? h
    · exact mem_of_turn v hne i h

example : NonConstant [0, 1, 3, 3, 2, 2, 4] ∧ IsTurn [0, 1, 3, 3, 2, 2, 4] 2 ∧ 2 ∈ peaks [0, 1, 3, 3, 2, 2, 4] := by
  refine ⟨by decide +kernel, ⟨by decide, 4, by decide, by decide, ?_, by decide +kernel⟩, by decide +kernel⟩
  intro t h1 h2
  have : t = 2 ∨ t = 3 := by omega
  rcases this with rfl | rfl <;> rfl

/-- **C11.d** (fixed parity rule `first_move = values[P[1]] - values[P[0]]`) For **every** non-constant series,
flat starts included, `ptype='max'` / `'min'` return, in order, exactly the reported indices that are local
maxima / minima, an index being classified by its adjacent segment(s): `LocalMaxAt v k` says that the next reported
value is smaller or the previous reported value is smaller (for interior peaks both hold, by C11.b). -/
theorem ptype_spec (v : List ℚ) (hv : NonConstant v) :
    (peaksMax v).Sublist (peaks v) ∧ (peaksMin v).Sublist (peaks v) ∧
    (∀ i, i ∈ peaksMax v ↔ ∃ k, k < (peaks v).length ∧ (peaks v).getD k 0 = i ∧ LocalMaxAt v k) ∧
    (∀ i, i ∈ peaksMin v ↔ ∃ k, k < (peaks v).length ∧ (peaks v).getD k 0 = i ∧ LocalMinAt v k) :=
  ⟨peaksMax_sublist v, peaksMin_sublist v, mem_peaksMax v hv, mem_peaksMin v hv⟩

example : NonConstant [1, 1, 2, 1] ∧ peaksMax [1, 1, 2, 1] = [2] ∧ peaksMin [1, 1, 2, 1] = [0, 3] := by
  decide +kernel

/-- finding F11-1 (why the fix is needed): under the unchanged rule `values[1] - values[0]` the selection is wrong on a
flat start — index 2 is the only local maximum of `[1, 1, 2, 1]`, yet `'max'` returns `[0, 3]` and `'min'` returns `[2]`. -/
example : peaksMaxUnfixed [1, 1, 2, 1] = [0, 3] ∧ peaksMinUnfixed [1, 1, 2, 1] = [2] ∧
    ¬ (∀ i, i ∈ peaksMaxUnfixed [1, 1, 2, 1] ↔
        ∃ k, k < (peaks [1, 1, 2, 1]).length ∧ (peaks [1, 1, 2, 1]).getD k 0 = i ∧ LocalMaxAt [1, 1, 2, 1] k) := by
  refine ⟨by decide +kernel, by decide +kernel, ?_⟩
  intro h
  have h0 : (0 : ℕ) ∈ peaksMaxUnfixed [1, 1, 2, 1] := by decide +kernel
  obtain ⟨k, hk, hk0, hmax⟩ := (h 0).mp h0
  have hP : peaks [1, 1, 2, 1] = [0, 2, 3] := by decide +kernel
  rw [hP] at hk hk0
  have : k = 0 := by
    simp only [List.length_cons, List.length_nil] at hk
    match k, hk, hk0 with
    | 0, _, _ => rfl
    | 1, _, h => simp at h
    | 2, _, h => simp at h
  subst this
  unfold LocalMaxAt at hmax
  rw [hP] at hmax
  rcases hmax with ⟨_, h2⟩ | ⟨h1, _⟩
  · revert h2; decide +kernel
  · omega

/-- C11.d, complement: every reported index is a local maximum or a local minimum and never both, so
`peaksMax` and `peaksMin` partition `peaks`. -/
theorem ptype_partition (v : List ℚ) (hv : NonConstant v) (k : ℕ) (hk : k < (peaks v).length) :
    LocalMaxAt v k ↔ ¬ LocalMinAt v k :=
  localMax_iff_not_localMin v hv k hk

example : NonConstant [1, 1, 2, 1] ∧ 1 < (peaks [1, 1, 2, 1]).length := by decide +kernel

/-- C11.d, meaning of the classification: a reported index classified as a local maximum (minimum) carries a value
`≥` (`≤`) every sample of its two adjacent segments — from the previous reported index (or the start) to the next
reported index (or, for the last reported index, to the end of the series). -/
theorem ptype_extremal (v : List ℚ) (hv : NonConstant v) (k : ℕ) (hk : k < (peaks v).length)
    (t : ℕ) (ht : t < v.length)
    (h1 : k = 0 ∨ (peaks v).getD (k-1) 0 ≤ t) (h2 : k + 1 = (peaks v).length ∨ t ≤ (peaks v).getD (k+1) 0) :
    (LocalMaxAt v k → v.getD t 0 ≤ v.getD ((peaks v).getD k 0) 0) ∧
    (LocalMinAt v k → v.getD ((peaks v).getD k 0) 0 ≤ v.getD t 0) :=
  ⟨fun hm => localMax_dominates v hv k hk hm t ht h1 h2, fun hm => localMin_dominated v hv k hk hm t ht h1 h2⟩

example : NonConstant [0, 1, 3, 3, 2, 2, 4] ∧ LocalMaxAt [0, 1, 3, 3, 2, 2, 4] 1 := by
  refine ⟨by decide +kernel, Or.inl ?_⟩
  decide +kernel

/-- **C11.e** `get_n_cyc_array(values, opt='all', start)` for a non-constant series (`so = true` ↔ `start='origin'`):
the result has the series' length; at the `k`-th reported peak its value is `knot so k`, i.e. `0` for `k = 0` and
`k/2 − 1/4` (`start='origin'`) or `k/2` (`start='peak'`) for `k ≥ 1` — so it rises by exactly `0.5` between consecutive
reported peaks and by `0.25` up to the first one when counting from the origin; between consecutive reported peaks it
is the linear interpolant; it is non-decreasing; and it is constant from the last reported peak on. -/
theorem ncyc_spec (v : List ℚ) (hv : NonConstant v) (so : Bool) :
    (nCycAll v so).length = v.length ∧
    (∀ k, k < (peaks v).length →
      (nCycAll v so).getD ((peaks v).getD k 0) 0 =
        if k = 0 then 0 else (k : ℚ) / 2 - (if so then 1/4 else 0)) ∧
    (∀ k, k + 1 < (peaks v).length → ∀ x, (peaks v).getD k 0 ≤ x → x ≤ (peaks v).getD (k+1) 0 →
      (nCycAll v so).getD x 0 =
        knot so k + (knot so (k+1) - knot so k) /
          ((((peaks v).getD (k+1) 0 : ℕ) : ℚ) - (((peaks v).getD k 0 : ℕ) : ℚ)) * ((x : ℚ) - (((peaks v).getD k 0 : ℕ) : ℚ))) ∧
    (∀ x y, x ≤ y → y < v.length → (nCycAll v so).getD x 0 ≤ (nCycAll v so).getD y 0) ∧
    (∀ x, (peaks v).getD ((peaks v).length - 1) 0 ≤ x → x < v.length →
      (nCycAll v so).getD x 0 = (nCycAll v so).getD ((peaks v).getD ((peaks v).length - 1) 0) 0) := by
  have hne := nonConstant_ne_nil v hv
  have hl := peaks_length_ge v
  refine ⟨nCycAll_length v so, fun k hk => nCyc_at_peak v hv so k hk,
    fun k hk x h1 h2 => nCyc_segment v hv so k hk x h1 h2, fun x y hxy hy => nCyc_mono v hv so x y hxy hy, ?_⟩
  intro x h1 hx
  rw [nCyc_tail v hv so x h1 hx]
  exact (nCyc_tail v hv so _ le_rfl (pd_lt v hne _ (by omega))).symm

example : NonConstant [0, 2, 2, 1, 3] ∧ nCycAll [0, 2, 2, 1, 3] true = [0, 1/4, 1/2, 3/4, 5/4] := by
  decide +kernel

/-- C11.e, corollary in the words of the property: the counter rises by exactly `1/2` from each reported peak to the
next, except that the first rise is `1/4` when counting from the origin. -/
theorem ncyc_increments (v : List ℚ) (hv : NonConstant v) (so : Bool) (k : ℕ) (hk : k + 1 < (peaks v).length) :
    (nCycAll v so).getD ((peaks v).getD (k+1) 0) 0 - (nCycAll v so).getD ((peaks v).getD k 0) 0 =
      if k = 0 ∧ so = true then 1/4 else 1/2 := by
  have h1 := nCyc_at_peak v hv so (k+1) hk
  have h2 := nCyc_at_peak v hv so k (by omega)
  unfold pd at h1 h2
  rw [h1, h2]
  unfold knot
  cases k with
  | zero => cases so <;> norm_num
  | succ k =>
    simp only [Nat.add_eq_zero_iff, one_ne_zero, and_false, if_false, false_and]
    push_cast; ring

example : NonConstant [0, 2, 2, 1, 3] ∧ 0 + 1 < (peaks [0, 2, 2, 1, 3]).length := by decide +kernel

end EqsigVerif.Props.C11
