import EqsigVerif.Model.FreqMoments
import EqsigVerif.Lemmas.SmoothFreqs
import EqsigVerif.Props.C07
/-!
# C07 — which smoothing (target) frequencies a `Signal` uses, `get_sig_freq_range`, the deprecated smoothing alias

Property theorems about `Model/FreqMoments.lean` (sections *Range* and *Targets*):

* `get_sig_freq_range` returns the smoothing frequencies at the first and last index whose smoothed amplitude exceeds `max/ratio`;
  on an ascending frequency array it is ordered and every frequency whose amplitude exceeds the limit (the peak included) lies between;
* the deprecated `generate_smooth_fa_spectrum` IS `calc_smooth_fa_spectrum` with permuted arguments;
* object level = array level: `Signal.gen_smooth_fa_spectrum(smooth_fa_freqs, band)` stores `calc_smooth_fa_spectrum` of the object's
  Fourier spectrum on exactly the targets `smooth_fa_freqs` (when given) or the current `_smooth_fa_freqs`, and leaves those targets;
* the arithmetic of the setters: `np.logspace(log10(lo), log10(hi), n)` — number of points (which argument / state decides it),
  end points, entries; the `smooth_freq_range` setter keeps the CURRENT number of points (the class attribute
  `_smooth_freq_points = 61` is never read), the `smooth_freq_points` setter keeps the CURRENT first and last frequency.
-/
set_option linter.unusedSectionVars false
set_option linter.unusedVariables false
namespace EqsigVerif.Props.C07
open EqsigVerif EqsigVerif.Cplx EqsigVerif.Wire EqsigVerif.Model.Frequency EqsigVerif.Model.FreqMoments

/-! ## `get_sig_freq_range` -/
section Range
variable {α : Type} [Field α] [LinearOrder α] [IsStrictOrderedRing α]

/-- **`get_sig_freq_range` is a lookup of `get_sig_array_indexes_range`**: it succeeds with `(f_lo, f_hi)` iff the index function
returns `(a, b)` and both indices are inside the frequency array, `f_lo = freqs[a]`, `f_hi = freqs[b]`; it raises the index
function's error, or `IndexError` (`np.take`) when an index is outside the frequency array -/
theorem sig_freq_range_spec (smooth freqs : List α) (ratio : α) :
    (∀ fa fb, sigFreqRange smooth freqs ratio = .ok (fa, fb) ↔
      ∃ a b, sigArrayIndexesRange smooth ratio = .ok (a, b) ∧ freqs[a]? = some fa ∧ freqs[b]? = some fb) ∧
    (∀ e, sigArrayIndexesRange smooth ratio = .error e → sigFreqRange smooth freqs ratio = .error e) ∧
    (∀ a b, sigArrayIndexesRange smooth ratio = .ok (a, b) → (freqs[a]? = none ∨ freqs[b]? = none) →
      sigFreqRange smooth freqs ratio = .error .IndexError) := by
  refine ⟨?_, ?_, ?_⟩
  · intro fa fb
    unfold sigFreqRange
    cases h : sigArrayIndexesRange smooth ratio with
    | error e => simp
    | ok p =>
      obtain ⟨a, b⟩ := p
      constructor
      · intro hh
        refine ⟨a, b, rfl, ?_⟩
        cases h1 : freqs[a]? <;> cases h2 : freqs[b]? <;> simp [h1, h2] at hh ⊢
        exact hh
      · rintro ⟨a', b', hab, h1, h2⟩
        injection hab with hab
        injection hab with ha hb
        subst ha hb
        simp [h1, h2]
  · intro e h; simp [sigFreqRange, h]
  · intro a b h hn
    simp only [sigFreqRange, h]
    rcases hn with hn | hn
    · simp [hn]
    · cases h1 : freqs[a]? <;> simp [hn]

example : sigFreqRange [1, 30, 4, 45, 2, (3 : ℚ)] [1/2, 1, 2, 4, 8, 16] 15 = .ok (1, 4) := by decide +kernel
example : sigFreqRange [1, 30, 4, 45, 2, (3 : ℚ)] [1/2, 1, 2] 15 = .error .IndexError := by decide +kernel
example : sigFreqRange ([] : List ℚ) [1/2, 1, 2] 15 = .error .ValueError := by decide +kernel

/-- **ordered, and brackets everything above the limit** (C07.d for `get_sig_freq_range`): on an ascending frequency array,
`f_lo ≤ f_hi`, and every frequency whose smoothed amplitude exceeds `max/ratio` — in particular the peak, when `max/ratio < max` —
lies in `[f_lo, f_hi]` -/
theorem sig_freq_range_ordered (smooth freqs : List α) (ratio m fa fb : α) (hm : Np.maxL? smooth = some m)
    (hs : freqs.Pairwise (· ≤ ·)) (h : sigFreqRange smooth freqs ratio = .ok (fa, fb)) :
    fa ≤ fb ∧ ∀ (k : ℕ) (s fk : α), smooth[k]? = some s → freqs[k]? = some fk → m / ratio < s → fa ≤ fk ∧ fk ≤ fb := by
  obtain ⟨a, b, hab, ha, hb⟩ := ((sig_freq_range_spec smooth freqs ratio).1 fa fb).mp h
  obtain ⟨-, hspec⟩ := sig_array_indexes_range_spec smooth ratio m hm
  obtain ⟨⟨sa, sb, hsa, hsb, hla, hlb⟩, hbetween⟩ := hspec a b hab
  have mono : ∀ (i j : ℕ) (x y : α), i ≤ j → freqs[i]? = some x → freqs[j]? = some y → x ≤ y := by
    intro i j x y hij hx hy
    obtain ⟨hi, rfl⟩ := List.getElem?_eq_some_iff.mp hx
    obtain ⟨hj, rfl⟩ := List.getElem?_eq_some_iff.mp hy
    rcases Nat.eq_or_lt_of_le hij with rfl | hlt
    · exact le_refl (freqs[i])
    · exact List.pairwise_iff_getElem.mp hs i j hi hj hlt
  refine ⟨mono a b fa fb (hbetween a sa hsa hla).2 ha hb, ?_⟩
  intro k s fk hk hfk hlt
  obtain ⟨h1, h2⟩ := hbetween k s hk hlt
  exact ⟨mono a k fa fk h1 ha hfk, mono k b fk fb h2 hfk hb⟩

example : Np.maxL? [1, 30, 4, 45, 2, (3 : ℚ)] = some 45 ∧ sigFreqRange [1, 30, 4, 45, 2, (3 : ℚ)] [1/2, 1, 2, 4, 8, 16] 15 = .ok (1, 4) := by
  decide +kernel
example : ([1/2, 1, 2, 4, 8, 16] : List ℚ).Pairwise (· ≤ ·) := by norm_num

end Range

/-! ## the deprecated alias, and object level = array level -/
section Object
variable {α : Type} [Add α] [Sub α] [Mul α] [Div α] [Neg α] [NatCast α] [OfNat α 0] [OfNat α 1] [LT α] [DecidableLT α] [BEq α]

/-- **alias frame**: `generate_smooth_fa_spectrum(sm, f, A, band) = calc_smooth_fa_spectrum(f, A, sm, band)` -/
theorem generate_smooth_alias (sin log10 : α → α) (smooth? : Option (List α)) (faFreqs A : List α) (band : α) :
    generateSmoothFaSpectrum sin log10 smooth? faFreqs A band = calcSmoothFaSpectrum sin log10 faFreqs A smooth? band := rfl

example : generateSmoothFaSpectrum (fun (x : ℚ) => x) (fun x => x) (some [1, 2]) [0, 1, 2] [5, 3, 3] 40 = .ok [3, 3] := by decide +kernel

/-- which target frequencies are used: the argument when it is given, the object's current ones otherwise -/
theorem smooth_targets_spec (given cur : List α) :
    smoothTargets (some given) cur = given ∧ smoothTargets none cur = cur := ⟨rfl, rfl⟩

/-- **C07 object level = array level**: `Signal.gen_smooth_fa_spectrum(smooth_fa_freqs, band)` succeeds iff
`calc_smooth_fa_spectrum(fa_freqs, |fa_spectrum|, T, band)` does, `T` = the given targets or (none given) the object's current
smoothing frequencies; it stores exactly that smoothed spectrum and leaves exactly `T` in `_smooth_fa_freqs`; same errors. -/
theorem signal_smooth_eq_array (sin log10 : α → α) (faFreqs absFas : List α) (given? : Option (List α)) (cur : List α) (band : α) :
    signalGenSmooth sin log10 faFreqs absFas given? cur band =
      (calcSmoothFaSpectrum sin log10 faFreqs absFas (some (smoothTargets given? cur)) band).map
        (fun s => (s, smoothTargets given? cur)) := by
  unfold signalGenSmooth
  cases calcSmoothFaSpectrum sin log10 faFreqs absFas (some (smoothTargets given? cur)) band <;> rfl

example : signalGenSmooth (fun (x : ℚ) => x) (fun x => x) [0, 1, 2] [5, 3, 3] none [1, 2] 40 = .ok ([3, 3], [1, 2]) := by decide +kernel
example : signalGenSmooth (fun (x : ℚ) => x) (fun x => x) [0, 1, 2] [5, 3, 3] (some [2]) [1, 2] 40 = .ok ([3], [2]) := by decide +kernel

end Object

/-! ## the arithmetic of the setters -/
section Setters
variable {α : Type} [Field α] [BEq α]

/-- **`set_smooth_fa_frequecies_by_range(limits, n_points)`**: `IndexError` iff `limits` has fewer than two entries; otherwise
`n_points` frequencies `pow10(log10 lo + i·(log10 hi − log10 lo)/(n_points − 1))`, the first `pow10 (log10 limits[0])`, the last
(for `n_points ≥ 2`) `pow10 (log10 limits[1])`; `_smooth_freq_range` is `limits` -/
theorem set_by_range_spec (log10 pow10 : α → α) (limits : List α) (n : ℕ) :
    (limits.length < 2 → setByRange log10 pow10 limits n = .error .IndexError) ∧
    (∀ lo hi rest, limits = lo :: hi :: rest → ∃ f, setByRange log10 pow10 limits n = .ok (f, limits) ∧ f.length = n ∧
      (1 ≤ n → f[0]? = some (pow10 (log10 lo))) ∧ (2 ≤ n → f.getLast? = some (pow10 (log10 hi))) ∧
      ∀ i, i + 1 < n → f[i]? = some (pow10 ((i : α) * (log10 hi - log10 lo) / ((n - 1 : ℕ) : α) + log10 lo))) := by
  constructor
  · intro h
    match limits, h with
    | [], _ => rfl
    | [_], _ => rfl
  · rintro lo hi rest rfl
    refine ⟨NpF.logspace pow10 (log10 lo) (log10 hi) n, rfl, by simp, ?_, ?_, ?_⟩
    · exact NpF.logspace_head? pow10 _ _ n
    · exact NpF.logspace_getLast? pow10 _ _ n
    · exact NpF.logspace_getElem? pow10 _ _ n

example : setByRange (fun (x : ℚ) => x) (fun x => 2 * x) [1, 3] 5 = .ok ([2, 3, 4, 5, 6], [1, 3]) := by decide +kernel
example : setByRange (fun (x : ℚ) => x) (fun x => 2 * x) [1] 5 = .error .IndexError := by decide +kernel

/-- **getter `smooth_freq_range`**: first and last current smoothing frequency; `IndexError` iff there is none -/
theorem freq_range_get_spec (cur : List α) :
    (cur = [] → freqRangeGet cur = .error .IndexError) ∧
    (∀ a b, freqRangeGet cur = .ok (a, b) ↔ cur[0]? = some a ∧ cur.getLast? = some b) := by
  constructor
  · rintro rfl; rfl
  · intro a b
    unfold freqRangeGet
    cases h0 : cur[0]? <;> cases h1 : cur.getLast? <;> simp

example : freqRangeGet ([1, 2, 4] : List ℚ) = .ok (1, 4) := by decide +kernel

/-- **setter `smooth_freq_range = limits`**: the number of smoothing frequencies is the CURRENT one (`self.smooth_freq_points =
len(self.smooth_fa_freqs)`), the new grid runs from `limits[0]` to `limits[1]` -/
theorem freq_range_set_spec (log10 pow10 : α → α) (cur limits : List α) :
    (limits.length < 2 → freqRangeSet log10 pow10 cur limits = .error .IndexError) ∧
    (∀ lo hi rest, limits = lo :: hi :: rest → ∃ f, freqRangeSet log10 pow10 cur limits = .ok f ∧ f.length = cur.length ∧
      (1 ≤ cur.length → f[0]? = some (pow10 (log10 lo))) ∧ (2 ≤ cur.length → f.getLast? = some (pow10 (log10 hi)))) := by
  constructor
  · intro h
    match limits, h with
    | [], _ => rfl
    | [_], _ => rfl
  · rintro lo hi rest rfl
    refine ⟨NpF.logspace pow10 (log10 lo) (log10 hi) cur.length, rfl, by simp, ?_, ?_⟩
    · exact NpF.logspace_head? pow10 _ _ _
    · exact NpF.logspace_getLast? pow10 _ _ _

example : freqRangeSet (fun (x : ℚ) => x) (fun x => 2 * x) [7, 8, 9] [1, 3] = .ok [2, 4, 6] := by decide +kernel

/-- **setter `smooth_freq_points = value`**: `value` frequencies between the CURRENT first and last smoothing frequency (through
`log10` / `10 **`); `IndexError` iff there is no current smoothing frequency -/
theorem freq_points_set_spec (log10 pow10 : α → α) (cur : List α) (value : ℕ) :
    (cur = [] → freqPointsSet log10 pow10 cur value = .error .IndexError) ∧
    (∀ a b, cur[0]? = some a → cur.getLast? = some b → ∃ f, freqPointsSet log10 pow10 cur value = .ok f ∧ f.length = value ∧
      (1 ≤ value → f[0]? = some (pow10 (log10 a))) ∧ (2 ≤ value → f.getLast? = some (pow10 (log10 b)))) := by
  constructor
  · rintro rfl; rfl
  · intro a b ha hb
    refine ⟨NpF.logspace pow10 (log10 a) (log10 b) value, ?_, by simp, ?_, ?_⟩
    · simp [freqPointsSet, freqRangeGet, ha, hb]
    · exact NpF.logspace_head? pow10 _ _ _
    · exact NpF.logspace_getLast? pow10 _ _ _

example : freqPointsSet (fun (x : ℚ) => x) (fun x => 2 * x) [1, 8, 3] 5 = .ok [2, 3, 4, 5, 6] := by decide +kernel
example : freqPointsSet (fun (x : ℚ) => x) (fun x => 2 * x) [] 5 = .error .IndexError := by decide +kernel

end Setters

end EqsigVerif.Props.C07
