import EqsigVerif.Model.SpectraFns
import EqsigVerif.Model.ObjectSpectra
import EqsigVerif.Gen.SpecEnergy
import EqsigVerif.Gen.SpecObject
import EqsigVerif.Gen.SpecIm
import EqsigVerif.Lemmas.SpectraFns
import EqsigVerif.Lemmas.ObjectSpectra
import EqsigVerif.Props.C03
import EqsigVerif.Props.C03Compose
import Mathlib.Tactic.NormNum
/-!
# C03 — translator tie for the energy spectra, `AccSignal.gen_response_spectrum`, `calc_asi` / `calc_vsi`

`Gen/SpecEnergy.lean`, `Gen/SpecObject.lean`, `Gen/SpecIm.lean` are regenerated on every run by `tools/py2lean_x_spec2.py`
from `eqsig/sdof.py`, `eqsig/single.py`, `eqsig/im.py`.  Bridges: the generated definitions are the hand models
`Model.SpectraFns.respUkeSpectrum` / `inputEnergySpectrum` / `inputEnergySeries` (C03.e), `minNonZeroPeriod` / `targetDt` /
`genSpectrumInput` and `Model.ObjectSpectra.objectInput` / `objectSpectraWith` (C03.d), `asi` / `vsi` (C03.f) for all arguments,
error branches included; the callees (`response_series`, `pseudo_response_spectra`, `interp_array_to_approx_dt`) are parameters
applied to the arguments in the order of the source, exactly as in `Props/C03GenSpectra.lean`.
Consequences transport `resp_uke_spectrum_spec`, `input_energy_spectrum_spec`, `object_spectra_spec`,
`object_spectra_spec_partial`, `spectrum_intensity_spec` to the generated code.
-/
set_option linter.unusedSectionVars false
set_option linter.unusedVariables false
set_option linter.unusedSimpArgs false
namespace EqsigVerif.Props.C03
open EqsigVerif EqsigVerif.Model.SpectraFns
open EqsigVerif.Wire (ErrKind)

section Field
variable {α : Type} [Field α] [LinearOrder α] [IsStrictOrderedRing α]

/-! ## C03.e — `calc_resp_uke_spectrum`, `calc_input_energy_spectrum` -/

/-- **bridge** `calc_resp_uke_spectrum`: with the response arrays `(U, V, A)` returned by `response_series` for the record,
`periods` (default: the signal's `response_times`) and `xi` (default `0.05`), the generated function returns
`Model.SpectraFns.respUkeSpectrum V` -/
theorem gen_resp_uke_spectrum (resp : Gen.SpecEnergy.Resp α) (values : List α) (dt : α) (rt : List α)
    (periods : Option (List α)) (xi : Option α) (U V A : List (List α))
    (h : resp values dt (periods.getD rt) (xi.getD (1 / 20)) = .ok (U, V, A)) :
    Gen.SpecEnergy.calcRespUkeSpectrum resp values dt rt periods xi = .ok (respUkeSpectrum V) := by
  have h05 : (0.05 : α) = 1 / 20 := by norm_num
  have hk : ∀ v : List α, v.map (fun x0 => (0.5 : α) * (x0 * x0) * 1) = kinEnergy v := by
    intro v; simp only [kinEnergy]; congr 1; funext x; norm_num
  cases periods <;> cases xi <;>
    simp only [Gen.SpecEnergy.calcRespUkeSpectrum, Option.getD, h05] at h ⊢ <;>
    simp only [h, respUkeSpectrum, hk]

/-- an exception of `response_series` is the exception of `calc_resp_uke_spectrum` -/
theorem gen_resp_uke_spectrum_error (resp : Gen.SpecEnergy.Resp α) (values : List α) (dt : α) (rt : List α)
    (periods : Option (List α)) (xi : Option α) (e : ErrKind)
    (h : resp values dt (periods.getD rt) (xi.getD (1 / 20)) = .error e) :
    Gen.SpecEnergy.calcRespUkeSpectrum resp values dt rt periods xi = .error e := by
  have h05 : (0.05 : α) = 1 / 20 := by norm_num
  cases periods <;> cases xi <;>
    simp only [Gen.SpecEnergy.calcRespUkeSpectrum, Option.getD, h05] at h ⊢ <;> simp only [h]

/-- **bridge** `calc_input_energy_spectrum(series=False)` = `Model.SpectraFns.inputEnergySpectrum values V dt` -/
theorem gen_input_energy_spectrum (resp : Gen.SpecEnergy.Resp α) (values : List α) (dt : α) (rt : List α)
    (periods : Option (List α)) (xi : Option α) (U V A : List (List α))
    (h : resp values dt (periods.getD rt) (xi.getD (1 / 20)) = .ok (U, V, A)) :
    Gen.SpecEnergy.calcInputEnergySpectrum resp values dt rt periods xi = .ok (inputEnergySpectrum values V dt) := by
  have h05 : (0.05 : α) = 1 / 20 := by norm_num
  cases periods <;> cases xi <;>
    simp only [Gen.SpecEnergy.calcInputEnergySpectrum, Option.getD, h05] at h ⊢ <;>
    simp only [h, inputEnergySpectrum, powerRow]

/-- **bridge** `calc_input_energy_spectrum(series=True)` = `Model.SpectraFns.inputEnergySeries values V dt` -/
theorem gen_input_energy_series (resp : Gen.SpecEnergy.Resp α) (values : List α) (dt : α) (rt : List α)
    (periods : Option (List α)) (xi : Option α) (U V A : List (List α))
    (h : resp values dt (periods.getD rt) (xi.getD (1 / 20)) = .ok (U, V, A)) :
    Gen.SpecEnergy.calcInputEnergySeries resp values dt rt periods xi = .ok (inputEnergySeries values V dt) := by
  have h05 : (0.05 : α) = 1 / 20 := by norm_num
  cases periods <;> cases xi <;>
    simp only [Gen.SpecEnergy.calcInputEnergySeries, Option.getD, h05] at h ⊢ <;>
    simp only [h, inputEnergySeries, powerRow]

/-- an exception of `response_series` is the exception of both branches of `calc_input_energy_spectrum` -/
theorem gen_input_energy_error (resp : Gen.SpecEnergy.Resp α) (values : List α) (dt : α) (rt : List α)
    (periods : Option (List α)) (xi : Option α) (e : ErrKind)
    (h : resp values dt (periods.getD rt) (xi.getD (1 / 20)) = .error e) :
    Gen.SpecEnergy.calcInputEnergySpectrum resp values dt rt periods xi = .error e ∧
    Gen.SpecEnergy.calcInputEnergySeries resp values dt rt periods xi = .error e := by
  have h05 : (0.05 : α) = 1 / 20 := by norm_num
  cases periods <;> cases xi <;>
    simp only [Gen.SpecEnergy.calcInputEnergySpectrum, Gen.SpecEnergy.calcInputEnergySeries, Option.getD, h05] at h ⊢ <;>
    simp only [h, and_self]

/-- the default of `series` is `False` -/
theorem gen_input_energy_series_default : Gen.SpecEnergy.calcInputEnergySpectrumSeriesDefault = false := rfl

/-- **C03.e** for the generated `calc_resp_uke_spectrum`: one entry per period (row of the velocity response), entry `j` is
`Σ_i |½v_j[i+1]² − ½v_j[i]²|` -/
theorem gen_resp_uke_spectrum_spec (resp : Gen.SpecEnergy.Resp α) (values : List α) (dt : α) (rt : List α)
    (periods : Option (List α)) (xi : Option α) (U V A : List (List α))
    (h : resp values dt (periods.getD rt) (xi.getD (1 / 20)) = .ok (U, V, A)) (out : List α)
    (hout : Gen.SpecEnergy.calcRespUkeSpectrum resp values dt rt periods xi = .ok out) :
    out.length = V.length ∧
    ∀ j, j < V.length →
      out.getD j 0 = ∑ i ∈ Finset.range ((V.getD j []).length - 1),
        |(V.getD j []).getD (i + 1) 0 ^ 2 / 2 - (V.getD j []).getD i 0 ^ 2 / 2| := by
  rw [gen_resp_uke_spectrum resp values dt rt periods xi U V A h] at hout
  cases hout
  exact resp_uke_spectrum_spec V

/-- **C03.e** for the generated `calc_input_energy_spectrum`: entry `j` is `Σ_i a[i]·v_j[i]·dt`; with `series=True` the running
sums, whose last entry is the former (rows of the response have the record's length) -/
theorem gen_input_energy_spectrum_spec (resp : Gen.SpecEnergy.Resp α) (values : List α) (dt : α) (rt : List α)
    (periods : Option (List α)) (xi : Option α) (U V A : List (List α))
    (h : resp values dt (periods.getD rt) (xi.getD (1 / 20)) = .ok (U, V, A))
    (hrows : ∀ v ∈ V, v.length = values.length) :
    ∃ out ser, Gen.SpecEnergy.calcInputEnergySpectrum resp values dt rt periods xi = .ok out ∧
      Gen.SpecEnergy.calcInputEnergySeries resp values dt rt periods xi = .ok ser ∧
      out.length = V.length ∧ ser.length = V.length ∧
      ∀ j, j < V.length →
        out.getD j 0 = ∑ i ∈ Finset.range values.length, values.getD i 0 * (V.getD j []).getD i 0 * dt ∧
        (ser.getD j []).length = values.length ∧
        ∀ i, i < values.length →
          (ser.getD j []).getD i 0 = ∑ i' ∈ Finset.range (i + 1), values.getD i' 0 * (V.getD j []).getD i' 0 * dt :=
  ⟨_, _, gen_input_energy_spectrum resp values dt rt periods xi U V A h,
    gen_input_energy_series resp values dt rt periods xi U V A h,
    input_energy_spectrum_spec values V dt hrows⟩

/-! ## C03.d — `AccSignal.gen_response_spectrum` -/

theorem pyAt_cons_zero (x : α) (xs : List α) : NpT.pyAt (x :: xs) 0 = .ok x := rfl

/-- **bridge** `min_non_zero_period` = `Model.SpectraFns.minNonZeroPeriod` (errors included) -/
theorem gen_spec_min_non_zero_period (rt : List α) :
    Gen.SpecObject.genSpecMinNonZeroPeriod rt = minNonZeroPeriod rt := by
  cases rt with
  | nil => rfl
  | cons t0 rest =>
    simp only [Gen.SpecObject.genSpecMinNonZeroPeriod, minNonZeroPeriod, pyAt_cons_zero]
    by_cases h0 : t0 = 0
    · simp only [h0, ne_eq, not_true_eq_false, if_false]
      cases rest <;> rfl
    · simp only [h0, ne_eq, not_false_eq_true, if_true]

/-- **bridge** `target_dt` = `Model.SpectraFns.targetDt` (`IndexError`, `ZeroDivisionError` included) -/
theorem gen_spec_target_dt (rt : List α) (dt ratio : α) :
    Gen.SpecObject.genSpecTargetDt rt dt ratio = targetDt rt dt ratio := by
  simp only [Gen.SpecObject.genSpecTargetDt, targetDt, gen_spec_min_non_zero_period, NpR.pyDivE]
  cases minNonZeroPeriod rt with
  | error e => rfl
  | ok m =>
    by_cases hr : ratio = 0
    · simp [hr]
    · simp [hr]

/-- **bridge** the interpolation decision = `Model.SpectraFns.genSpectrumInput`: the raw record iff `¬ target_dt < dt`, else
`interp_array_to_approx_dt(values, dt, target_dt, even=False)` -/
theorem gen_spec_input_decision (interp : List α → α → α → Bool → Except ErrKind (List α × α))
    (values : List α) (dt : α) (rt : List α) (ratio : α) :
    Gen.SpecObject.genSpecInput interp values dt rt ratio =
      match genSpectrumInput rt dt ratio with
      | .error e => .error e
      | .ok .raw => .ok (values, dt)
      | .ok (.interp t) => interp values dt t false := by
  simp only [Gen.SpecObject.genSpecInput, genSpectrumInput, gen_spec_target_dt]
  cases targetDt rt dt ratio with
  | error e => rfl
  | ok t => by_cases h : t < dt <;> simp [h]

/-- the damping sentinel and the defaults of the signature: `xi = -1`, `min_dt_ratio = 4`, `_cached_xi = 0.05`, so the
lazy properties `s_a / s_v / s_d` (no arguments) use `xi = 0.05`, `min_dt_ratio = 4` -/
theorem gen_spec_defaults :
    (Gen.SpecObject.genSpecXiDefault : α) = -1 ∧ (Gen.SpecObject.genSpecMinDtRatioDefault : α) = 4 ∧
    (Gen.SpecObject.genSpecCachedXiInit : α) = 1 / 20 ∧
    (∀ cx xi : α, Gen.SpecObject.genSpecXi cx xi = if xi = -1 then cx else xi) ∧
    Gen.SpecObject.genSpecXi (Gen.SpecObject.genSpecCachedXiInit : α) Gen.SpecObject.genSpecXiDefault = 1 / 20 := by
  refine ⟨rfl, rfl, by simp only [Gen.SpecObject.genSpecCachedXiInit]; norm_num, fun _ _ => rfl, ?_⟩
  simp only [Gen.SpecObject.genSpecXi, Gen.SpecObject.genSpecXiDefault, Gen.SpecObject.genSpecCachedXiInit, if_true]
  norm_num

end Field

open EqsigVerif.Model.TimeStep EqsigVerif.Model.ObjectSpectra in
/-- **bridge** `(values_interp, dt_interp)` with the C14 model of `interp_array_to_approx_dt` as the callee is
`Model.ObjectSpectra.objectInput` -/
theorem gen_spec_object_input (values : List ℚ) (dt : ℚ) (rt : List ℚ) (ratio : ℚ) :
    Gen.SpecObject.genSpecInput interpArrayToApproxDt values dt rt ratio = objectInput values dt rt ratio := by
  simp only [Gen.SpecObject.genSpecInput, objectInput, gen_spec_target_dt]
  cases targetDt rt dt ratio with
  | error e => rfl
  | ok t => by_cases h : t < dt <;> simp [h]

open EqsigVerif.Model.TimeStep EqsigVerif.Model.ObjectSpectra in
/-- **bridge** the whole method = `Model.ObjectSpectra.objectSpectraWith` (`cast = id`): with the C14 interpolation model and
`pseudo_response_spectra` = reductions of the displacement rows `respU xi`, the generated `gen_response_spectrum` stores the given
`response_times` and the `(s_d, s_v, s_a)` of the hand model (errors included); `xi` is resolved by the sentinel rule -/
theorem gen_response_spectrum_eq (twoPi : ℚ) (respU : ℚ → List ℚ → ℚ → List ℚ → Except ErrKind (List (List ℚ)))
    (values : List ℚ) (dt : ℚ) (selfRt : List ℚ) (cx : ℚ) (rtArg : Option (List ℚ)) (xi ratio : ℚ) :
    Gen.SpecObject.genResponseSpectrum interpArrayToApproxDt
        (fun m d p x => pseudoResponseSpectra twoPi (respU x) m d p) values dt selfRt cx rtArg xi ratio =
      match objectSpectraWith id twoPi (respU (Gen.SpecObject.genSpecXi cx xi)) values dt (rtArg.getD selfRt) ratio with
      | .error e => .error e
      | .ok r => .ok (rtArg.getD selfRt, r.1, r.2.1, r.2.2) := by
  cases rtArg with
  | none =>
    simp only [Gen.SpecObject.genResponseSpectrum, Option.getD, gen_spec_object_input, objectSpectraWith,
      List.map_id_fun, id_eq]
    generalize objectInput values dt selfRt ratio = oi
    rcases oi with e | ⟨vi, di⟩
    · rfl
    · dsimp only
      cases pseudoResponseSpectra twoPi (respU (Gen.SpecObject.genSpecXi cx xi)) vi di selfRt <;> rfl
  | some r =>
    simp only [Gen.SpecObject.genResponseSpectrum, Option.getD, gen_spec_object_input, objectSpectraWith,
      List.map_id_fun, id_eq]
    generalize objectInput values dt r ratio = oi
    rcases oi with e | ⟨vi, di⟩
    · rfl
    · dsimp only
      cases pseudoResponseSpectra twoPi (respU (Gen.SpecObject.genSpecXi cx xi)) vi di r <;> rfl

section Generic
variable {α : Type} [LT α] [DecidableLT α] [Neg α] [OfNat α 0] [OfNat α 1] [OfNat α 2] [OfNat α 6]
  [Add α] [Sub α] [Mul α] [Div α] [DecidableEq α]
open EqsigVerif.Model.TimeStep EqsigVerif.Model.Sdof EqsigVerif.Model.ObjectSpectra

/-- **C03.d (a)** for the generated step rule: with `Tmin` the first period unless it is 0 (then the second), `dt > 0`,
`min_dt_ratio > 0` and `target_dt = max(Tmin/20, dt/min_dt_ratio)`, the generated `(values_interp, dt_interp)` is the raw record
when `dt ≤ target_dt`, and otherwise `(interpValues values k false, dt/k)` with the integer `k = ⌈dt/target_dt⌉ ≥ 2`,
`dt/k ≤ target_dt`, `dt/(dt/k) = k`; in both cases the object's spectra (hand model, any number type, any propagator) are
`pseudo_response_spectra` of exactly that pair. -/
theorem gen_object_spectra_spec (cast : ℚ → α) (twoPi c : α) (isZero : α → Bool) (ab : α → α → α → AB α) (xi : α)
    (values : List ℚ) (dt ratio : ℚ) (rt : List ℚ) (Tmin : ℚ)
    (hmin : Gen.SpecObject.genSpecMinNonZeroPeriod rt = .ok Tmin) (hdt : 0 < dt) (hr : 0 < ratio) :
    let target := max (Tmin / 20) (dt / ratio)
    let spectraOf := fun (v : List ℚ) (d : ℚ) =>
      pseudoResponseSpectra twoPi (respRowsU c isZero ab xi) (v.map cast) (cast d) (rt.map cast)
    Gen.SpecObject.genSpecTargetDt rt dt ratio = .ok target ∧ 0 < target ∧
    (dt ≤ target →
      Gen.SpecObject.genSpecInput interpArrayToApproxDt values dt rt ratio = .ok (values, dt) ∧
      objectSpectra cast twoPi c isZero ab xi values dt rt ratio = spectraOf values dt) ∧
    (target < dt →
      ∃ k : ℕ, 2 ≤ k ∧ (k : ℚ) = ((⌈dt / target⌉ : ℤ) : ℚ) ∧ dt / (k : ℚ) ≤ target ∧ dt / (dt / (k : ℚ)) = (k : ℚ) ∧
        Gen.SpecObject.genSpecInput interpArrayToApproxDt values dt rt ratio =
          .ok (interpValues values (k : ℚ) false, dt / (k : ℚ)) ∧
        objectSpectra cast twoPi c isZero ab xi values dt rt ratio =
          spectraOf (interpValues values (k : ℚ) false) (dt / (k : ℚ))) := by
  intro target spectraOf
  rw [gen_spec_min_non_zero_period] at hmin
  obtain ⟨h1, h2, h3, h4⟩ := object_spectra_spec cast twoPi c isZero ab xi values dt ratio rt Tmin hmin hdt hr
  refine ⟨by rw [gen_spec_target_dt]; exact h1, h2, fun hge => ?_, fun hlt => ?_⟩
  · obtain ⟨a, b⟩ := h3 hge
    exact ⟨by rw [gen_spec_object_input]; exact a, b⟩
  · obtain ⟨k, hk2, _, hceil, hle, hq, _, hin, hs⟩ := h4 hlt
    exact ⟨k, hk2, hceil, hle, hq, by rw [gen_spec_object_input]; exact hin, hs⟩

end Generic

section Field2
variable {α : Type} [Field α] [LinearOrder α] [IsStrictOrderedRing α]

/-- **C03.d** decision rule of the generated code (any ordered field): for at least two periods and `min_dt_ratio ≠ 0`,
`target_dt = max(Tmin/20, dt/min_dt_ratio)`, the record is interpolated (`even=False`, towards `target_dt`) iff
`target_dt < dt`; for `dt, min_dt_ratio > 0` that is iff `Tmin < 20·dt` and `min_dt_ratio > 1` -/
theorem gen_spec_input_rule (interp : List α → α → α → Bool → Except ErrKind (List α × α))
    (values : List α) (rt : List α) (dt ratio : α) (hr : ratio ≠ 0) (hrt : 2 ≤ rt.length) :
    let Tmin := if rt.getD 0 0 ≠ 0 then rt.getD 0 0 else rt.getD 1 0
    let target := max (Tmin / 20) (dt / ratio)
    Gen.SpecObject.genSpecTargetDt rt dt ratio = .ok target ∧
    Gen.SpecObject.genSpecInput interp values dt rt ratio =
      (if target < dt then interp values dt target false else .ok (values, dt)) ∧
    (0 < dt → 0 < ratio → (target < dt ↔ Tmin < 20 * dt ∧ 1 < ratio)) := by
  intro Tmin target
  obtain ⟨h1, h2, h3⟩ := object_spectra_spec_partial rt dt ratio hr hrt
  refine ⟨by rw [gen_spec_target_dt]; exact h1, ?_, h3⟩
  rw [gen_spec_input_decision, h2]
  by_cases h : target < dt
  · rw [if_pos h, if_pos h]
  · rw [if_neg h, if_neg h]

/-! ## C03.f — `calc_asi`, `calc_vsi` -/

/-- **bridge** `calc_asi`: with the pseudo spectra `(sds, psv, psa)` returned by `pseudo_response_spectra` for the record, the
period grid (default `np.arange(0.1, 1.51, 0.01)`) and `xi`, the generated function is `Model.SpectraFns.asi 0.01 9.81 psa` -/
theorem gen_calc_asi (pseudo : Gen.SpecIm.Pseudo α) (arange : α → α → α → List α) (values : List α) (dt xi : α)
    (periods : Option (List α)) (sds psv psa : List α)
    (h : pseudo values dt (periods.getD (arange (1 / 10) (151 / 100) (1 / 100))) xi = .ok (sds, psv, psa)) :
    Gen.SpecIm.calcAsi pseudo arange values dt xi periods = asi (1 / 100) (981 / 100) psa := by
  have e1 : (0.1 : α) = 1 / 10 := by norm_num
  have e2 : (1.51 : α) = 151 / 100 := by norm_num
  have e3 : (0.01 : α) = 1 / 100 := by norm_num
  have e4 : (9.81 : α) = 981 / 100 := by norm_num
  cases periods <;>
    simp only [Gen.SpecIm.calcAsi, Option.getD, e1, e2, e3, e4] at h ⊢ <;>
    simp only [h, asi, spectrumIntensity] <;>
    cases Np.maxL? (List.map (fun x0 => 1 / 100 * x0) (cumtrapzNoInit (Np.absL psa))) <;> rfl

/-- **bridge** `calc_vsi` (the LAST of the two identical definitions in `im.py` binds the name): `Model.SpectraFns.vsi 0.01 psv`
at the grid `np.arange(0.1, 2.51, 0.01)` by default -/
theorem gen_calc_vsi (pseudo : Gen.SpecIm.Pseudo α) (arange : α → α → α → List α) (values : List α) (dt xi : α)
    (periods : Option (List α)) (sds psv psa : List α)
    (h : pseudo values dt (periods.getD (arange (1 / 10) (251 / 100) (1 / 100))) xi = .ok (sds, psv, psa)) :
    Gen.SpecIm.calcVsi pseudo arange values dt xi periods = vsi (1 / 100) psv := by
  have e1 : (0.1 : α) = 1 / 10 := by norm_num
  have e2 : (2.51 : α) = 251 / 100 := by norm_num
  have e3 : (0.01 : α) = 1 / 100 := by norm_num
  cases periods <;>
    simp only [Gen.SpecIm.calcVsi, Option.getD, e1, e2, e3] at h ⊢ <;>
    simp only [h, vsi, spectrumIntensity] <;>
    cases Np.maxL? (List.map (fun x0 => 1 / 100 * x0) (cumtrapzNoInit (Np.absL psv))) <;> rfl

/-- an exception of `pseudo_response_spectra` is the exception of `calc_asi` / `calc_vsi`; the default damping of both is `0.05` -/
theorem gen_calc_asi_vsi_error (pseudo : Gen.SpecIm.Pseudo α) (arange : α → α → α → List α) (values : List α) (dt xi : α)
    (periods : Option (List α)) (e : ErrKind) :
    (pseudo values dt (periods.getD (arange (1 / 10) (151 / 100) (1 / 100))) xi = .error e →
      Gen.SpecIm.calcAsi pseudo arange values dt xi periods = .error e) ∧
    (pseudo values dt (periods.getD (arange (1 / 10) (251 / 100) (1 / 100))) xi = .error e →
      Gen.SpecIm.calcVsi pseudo arange values dt xi periods = .error e) ∧
    (Gen.SpecIm.calcAsiXiDefault : α) = 1 / 20 ∧ (Gen.SpecIm.calcVsiXiDefault : α) = 1 / 20 := by
  have e1 : (0.1 : α) = 1 / 10 := by norm_num
  have e2 : (1.51 : α) = 151 / 100 := by norm_num
  have e2' : (2.51 : α) = 251 / 100 := by norm_num
  have e3 : (0.01 : α) = 1 / 100 := by norm_num
  refine ⟨fun h => ?_, fun h => ?_, by simp only [Gen.SpecIm.calcAsiXiDefault]; norm_num,
    by simp only [Gen.SpecIm.calcVsiXiDefault]; norm_num⟩
  · cases periods <;> simp only [Gen.SpecIm.calcAsi, Option.getD, e1, e2, e3] at h ⊢ <;> simp only [h]
  · cases periods <;> simp only [Gen.SpecIm.calcVsi, Option.getD, e1, e2', e3] at h ⊢ <;> simp only [h]

/-- **C03.f** for the generated `calc_asi` / `calc_vsi`: on the pseudo spectra `(sds, psv, psa)` of their callee,
`calc_vsi = max(0.01·cumtrapz(|psv|))`, `calc_asi = max(0.01·cumtrapz(|psa|)) / 9.81` (`cumtrapz`: unit spacing, one entry
less than the spectrum — see `spectrum_intensity_spec`), the maximum being attained; `ValueError` iff fewer than two periods -/
theorem gen_spectrum_intensity_spec (pseudo : Gen.SpecIm.Pseudo α) (arange : α → α → α → List α) (values : List α) (dt xi : α)
    (pa pv : List α) (sdsA psvA psa sdsV psv psaV : List α)
    (ha : pseudo values dt pa xi = .ok (sdsA, psvA, psa)) (hv : pseudo values dt pv xi = .ok (sdsV, psv, psaV)) :
    (psa.length < 2 → Gen.SpecIm.calcAsi pseudo arange values dt xi (some pa) = .error .ValueError) ∧
    (psv.length < 2 → Gen.SpecIm.calcVsi pseudo arange values dt xi (some pv) = .error .ValueError) ∧
    (2 ≤ psa.length → ∃ m, Gen.SpecIm.calcAsi pseudo arange values dt xi (some pa) = .ok (m / (981 / 100)) ∧
      (∀ x ∈ cumtrapzNoInit (Np.absL psa), 1 / 100 * x ≤ m) ∧ ∃ x ∈ cumtrapzNoInit (Np.absL psa), 1 / 100 * x = m) ∧
    (2 ≤ psv.length → ∃ m, Gen.SpecIm.calcVsi pseudo arange values dt xi (some pv) = .ok m ∧
      (∀ x ∈ cumtrapzNoInit (Np.absL psv), 1 / 100 * x ≤ m) ∧ ∃ x ∈ cumtrapzNoInit (Np.absL psv), 1 / 100 * x = m) := by
  rw [gen_calc_asi pseudo arange values dt xi (some pa) sdsA psvA psa (by simpa using ha),
    gen_calc_vsi pseudo arange values dt xi (some pv) sdsV psv psaV (by simpa using hv)]
  obtain ⟨_, _, _, a4, a5⟩ := spectrum_intensity_spec (1 / 100 : α) (981 / 100) psa
  obtain ⟨_, _, _, v4, v5⟩ := spectrum_intensity_spec (1 / 100 : α) (981 / 100) psv
  refine ⟨fun h => (a4 h).2, fun h => (v4 h).1, fun h => ?_, fun h => ?_⟩
  · obtain ⟨m, _, hm, h1, h2⟩ := a5 h
    exact ⟨m, hm, h1, h2⟩
  · obtain ⟨m, hm, _, h1, h2⟩ := v5 h
    exact ⟨m, hm, h1, h2⟩

end Field2

/-! ## concrete instances (`ℚ`, stub callees) -/
private def respQ2 : Gen.SpecEnergy.Resp Rat := fun _ _ ps _ =>
  if ps.length = 2 then .ok ([[0, 0, 0], [1, 2, -3]], [[0, 2, -4], [1, 1, 1]], [[1, -2, 1], [1, 1, 1]])
  else .error .IndexError
private def pseudoQ : Gen.SpecIm.Pseudo Rat := fun _ _ ps _ =>
  if ps.length = 3 then .ok ([1, 1, 1], [1, -3, 2], [2, -6, 4]) else if ps.length = 1 then .ok ([1], [1], [1]) else .error .IndexError
private def arangeQ : Rat → Rat → Rat → List Rat := fun a _ c => [a, a + c, a + 2 * c]

example : Gen.SpecEnergy.calcRespUkeSpectrum respQ2 [1, 2, 3] (1/2) [1, 2] none none = .ok [8, 0] := by decide +kernel
example : Gen.SpecEnergy.calcRespUkeSpectrum respQ2 [1, 2, 3] (1/2) [1, 2] (some [5]) none = .error .IndexError := by
  decide +kernel
example : Gen.SpecEnergy.calcInputEnergySpectrum respQ2 [1, 2, 3] (1/2) [1, 2] none (some (1/10)) = .ok [-4, 3] := by
  decide +kernel
example : Gen.SpecEnergy.calcInputEnergySeries respQ2 [1, 2, 3] (1/2) [1, 2] none none = .ok [[0, 2, -4], [1/2, 3/2, 3]] := by
  decide +kernel
example : Gen.SpecObject.genSpecMinNonZeroPeriod ([0, 5, 8] : List Rat) = .ok 5 := by decide +kernel
example : [Gen.SpecObject.genSpecTargetDt ([0, 5, 8] : List Rat) (1/2) 4, Gen.SpecObject.genSpecTargetDt ([0] : List Rat) (1/2) 4,
    Gen.SpecObject.genSpecTargetDt ([1] : List Rat) (1/2) 0] = [.ok (1/4), .error .IndexError, .error .ZeroDivisionError] := by
  decide +kernel
example : Gen.SpecObject.genSpecInput Model.TimeStep.interpArrayToApproxDt [1, -2, 3] (1/2) [0, 5, 8] 4
    = .ok ([1, -1/2, -2, 1/2, 3, 3], 1/4) := by decide +kernel
example : Gen.SpecObject.genSpecInput Model.TimeStep.interpArrayToApproxDt [1, -2, 3] (1/2) [20, 30] 4
    = .ok ([1, -2, 3], 1/2) := by decide +kernel
example : Gen.SpecObject.genSpecXi (1/20 : Rat) (-1) = 1/20 ∧ Gen.SpecObject.genSpecXi (1/20 : Rat) (1/5) = 1/5 := by
  decide +kernel
example : Gen.SpecObject.genResponseSpectrum Model.TimeStep.interpArrayToApproxDt
    (fun m d p x => .ok (p, m, [d, x])) [1, -2, 3] (1/2) [7] (1/20) (some [0, 5, 8]) (-1) 4
    = .ok ([0, 5, 8], [0, 5, 8], [1, -1/2, -2, 1/2, 3, 3], [1/4, 1/20]) := by decide +kernel
example : Gen.SpecIm.calcVsi pseudoQ arangeQ [1, 2] (1/2) (1/20) none = .ok (9/200) := by decide +kernel
example : Gen.SpecIm.calcAsi pseudoQ arangeQ [1, 2] (1/2) (1/20) none = .ok (3/327) := by decide +kernel
example : Gen.SpecIm.calcAsi pseudoQ arangeQ [1, 2] (1/2) (1/20) (some [1]) = .error .ValueError := by decide +kernel

end EqsigVerif.Props.C03
