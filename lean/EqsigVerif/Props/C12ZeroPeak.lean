import EqsigVerif.Model.Single3
import EqsigVerif.Lemmas.Single3
/-!
# C12 family — `get_zero_and_peak_array_indices`, `get_major_change_indices` (`eqsig/fns/peaks_and_crossings.py`)

Model: `Model/Single3.lean` (`zpStep`/`zpLoop`/`zpFinish`/`zeroPeakCore`, `getZeroAndPeakArrayIndices` on top of the C12 models
`Model.Switched.switchedPeaksE` / `zeroCrossingsE`; `majorLoop`/`getMajorChangeIndices`).  Specification theorems: what a returned pair
`(ci, piz)` satisfies (interleaving `ci[k] < piz[k] < ci[k+1]`, strictly increasing, members of the callees' outputs), which exceptions can
occur, and kernel-checked witnesses of the two observed weaknesses (an `IndexError` on a three-sample record; a dropped crossing).
-/
set_option linter.unusedSectionVars false
set_option linter.unusedVariables false
namespace EqsigVerif.Props.C12
open EqsigVerif EqsigVerif.Wire EqsigVerif.Np EqsigVerif.NpV EqsigVerif.Model.Single3 EqsigVerif.Lemmas.Single3

/-- **specification of a returned pair**: if everything after the two callees returns `(c, p)` for `peak_indices = pk`, crossings `= ci`, then
either both are empty (fewer than two pairs were found) or: equal lengths `≥ 2`; every `c[k]` is one of the zero crossings and every `p[k]` one of
the switched peaks; they interleave, `c[k] < p[k]` and `p[k] < c[k+1]`; hence both are strictly increasing -/
theorem zero_peak_spec (pk ci : List Int) (m : Int) (c p : List Int) (h : zeroPeakCore pk ci m = .ok (c, p)) :
    (c = [] ∧ p = []) ∨
    (2 ≤ c.length ∧ c.length = p.length ∧ (∀ x ∈ c, x ∈ ci) ∧ (∀ x ∈ p, x ∈ pk) ∧
      (∀ k (h1 : k < c.length) (h2 : k < p.length), c[k] < p[k]) ∧
      (∀ k (h1 : k + 1 < c.length) (h2 : k < p.length), p[k] < c[k + 1]) ∧
      (∀ k (h1 : k + 1 < c.length), c[k] < c[k + 1]) ∧ (∀ k (h1 : k + 1 < p.length), p[k] < p[k + 1])) := by
  unfold zeroPeakCore at h
  cases hl : zpLoop pk ci m (List.range' 1 (ci.length - 1)) ⟨0, [], []⟩ with
  | error k => rw [hl] at h; cases h
  | ok s =>
    rw [hl] at h
    simp only [bind, Except.bind] at h
    obtain ⟨hlen, hci, hpk⟩ := zpLoop_inv pk ci m _ _ s ⟨rfl, by simp, by simp⟩ hl
    unfold zpFinish at h
    split at h
    · cases h; exact Or.inl ⟨rfl, rfl⟩
    · rename_i h2
      simp only [bind, Except.bind] at h
      split at h
      · cases h
      · rename_i u1 ha1
        split at h
        · cases h
        · rename_i u2 ha2
          split at h
          · cases h
          · split at h
            · cases h
            · cases h
              have a1 := assertE_ok _ _ ha1
              have a2 := assertE_ok _ _ ha2
              have hint : ∀ k (h1 : k < s.newCi.length) (h2 : k < s.newPi.length), s.newCi[k] < s.newPi[k] := by
                intro k h1 h2'
                have := all_zipWith_get s.newPi s.newCi a1 k h2' h1
                have := of_decide_eq_true this
                omega
              have hnext : ∀ k (h1 : k + 1 < s.newCi.length) (h2 : k < s.newPi.length), s.newPi[k] < s.newCi[k + 1] := by
                intro k h1 h2'
                have hd : k < s.newPi.dropLast.length := by simp; omega
                have hc : k < (s.newCi.drop 1).length := by simp; omega
                have := of_decide_eq_true (all_zipWith_get s.newPi.dropLast (s.newCi.drop 1) a2 k hd hc)
                simp only [List.getElem_dropLast, List.getElem_drop] at this
                have e : s.newCi[1 + k] = s.newCi[k + 1] := by congr 1; omega
                rw [e] at this
                omega
              refine Or.inr ⟨by omega, hlen, hci, hpk, hint, hnext, ?_, ?_⟩
              · intro k h1
                exact lt_trans (hint k (by omega) (by omega)) (hnext k h1 (by omega))
              · intro k h1
                exact lt_trans (hnext k (by omega) (by omega)) (hint (k + 1) (by omega) h1)

example : zeroPeakCore [1, 3, 5, 7, 9] [0, 2, 4, 6, 8, 10] 0 = .ok ([2, 4, 6], [3, 5, 7]) := by decide +kernel

/-- the whole function is the C12 models of `get_switched_peak_array_indices(pvals)` / `get_zero_crossings_array_indices(zvals)` followed by the
core; `zvals=None` means `zvals = pvals`; an empty `pvals` (or `zvals`) raises `IndexError` (in the callees) -/
theorem zero_peak_entry (pvals : List ℚ) (zvals : Option (List ℚ)) (m : Int) :
    getZeroAndPeakArrayIndices pvals none m = getZeroAndPeakArrayIndices pvals (some pvals) m ∧
    getZeroAndPeakArrayIndices [] zvals m = .error .IndexError ∧
    (pvals ≠ [] → getZeroAndPeakArrayIndices pvals (some []) m = .error .IndexError) ∧
    (pvals ≠ [] → (zvals.getD pvals) ≠ [] → getZeroAndPeakArrayIndices pvals zvals m =
      zeroPeakCore ((Model.Switched.switchedPeaksOut pvals 0).map Int.ofNat)
        ((Model.Switched.zeroCrossings (zvals.getD pvals) false 0).map Int.ofNat) m) := by
  refine ⟨rfl, rfl, ?_, ?_⟩
  · intro h
    cases pvals with
    | nil => exact absurd rfl h
    | cons x xs => rfl
  · intro h hz
    cases pvals with
    | nil => exact absurd rfl h
    | cons x xs =>
      cases zvals with
      | none => rfl
      | some z =>
        cases z with
        | nil => exact absurd rfl hz
        | cons y ys => rfl

example : getZeroAndPeakArrayIndices [0, 1, 0, -1, 0, 2, 0, -2, 0, 1, 0] none 0 = .ok ([4, 6, 8], [5, 7, 9]) := by decide +kernel

/-- **witness 1** (kernel-checked, = Python): the three-sample record `[-2, 1, -2]` (switched peaks `[0, 1, 2]`, crossings `[0, 1, 2]`) raises
`IndexError`: after `cc -= 1` the test `i - cc + 1 == len(peak_indices)` is stepped over and `peak_indices[i - cc]` is out of range -/
example : getZeroAndPeakArrayIndices [-2, 1, -2] none 0 = .error .IndexError ∧
    zeroPeakCore [0, 1, 2] [0, 1, 2] 0 = .error .IndexError := by decide +kernel

/-- **witness 2** (kernel-checked, = Python): on the clean oscillation `0 1 2 1 −1 −3 −1 2 4 1 −2 −1 3 1 −1` (peaks `0 2 5 8 10 12 14`, crossings
`0 4 7 10 12 14`) the crossing `4` (followed by the peak `5`) is dropped — when `c >= p1` the loop shifts the peak window AND moves on to the next
crossing — only the pair `(7, 8)` is found and the function returns `([], [])` -/
example : zeroPeakCore [0, 2, 5, 8, 10, 12, 14] [0, 4, 7, 10, 12, 14] 0 = .ok ([], []) ∧
    getZeroAndPeakArrayIndices [0, 1, 2, 1, -1, -3, -1, 2, 4, 1, -2, -1, 3, 1, -1] none 0 = .ok ([], []) := by decide +kernel

/-! ## `get_major_change_indices` -/

/-- specification of `get_major_change_indices` (`n = len(dydx)`): the result is `0`, then strictly increasing interior indices `e` with
`1 ≤ e` and `e + 1 < n` (each is the END of a run whose mean slope is not `isclose` to `dydx[e+1]`), then `n − 1`; `y[0]` of an empty `y` is
`IndexError` (unless `already_diff`) -/
theorem major_change_spec (y : List ℚ) (rtol atol : ℚ) (ad : Bool) (dx : ℚ) (inds : List Int)
    (h : getMajorChangeIndices y rtol atol ad dx = .ok inds) :
    ∃ (dydx : List ℚ) (mid : List Nat), majorDydx y ad dx = .ok dydx ∧
      inds = (0 : Int) :: mid.map Int.ofNat ++ [(dydx.length : Int) - 1] ∧
      (∀ e ∈ mid, 1 ≤ e ∧ e + 1 < dydx.length) ∧ mid.Pairwise (· < ·) ∧ (ad = true → dydx = y) ∧
      (ad = false → dydx.length = y.length ∧ y ≠ []) := by
  unfold getMajorChangeIndices at h
  cases hd : majorDydx y ad dx with
  | error k => rw [hd] at h; cases h
  | ok dydx =>
    rw [hd] at h
    simp only [bind, Except.bind] at h
    cases h
    obtain ⟨h1, h2⟩ := majorLoop_spec dydx rtol atol dydx.length 0 1
    refine ⟨dydx, _, rfl, rfl, fun e he => ⟨by have := (h1 e he).1; omega, (h1 e he).2⟩, h2, ?_, ?_⟩
    · intro ha; subst ha
      unfold majorDydx at hd; simp at hd; exact hd.symm
    · intro ha; subst ha
      unfold majorDydx at hd
      simp only [Bool.false_eq_true, if_false] at hd
      cases y with
      | nil => cases hd
      | cons y0 ys =>
        simp only [] at hd
        split at hd
        · cases hd
        · cases hd
          refine ⟨?_, by simp⟩
          have : ∀ (p : ℚ) (l : List ℚ), (Np.diffFrom p l).length = l.length := by
            intro p l; induction l generalizing p with
            | nil => rfl
            | cons a as ih => simp [Np.diffFrom, ih]
          simp [this]

example : getMajorChangeIndices [0, 1, 2, 3, 3, 3, 3, 5, 7, 9] (1/100000000) (1/100000) false 1 = .ok [0, 1, 3, 6, 9] ∧
    getMajorChangeIndices [] 0 0 false 1 = .error .IndexError ∧ getMajorChangeIndices [] 0 0 true 1 = .ok [0, -1] := by decide +kernel

end EqsigVerif.Props.C12
