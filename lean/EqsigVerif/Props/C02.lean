import EqsigVerif.Model.Sdof
import EqsigVerif.Model.Spectra
import EqsigVerif.Lemmas.Sdof
import EqsigVerif.Lemmas.Spectra
import EqsigVerif.Lemmas.SdofODE
import EqsigVerif.Lemmas.SdofRefine
import EqsigVerif.Gen.SdofABReal
import Mathlib.Algebra.Order.Ring.Rat
import Mathlib.Tactic.NormNum
/-!
# C02 — the response operator is linear, causal, shift-invariant, row-independent

`response c isZero ab xi acc periods` is the model of `nigam_and_jennings_response(acc, dt, periods, xi)`
(`Model/Sdof.lean`); `ab : α → AB α` is the propagator as a function of `w` — every theorem of this
file holds for **any** propagator over any field, so none depends on `Gen/`.
Helper vocabulary (`Lemmas/Sdof.lean`): `linL c d a b` = `c•a + d•b` sample by sample, `lin3` the same on
the three series of a row, `map3 f` = `f` on each of the three series, `zeroRow acc` = the row of a
leading zero period, `rowOf c ab xi acc p = rowFor ab xi (c / p) (−acc)` = the row of a non-zero period.
`refine r a` (`Lemmas/SdofRefine.lean`) = the record with `r − 1` linearly interpolated samples inserted in
every panel; `Sampled3 r n F C` = each of the three series of row `F`, read at indices `r·i`, `i < n`, equals row `C`.
-/
set_option linter.unusedSectionVars false
set_option linter.unusedVariables false
namespace EqsigVerif.Props.C02
open EqsigVerif.Model.Sdof EqsigVerif.Model.Spectra

variable {α : Type} [Field α]

/-- a concrete propagator over `ℚ` used by the non-vacuity examples -/
private def abQ : Rat → AB Rat := fun w => ⟨1, w, -w, 1 / 2, 1, 2, 3, -1⟩
private def isZ : Rat → Bool := fun p => p == 0

/-- **C02.a** linearity: the response (all three series of every row, leading zero row included) of
`k•a + d•b` is `k•resp a + d•resp b`, for any propagator. -/
theorem resp_linear (c : α) (isZero : α → Bool) (ab : α → AB α) (xi k d : α) (a b : List α)
    (hl : a.length = b.length) (ps : List α) (ra rb : List (List α × List α × List α))
    (ha : response c isZero ab xi a ps = some ra) (hb : response c isZero ab xi b ps = some rb) :
    response c isZero ab xi (linL k d a b) ps = some (List.zipWith (lin3 k d) ra rb) := by
  rw [response_lin c isZero ab xi a b hl k d ps, ha, hb]; rfl

example : response 6 isZ abQ (1/2) (linL 2 (-3) [1, 0, 2] [0, 1, 1]) [0, 2, 3]
    = some (List.zipWith (lin3 2 (-3)) ((response 6 isZ abQ (1/2) [1, 0, 2] [0, 2, 3]).get!)
        ((response 6 isZ abQ (1/2) [0, 1, 1] [0, 2, 3]).get!)) := by decide +kernel

/-- C02.a, one oscillator: `rowFor` is linear in the (negated) record. -/
theorem row_linear (ab : α → AB α) (xi w k d : α) (a b : List α) (hl : a.length = b.length) :
    rowFor ab xi w (linL k d a b) = lin3 k d (rowFor ab xi w a) (rowFor ab xi w b) :=
  rowFor_lin ab xi w k d a b hl

example : rowFor abQ (1/2) 3 (linL 2 (-3) [1, 0, 2] [0, 1, 1])
    = lin3 2 (-3) (rowFor abQ (1/2) 3 [1, 0, 2]) (rowFor abQ (1/2) 3 [0, 1, 1]) := by decide +kernel

/-- C02.a, scaling: `resp (k•a) = k•resp a`. -/
theorem resp_scale (c : α) (isZero : α → Bool) (ab : α → AB α) (xi k : α) (a : List α) (ps : List α) :
    response c isZero ab xi (a.map (k * ·)) ps =
      (response c isZero ab xi a ps).map (List.map (map3 (List.map (k * ·)))) := by
  apply response_map c isZero ab xi (fun a => a.map (k * ·)) (map3 (List.map (k * ·)))
  · intro p
    simp only [rowOf, List.map_map]
    rw [← rowFor_smul]
    congr 1
    simp only [List.map_map]
    apply List.map_congr_left
    intro x _
    simp only [Function.comp]
    ring
  · simp only [zeroRow, map3, List.map_map]
    refine Prod.ext ?_ (Prod.ext ?_ ?_) <;>
      (apply List.map_congr_left; intro x _; simp only [Function.comp]; ring)

example : response 6 isZ abQ (1/2) ([1, 0, 2].map ((-3) * ·)) [0, 2]
    = (response 6 isZ abQ (1/2) [1, 0, 2] [0, 2]).map (List.map (map3 (List.map ((-3) * ·)))) := by
  decide +kernel

/-- **C02.a corollary** spectra scale by `|k|` and ignore the sign: for every row of the response,
`absmax` of each of the three series of `resp (k•a)` is `|k|` times that of `resp a`. -/
theorem resp_absmax_scale [LinearOrder α] [IsStrictOrderedRing α]
    (c : α) (isZero : α → Bool) (ab : α → AB α) (xi k : α) (a : List α) (ps : List α)
    (r r' : List (List α × List α × List α))
    (hr : response c isZero ab xi a ps = some r)
    (hr' : response c isZero ab xi (a.map (k * ·)) ps = some r') :
    r'.length = r.length ∧ ∀ j (hj : j < r.length) (hj' : j < r'.length),
      absmax r'[j].1 = (absmax r[j].1).map (|k| * ·) ∧
      absmax r'[j].2.1 = (absmax r[j].2.1).map (|k| * ·) ∧
      absmax r'[j].2.2 = (absmax r[j].2.2).map (|k| * ·) := by
  rw [resp_scale, hr, Option.map_some, Option.some.injEq] at hr'
  subst hr'
  refine ⟨by simp, ?_⟩
  intro j hj hj'
  simp only [List.getElem_map, map3, absmax_smul]
  exact ⟨trivial, trivial, trivial⟩

example : (response 6 isZ abQ (1/2) ([1, 0, 2].map ((-3) * ·)) [2]).map (List.map (fun r => absmax r.1))
    = (response 6 isZ abQ (1/2) [1, 0, 2] [2]).map (List.map (fun r => (absmax r.1).map (|(-3 : Rat)| * ·))) := by
  decide +kernel

/-- **C02.b** causality: the response to the first `i` samples is the first `i` samples of the
response (samples after index `i − 1` do not affect the response up to `i − 1`). -/
theorem resp_causal (c : α) (isZero : α → Bool) (ab : α → AB α) (xi : α) (a : List α) (i : Nat)
    (ps : List α) :
    response c isZero ab xi (a.take i) ps =
      (response c isZero ab xi a ps).map (List.map (map3 (List.take i))) := by
  apply response_map c isZero ab xi (List.take i) (map3 (List.take i))
  · intro p
    simp only [rowOf, List.map_take]
    exact rowFor_take _ _ _ _ _
  · exact zeroRow_take _ _

example : response 6 isZ abQ (1/2) ([1, 0, 2, 5].take 2) [0, 2]
    = (response 6 isZ abQ (1/2) [1, 0, 2, 5] [0, 2]).map (List.map (map3 (List.take 2))) := by
  decide +kernel

/-- **C02.c** shift: prepending `k` zeros to a record that starts at zero delays every series of the
response by exactly `k` samples (zero-filled). -/
theorem resp_shift (c : α) (isZero : α → Bool) (ab : α → AB α) (xi : α) (a : List α) (k : Nat)
    (h0 : a.head? = some 0) (ps : List α) :
    response c isZero ab xi (List.replicate k 0 ++ a) ps =
      (response c isZero ab xi a ps).map (List.map (map3 (List.replicate k 0 ++ ·))) := by
  apply response_map c isZero ab xi (List.replicate k 0 ++ ·) (map3 (List.replicate k 0 ++ ·))
  · intro p
    simp only [rowOf, map_neg_zeros]
    apply rowFor_zeros
    cases a with
    | nil => simp at h0
    | cons x xs =>
      simp only [List.head?_cons, Option.some.injEq] at h0
      simp [h0]
  · exact zeroRow_zeros _ _

example : response 6 isZ abQ (1/2) (List.replicate 2 0 ++ [0, 1, 2]) [0, 2]
    = (response 6 isZ abQ (1/2) [0, 1, 2] [0, 2]).map (List.map (map3 (List.replicate 2 0 ++ ·))) := by
  decide +kernel

/-- the hypothesis `a.head? = some 0` of C02.c is necessary: the load of the panel before `a[0]` is
linear from `0` to `a[0]`, so a record starting at `1` responds already at the first original sample. -/
example : response 6 isZ abQ (1/2) (List.replicate 1 0 ++ [1, 2]) [2]
    ≠ (response 6 isZ abQ (1/2) [1, 2] [2]).map (List.map (map3 (List.replicate 1 0 ++ ·))) := by
  decide +kernel

/-- **C02.d** the response is the per-period map of `rowOf` (no leading zero period): row `j` is a
function of `periods[j]`, `xi`, the propagator and the record only. -/
theorem resp_eq_map_rowOf (c : α) (isZero : α → Bool) (ab : α → AB α) (xi : α) (a : List α)
    (p0 : α) (rest : List α) (h : isZero p0 = false) :
    response c isZero ab xi a (p0 :: rest) = some ((p0 :: rest).map (rowOf c ab xi a)) :=
  response_cons_nonzero c isZero ab xi a p0 rest h

example : response 6 isZ abQ (1/2) [1, 0, 2] [2, 3] = some ([2, 3].map (rowOf 6 abQ (1/2) [1, 0, 2])) := by
  decide +kernel

/-- **C02.d** with a leading zero period: row 0 is `zeroRow`, the remaining rows are the per-period
map over `periods.tail`. -/
theorem resp_leading_zero (c : α) (isZero : α → Bool) (ab : α → AB α) (xi : α) (a : List α)
    (p0 : α) (rest : List α) (h : isZero p0 = true) :
    response c isZero ab xi a (p0 :: rest) = some (zeroRow a :: rest.map (rowOf c ab xi a)) :=
  response_cons_zero c isZero ab xi a p0 rest h

example : response 6 isZ abQ (1/2) [1, 0, 2] [0, 2, 3]
    = some (zeroRow [1, 0, 2] :: [2, 3].map (rowOf 6 abQ (1/2) [1, 0, 2])) := by decide +kernel

/-- **C02.d** `resp_rows_independent`: in two calls with the same record, damping and propagator but
arbitrary period lists (reordered, partitioned, batched differently, with or without a leading zero),
the rows of equal non-zero periods are equal — and equal to `rowOf` of that period. -/
theorem resp_rows_independent (c : α) (isZero : α → Bool) (ab : α → AB α) (xi : α) (a : List α)
    (ps ps' : List α) (r r' : List (List α × List α × List α))
    (hr : response c isZero ab xi a ps = some r) (hr' : response c isZero ab xi a ps' = some r')
    (i j : Nat) (p : α) (hi : ps[i]? = some p) (hj : ps'[j]? = some p) (hp : isZero p = false) :
    r[i]? = some (rowOf c ab xi a p) ∧ r'[j]? = some (rowOf c ab xi a p) := by
  have key : ∀ (qs : List α) (s : List (List α × List α × List α)) (n : Nat),
      response c isZero ab xi a qs = some s → qs[n]? = some p → s[n]? = some (rowOf c ab xi a p) := by
    intro qs s n hs hn
    cases qs with
    | nil => simp at hn
    | cons q0 rest =>
      cases hq : isZero q0 with
      | false =>
        rw [response_cons_nonzero _ _ _ _ _ _ _ hq, Option.some.injEq] at hs
        subst hs
        rw [List.getElem?_map, hn]; rfl
      | true =>
        rw [response_cons_zero _ _ _ _ _ _ _ hq, Option.some.injEq] at hs
        subst hs
        cases n with
        | zero =>
          simp only [List.getElem?_cons_zero, Option.some.injEq] at hn
          rw [hn, hp] at hq; exact absurd hq (by simp)
        | succ n =>
          simp only [List.getElem?_cons_succ] at hn ⊢
          rw [List.getElem?_map, hn]; rfl
  exact ⟨key ps r i hr hi, key ps' r' j hr' hj⟩

example : (response 6 isZ abQ (1/2) [1, 0, 2] [0, 2, 3]).get![2]? = (response 6 isZ abQ (1/2) [1, 0, 2] [3, 5]).get![0]? := by
  decide +kernel

/-- **C02.d** permutation / re-batching form: for any selection `idx` of positions of a period list
without zero period, the response for the selected periods consists of the selected rows. -/
theorem resp_reindex (c : α) (isZero : α → Bool) (ab : α → AB α) (xi : α) (a : List α)
    (ps : List α) (hps : ∀ p ∈ ps, isZero p = false) (r : List (List α × List α × List α))
    (hr : response c isZero ab xi a ps = some r) (idx : List (Fin ps.length)) (hidx : idx ≠ []) :
    ∃ hlen : r.length = ps.length,
      response c isZero ab xi a (idx.map (fun i => ps[i])) = some (idx.map (fun i => r[i.1]'(by omega))) := by
  have hall : ∀ qs : List α, qs ≠ [] → (∀ p ∈ qs, isZero p = false) →
      response c isZero ab xi a qs = some (qs.map (rowOf c ab xi a)) := by
    intro qs hne hq
    cases qs with
    | nil => exact absurd rfl hne
    | cons q0 rest => exact response_cons_nonzero _ _ _ _ _ _ _ (hq q0 (by simp))
  have hne : ps ≠ [] := by
    rintro rfl
    cases idx with
    | nil => exact absurd rfl hidx
    | cons i _ => exact i.elim0
  rw [hall ps hne hps, Option.some.injEq] at hr
  subst hr
  refine ⟨by simp, ?_⟩
  rw [hall _ (by simpa using hidx) (by
    intro p hp
    obtain ⟨i, _, rfl⟩ := List.mem_map.mp hp
    exact hps _ (by simp))]
  simp only [List.map_map, List.getElem_map]
  rfl

example : response 6 isZ abQ (1/2) [1, 0, 2] [5, 2, 3]
    = some ([2, 0, 1].map (fun i => (response 6 isZ abQ (1/2) [1, 0, 2] [2, 3, 5]).get![i]!)) := by
  decide +kernel

/-! ## C02.e refinement invariance (generated propagator, `ℝ`) -/
open EqsigVerif.Gen.SdofAB

/-- C02.e, one panel: consuming the `r` interpolated samples of one coarse panel with the propagator for
`dt / r` gives exactly one step of the propagator for `dt` (any state `x`, any panel `a → b`). -/
theorem resp_refine_panel (xi w dt : ℝ) (hw : 0 < w) (hdt : 0 < dt) (hxi0 : 0 ≤ xi) (hxi1 : xi < 1)
    (r : Nat) (hr : 1 ≤ r) (x : ℝ × ℝ) (a b : ℝ) :
    iterState (computeABReal xi w (dt / r)) x a (refinePanel r a b) = step (computeABReal xi w dt) x a b :=
  iterState_refinePanel xi w dt hw hdt hxi0 hxi1 r hr x a b

example : iterState (computeABReal (1/20) 7 ((1/100) / (3 : Nat))) (2, -5) 1 (refinePanel 3 1 (-2))
    = step (computeABReal (1/20) 7 (1/100)) (2, -5) 1 (-2) :=
  resp_refine_panel (1/20) 7 (1/100) (by norm_num) (by norm_num) (by norm_num) (by norm_num) 3 (by norm_num) _ _ _

/-- **C02.e** one oscillator: the state series for the refined record at step `dt / r`, read at the
multiples of `r`, is the state series of the original record at step `dt`
(`resp(dt/r)(refine r a)[r·i] = resp(dt)(a)[i]`). -/
theorem resp_refine_run (xi w dt : ℝ) (hw : 0 < w) (hdt : 0 < dt) (hxi0 : 0 ≤ xi) (hxi1 : xi < 1)
    (r : Nat) (hr : 1 ≤ r) (a : List ℝ) (i : Nat) (hi : i < a.length) :
    (run (computeABReal xi w (dt / r)) (refine r a))[r * i]? = (run (computeABReal xi w dt) a)[i]? :=
  run_refine xi w dt hw hdt hxi0 hxi1 r hr a i hi

example : (run (computeABReal (1/20) 7 ((1/100) / (3 : Nat))) (refine 3 [1, -2, 3]))[3 * 2]?
    = (run (computeABReal (1/20) 7 (1/100)) [1, -2, 3])[2]? :=
  resp_refine_run (1/20) 7 (1/100) (by norm_num) (by norm_num) (by norm_num) (by norm_num) 3 (by norm_num)
    [1, -2, 3] 2 (by norm_num)

/-- **C02.e** `resp_refine`, full response: for `r ≥ 1` and a period list whose entries are positive
(or a leading zero), every row of the response to the refined record at step `dt / r` — all three
series, leading-zero row included — read at the multiples of `r` is the corresponding row of the
response to the original record at step `dt`. -/
theorem resp_refine (c xi dt : ℝ) (hc : 0 < c) (hdt : 0 < dt) (hxi0 : 0 ≤ xi) (hxi1 : xi < 1)
    (r : Nat) (hr : 1 ≤ r) (isZero : ℝ → Bool) (acc ps : List ℝ)
    (hps : ∀ (j : Nat) (p : ℝ), ps[j]? = some p → (j = 0 ∧ isZero p = true) ∨ 0 < p)
    (R R0 : List (List ℝ × List ℝ × List ℝ))
    (hR : response c isZero (fun w => computeABReal xi w (dt / r)) xi (refine r acc) ps = some R)
    (hR0 : response c isZero (fun w => computeABReal xi w dt) xi acc ps = some R0) :
    R.length = R0.length ∧
      ∀ (j : Nat) (hj : j < R.length) (hj0 : j < R0.length), Sampled3 r acc.length R[j] R0[j] := by
  cases ps with
  | nil => simp [response] at hR
  | cons p0 rest =>
    have hrest : ∀ p ∈ rest, 0 < p := by
      intro p hp
      obtain ⟨k, hk, rfl⟩ := List.getElem_of_mem hp
      rcases hps (k + 1) rest[k] (by simp [hk]) with h | h
      · omega
      · exact h
    have hrow : ∀ p, 0 < p → Sampled3 r acc.length
        (rowOf c (fun w => computeABReal xi w (dt / r)) xi (refine r acc) p)
        (rowOf c (fun w => computeABReal xi w dt) xi acc p) :=
      fun p hp => rowOf_refine c xi dt p hc hp hdt hxi0 hxi1 r hr acc
    cases h : isZero p0 with
    | true =>
      rw [response_cons_zero _ _ _ _ _ _ _ h, Option.some.injEq] at hR hR0
      subst hR hR0
      refine ⟨by simp, ?_⟩
      intro j hj hj0
      cases j with
      | zero => exact zeroRow_refine r hr acc
      | succ k =>
        simp only [List.getElem_cons_succ, List.getElem_map]
        exact hrow _ (hrest _ (List.getElem_mem _))
    | false =>
      have hp0 : 0 < p0 := by
        rcases hps 0 p0 rfl with h' | h'
        · rw [h] at h'; exact absurd h'.2 (by simp)
        · exact h'
      rw [response_cons_nonzero _ _ _ _ _ _ _ h, Option.some.injEq] at hR hR0
      subst hR hR0
      refine ⟨by simp, ?_⟩
      intro j hj hj0
      simp only [List.getElem_map]
      apply hrow
      rcases List.mem_cons.mp (List.getElem_mem (l := p0 :: rest) (by simpa using hj0)) with h' | h'
      · rw [h']; exact hp0
      · exact hrest _ h'

example : True := by
  have hR0 : response 6 (fun p => decide (p = 0)) (fun w => computeABReal (1/20) w (1/100)) (1/20) [1, -2, 3] [0, 2]
      = some _ := response_cons_zero _ _ _ _ _ _ _ (by simp)
  have hR : response 6 (fun p => decide (p = 0)) (fun w => computeABReal (1/20) w ((1/100) / (3 : Nat))) (1/20)
      (refine 3 [1, -2, 3]) [0, 2] = some _ := response_cons_zero _ _ _ _ _ _ _ (by simp)
  have := resp_refine 6 (1/20) (1/100) (by norm_num) (by norm_num) (by norm_num) (by norm_num) 3 (by norm_num)
    (fun p => decide (p = 0)) [1, -2, 3] [0, 2]
    (by
      intro j p hj
      match j, hj with
      | 0, hj => left; simp at hj; subst hj; simp
      | 1, hj => right; simp at hj; subst hj; norm_num
      | (k + 2), hj => simp at hj)
    _ _ hR hR0
  trivial

/-- **C02.e corollary** spectra do not decrease under refinement: if the series `C` is the series `F`
read at multiples of `r`, then `absmax C ≤ absmax F` (applies to each series of each row by `resp_refine`). -/
theorem resp_refine_spectra (r n : Nat) (F C : List ℝ × List ℝ × List ℝ) (hs : Sampled3 r n F C)
    (hn1 : C.1.length = n) (hn2 : C.2.1.length = n) (hn3 : C.2.2.length = n)
    (m M : ℝ) :
    (absmax C.1 = some m → absmax F.1 = some M → m ≤ M) ∧
    (absmax C.2.1 = some m → absmax F.2.1 = some M → m ≤ M) ∧
    (absmax C.2.2 = some m → absmax F.2.2 = some M → m ≤ M) := by
  refine ⟨fun h1 h2 => ?_, fun h1 h2 => ?_, fun h1 h2 => ?_⟩
  · exact absmax_le_of_sampled _ _ (fun i hi => ⟨r * i, (hs i (hn1 ▸ hi)).1⟩) m M h1 h2
  · exact absmax_le_of_sampled _ _ (fun i hi => ⟨r * i, (hs i (hn2 ▸ hi)).2.1⟩) m M h1 h2
  · exact absmax_le_of_sampled _ _ (fun i hi => ⟨r * i, (hs i (hn3 ▸ hi)).2.2⟩) m M h1 h2

example : Sampled3 2 2 ([1, 5, -2], [0, 0, 0], [3, 1, 4]) ([1, -2], [0, 0], [3, 4]) := by
  intro i hi
  match i, hi with
  | 0, _ => simp
  | 1, _ => simp

end EqsigVerif.Props.C02
