import EqsigVerif.Props.C13PowerLaw
import EqsigVerif.Gen.ImPower
/-!
# C13.d — translator tie for the power-law cycle-counting functions of `eqsig/im.py`

`Gen/ImPower.lean` is regenerated on every run by `tools/py2lean_x_im.py` from the statements of
`calc_n_cyc_array_w_power_law`, `calc_cyc_amp_array_w_power_law`, `calc_cyc_amp_gm_arrays_w_power_law`,
`calc_cyc_amp_combined_arrays_w_power_law` (scalar exponent `b`; `x ** y` is the parameter `pow`, the switched-peak function of
C12 is the parameter `switchedPeaks`, `np.take` is guarded, `np.max`/`x[-1]` are binds of the `Except ErrKind` monad).
The bridges below are generic in the number type (hypothesis `default = 0`: `np.take` is modelled with `getD · default`, the
hand model with `getD · 0`; the two agree on in-range indices anyway) and are then used at `ℝ` with `pow := rpowR` to restate
the C13.d theorems of `Props/C13PowerLaw.lean` for the generated definitions.
-/
set_option linter.unusedSectionVars false
set_option linter.unusedVariables false
namespace EqsigVerif.Props.C13
open EqsigVerif EqsigVerif.Np EqsigVerif.Wire EqsigVerif.Model.PowerLaw EqsigVerif.Lemmas.PowerLaw

/-! ## list facts about `np.insert` -/

theorem insertIdx_before_last {β : Type} (l : List β) (a v : β) :
    List.insertIdx (l ++ [a]) l.length v = l ++ [v, a] := by
  induction l with
  | nil => rfl
  | cons x xs ih => simp only [List.cons_append, List.length_cons, List.insertIdx_succ_cons, ih]

/-- `np.insert(L, len(L)-1, L[-1])` appends a copy of the last element -/
theorem insertIdx_dup_last {β : Type} (L : List β) (g : β) (h : L.getLast? = some g) :
    List.insertIdx L (L.length - 1) g = L ++ [g] := by
  have hne : L ≠ [] := by rintro rfl; simp at h
  obtain ⟨l', a, rfl⟩ : ∃ l' a, L = l' ++ [a] :=
    ⟨L.dropLast, L.getLast hne, (List.dropLast_append_getLast hne).symm⟩
  have : a = g := by simpa using h
  subst this
  have e : (l' ++ [a]).length - 1 = l'.length := by simp
  rw [e, insertIdx_before_last]
  simp

section Generic
variable {α : Type} [Add α] [Sub α] [Mul α] [Div α] [Neg α] [LT α] [DecidableLT α] [Inhabited α]
  [OfNat α 0] [OfNat α 1] [OfNat α 2] [OfScientific α]

theorem length_cumsumFrom_gen (acc : α) (l : List α) : (cumsumFrom acc l).length = l.length := by
  induction l generalizing acc with
  | nil => rfl
  | cons x xs ih => simp [cumsumFrom, ih]

/-- the guarded `np.take(values, idx)` succeeds on in-range indices -/
theorem pyTake_ok (values : List α) (idx : List Nat) (hr : ∀ i ∈ idx, i < values.length) :
    Gen.ImPower.pyTake values idx = .ok (takeIdx values idx) := by
  unfold Gen.ImPower.pyTake
  rw [if_pos]
  rw [List.all_eq_true]
  intro i hi; simpa using hr i hi

/-- `np.abs(np.take(values, idx))` is the peak-magnitude list of the hand model -/
theorem absL_takeIdx (values : List α) (idx : List Nat) (hd : (default : α) = 0) :
    (takeIdx values idx).map (fun x => absv x) = idx.map (fun i => absv (values.getD i 0)) := by
  unfold takeIdx
  rw [List.map_map, hd]; rfl

/-- `calc_cyc_amp_array_w_power_law` (scalar `b`): the generated function is the model's `cycAmpCore` on the model's peak-only
series, for in-range switched-peak indices -/
theorem gen_cyc_amp_array (pow : α → α → α) (sp : List α → List Nat) (values : List α) (nCyc b : α)
    (hd : (default : α) = 0) (hr : ∀ i ∈ sp values, i < values.length) :
    Gen.ImPower.cycAmpArray pow sp values nCyc b = .ok (cycAmpCore pow (peakOnlyAbs values (sp values)) nCyc b) := by
  unfold Gen.ImPower.cycAmpArray
  rw [pyTake_ok values _ hr]
  simp only [bind, Except.bind, pure, Except.pure]
  rw [absL_takeIdx values _ hd]
  rfl

/-- `calc_cyc_amp_combined_arrays_w_power_law` -/
theorem gen_cyc_amp_combined (pow : α → α → α) (sp : List α → List Nat) (v0 v1 : List α) (nCyc b : α)
    (hd : (default : α) = 0) (hr0 : ∀ i ∈ sp v0, i < v0.length) (hr1 : ∀ i ∈ sp v1, i < v1.length) :
    Gen.ImPower.cycAmpCombinedArrays pow sp v0 v1 nCyc b =
      .ok (cycAmpCombinedCore pow (peakOnlyAbs v0 (sp v0)) (peakOnlyAbs v1 (sp v1)) nCyc b) := by
  unfold Gen.ImPower.cycAmpCombinedArrays
  rw [pyTake_ok v0 _ hr0, pyTake_ok v1 _ hr1]
  simp only [bind, Except.bind, pure, Except.pure]
  rw [absL_takeIdx v0 _ hd, absL_takeIdx v1 _ hd]
  rfl

/-- `calc_cyc_amp_gm_arrays_w_power_law`: `sqrt(s₀ · s₁)` of the two single-component series -/
theorem gen_cyc_amp_gm (pow : α → α → α) (sqrt : α → α) (sp : List α → List Nat) (v0 v1 : List α) (nCyc b : α)
    (hd : (default : α) = 0) (hr0 : ∀ i ∈ sp v0, i < v0.length) (hr1 : ∀ i ∈ sp v1, i < v1.length) :
    Gen.ImPower.cycAmpGmArrays pow sqrt sp v0 v1 nCyc b =
      .ok (List.zipWith (fun x y => sqrt (x * y)) (cycAmpCore pow (peakOnlyAbs v0 (sp v0)) nCyc b)
        (cycAmpCore pow (peakOnlyAbs v1 (sp v1)) nCyc b)) := by
  unfold Gen.ImPower.cycAmpGmArrays
  rw [gen_cyc_amp_array pow sp v0 nCyc b hd hr0, gen_cyc_amp_array pow sp v1 nCyc b hd hr1]
  rfl

/-- `calc_n_cyc_array_w_power_law` (scalar `b`): with `mx = np.max(abs(values))` the generated function is the model's `nCycCore`
(`half = 0.5`) on the peak magnitudes after the model's cut-off replacement (`tiny = 1.0e-14`); the two `np.insert`s at
`len(n_eq)-1` are the model's appended last knot -/
theorem gen_n_cyc_array (pow : α → α → α) (sp : List α → List Nat) (values : List α) (aRef b cut mx : α)
    (hmx : maxL? (absL values) = some mx) (hr : ∀ i ∈ sp values, i < values.length) :
    Gen.ImPower.nCycArray pow sp values aRef b cut =
      .ok (nCycCore pow 0.5 values.length (sp values)
        (cutOff 1.0e-14 cut mx (absL (takeIdx values (sp values)))) aRef b) := by
  have hmx' : Gen.ImPower.pyMax (values.map (fun x => absv x)) = .ok mx := by
    unfold Gen.ImPower.pyMax
    have : maxL? (values.map (fun x => absv x)) = some mx := hmx
    rw [this]
  unfold Gen.ImPower.nCycArray
  rw [pyTake_ok values _ hr, hmx']
  simp only [bind, Except.bind, pure, Except.pure]
  -- the increments
  have hperc : (takeIdx values (sp values)).map (fun x => 0.5 / (1 * pow (aRef / if absv x < cut * mx then 1.0e-14 else absv x) (1 / b)))
      = (cutOff 1.0e-14 cut mx (absL (takeIdx values (sp values)))).map (fun p => (0.5 : α) / (1 * pow (aRef / p) (1 / b))) := by
    unfold cutOff absL
    rw [List.map_map, List.map_map]; rfl
  rw [hperc]
  generalize hnEq : cumsum ((cutOff 1.0e-14 cut mx (absL (takeIdx values (sp values)))).map
    (fun p => (0.5 : α) / (1 * pow (aRef / p) (1 / b)))) = nEq
  have hlen : nEq.length = (sp values).length := by
    rw [← hnEq]; simp [cumsum, length_cumsumFrom_gen, cutOff, absL, takeIdx]
  have hlast : (0 :: nEq).getLast? = some (nEq.getLastD 0) := by
    rw [List.getLast?_cons, List.getLastD_eq_getLast?]
  unfold Gen.ImPower.pyLast
  rw [hlast]
  simp only []
  rw [insertIdx_dup_last (0 :: nEq) _ hlast]
  have e : ((0 :: nEq) ++ [nEq.getLastD 0]).length - 1 = (0 :: sp values).length := by simp [hlen]
  rw [e, List.insertIdx_length_self]
  simp only [nCycCore, Gen.ImPower.interp1dPrevious, Np.arange]
  rw [hnEq]
  have hz : ((0 :: sp values) ++ [values.length]).zip ((0 :: nEq) ++ [nEq.getLastD 0]) =
      (0, 0) :: ((sp values).zip nEq) ++ [(values.length, nEq.getLastD 0)] := by
    rw [List.zip_append (by simp [hlen])]; rfl
  rw [hz]

end Generic

/-! ## the C13.d theorems for the generated definitions (`ℝ`, `pow := rpowR`) -/

theorem default_real : (default : ℝ) = 0 := rfl

/-- C13.d (1)+(2) for the generated `calc_cyc_amp_array_w_power_law`: it succeeds with a non-decreasing series of the record's
length (`b > 0`, `n_cyc > 0`, in-range switched-peak indices) -/
theorem gen_powerlaw_cycamp (sp : List ℝ → List Nat) (values : List ℝ) (nCyc b : ℝ) (hb : 0 < b) (hN : 0 < nCyc)
    (hr : ∀ i ∈ sp values, i < values.length) :
    ∃ s, Gen.ImPower.cycAmpArray rpowR sp values nCyc b = .ok s ∧ s.length = values.length ∧ s.Pairwise (· ≤ ·) := by
  refine ⟨_, gen_cyc_amp_array rpowR sp values nCyc b default_real hr, ?_, ?_⟩
  · have := (powerlaw_lengths 0 [] [] (peakOnlyAbs values (sp values)) 1 b nCyc).2
    rw [peakOnlyAbs_length] at this
    exact this
  · exact powerlaw_cycamp_monotone _ nCyc b hb hN

/-- C13.d (1)+(2) for the generated `calc_n_cyc_array_w_power_law`: on a record with `cut_off · max|values| > 0` it succeeds
with a non-decreasing series of the record's length (`a_ref > 0`) -/
theorem gen_powerlaw_ncyc (sp : List ℝ → List Nat) (values : List ℝ) (aRef b cut mx : ℝ) (ha : 0 < aRef)
    (hmx : maxL? (absL values) = some mx) (hcut : 0 < cut * mx) (hr : ∀ i ∈ sp values, i < values.length) :
    ∃ s, Gen.ImPower.nCycArray rpowR sp values aRef b cut = .ok s ∧ s.length = values.length ∧ s.Pairwise (· ≤ ·) := by
  refine ⟨_, gen_n_cyc_array rpowR sp values aRef b cut mx hmx hr, ?_, ?_⟩
  · have h05 : (0.5 : ℝ) = 1 / 2 := by norm_num
    rw [h05]
    exact (powerlaw_lengths values.length (sp values) _ [] aRef b 1).1
  · have h05 : (0.5 : ℝ) = 1 / 2 := by norm_num
    rw [h05]
    apply powerlaw_ncyc_monotone values.length (sp values) _ aRef b ha
    intro p hp
    unfold cutOff at hp
    obtain ⟨q, _, rfl⟩ := List.mem_map.mp hp
    split_ifs with h
    · norm_num
    · exact lt_of_lt_of_le hcut (not_lt.mp h)

/-- C13.d (6) for the generated functions: the combined measure of two identical components is `2^b` times the
single-component measure -/
theorem gen_powerlaw_combined_identical (sp : List ℝ → List Nat) (values : List ℝ) (nCyc b : ℝ) (hN : 0 < nCyc)
    (hr : ∀ i ∈ sp values, i < values.length) :
    Gen.ImPower.cycAmpCombinedArrays rpowR sp values values nCyc b =
      (Gen.ImPower.cycAmpArray rpowR sp values nCyc b).map (fun s => s.map (rpowR 2 b * ·)) := by
  rw [gen_cyc_amp_combined rpowR sp values values nCyc b default_real hr hr,
    gen_cyc_amp_array rpowR sp values nCyc b default_real hr]
  exact congrArg Except.ok (powerlaw_combined_identical _ nCyc b hN)

/-- C13.d (6) for the generated functions: the geometric-mean measure of two identical components is the single-component
measure (`sqrt := Real.sqrt`) -/
theorem gen_powerlaw_gm_identical (sp : List ℝ → List Nat) (values : List ℝ) (nCyc b : ℝ) (hN : 0 < nCyc)
    (hr : ∀ i ∈ sp values, i < values.length) :
    Gen.ImPower.cycAmpGmArrays rpowR Real.sqrt sp values values nCyc b = Gen.ImPower.cycAmpArray rpowR sp values nCyc b := by
  rw [gen_cyc_amp_gm rpowR Real.sqrt sp values values nCyc b default_real hr hr,
    gen_cyc_amp_array rpowR sp values nCyc b default_real hr]
  exact congrArg Except.ok (powerlaw_gm_identical _ nCyc b hN)

/-- C13.d (4) for the generated `calc_cyc_amp_array_w_power_law`: the amplitude series scales linearly (`α > 0`; the switched-peak
indices of `α•v` are those of `v`: C12 scale invariance is the hypothesis `hsp`).  **partial**: `hcsr` (the peak-only series of
`c•v` is `c` times that of `v`, true for `c > 0` by `|c·x| = c·|x|`) is assumed, not proved here. -/
theorem gen_powerlaw_amp_scales_partial (sp : List ℝ → List Nat) (values : List ℝ) (nCyc b c : ℝ) (hb : 0 < b) (hN : 0 < nCyc)
    (hc : 0 < c) (hsp : sp (values.map (c * ·)) = sp values) (hr : ∀ i ∈ sp values, i < values.length)
    (hcsr : peakOnlyAbs (values.map (c * ·)) (sp values) = (peakOnlyAbs values (sp values)).map (c * ·)) :
    Gen.ImPower.cycAmpArray rpowR sp (values.map (c * ·)) nCyc b =
      (Gen.ImPower.cycAmpArray rpowR sp values nCyc b).map (fun s => s.map (c * ·)) := by
  rw [gen_cyc_amp_array rpowR sp _ nCyc b default_real (by rw [hsp]; simpa using hr),
    gen_cyc_amp_array rpowR sp values nCyc b default_real hr, hsp, hcsr]
  exact congrArg Except.ok (powerlaw_amp_scales _ nCyc b c hb hN hc)

/-! ## concrete values of every generated definition (`ℚ`, `pow x y := x` i.e. `b = 1`, peaks at indices 1 and 3) -/

example : Gen.ImPower.nCycArray (fun x _ => x) (fun _ => [1, 3]) [0, 1, 0, -3, 0] (2 : ℚ) 1 (1/100) =
      .ok [0, 1/4, 1/4, 1, 1] ∧
    Gen.ImPower.cycAmpArray (fun x _ => x) (fun _ => [1, 3]) [0, 1, 0, -3, 0] (1 : ℚ) 1 = .ok [0, 1/2, 1/2, 2, 2] ∧
    Gen.ImPower.cycAmpCombinedArrays (fun x _ => x) (fun _ => [1, 3]) [0, 1, 0, -3, 0] [0, 1, 0, -3, 0] (1 : ℚ) 1 =
      .ok [0, 1, 1, 4, 4] ∧
    Gen.ImPower.cycAmpGmArrays (fun x _ => x) (fun x => x) (fun _ => [1, 3]) [0, 1, 0, -3, 0] [0, 1, 0, -3, 0] (1 : ℚ) 1 =
      .ok [0, 1/4, 1/4, 4, 4] ∧
    Gen.ImPower.nCycArray (fun x _ => x) (fun _ => [1, 7]) [0, 1, 0, -3, 0] (2 : ℚ) 1 (1/100) = .error .IndexError ∧
    Gen.ImPower.nCycArray (fun x _ => x) (fun _ => []) [] (2 : ℚ) 1 (1/100) = .error .ValueError ∧
    (Gen.ImPower.nCycCutOffDefault : ℚ) = 1 / 100 := by decide +kernel

end EqsigVerif.Props.C13
