import EqsigVerif.Model.Switched
import EqsigVerif.Spec.SwitchedTol
import EqsigVerif.Lemmas.Switched
import EqsigVerif.Lemmas.SwitchedTol
/-!
# C12.f — when ARE the `tol > 0` switched peaks a subsequence of the `tol = 0` ones? (finding F12-2, characterisation)

The unconditional statement is false (`Props/C12.lean`, F12-2): a peak below `tol` inside an excursion can keep a set open,
so a `tol` set may start in the middle of a `tol = 0` set and report a peak that the `tol = 0` run never reports.
Three checkable conditions on the series (all `Bool`-valued, `Spec/SwitchedTol.lean`), from weakest to strongest:
1. `tolSplitsIncluded v tol`    — every set boundary of the `tol` run is a set boundary of the `0` run;
3. `firstPeakReachesTol v tol`  — local: whenever a peak reaches `tol` and has the strict sign of the previous peak, the previous
                                  peak reaches `tol` too (in every excursion the FIRST peak reaches `tol` if any does);
2. `allPeaksReachTol v tol`     — every peak value after the first has `|value| ≥ tol` (then the results are EQUAL).
-/
namespace EqsigVerif.Props.C12
open EqsigVerif EqsigVerif.Model.Switched EqsigVerif.Model.Peaks EqsigVerif.Spec.SwitchedTol

/-- **C12.f (sufficient condition 1)** if every set boundary of the `tol` run of the loop is also a set boundary of the
`tol = 0` run (`tolSplitsIncluded`, decided by following the two runs over the peak values), then the `tol` result is a
subsequence of the `tol = 0` result.  (Each `tol` set is then a concatenation of consecutive `0` sets, and the first member
of largest `|value|` of a concatenation is the reported member of one of its pieces.)  Any `tol`, any series. -/
theorem switched_tol_sublist_of_included (v : List ℚ) (tol : ℚ) (h : tolSplitsIncluded v tol = true) :
    (switchedPeaks v tol).Sublist (switchedPeaks v 0) :=
  switchedPeaks_sublist_of_included v tol h

/-- a proper subsequence: the small excursions `−1/4`, `1/4` do not close a set for `tol = 1/2` -/
example : tolSplitsIncluded [0, 1, 1/2, 3/4, -1/4, 1/4, -2, -1, -3, 2] (1/2) = true ∧
    switchedPeaks [0, 1, 1/2, 3/4, -1/4, 1/4, -2, -1, -3, 2] (1/2) = [0, 1, 8, 9] ∧
    switchedPeaks [0, 1, 1/2, 3/4, -1/4, 1/4, -2, -1, -3, 2] 0 = [0, 1, 4, 5, 8, 9] := by decide +kernel
/-- the F12-2 witness violates the condition (as it must) -/
example : tolSplitsIncluded [0, 1/100, 1/10, -3/10, -1/4, -4, 1] (1/2) = false := by decide +kernel

/-- **C12.f (sufficient condition 3, local)** for `tol > 0`: if, for all neighbouring peak values `p, q` (in the order of
`get_peak_array_indices`) with `p·q > 0` and `|q| ≥ tol`, also `|p| ≥ tol` — i.e. within the peaks of one excursion the
first one reaches `tol` whenever any does — then condition 1 holds, hence the `tol` result is a subsequence of the
`tol = 0` result. -/
theorem switched_tol_sublist_of_first_peak_reaches (v : List ℚ) (tol : ℚ) (htol : 0 < tol)
    (h : firstPeakReachesTol v tol = true) :
    tolSplitsIncluded v tol = true ∧ (switchedPeaks v tol).Sublist (switchedPeaks v 0) :=
  ⟨included_of_firstPeakReaches v tol htol h,
   switchedPeaks_sublist_of_included v tol (included_of_firstPeakReaches v tol htol h)⟩

example : firstPeakReachesTol [0, 1, 1/2, 3/4, -1/4, 1/4, -2, -1, -3, 2] (1/2) = true ∧
    peakValues [0, 1, 1/2, 3/4, -1/4, 1/4, -2, -1, -3, 2] = [0, 1, 1/2, 3/4, -1/4, 1/4, -2, -1, -3, 2] ∧
    firstPeakReachesTol [0, 1/100, 1/10, -3/10, -1/4, -4, 1] (1/2) = false := by decide +kernel

/-- **C12.f (sufficient condition 2, equality)** for `tol ≥ 0`: if every peak value after the first reaches `tol`
(`|value| ≥ tol`), the tolerance changes no decision of the loop and the two results are equal. -/
theorem switched_tol_eq_of_all_reach (v : List ℚ) (tol : ℚ) (htol : 0 ≤ tol) (h : allPeaksReachTol v tol = true) :
    switchedPeaks v tol = switchedPeaks v 0 :=
  switchedPeaks_eq_of_reach v tol htol h

example : allPeaksReachTol [0, 1, 1/2, 3/4, -1, 2, -2, -1, -3, 2] (1/2) = true ∧
    switchedPeaks [0, 1, 1/2, 3/4, -1, 2, -2, -1, -3, 2] (1/2) = switchedPeaks [0, 1, 1/2, 3/4, -1, 2, -2, -1, -3, 2] 0 ∧
    switchedPeaks [0, 1, 1/2, 3/4, -1, 2, -2, -1, -3, 2] 0 = [0, 1, 4, 5, 8, 9] := by decide +kernel

/-- the conditions are sufficient, not necessary: here a `tol` set starts inside a `0` set (condition 1 fails) but the
reported peaks are the same (the open set `{1, −3/10, −1/4}` is dominated by its first member) -/
example : tolSplitsIncluded [0, 1, -3/10, -1/4, -4, 1] (1/2) = false ∧
    switchedPeaks [0, 1, -3/10, -1/4, -4, 1] (1/2) = [0, 1, 4, 5] ∧
    switchedPeaks [0, 1, -3/10, -1/4, -4, 1] 0 = [0, 1, 4, 5] := by decide +kernel

end EqsigVerif.Props.C12
