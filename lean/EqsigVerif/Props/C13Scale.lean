import EqsigVerif.Model.Peaks
import EqsigVerif.Model.Switched
import EqsigVerif.Model.PowerLaw
import EqsigVerif.Lemmas.Scale
import EqsigVerif.Lemmas.ScaleReal
/-!
# C13 (extension) — scale invariance of the index detection, and the record-level power-law scaling laws

`Props/C13PowerLaw.lean` proves `amp(α•csr) = α•amp(csr)` and `n_eq(idx, α•pk, α·a_ref) = n_eq(idx, pk, a_ref)` for
**given** index lists / peak lists.  Here the missing link is proved: the index functions themselves do not change
under `v ↦ α • v`, so the laws hold for **records**.

* `scale_peaks`, `scale_switched_peaks(_tol)`, `scale_zero_crossings(_tol)`: `α ≠ 0` (negative factors included;
  a tolerance scales with `|α|`); `scale_peak_array_indices`: every `ptype` for `α > 0`;
* `scale_cycamp_record`, `scale_ncyc_record(_cut)`: over `ℝ` for a rational record cast to `ℝ`
  (`Lemmas/ScaleReal.lean`: `castR`, `pkRec`, `csrRec`, `cycAmpRec`, `nCycRec` compose `switchedPeaks` on the exact
  record with the `ℝ` instances `cycAmpR`/`nCycR` of `Model/PowerLaw.lean`, following `eqsig/im.py`).
  They rest on `Lemmas.PowerLaw.cycAmpR_smul` / `nCycR_scale`, the lemmas behind `powerlaw_amp_scales` /
  `powerlaw_ncyc_scale_invariant` (Props files do not import each other).
-/
set_option linter.unusedSectionVars false
set_option linter.unusedVariables false
namespace EqsigVerif.Props.C13
open EqsigVerif EqsigVerif.Np EqsigVerif.Model.Peaks EqsigVerif.Model.Switched EqsigVerif.Model.PowerLaw
open EqsigVerif.Lemmas.PowerLaw EqsigVerif.Lemmas.ScaleReal

/-! ## (1) local peaks -/

/-- `get_peak_array_indices(α·values) = get_peak_array_indices(values)` for every `α ≠ 0`
(`clean_out_non_changing` only tests equality of neighbours, the turning test is multiplied by `α² > 0`) -/
theorem scale_peaks (v : List ℚ) (α : ℚ) (hα : α ≠ 0) : peaks (v.map (α * ·)) = peaks v :=
  Lemmas.Scale.peaks_scale α hα v

example : peaks (([0, 1, 3, 2, -2, -1, -4, 0, 0, 5, 1] : List ℚ).map ((-3/2 : ℚ) * ·)) = [0, 2, 4, 5, 6, 9, 10] ∧
    peaks ([0, 1, 3, 2, -2, -1, -4, 0, 0, 5, 1] : List ℚ) = [0, 2, 4, 5, 6, 9, 10] := by
  rw [scale_peaks _ _ (by norm_num)]
  exact ⟨by decide +kernel, by decide +kernel⟩

/-- negation keeps the peak indices -/
theorem scale_peaks_neg (v : List ℚ) : peaks (v.map (fun x => -x)) = peaks v := by
  have h := scale_peaks v (-1) (by norm_num)
  have e : (fun x : ℚ => -1 * x) = fun x => -x := by funext x; ring
  rwa [e] at h

example : peaks (([0, 1, -2, 0] : List ℚ).map (fun x => -x)) = peaks [0, 1, -2, 0] := scale_peaks_neg _

/-- `get_peak_array_indices(α·values, ptype)` for every `ptype` (including the error on the empty series), `α > 0`:
the parity rule tests the sign of `first_move`, which is multiplied by `α`.
(For `α < 0` maxima and minima swap roles.) -/
theorem scale_peak_array_indices (v : List ℚ) (α : ℚ) (hα : 0 < α) (ptype : PType) :
    getPeakArrayIndices (v.map (α * ·)) ptype = getPeakArrayIndices v ptype := by
  have hp := scale_peaks v α hα.ne'
  have hfm : firstMove (v.map (α * ·)) = α * firstMove v := by
    unfold firstMove
    rw [hp, Lemmas.Scale.getD_scale, Lemmas.Scale.getD_scale]; ring
  have h1 : firstMove (v.map (α * ·)) ≤ 0 ↔ firstMove v ≤ 0 := by
    rw [hfm]
    constructor
    · intro h; by_contra hc; have := mul_pos hα (not_le.1 hc); linarith
    · intro h; exact mul_nonpos_of_nonneg_of_nonpos hα.le h
  have h2 : firstMove (v.map (α * ·)) > 0 ↔ firstMove v > 0 := by
    rw [gt_iff_lt, gt_iff_lt, ← not_le, ← not_le, h1]
  cases v with
  | nil => rfl
  | cons x xs =>
    have hmax : peaksMax ((x :: xs).map (α * ·)) = peaksMax (x :: xs) := by
      unfold peaksMax; simp only [h2, hp]
    have hmin : peaksMin ((x :: xs).map (α * ·)) = peaksMin (x :: xs) := by
      unfold peaksMin; simp only [h1, hp]
    cases ptype with
    | all => simp only [List.map_cons, getPeakArrayIndices]; rw [← List.map_cons, hp]
    | max => simp only [List.map_cons, getPeakArrayIndices]; rw [← List.map_cons, hmax]
    | min => simp only [List.map_cons, getPeakArrayIndices]; rw [← List.map_cons, hmin]

example : getPeakArrayIndices (([0, 1, 3, 2, -2, -1, -4] : List ℚ).map ((5/2 : ℚ) * ·)) .max =
    getPeakArrayIndices [0, 1, 3, 2, -2, -1, -4] .max ∧
    getPeakArrayIndices ([0, 1, 3, 2, -2, -1, -4] : List ℚ) .max = .ok [2, 5] :=
  ⟨scale_peak_array_indices _ _ (by norm_num) _, by decide +kernel⟩

/-- `get_n_cyc_array(α·values, 'all', start) = get_n_cyc_array(values, 'all', start)`, `α ≠ 0` -/
theorem scale_n_cyc_array (v : List ℚ) (α : ℚ) (hα : α ≠ 0) (startOrigin : Bool) :
    getNCycArray (v.map (α * ·)) startOrigin = getNCycArray v startOrigin := by
  cases v with
  | nil => rfl
  | cons x xs =>
    have hp := scale_peaks (x :: xs) α hα
    simp only [List.map_cons, getNCycArray, nCycAll] at hp ⊢
    rw [hp]; simp

example : getNCycArray (([0, 1, -2, 0] : List ℚ).map ((-7 : ℚ) * ·)) true = getNCycArray [0, 1, -2, 0] true :=
  scale_n_cyc_array _ _ (by norm_num) _

/-! ## (2) switched peaks -/

/-- `get_switched_peak_array_indices(α·values, |α|·tol) = get_switched_peak_array_indices(values, tol)`, `α ≠ 0`:
the grouping test `(pv + tol·sign(last))·last ≤ 0` is multiplied by `α²` (`|α|·sign(α x) = α·sign x`), and the first
arg-max of `|·|` inside a group is unchanged (`|α x| = |α||x|`). -/
theorem scale_switched_peaks_tol (v : List ℚ) (α : ℚ) (hα : α ≠ 0) (tol : ℚ) :
    switchedPeaks (v.map (α * ·)) (|α| * tol) = switchedPeaks v tol :=
  Lemmas.Scale.switchedPeaks_scale_tol α hα v tol

example : switchedPeaks (([0, 1, 3, 2, -2, -1, -4, 0, 0, 5, 1] : List ℚ).map ((-2 : ℚ) * ·)) (|(-2 : ℚ)| * (3/2)) =
      switchedPeaks [0, 1, 3, 2, -2, -1, -4, 0, 0, 5, 1] (3/2) ∧
    switchedPeaks ([0, 1, 3, 2, -2, -1, -4, 0, 0, 5, 1] : List ℚ) (3/2) = [0, 2, 6, 9] :=
  ⟨scale_switched_peaks_tol _ _ (by norm_num) _, by decide +kernel⟩

/-- the default `tol = 0`: switched-peak indices are invariant under every `α ≠ 0` (in particular under negation) -/
theorem scale_switched_peaks (v : List ℚ) (α : ℚ) (hα : α ≠ 0) :
    switchedPeaks (v.map (α * ·)) 0 = switchedPeaks v 0 := by
  have h := scale_switched_peaks_tol v α hα 0
  rwa [mul_zero] at h

example : switchedPeaks (([0, 1, 3, 2, -2, -1, -4, 0, 0, 5, 1] : List ℚ).map ((-3/2 : ℚ) * ·)) 0 = [0, 2, 6, 9] ∧
    switchedPeaks ([0, 1, 3, 2, -2, -1, -4, 0, 0, 5, 1] : List ℚ) 0 = [0, 2, 6, 9] := by
  rw [scale_switched_peaks _ _ (by norm_num)]
  exact ⟨by decide +kernel, by decide +kernel⟩

/-- the same with the error branch (`IndexError` on the empty series) -/
theorem scale_switched_peaksE (v : List ℚ) (α : ℚ) (hα : α ≠ 0) (tol : ℚ) :
    switchedPeaksE (v.map (α * ·)) (|α| * tol) = switchedPeaksE v tol := by
  unfold switchedPeaksE
  rw [scale_switched_peaks_tol v α hα tol]
  cases v <;> rfl

example : switchedPeaksE (([] : List ℚ).map ((3 : ℚ) * ·)) (|(3 : ℚ)| * 1) = .error .IndexError := by
  rw [scale_switched_peaksE _ _ (by norm_num)]; rfl

/-! ## (3) zero crossings -/

/-- `get_zero_crossings_array_indices(α·values, keep_adj_zeros, |α|·tol) = …(values, keep_adj_zeros, tol)`, `α ≠ 0`.
For `α < 0` the sign test on `values[0]` flips, which moves index 0 between the "through zero" list and the head
insertion; the result always contains 0 and is strictly ascending, so it is the same list. -/
theorem scale_zero_crossings_tol (v : List ℚ) (α : ℚ) (hα : α ≠ 0) (k : Bool) (tol : ℚ) :
    zeroCrossings (v.map (α * ·)) k (|α| * tol) = zeroCrossings v k tol :=
  Lemmas.Scale.zeroCrossings_scale_tol α hα v k tol

example : zeroCrossings (([1, -1, 1/2, -3, 0, 2] : List ℚ).map ((-2 : ℚ) * ·)) false (|(-2 : ℚ)| * 2) =
      zeroCrossings [1, -1, 1/2, -3, 0, 2] false 2 ∧
    zeroCrossings ([1, -1, 1/2, -3, 0, 2] : List ℚ) false 2 = [4] ∧
    zeroCrossings ([1, -1, 1/2, -3, 0, 2] : List ℚ) false 0 = [0, 1, 2, 3, 4] :=
  ⟨scale_zero_crossings_tol _ _ (by norm_num) _ _, by decide +kernel, by decide +kernel⟩

/-- the default `tol = 0` -/
theorem scale_zero_crossings (v : List ℚ) (α : ℚ) (hα : α ≠ 0) (k : Bool) :
    zeroCrossings (v.map (α * ·)) k 0 = zeroCrossings v k 0 := by
  have h := scale_zero_crossings_tol v α hα k 0
  rwa [mul_zero] at h

example : zeroCrossings (([0, 1, 3, 2, -2, -1, -4, 0, 0, 5, 1] : List ℚ).map ((-2 : ℚ) * ·)) true 0 = [0, 4, 7, 8] ∧
    zeroCrossings ([0, 1, 3, 2, -2, -1, -4, 0, 0, 5, 1] : List ℚ) true 0 = [0, 4, 7, 8] := by
  rw [scale_zero_crossings _ _ (by norm_num)]
  exact ⟨by decide +kernel, by decide +kernel⟩

/-- the same with the error branches (`TypeError` for `tol < 0`, `IndexError` on the empty series) -/
theorem scale_zero_crossingsE (v : List ℚ) (α : ℚ) (hα : α ≠ 0) (k : Bool) (tol : ℚ) :
    zeroCrossingsE (v.map (α * ·)) k (|α| * tol) = zeroCrossingsE v k tol := by
  unfold zeroCrossingsE
  have h0 : |α| * tol < 0 ↔ tol < 0 := by
    have := Lemmas.Scale.abs_mul_lt α hα tol 0
    rwa [mul_zero] at this
  rw [scale_zero_crossings_tol v α hα k tol]
  simp only [h0]
  cases v <;> rfl

example : zeroCrossingsE (([1, -1] : List ℚ).map ((-2 : ℚ) * ·)) false (|(-2 : ℚ)| * (-1)) = .error .TypeError := by
  rw [scale_zero_crossingsE _ _ (by norm_num)]; decide +kernel

/-! ## (4) record-level power-law laws (over `ℝ`, rational record) -/

/-- the peak-only |value| series of `α • v` is `|α|` times that of `v` (`α ≠ 0`): the switched-peak indices are the
same and `|α x| = |α||x|` -/
theorem scale_csr_record (v : List ℚ) (α : ℚ) (hα : α ≠ 0) :
    csrRec (v.map (α * ·)) = (csrRec v).map (|(α : ℝ)| * ·) ∧
    pkRec (v.map (α * ·)) = (pkRec v).map (|(α : ℝ)| * ·) :=
  ⟨csrRec_scale α hα v, pkRec_scale α hα v⟩

example : csrRec ([0, 1, 2, -3, -1, 2] : List ℚ) = [0, 0, 2, 3, 0, 2] := by
  have h : switchedPeaks ([0, 1, 2, -3, -1, 2] : List ℚ) 0 = [0, 2, 3, 5] := by decide +kernel
  unfold csrRec
  rw [h]
  simp [peakOnlyAbs, castR, putIdx, absv_real]

/-- C13.d at record level: `calc_cyc_amp_array_w_power_law(α·values, n_cyc, b) = |α|·calc_cyc_amp_array_w_power_law(values, n_cyc, b)`
for every rational `α ≠ 0` (`b > 0`, `n_cyc > 0`) -/
theorem scale_cycamp_record (v : List ℚ) (α : ℚ) (hα : α ≠ 0) (nCyc b : ℝ) (hb : 0 < b) (hN : 0 < nCyc) :
    cycAmpRec (v.map (α * ·)) nCyc b = (cycAmpRec v nCyc b).map (|(α : ℝ)| * ·) := by
  unfold cycAmpRec
  rw [csrRec_scale α hα v]
  exact cycAmpR_smul _ nCyc b _ hb hN (abs_nonneg _)

example : cycAmpRec (([0, 1, 2, -3, -1, 2] : List ℚ).map ((-5 : ℚ) * ·)) 1 (1/2) =
    (cycAmpRec [0, 1, 2, -3, -1, 2] 1 (1/2)).map (|((-5 : ℚ) : ℝ)| * ·) :=
  scale_cycamp_record _ _ (by norm_num) _ _ (by norm_num) (by norm_num)

/-- C13.d at record level, `cut_off = 0`:
`calc_n_cyc_array_w_power_law(α·values, |α|·a_ref, b, 0) = calc_n_cyc_array_w_power_law(values, a_ref, b, 0)` for
every rational `α ≠ 0` (`m`, `m'` stand for `max|values|` of the two records; they do not matter at `cut_off = 0`) -/
theorem scale_ncyc_record (v : List ℚ) (α : ℚ) (hα : α ≠ 0) (tiny m m' aRef b : ℝ) :
    nCycRec tiny 0 m' (v.map (α * ·)) (|(α : ℝ)| * aRef) b = nCycRec tiny 0 m v aRef b := by
  unfold nCycRec
  rw [cutOff_zero _ _ _ (pkRec_nonneg _), cutOff_zero _ _ _ (pkRec_nonneg _), pkRec_scale α hα v,
    scale_switched_peaks v α hα, List.length_map]
  exact nCycR_scale _ _ _ aRef b _ (abs_pos.2 (by exact_mod_cast hα)).ne'

example : nCycRec 1e-14 0 15 (([0, 1, 2, -3, -1, 2] : List ℚ).map ((-5 : ℚ) * ·)) (|((-5 : ℚ) : ℝ)| * 2) (1/2) =
    nCycRec 1e-14 0 3 [0, 1, 2, -3, -1, 2] 2 (1/2) :=
  scale_ncyc_record _ _ (by norm_num) _ _ _ _ _

/-- the same for any `cut_off`, as long as no switched peak of `v` is below the cut-off `cut_off·max|values|`
(`m = max|values|`; the scaled record has `max|α·values| = |α|·m`).  Without that hypothesis the law fails in general:
the replacement value `1e-14` does not scale. -/
theorem scale_ncyc_record_cut (v : List ℚ) (α : ℚ) (hα : α ≠ 0) (tiny cut m aRef b : ℝ)
    (hcut : ∀ p ∈ pkRec v, ¬ p < cut * m) :
    nCycRec tiny cut (|(α : ℝ)| * m) (v.map (α * ·)) (|(α : ℝ)| * aRef) b = nCycRec tiny cut m v aRef b := by
  have hpos : 0 < |(α : ℝ)| := abs_pos.2 (by exact_mod_cast hα)
  unfold nCycRec
  rw [cutOff_id _ _ _ _ hcut, pkRec_scale α hα v, cutOff_id, scale_switched_peaks v α hα, List.length_map]
  · exact nCycR_scale _ _ _ aRef b _ hpos.ne'
  · intro p hp
    obtain ⟨q, hq, rfl⟩ := List.mem_map.1 hp
    have := hcut q hq
    intro hlt
    apply this
    have : |(α : ℝ)| * q < |(α : ℝ)| * (cut * m) := by rw [← mul_assoc, mul_comm _ cut, mul_assoc]; exact hlt
    exact lt_of_mul_lt_mul_left this hpos.le

example : nCycRec 1e-14 0 (|((-5 : ℚ) : ℝ)| * 3) (([0, 1, 2, -3, -1, 2] : List ℚ).map ((-5 : ℚ) * ·)) (|((-5 : ℚ) : ℝ)| * 2) (1/2) =
    nCycRec 1e-14 0 3 [0, 1, 2, -3, -1, 2] 2 (1/2) :=
  scale_ncyc_record_cut _ _ (by norm_num) _ _ _ _ _ (by
    intro p hp; rw [zero_mul]; exact not_lt.2 (pkRec_nonneg _ p hp))

end EqsigVerif.Props.C13
