import EqsigVerif.Model.SpectraFns
import EqsigVerif.Gen.Consts
/-!
# C03 — translator tie for the PGA-substitution factor (`periods < dt * 6`) of both spectrum functions

`Gen/Consts.lean` is regenerated on every run from `pseudo_response_spectra` and `true_response_spectra`; the model's
`pgaSubstitute` tests `T < dt * 6`.
-/
namespace EqsigVerif.Props.C03
open EqsigVerif

/-- both functions substitute the PGA below the same multiple of `dt`, the `6` of the model -/
theorem gen_pga_factor :
    Gen.Consts.pgaFactor_pseudo_response_spectraRat = 6 ∧ Gen.Consts.pgaFactor_true_response_spectraRat = 6 := by
  constructor <;> decide +kernel

/-- the model's substitution rule with the generated factor -/
theorem gen_pga_substitute (periods : List Rat) (dt pga : Rat) (sas : List Rat) :
    Model.SpectraFns.pgaSubstitute periods dt pga sas =
      List.zipWith (fun T sa => if T < dt * Gen.Consts.pgaFactor_pseudo_response_spectraRat then pga else sa) periods sas := by
  have h : Gen.Consts.pgaFactor_pseudo_response_spectraRat = 6 := by decide +kernel
  rw [h]; rfl

end EqsigVerif.Props.C03
