import EqsigVerif.Props.C14
import EqsigVerif.Props.C14Gen
import EqsigVerif.Gen.TimeStepGrid
import Mathlib.Tactic.Ring
import Mathlib.Tactic.NormNum
import Mathlib.Data.Rat.Floor
/-!
# C14 — translator tie for `eqsig/fns/time_step.py` beyond the factor rule

`Gen/TimeStepGrid.lean` is regenerated on every run by `tools/py2lean_x_shift.py`: the quotient the factor rule is applied to,
`new_npts` (with the `even` rounding `2 * int(new_npts / 2)`), the number of abscissae `len(np.arange(new_npts))`, the time grid
`t_db[k] = k / factor`, the `np.interp` call (abscissa grid `np.arange(len(values))`, default `left`/`right`), the returned step
`dt / factor`; for `resample_to_approx_dt` the length `int(new_npts)` handed to `scipy.signal.resample` and the new step.
(The factor rule itself: `Gen/TimeStepFactor.lean`, `Props/C14Gen.lean`.)
-/
namespace EqsigVerif.Props.C14
open EqsigVerif EqsigVerif.Interp
open EqsigVerif.Wire (ErrKind)
open EqsigVerif.Model.TimeStep

theorem truncZ_intCast (k : Int) : truncZ ((k : Int) : Rat) = k := by
  unfold truncZ
  split
  · rw [Rat.ceil_eq_neg_floor_neg]
    have : -((k : Int) : Rat) = (((-k : Int)) : Rat) := by push_cast; ring
    rw [this, Rat.floor_intCast]; omega
  · exact Rat.floor_intCast k

/-- the factor rule is applied to `dt / target_dt` in both functions -/
theorem gen_quotient (dt target : Rat) :
    Gen.TimeStepGrid.gridQuotient dt target = dt / target ∧ Gen.TimeStepGrid.resampleQuotient dt target = dt / target := ⟨rfl, rfl⟩

/-- `new_npts = factor * len(values)`, `if even: new_npts = 2 * int(new_npts / 2)` -/
theorem gen_newNpts (values : List Rat) (factor : Rat) (even : Bool) :
    newNpts values.length factor even = Gen.TimeStepGrid.gridNewNpts values factor even := by
  unfold newNpts Gen.TimeStepGrid.gridNewNpts
  cases even
  · simp only [Bool.false_eq_true, if_false]; push_cast; ring
  · simp only [if_true]
    first
      | rfl
      | (congr 3; push_cast; ring)
      | (congr 3; push_cast; norm_num; try ring)

/-- number of output samples `len(np.arange(new_npts))` -/
theorem gen_outLen (values : List Rat) (factor : Rat) (even : Bool) :
    outLen values.length factor even =
      (Gen.TimeStepGrid.gridCount (Gen.TimeStepGrid.gridNewNpts values factor even)).toNat := by
  unfold outLen arangeLen Gen.TimeStepGrid.gridCount
  rw [gen_newNpts]

/-- the refined time grid `t_db = np.arange(new_npts) / factor` -/
theorem gen_tDb (values : List Rat) (factor : Rat) (even : Bool) :
    tDb values.length factor even =
      (List.range (Gen.TimeStepGrid.gridCount (Gen.TimeStepGrid.gridNewNpts values factor even)).toNat).map
        (fun (k : Nat) => Gen.TimeStepGrid.gridAbscissa factor (k : Int)) := by
  unfold tDb
  rw [gen_outLen]
  apply List.map_congr_left
  intro k _
  unfold Gen.TimeStepGrid.gridAbscissa
  push_cast
  rfl

/-- the interpolated values: `np.interp(t_db, np.arange(len(values)), values)` with NumPy's default `left`/`right` -/
theorem gen_interpValues (values : List Rat) (factor : Rat) (even : Bool) :
    interpValues values factor even =
      (List.range (Gen.TimeStepGrid.gridCount (Gen.TimeStepGrid.gridNewNpts values factor even)).toNat).map
        (fun (k : Nat) => Gen.TimeStepGrid.gridInterp values (Gen.TimeStepGrid.gridAbscissa factor (k : Int))) := by
  unfold interpValues
  rw [gen_tDb, List.map_map]
  rfl

/-- `interp_array_to_approx_dt` downstream of the factor decision, entirely from generated definitions -/
theorem gen_interpToApproxDt (values : List Rat) (dt factor : Rat) (even : Bool) (hf : factor ≠ 0) :
    interpToApproxDt values dt factor even =
      .ok ((List.range (Gen.TimeStepGrid.gridCount (Gen.TimeStepGrid.gridNewNpts values factor even)).toNat).map
          (fun (k : Nat) => Gen.TimeStepGrid.gridInterp values (Gen.TimeStepGrid.gridAbscissa factor (k : Int))),
        Gen.TimeStepGrid.gridNewDt dt factor) := by
  unfold interpToApproxDt
  rw [if_neg hf, gen_interpValues]
  rfl

/-- consequence: with the generated factor rule (`Props/C14Gen.lean`) the whole function is generated code: for
`dt, target_dt ≠ 0` the model's `interp_array_to_approx_dt` is the generated grid at the generated factor -/
theorem gen_interpArrayToApproxDt (values : List Rat) (dt target : Rat) (even : Bool) (hd : dt ≠ 0) (ht : target ≠ 0)
    (hf : Gen.TimeStepFactor.factorRuleInterp (Gen.TimeStepGrid.gridQuotient dt target) ≠ 0) :
    interpArrayToApproxDt values dt target even =
      (let f := Gen.TimeStepFactor.factorRuleInterp (Gen.TimeStepGrid.gridQuotient dt target)
       .ok ((List.range (Gen.TimeStepGrid.gridCount (Gen.TimeStepGrid.gridNewNpts values f even)).toNat).map
          (fun (k : Nat) => Gen.TimeStepGrid.gridInterp values (Gen.TimeStepGrid.gridAbscissa f (k : Int))),
        Gen.TimeStepGrid.gridNewDt dt f)) := by
  unfold interpArrayToApproxDt factorRule?
  rw [if_neg ht, if_neg hd]
  simp only [bind, Except.bind]
  rw [gen_factor_rule_interp] at hf
  rw [gen_factor_rule_interp, (gen_quotient dt target).1] at *
  exact gen_interpToApproxDt values dt _ even hf

/-- `resample_to_approx_dt`: the length handed to `scipy.signal.resample` is `int(new_npts)` -/
theorem gen_resampleNpts (values : List Rat) (factor : Rat) (even : Bool) :
    resampleNpts values.length factor even =
      (let k := Gen.TimeStepGrid.resampleNum (Gen.TimeStepGrid.resampleNewNpts values factor even)
       if k = 0 then .error .ZeroDivisionError else if k < 0 then .error .IndexError else .ok k.toNat) := by
  unfold resampleNpts Gen.TimeStepGrid.resampleNum Gen.TimeStepGrid.resampleNewNpts
  cases even
  · simp
  · simp only [if_true]
    have h : truncZ (((2 * truncZ (factor * (((values.length : Int) : Int) : Rat) / 2) : Int)) : Rat) =
        2 * truncZ (factor * ((values.length : Nat) : Rat) / 2) := by
      rw [truncZ_intCast]; simp
    rw [h]

theorem gen_resample_dt (dt factor : Rat) : Gen.TimeStepGrid.resampleNewDt dt factor = dt / factor := rfl

/-- consequence (C14 length/evenness about the generated code): with `even=True` the generated number of abscissae is even -/
theorem gen_grid_even (values : List Rat) (factor : Rat) :
    2 ∣ Gen.TimeStepGrid.gridCount (Gen.TimeStepGrid.gridNewNpts values factor true) := by
  unfold Gen.TimeStepGrid.gridCount Gen.TimeStepGrid.gridNewNpts
  simp only [if_true]
  rw [Rat.ceil_intCast]
  exact Dvd.intro _ rfl

/-- consequence (C14 `even_length` about the generated code): the interpolated record assembled from the generated grid has even
length when `even=True` -/
theorem gen_even_length (x : List ℚ) (f : ℚ) :
    2 ∣ ((List.range (Gen.TimeStepGrid.gridCount (Gen.TimeStepGrid.gridNewNpts x f true)).toNat).map
        (fun (k : ℕ) => Gen.TimeStepGrid.gridInterp x (Gen.TimeStepGrid.gridAbscissa f (k : ℤ)))).length := by
  rw [← gen_interpValues]; exact even_length x f

example : Gen.TimeStepGrid.gridQuotient 1 (1/4) = 4 ∧ Gen.TimeStepGrid.gridNewNpts [1, 2, 3] (3/2) true = 4 ∧
    Gen.TimeStepGrid.gridNewNpts [1, 2, 3] (3/2) false = 9/2 ∧ Gen.TimeStepGrid.gridCount (9/2) = 5 ∧
    Gen.TimeStepGrid.gridAbscissa 2 3 = 3/2 ∧ Gen.TimeStepGrid.gridInterp [1, 2, 4] (3/2) = 3 ∧
    Gen.TimeStepGrid.gridInterp [1, 2, 4] 5 = 4 ∧ Gen.TimeStepGrid.gridNewDt 1 4 = 1/4 := by decide +kernel
example : Gen.TimeStepGrid.resampleQuotient 1 (1/4) = 4 ∧ Gen.TimeStepGrid.resampleNewNpts [1, 2, 3] (3/2) true = 4 ∧
    Gen.TimeStepGrid.resampleNum (9/2) = 4 ∧ Gen.TimeStepGrid.resampleNewDt 1 4 = 1/4 := by decide +kernel

/-! ## parameter identities (see `Props/C19Gen.lean`) -/

example : Gen.TimeStepGrid.gridSignatures =
  [("gridQuotient", ["dt", "target_dt"]),
   ("gridNewNpts", ["values", "factor", "even"]),
   ("gridCount", ["gridNewNpts"]),
   ("gridAbscissa", ["factor", "k"]),
   ("gridInterp", ["values", "x"]),
   ("gridNewDt", ["dt", "factor"])] := rfl

example : Gen.TimeStepGrid.resampleSignatures =
  [("resampleQuotient", ["dt", "target_dt"]),
   ("resampleNewNpts", ["values", "factor", "even"]),
   ("resampleNum", ["resampleNewNpts"]),
   ("resampleNewDt", ["dt", "factor"])] := rfl

end EqsigVerif.Props.C14
