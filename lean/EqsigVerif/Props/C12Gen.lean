import EqsigVerif.Gen.PeaksFns
import EqsigVerif.Gen.CrossingsFns
import EqsigVerif.Props.C12
import EqsigVerif.Props.C12Discharged
import EqsigVerif.Props.C12Repair
import EqsigVerif.Model.SwitchedOut
import EqsigVerif.Lemmas.NpU
import EqsigVerif.Lemmas.SwitchedOut
import EqsigVerif.Props.C11Gen
import EqsigVerif.Lemmas.CrossingsGen
/-!
# C12 — bridges from the definitions generated from `eqsig/fns/peaks_and_crossings.py` (`Gen/CrossingsFns.lean`) to `Model/Switched.lean`
and, for the repaired `get_switched_peak_array_indices` (finding F12-3: the function ends with `return np.unique(switched_peak_indices)`),
to `Model/SwitchedOut.lean`: generated function = `switchedPeaksOutE` = `NpU.unique` of the loop's result `switchedPeaks`.
-/
-- the simp sets contain the variants for commuted operands in the source (used only after such a rewrite)
set_option linter.unusedSimpArgs false
namespace EqsigVerif.Props.C12
open EqsigVerif EqsigVerif.Wire EqsigVerif.Model.Switched EqsigVerif.Lemmas.PeaksGen EqsigVerif.Lemmas.CrossingsGen

/-- one pass of `for k, ind in enumerate(all_zc_indices[:-1])` is the model's `tolRemStep` (the slice `values[ind:ind1]` is not empty:
`max([])` would raise `ValueError`) -/
theorem gen_zc_step (v : List ℚ) (tol : ℚ) (zc rem : List ℕ) (k : ℕ) (hk : k + 1 < zc.length)
    (hs : Np.maxL? (Np.absL (Np.slice v (zc.getD k 0) (zc.getD (k+1) 0))) ≠ none) :
    Gen.CrossingsFns.zeroCrossingsArrayIndicesStep v tol zc rem k (zc.getD k 0) = .ok (tolRemStep v tol zc rem k) := by
  unfold Gen.CrossingsFns.zeroCrossingsArrayIndicesStep tolRemStep
  by_cases h : k ∈ rem
  · simp only [h, if_true]; rfl
  · simp only [h, if_false]
    rw [getE_ok zc (k+1) 0 hk]
    simp only [bind, Except.bind]
    unfold NpE.maxE
    have : (Np.slice v (zc.getD k 0) (zc.getD (k + 1) 0)).map (fun x => Np.absv x) =
        Np.absL (Np.slice v (zc.getD k 0) (zc.getD (k+1) 0)) := rfl
    rw [this]
    cases hm : Np.maxL? (Np.absL (Np.slice v (zc.getD k 0) (zc.getD (k+1) 0))) with
    | none => exact absurd hm hs
    | some m => rfl

/-- the `tol > 0` pruning loop on the model's crossing list: the generated fold is the model's `tolRem` -/
theorem gen_zc_loop (v : List ℚ) (hv : v ≠ []) (keep : Bool) (tol : ℚ) :
    NpP.forEnumE (Gen.CrossingsFns.zeroCrossingsArrayIndicesStep v tol (allZc v keep)) (allZc v keep).dropLast [] =
      .ok (tolRem v tol (allZc v keep)) := by
  unfold NpP.forEnumE tolRem
  rw [forEnumFrom_ok _ (tolRemStep v tol (allZc v keep))]
  · simp [List.range_eq_range']
  · intro s j hj
    have hj' : j < (allZc v keep).length - 1 := by simpa using hj
    have e : (allZc v keep).dropLast[j] = (allZc v keep).getD j 0 := by
      rw [List.getElem_dropLast, getD_eq_getElem' _ _ _ (by omega)]
    rw [Nat.zero_add, e]
    exact gen_zc_step v tol _ s j (by omega) (tolRemStep_slice_ne_nil v hv keep j hj')

/-- `get_zero_crossings_array_indices(values, keep_adj_zeros, tol)` — all arguments, both error branches included -/
theorem gen_zero_crossings (v : List ℚ) (keep : Bool) (tol : ℚ) :
    Gen.CrossingsFns.zeroCrossingsArrayIndices v keep tol = zeroCrossingsE v keep tol := by
  unfold Gen.CrossingsFns.zeroCrossingsArrayIndices zeroCrossingsE
  by_cases ht : tol < 0
  · simp only [ht, if_true]; rfl
  · simp only [ht, if_false]
    cases v with
    | nil => cases keep <;> rfl
    | cons x xs =>
      have hv : x :: xs ≠ [] := by simp
      have hzi : Np.whereIdx (fun x => decide (x = 0)) (x :: xs) = zeroIdx (x :: xs) := rfl
      have hA : allZc (x :: xs) keep = match sortAsc ((if (!keep && decide (1 < (zeroIdx (x :: xs)).length)) = true
            then pruneAdj (zeroIdx (x :: xs)) else zeroIdx (x :: xs)) ++ throughZeroIdx (x :: xs)) with
          | [] => [0]
          | a :: rest => if a ≠ 0 then 0 :: a :: rest else a :: rest := rfl
      have hT : Np.whereIdx (fun s => decide (s < 0)) (signSwitch (x :: xs)) = throughZeroIdx (x :: xs) := rfl
      simp only [hzi, bind, Except.bind, pure, Except.pure, getE_ok (x :: xs) 0 0 (by simp), List.getD_cons_zero,
        signSwitch_eq, sortAsc_eq, hT]
      by_cases hc : (!keep && decide (1 < (zeroIdx (x :: xs)).length)) = true
      on_goal 1 =>
        have hz : zeroIdx (x :: xs) ≠ [] := by
          intro h; rw [h] at hc; simp at hc
        simp only [hc, if_true, takeE_pruneAdj _ hz] at hA ⊢
      on_goal 2 => simp only [hc, Bool.false_eq_true, if_false] at hA ⊢
      all_goals
        generalize sortAsc (_ ++ throughZeroIdx (x :: xs)) = S at hA ⊢
        cases S with
        | nil =>
          simp only at hA
          simp [zeroCrossings, hA, tolRem, npDelete, npDeleteFrom]
        | cons a rest =>
          simp only at hA
          rw [getE_ok (a :: rest) 0 0 (by simp)]
          simp only [List.length_cons, Nat.add_eq_zero_iff, one_ne_zero, and_false, if_false, List.getD_cons_zero, ← hA,
            List.isEmpty_cons, Bool.false_eq_true]
          unfold zeroCrossings
          by_cases htol : 0 < tol
          · simp only [htol, if_true, gen_zc_loop _ hv, deleteE_ok _ _ (tolRem_lt _ _ _)]
          · simp only [htol, if_false]

/-! ### switched peaks -/

/-- one pass of `for i in range(1, len(peak_values))` on the state of an open group `cur` -/
theorem gen_switched_step (tol : ℚ) (pv : List ℚ) (last : ℚ) (npi : List ℕ) (cur : List (ℕ × ℚ)) (hc : cur ≠ []) (i : ℕ)
    (hi : i < pv.length) :
    Gen.CrossingsFns.switchedPeakArrayIndicesStep tol pv (stOf last npi cur) i =
      .ok (if (pv.getD i 0 + tol * sgn last) * last ≤ 0 then stOf (pv.getD i 0) (npi ++ [report cur]) [(i, pv.getD i 0)]
        else stOf last npi (cur ++ [(i, pv.getD i 0)])) := by
  unfold Gen.CrossingsFns.switchedPeakArrayIndicesStep
  rw [getE_ok pv i 0 hi]
  have hr := report_ok cur hc
  simp only [bind, Except.bind, pure, Except.pure, stOf, sign_eq_sgn, mul_comm (sgn last) tol] at hr ⊢
  by_cases h : (pv.getD i 0 + tol * sgn last) * last ≤ 0
  · simp only [h, if_true]
    cases ha : NpE.argmaxE ((cur.map (·.2)).map (fun x => Np.absv x)) with
    | error e => rw [ha] at hr; simp at hr
    | ok k =>
      rw [ha] at hr
      simp only at hr ⊢
      rw [hr]
      simp
  · simp only [h, if_false]
    simp

/-- the items `(i, peak_values[i])`, `i = a … a+n-1` -/
def itemsFrom (pv : List ℚ) (a n : ℕ) : List (ℕ × ℚ) := (List.range' a n).map (fun j => (j, pv.getD j 0))

/-- the grouping loop is the model's `groupsAux`: after the loop the closed groups' reports followed by the report of the
open group are the reports of all groups -/
theorem gen_switched_loop (tol : ℚ) (pv : List ℚ) (n : ℕ) : ∀ (a : ℕ) (last : ℚ) (npi : List ℕ) (cur : List (ℕ × ℚ)),
    cur ≠ [] → a + n ≤ pv.length →
    ∃ last' npi' cur', cur' ≠ [] ∧
      NpP.forCountFrom (Gen.CrossingsFns.switchedPeakArrayIndicesStep tol pv) a n (stOf last npi cur) = .ok (stOf last' npi' cur') ∧
      npi' ++ [report cur'] = npi ++ (groupsAux tol last cur (itemsFrom pv a n)).map report := by
  induction n with
  | zero =>
    intro a last npi cur hc _
    exact ⟨last, npi, cur, hc, rfl, by simp [itemsFrom, groupsAux]⟩
  | succ n ih =>
    intro a last npi cur hc ha
    have hstep := gen_switched_step tol pv last npi cur hc a (by omega)
    have hit : itemsFrom pv a (n+1) = (a, pv.getD a 0) :: itemsFrom pv (a+1) n := by
      simp [itemsFrom, List.range'_succ]
    simp only [NpP.forCountFrom, hstep, hit, groupsAux]
    by_cases h : (pv.getD a 0 + tol * sgn last) * last ≤ 0
    · simp only [h, if_true]
      obtain ⟨l', n', c', hc', h1, h2⟩ := ih (a+1) (pv.getD a 0) (npi ++ [report cur]) [(a, pv.getD a 0)] (by simp) (by omega)
      exact ⟨l', n', c', hc', h1, by rw [h2]; simp⟩
    · simp only [h, if_false]
      exact ih (a+1) last npi (cur ++ [(a, pv.getD a 0)]) (by simp) (by omega)

theorem zip_range_eq_itemsFrom (pv : List ℚ) : (List.range pv.length).zip pv = itemsFrom pv 0 pv.length := by
  unfold itemsFrom
  apply List.ext_getElem
  · simp
  · intro j h1 h2
    have hj : j < pv.length := by simpa using h1
    simp [hj]

theorem itemsFrom_fst_lt (pv : List ℚ) (a n : ℕ) : ∀ e ∈ itemsFrom pv a n, e.1 < a + n := by
  intro e he
  unfold itemsFrom at he
  obtain ⟨j, hj, rfl⟩ := List.mem_map.mp he
  have := List.mem_range'_1.mp hj
  simp only
  omega

theorem groups_report_lt (tol : ℚ) (pv : List ℚ) :
    ∀ r ∈ (groups tol id (itemsFrom pv 0 pv.length)).map report, r < pv.length := by
  intro r hr
  obtain ⟨g, hg, rfl⟩ := List.mem_map.mp hr
  have hne := groups_ne_nil tol _ g hg
  obtain ⟨e, he, h1⟩ := List.mem_map.mp (report_mem g hne)
  have hmem : e ∈ (groups tol id (itemsFrom pv 0 pv.length)).flatten := List.mem_flatten.mpr ⟨g, hg, he⟩
  rw [groups_flatten] at hmem
  have := itemsFrom_fst_lt pv 0 pv.length e hmem
  omega

/-- `get_switched_peak_array_indices(values, tol)` (repaired: loop, then `np.unique`) — all arguments, error branch included -/
theorem gen_switched_peaks (v : List ℚ) (tol : ℚ) :
    Gen.CrossingsFns.switchedPeakArrayIndices v tol = switchedPeaksOutE v tol := by
  unfold Gen.CrossingsFns.switchedPeakArrayIndices switchedPeaksOutE
  cases v with
  | nil => rfl
  | cons x xs =>
    have hv : x :: xs ≠ [] := by simp
    rw [C11.gen_all_ok _ hv]
    simp only [bind, Except.bind, pure, Except.pure]
    rw [C11.takeE_ok_rat _ _ (Lemmas.Peaks.peaks_lt_length _ hv)]
    simp only
    generalize hpv : (Model.Peaks.peaks (x :: xs)).map (fun i => (x :: xs).getD i 0) = pv
    have hlen : pv.length = (Model.Peaks.peaks (x :: xs)).length := by rw [← hpv]; simp
    have hl : 2 ≤ pv.length := by rw [hlen]; exact Lemmas.Peaks.peaks_length_ge _
    rw [getE_ok pv 0 0 (by omega)]
    simp only
    obtain ⟨l', n', c', hc', h1, h2⟩ :=
      gen_switched_loop tol pv (pv.length - 1) 1 (pv.getD 0 0) [] [(0, pv.getD 0 0)] (by simp) (by omega)
    unfold NpP.forRangeE
    have hinit : (pv.getD 0 0, [pv.getD 0 0], ([] : List ℕ), [0]) = stOf (pv.getD 0 0) [] [(0, pv.getD 0 0)] := rfl
    rw [hinit, h1]
    have hr := report_ok c' hc'
    simp only [bind, Except.bind] at hr
    have hlast : NpP.lastRangeE 1 pv.length = .ok (pv.length - 1) := by
      unfold NpP.lastRangeE; rw [if_pos (by omega)]
    have hget : NpE.getE pv (pv.length - 1) = .ok (pv.getD (pv.length - 1) 0) := getE_ok _ _ 0 (by omega)
    have hc2 : (c'.map (·.2)).length ≠ 0 := by simpa using hc'
    simp only [stOf, hc2, ne_eq, not_false_eq_true, if_true]
    cases ha : NpE.argmaxE ((c'.map (·.2)).map (fun x => Np.absv x)) with
    | error e => rw [ha] at hr; simp at hr
    | ok k =>
      rw [ha] at hr
      simp only at hr ⊢
      rw [hr]
      simp only [hlast, hget, h2, List.nil_append]
      have hitems : (pv.getD 0 0 |> fun p0 => groupsAux tol p0 [(0, p0)] (itemsFrom pv 1 (pv.length - 1))) =
          groups tol id (itemsFrom pv 0 pv.length) := by
        have : itemsFrom pv 0 pv.length = (0, pv.getD 0 0) :: itemsFrom pv 1 (pv.length - 1) := by
          obtain ⟨m, hm⟩ : ∃ m, pv.length = m + 1 := ⟨pv.length - 1, by omega⟩
          rw [hm]; simp [itemsFrom, List.range'_succ]
        rw [this]; rfl
      simp only at hitems
      rw [hitems]
      have hrange : ∀ r ∈ (groups tol id (itemsFrom pv 0 pv.length)).map report, r < (Model.Peaks.peaks (x :: xs)).length := by
        rw [← hlen]; exact groups_report_lt tol pv
      have : NpP.takeE (Model.Peaks.peaks (x :: xs)) ((groups tol id (itemsFrom pv 0 pv.length)).map report) =
          .ok (((groups tol id (itemsFrom pv 0 pv.length)).map report).map (fun i => (Model.Peaks.peaks (x :: xs)).getD i 0)) :=
        takeE_ok _ _ hrange
      rw [this]
      simp only [List.isEmpty_cons, Bool.false_eq_true, if_false]
      unfold switchedPeaksOut switchedPeaks newPeakPositions peakPosItems
      rw [← zip_range_eq_itemsFrom, hlen, ← hpv]

/-! ### wrappers (defaults read from the callees' signatures) -/

/-- `get_zero_crossings_indices(asig)`: `keep_adj_zeros=False`, `tol=0.0` -/
theorem gen_zero_crossings_indices (v : List ℚ) : Gen.CrossingsFns.zeroCrossingsIndices v = zeroCrossingsE v false 0 := by
  unfold Gen.CrossingsFns.zeroCrossingsIndices
  rw [gen_zero_crossings]

/-- `get_switched_peak_indices(asig)` for an object with `.values`: `tol=0.0` -/
theorem gen_switched_peak_indices (v : List ℚ) : Gen.CrossingsFns.switchedPeakIndices v = switchedPeaksOutE v 0 := by
  unfold Gen.CrossingsFns.switchedPeakIndices
  rw [gen_switched_peaks]

/-- `get_switched_peak_indices(values)` for a plain array -/
theorem gen_switched_peak_indices_of_array (v : List ℚ) :
    Gen.CrossingsFns.switchedPeakIndicesOfArray v = switchedPeaksOutE v 0 := by
  unfold Gen.CrossingsFns.switchedPeakIndicesOfArray
  rw [gen_switched_peaks]

/-- `get_n_cyc_array(values, opt='switched', start)` with the generated `get_switched_peak_array_indices` plugged in for the
parameter `switched` of `Gen.PeaksFns.getNCycArray` (the call passes `values` only, so `tol` keeps its default `0.0`); the knots are the
indices the repaired function returns (`switchedPeaksOut`: for the all-zero series `[0]`, no longer the double knot `[0, 0]`) -/
theorem gen_get_n_cyc_array_switched_full (v : List ℚ) (hv : v ≠ []) (so : Bool) :
    Gen.PeaksFns.getNCycArray (fun w => Gen.CrossingsFns.switchedPeakArrayIndices w 0) C11.interpM v "switched" (C11.startOf so) =
      .ok (Model.Peaks.nCycFrom v.length (switchedPeaksOut v 0) so) := by
  apply C11.gen_get_n_cyc_array_switched
  · simp only [gen_switched_peaks, switchedPeaksOutE]
    obtain ⟨x, xs, rfl⟩ := List.exists_cons_of_ne_nil hv
    rfl
  · exact Lemmas.SwitchedOut.switchedPeaksOut_ne_nil v 0

/-! ### the C12 theorems stated about the generated definitions -/

theorem gen_zc_ok (v : List ℚ) (hv : v ≠ []) (keep : Bool) (tol : ℚ) (ht : 0 ≤ tol) :
    Gen.CrossingsFns.zeroCrossingsArrayIndices v keep tol = .ok (zeroCrossings v keep tol) := by
  rw [gen_zero_crossings]
  unfold zeroCrossingsE
  obtain ⟨x, xs, rfl⟩ := List.exists_cons_of_ne_nil hv
  rw [if_neg (not_lt.mpr ht)]
  rfl

theorem gen_sw_ok (v : List ℚ) (hv : v ≠ []) (tol : ℚ) :
    Gen.CrossingsFns.switchedPeakArrayIndices v tol = .ok (switchedPeaksOut v tol) := by
  rw [gen_switched_peaks]
  obtain ⟨x, xs, rfl⟩ := List.exists_cons_of_ne_nil hv
  rfl

/-- the generated function in terms of the loop model: `np.unique` of `switchedPeaks`; for a non-constant series the loop's result itself -/
theorem gen_sw_ok_loop (v : List ℚ) (hv : Lemmas.Peaks.NonConstant v) (tol : ℚ) :
    Gen.CrossingsFns.switchedPeakArrayIndices v tol = .ok (switchedPeaks v tol) := by
  rw [gen_sw_ok v (Lemmas.Peaks.nonConstant_ne_nil v hv), switched_out_eq_full v hv]

/-- **the repaired clause about the generated code**: for EVERY series and every `tol`, whatever the generated
`get_switched_peak_array_indices` returns is strictly ascending (false before the repair: `np.zeros(n) ↦ [0, 0]`) -/
theorem gen_switched_strict_ascending_all (v : List ℚ) (tol : ℚ) (S : List ℕ)
    (h : Gen.CrossingsFns.switchedPeakArrayIndices v tol = .ok S) : S.Pairwise (· < ·) := by
  rw [gen_switched_peaks] at h
  exact switched_outE_strict_ascending v tol S h

/-- the witness of F12-3 about the generated code: the all-zero series gives `[0]` (every length, every `tol`) -/
theorem gen_switched_zero_series (n : ℕ) (tol : ℚ) :
    Gen.CrossingsFns.switchedPeakArrayIndices (List.replicate (n+1) (0 : ℚ)) tol = .ok [0] := by
  rw [gen_sw_ok _ (by simp), switched_out_zero_series]

/-- C12.a about the generated `get_zero_crossings_array_indices` (`tol = 0`): membership and strict ascent -/
theorem gen_zc_spec (v : List ℚ) (hv : v ≠ []) (keep : Bool) :
    ∃ Z, Gen.CrossingsFns.zeroCrossingsArrayIndices v keep 0 = .ok Z ∧ Z.Pairwise (· < ·) ∧
      ∀ i, i ∈ Z ↔ i < v.length ∧ (i = 0 ∨ (v.getD i 0 = 0 ∧ (keep = true ∨ v.getD (i - 1) 0 ≠ 0)) ∨
        (0 < i ∧ v.getD (i - 1) 0 * v.getD i 0 < 0)) :=
  ⟨_, gen_zc_ok v hv keep 0 le_rfl, zc_strict_ascending v hv keep, zc_spec v hv keep⟩

/-- C12.b about the generated definition: a positive tolerance only removes entries -/
theorem gen_zc_tol_sublist (v : List ℚ) (hv : v ≠ []) (keep : Bool) (tol : ℚ) (htol : 0 < tol) :
    ∃ Z Z0, Gen.CrossingsFns.zeroCrossingsArrayIndices v keep tol = .ok Z ∧
      Gen.CrossingsFns.zeroCrossingsArrayIndices v keep 0 = .ok Z0 ∧ Z.Sublist Z0 :=
  ⟨_, _, gen_zc_ok v hv keep tol htol.le, gen_zc_ok v hv keep 0 le_rfl, zc_tol_sublist v hv keep tol htol⟩

/-- the `tol < 0` branch: `raise NotImplemented(..)` is a `TypeError` -/
theorem gen_zc_negative_tol (v : List ℚ) (keep : Bool) (tol : ℚ) (h : tol < 0) :
    Gen.CrossingsFns.zeroCrossingsArrayIndices v keep tol = .error .TypeError := by
  rw [gen_zero_crossings]; unfold zeroCrossingsE; rw [if_pos h]

/-- C12.d about the generated `get_switched_peak_array_indices`: the global absolute maximum is reported -/
theorem gen_switched_global_max (v : List ℚ) (hv : v ≠ []) :
    ∃ S, Gen.CrossingsFns.switchedPeakArrayIndices v 0 = .ok S ∧
      ∃ r ∈ S, ∀ i, i < v.length → |v.getD i 0| ≤ |v.getD r 0| :=
  ⟨_, gen_sw_ok v hv 0, switched_out_global_max v hv⟩

/-- strict ascent and sign alternation of the generated switched-peak result (non-constant series) -/
theorem gen_switched_shape (v : List ℚ) (hv : Lemmas.Peaks.NonConstant v) :
    ∃ S, Gen.CrossingsFns.switchedPeakArrayIndices v 0 = .ok S ∧ S.Pairwise (· < ·) ∧ S.Sublist (Model.Peaks.peaks v) ∧
      S.IsChain (fun a b => v.getD a 0 * v.getD b 0 ≤ 0) := by
  have h := switched_shape v (Lemmas.Peaks.nonConstant_ne_nil v hv)
  exact ⟨_, gen_sw_ok_loop v hv 0, switched_strict_ascending_full v hv 0, h.1, h.2.2⟩

/-! ### concrete instances (kernel-checked), one per generated definition -/

example : Gen.CrossingsFns.zeroCrossingsArrayIndices ([0, 2, 1, 2, -1, 1, 0, 0, 1, 3/10, 0, -1, 1/5, 1, 1/5] : List ℚ) false 0 =
    .ok [0, 4, 5, 6, 10, 12] := by decide +kernel
example : Gen.CrossingsFns.zeroCrossingsArrayIndices ([1, -1, 2, -3, 1/4, -1/4, 3] : List ℚ) false (3/2) = .ok [2, 3, 6] := by
  decide +kernel
example : Gen.CrossingsFns.zeroCrossingsArrayIndicesStep ([1, -1, 2, -3] : List ℚ) (3/2) [0, 1, 2, 3] [] 0 0 = .ok [0, 1] := by
  decide +kernel
example : Gen.CrossingsFns.zeroCrossingsIndices ([-1, 0, 0, 2, -2] : List ℚ) = .ok [0, 1, 4] := by decide +kernel
example : Gen.CrossingsFns.switchedPeakArrayIndices ([0, 2, 1, 3, -1, -2, -1, 1] : List ℚ) 0 = .ok [0, 3, 5, 7] := by decide +kernel
example : Gen.CrossingsFns.switchedPeakArrayIndicesStep (0 : ℚ) [0, 2, 1] (0, [0], [], [0]) 1 = .ok (2, [2], [0], [1]) := by
  decide +kernel
example : Gen.CrossingsFns.switchedPeakIndices ([5, 1, 3, -1] : List ℚ) = .ok [0, 3] ∧
    Gen.CrossingsFns.switchedPeakIndicesOfArray ([5, 1, 3, -1] : List ℚ) = .ok [0, 3] := by decide +kernel
example : Gen.CrossingsFns.switchedPeakArrayIndices ([0, 0, 0] : List ℚ) 0 = .ok [0] ∧
    Gen.CrossingsFns.switchedPeakArrayIndices ([0, 0, 0] : List ℚ) (1/2) = .ok [0] ∧
    Gen.CrossingsFns.switchedPeakIndices ([0] : List ℚ) = .ok [0] ∧
    Gen.CrossingsFns.switchedPeakArrayIndices ([] : List ℚ) 0 = .error .IndexError := by decide +kernel
example : (∀ S, Gen.CrossingsFns.switchedPeakArrayIndices ([0, 0] : List ℚ) 0 = .ok S → S.Pairwise (· < ·)) ∧
    Gen.CrossingsFns.switchedPeakArrayIndices ([0, 0] : List ℚ) 0 = .ok [0] :=
  ⟨gen_switched_strict_ascending_all _ _, gen_switched_zero_series 1 0⟩

end EqsigVerif.Props.C12
