import EqsigVerif.Model.Multiple
import EqsigVerif.Lemmas.Multiple
import EqsigVerif.Lemmas.Rotation
/-!
# C18 — two-component rotation and cluster alignment

Model: `EqsigVerif/Model/Multiple.lean` (tree with the planned fix `same_start: signal_by_index(i)`).
-/
set_option linter.unusedVariables false
set_option linter.unusedSimpArgs false
set_option linter.unnecessarySeqFocus false
namespace EqsigVerif.Props.C18
open EqsigVerif EqsigVerif.Model.Multiple EqsigVerif.Model.Single
open EqsigVerif.Wire (ErrKind)

/-! ## C18.a — `combine_at_angle` -/

/-- **C18.a** (`combine_spec`, over `ℝ`). For two equally long components, `combine_at_angle(ns, we, θ)` returns normally
and its `i`-th sample is `ns[i]·cos(θ°) + we[i]·sin(θ°)`; `θ = 0` gives `ns`, `θ = 90` gives `we`, `θ + 180` negates;
the combination depends on `θ` only modulo 360. -/
theorem combine_spec (ns we : List ℝ) (θ : ℝ) (hlen : ns.length = we.length) :
    combineAtAngle (cosDeg θ) (sinDeg θ) ns we = .ok (comboAt θ ns we) ∧
    (comboAt θ ns we).length = ns.length ∧
    (∀ i (h1 : i < ns.length) (h2 : i < we.length),
      (comboAt θ ns we)[i]'(by simp [comboAt]; omega) = ns[i] * cosDeg θ + we[i] * sinDeg θ) ∧
    comboAt 0 ns we = ns ∧ comboAt 90 ns we = we ∧
    comboAt (θ + 180) ns we = (comboAt θ ns we).map (- ·) ∧
    (∀ k : ℤ, comboAt (θ - 360 * k) ns we = comboAt θ ns we) := by
  refine ⟨by simp [combineAtAngle, hlen, comboAt], by simp [comboAt, hlen],
    fun i h1 h2 => combo_getElem _ _ ns we i h1 h2, ?_, ?_, ?_, ?_⟩
  · apply List.ext_getElem (by simp [comboAt, hlen])
    intro i h1 h2
    simp only [comboAt]
    rw [combo_getElem _ _ ns we i h2 (by omega), cosDeg_zero, sinDeg_zero]; ring
  · apply List.ext_getElem (by simp [comboAt, hlen])
    intro i h1 h2
    simp only [comboAt]
    rw [combo_getElem _ _ ns we i (by omega) h2, cosDeg_90, sinDeg_90]; ring
  · apply List.ext_getElem (by simp [comboAt, hlen])
    intro i h1 h2
    have hi : i < ns.length := by simpa [comboAt, hlen] using h1
    simp only [comboAt, List.getElem_map]
    rw [combo_getElem _ _ ns we i hi (by omega),
      combo_getElem _ _ ns we i hi (by omega), cosDeg_add_180, sinDeg_add_180]; ring
  · intro k
    simp only [comboAt, cosDeg_sub_360, sinDeg_sub_360]

/-- non-vacuity: two 2-sample components at 90° and at 180° -/
example : comboAt 90 [1, 2] [3, 4] = [3, 4] ∧ comboAt (0 + 180) [1, 2] [3, 4] = [-1, -2] := by
  have h := combine_spec [1, 2] [3, 4] 0 rfl
  obtain ⟨_, _, _, h0, h90, h180, _⟩ := h
  refine ⟨h90, ?_⟩
  rw [h180, h0]; norm_num

/-- `combine_at_angle` on components of different lengths (neither of length 1, which NumPy would broadcast) raises. -/
example : combineAtAngle (1 : ℚ) 0 [1, 2, 3] [1, 2] = .error .ValueError := by decide +kernel

/-! ## C18.b — `compute_rotated` -/

/-- **C18.b** (`rotated_spec`). For two components with the same `dt` and number of points and a given measure (`parameter`
or `func`), `compute_rotated` returns `points` angles and `points` values; the `i`-th value is the measure of the
combination at `degrees[i]` (`combo` with the cosine/sine of that angle); for `points ≥ 2`,
`degrees[i] ∈ [0, 360)` and `degrees[i] = −off + 180·i/(points−1) − 360·k` for an integer `k`
(i.e. `≡ −off + 180·i/(points−1) (mod 360)`). -/
theorem rotated_spec {α β : Type} [Add α] [Mul α] (cosd sind : ℚ → α) (f : List α → β)
    (dt : ℚ) (ns we : List α) (off : ℚ) (points : ℕ) (hlen : ns.length = we.length) :
    ∃ degs vals, computeRotated cosd sind (some f) dt dt ns we off points = .ok (degs, vals) ∧
      ∃ (hd : degs.length = points) (hv : vals.length = points),
      (∀ i (hi : i < points),
        vals[i]'(by omega) = f (combo (cosd (degs[i]'(by omega))) (sind (degs[i]'(by omega))) ns we)) ∧
      (2 ≤ points → ∀ i (hi : i < points),
        0 ≤ degs[i]'(by omega) ∧ degs[i]'(by omega) < 360 ∧
        ∃ k : ℤ, degs[i]'(by omega) = -off + 180 * (i : ℚ) / ((points : ℚ) - 1) - 360 * (k : ℚ)) := by
  refine ⟨rotatedDegrees off points, (rotatedDegrees off points).map
    (fun d => f (combo (cosd d) (sind d) ns we)), by simp [computeRotated, hlen],
    by simp [rotatedDegrees], by simp [rotatedDegrees], ?_, ?_⟩
  · intro i hi
    simp
  · intro hp i hi
    have hg : (rotatedDegrees off points)[i]'(by simp [rotatedDegrees]; omega)
        = npMod ((0 - off) + (i : ℚ) * ((180 - off - (0 - off)) / ((points : ℚ) - 1))) 360 := by
      simp only [rotatedDegrees, List.getElem_map]
      rw [linspace_getElem _ _ points i hp hi]
    obtain ⟨h1, h2, h3⟩ := npMod_spec ((0 - off) + (i : ℚ) * ((180 - off - (0 - off)) / ((points : ℚ) - 1)))
      360 (by norm_num)
    rw [hg]
    refine ⟨h1, h2, ⌊((0 - off) + (i : ℚ) * ((180 - off - (0 - off)) / ((points : ℚ) - 1))) / 360⌋, ?_⟩
    rw [h3]; ring

/-- non-vacuity: offset 30°, 5 points: angles `330, 15, 60, 105, 150` -/
example : rotatedDegrees 30 5 = [330, 15, 60, 105, 150] ∧ rotatedDegrees (-10) 1 = [10] := by decide +kernel

/-- **C18.b** (failures): different `dt` or different numbers of points fail the assertions; without `parameter` and
`func` the loop raises `ValueError` (as soon as there is one angle). -/
theorem rotated_errors {α β : Type} [Add α] [Mul α] (cosd sind : ℚ → α) (m : Option (List α → β))
    (dtNs dtWe : ℚ) (ns we : List α) (off : ℚ) (points : ℕ) :
    (dtNs ≠ dtWe → computeRotated cosd sind m dtNs dtWe ns we off points = .error .AssertionError) ∧
    (dtNs = dtWe → ns.length ≠ we.length →
      computeRotated cosd sind m dtNs dtWe ns we off points = .error .AssertionError) ∧
    (dtNs = dtWe → ns.length = we.length → 0 < points →
      computeRotated cosd sind (none : Option (List α → β)) dtNs dtWe ns we off points = .error .ValueError) := by
  refine ⟨fun h => by simp [computeRotated, h], fun h1 h2 => by simp [computeRotated, h1, h2],
    fun h1 h2 h3 => ?_⟩
  have : (rotatedDegrees off points).isEmpty = false := by
    rw [List.isEmpty_eq_false_iff]; intro h0
    have := congrArg List.length h0
    simp [rotatedDegrees] at this; omega
  simp [computeRotated, h1, h2, this]

example : computeRotated (α := ℚ) (β := ℚ) (fun _ => 1) (fun _ => 0) none (1/2) (1/2) [1] [2] 0 3
    = .error .ValueError := by decide +kernel

/-! ## C18.e — `get_section_average` / `time_indices` -/

/-- **C18.e** (`section_average_spec`, time form, `index=False`) for `dt > 0`, `start ≥ 0`, `end ≥ 0`:
with `s = ⌊start/dt⌋`, `e = ⌊end/dt⌋ + 1`: raises (`SignalProcessingWarning`, tag `.Other`) iff `e > npts`; otherwise
the result is `np.mean(values[s:e])` (`nan` = `none` for an empty section), i.e. for `s < e`
`(Σ_{s ≤ j < e} values[j]) / (e − s)`. -/
theorem section_average_spec (v : List ℚ) (dt start end_ : ℚ) (hdt : 0 < dt) (hs : 0 ≤ start) (he : 0 ≤ end_) :
    let s := ⌊start / dt⌋.toNat
    let e := ⌊end_ / dt⌋.toNat + 1
    ((∃ x, sectionAverageN v dt start end_ = .error x) ↔ v.length < e) ∧
    (v.length < e → sectionAverageN v dt start end_ = .error .Other) ∧
    (e ≤ v.length → sectionAverageN v dt start end_ = .ok (mean? ((v.take e).drop s))) ∧
    (s < e → e ≤ v.length →
      sectionAverage v dt start end_ = .ok ((∑ j ∈ Finset.Ico s e, v.getD j 0) / ((e - s : ℕ) : ℚ))) := by
  intro s e
  have h1 : 0 ≤ ⌊start / dt⌋ := Int.floor_nonneg.mpr (div_nonneg hs hdt.le)
  have h2 : 0 ≤ ⌊end_ / dt⌋ := Int.floor_nonneg.mpr (div_nonneg he hdt.le)
  have hne : end_ ≠ -1 := by linarith
  have hdt0 : dt ≠ 0 := hdt.ne'
  have ti : timeIndices v.length dt start end_ =
      if v.length < e then .error .Other else .ok ((s : ℤ), (e : ℤ)) := by
    unfold timeIndices
    simp only [hdt0, if_false, hne, ne_eq, not_false_eq_true, if_true,
      truncInt_of_nonneg _ (div_nonneg hs hdt.le), truncInt_of_nonneg _ (div_nonneg he hdt.le)]
    have e1 : (⌊end_ / dt⌋ + 1 > (v.length : ℤ)) ↔ v.length < e := by
      simp only [e]; omega
    by_cases hc : v.length < e
    · simp only [e1.mpr hc, hc, if_true]
    · have : ¬ (⌊end_ / dt⌋ + 1 > (v.length : ℤ)) := fun h => hc (e1.mp h)
      simp only [this, hc, if_false]
      congr 2
      · simp only [s]; omega
      · simp only [e]; omega
  have hok : e ≤ v.length → sectionAverageN v dt start end_ = .ok (mean? ((v.take e).drop s)) := by
    intro hle
    unfold sectionAverageN
    rw [ti]
    have : ¬ v.length < e := by omega
    simp only [this, if_false, pySlice_nat v s e (by omega)]
  refine ⟨?_, ?_, hok, ?_⟩
  · constructor
    · rintro ⟨x, hx⟩
      by_contra hc
      rw [hok (by omega)] at hx
      cases hx
    · intro hc
      exact ⟨.Other, by unfold sectionAverageN; rw [ti]; simp [hc]⟩
  · intro hc
    unfold sectionAverageN; rw [ti]; simp [hc]
  · intro hse hle
    unfold sectionAverage
    rw [hok hle]
    have hlen : ((v.take e).drop s).length = e - s := by simp; omega
    have hne : ((v.take e).drop s).isEmpty = false := by
      rw [List.isEmpty_eq_false_iff]; intro h0; rw [h0] at hlen; simp at hlen; omega
    simp only [mean?, hne, nanAsError, Bool.false_eq_true, if_false, mean, npSum_eq_sum,
      sum_slice_eq_Ico v s e hle, hlen]

/-- non-vacuity: `dt = 1/2`, section `[0, 1]` ⇒ samples `0..2`; and a cut beyond the record -/
example : sectionAverage [3, 6, 9, 100] (1/2) 0 1 = .ok 6 ∧
    sectionAverageN [3, 6] (1/2) 0 1 = .error .Other ∧
    sectionAverageN [3, 6, 9] (1/2) 1 (1/2) = .ok none := by decide +kernel

/-- **C18.e** (index form, `index=True`, natural indices): raises iff `e > npts`; else `np.mean(values[s:e])`. -/
theorem section_average_idx_spec (v : List ℚ) (s e : ℕ) :
    (v.length < e → sectionAverageIdxN v s e = .error .Other) ∧
    (e ≤ v.length → sectionAverageIdxN v s e = .ok (mean? ((v.take e).drop s))) := by
  unfold sectionAverageIdxN timeIndicesIdx
  constructor
  · intro h
    have : ((e : ℤ) > (v.length : ℤ)) := by omega
    simp [this]
  · intro h
    have : ¬ ((e : ℤ) > (v.length : ℤ)) := by omega
    simp only [this, if_false, pySlice_nat v s e (by omega)]

example : sectionAverageIdx [3, 6, 9, 100] 1 3 = .ok (15/2) ∧
    sectionAverageIdxN [3, 6, 9, 100] 1 5 = .error .Other := by decide +kernel

/-! ## C18.c — `Cluster.same_start` -/

/-- **C18.c** (`same_start_spec`), every cluster size and every `master_index` (fixed tree). If the call returns
normally (records `out`): the number of records and the master are unchanged, and every non-master record is the
original shifted by a constant such that afterwards its section average **equals the master's**. -/
theorem same_start_spec (signals : List (List ℚ)) (dt start end_ : ℚ) (master : ℕ) (out : List (List ℚ))
    (h : sameStart signals dt master start end_ = .ok out) :
    out.length = signals.length ∧
    (∃ m, signals[master]? = some m ∧ out[master]? = some m) ∧
    ∀ i s o, i ≠ master → signals[i]? = some s → out[i]? = some o →
      (∃ c, o = s.map (· - c)) ∧
      ∃ mAv m, signals[master]? = some m ∧ sectionAverage m dt start end_ = .ok mAv ∧
        sectionAverage o dt start end_ = .ok mAv := by
  unfold sameStart at h
  cases hm : signals[master]? with
  | none => simp [hm] at h
  | some m =>
    simp only [hm] at h
    cases hav : sectionAverageN m dt start end_ with
    | error e => simp [hav] at h
    | ok masterAv =>
      simp only [hav] at h
      cases haux : sameStartAux dt start end_ masterAv master 0 signals with
      | error e => simp [haux] at h
      | ok r =>
        simp only [haux] at h
        cases hall : allSome r with
        | none => simp [hall, nanAsError] at h
        | some out' =>
          simp only [hall, nanAsError, Except.ok.injEq] at h
          subst h
          have hr := allSome_spec r out' hall
          obtain ⟨hlen, hk⟩ := sameStartAux_spec dt start end_ masterAv master 0 signals r haux
          refine ⟨by rw [← hlen, hr]; simp, ⟨m, rfl, ?_⟩, ?_⟩
          · have := (hk master m hm).1 (by omega)
            rw [hr] at this
            simpa using this
          · intro i s o hi hs ho
            obtain ⟨sav, hsav, hri⟩ := (hk i s hs).2 (by omega)
            rw [hr, List.getElem?_map, ho] at hri
            simp only [Option.map_some, Option.some.injEq] at hri
            cases sav with
            | none => simp [shiftRecord] at hri
            | some a =>
              cases masterAv with
              | none => simp [shiftRecord] at hri
              | some mv =>
                simp only [shiftRecord, Option.some.injEq] at hri
                refine ⟨⟨a - mv, hri⟩, mv, m, rfl, ?_, ?_⟩
                · simp [sectionAverage, hav, nanAsError]
                · rw [hri]
                  simp only [sectionAverage, sectionAverageN_map_sub, hsav, Except.map, Option.map_some,
                    nanAsError]
                  congr 1; ring

/-- non-vacuity: three signals, master 1 (the case the unchanged tree gets wrong), `dt = 1/2`, section `[0, 1]` -/
example : sameStart [[1, 2, 3, 4], [10, 20, 30, 40], [5, 5, 8, 0]] (1/2) 1 0 1
    = .ok [[19, 20, 21, 22], [10, 20, 30, 40], [19, 19, 22, 14]] := by decide +kernel

/-- **C18.c** (no spurious failure): if the master index is in range and every record has a (non-`nan`) section
average, `same_start` returns normally. -/
theorem same_start_ok (signals : List (List ℚ)) (dt start end_ : ℚ) (master : ℕ)
    (hm : master < signals.length)
    (hav : ∀ s ∈ signals, ∃ a, sectionAverage s dt start end_ = .ok a) :
    ∃ out, sameStart signals dt master start end_ = .ok out := by
  have havN : ∀ s ∈ signals, ∃ a, sectionAverageN s dt start end_ = .ok (some a) := by
    intro s hs
    obtain ⟨a, ha⟩ := hav s hs
    refine ⟨a, ?_⟩
    unfold sectionAverage at ha
    cases hx : sectionAverageN s dt start end_ with
    | error e => simp [hx, nanAsError] at ha
    | ok o =>
      cases o with
      | none => simp [hx, nanAsError] at ha
      | some b => simp only [hx, nanAsError, Except.ok.injEq] at ha; rw [ha]
  unfold sameStart
  have hget : signals[master]? = some signals[master] := List.getElem?_eq_getElem hm
  obtain ⟨mv, hmv⟩ := havN signals[master] (List.getElem_mem hm)
  simp only [hget, hmv]
  obtain ⟨r, hr⟩ := sameStartAux_ok dt start end_ (some mv) master 0 signals
    (fun s hs => by obtain ⟨a, ha⟩ := havN s hs; exact ⟨some a, ha⟩)
  simp only [hr]
  obtain ⟨hlen, hk⟩ := sameStartAux_spec dt start end_ (some mv) master 0 signals r hr
  -- every produced record is a number
  have hsome : ∀ x ∈ r, ∃ y, x = some y := by
    intro x hx
    obtain ⟨k, hk1, hk2⟩ := List.getElem_of_mem hx
    have hks : k < signals.length := by omega
    have hsk := hk k signals[k] (List.getElem?_eq_getElem hks)
    by_cases hkm : 0 + k = master
    · have := hsk.1 hkm
      rw [List.getElem?_eq_getElem hk1, hk2] at this
      exact ⟨signals[k], by simpa using this⟩
    · obtain ⟨sav, hsav, hrk⟩ := hsk.2 hkm
      obtain ⟨a, ha⟩ := havN signals[k] (List.getElem_mem hks)
      rw [ha] at hsav
      simp only [Except.ok.injEq] at hsav
      subst hsav
      rw [List.getElem?_eq_getElem hk1, hk2] at hrk
      exact ⟨_, by simpa [shiftRecord] using hrk⟩
  have : ∃ out, allSome r = some out := by
    clear hk hr hlen
    induction r with
    | nil => exact ⟨[], rfl⟩
    | cons x xs ih =>
      obtain ⟨y, hy⟩ := hsome x (by simp)
      obtain ⟨o, ho⟩ := ih (fun x' hx' => hsome x' (by simp [hx']))
      exact ⟨y :: o, by simp [hy, allSome, ho]⟩
  obtain ⟨out, hout⟩ := this
  exact ⟨out, by simp [hout, nanAsError]⟩

example : ∃ out, sameStart [[1, 2, 3], [4, 5, 6]] (1/2) 0 0 1 = .ok out :=
  ⟨[[1, 2, 3], [1, 2, 3]], by decide +kernel⟩

/-! ## C18.d — `Cluster.time_match` -/

/-- **C18.d** (lag search, general form). Master `bm` and slave `om` of equal length `n ≥ steps`; `lagResidual bm om W l` is
the sum of squared differences over the compared window (`W = n − steps` samples) for the candidate lag `l`
(`l ≥ 0`: `Σ_k (om[k+l] − bm[k])²`, `l < 0`: `Σ_k (bm[k+|l|] − om[k])²`).  If the candidate `L`, `|L| < steps`, has a lagResidual
strictly below that of every other candidate lag, the search returns `L`.
(Ties: the code keeps the earliest candidate in its scan order `0, +0, +1, …, +(steps−1), −0, −1, …`; with a unique
strict minimum the order is immaterial.) -/
theorem lag_search_spec (bm om : List ℚ) (n steps : ℕ) (L : ℤ) (hbm : bm.length = n) (hom : om.length = n)
    (hS : steps ≤ n) (hL : -(steps : ℤ) < L ∧ L < steps)
    (hmin : ∀ l : ℤ, -(steps : ℤ) < l → l < steps → l ≠ L →
      lagResidual bm om (n - steps) L < lagResidual bm om (n - steps) l) :
    lagSearch bm om steps = .ok L :=
  lagSearch_unique_min bm om n steps L hbm hom hS hL hmin

/-- non-vacuity (hypotheses instantiated): slave = master delayed by 2 samples, `steps = 3` -/
example : lagSearch [0, 1, 4, 2, 0, 0, 0] [0, 0, 0, 1, 4, 2, 0] 3 = .ok 2 := by
  apply lag_search_spec _ _ 7 3 2 rfl rfl (by omega) (by omega)
  intro l h1 h2 h3
  have h1' : -3 < l := by simpa using h1
  have h2' : l < 3 := by simpa using h2
  interval_cases l <;> first
    | exact absurd rfl h3
    | (simp [lagResidual, lagSum, leadSum, Finset.sum_range_succ]; try norm_num)

example : lagSearch [0, 1, 4, 2, 0, 0, 0] [0, 0, 0, 1, 4, 2, 0] 3 = .ok 2 ∧
    lagSearch [0, 0, 0, 1, 4, 2, 0] [0, 1, 4, 2, 0, 0, 0] 3 = .ok (-2) := by decide +kernel

/-- **C18.d** (`time_match_spec`, one master/slave pair). If the slave equals the master delayed (`L ≥ 0`:
`om[k+L] = bm[k]`) or advanced (`L < 0`: `bm[k+|L|] = om[k]`) by `L` samples on the compared window `k < n − steps`,
`|L| < steps`, and every other candidate lag has a non-zero lagResidual, then the returned lag is `L`, the new slave
record has the same length, and on the compared window it coincides with the master. -/
theorem time_match_pair_spec (bm om : List ℚ) (n steps : ℕ) (L : ℤ) (hbm : bm.length = n) (hom : om.length = n)
    (hS : steps ≤ n) (hL : -(steps : ℤ) < L ∧ L < steps)
    (hmatch : (0 ≤ L → ∀ k, k < n - steps → om.getD (k + L.toNat) 0 = bm.getD k 0) ∧
              (L < 0 → ∀ k, k < n - steps → bm.getD (k + L.natAbs) 0 = om.getD k 0))
    (huniq : ∀ l : ℤ, -(steps : ℤ) < l → l < steps → l ≠ L → 0 < lagResidual bm om (n - steps) l) :
    lagSearch bm om steps = .ok L ∧
    ∃ new, shiftSlave om om L = .ok new ∧ new.length = n ∧
      (0 ≤ L → ∀ k, k < n - steps → new.getD k 0 = bm.getD k 0) ∧
      (L < 0 → ∀ k, k < n - steps → new.getD (k + L.natAbs) 0 = bm.getD (k + L.natAbs) 0) := by
  have hres : lagResidual bm om (n - steps) L = 0 := by
    unfold lagResidual
    by_cases h0 : 0 ≤ L
    · simp only [h0, if_true, lagSum]
      apply Finset.sum_eq_zero
      intro k hk
      rw [hmatch.1 h0 k (Finset.mem_range.mp hk)]; ring
    · simp only [h0, if_false, leadSum]
      apply Finset.sum_eq_zero
      intro k hk
      rw [hmatch.2 (by omega) k (Finset.mem_range.mp hk)]; ring
  refine ⟨lagSearch_unique_min bm om n steps L hbm hom hS hL
    (fun l h1 h2 h3 => by rw [hres]; exact huniq l h1 h2 h3), ?_⟩
  obtain ⟨new, h1, h2, h3, h4, h5⟩ := shiftSlave_spec om om n L hom (Or.inr ⟨by omega, by omega⟩)
  refine ⟨new, h1, ?_, ?_, ?_⟩
  · by_cases hz : L = 0
    · rw [h2 hz, hom]
    · exact h3 hz
  · intro h0 k hk
    by_cases hz : L = 0
    · rw [h2 hz]
      have := hmatch.1 h0 k hk
      rw [hz] at this
      simpa using this
    · rw [h4 (by omega) k (by omega)]
      exact hmatch.1 h0 k hk
  · intro h0 k hk
    rw [h5 h0 k (by omega)]
    exact (hmatch.2 h0 k hk).symm

/-- non-vacuity (hypotheses instantiated): the slave is the master advanced by one sample, `steps = 2` -/
example : lagSearch [0, 0, 1, 4, 2, 0] [0, 1, 4, 2, 0, 0] 2 = .ok (-1) :=
  (time_match_pair_spec [0, 0, 1, 4, 2, 0] [0, 1, 4, 2, 0, 0] 6 2 (-1) rfl rfl (by omega) (by omega)
    ⟨fun h => by omega, fun _ k hk => by
      have : k < 4 := by omega
      interval_cases k <;> simp⟩
    (fun l h1 h2 h3 => by
      have h1' : -2 < l := by simpa using h1
      have h2' : l < 2 := by simpa using h2
      interval_cases l <;> first
        | exact absurd rfl h3
        | (simp [lagResidual, lagSum, leadSum, Finset.sum_range_succ]; try norm_num))).1

example : shiftSlave [0, 0, 0, 1, 4, 2, 0] [0, 0, 0, 1, 4, 2, 0] 2 = .ok [0, 1, 4, 2, 0, 0, 0] ∧
    shiftSlave [5, 1, 4, 2, 0, 0, 0] [5, 1, 4, 2, 0, 0, 0] (-2) = .ok [5, 5, 5, 1, 4, 2, 0] := by decide +kernel

/-- **C18.d** (`time_match_spec`, whole cluster; all records of length `n ≥ steps`). If `time_match` returns `(lag, out)`:
the number of records, every record length and the master are unchanged; every slave `k` whose lagResidual has a unique
strict minimum at `L` among the candidate lags is replaced by `shiftSlave s s L` (described by `time_match_pair_spec`);
and the returned `lag` is that of the **last** slave in cluster order. -/
theorem time_match_spec (signals : List (List ℚ)) (master steps n : ℕ) (lag : ℤ) (out : List (List ℚ))
    (hlen : ∀ s ∈ signals, s.length = n) (hS : steps ≤ n)
    (h : timeMatch signals master steps = .ok (lag, out)) :
    out.length = signals.length ∧ (∀ o ∈ out, o.length = n) ∧
    ∃ m, signals[master]? = some m ∧ out[master]? = some m ∧
      ∀ k s (L : ℤ), k ≠ master → signals[k]? = some s → -(steps : ℤ) < L → L < steps →
        (∀ l : ℤ, -(steps : ℤ) < l → l < steps → l ≠ L →
          lagResidual m s (n - steps) L < lagResidual m s (n - steps) l) →
        ∃ o, out[k]? = some o ∧ shiftSlave s s L = .ok o ∧
          ((∀ k', k < k' → k' < signals.length → k' = master) → lag = L) := by
  unfold timeMatch at h
  cases h0 : signals[0]? with
  | none => simp [h0] at h
  | some s0 =>
    cases h1 : signals[1]? with
    | none => simp [h0, h1] at h
    | some s1 =>
      simp only [h0, h1] at h
      cases hm : signals[master]? with
      | none => simp [hm] at h
      | some m =>
        simp only [hm] at h
        have l0 : s0.length = n := hlen s0 (List.mem_of_getElem? h0)
        have l1 : s1.length = n := hlen s1 (List.mem_of_getElem? h1)
        have lm : m.length = n := hlen m (List.mem_of_getElem? hm)
        have hlc : min s0.length s1.length = n := by rw [l0, l1]; simp
        rw [hlc] at h
        have hmt : m.take n = m := by rw [← lm]; exact List.take_length
        rw [hmt] at h
        cases haux : timeMatchAux m n master steps 0 signals none with
        | error e => simp [haux] at h
        | ok p =>
          obtain ⟨l, r⟩ := p
          simp only [haux] at h
          cases l with
          | none => simp at h
          | some lg =>
            simp only [Except.ok.injEq, Prod.mk.injEq] at h
            obtain ⟨e1, e2⟩ := h
            subst e1; subst e2
            obtain ⟨hl, hk, _⟩ := timeMatchAux_spec m n master steps 0 signals none (some lg) r haux
            have htake : ∀ s ∈ signals, s.take n = s := fun s hs => by
              rw [← hlen s hs]; exact List.take_length
            refine ⟨hl, ?_, m, rfl, ?_, ?_⟩
            · intro o ho
              obtain ⟨k, hk1, hk2⟩ := List.getElem_of_mem ho
              have hks : k < signals.length := by omega
              have hsk := hk k signals[k] (List.getElem?_eq_getElem hks)
              have hmem : signals[k] ∈ signals := List.getElem_mem hks
              by_cases hkm : 0 + k = master
              · have := hsk.1 hkm
                rw [List.getElem?_eq_getElem hk1, hk2] at this
                simp only [Option.some.injEq] at this
                rw [this]; exact hlen _ hmem
              · obtain ⟨mi, s', a1, a2, a3, _⟩ := hsk.2 hkm
                rw [List.getElem?_eq_getElem hk1, hk2] at a3
                simp only [Option.some.injEq] at a3
                rw [htake _ hmem] at a1 a2
                have hr := lagSearch_range m signals[k] steps mi a1
                obtain ⟨new, b1, b2, b3, _, _⟩ := shiftSlave_spec signals[k] signals[k] n mi (hlen _ hmem)
                  (by rcases hr with hr | hr
                      · left; exact hr
                      · right; constructor <;> omega)
                rw [a2] at b1
                simp only [Except.ok.injEq] at b1
                rw [a3, b1]
                by_cases hz : mi = 0
                · rw [b2 hz]; exact hlen _ hmem
                · exact b3 hz
            · have := (hk master m hm).1 (by omega)
              exact this
            · intro k s L hkm hs hL1 hL2 hmin
              have hmem : s ∈ signals := List.mem_of_getElem? hs
              obtain ⟨mi, s', a1, a2, a3, a4⟩ := (hk k s hs).2 (by omega)
              rw [htake _ hmem] at a1 a2
              have := lagSearch_unique_min m s n steps L lm (hlen _ hmem) hS ⟨hL1, hL2⟩ hmin
              rw [a1] at this
              simp only [Except.ok.injEq] at this
              subst this
              refine ⟨s', a3, a2, fun hall => ?_⟩
              have := a4 (fun k' h1 h2 => by have := hall k' h1 h2; omega)
              simpa using this

/-- non-vacuity: three signals, master 1; slave 0 is the master delayed by 1, slave 2 advanced by 2; `steps = 3` -/
example : timeMatch [[9, 0, 1, 4, 2, 0, 0, 0], [0, 1, 4, 2, 0, 0, 0, 0], [4, 2, 0, 0, 0, 0, 7, 7]] 1 3
    = .ok (-2, [[0, 1, 4, 2, 0, 0, 0, 0], [0, 1, 4, 2, 0, 0, 0, 0], [4, 4, 4, 2, 0, 0, 0, 0]]) := by
  decide +kernel

end EqsigVerif.Props.C18
