import EqsigVerif.Model.Frequency
import EqsigVerif.Lemmas.Cplx
import EqsigVerif.Lemmas.Frequency
import EqsigVerif.Lemmas.CplxC
import EqsigVerif.Lemmas.Inverse
/-!
# C06 — Fourier amplitude spectrum is `dt ×` DFT of the zero-padded record, on the stated grid

Model: `Model/Frequency.lean` (tree with the planned fixes: grid `k/(N·dt)` for every `N`,
`fas2values` returns all `2·len(fas)` samples, `max_fa_period` takes the arg-max of `|fas|`).
`np.fft.fft` is the defining sum `Cplx.dft` — external assumption **FftIsDft** (DESIGN §3.3).
Generic statements hold for every commutative ring `β` of "complex numbers" over a field `α`
and every twiddle table `tw`; the `ℂ`-specific ones (`fas_spec`, Parseval) are in the second half.
-/
set_option linter.unusedSectionVars false
set_option linter.unusedVariables false
namespace EqsigVerif.Props.C06
open EqsigVerif EqsigVerif.Cplx EqsigVerif.Wire EqsigVerif.Model.Frequency Finset

/-! ## C06.a — transform length -/

/-- **C06.a** `nextPow2 n = 2 ** int(ceil(log2 n))` is THE least power of two `≥ n`:
a power of two, `n ≤ nextPow2 n < 2n`, and below every other power of two `≥ n`. -/
theorem nextPow2_spec (n : ℕ) (hn : 1 ≤ n) :
    (∃ e, nextPow2 n = 2 ^ e) ∧ n ≤ nextPow2 n ∧ nextPow2 n < 2 * n ∧
      ∀ e, n ≤ 2 ^ e → nextPow2 n ≤ 2 ^ e :=
  ⟨⟨clog2 n, rfl⟩, le_two_pow_clog2 n hn, two_pow_clog2_lt n hn,
    fun e h => Nat.pow_le_pow_right (by omega) (clog2_le_of_le_two_pow n e hn h)⟩

example : nextPow2 1 = 1 ∧ nextPow2 5 = 8 ∧ nextPow2 8 = 8 ∧ nextPow2 9 = 16 ∧ nextPow2 4684 = 8192 := by
  decide +kernel

/-- **C06.a** the transform length: default/`p2_plus = p` ⇒ `N = 2^p · nextPow2 npts`;
explicit `n ≥ 1` ⇒ `N = n` (whatever `p2_plus`); `n = 0` is NumPy's `ValueError`. -/
theorem nFactor_spec (npts p : ℕ) (hn : 1 ≤ npts) :
    nFactor npts p none = .ok (2 ^ p * nextPow2 npts) ∧
    (∀ n, 1 ≤ n → nFactor npts p (some n) = .ok n) ∧
    nFactor npts p (some 0) = .error .ValueError := by
  refine ⟨?_, ?_, ?_⟩
  · have : npts ≠ 0 := by omega
    simp [nFactor, this, nextPow2, pow_add, Nat.mul_comm]
  · intro n h
    have : n ≠ 0 := by omega
    simp [nFactor, this]
  · simp [nFactor]

example : nFactor 5 2 none = .ok 32 ∧ nFactor 5 2 (some 7) = .ok 7 := by decide +kernel

/-! ## C06.d — object-level = array-level (stated first: the other clauses use the common core) -/
section Agree
variable {α β : Type} [Add β] [Mul β] [OfNat β 0] [Mul α] [Div α] [NatCast α] [CxLike α β]

/-- **C06.d** every entry point is the common core `faCore` at its transform length `N`
(any number types, in particular the `Float` twin):
* `Signal.gen_fa_spectrum(p2_plus, n)` at `N = nFactor npts p2_plus n`;
* `generate_fa_spectrum(n_pad=True)` at `nextPow2 npts`, `n_pad=False` at `npts`;
* `calc_fa_spectrum(n, p2_plus)` at `n`, else at `2^p2_plus·nextPow2 npts`, else (both absent) at `npts`. -/
theorem entry_points_core (tw : ℕ → ℕ → β) (v : List β) (dt : α) (hv : 1 ≤ v.length) :
    (∀ p n? N, nFactor v.length p n? = .ok N →
        signalGenFaSpectrum tw v dt p n? = .ok (faCore tw v dt N)) ∧
    generateFaSpectrum tw v dt true = .ok (faCore tw v dt (nextPow2 v.length)) ∧
    generateFaSpectrum tw v dt false = .ok (faCore tw v dt v.length) ∧
    (∀ n p?, 1 ≤ n → calcFaSpectrum tw v dt (some n) p? = .ok (faCore tw v dt n)) ∧
    (∀ p, calcFaSpectrum tw v dt none (some p) = .ok (faCore tw v dt (2 ^ p * nextPow2 v.length))) ∧
    calcFaSpectrum tw v dt none none = .ok (faCore tw v dt v.length) := by
  have hv' : v.length ≠ 0 := by omega
  refine ⟨?_, ?_, ?_, ?_, ?_, ?_⟩
  · intro p n? N h
    simp [signalGenFaSpectrum, h, bind, Except.bind, pure, Except.pure]
  · simp [generateFaSpectrum, hv']
  · simp [generateFaSpectrum, hv']
  · intro n p? hn
    have : n ≠ 0 := by omega
    simp [calcFaSpectrum, this]
  · intro p
    simp [calcFaSpectrum, hv', nextPow2, pow_add, Nat.mul_comm]
  · simp [calcFaSpectrum, hv']

/-- **C06.d** object-level and array-level functions agree on equal `(values, dt, N)` — including
which inputs raise (no hypothesis on the record):
`gen_fa_spectrum(p2_plus=p) = calc_fa_spectrum(p2_plus=p)`, `gen_fa_spectrum(n=n) = calc_fa_spectrum(n=n)`
(with or without `p2_plus`), `gen_fa_spectrum() = generate_fa_spectrum(n_pad=True)`,
`generate_fa_spectrum(n_pad=False) = calc_fa_spectrum()`. -/
theorem object_eq_array (tw : ℕ → ℕ → β) (v : List β) (dt : α) :
    (∀ p, signalGenFaSpectrum tw v dt p none = calcFaSpectrum tw v dt none (some p)) ∧
    (∀ p n p?, signalGenFaSpectrum tw v dt p (some n) = calcFaSpectrum tw v dt (some n) p?) ∧
    signalGenFaSpectrum tw v dt 0 none = generateFaSpectrum tw v dt true ∧
    generateFaSpectrum tw v dt false = calcFaSpectrum tw v dt none none := by
  refine ⟨?_, ?_, ?_, ?_⟩
  · intro p
    by_cases h : v.length = 0 <;>
      simp [signalGenFaSpectrum, calcFaSpectrum, nFactor, h, bind, Except.bind, pure, Except.pure]
  · intro p n p?
    by_cases h : n = 0 <;>
      simp [signalGenFaSpectrum, calcFaSpectrum, nFactor, h, bind, Except.bind, pure, Except.pure]
  · by_cases h : v.length = 0 <;>
      simp [signalGenFaSpectrum, generateFaSpectrum, nFactor, nextPow2, h, bind, Except.bind, pure,
        Except.pure]
  · by_cases h : v.length = 0 <;> simp [generateFaSpectrum, calcFaSpectrum, h]

end Agree

/-! ## C06.c — frequency grid; C06.e — linearity and padding invariance -/
section Field
variable {α β : Type} [Field α] [CommRing β] [CxLike α β]

/-- **C06.c** `freqs[k] = k/(N·dt)` for `k < ⌊N/2⌋`, for EVERY `N` (odd too), `⌊N/2⌋` entries. -/
theorem freq_grid (dt : α) (N : ℕ) :
    (freqsOf dt N).length = N / 2 ∧
      ∀ k (hk : k < N / 2), (freqsOf dt N)[k]'(by simpa using hk) = (k : α) / ((N : α) * dt) :=
  ⟨length_freqsOf dt N, fun k hk => freqsOf_getElem dt N k hk⟩

/-- **C06.c** at the object level: the grid reported by `Signal.gen_fa_spectrum(p2_plus, n)`. -/
theorem freq_grid_signal (tw : ℕ → ℕ → β) (v : List β) (dt : α) (p : ℕ) (n? : Option ℕ) (N : ℕ)
    (hN : nFactor v.length p n? = .ok N) :
    ∃ fas freqs, signalGenFaSpectrum tw v dt p n? = .ok (fas, freqs) ∧
      fas.length = N / 2 ∧ freqs.length = N / 2 ∧
      ∀ k (hk : k < freqs.length), freqs[k] = (k : α) / ((N : α) * dt) := by
  refine ⟨fasOf tw v dt N, freqsOf dt N, ?_, by simp, by simp, ?_⟩
  · simp [signalGenFaSpectrum, hN, bind, Except.bind, pure, Except.pure, faCore]
  · intro k hk
    exact freqsOf_getElem dt N k (by simpa using hk)

example : freqsOf (1/4 : ℚ) 7 = [0, 4/7, 8/7] := by decide +kernel

/-- **C06.e** the spectrum is additive in the record … -/
theorem fas_add (tw : ℕ → ℕ → β) (x y : List β) (dt : α) (N : ℕ) (h : x.length = y.length) :
    fasOf tw (List.zipWith (· + ·) x y) dt N
      = List.zipWith (· + ·) (fasOf tw x dt N) (fasOf tw y dt N) :=
  fasOf_add tw x y dt N h

/-- **C06.e** … and homogeneous (any complex factor `c`) -/
theorem fas_smul (tw : ℕ → ℕ → β) (c : β) (x : List β) (dt : α) (N : ℕ) :
    fasOf tw (x.map (c * ·)) dt N = (fasOf tw x dt N).map (c * ·) :=
  fasOf_smul tw c x dt N

/-- **C06.e** trailing zeros that do not change `N` change nothing: neither the padded record … -/
theorem padTo_trailing_zeros (N m : ℕ) (x : List β) (h : x.length + m ≤ N) :
    padTo N (x ++ List.replicate m 0) = padTo N x :=
  padTo_append_zeros N m x h

/-- **C06.e** … nor the spectrum. -/
theorem fas_trailing_zeros (tw : ℕ → ℕ → β) (x : List β) (dt : α) (N m : ℕ)
    (h : x.length + m ≤ N) : fasOf tw (x ++ List.replicate m 0) dt N = fasOf tw x dt N :=
  fasOf_append_zeros tw x dt N m h

/-- **C06.e** at the object level: appending zeros that keep `nextPow2` keeps `Signal.fa_spectrum` -/
theorem signal_fas_trailing_zeros (tw : ℕ → ℕ → β) (x : List β) (dt : α) (m : ℕ)
    (hx : 1 ≤ x.length) (h : x.length + m ≤ nextPow2 x.length) :
    signalGenFaSpectrum tw (x ++ List.replicate m 0) dt = signalGenFaSpectrum tw x dt := by
  have hN : nextPow2 (x.length + m) = nextPow2 x.length := by
    have h1 := nextPow2_spec x.length hx
    have h2 := nextPow2_spec (x.length + m) (by omega)
    obtain ⟨e, he⟩ := h1.1
    obtain ⟨e', he'⟩ := h2.1
    apply Nat.le_antisymm
    · rw [he]; exact h2.2.2.2 e (by rw [← he]; exact h)
    · rw [he']; exact h1.2.2.2 e' (by rw [← he']; exact le_trans (by omega) h2.2.1)
  have e1 : nFactor (x ++ List.replicate m (0 : β)).length 0 none = .ok (nextPow2 x.length) := by
    have := (nFactor_spec (x.length + m) 0 (by omega)).1
    simpa [hN] using this
  have e2 : nFactor x.length 0 none = .ok (nextPow2 x.length) := by
    simpa using (nFactor_spec x.length 0 hx).1
  simp only [signalGenFaSpectrum, e1, e2, bind, Except.bind, pure, Except.pure, faCore]
  rw [fasOf_append_zeros tw x dt _ m h]

end Field

example : ([1, 2, 3] : List ℚ).length + 1 ≤ nextPow2 ([1, 2, 3] : List ℚ).length := by decide +kernel

/-! ## C06.g (length clause, core) — the inverse helper returns all `2·len(fas)` samples -/
section InverseLength
variable {α β : Type} [Add β] [Mul β] [Div β] [OfNat β 0] [NatCast α] [CxLike α β]

/-- **C06.g, length clause** `fas2values(fas, dt)` has exactly `2·len(fas)` samples (so `N` samples for
the spectrum of an even transform length `N`), for any number types (also the `Float` twin);
it raises (`ValueError`, from `ifft` of an empty array) iff `fas` is empty. -/
theorem fas2values_length (tw : ℕ → ℕ → β) (fas : List β) (dt : α) :
    (fas = [] → fas2values tw fas dt = .error .ValueError) ∧
    (fas ≠ [] → ∃ s, fas2values tw fas dt = .ok s ∧ s.length = 2 * fas.length) := by
  constructor
  · intro h; simp [fas2values, h]
  · intro h
    have h0 : fas.length ≠ 0 := fun hc => h (List.length_eq_zero_iff.mp hc)
    refine ⟨_, by simp only [fas2values, h0, if_false]; rfl, ?_⟩
    simp [idft]

end InverseLength

/-! ## C06.h — dominant period -/
section MaxPeriod
variable {α β : Type} [Field α] [LinearOrder α] [IsStrictOrderedRing α] [CxLike α β]

/-- **C06.h** `max_fa_period` reports `1/freqs[i]` where `i` is the FIRST bin of largest amplitude
(`|fas[j]| ≤ |fas[i]|` for all `j`, strictly for `j < i`; amplitudes compared through `|·|²`).
`ok none` stands for NumPy's `inf` (`1./0.`), returned iff that bin has frequency 0. -/
theorem max_fa_period_spec (fas : List β) (freqs : List α) (r : Option α)
    (h : maxFaPeriod fas freqs = .ok r) :
    ∃ i f, ∃ hi : i < fas.length, freqs[i]? = some f ∧
      (∀ j (hj : j < fas.length), CxLike.normSq fas[j] ≤ (CxLike.normSq fas[i] : α)) ∧
      (∀ j (hj : j < i), CxLike.normSq (fas[j]'(by omega)) < (CxLike.normSq fas[i] : α)) ∧
      ((f = 0 ∧ r = none) ∨ (f ≠ 0 ∧ r = some (1 / f))) := by
  unfold maxFaPeriod at h
  by_cases h0 : fas.length = 0
  · simp [h0] at h
  · simp only [h0, if_false] at h
    have hne : fas.map (CxLike.normSq : β → α) ≠ [] := by
      intro hc; apply h0; simpa using congrArg List.length hc
    obtain ⟨v, hv, hall, hpre⟩ := argmax_spec (fas.map (CxLike.normSq : β → α)) hne
    set i := Np.argmax (fas.map (CxLike.normSq : β → α)) with hi_def
    have hi : i < fas.length := by
      have := (List.getElem?_eq_some_iff.mp hv).1
      simpa using this
    have hvi : v = CxLike.normSq fas[i] := by
      have := (List.getElem?_eq_some_iff.mp hv).2
      simpa using this.symm
    cases hf : freqs[i]? with
    | none => simp [hf] at h
    | some f =>
      simp only [hf] at h
      refine ⟨i, f, hi, hf, ?_, ?_, ?_⟩
      · intro j hj
        rw [← hvi]
        exact hall _ (List.mem_map.mpr ⟨fas[j], List.getElem_mem hj, rfl⟩)
      · intro j hj
        rw [← hvi]
        exact hpre j hj _ (by simp [List.getElem?_eq_getElem (show j < fas.length by omega)])
      · by_cases hf0 : f = 0
        · left; simp [hf0] at h; exact ⟨hf0, h.symm⟩
        · right; simp [hf0] at h; exact ⟨hf0, by rw [← h, one_div]⟩

/-- **C06.h** error behaviour: `ValueError` (NumPy's arg-max of an empty sequence) iff the spectrum is
empty, i.e. iff `N < 2`; with the model's own grid no other error occurs. -/
theorem max_fa_period_error (fas : List β) (freqs : List α) (hl : freqs.length = fas.length) :
    (maxFaPeriod fas freqs = .error .ValueError ↔ fas = []) ∧
    (fas ≠ [] → ∃ r, maxFaPeriod fas freqs = .ok r) := by
  unfold maxFaPeriod
  by_cases h0 : fas.length = 0
  · have : fas = [] := List.length_eq_zero_iff.mp h0
    simp [this]
  · have hne : fas ≠ [] := fun hc => h0 (by simp [hc])
    have hne' : fas.map (CxLike.normSq : β → α) ≠ [] := by simpa using hne
    obtain ⟨v, hv, -, -⟩ := argmax_spec (fas.map (CxLike.normSq : β → α)) hne'
    have hi : Np.argmax (fas.map (CxLike.normSq : β → α)) < freqs.length := by
      have := (List.getElem?_eq_some_iff.mp hv).1
      rw [hl]; simpa using this
    simp only [h0, if_false, List.getElem?_eq_getElem hi]
    refine ⟨?_, fun _ => ?_⟩
    · constructor
      · intro h; split at h <;> simp at h
      · intro h; exact absurd h hne
    · split <;> exact ⟨_, rfl⟩

end MaxPeriod

section MaxPeriodExample
attribute [local instance] ratCxLike
example : maxFaPeriod (β := ℚ) [1, -3, 2, 3] [0, 1/2, 1, 3/2] = .ok (some 2) := by decide +kernel
example : maxFaPeriod (β := ℚ) [5, -3, 2] [0, 1/2, 1] = .ok none := by decide +kernel
end MaxPeriodExample

/-! ## C06.b, C06.f — over Mathlib's `ℂ` with the twiddles `twC N m = e^{-2πi m/N}` -/
section OverC
open Complex

/-- **C06.b** (`T` + external assumption **FftIsDft**: `np.fft.fft(values, n=N)` is the defining sum
`Cplx.dft twC values N`) the spectrum has `⌊N/2⌋` bins and
`fas[k] = dt · Σ_{j<N} x_j e^{-2πi jk/N}` for `k < ⌊N/2⌋`, where `x_j = x.getD j 0` is the record
zero-padded (or truncated, if `N < npts`) to `N` samples. -/
theorem fas_spec (x : List ℂ) (dt : ℝ) (N : ℕ) :
    (fasOf twC x dt N).length = N / 2 ∧
    ∀ k (hk : k < N / 2), (fasOf twC x dt N)[k]'(by simpa using hk)
      = dt * ∑ j ∈ range N, x.getD j 0 * cexp (-(2 * Real.pi * I * j * k / N)) := by
  refine ⟨length_fasOf twC x dt N, fun k hk => ?_⟩
  have hN : N ≠ 0 := by omega
  rw [fasOf_getElem twC x dt N k hk, cxlike_ofReal, mul_comm]
  congr 1
  apply Finset.sum_congr rfl
  intro j _
  rw [twC_mul_mod N j k hN]

/-- **C06.b** at the object level: `Signal.fa_spectrum` (default padding) of a record with `npts ≥ 1`. -/
theorem signal_fas_spec (x : List ℂ) (dt : ℝ) (hx : 1 ≤ x.length) :
    ∃ fas freqs, signalGenFaSpectrum twC x dt = .ok (fas, freqs) ∧
      fas.length = nextPow2 x.length / 2 ∧
      ∀ k (hk : k < fas.length), fas[k] = dt * ∑ j ∈ range (nextPow2 x.length),
        x.getD j 0 * cexp (-(2 * Real.pi * I * j * k / (nextPow2 x.length : ℕ))) := by
  have hN : nFactor x.length 0 none = .ok (nextPow2 x.length) := by
    simpa using (nFactor_spec x.length 0 hx).1
  refine ⟨fasOf twC x dt (nextPow2 x.length), freqsOf dt (nextPow2 x.length), ?_, by simp, ?_⟩
  · exact ((entry_points_core twC x dt hx).1 0 none _ hN)
  · intro k hk
    exact (fas_spec x dt (nextPow2 x.length)).2 k (by simpa using hk)

example : nFactor ([1, 2, 3] : List ℂ).length 0 none = .ok 4 := by decide +kernel

/-- **C06.f** (stretch, proved) Parseval: `Σ_{k<N} |X_k|² = N · Σ_{j<N} |x_j|²` for the full transform
`X = fft(x, N)` of the record padded/truncated to `N` (orthogonality of the `N`-th roots of unity). -/
theorem parseval (x : List ℂ) (N : ℕ) :
    ∑ k ∈ range N, Complex.normSq ((dft twC x N).getD k 0)
      = N * ∑ j ∈ range N, Complex.normSq (x.getD j 0) :=
  EqsigVerif.Cplx.parseval x N

/-- **C06.f** one-sided form: for a REAL record the spectrum is Hermitian, `X_{N−k} = conj X_k`, hence
`|X_{N−k}| = |X_k|` (`0 < k < N`): the reported bins `k < N/2` carry all amplitudes except Nyquist. -/
theorem hermitian_of_real (x : List ℂ) (N k : ℕ) (hk0 : 0 < k) (hk : k < N)
    (hx : ∀ j, starRingEnd ℂ (x.getD j 0) = x.getD j 0) :
    (dft twC x N).getD (N - k) 0 = starRingEnd ℂ ((dft twC x N).getD k 0) ∧
    Complex.normSq ((dft twC x N).getD (N - k) 0) = Complex.normSq ((dft twC x N).getD k 0) := by
  have h := dftC_conj_of_real x N k hk0 hk hx
  exact ⟨h.symm, by rw [← h, Complex.normSq_conj]⟩

/-- **C06.f / C06.g ingredient** the inverse transform undoes the transform:
`ifft(fft(x, N)) = x` padded/truncated to `N`. -/
theorem idft_dft (x : List ℂ) (N : ℕ) : idft twC (dft twC x N) N = padTo N x :=
  EqsigVerif.Cplx.idft_dft x N

example : ∀ j, starRingEnd ℂ (([1, 2, 3] : List ℂ).getD j 0) = ([1, 2, 3] : List ℂ).getD j 0 := by
  intro j
  rcases j with _ | _ | _ | j <;> simp [map_ofNat]

/-- **C06.g** (stretch, proved) `fas2values_spec`: for an even transform length `N = 2P`, a real record and
`dt ≠ 0`, the inverse helper applied to the spectrum returns the padded/truncated record minus its mean
and Nyquist components:
`fas2values(fas(x), dt)[j] = x_j − (Σ_l x_l)/N − (−1)^j·(Σ_l (−1)^l x_l)/N`, `j < N`
(DFT inversion + the two bins the one-sided spectrum does not carry; Hermitian symmetry of real records). -/
theorem fas2values_spec (x : List ℂ) (dt : ℝ) (P : ℕ) (hP : 1 ≤ P) (hdt : dt ≠ 0)
    (hx : ∀ j, starRingEnd ℂ (x.getD j 0) = x.getD j 0) :
    ∃ s, fas2values twC (fasOf twC x dt (2 * P)) dt = .ok s ∧ s.length = 2 * P ∧
      ∀ j, j < 2 * P → s.getD j 0 =
        x.getD j 0 - (∑ l ∈ range (2 * P), x.getD l 0) / (2 * P : ℕ)
          - (-1) ^ j * (∑ l ∈ range (2 * P), (-1) ^ l * x.getD l 0) / (2 * P : ℕ) := by
  refine ⟨_, fas2values_fas_eq x dt P hP, by simp, ?_⟩
  intro j hj
  exact idft_zeroed x _ P hP (fun k hk => hermitian_fas_getD x dt P hP hdt hx k hk) j hj

end OverC

end EqsigVerif.Props.C06
