import EqsigVerif.Model.Sdof
import EqsigVerif.Gen.SdofABReal
import EqsigVerif.Gen.Consts
import EqsigVerif.Lemmas.Sdof
import EqsigVerif.Lemmas.SdofODE
import Mathlib.Analysis.Real.Pi.Bounds
import Mathlib.Algebra.Order.Ring.Rat
import Mathlib.Tactic.NormNum
/-!
# C01 — the SDOF response series is the exact solution of the oscillator equation

`response c isZero ab xi acc periods` (`Model/Sdof.lean`) models `nigam_and_jennings_response(acc, dt, periods, xi)`
(= `response_series`); the propagator actually used is the **generated** translation
`Gen.SdofAB.computeABReal xi w dt` of `compute_a_and_b`.  Sign convention (the library's): the returned
displacement solves `u'' + 2ξw u' + w² u = +a(t)`, `a` = the linear interpolant of the record (the code
negates the record and then applies Nigam & Jennings' `B`, which integrates `−acc`).
-/
set_option linter.unusedSectionVars false
set_option linter.unusedVariables false
namespace EqsigVerif.Props.C01
open EqsigVerif.Model.Sdof EqsigVerif.Gen.SdofAB

/-- **C01.a** one step of the generated propagator is the exact solution over one panel: there is a
twice differentiable `φ` (explicitly: `njPhi`, damped sinusoid + linear particular solution) solving
`φ'' + 2ξw φ' + w² φ = f₀ + (f₁ − f₀) τ / dt` for all `τ`, with `(φ 0, φ' 0) = (u₀, v₀)` and
`(φ dt, φ' dt) = step (computeABReal ξ w dt) (u₀, v₀) (−f₀) (−f₁)`. -/
theorem nj_step_exact (xi w dt u0 v0 f0 f1 : ℝ) (hw : 0 < w) (hdt : 0 < dt) (hxi0 : 0 ≤ xi) (hxi1 : xi < 1) :
    ∃ φ φ' : ℝ → ℝ,
      (∀ τ, HasDerivAt φ (φ' τ) τ) ∧
      (∀ τ, HasDerivAt φ' (f0 + (f1 - f0) * τ / dt - 2 * xi * w * φ' τ - w ^ 2 * φ τ) τ) ∧
      φ 0 = u0 ∧ φ' 0 = v0 ∧
      (φ dt, φ' dt) = step (computeABReal xi w dt) (u0, v0) (-f0) (-f1) :=
  ⟨njPhi xi w dt u0 v0 f0 f1, njPhi' xi w dt u0 v0 f0 f1,
    fun τ => njPhi_hasDerivAt xi w dt u0 v0 f0 f1 τ,
    fun τ => njPhi'_hasDerivAt xi w dt u0 v0 f0 f1 τ hw.ne' hdt.ne' hxi0 hxi1,
    njPhi_zero xi w dt u0 v0 f0 f1, njPhi'_zero xi w dt u0 v0 f0 f1 hw.ne' hxi0 hxi1,
    njPhi_dt xi w dt u0 v0 f0 f1 hw.ne' hdt.ne' hxi0 hxi1⟩

example : ∃ φ φ' : ℝ → ℝ, (∀ τ, HasDerivAt φ (φ' τ) τ) ∧
    (∀ τ, HasDerivAt φ' (3 + (-1 - 3) * τ / (1/100) - 2 * (1/20) * 7 * φ' τ - 7 ^ 2 * φ τ) τ) ∧
    φ 0 = 2 ∧ φ' 0 = -5 ∧
    (φ (1/100), φ' (1/100)) = step (computeABReal (1/20) 7 (1/100)) (2, -5) (-3) (-(-1)) :=
  nj_step_exact (1/20) 7 (1/100) 2 (-5) 3 (-1) (by norm_num) (by norm_num) (by norm_num) (by norm_num)

/-- C01.a, explicit form: the solution is `njPhi` (`Lemmas/SdofODE.lean`):
`φ τ = exp(−ξw τ)(c₁ cos(w_d τ) + c₂ sin(w_d τ)) + p₀ + p₁ τ`, `w_d = w√(1−ξ²)`. -/
theorem nj_step_exact_explicit (xi w dt u0 v0 f0 f1 : ℝ) (hw : 0 < w) (hdt : 0 < dt) (hxi0 : 0 ≤ xi)
    (hxi1 : xi < 1) :
    (njPhi xi w dt u0 v0 f0 f1 dt, njPhi' xi w dt u0 v0 f0 f1 dt)
      = step (computeABReal xi w dt) (u0, v0) (-f0) (-f1) :=
  njPhi_dt xi w dt u0 v0 f0 f1 hw.ne' hdt.ne' hxi0 hxi1

example : (njPhi 0 7 (1/100) 2 (-5) 3 (-1) (1/100), njPhi' 0 7 (1/100) 2 (-5) 3 (-1) (1/100))
    = step (computeABReal 0 7 (1/100)) (2, -5) (-3) (-(-1)) :=
  nj_step_exact_explicit 0 7 (1/100) 2 (-5) 3 (-1) (by norm_num) (by norm_num) (by norm_num) (by norm_num)

/-- **C01.b** uniqueness: two solutions of `u'' + 2ξw u' + w² u = g` (`ξ ≥ 0`, `w > 0`) with the same value
and derivative at `τ₀` agree, with their derivatives, on `[τ₀, ∞)`. -/
theorem osc_unique (xi w : ℝ) (hxi : 0 ≤ xi) (hw : 0 < w) (g : ℝ → ℝ) (τ₀ : ℝ)
    (u u' u'' y y' y'' : ℝ → ℝ)
    (hu1 : ∀ t, HasDerivAt u (u' t) t) (hu2 : ∀ t, HasDerivAt u' (u'' t) t)
    (hy1 : ∀ t, HasDerivAt y (y' t) t) (hy2 : ∀ t, HasDerivAt y' (y'' t) t)
    (hu : ∀ t, u'' t + 2 * xi * w * u' t + w ^ 2 * u t = g t)
    (hy : ∀ t, y'' t + 2 * xi * w * y' t + w ^ 2 * y t = g t)
    (h0 : u τ₀ = y τ₀) (h0' : u' τ₀ = y' τ₀) : ∀ t, τ₀ ≤ t → u t = y t ∧ u' t = y' t :=
  osc_unique' xi w hxi hw g τ₀ u u' u'' y y' y'' hu1 hu2 hy1 hy2 hu hy h0 h0'

/-- non-vacuity: `sin` and `t ↦ sin t` written as `−cos (t + π/2)`-free variant: `sin` against itself with
`g = 0`, `ξ = 0`, `w = 1` -/
example : ∀ t, 0 ≤ t → Real.sin t = Real.sin t ∧ Real.cos t = Real.cos t :=
  osc_unique 0 1 le_rfl one_pos (fun _ => 0) 0 Real.sin Real.cos (fun t => -Real.sin t)
    Real.sin Real.cos (fun t => -Real.sin t)
    Real.hasDerivAt_sin Real.hasDerivAt_cos Real.hasDerivAt_sin Real.hasDerivAt_cos
    (fun t => by ring) (fun t => by ring) rfl rfl

/-- **C01.c** the whole series: for a record `f`, step `dt > 0`, `w > 0`, `0 ≤ ξ < 1`, the state series
`uv = run (computeABReal ξ w dt) (−f)` has the record's length, starts at `(0, 0)`, and for every panel `i`
there is a twice differentiable `φᵢ` solving `φᵢ'' + 2ξw φᵢ' + w² φᵢ = fᵢ + (fᵢ₊₁ − fᵢ) τ / dt` (local time)
with `(φᵢ 0, φᵢ' 0) = uv[i]` and `(φᵢ dt, φᵢ' dt) = uv[i+1]` — so consecutive panel solutions match in value
and derivative at every junction (`φᵢ dt = uv[i+1].1 = φᵢ₊₁ 0`, same for `φ'`): the chain is the `C¹`
piecewise solution of the zero-initial-condition IVP for the linearly interpolated record, sampled by
`uv` at every instant (by C01.b it is the only one). -/
theorem nj_series_exact (xi w dt : ℝ) (hw : 0 < w) (hdt : 0 < dt) (hxi0 : 0 ≤ xi) (hxi1 : xi < 1)
    (f : List ℝ) (uv : List (ℝ × ℝ)) (huv : uv = run (computeABReal xi w dt) (f.map (fun x => -x))) :
    ∃ hlen : uv.length = f.length,
      (∀ h : 0 < uv.length, uv[0] = (0, 0)) ∧
      ∀ (i : Nat) (hi : i + 1 < f.length), ∃ φ φ' : ℝ → ℝ,
        (∀ τ, HasDerivAt φ (φ' τ) τ) ∧
        (∀ τ, HasDerivAt φ' (f[i] + (f[i + 1] - f[i]) * τ / dt - 2 * xi * w * φ' τ - w ^ 2 * φ τ) τ) ∧
        (φ 0, φ' 0) = uv[i] ∧ (φ dt, φ' dt) = uv[i + 1] := by
  subst huv
  refine ⟨by simp, ?_, ?_⟩
  · intro h
    exact run_getElem_zero _ _ (by simpa using h)
  · intro i hi
    have hi' : i < (run (computeABReal xi w dt) (f.map (fun x => -x))).length := by simp; omega
    refine ⟨njPhi xi w dt (run (computeABReal xi w dt) (f.map (fun x => -x)))[i].1
        (run (computeABReal xi w dt) (f.map (fun x => -x)))[i].2 f[i] f[i + 1],
      njPhi' xi w dt (run (computeABReal xi w dt) (f.map (fun x => -x)))[i].1
        (run (computeABReal xi w dt) (f.map (fun x => -x)))[i].2 f[i] f[i + 1],
      fun τ => njPhi_hasDerivAt _ _ _ _ _ _ _ τ,
      fun τ => njPhi'_hasDerivAt _ _ _ _ _ _ _ τ hw.ne' hdt.ne' hxi0 hxi1, ?_, ?_⟩
    · rw [njPhi_zero, njPhi'_zero _ _ _ _ _ _ _ hw.ne' hxi0 hxi1]
    · exact nj_series_step xi w dt hw.ne' hdt.ne' hxi0 hxi1 f i hi

example : True := by
  have := nj_series_exact (1/20) 7 (1/100) (by norm_num) (by norm_num) (by norm_num) (by norm_num)
    [1, -2, 3] _ rfl
  trivial

/-- **C01.c** at the level of `nigam_and_jennings_response`: for every strictly positive period `T` of
the call (`w = c / T` with the code's constant `c > 0`), the `u` and `v` rows returned for it are the
samples of the chain of exact panel solutions for the record `acc` (right-hand side `+acc`). -/
theorem resp_series_exact (c xi dt : ℝ) (hc : 0 < c) (hdt : 0 < dt) (hxi0 : 0 ≤ xi) (hxi1 : xi < 1)
    (isZero : ℝ → Bool) (acc ps : List ℝ) (r : List (List ℝ × List ℝ × List ℝ))
    (hr : response c isZero (fun w => computeABReal xi w dt) xi acc ps = some r)
    (j : Nat) (T : ℝ) (hj : ps[j]? = some T) (hT : 0 < T) (hTz : isZero T = false) :
    ∃ u v a : List ℝ, r[j]? = some (u, v, a) ∧
      ∃ (hu : u.length = acc.length) (hv : v.length = acc.length),
        (∀ h : 0 < acc.length, u[0] = 0 ∧ v[0] = 0) ∧
        ∀ (i : Nat) (hi : i + 1 < acc.length), ∃ φ φ' : ℝ → ℝ,
          (∀ τ, HasDerivAt φ (φ' τ) τ) ∧
          (∀ τ, HasDerivAt φ' (acc[i] + (acc[i + 1] - acc[i]) * τ / dt
              - 2 * xi * (c / T) * φ' τ - (c / T) ^ 2 * φ τ) τ) ∧
          φ 0 = u[i] ∧ φ' 0 = v[i] ∧ φ dt = u[i + 1] ∧ φ' dt = v[i + 1] := by
  have hw : 0 < c / T := div_pos hc hT
  have hrow := response_row c isZero _ xi acc ps r hr j T hj hTz
  obtain ⟨hlen, h0, hpan⟩ := nj_series_exact xi (c / T) dt hw hdt hxi0 hxi1 acc _ rfl
  refine ⟨_, _, _, hrow, by simp, by simp, ?_, ?_⟩
  · intro h
    have := h0 (by simpa using h)
    simp only [List.getElem_map, this, and_self]
  · intro i hi
    obtain ⟨φ, φ', h1, h2, h3, h4⟩ := hpan i hi
    refine ⟨φ, φ', h1, h2, ?_⟩
    simp only [List.getElem_map]
    rw [← h3, ← h4]
    exact ⟨rfl, rfl, rfl, rfl⟩

example : ∃ u v a : List ℝ,
    (response 6 (fun p => decide (p = 0)) (fun w => computeABReal (1/20) w (1/100)) (1/20) [1, -2, 3] [0, 2]).get![1]?
      = some (u, v, a) := by
  have hr : response 6 (fun p => decide (p = 0)) (fun w => computeABReal (1/20) w (1/100)) (1/20) [1, -2, 3] [0, 2]
      = some (zeroRow [1, -2, 3] :: [2].map (rowOf 6 (fun w => computeABReal (1/20) w (1/100)) (1/20) [1, -2, 3])) :=
    response_cons_zero _ _ _ _ _ _ _ (by simp)
  obtain ⟨u, v, a, h, -⟩ := resp_series_exact 6 (1/20) (1/100) (by norm_num) (by norm_num) (by norm_num)
    (by norm_num) (fun p => decide (p = 0)) [1, -2, 3] [0, 2] _ hr 1 2 rfl (by norm_num) (by simp)
  exact ⟨u, v, a, by rw [hr]; exact h⟩

section Generic
variable {α : Type} [Field α]

private def abQ : Rat → AB Rat := fun w => ⟨1, w, -w, 1 / 2, 1, 2, 3, -1⟩
private def isZ : Rat → Bool := fun p => p == 0

/-- **C01.d** shape: one row per period; each of the three series of every row has the record's length. -/
theorem resp_shape (c : α) (isZero : α → Bool) (ab : α → AB α) (xi : α) (acc ps : List α)
    (r : List (List α × List α × List α)) (hr : response c isZero ab xi acc ps = some r) :
    r.length = ps.length ∧ ∀ row ∈ r, row.1.length = acc.length ∧ row.2.1.length = acc.length ∧
      row.2.2.length = acc.length :=
  response_shape c isZero ab xi acc ps r hr

example : ((response 6 isZ abQ (1/2) [1, 0, 2] [0, 2, 3]).get!).length = 3 := by decide +kernel

/-- **C01.d** third series: for every non-zero period `p` (`w = c / p`) the third returned series is
`−(2ξw·v + w²·u)` sample by sample. -/
theorem resp_acc_series (c : α) (isZero : α → Bool) (ab : α → AB α) (xi : α) (acc ps : List α)
    (r : List (List α × List α × List α)) (hr : response c isZero ab xi acc ps = some r)
    (j : Nat) (p : α) (hj : ps[j]? = some p) (hp : isZero p = false) :
    ∃ row, r[j]? = some row ∧
      row.2.2 = List.zipWith (fun u v => -(2 * xi * (c / p) * v + (c / p) ^ 2 * u)) row.1 row.2.1 :=
  ⟨_, response_row c isZero ab xi acc ps r hr j p hj hp, rowFor_acc ab xi (c / p) _⟩

example : ∃ row : List Rat × List Rat × List Rat,
    (response 6 isZ abQ (1/2) [1, 0, 2] [0, 2, 3]).get![2]? = some row ∧
    row.2.2 = List.zipWith (fun u v => -(2 * (1/2) * (6 / 3) * v + (6 / 3) ^ 2 * u)) row.1 row.2.1 :=
  resp_acc_series 6 isZ abQ (1/2) [1, 0, 2] [0, 2, 3] (response 6 isZ abQ (1/2) [1, 0, 2] [0, 2, 3]).get!
    (by decide +kernel) 2 3 rfl (by decide +kernel)

/-- **C01.e** leading period `0`: the `u` and `v` rows are zero, the acceleration row is the sign-flipped
record, and the remaining rows are the rows of `periods.tail`. -/
theorem resp_leading_zero (c : α) (isZero : α → Bool) (ab : α → AB α) (xi : α) (acc : List α)
    (p0 : α) (rest : List α) (h : isZero p0 = true) :
    response c isZero ab xi acc (p0 :: rest) =
      some ((List.replicate acc.length 0, List.replicate acc.length 0, acc.map (fun x => -x))
        :: rest.map (rowOf c ab xi acc)) := by
  rw [response_cons_zero c isZero ab xi acc p0 rest h]
  simp [zeroRow, Function.comp_def, List.map_const']

example : response 6 isZ abQ (1/2) [1, 0, 2] [0, 2]
    = some (([0, 0, 0], [0, 0, 0], [-1, 0, -2]) :: [2].map (rowOf 6 abQ (1/2) [1, 0, 2])) := by
  decide +kernel

/-- **C01.e** the remaining rows equal the response for `periods.tail` (when that call is in the domain:
non-empty, not itself starting with a zero period). -/
theorem resp_leading_zero_tail (c : α) (isZero : α → Bool) (ab : α → AB α) (xi : α) (acc : List α)
    (p0 p1 : α) (rest : List α) (h : isZero p0 = true) (h1 : isZero p1 = false)
    (r : List (List α × List α × List α)) (hr : response c isZero ab xi acc (p0 :: p1 :: rest) = some r) :
    response c isZero ab xi acc (p1 :: rest) = some r.tail := by
  rw [response_cons_zero c isZero ab xi acc p0 _ h, Option.some.injEq] at hr
  subst hr
  rw [response_cons_nonzero c isZero ab xi acc p1 rest h1]
  rfl

example : response 6 isZ abQ (1/2) [1, 0, 2] [2, 3] = some ((response 6 isZ abQ (1/2) [1, 0, 2] [0, 2, 3]).get!).tail := by
  decide +kernel

end Generic

/-- **C01.f** the truncated constant of the source: `|6.2831853 − 2π| < 8·10⁻⁹`. -/
theorem twoPi_truncated : |((EqsigVerif.Gen.Consts.njTwoPiRat : ℚ) : ℝ) - 2 * Real.pi| < 8e-9 := by
  have h1 := Real.pi_gt_d20
  have h2 := Real.pi_lt_d20
  have hc : ((EqsigVerif.Gen.Consts.njTwoPiRat : ℚ) : ℝ) = 6.2831853 := by
    norm_num [EqsigVerif.Gen.Consts.njTwoPiRat]
  rw [hc, abs_lt]
  constructor <;> norm_num at * <;> linarith

/-- the relative frequency error of the integrated oscillator: `|c/(2π) − 1| < 1.3·10⁻⁹` -/
theorem twoPi_truncated_rel :
    |((EqsigVerif.Gen.Consts.njTwoPiRat : ℚ) : ℝ) / (2 * Real.pi) - 1| < 1.3e-9 := by
  have h := twoPi_truncated
  have hpi : (6.28 : ℝ) < 2 * Real.pi := by have := Real.pi_gt_d20; norm_num at this ⊢; linarith
  have hpos : (0 : ℝ) < 2 * Real.pi := by linarith
  rw [div_sub_one hpos.ne', abs_div, abs_of_pos hpos, div_lt_iff₀ hpos]
  have : (1.3e-9 : ℝ) * (2 * Real.pi) > 8e-9 := by norm_num at hpi ⊢; linarith
  linarith

end EqsigVerif.Props.C01
