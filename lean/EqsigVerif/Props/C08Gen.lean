import EqsigVerif.Model.Displacements
import EqsigVerif.Gen.Displ
import EqsigVerif.Props.C08
/-!
# C08 — translator tie for `eqsig/displacements.py`

`Gen/Displ.lean` is regenerated on every run by `tools/py2lean_x_sdof.py` from `calc_velo_and_disp_from_accel_arr` (both
branches of `if trap is False`, in-place `np.cumsum(x, out=x)` as rebinding, `np.zeros(n + 1)` + `x[1:] = …` as
`setRowsFrom 1`, `x[:-1]` as `dropLast`, `cumulative_trapezoid(x, dx=dt, initial=0)` as `Np.cumtrapz dt x`) and from the
forwarding wrapper `velocity_and_displacement_from_acceleration`.  The bridges here hold over every field (up to commutativity of `*`); the strict versions for every number type (including
`Float`) are in `Props/C08GenRfl.lean`.  So the C08 theorems are statements about the code as it is now.
-/
set_option linter.unusedSectionVars false
set_option linter.unusedVariables false
namespace EqsigVerif.Props.C08
open EqsigVerif EqsigVerif.Np EqsigVerif.Model.Displacements EqsigVerif.Model.Im EqsigVerif.Lemmas.Im

section Sem
variable {α : Type} [Field α]

/-- **bridge** `calc_velo_and_disp_from_accel_arr(acceleration, dt, trap)` = the hand model `veloDisp`, both branches
(up to commutativity of `*`; the order-of-operations version is `gen_calcVeloDisp_rfl` in `Props/C08GenRfl.lean`) -/
theorem gen_calcVeloDisp (a : List α) (dt : α) (trap : Bool) : Gen.Displ.calcVeloDisp a dt trap = veloDisp a dt trap := by
  cases trap <;>
    first
      | rfl
      | simp [Gen.Displ.calcVeloDisp, veloDisp, veloDispRect, veloDispTrap, rectVFull, Np.scale,
          EqsigVerif.Model.SdofLoopGen.setRowsFrom, List.replicate_succ, mul_comm]

/-- the `trap=True` branch is the double cumulative trapezoid -/
theorem gen_calcVeloDisp_trap (a : List α) (dt : α) : Gen.Displ.calcVeloDisp a dt true = veloDispTrap a dt := by
  rw [gen_calcVeloDisp]; rfl

/-- the `trap=False` branch is the model's rectangle rule -/
theorem gen_calcVeloDisp_rect (a : List α) (dt : α) : Gen.Displ.calcVeloDisp a dt false = veloDispRect a dt := by
  rw [gen_calcVeloDisp]; rfl

/-- **bridge** `velocity_and_displacement_from_acceleration` forwards all three arguments (`trap=trap`) -/
theorem gen_velocityAndDisplacement (a : List α) (dt : α) (trap : Bool) :
    Gen.Displ.velocityAndDisplacement a dt trap = veloDisp a dt trap := by
  rw [← gen_calcVeloDisp]; rfl

end Sem

/-- both functions default to the trapezoid rule (`trap=True`) -/
theorem gen_trap_defaults : Gen.Displ.calcVeloDispTrapDefault = true ∧ Gen.Displ.velocityAndDisplacementTrapDefault = true :=
  ⟨rfl, rfl⟩

/-! ## consequence theorems: the C08 statements about the generated code -/
section Field
variable {α : Type} [Field α] [LinearOrder α] [IsStrictOrderedRing α]

/-- **C08.a** for the generated function: both outputs have the record's length, for both values of `trap` -/
theorem gen_lengths (a : List α) (dt : α) (trap : Bool) :
    (Gen.Displ.calcVeloDisp a dt trap).1.length = a.length ∧ (Gen.Displ.calcVeloDisp a dt trap).2.length = a.length := by
  rw [gen_calcVeloDisp]; exact lengths a dt trap

/-- **C08.a** for the generated wrapper: both series start at zero for a non-empty record -/
theorem gen_zero_start (a : List α) (dt : α) (trap : Bool) (h : a ≠ []) :
    (Gen.Displ.velocityAndDisplacement a dt trap).1[0]? = some 0 ∧ (Gen.Displ.velocityAndDisplacement a dt trap).2[0]? = some 0 := by
  rw [gen_velocityAndDisplacement]; exact zero_start a dt trap h

/-- **C08.b** for the generated function (`trap=True`): trapezoid increment laws `v[i+1]-v[i] = dt*(a[i+1]+a[i])/2`,
`d[i+1]-d[i] = dt*(v[i+1]+v[i])/2`, equal lengths, zero start -/
theorem gen_trap_increments (a : List α) (dt : α) :
    TrapIncr dt a (Gen.Displ.calcVeloDisp a dt true).1 ∧
      TrapIncr dt (Gen.Displ.calcVeloDisp a dt true).1 (Gen.Displ.calcVeloDisp a dt true).2 := by
  rw [gen_calcVeloDisp_trap]; exact trap_increments a dt

/-- **C08.c** for the generated function (`trap=False`): rectangle increment laws -/
theorem gen_rect_increments (a : List α) (dt : α) :
    RectIncrDelayed dt a (Gen.Displ.calcVeloDisp a dt false).1 ∧
      RectIncr dt (Gen.Displ.calcVeloDisp a dt false).1 (Gen.Displ.calcVeloDisp a dt false).2 := by
  rw [gen_calcVeloDisp_rect]; exact rect_increments a dt

end Field

example : Gen.Displ.calcVeloDisp [1, 2, 4] (1/2 : Rat) false = ([0, 1/2, 3/2], [0, 1/4, 1]) := by decide +kernel
example : Gen.Displ.calcVeloDisp [1, 2, 4] (1/2 : Rat) true = ([0, 3/4, 9/4], [0, 3/16, 15/16]) := by decide +kernel
example : Gen.Displ.velocityAndDisplacement [1, 2, 4] (1/2 : Rat) Gen.Displ.velocityAndDisplacementTrapDefault
    = ([0, 3/4, 9/4], [0, 3/16, 15/16]) := by decide +kernel
end EqsigVerif.Props.C08
