import EqsigVerif.Model.Im
import EqsigVerif.Lemmas.Np
import EqsigVerif.Lemmas.Im.Series
import EqsigVerif.Lemmas.Im.Dur
import EqsigVerif.Lemmas.Im.DurPrefix
/-!
# C10.d — the exact zero-prefix relation of `calc_sig_dur` for the default Arias (trapezoid) measure, ANY `a[0]`

Finding F10-1: "prepending `k` zeros shifts start and end by `k·dt`" is false for the trapezoid measure when `a[0] ≠ 0`.
What does hold (`I = ariasCore dt a` the cumulative series of the record, `c = dt·a[0]²/2` the panel from the last
prepended zero to `a[0]`): the cumulative series of `0ᵏ ++ a` (`k ≥ 1`) is `0ᵏ ++ (I + c)`, so start and end are `k·dt`
plus the start/end of the RAISED series `I + c` (thresholds `s·(tot + c)`, `e·(tot + c)`), equivalently `(k−1)·dt`
plus the result for the record with ONE zero prepended.
-/
set_option linter.unusedSectionVars false
set_option linter.unusedVariables false
namespace EqsigVerif.Props.C10
open EqsigVerif.Np EqsigVerif.Wire EqsigVerif.Model.Im EqsigVerif.Lemmas.Im

/-- **C10.d (exact relation, any `a[0]`)** `sigdur_zero_prefix_general`.  For a non-empty record `a = a₀ :: rest`,
`k + 1 ≥ 1` prepended zeros and fractions `s, e ≥ 0`, with `c = dt·a₀²/2`:
1. the Arias series of the prefixed record is the zero prefix followed by the original series raised by `c`;
2. `calc_sig_dur(0ᵏ⁺¹ ++ a)` is `calc_sig_dur` of the raised series `I + c` shifted by `(k+1)·dt`;
3. it is `calc_sig_dur(0 :: a)` (ONE extra zero = one extra panel) shifted by `k·dt`:
   all further zeros do shift by `dt` each. -/
theorem sigdur_zero_prefix_general (a0 : ℚ) (rest : List ℚ) (k : Nat) (dt s e : ℚ) (hs : 0 ≤ s) (he : 0 ≤ e) :
    ariasCore dt (List.replicate (k + 1) 0 ++ a0 :: rest)
      = List.replicate (k + 1) 0 ++ (ariasCore dt (a0 :: rest)).map (· + dt * (a0 * a0) / 2) ∧
    sigDur (List.replicate (k + 1) 0 ++ a0 :: rest) dt s e
      = (sigDurSeries ((ariasCore dt (a0 :: rest)).map (· + dt * (a0 * a0) / 2)) dt s e).map
          (fun p => (p.1 + ((k + 1 : Nat) : ℚ) * dt, p.2 + ((k + 1 : Nat) : ℚ) * dt)) ∧
    sigDur (List.replicate (k + 1) 0 ++ a0 :: rest) dt s e
      = (sigDur (0 :: a0 :: rest) dt s e).map (fun p => (p.1 + (k : ℚ) * dt, p.2 + (k : ℚ) * dt)) := by
  refine ⟨ariasCore_zero_prefix_general dt k a0 rest, ?_, ?_⟩
  · unfold sigDur
    rw [ariasCore_zero_prefix_general]
    exact sigDurSeries_zero_prefix _ (k + 1) dt s e hs he
  · have e' : List.replicate (k + 1) (0 : ℚ) ++ a0 :: rest = List.replicate k 0 ++ (0 :: a0 :: rest) := by
      rw [List.replicate_succ']; simp
    rw [e']
    unfold sigDur
    rw [ariasCore_zero_prefix dt k (0 :: a0 :: rest) rfl]
    exact sigDurSeries_zero_prefix _ k dt s e hs he

/-- the F10-1 witness: `(1/2, 2)` becomes `(1, 5/2)` after two zeros — that IS `(0, 3/2)`, the result for the raised
series `I + 9/4`, shifted by `2·dt = 1`, and `(1/2, 2)`, the result for one prepended zero, shifted by `1·dt` -/
example : sigDur (List.replicate 2 0 ++ [3, 2, -1, 1, 0, 1, -1]) (1/2) (1/20) (9/10) = .ok (1, 5/2) ∧
    sigDurSeries ((ariasCore (1/2) [3, 2, -1, 1, 0, 1, -1]).map (· + (1/2) * (3 * 3) / 2)) (1/2) (1/20) (9/10)
      = .ok (0, 3/2) ∧
    sigDur (0 :: [3, 2, -1, 1, 0, 1, -1]) (1/2) (1/20) (9/10) = .ok (1/2, 2) ∧
    sigDur [3, 2, -1, 1, 0, 1, -1] (1/2) (1/20) (9/10) = .ok (1/2, 2) := by decide +kernel

/-- **C10.d (exact relation, index form)**: with `tot` the final Arias value of the record and `c = dt·a₀²/2`, if `j0` /
`j1` are the first / last sample of the ORIGINAL record with `s·(tot + c) < I[j] + c < e·(tot + c)`
(`RaisedBetween I s e tot c j`), then after `k + 1` prepended zeros start and end are `(k + 1 + j0)·dt`, `(k + 1 + j1)·dt`. -/
theorem sigdur_zero_prefix_general_indices (a0 : ℚ) (rest : List ℚ) (k : Nat) (dt s e tot : ℚ)
    (hs : 0 ≤ s) (he : 0 ≤ e) (htot : (ariasCore dt (a0 :: rest)).getLast? = some tot) (j0 j1 : Nat)
    (h0 : RaisedBetween (ariasCore dt (a0 :: rest)) s e tot (dt * (a0 * a0) / 2) j0)
    (h1 : RaisedBetween (ariasCore dt (a0 :: rest)) s e tot (dt * (a0 * a0) / 2) j1)
    (hall : ∀ j, RaisedBetween (ariasCore dt (a0 :: rest)) s e tot (dt * (a0 * a0) / 2) j → j0 ≤ j ∧ j ≤ j1) :
    sigDur (List.replicate (k + 1) 0 ++ a0 :: rest) dt s e
      = .ok (((k + 1 + j0 : Nat) : ℚ) * dt, ((k + 1 + j1 : Nat) : ℚ) * dt) := by
  have hlast : ((ariasCore dt (a0 :: rest)).map (· + dt * (a0 * a0) / 2)).getLast?
      = some (tot + dt * (a0 * a0) / 2) := by
    rw [List.getLast?_map, htot]; rfl
  have hfl : IsFirstLast (sigMask s e (tot + dt * (a0 * a0) / 2))
      ((ariasCore dt (a0 :: rest)).map (· + dt * (a0 * a0) / 2)) j0 j1 := by
    rw [isFirstLast_sigMask_iff]
    exact ⟨(between_map_add _ s e tot _ j0).mpr h0, (between_map_add _ s e tot _ j1).mpr h1,
      fun j hj => hall j ((between_map_add _ s e tot _ j).mp hj)⟩
  have hser : sigDurSeries ((ariasCore dt (a0 :: rest)).map (· + dt * (a0 * a0) / 2)) dt s e
      = .ok ((j0 : ℚ) * dt, (j1 : ℚ) * dt) :=
    (sigDurSeries_ok_iff _ dt s e _).mpr ⟨_, j0, j1, hlast, hfl, rfl⟩
  rw [(sigdur_zero_prefix_general a0 rest k dt s e hs he).2.1, hser]
  simp only [Except.map]
  congr 2 <;> push_cast <;> ring

/-- on the F10-1 witness (`I = [0, 13/4, 9/2, 5, 21/4, 11/2, 6]`, `tot = 6`, `c = 9/4`): the raised series qualifies samples
`0 … 3` (`33/80 < I[j] + 9/4 < 297/40`), the original series only `1 … 4`; after two zeros `(2 + 0)/2, (2 + 3)/2` -/
example : ariasCore (1/2 : ℚ) [3, 2, -1, 1, 0, 1, -1] = [0, 13/4, 9/2, 5, 21/4, 11/2, 6] ∧
    (List.range 7).map (fun j => decide ((1/20 : ℚ) * (6 + 9/4) < ([0, 13/4, 9/2, 5, 21/4, 11/2, 6] : List ℚ).getD j 0 + 9/4 ∧
        ([0, 13/4, 9/2, 5, 21/4, 11/2, 6] : List ℚ).getD j 0 + 9/4 < (9/10 : ℚ) * (6 + 9/4)))
      = [true, true, true, true, false, false, false] ∧
    sigDur (List.replicate (1 + 1) 0 ++ [3, 2, -1, 1, 0, 1, -1]) (1/2) (1/20) (9/10)
      = .ok (((1 + 1 + 0 : Nat) : ℚ) * (1/2), ((1 + 1 + 3 : Nat) : ℚ) * (1/2)) := by decide +kernel

/-- **C10.d (when the property's own shift holds)**: for `k + 1` prepended zeros the property's relation
"shift by `(k+1)·dt`" holds for a record IF AND ONLY IF raising the cumulative series by the extra panel `c` does not
change the result of the threshold search (in particular when `a₀ = 0`, `c = 0`). -/
theorem sigdur_zero_prefix_iff (a0 : ℚ) (rest : List ℚ) (k : Nat) (dt s e : ℚ) (hs : 0 ≤ s) (he : 0 ≤ e) :
    sigDur (List.replicate (k + 1) 0 ++ a0 :: rest) dt s e
        = (sigDur (a0 :: rest) dt s e).map
            (fun p => (p.1 + ((k + 1 : Nat) : ℚ) * dt, p.2 + ((k + 1 : Nat) : ℚ) * dt)) ↔
      sigDurSeries ((ariasCore dt (a0 :: rest)).map (· + dt * (a0 * a0) / 2)) dt s e
        = sigDurSeries (ariasCore dt (a0 :: rest)) dt s e := by
  rw [(sigdur_zero_prefix_general a0 rest k dt s e hs he).2.1]
  unfold sigDur
  constructor
  · intro h
    cases hx : sigDurSeries ((ariasCore dt (a0 :: rest)).map (· + dt * (a0 * a0) / 2)) dt s e with
    | error ex =>
      cases hy : sigDurSeries (ariasCore dt (a0 :: rest)) dt s e with
      | error ey => rw [hx, hy] at h; simp only [Except.map] at h; exact h
      | ok y => rw [hx, hy] at h; simp [Except.map] at h
    | ok x =>
      cases hy : sigDurSeries (ariasCore dt (a0 :: rest)) dt s e with
      | error ey => rw [hx, hy] at h; simp [Except.map] at h
      | ok y =>
        rw [hx, hy] at h
        simp only [Except.map, Except.ok.injEq, Prod.mk.injEq, add_left_inj] at h
        obtain ⟨h1, h2⟩ := h
        congr 1
        exact Prod.ext h1 h2
  · intro h; rw [h]

example : sigDurSeries ((ariasCore (1/2) [3, 2, -1, 1, 0, 1, -1]).map (· + (1/2) * (3 * 3) / 2)) (1/2) (1/20) (9/10)
      ≠ sigDurSeries (ariasCore (1/2) [3, 2, -1, 1, 0, 1, -1]) (1/2) (1/20) (9/10) := by decide +kernel
/-- a record with `a₀ ≠ 0` for which the shift does hold (raising by `c = 1/4` changes no decision) -/
example : sigDurSeries ((ariasCore (1/2) [1, 4, -4, 4, 1]).map (· + (1/2) * (1 * 1) / 2)) (1/2) (1/20) (19/20)
      = sigDurSeries (ariasCore (1/2) [1, 4, -4, 4, 1]) (1/2) (1/20) (19/20) ∧
    sigDur (List.replicate 3 0 ++ [1, 4, -4, 4, 1]) (1/2) (1/20) (19/20)
      = (sigDur [1, 4, -4, 4, 1] (1/2) (1/20) (19/20)).map (fun p => (p.1 + 3 * (1/2), p.2 + 3 * (1/2))) := by
  decide +kernel

end EqsigVerif.Props.C10
