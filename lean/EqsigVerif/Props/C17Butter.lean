import EqsigVerif.Model.Butter
import EqsigVerif.Lemmas.Butter
import EqsigVerif.Lemmas.ButterDigital
import EqsigVerif.Lemmas.ButterTypes
import EqsigVerif.Lemmas.ButterBand
import EqsigVerif.Lemmas.ButterGain
import EqsigVerif.Lemmas.ButterSteady
import EqsigVerif.Lemmas.ButterPoly
import EqsigVerif.Lemmas.ButterBa
/-!
# C17 — the analytic Butterworth gain (`|H(f)|²` of the requested order and cut-offs)

Model: `Model/Butter.lean` — what `Signal.butter_pass` asks `scipy.signal.butter` for (analog prototype `buttap`, pre-warping,
`lp2lp/lp2hp/lp2bp`, `bilinear_zpk`, `zpk2tf`), over Mathlib's `ℝ`/`ℂ` with the transcendental functions
`Butter.fnsC cs` (`π`, `tan`, `√`, `e^{iθ}`; `cs` any complex square root).  The `Float` twin of the same definitions is compared
with the real `scipy.signal.butter` on every run (`corr_butter`); rounding is outside the statements.
Normalised frequencies: `w = 1` is the Nyquist frequency, `ω = π·w`.
-/
set_option linter.unusedSectionVars false
set_option linter.unusedVariables false
namespace EqsigVerif.Props.C17
open EqsigVerif EqsigVerif.Cplx EqsigVerif.Model.Butter EqsigVerif.Butter Complex
open EqsigVerif.Model.Single (FilterType)

/-! ## (a) the analog prototype -/

/-- **C17 gain (a)**. The poles of `buttap(n)` are `−e^{iπ(2j+1−n)/(2n)}`, `j < n`, and the Butterworth polynomial
`B_n(s) = Π_j (s − p_j)` has `|B_n(iΩ)|² = 1 + Ω^{2n}` on the imaginary axis — for **every** order `n ≥ 1` and real `Ω`
(through `B_n(s)·B_n(−s) = 1 + (−s²)ⁿ`, the factorisation of `Xⁿ − c` over the `n`-th roots of unity). -/
theorem buttap_magnitude (cs : ℂ → ℂ) (n : ℕ) (hn : 1 ≤ n) (Ω : ℝ) :
    (buttap (fnsC cs) n).z = [] ∧ (buttap (fnsC cs) n).k = 1 ∧
    (buttap (fnsC cs) n).p = (List.range n).map (fun j => -cexp ((theta n j : ℝ) * I)) ∧
    Complex.normSq (((buttap (fnsC cs) n).p.map (fun p => (Ω : ℂ) * I - p)).prod) = 1 + Ω ^ (2 * n) := by
  refine ⟨rfl, rfl, rfl, ?_⟩
  rw [buttap_p, prod_poles]
  exact normSq_bpoly n hn Ω

/-- non-vacuity: order 2 at `Ω = 2`: the two poles `−e^{∓iπ/4}`, `|B₂(2i)|² = 17` -/
example : Complex.normSq (((buttap (fnsC csqrtC) 2).p.map (fun p => ((2 : ℝ) : ℂ) * I - p)).prod) = 17 := by
  rw [(buttap_magnitude csqrtC 2 (by norm_num) 2).2.2.2]; norm_num

/-! ## (b) the bilinear transform on the unit circle -/

/-- **C17 gain (b)**. `bilinear_zpk` substitutes `s = 2·fs·(z − 1)/(z + 1)` (`fs = 2`); on the unit circle `z = e^{iω}` that is
the point `i·2·fs·tan(ω/2)` of the imaginary axis (every real `ω`; at `ω = π` both sides are `0` by `x/0 = 0`). -/
theorem bilinear_on_unit_circle (ω : ℝ) :
    (4 : ℂ) * (cexp (ω * I) - 1) / (cexp (ω * I) + 1) = ((4 * Real.tan (ω / 2) : ℝ) : ℂ) * I :=
  bilinear_unit_circle ω

/-- non-vacuity: `ω = π/2` (`z = i`): `4(i − 1)/(i + 1) = 4i` -/
example : (4 : ℂ) * (cexp ((Real.pi / 2 : ℝ) * I) - 1) / (cexp ((Real.pi / 2 : ℝ) * I) + 1) = 4 * I := by
  rw [bilinear_on_unit_circle, show Real.pi / 2 / 2 = Real.pi / 4 by ring, Real.tan_pi_div_four]; norm_num

/-- **C17 gain (b′)** (bilinear transform of a whole zeros–poles–gain triple, as `bilinear_zpk` computes it: poles and zeros
mapped by `(4 + r)/(4 − r)`, `degree` zeros added at `−1`, gain multiplied by `real(Π(4 − z_j)/Π(4 − p_j))`): when that gain
correction is real, the digital transfer function at `ζ ≠ −1` is the analog one at `s = 4(ζ − 1)/(ζ + 1)`. -/
theorem bilinear_transfer (s : Zpk ℝ ℂ) (ζ : ℂ) (hζ : ζ + 1 ≠ 0) (hdeg : s.z.length ≤ s.p.length)
    (hz : ∀ r ∈ s.z, 4 - r ≠ 0) (hp : ∀ r ∈ s.p, 4 - r ≠ 0)
    (hR : ((s.z.map (fun r => 4 - r)).prod / (s.p.map (fun r => 4 - r)).prod).im = 0) :
    evalZpk (bilinear s) ζ = evalZpk s (4 * (ζ - 1) / (ζ + 1)) :=
  evalZpk_bilinear s ζ hζ hdeg hz hp hR

/-- non-vacuity: the one-pole analog low pass `1/(s + 1)` at `ζ = 1` (zero frequency) -/
example : (1 : ℂ) + 1 ≠ 0 ∧ ([] : List ℂ).length ≤ [(-1 : ℂ)].length ∧ (∀ r ∈ ([] : List ℂ), 4 - r ≠ 0) ∧
    (∀ r ∈ [(-1 : ℂ)], 4 - r ≠ 0) ∧
    ((([] : List ℂ).map (fun r => 4 - r)).prod / ([(-1 : ℂ)].map (fun r => 4 - r)).prod).im = 0 := by
  refine ⟨by norm_num, by simp, by simp, by simp; norm_num, ?_⟩
  norm_num

/-! ## (c) the digital gain -/

/-- **C17 gain (c), low pass**. For every order `n ≥ 1`, cut-off `0 < w_c < 1` and frequency `|w| < 1` (normalised to the Nyquist
frequency), the digital low-pass filter `butter(n, w_c, 'low')` (zeros–poles–gain form) has
`|H(e^{iπw})|² = 1 / (1 + (tan(πw/2)/tan(πw_c/2))^{2n})`, which is the model's closed form `gainSq`. -/
theorem butter_lowpass_gain (cs : ℂ → ℂ) (n : ℕ) (hn : 1 ≤ n) (wc w : ℝ) (hwc : 0 < wc) (hwc1 : wc < 1)
    (hw : -1 < w) (hw1 : w < 1) :
    Complex.normSq (evalZpk (digitalZpk (fnsC cs) n .low [wc]) (cexp ((Real.pi * w : ℝ) * I)))
      = 1 / (1 + (Real.tan (Real.pi * w / 2) / Real.tan (Real.pi * wc / 2)) ^ (2 * n)) ∧
    gainSq (fnsC cs) n .low [wc] w
      = 1 / (1 + (Real.tan (Real.pi * w / 2) / Real.tan (Real.pi * wc / 2)) ^ (2 * n)) := by
  refine ⟨lowpass_gain cs n hn wc w hwc hwc1 hw hw1, ?_⟩
  simp [gainSq, gainRatio, powN_eq, fnsC]

/-- non-vacuity: order 4, cut-off at half the Nyquist frequency, evaluated at a quarter -/
example : (1 : ℕ) ≤ 4 ∧ (0 : ℝ) < 1 / 2 ∧ (1 / 2 : ℝ) < 1 ∧ (-1 : ℝ) < 1 / 4 ∧ (1 / 4 : ℝ) < 1 := by norm_num

/-- **C17 gain (c), high pass**. For every order `n ≥ 1`, cut-off `0 < w_c < 1` and frequency `0 < w < 1`, the digital high-pass
filter `butter(n, w_c, 'high')` has `|H(e^{iπw})|² = 1 / (1 + (tan(πw_c/2)/tan(πw/2))^{2n})` (the low-pass ratio inverted). -/
theorem butter_highpass_gain (cs : ℂ → ℂ) (n : ℕ) (hn : 1 ≤ n) (wc w : ℝ) (hwc : 0 < wc) (hwc1 : wc < 1)
    (hw : 0 < w) (hw1 : w < 1) :
    Complex.normSq (evalZpk (digitalZpk (fnsC cs) n .high [wc]) (cexp ((Real.pi * w : ℝ) * I)))
      = 1 / (1 + (Real.tan (Real.pi * wc / 2) / Real.tan (Real.pi * w / 2)) ^ (2 * n)) ∧
    gainSq (fnsC cs) n .high [wc] w
      = 1 / (1 + (Real.tan (Real.pi * wc / 2) / Real.tan (Real.pi * w / 2)) ^ (2 * n)) :=
  ⟨highpass_gain cs n hn wc w hwc hwc1 hw hw1, by rw [gainSq_eq, gainRatio_high]⟩

example : (1 : ℕ) ≤ 3 ∧ (0 : ℝ) < 1 / 8 ∧ (1 / 8 : ℝ) < 1 ∧ (0 : ℝ) < 1 / 4 ∧ (1 / 4 : ℝ) < 1 := by norm_num

/-- **C17 gain (c), band pass**. For every order `n ≥ 1`, cut-offs `0 < w_l < w_h < 1`, frequency `0 < w < 1` and every complex
square root `cs` (`cs(u)² = u`; `lp2bp_zpk` splits each prototype pole in two with it), the digital band-pass filter
`butter(n, [w_l, w_h], 'band')` has `|H(e^{iπw})|² = 1 / (1 + Ω^{2n})` with the standard substitution
`Ω = (t² − t_l·t_h)/(t·(t_h − t_l))`, `t = tan(πw/2)`, `t_l = tan(πw_l/2)`, `t_h = tan(πw_h/2)`. -/
theorem butter_bandpass_gain (cs : ℂ → ℂ) (hcs : ∀ u, cs u * cs u = u) (n : ℕ) (hn : 1 ≤ n) (wl wh w : ℝ)
    (hwl : 0 < wl) (hlh : wl < wh) (hwh : wh < 1) (hw : 0 < w) (hw1 : w < 1) :
    Complex.normSq (evalZpk (digitalZpk (fnsC cs) n .band [wl, wh]) (cexp ((Real.pi * w : ℝ) * I)))
      = 1 / (1 + ((Real.tan (Real.pi * w / 2) ^ 2 - Real.tan (Real.pi * wl / 2) * Real.tan (Real.pi * wh / 2))
          / (Real.tan (Real.pi * w / 2) * (Real.tan (Real.pi * wh / 2) - Real.tan (Real.pi * wl / 2)))) ^ (2 * n)) ∧
    gainSq (fnsC cs) n .band [wl, wh] w
      = 1 / (1 + ((Real.tan (Real.pi * w / 2) ^ 2 - Real.tan (Real.pi * wl / 2) * Real.tan (Real.pi * wh / 2))
          / (Real.tan (Real.pi * w / 2) * (Real.tan (Real.pi * wh / 2) - Real.tan (Real.pi * wl / 2)))) ^ (2 * n)) :=
  ⟨bandpass_gain cs hcs n hn wl wh w hwl hlh hwh hw hw1, by rw [gainSq_eq, gainRatio_band]⟩

/-- non-vacuity: the principal square root is a square root; order 4, band `(1/8, 1/2)`, frequency `1/4` -/
example : (∀ u, csqrtC u * csqrtC u = u) ∧ (1 : ℕ) ≤ 4 ∧ (0 : ℝ) < 1 / 8 ∧ (1 / 8 : ℝ) < 1 / 2 ∧ (1 / 2 : ℝ) < 1 ∧
    (0 : ℝ) < 1 / 4 ∧ (1 / 4 : ℝ) < 1 := by
  refine ⟨csqrtC_mul_self, ?_⟩; norm_num

/-! ## (e) facts about the gain -/

/-- **C17 gain (e)**, range and cut-off value. The analytic gain `gainSq = 1/(1 + Ω^{2n})` lies in `(0, 1]` for every filter type,
order, cut-off and frequency; it equals exactly `1/2` at the cut-off of a low pass and of a high pass and at both cut-offs of a
band pass (`−3 dB` per pass, `−6 dB` after `filtfilt`'s two passes). -/
theorem butter_gain_range_cutoff (cs : ℂ → ℂ) (n : ℕ) (ft : FilterType) (wn : List ℝ) (w wc wl wh : ℝ)
    (hwc : 0 < wc) (hwc1 : wc < 1) (hwl : 0 < wl) (hlh : wl < wh) (hwh : wh < 1) :
    (0 < gainSq (fnsC cs) n ft wn w ∧ gainSq (fnsC cs) n ft wn w ≤ 1) ∧
    gainSq (fnsC cs) n .low [wc] wc = 1 / 2 ∧ gainSq (fnsC cs) n .high [wc] wc = 1 / 2 ∧
    gainSq (fnsC cs) n .band [wl, wh] wl = 1 / 2 ∧ gainSq (fnsC cs) n .band [wl, wh] wh = 1 / 2 := by
  have htc := tan_half_pos wc hwc hwc1
  have htl := tan_half_pos wl hwl (by linarith)
  have hth := tan_half_pos wh (by linarith) hwh
  have hpi := Real.pi_pos
  have hlt : Real.tan (Real.pi * wl / 2) < Real.tan (Real.pi * wh / 2) := by
    apply Real.tan_lt_tan_of_lt_of_lt_pi_div_two <;> nlinarith
  have hd : Real.tan (Real.pi * wh / 2) - Real.tan (Real.pi * wl / 2) ≠ 0 := by linarith
  refine ⟨gainSq_mem cs n ft wn w, ?_, ?_, ?_, ?_⟩
  · rw [gainSq_eq, gainRatio_low]; apply gain_of_ratio_sq_one; rw [div_self htc.ne']; norm_num
  · rw [gainSq_eq, gainRatio_high]; apply gain_of_ratio_sq_one; rw [div_self htc.ne']; norm_num
  · rw [gainSq_eq, gainRatio_band]; apply gain_of_ratio_sq_one
    have : (Real.tan (Real.pi * wl / 2) ^ 2 - Real.tan (Real.pi * wl / 2) * Real.tan (Real.pi * wh / 2))
        / (Real.tan (Real.pi * wl / 2) * (Real.tan (Real.pi * wh / 2) - Real.tan (Real.pi * wl / 2))) = -1 := by
      field_simp; ring
    rw [this]; norm_num
  · rw [gainSq_eq, gainRatio_band]; apply gain_of_ratio_sq_one
    have : (Real.tan (Real.pi * wh / 2) ^ 2 - Real.tan (Real.pi * wl / 2) * Real.tan (Real.pi * wh / 2))
        / (Real.tan (Real.pi * wh / 2) * (Real.tan (Real.pi * wh / 2) - Real.tan (Real.pi * wl / 2))) = 1 := by
      field_simp
    rw [this]; norm_num

example : (0 : ℝ) < 1 / 2 ∧ (1 / 2 : ℝ) < 1 ∧ (0 : ℝ) < 1 / 8 ∧ (1 / 8 : ℝ) < 1 / 2 := by norm_num

/-- **C17 gain (e)**, monotonicity. The low-pass gain strictly decreases with the frequency on `[0, Nyquist)`, the high-pass gain
strictly increases on `(0, Nyquist)` — every order `n ≥ 1`, every cut-off. -/
theorem butter_gain_monotone (cs : ℂ → ℂ) (n : ℕ) (hn : 1 ≤ n) (wc : ℝ) (hwc : 0 < wc) (hwc1 : wc < 1) :
    StrictAntiOn (fun w => gainSq (fnsC cs) n .low [wc] w) (Set.Ico 0 1) ∧
    StrictMonoOn (fun w => gainSq (fnsC cs) n .high [wc] w) (Set.Ioo 0 1) :=
  ⟨gainSq_low_strictAnti cs n hn wc hwc hwc1, gainSq_high_strictMono cs n hn wc hwc hwc1⟩

example : (1 : ℕ) ≤ 4 ∧ (0 : ℝ) < 3 / 10 ∧ (3 / 10 : ℝ) < 1 ∧ (1 / 4 : ℝ) ∈ Set.Ico (0 : ℝ) 1 ∧ (1 / 2 : ℝ) ∈ Set.Ioo (0 : ℝ) 1 := by
  norm_num

/-! ## (c′) the coefficient lists `(b, a)` handed to `filtfilt` -/

/-- **C17 gain (c′), `(b, a)` form** — `_partial`: low and high pass; the band pass is proved on the zeros–poles–gain form only
(`butter_bandpass_gain`; missing for `(b, a)`: that `np.poly` of the `2n` band-pass poles has real coefficients, the general
links `poly_real`, `tfun_zpk2tf` of `Lemmas/ButterPoly.lean` are in place).
For every order `n ≥ 1` and cut-off `0 < w_c < 1`, `butter(n, w_c, btype)` returns coefficient lists `b`, `a` of length `n + 1`
(`zpk2tf`: `np.poly` of the zeros and of the poles — real, because the poles come in conjugate pairs) whose frequency response
`H(e^{iπw}) = Σ b_k e^{−iπwk} / Σ a_k e^{−iπwk}` (the model's `freqResp`, what `scipy.signal.freqz` evaluates) has exactly the
analytic squared magnitude `gainSq`. -/
theorem butter_ba_gain_partial (cs : ℂ → ℂ) (n : ℕ) (hn : 1 ≤ n) (wc w : ℝ) (hwc : 0 < wc) (hwc1 : wc < 1)
    (hw : 0 < w) (hw1 : w < 1) :
    (∃ b a, butter (fnsC cs) n .low [wc] = .ok (b, a) ∧ b.length = n + 1 ∧ a.length = n + 1 ∧
      Complex.normSq (freqResp (fnsC cs) b a (Real.pi * w)) = gainSq (fnsC cs) n .low [wc] w) ∧
    (∃ b a, butter (fnsC cs) n .high [wc] = .ok (b, a) ∧ b.length = n + 1 ∧ a.length = n + 1 ∧
      Complex.normSq (freqResp (fnsC cs) b a (Real.pi * w)) = gainSq (fnsC cs) n .high [wc] w) := by
  have hζ : cexp ((Real.pi * w : ℝ) * I) ≠ 0 := Complex.exp_ne_zero _
  constructor
  · obtain ⟨b, a, h1, h2, h3, h4⟩ := lowpass_ba cs n wc hwc hwc1 _ hζ
    refine ⟨b, a, h1, h2, h3, ?_⟩
    rw [freqResp_eq_tfun, h4, (butter_lowpass_gain cs n hn wc w hwc hwc1 (by linarith) hw1).1,
      (butter_lowpass_gain cs n hn wc w hwc hwc1 (by linarith) hw1).2]
  · obtain ⟨b, a, h1, h2, h3, h4⟩ := highpass_ba cs n wc hwc hwc1 _ hζ
    refine ⟨b, a, h1, h2, h3, ?_⟩
    rw [freqResp_eq_tfun, h4, (butter_highpass_gain cs n hn wc w hwc hwc1 hw hw1).1,
      (butter_highpass_gain cs n hn wc w hwc hwc1 hw hw1).2]

example : (1 : ℕ) ≤ 4 ∧ (0 : ℝ) < 3 / 10 ∧ (3 / 10 : ℝ) < 1 ∧ (0 : ℝ) < 1 / 2 ∧ (1 / 2 : ℝ) < 1 := by norm_num

/-! ## (d) steady state and zero phase of forward–backward filtering -/

/-- **C17 gain (d)**. `lfilter(b, a, ·)` realises the difference equation `Σ_k a_k y[m−k] = Σ_k b_k x[m−k]` (`IsResponse`, on
bi-infinite sequences: no start, no end, hence no padding and no initial conditions).  For real coefficients and `ω` with
`A(e^{iω}) ≠ 0`, `H(z) = Σ b_k z^{−k}/Σ a_k z^{−k}` (`tfun`; the model's `freqResp` on the unit circle):
* the exponential `c·e^{iωm}` is answered by `c·H(e^{iω})·e^{iωm}` (steady state);
* the backward pass (reverse, filter, reverse) multiplies by `H(e^{−iω}) = conj H(e^{iω})`, so forward–backward filtering
  multiplies by `H·conj H = |H(e^{iω})|²`, a **real non-negative** number: zero phase;
* the real sinusoid `cos(ωm + φ)` therefore comes back as `|H(e^{iω})|²·cos(ωm + φ)` — same frequency, same phase, not shifted
  in time, scaled by the squared magnitude (with an intermediate real sequence `y₁` answering the forward pass).
What `filtfilt` does at the two ends of a *finite* record (odd padding of `3·max(len a, len b)` samples, initial conditions
`lfilter_zi`) is outside this statement and stays numerical (oracle "away from the ends"). -/
theorem filtfilt_zero_phase (cs : ℂ → ℂ) (b a : List ℝ) (ω φ : ℝ) (hA : negPowSum a (cexp (ω * I))⁻¹ ≠ 0) :
    freqResp (fnsC cs) b a ω = tfun b a (cexp (ω * I)) ∧
    (∀ c : ℂ, IsResponse b a (fun m => c * cexp (ω * I) ^ m) (fun m => c * tfun b a (cexp (ω * I)) * cexp (ω * I) ^ m) ∧
      IsResponse b a (rev (fun m => c * tfun b a (cexp (ω * I)) * cexp (ω * I) ^ m))
        (rev (fun m => ((Complex.normSq (tfun b a (cexp (ω * I))) : ℝ) : ℂ) * (c * cexp (ω * I) ^ m)))) ∧
    tfun b a (cexp (ω * I)) * tfun b a (cexp (ω * I))⁻¹ = ((Complex.normSq (tfun b a (cexp (ω * I))) : ℝ) : ℂ) ∧
    0 ≤ Complex.normSq (tfun b a (cexp (ω * I))) ∧
    ∃ y1 : ℤ → ℝ,
      IsResponseR b a (fun m => Real.cos (ω * m + φ)) y1 ∧
      IsResponseR b a (rev y1) (rev (fun m => Complex.normSq (tfun b a (cexp (ω * I))) * Real.cos (ω * m + φ))) :=
  ⟨freqResp_eq_tfun cs b a ω, fun c => forward_backward b a c ω hA, tfun_mul_inv b a ω, Complex.normSq_nonneg _,
    forward_backward_real b a ω φ hA⟩

/-- non-vacuity: the first-order section `b = [1, 1]`, `a = [3, −1]` at `ω = 1`: `A(e^{iω}) = 3 − e^{−iω} ≠ 0` -/
example : negPowSum ([3, -1] : List ℝ) (cexp (((1 : ℝ) : ℂ) * I))⁻¹ ≠ 0 := by
  intro h
  have h3 : (cexp (((1 : ℝ) : ℂ) * I))⁻¹ = 3 := by
    simp only [negPowSum, List.foldr_cons, List.foldr_nil, cxlike_ofReal, mul_zero, add_zero] at h
    push_cast at h
    linear_combination -h
  have hn := congrArg (fun z : ℂ => ‖z‖) h3
  simp only [norm_inv, Complex.norm_exp_ofReal_mul_I] at hn
  norm_num at hn

end EqsigVerif.Props.C17
