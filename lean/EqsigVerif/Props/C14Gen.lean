import EqsigVerif.Model.TimeStep
import EqsigVerif.Gen.TimeStepFactor
/-!
# C14.a — translator tie: the factor rule REGENERATED from `eqsig/fns/time_step.py` is the model's `factorRule`

Both `interp_array_to_approx_dt` and `resample_to_approx_dt` contain the rule; each is translated separately.
-/
namespace EqsigVerif.Props.C14
open EqsigVerif

/-- the generated rule of `interp_array_to_approx_dt` is the model's factor rule -/
theorem gen_factor_rule_interp (q : Rat) : Gen.TimeStepFactor.factorRuleInterp q = Model.TimeStep.factorRule q := rfl

/-- the generated rule of `resample_to_approx_dt` is the model's factor rule ("follows the same step rule") -/
theorem gen_factor_rule_resample (q : Rat) : Gen.TimeStepFactor.factorRuleResample q = Model.TimeStep.factorRule q := rfl

/-- the two functions apply the same rule -/
theorem gen_factor_rules_agree (q : Rat) : Gen.TimeStepFactor.factorRuleInterp q = Gen.TimeStepFactor.factorRuleResample q := rfl

example : Gen.TimeStepFactor.factorRuleInterp (7/2) = 4 ∧ Gen.TimeStepFactor.factorRuleInterp (2/7) = 1/3 := by decide +kernel

end EqsigVerif.Props.C14
