import EqsigVerif.Model.TimeStep
import EqsigVerif.Gen.TimeStepFactor
import Mathlib.Tactic.Ring
import Mathlib.Tactic.NormNum
import Mathlib.Tactic.Linarith
import Mathlib.Tactic.SplitIfs
import Mathlib.Algebra.Order.Ring.Rat
/-!
# C14.a — translator tie: the factor rule REGENERATED from `eqsig/fns/time_step.py` is the model's `factorRule`

Both `interp_array_to_approx_dt` and `resample_to_approx_dt` contain the rule; each is translated separately. The bridges are
proved semantically (first `rfl`; otherwise case analysis on the branch conditions), so a harmless reordering of the branches
does not break them while any change of the rule's value does.
-/
namespace EqsigVerif.Props.C14
open EqsigVerif

macro "rule_bridge" : tactic =>
  `(tactic| first
    | rfl
    | (simp only [Gen.TimeStepFactor.factorRuleInterp, Gen.TimeStepFactor.factorRuleResample, Model.TimeStep.factorRule] <;>
       split_ifs <;> first
        | rfl
        | (exfalso; norm_num at * <;> linarith)
        | (subst_vars; norm_num; done)
        | (simp_all; done)))

/-- the generated rule of `interp_array_to_approx_dt` is the model's factor rule -/
theorem gen_factor_rule_interp (q : Rat) : Gen.TimeStepFactor.factorRuleInterp q = Model.TimeStep.factorRule q := by
  rule_bridge

/-- the generated rule of `resample_to_approx_dt` is the model's factor rule ("follows the same step rule") -/
theorem gen_factor_rule_resample (q : Rat) : Gen.TimeStepFactor.factorRuleResample q = Model.TimeStep.factorRule q := by
  rule_bridge

/-- the two functions apply the same rule -/
theorem gen_factor_rules_agree (q : Rat) : Gen.TimeStepFactor.factorRuleInterp q = Gen.TimeStepFactor.factorRuleResample q := by
  rw [gen_factor_rule_interp, gen_factor_rule_resample]

example : Gen.TimeStepFactor.factorRuleInterp (7/2) = 4 ∧ Gen.TimeStepFactor.factorRuleInterp (2/7) = 1/3 := by decide +kernel

end EqsigVerif.Props.C14
