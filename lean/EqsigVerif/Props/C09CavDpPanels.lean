import EqsigVerif.Model.CavDpFloat
import EqsigVerif.Lemmas.CavDpFloat
import EqsigVerif.Lemmas.CavDpFloatTables
import EqsigVerif.Lemmas.CavDpFloatStd
/-!
# C09 — CAVdp: how many trapezoid panels does a one-second window integrate? (the floating `np.arange`)

`calc_cav_dp` selects the abscissae of each window from `np.arange(start*dt, start*dt + 1, dt)` (floating point) with the
mask `start*dt <= t <= (start + points_per_sec)*dt`; `len(selected) − 1` panels are integrated.  In exact arithmetic
(`Model.Im.cavDp`, `dt = 1/pps`) the `arange` has `pps` elements, all selected: `pps − 1` panels (the panel that ends at the
window's last sample is not integrated).  In binary64 the length is `ceil(fl(fl(stop − start)/dt))` and may be `pps + 1`.

`Model.CavDpFloat` evaluates exactly these binary64 decisions (validated bit-for-bit against NumPy: every element of
1519 `arange`s, lengths, selected positions).  Result: for the sampling rates of `stdRates`
(`dt = fl(1/pps)`: 1, 0.5, 0.25, 0.2, 0.125, 0.1, …, 0.01, 0.005, 0.004, 0.002, 0.001 s and the binary rates up to 512 Hz)
the float code does what the exact model does — `pps` abscissae, `pps − 1` panels; for other rates it need not.
-/
namespace EqsigVerif.Props.C09
open EqsigVerif.Model.CavDpFloat

/-- **C09 (CAVdp, `points_per_sec`)** for every standard rate `int(1 / dt)` recovers the rate: `int(fl(1 / fl(1/pps))) = pps`. -/
theorem cav_dp_float_pps_standard : ∀ pps ∈ stdRates, ppsOf (dtOf pps) = pps := ppsTable

example : stdRates = [1, 2, 4, 5, 8, 10, 16, 20, 25, 40, 50, 64, 80, 100, 128, 200, 250, 256, 400, 500, 512, 1000] ∧
    (dtOf 100).toRat = 5764607523034235 / 576460752303423488 := by decide +kernel

/-- **C09 (CAVdp, length of the floating `arange`)** for every standard rate and each of the first `lenWindows = 600`
one-second windows (ten minutes of record) the binary64 `np.arange(start*dt, start*dt + 1, dt)` has exactly `pps` elements
— as in the exact model — hence the window integrates AT MOST `pps − 1` panels, never the full `pps`. -/
theorem cav_dp_float_arange_len_standard :
    ∀ pps ∈ stdRates, ∀ i, i < lenWindows →
      arangeLenF (dtOf pps) (i * pps) = pps ∧ panelsF (dtOf pps) pps (i * pps) ≤ pps - 1 := by
  intro pps hp i hi
  have h := lenTable pps hp
  rw [List.all_eq_true] at h
  have hlen := windowLenExact_spec pps i (h i (List.mem_range.mpr hi))
  refine ⟨hlen, ?_⟩
  have := panelsF_le (dtOf pps) pps (i * pps)
  rw [hlen] at this
  exact this

example : lenWindows = 600 ∧ arangeLenF (dtOf 100) (599 * 100) = 100 := by decide +kernel

/-- **C09 (CAVdp, panel count)** for every standard rate and each of the first `fullWindows pps` windows
(`max 2 (min 10 (2000 / pps))`: every abscissa and the mask evaluated in binary64) ALL `pps` elements of the `arange` pass
the mask — positions `0 … pps − 1` — so exactly `pps − 1` panels are integrated, `y_int` being the first `pps` of the
`pps + 1` window samples: what `Model.Im.cavDp` does. -/
theorem cav_dp_float_panels_standard :
    ∀ pps ∈ stdRates, ∀ i, i < fullWindows pps →
      arangeLenF (dtOf pps) (i * pps) = pps ∧
      selectedF (dtOf pps) pps (i * pps) = List.range pps ∧
      panelsF (dtOf pps) pps (i * pps) = pps - 1 := by
  intro pps hp i hi
  have h := winTable pps hp
  rw [List.all_eq_true] at h
  exact windowExact_spec pps i (h i (List.mem_range.mpr hi))

example : fullWindows 1000 = 2 ∧ fullWindows 100 = 10 ∧ fullWindows 1 = 10 ∧ panelsF (dtOf 5) 5 10 = 4 := by
  decide +kernel

/-- **The rule is NOT general (kernel-checked).**
* `pps = 49` (`dt = fl(1/49)`): `fl(1/dt) = 49.00000000000001`, so `int` gives 49 but `ceil` gives 50: the `arange` of window 0
  has `pps + 1 = 50` elements, all 50 pass the mask, and `pps = 49` panels — the FULL window — are integrated;
* `pps = 93`: `fl(1 / fl(1/93)) < 93`, so `points_per_sec = int(1/dt) = 92`: every "one-second" window is 92 samples long. -/
example : ppsOf (dtOf 49) = 49 ∧ arangeLenF (dtOf 49) 0 = 50 ∧ panelsF (dtOf 49) 49 0 = 49 ∧
    ppsOf (dtOf 93) = 92 ∧ arangeLenF (dtOf 93) 0 = 93 := by decide +kernel

end EqsigVerif.Props.C09
