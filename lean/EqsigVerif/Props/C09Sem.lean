import EqsigVerif.Model.Im
import EqsigVerif.Model.Spectra
import EqsigVerif.Gen.ImSimple
/-!
# C08 / C09 / C03 — translator tie for the array one-liners of `eqsig/im.py` and `eqsig/sdof.py`

`Gen/ImSimple.lean` is regenerated on every run: each NumPy/SciPy call of the source is mapped 1:1 to the prelude combinator
that models it (`cumulative_trapezoid(x, dx=dt, initial=0)` ↦ `Np.cumtrapz dt x`, `x ** 2` ↦ `Np.sq x`, `np.abs` ↦ `Np.absL`,
`np.cumsum` ↦ `Np.cumsum`, `x * dt` ↦ `x.map (· * dt)`, `max(abs(min(m)), max(m))` ↦ `max2 (absv mn) mx`, …). The hand models
of `Model/Im.lean` / `Model/Spectra.lean` are what the C08/C09/C03 theorems talk about; these bridges (by `rfl`, for every number
type) make them statements about the expressions the source contains now.
-/
namespace EqsigVerif.Props.C09
open EqsigVerif EqsigVerif.Np

section
variable {α : Type} [Add α] [Sub α] [Mul α] [Div α] [Neg α] [LT α] [DecidableLT α]
  [OfNat α 0] [OfNat α 1] [OfNat α 2] [OfScientific α]

/-- `_raw_calc_arias_intensity`: the model's Arias series with the constant `pi / (2 * 9.81)` of the source -/
theorem gen_arias (pi dt : α) (a : List α) : Gen.ImSimple.arias pi dt a = Model.Im.arias (pi / (2 * 9.81)) dt a := rfl

/-- `calc_cav` -/
theorem gen_cav (dt : α) (a : List α) : Gen.ImSimple.cav dt a = Model.Im.cav dt a := rfl

/-- `calc_isv`, with the object's velocity = the model's trapezoid velocity (C08) -/
theorem gen_isv (dt : α) (a : List α) : Gen.ImSimple.isv dt (Model.Im.velocity dt a) = Model.Im.isv dt a := rfl

/-- `calc_integral_of_abs_velocity` -/
theorem gen_int_abs_vel (dt : α) (a : List α) :
    Gen.ImSimple.intAbsVel dt (Model.Im.velocity dt a) = Model.Im.intAbsVel dt a := rfl

/-- `calc_integral_of_abs_acceleration` -/
theorem gen_int_abs_acc (dt : α) (a : List α) : Gen.ImSimple.intAbsAcc dt a = Model.Im.intAbsAcc dt a := rfl

/-- `calc_peak`: the model's `calcPeak?` is the generated combination of the series' extreme values -/
theorem gen_calc_peak (l : List α) (mn mx : α) (h1 : minL? l = some mn) (h2 : maxL? l = some mx) :
    Model.Displacements.calcPeak? l = some (Gen.ImSimple.calcPeakCore mn mx) := by
  unfold Model.Displacements.calcPeak?
  rw [h1, h2]; rfl

end

/-- `sdof.absmax`: the model's `absmax` is the generated combination of `a.min()` and `a.max()` -/
theorem gen_absmax {α : Type} [LT α] [DecidableLT α] [Neg α] [OfNat α 0] (x : α) (xs : List α) :
    Model.Spectra.absmax (x :: xs) = some (Gen.ImSimple.absmaxCore (minFrom x xs) (maxFrom x xs)) := rfl

example : Gen.ImSimple.cav (1/2 : Rat) [1, -2, 3] = [0, 3/4, 2] := by decide +kernel

end EqsigVerif.Props.C09
