import EqsigVerif.Model.Switched
import EqsigVerif.Lemmas.Switched
import EqsigVerif.Lemmas.SwitchedExcursions

/-!
# C12 — Zero crossings and per-half-cycle (switched) peaks are exact

Python: `eqsig/fns/peaks_and_crossings.py`, `get_zero_crossings_array_indices`, `get_switched_peak_array_indices`
(tree with the planned fixes).  Model: `EqsigVerif/Model/Switched.lean`.  `v[i]` is written `v.getD i 0`.
All theorems are stated under the guard `v ≠ []` (the code raises `IndexError` on an empty series).

Since the repair of finding F12-3 `get_switched_peak_array_indices` ends with `return np.unique(switched_peak_indices)`:
`switchedPeaks` below is the model of the *loop* (the value of the local `switched_peak_indices`), the public function returns
`switchedPeaksOut = NpU.unique ∘ switchedPeaks` (`Model/SwitchedOut.lean`).  The two agree whenever `peaks v` is strictly ascending
(every non-constant series), so the theorems below are theorems about the function there; the statements about the function for
*every* series (strict ascent, constant series) are in `Props/C12Repair.lean`.
-/
namespace EqsigVerif.Props.C12
set_option linter.unusedVariables false
open EqsigVerif EqsigVerif.Model.Switched EqsigVerif.Model.Peaks

/-- **C12.a** `zc_spec` (`tol = 0`): index `i` is reported iff it is in range and is index `0`, or an exact zero
(with `keep_adj_zeros = False`: only a zero whose predecessor is non-zero, i.e. the first of each run of
zeros), or the first sample after a strict sign change.
Remarks on the code: (1) index `0` is always reported, so a leading run of zeros contributes exactly index `0`
when `keepAdj = false`; (2) the guard `len(zero_indices) > 1` has no observable effect: with exactly one zero
the unpruned set already equals what the pruning would return (`ediff1d(to_begin=10)` always keeps the first). -/
theorem zc_spec (v : List ℚ) (hv : v ≠ []) (keepAdj : Bool) (i : Nat) :
    i ∈ zeroCrossings v keepAdj 0 ↔
      i < v.length ∧
        (i = 0 ∨ (v.getD i 0 = 0 ∧ (keepAdj = true ∨ v.getD (i - 1) 0 ≠ 0)) ∨
          (0 < i ∧ v.getD (i - 1) 0 * v.getD i 0 < 0)) := by
  have hlen : 0 < v.length := List.length_pos_of_ne_nil hv
  rw [zeroCrossings_zero, mem_allZc, mem_zeroSel, mem_throughZeroIdx]
  constructor
  · rintro (rfl | ⟨h1, h2, h3⟩ | ⟨h1, h2⟩)
    · exact ⟨hlen, Or.inl rfl⟩
    · refine ⟨h1, ?_⟩
      rcases h3 with h3 | h3 | h3
      · exact Or.inr (Or.inl ⟨h2, Or.inl h3⟩)
      · exact Or.inl h3
      · exact Or.inr (Or.inl ⟨h2, Or.inr h3⟩)
    · refine ⟨h1, ?_⟩
      rcases h2 with ⟨h2, _⟩ | h2
      · exact Or.inl h2
      · exact Or.inr (Or.inr h2)
  · rintro ⟨h1, rfl | ⟨h2, h3⟩ | h2⟩
    · exact Or.inl rfl
    · refine Or.inr (Or.inl ⟨h1, h2, ?_⟩)
      rcases h3 with h3 | h3
      · exact Or.inl h3
      · exact Or.inr (Or.inr h3)
    · exact Or.inr (Or.inr ⟨h1, Or.inr h2⟩)

example : zeroCrossings [0, 2, 1, 2, -1, 1, 0, 0, 1, 3/10, 0, -1, 1/5, 1, 1/5] false 0 = [0, 4, 5, 6, 10, 12] := by
  decide +kernel
example : zeroCrossings [0, 0, 1, -1, 0, 0] true 0 = [0, 1, 3, 4, 5] ∧ zeroCrossings [0, 0, 1, -1, 0, 0] false 0 = [0, 3, 4] := by
  decide +kernel

/-- **C12.a** (second half): the `tol = 0` result is strictly ascending (hence duplicate-free). -/
theorem zc_strict_ascending (v : List ℚ) (hv : v ≠ []) (keepAdj : Bool) :
    (zeroCrossings v keepAdj 0).Pairwise (· < ·) := by
  rw [zeroCrossings_zero]; exact allZc_pairwise v keepAdj

example : (zeroCrossings [-1, 0, 0, 2, -2] false 0) = [0, 1, 4] := by decide +kernel


/-- **C12.b** `zc_tol_sublist`: for `tol > 0` the result is a sublist (order-preserving subsequence) of the
`tol = 0` result (the loop only collects positions `rem_i` that `np.delete` removes). -/
theorem zc_tol_sublist (v : List ℚ) (hv : v ≠ []) (keepAdj : Bool) (tol : ℚ) (htol : 0 < tol) :
    (zeroCrossings v keepAdj tol).Sublist (zeroCrossings v keepAdj 0) :=
  zeroCrossings_sublist v keepAdj tol

example : zeroCrossings [1, -1, 2, -3, 1/4, -1/4, 3] false (3/2) = [2, 3, 6] ∧
    zeroCrossings [1, -1, 2, -3, 1/4, -1/4, 3] false 0 = [0, 1, 2, 3, 4, 5, 6] := by decide +kernel

/-- **C12.c** `switched_shape` (`tol = 0`).  With `gs` the groups formed by the loop over the peaks
(as `(index, value)` pairs):
(i) the result is a sublist of `peaks v`;
(ii) the groups partition the peaks in order;
(iii) every group is non-empty and is either a single zero-valued peak or consists of peaks of one strict sign;
(iv) the runs are maximal: members of neighbouring groups never share a strict sign (`x·y ≤ 0`);
(v) the result lists, group by group, the index of the first member with the largest `|value|`;
(vi) consecutive reported values `x, y` satisfy `x·y ≤ 0`.
(Strict ascent of the result follows from (i) and C11.a for non-constant `v`; for a constant series
`peaks v = [0, 0]` and e.g. `v = [0]` makes the loop report `[0, 0]` — the public function returns `np.unique` of it, `[0]`:
`Props/C12Repair.lean::switched_out_strict_ascending_all`.) -/
theorem switched_shape (v : List ℚ) (hv : v ≠ []) :
    (switchedPeaks v 0).Sublist (peaks v) ∧
    (∃ gs : List (List (ℕ × ℚ)),
      gs.flatten = (peaks v).map (fun p => (p, v.getD p 0)) ∧
      (∀ g ∈ gs, g ≠ [] ∧ ((∃ p, g = [(p, 0)]) ∨ (∀ e ∈ g, 0 < e.2) ∨ (∀ e ∈ g, e.2 < 0))) ∧
      gs.IsChain (fun g g' => ∀ e ∈ g, ∀ e' ∈ g', e.2 * e'.2 ≤ 0) ∧
      List.Forall₂ (fun r g => IsFirstArgmaxAbs g r) (switchedPeaks v 0) gs) ∧
    (switchedPeaks v 0).IsChain (fun a b => v.getD a 0 * v.getD b 0 ≤ 0) := by
  refine ⟨switchedPeaks_sublist_peaks v 0, ⟨switchedGroups v 0, switchedGroups_flatten v 0, ?_,
    groups_chain_members _, ?_⟩, switchedPeaks_chain v⟩
  · intro g hg
    obtain ⟨r, hr⟩ := groups_ok _ g hg
    exact ⟨groups_ne_nil _ _ g hg, hr.classify⟩
  · rw [switchedPeaks_eq, List.forall₂_map_left_iff, List.forall₂_same]
    intro g hg
    exact report_spec g (groups_ne_nil _ _ g hg)

example : peaks [0, 2, 1, 2, -1, 1, 1, 3/10, -1, 0, 0, 1/5, 1, 1/5] = [0, 1, 2, 3, 4, 5, 8, 12, 13] ∧
    switchedPeaks [0, 2, 1, 2, -1, 1, 1, 3/10, -1, 0, 0, 1/5, 1, 1/5] 0 = [0, 1, 4, 5, 8, 12] := by decide +kernel
example : switchedPeaks [5, 1, 3, -1] 0 = [0, 3] := by decide +kernel

/-- C12.c, corollary: the switched result is strictly ascending whenever `peaks v` is — `hpw` is the first conjunct
of C11.a (`(EqsigVerif.Props.C11.peaks_shape v hv).1`, non-constant `v`).  Holds for every `tol`. -/
theorem switched_strict_ascending (v : List ℚ) (hv : v ≠ []) (tol : ℚ)
    (hpw : (EqsigVerif.Model.Peaks.peaks v).Pairwise (· < ·)) :
    (switchedPeaks v tol).Pairwise (· < ·) :=
  hpw.sublist (switchedPeaks_sublist_peaks v tol)

example : (switchedPeaks [5, 1, 3, -1] 0).Pairwise (· < ·) :=
  switched_strict_ascending [5, 1, 3, -1] (by simp) 0 (by decide +kernel)

/-- **C12.d** `switched_global_max`: the global `max |v|` is attained at a reported index.
`hdom` (every sample is dominated in `|·|` by a peak) is the consequence of C11.b proved separately. -/
theorem switched_global_max (v : List ℚ) (hv : v ≠ [])
    (hdom : ∀ i, i < v.length → ∃ p ∈ EqsigVerif.Model.Peaks.peaks v, |v.getD i 0| ≤ |v.getD p 0|) :
    ∃ r ∈ switchedPeaks v 0, ∀ i, i < v.length → |v.getD i 0| ≤ |v.getD r 0| := by
  obtain ⟨m, hm, hmax⟩ := exists_max_of_ne_nil (List.range v.length) (fun i => |v.getD i 0|)
    (by simpa using hv)
  obtain ⟨p, hp, hmp⟩ := hdom m (List.mem_range.1 hm)
  obtain ⟨r, hr, hpr⟩ := peak_le_reported v 0 p hp
  exact ⟨r, hr, fun i hi => le_trans (hmax i (List.mem_range.2 hi)) (le_trans hmp hpr)⟩

/-- non-vacuity: `hdom` holds (by evaluation) on a concrete series, so the theorem applies to it -/
example : ∃ r ∈ switchedPeaks [0, 1/100, 1/10, -3/10, -1/4, -4, 1] 0, ∀ i, i < 7 →
    |([0, 1/100, 1/10, -3/10, -1/4, -4, 1] : List ℚ).getD i 0| ≤ |([0, 1/100, 1/10, -3/10, -1/4, -4, 1] : List ℚ).getD r 0| :=
  switched_global_max [0, 1/100, 1/10, -3/10, -1/4, -4, 1] (by simp) (by decide +kernel)

/-- **C12.f** Full statement (FALSE of code and model): "for `tol > 0` the switched result is a sublist of the
`tol = 0` result".  Refuted below on `v = [0, 1/100, 1/10, -3/10, -1/4, -4, 1]`, `tol = 1/2`
(`tol = 0` → `[0,2,5,6]`, `tol = 1/2` → `[0,3,5,6]`, as the Python code).
Proved instead (`_partial`): for every `tol` (in particular `tol ≥ 0`) the result is a sublist of `peaks v`. -/
theorem switched_tol_sublist_peaks_partial (v : List ℚ) (hv : v ≠ []) (tol : ℚ) (htol : 0 ≤ tol) :
    (switchedPeaks v tol).Sublist (peaks v) :=
  switchedPeaks_sublist_peaks v tol

example : switchedPeaks [0, 1/100, 1/10, -3/10, -1/4, -4, 1] 0 = [0, 2, 5, 6] ∧
    switchedPeaks [0, 1/100, 1/10, -3/10, -1/4, -4, 1] (1/2) = [0, 3, 5, 6] := by decide +kernel

/-- counterexample to the full C12.f statement -/
example : ¬ ∀ (v : List ℚ) (tol : ℚ), v ≠ [] → 0 < tol →
    (switchedPeaks v tol).Sublist (switchedPeaks v 0) := by
  intro h
  have h1 := h [0, 1/100, 1/10, -3/10, -1/4, -4, 1] (1/2) (by simp) (by norm_num)
  have e1 : switchedPeaks [0, 1/100, 1/10, -3/10, -1/4, -4, 1] (1/2) = [0, 3, 5, 6] := by decide +kernel
  have e0 : switchedPeaks [0, 1/100, 1/10, -3/10, -1/4, -4, 1] 0 = [0, 2, 5, 6] := by decide +kernel
  rw [e1, e0] at h1
  revert h1
  decide


/-- **C12.e** `switched_excursions` (`tol = 0`, non-constant series).  `SameExc v i j` says that `i` and `j` lie in the
same excursion: every sample between them (inclusive) has the strict sign of `v[i]`; the excursion of a non-zero
sample `i` is `{j | SameExc v i j}` (a maximal run of samples of one strict sign).
(1) The excursion of every non-zero sample contains exactly one reported index `r`, and `|v[r]|` is the largest
`|value|` of that excursion.  (2) Every reported index is a peak (turning point or end point), and it is either
zero-valued or lies in an excursion (of which it is, by (1), the unique reported index).
The hypotheses `hshape`, `hseg` are, verbatim, the conclusions of C11.a (`EqsigVerif.Props.C11.peaks_shape`) and
of the first conjunct of C11.b (`(EqsigVerif.Props.C11.peaks_segments v hv).1`) for a non-constant series; they are
taken as explicit hypotheses because `Lemmas/Peaks` is built by another agent.
(Constant series are outside C11.a/b: there `peaks v = [0, 0]`, a non-zero constant series reports `[0]`,
the zero series has no excursion; its loop result is `[0, 0]`, which the public function deduplicates to `[0]`.) -/
theorem switched_excursions (v : List ℚ) (hv : v ≠ [])
    (hshape : (peaks v).Pairwise (· < ·) ∧ (peaks v).head? = some 0 ∧
      ∃ k, (peaks v).getLast? = some k ∧ 0 < k ∧ k < v.length ∧ v.getD (k-1) 0 ≠ v.getD k 0 ∧
        ∀ j, k ≤ j → j < v.length → v.getD j 0 = v.getD k 0)
    (hseg : ∀ k, k + 1 < (peaks v).length →
      (v.getD ((peaks v).getD k 0) 0 < v.getD ((peaks v).getD (k+1) 0) 0 ∧
        ∀ s t, (peaks v).getD k 0 ≤ s → s ≤ t → t ≤ (peaks v).getD (k+1) 0 → v.getD s 0 ≤ v.getD t 0) ∨
      (v.getD ((peaks v).getD (k+1) 0) 0 < v.getD ((peaks v).getD k 0) 0 ∧
        ∀ s t, (peaks v).getD k 0 ≤ s → s ≤ t → t ≤ (peaks v).getD (k+1) 0 → v.getD t 0 ≤ v.getD s 0)) :
    (∀ i, i < v.length → v.getD i 0 ≠ 0 →
      ∃ r ∈ switchedPeaks v 0, SameExc v i r ∧
        (∀ j, j < v.length → SameExc v i j → |v.getD j 0| ≤ |v.getD r 0|) ∧
        ∀ r' ∈ switchedPeaks v 0, SameExc v i r' → r' = r) ∧
    (∀ r ∈ switchedPeaks v 0, r ∈ peaks v ∧ (v.getD r 0 = 0 ∨ SameExc v r r)) := by
  refine ⟨fun i hi hne => excursion_reported v hshape hseg i hi hne, ?_⟩
  intro r hr
  refine ⟨(switchedPeaks_sublist_peaks v 0).subset hr, ?_⟩
  by_cases h : v.getD r 0 = 0
  · exact Or.inl h
  · exact Or.inr (SameExc.refl h)

/-- non-vacuity: the C11 hypotheses hold on `[1, 2, -1, -3, -3]` (`peaks = [0, 1, 3]`), so the theorem applies -/
example : ∃ r ∈ switchedPeaks [1, 2, -1, -3, -3] 0, SameExc [1, 2, -1, -3, -3] 2 r := by
  have hP : peaks [1, 2, -1, -3, -3] = [0, 1, 3] := by decide +kernel
  have h := switched_excursions [1, 2, -1, -3, -3] (by simp) ?shape ?seg
  · obtain ⟨r, hr, hs, _⟩ := h.1 2 (by decide) (by decide +kernel)
    exact ⟨r, hr, hs⟩
  case shape =>
    rw [hP]
    refine ⟨by decide, by decide, 3, by decide, by decide, by decide, by decide +kernel, ?_⟩
    intro j h1 h2
    have : j = 3 ∨ j = 4 := by simp at h2; omega
    rcases this with rfl | rfl <;> rfl
  case seg =>
    rw [hP]
    intro k hk
    have : k = 0 ∨ k = 1 := by simp at hk; omega
    rcases this with rfl | rfl
    · refine Or.inl ⟨by decide +kernel, ?_⟩
      intro s t h1 h2 h3
      have hs : s = 0 ∨ s = 1 := by simp at h1 h3; omega
      have ht : t = 0 ∨ t = 1 := by simp at h1 h3; omega
      rcases hs with rfl | rfl <;> rcases ht with rfl | rfl <;> first | (exfalso; omega) | decide +kernel
    · refine Or.inr ⟨by decide +kernel, ?_⟩
      intro s t h1 h2 h3
      have hs : s = 1 ∨ s = 2 ∨ s = 3 := by simp at h1 h3; omega
      have ht : t = 1 ∨ t = 2 ∨ t = 3 := by simp at h1 h3; omega
      rcases hs with rfl | rfl | rfl <;> rcases ht with rfl | rfl | rfl <;>
        first | (exfalso; omega) | decide +kernel


/-- C12.e, complement for constant series (not covered by C11.a/b), about the **loop** `switchedPeaks` (the local
`switched_peak_indices` of the Python code): a non-zero constant series is a single excursion and reports exactly index `0`;
for the zero series the loop reports `[0, 0]` (`peaks = [0, 0]`, two zero-valued groups).  The public function now deduplicates
(`return np.unique(switched_peak_indices)`, repair of finding F12-3): it returns `[0]` for every constant series, see
`Props/C12Repair.lean::switched_out_const` / `switched_out_zero_series`; this theorem stays true of the loop. -/
theorem switched_const (c : ℚ) (n : ℕ) :
    switchedPeaks (List.replicate (n+1) c) 0 = if c = 0 then [0, 0] else [0] :=
  switchedPeaks_replicate c n

example : switchedPeaks [3, 3, 3] 0 = [0] ∧ switchedPeaks [0, 0] 0 = [0, 0] := by decide +kernel

end EqsigVerif.Props.C12
