import EqsigVerif.Model.Switched
import EqsigVerif.Lemmas.Switched

/-!
# C12 — Zero crossings and per-half-cycle (switched) peaks are exact

Python: `eqsig/fns/peaks_and_crossings.py`, `get_zero_crossings_array_indices`, `get_switched_peak_array_indices`
(tree with the planned fixes).  Model: `EqsigVerif/Model/Switched.lean`.  `v[i]` is written `v.getD i 0`.
All theorems are stated under the guard `v ≠ []` (the code raises `IndexError` on an empty series).
-/
namespace EqsigVerif.Props.C12
open EqsigVerif EqsigVerif.Model.Switched EqsigVerif.Model.Peaks

/-- **C12.a** `zc_spec` (`tol = 0`): index `i` is reported iff it is in range and is index `0`, or an exact zero
(with `keep_adj_zeros = False`: only a zero whose predecessor is non-zero, i.e. the first of each run of
zeros), or the first sample after a strict sign change.
Remarks on the code: (1) index `0` is always reported, so a leading run of zeros contributes exactly index `0`
when `keepAdj = false`; (2) the guard `len(zero_indices) > 1` has no observable effect: with exactly one zero
the unpruned set already equals what the pruning would return (`ediff1d(to_begin=10)` always keeps the first). -/
theorem zc_spec (v : List ℚ) (hv : v ≠ []) (keepAdj : Bool) (i : Nat) :
    i ∈ zeroCrossings v keepAdj 0 ↔
      i < v.length ∧
        (i = 0 ∨ (v.getD i 0 = 0 ∧ (keepAdj = true ∨ v.getD (i - 1) 0 ≠ 0)) ∨
          (0 < i ∧ v.getD (i - 1) 0 * v.getD i 0 < 0)) := by
  have hlen : 0 < v.length := List.length_pos_of_ne_nil hv
  rw [zeroCrossings_zero, mem_allZc, mem_zeroSel, mem_throughZeroIdx]
  constructor
  · rintro (rfl | ⟨h1, h2, h3⟩ | ⟨h1, h2⟩)
    · exact ⟨hlen, Or.inl rfl⟩
    · refine ⟨h1, ?_⟩
      rcases h3 with h3 | h3 | h3
      · exact Or.inr (Or.inl ⟨h2, Or.inl h3⟩)
      · exact Or.inl h3
      · exact Or.inr (Or.inl ⟨h2, Or.inr h3⟩)
    · refine ⟨h1, ?_⟩
      rcases h2 with ⟨h2, _⟩ | h2
      · exact Or.inl h2
      · exact Or.inr (Or.inr h2)
  · rintro ⟨h1, rfl | ⟨h2, h3⟩ | h2⟩
    · exact Or.inl rfl
    · refine Or.inr (Or.inl ⟨h1, h2, ?_⟩)
      rcases h3 with h3 | h3
      · exact Or.inl h3
      · exact Or.inr (Or.inr h3)
    · exact Or.inr (Or.inr ⟨h1, Or.inr h2⟩)

example : zeroCrossings [0, 2, 1, 2, -1, 1, 0, 0, 1, 3/10, 0, -1, 1/5, 1, 1/5] false 0 = [0, 4, 5, 6, 10, 12] := by
  decide +kernel
example : zeroCrossings [0, 0, 1, -1, 0, 0] true 0 = [0, 1, 3, 4, 5] ∧ zeroCrossings [0, 0, 1, -1, 0, 0] false 0 = [0, 3, 4] := by
  decide +kernel

/-- **C12.a** (second half): the `tol = 0` result is strictly ascending (hence duplicate-free). -/
theorem zc_strict_ascending (v : List ℚ) (keepAdj : Bool) :
    (zeroCrossings v keepAdj 0).Pairwise (· < ·) := by
  rw [zeroCrossings_zero]; exact allZc_pairwise v keepAdj

example : (zeroCrossings [-1, 0, 0, 2, -2] false 0) = [0, 1, 4] := by decide +kernel

end EqsigVerif.Props.C12
