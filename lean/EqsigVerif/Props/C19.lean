import EqsigVerif.Model.Surface
import EqsigVerif.Model.TimeShift
import EqsigVerif.Lemmas.Interp
import EqsigVerif.Lemmas.TimeShift
import EqsigVerif.Lemmas.Surface
/-!
# C19 — Surface-energy and time-shift utilities match the shifted-wave definition

Models: `EqsigVerif/Model/Surface.lean`, `EqsigVerif/Model/TimeShift.lean`.
Spec vocabulary (in `Lemmas/`): `shiftedRow values se ee j = 0^(se+j) ++ values ++ 0^(ee−j)`,
`clipRow clip npts se row`, `delayed values s width` (= `D_s a`: delay by `s` samples, linear interpolation, zero fill).
-/
namespace EqsigVerif.Props.C19
open EqsigVerif.Np EqsigVerif.Interp
open EqsigVerif.Model.Surface EqsigVerif.Model.TimeShift
open EqsigVerif.Model.TimeStep (truncZ)

/-! ## C19.e — `put_array_in_2d_array`, `join_values_w_shifts` -/

/-- **C19.e** `put2d_spec`.  For a non-empty integer shift vector, `start_extras = se`, `end_extras = ee` are the
least naturals with `−se ≤ shifts[i] ≤ ee`; `put_array_in_2d_array` never raises and row `i` is
`0^(se+shifts[i]) ++ values ++ 0^(ee−shifts[i])` (width `npts + se + ee`) cut by `clip`:
`none` — whole row; `end` — first `npts + se` entries; `start` — without the first `se`; `both` — both cuts
(width `npts`). -/
theorem put2d_spec (values : List ℚ) (shifts : List ℤ) (clip : Clip) (hne : shifts ≠ []) :
    ∃ se ee : ℕ,
      (∀ j ∈ shifts, -(se : ℤ) ≤ j ∧ j ≤ (ee : ℤ)) ∧
      (ee = 0 ∨ (ee : ℤ) ∈ shifts) ∧ (se = 0 ∨ -(se : ℤ) ∈ shifts) ∧
      put2d values shifts clip =
        .ok (shifts.map (fun j => clipRow clip values.length se (shiftedRow values se ee j))) := by
  obtain ⟨se, ee, -, hb, hee, hse, h⟩ := EqsigVerif.Model.TimeShift.put2d_spec values shifts clip hne
  exact ⟨se, ee, hb, hee, hse, h⟩

example : put2d [1, 2, 3] [-1, 0, 2] .both = .ok [[2, 3, 0], [1, 2, 3], [0, 0, 1]] ∧
    put2d [1, 2, 3] [-1, 0, 2] .none = .ok [[1, 2, 3, 0, 0, 0], [0, 1, 2, 3, 0, 0], [0, 0, 0, 1, 2, 3]] := by
  decide +kernel

/-- **C19.e (entries)** `row[se + shifts[i] + t] = values[t]`, zero elsewhere — for every index `k`
(`getD`: also `0` outside the row). -/
theorem put2d_row_entries (values : List ℚ) (se ee : ℕ) (j : ℤ) (h : -(se : ℤ) ≤ j) (k : ℕ) :
    (shiftedRow values se ee j).getD k 0 =
      if (se : ℤ) + j ≤ (k : ℤ) ∧ (k : ℤ) < (se : ℤ) + j + (values.length : ℤ)
      then values.getD (k - ((se : ℤ) + j).toNat) 0 else 0 :=
  shiftedRow_getD values se ee j h k

example : (shiftedRow [1, 2, 3] 1 2 (-1)).getD 2 0 = 3 ∧ (shiftedRow [1, 2, 3] 1 2 2).getD 2 0 = 0 := by
  decide +kernel

/-- **C19.e (widths)** `npts + se + ee` (`none`), `npts + se` (`end`), `npts + ee` (`start`), `npts` (`both`). -/
theorem put2d_width (values : List ℚ) (se ee : ℕ) (j : ℤ) (clip : Clip) (h1 : -(se : ℤ) ≤ j) (h2 : j ≤ (ee : ℤ)) :
    (clipRow clip values.length se (shiftedRow values se ee j)).length =
      match clip with
      | .none => values.length + se + ee
      | .end => values.length + se
      | .start => values.length + ee
      | .both => values.length := by
  have hl := length_shiftedRow values se ee j h1 h2
  cases clip <;> simp only [clipRow, List.length_take, List.length_drop, hl] <;> omega

example : (clipRow .start 3 1 (shiftedRow [1, 2, 3] 1 2 (-1))).length = 5 := by decide +kernel

/-- **C19.e (join)** for non-negative shifts `join_values_w_shifts` is `a⁰ ± shifted`:
row `i` = `(±(0^s ++ values ++ 0^(mx−s))) + (values ++ 0^mx)` with `mx = max shifts`. -/
theorem join_spec (values : List ℚ) (shifts : List ℤ) (jt : JType) (hne : shifts ≠ [])
    (hnn : ∀ j ∈ shifts, 0 ≤ j) :
    ∃ mx : ℕ, (mx : ℤ) ∈ shifts ∧ (∀ j ∈ shifts, j ≤ (mx : ℤ)) ∧
      joinValuesWShifts values shifts jt = .ok (shifts.map (fun j =>
        List.zipWith (· + ·)
          (match jt with
            | .add => shiftedRow values 0 mx j
            | .sub => (shiftedRow values 0 mx j).map (- ·))
          (values ++ List.replicate mx 0))) := by
  obtain ⟨mx, -, h1, h2, h3⟩ := join_nonneg values shifts jt hne hnn
  exact ⟨mx, h1, h2, h3⟩

example : joinValuesWShifts [5, 1] [1, 2] .sub = .ok [[5, -4, -1, 0], [5, 1, -5, -1]] := by decide +kernel

/-- **C19.e (domain)** a negative shift makes the two widths differ and NumPy broadcasting fail:
for records of at least two samples the model (like the impl [observed]) raises `ValueError`. -/
theorem join_negative_shift_raises (values : List ℚ) (shifts : List ℤ) (jt : JType)
    (hneg : ∃ j ∈ shifts, j < 0) (hlen : 2 ≤ values.length) :
    joinValuesWShifts values shifts jt = .error .ValueError :=
  join_negative_raises values shifts jt hneg hlen

example : joinValuesWShifts [5, 1] [-1, 0] .add = .error .ValueError := by decide +kernel

/-! ## C19.b — integer delays -/

/-- **C19.b** integer delay: for `2·tt/dt = s ∈ ℕ` (`s ≤ max_shift = ms`) the interpolated down-going wave on the
padded length `npts + ms` is exactly `0^s ++ a ++ 0^(ms−s)` … -/
theorem integer_delay (values : List ℚ) (s ms : ℕ) (h : s ≤ ms) :
    delayed values (s : ℚ) (values.length + ms) =
      List.replicate s 0 ++ values ++ List.replicate (ms - s) 0 := by
  rw [delayed_nat values s ms h, shiftedRow_zero_nat]

example : delayed [1, 2, 3] ((2 : ℕ) : ℚ) (3 + 3) = [0, 0, 1, 2, 3, 0] := by decide +kernel

/-- … which is the row `put_array_in_2d_array(values, shifts)` produces: for natural shifts the un-clipped 2-D array
equals the array of delayed records on the width `npts + max(shifts)`. -/
theorem integer_delay_eq_put2d (values : List ℚ) (shifts : List ℕ) (hne : shifts ≠ []) :
    ∃ ms : ℕ, ms ∈ shifts ∧ (∀ s ∈ shifts, s ≤ ms) ∧
      put2d values (shifts.map (fun (s : ℕ) => (s : ℤ))) .none =
        .ok (shifts.map (fun (s : ℕ) => delayed values (s : ℚ) (values.length + ms))) := by
  have hne' : shifts.map (fun (s : ℕ) => (s : ℤ)) ≠ [] := by
    intro h; exact hne (List.map_eq_nil_iff.mp h)
  obtain ⟨se, ee, -, hb, hee, hse, h⟩ := EqsigVerif.Model.TimeShift.put2d_spec values (shifts.map (fun (s : ℕ) => (s : ℤ))) .none hne'
  have hse0 : se = 0 := by
    rcases hse with h | h
    · exact h
    · simp only [List.mem_map] at h
      obtain ⟨s, _, hs⟩ := h; omega
  subst hse0
  have hle : ∀ s ∈ shifts, s ≤ ee := by
    intro s hs
    have := (hb (s : ℤ) (by simp only [List.mem_map]; exact ⟨s, hs, rfl⟩)).2
    omega
  have hmem : ee ∈ shifts := by
    rcases hee with h0 | h0
    · obtain ⟨s, hs⟩ := List.exists_mem_of_ne_nil shifts hne
      have := hle s hs
      have : s = ee := by omega
      rw [← this]; exact hs
    · simp only [List.mem_map] at h0
      obtain ⟨s, hs, hs'⟩ := h0
      have : s = ee := by omega
      rw [← this]; exact hs
  refine ⟨ee, hmem, hle, ?_⟩
  rw [h, List.map_map]
  congr 1
  apply List.map_congr_left
  intro s hs
  simp only [Function.comp, clipRow]
  rw [delayed_nat values s ee (hle s hs)]

example : put2d [1, 2, 3] [0, 2, 1] .none = .ok ([0, 2, 1].map (fun (s : ℕ) => delayed [1, 2, 3] (s : ℚ) (3 + 2))) := by
  decide +kernel

/-! ## C19.a — definition of the surface energy

Guard used throughout (exactly what makes the code reach `trim_to_length`): `dt ≠ 0`, a non-empty record,
`maxShift tts dt = .ok ms` (at least one travel time and `max_shift = int(max(2·tt/dt)) = ms ≥ 0`, otherwise `np.max` /
`np.pad` raise), and `RedOK red m`: reductions are Python scalars or arrays with one entry per travel time.
`upOf red i`, `downOf red i` are the factors of row `i`;
`specRows values dt tts nodal red ms` = rows `energyRow values dt ms (2·ttᵢ/dt) nodal uᵢ dᵢ`, `i < len(tts)`;
`specAccRows` likewise with `accRow`. -/

/-- **C19.a** `surface_energy_def`.
`calc_surface_energy` is `trim_to_length` + squeeze applied to the rows `energyRow`, where
`energyRow = ½·v·|v|`, `v = cumtrapz(accRow, dx=dt)`, `accRow[k] = up_red·a⁰[k] ∓ down_red·(D_{2tt/dt} a)[k]`
(see `energy_row_entry`, `acc_row_entry`, `delay_between`, `delay_outside`, `integer_delay`); untrimmed
(`trim=False, start=False`) it is exactly those rows. -/
theorem surface_energy_def (values : List ℚ) (dt : ℚ) (tts : List ℚ) (nodal : Bool) (red : Red) (ms : ℕ)
    (stt : ℚ) (trim start : Bool)
    (hdt : dt ≠ 0) (hv : values ≠ []) (hms : maxShift tts dt = .ok ms) (hred : RedOK red tts.length) :
    calcSurfaceEnergy values dt tts nodal red stt trim start =
      (trimToLength (specRows values dt tts nodal red ms) values.length tts dt trim start stt)
        >>= squeeze tts.length ∧
    calcSurfaceEnergy values dt tts nodal red stt false false =
      squeeze tts.length (specRows values dt tts nodal red ms) := by
  have h := calcSurfaceEnergy_general values dt tts nodal red ms stt
  refine ⟨h trim start hdt hv hms hred, ?_⟩
  rw [h false false hdt hv hms hred, trimToLength_none _ _ _ _ _ hdt]
  rfl

example : maxShift [1/8, 1/4] (1/2) = .ok 1 ∧ RedOK (.rows [1, 1/2] [1/2, 2]) 2 ∧
    calcSurfaceEnergy [1, 2, -1] (1/2) [1/8, 1/4] true (.rows [1, 1/2] [1/2, 2]) 0 false false =
      .ok (.rows [energyRow [1, 2, -1] (1/2) 1 (1/2) true 1 (1/2), energyRow [1, 2, -1] (1/2) 1 1 true (1/2) 2]) :=
  ⟨by decide +kernel, ⟨rfl, rfl⟩, by decide +kernel⟩

/-- scalar reductions: the rows are `tts.map (fun t => energyRow … (2·t/dt) … up_red down_red)` -/
theorem surface_energy_def_scalar (values : List ℚ) (dt : ℚ) (tts : List ℚ) (nodal : Bool) (u d : ℚ) (ms : ℕ)
    (stt : ℚ) (hdt : dt ≠ 0) (hv : values ≠ []) (hms : maxShift tts dt = .ok ms) :
    calcSurfaceEnergy values dt tts nodal (.scalar u d) stt false false =
      squeeze tts.length (tts.map (fun t => energyRow values dt ms (2 * t / dt) nodal u d)) := by
  rw [(surface_energy_def values dt tts nodal (.scalar u d) ms stt false false hdt hv hms trivial).2,
    specRows_scalar]

example : calcSurfaceEnergy [1, 2, -1] (1/2) [1/8, 1/4] true (.scalar 1 1) 0 false false =
      .ok (.rows [energyRow [1, 2, -1] (1/2) 1 (1/2) true 1 1, energyRow [1, 2, -1] (1/2) 1 1 true 1 1]) := by
  decide +kernel

/-- `get_time_shift_motions` returns the (trimmed, squeezed) acceleration rows themselves -/
theorem time_shift_motions_def (values : List ℚ) (dt : ℚ) (tts : List ℚ) (nodal : Bool) (red : Red) (ms : ℕ)
    (stt : ℚ) (trim start : Bool)
    (hdt : dt ≠ 0) (hv : values ≠ []) (hms : maxShift tts dt = .ok ms) (hred : RedOK red tts.length) :
    getTimeShiftMotions values dt tts nodal red stt trim start =
      (trimToLength (specAccRows values dt tts nodal red ms) values.length tts dt trim start stt)
        >>= squeeze tts.length :=
  getTimeShiftMotions_general values dt tts nodal red ms stt trim start hdt hv hms hred

example : getTimeShiftMotions [1, 2, -1] (1/2) [1/8] true (.scalar 1 1) 0 false false =
    .ok (.row (accRow [1, 2, -1] 0 (1/2) true 1 1)) := by decide +kernel

/-- **C19.a (energy entries)** `e[k] = ½·v[k]·|v[k]|` with `v = cumulative_trapezoid(acc, dx=dt, initial=0)` -/
theorem energy_row_entry (values : List ℚ) (dt : ℚ) (ms : ℕ) (s : ℚ) (nodal : Bool) (u d : ℚ) (k : ℕ) :
    (energyRow values dt ms s nodal u d)[k]? =
      ((cumtrapz dt (accRow values ms s nodal u d))[k]?).map (fun v => (1 / 2) * v * |v|) := by
  simp only [energyRow, List.getElem?_map]
  congr 1
  funext v
  simp [halfVAbsV, absv_eq_abs]

example : (energyRow [1, 2, -1] (1/2) 1 (1/2) true 1 1)[(2 : ℕ)]? = some ((1/128 : ℚ)) := by decide +kernel

/-- **C19.a (acceleration entries)** `acc[k] = up_red·a⁰[k] ∓ down_red·(D_s a)[k]` for `k < npts + ms`, where
`a⁰[k] = values.getD k 0` is the zero-padded record and
`(D_s a)[k] = np.interp(k − s, arange(npts), values, left=0, right=0)`. -/
theorem acc_row_entry (values : List ℚ) (ms : ℕ) (s : ℚ) (nodal : Bool) (u d : ℚ) (k : ℕ)
    (hk : k < values.length + ms) :
    (accRow values ms s nodal u d)[k]? =
      some (u * values.getD k 0 + (if nodal then -1 else 1) * (d * interpUnit values 0 0 ((k : ℚ) - s))) := by
  have hk' : k < (accRow values ms s nodal u d).length := by simpa using hk
  rw [List.getElem?_eq_getElem hk']
  simp only [accRow, List.getElem_zipWith, delayed_getElem]
  congr 3
  by_cases hkn : k < values.length
  · rw [List.getElem_append_left hkn, getD_of_lt _ _ hkn]
  · rw [List.getElem_append_right (not_lt.mp hkn), getD_of_le _ _ (not_lt.mp hkn)]
    simp

example : (accRow [1, 2, -1] 1 (1/2) true 1 1)[(1 : ℕ)]? =
    some ((1 * 2 + (-1) * (1 * ((1 - 1/2) * 1 + (1/2) * 2)) : ℚ)) := by
  decide +kernel

/-- **C19.a (fractional delay)** `(D_s a)[k]` is the linear interpolation of the record at `k − s`:
for `k − s = j + θ`, `0 ≤ θ < 1`, `j + 1 < npts`: `(1 − θ)·a[j] + θ·a[j+1]`. -/
theorem delay_between (values : List ℚ) (s : ℚ) (w k j : ℕ) (θ : ℚ) (hk : k < w)
    (hj : j + 1 < values.length) (h0 : 0 ≤ θ) (h1 : θ < 1) (hks : (k : ℚ) - s = (j : ℚ) + θ) :
    (delayed values s w)[k]'(by simpa using hk) = (1 - θ) * values[j] + θ * values[j + 1] := by
  rw [delayed_getElem, hks, interpUnit_between _ _ _ j θ hj h0 h1, getD_of_lt _ _ (by omega), getD_of_lt _ _ hj]

/-- **C19.a (zero fill)** `(D_s a)[k] = 0` before the delayed record starts (`k < s`) and after it ends
(`k − s > npts − 1`). -/
theorem delay_outside (values : List ℚ) (s : ℚ) (w k : ℕ) (hk : k < w) (hne : values ≠ [])
    (hout : (k : ℚ) < s ∨ ((values.length - 1 : ℕ) : ℚ) < (k : ℚ) - s) :
    (delayed values s w)[k]'(by simpa using hk) = 0 := by
  rw [delayed_getElem]
  rcases hout with h | h
  · exact interpUnit_left _ _ _ _ hne (by linarith)
  · exact interpUnit_right _ _ _ _ hne h

example : delayed [1, 2, -1] (1/2) 4 = [0, 3/2, 1/2, 0] := by decide +kernel

/-! ## C19.c — cumulative absolute change, lengths -/

/-- **C19.c (monotone)** every row of `calc_cum_abs_surface_energy` is non-decreasing (any reductions, any
options, no guard needed). -/
theorem cum_abs_monotone (values : List ℚ) (dt : ℚ) (tts : List ℚ) (nodal : Bool) (red : Red)
    (stt : ℚ) (trim start : Bool) (out : Out)
    (h : calcCumAbsSurfaceEnergy values dt tts nodal red stt trim start = .ok out) :
    ∀ r ∈ out.rowsList, r.Pairwise (· ≤ ·) := by
  unfold calcCumAbsSurfaceEnergy at h
  cases he : calcSurfaceEnergy values dt tts nodal red stt trim start with
  | error e => rw [he] at h; cases h
  | ok e =>
    rw [he] at h
    cases e with
    | row r =>
      have : out = .row (cumAbsRow r) := by
        have h' : (Except.ok (Out.row (cumAbsRow r)) : Except _ Out) = .ok out := h
        injection h' with h''; exact h''.symm
      subst this
      intro r' hr'
      simp only [Out.rowsList, List.mem_singleton] at hr'
      subst hr'; exact cumAbsRow_pairwise r
    | rows rs =>
      have : out = .rows (rs.map cumAbsRow) := by
        have h' : (Except.ok (Out.rows (rs.map cumAbsRow)) : Except _ Out) = .ok out := h
        injection h' with h''; exact h''.symm
      subst this
      intro r' hr'
      simp only [Out.rowsList, List.mem_map] at hr'
      obtain ⟨r, _, rfl⟩ := hr'
      exact cumAbsRow_pairwise r

example : calcCumAbsSurfaceEnergy [1, 2, -1, 3] (1/2) [1/2] true (.scalar 1 1) (1/2) false false =
    .ok (.row [0, 9/32, 9/32, 7/16, 13/16, 19/16]) := by decide +kernel

/-- **C19.c (lengths)** option table of `trim_to_length`: whenever `calc_surface_energy` returns, every row has length
`npts + max_shift` (`trim=False, start=False`), `npts` (`trim=True`), `npts + extras` (`start=True, trim=False`,
`extras = max(max(sis),0) − min(min(2·s2d),0)` as computed by `trimWidth`). -/
theorem surface_energy_lengths (values : List ℚ) (dt : ℚ) (tts : List ℚ) (nodal : Bool) (red : Red) (ms : ℕ)
    (stt : ℚ) (trim start : Bool) (out : Out)
    (hdt : dt ≠ 0) (hv : values ≠ []) (hms : maxShift tts dt = .ok ms) (hred : RedOK red tts.length)
    (h : calcSurfaceEnergy values dt tts nodal red stt trim start = .ok out) :
    ∀ r ∈ out.rowsList,
      (trim = false ∧ start = false → r.length = values.length + ms) ∧
      (trim = true → r.length = values.length) ∧
      (trim = false ∧ start = true →
        ∃ w, trimWidth values.length tts dt trim start stt = .ok w ∧ values.length ≤ w ∧ r.length = w) := by
  rw [(surface_energy_def values dt tts nodal red ms stt trim start hdt hv hms hred).1] at h
  cases ht : trimToLength (specRows values dt tts nodal red ms) values.length tts dt trim start stt with
  | error e => rw [ht] at h; cases h
  | ok rows =>
    rw [ht] at h
    have hsq : squeeze tts.length rows = .ok out := h
    intro r hr
    have hrr := squeeze_rows _ _ _ hsq r hr
    by_cases hts : trim = true ∨ start = true
    · obtain ⟨w, hw, -, hall⟩ := trimToLength_inv _ _ _ _ _ _ _ _ hts ht
      have hrl := (hall r hrr).1
      refine ⟨fun hc => ?_, fun hc => ?_, fun hc => ?_⟩
      · rcases hts with h1 | h1
        · rw [hc.1] at h1; cases h1
        · rw [hc.2] at h1; cases h1
      · rw [hrl]
        subst hc
        simp only [trimWidth, Bool.not_true, Bool.and_false, Bool.false_eq_true, if_false] at hw
        injection hw with hw'; exact hw'.symm
      · refine ⟨w, hw, ?_, hrl⟩
        obtain ⟨rfl, rfl⟩ := hc
        simp only [trimWidth, Bool.not_false, Bool.and_true, if_true] at hw
        split at hw
        · cases hw
        · injection hw with hw'; omega
    · have hc : trim = false ∧ start = false := by
        cases trim <;> cases start <;> simp_all
      obtain ⟨rfl, rfl⟩ := hc
      rw [trimToLength_none _ _ _ _ _ hdt] at ht
      have : rows = specRows values dt tts nodal red ms := by
        injection ht with ht'; exact ht'.symm
      subst this
      refine ⟨fun _ => specRows_row_length _ _ _ _ _ _ r hrr, fun hc => (by cases hc), fun hc => (by cases hc.2)⟩

example : calcSurfaceEnergy [1, 2, -1, 3] (1/2) [1/4, 1/2] true (.scalar 1 1) 1 false true
    = .ok (.rows [[0, 0, 0, 1/8, 0, 1/32], [0, 0, 9/32, 9/32, 1/8, 1/2]]) ∧
    trimWidth 4 [1/4, 1/2] (1/2) false true 1 = .ok 6 := by decide +kernel

/-- **C19.c (zero)** zero travel time(s), nodal surface, equal reductions (`up_red[i] = down_red[i]`): up- and
down-going waves cancel, the surface energy is identically zero (whatever `stt`, `trim`, `start`, whenever the call
returns) … -/
theorem surface_energy_zero (values : List ℚ) (dt : ℚ) (tts : List ℚ) (red : Red) (stt : ℚ) (trim start : Bool)
    (out : Out)
    (hdt : dt ≠ 0) (hv : values ≠ []) (hne : tts ≠ []) (h0 : ∀ t ∈ tts, t = 0)
    (hred : RedOK red tts.length) (heq : ∀ i < tts.length, upOf red i = downOf red i)
    (h : calcSurfaceEnergy values dt tts true red stt trim start = .ok out) :
    ∀ r ∈ out.rowsList, ∀ v ∈ r, v = 0 := by
  have hms := maxShift_zero tts dt hne h0
  rw [(surface_energy_def values dt tts true red 0 stt trim start hdt hv hms hred).1] at h
  have hrows0 : ∀ row ∈ specRows values dt tts true red 0, ∀ v ∈ row, v = 0 := by
    intro row hrow
    obtain ⟨i, hi, rfl⟩ := List.mem_map.mp hrow
    have hi' : i < tts.length := by simpa using hi
    have ht0 : tts.getD i 0 = 0 := h0 _ (getD_mem tts i hi')
    have : (2 : ℚ) * tts.getD i 0 / dt = 0 := by rw [ht0]; simp
    rw [this, heq i hi']; exact energyRow_zero values dt _
  cases ht : trimToLength (specRows values dt tts true red 0) values.length tts dt trim start stt with
  | error e => rw [ht] at h; cases h
  | ok rows =>
    rw [ht] at h
    have hsq : squeeze tts.length rows = .ok out := h
    intro r hr v hv'
    have hrr := squeeze_rows _ _ _ hsq r hr
    by_cases hts : trim = true ∨ start = true
    · obtain ⟨w, -, -, hall⟩ := trimToLength_inv _ _ _ _ _ _ _ _ hts ht
      rcases (hall r hrr).2 v hv' with hz | ⟨row, hrow, hvr⟩
      · exact hz
      · exact hrows0 row hrow v hvr
    · have hc : trim = false ∧ start = false := by
        cases trim <;> cases start <;> simp_all
      obtain ⟨rfl, rfl⟩ := hc
      rw [trimToLength_none _ _ _ _ _ hdt] at ht
      have : rows = specRows values dt tts true red 0 := by
        injection ht with ht'; exact ht'.symm
      subst this
      exact hrows0 r hrr v hv'

/-- … and so is its cumulative absolute change. -/
theorem cum_abs_zero (values : List ℚ) (dt : ℚ) (tts : List ℚ) (red : Red) (stt : ℚ) (trim start : Bool) (out : Out)
    (hdt : dt ≠ 0) (hv : values ≠ []) (hne : tts ≠ []) (h0 : ∀ t ∈ tts, t = 0)
    (hred : RedOK red tts.length) (heq : ∀ i < tts.length, upOf red i = downOf red i)
    (h : calcCumAbsSurfaceEnergy values dt tts true red stt trim start = .ok out) :
    ∀ r ∈ out.rowsList, ∀ v ∈ r, v = 0 := by
  unfold calcCumAbsSurfaceEnergy at h
  cases he : calcSurfaceEnergy values dt tts true red stt trim start with
  | error e => rw [he] at h; cases h
  | ok e =>
    rw [he] at h
    have hz := surface_energy_zero values dt tts red stt trim start e hdt hv hne h0 hred heq he
    cases e with
    | row r =>
      have : out = .row (cumAbsRow r) := by
        have h' : (Except.ok (Out.row (cumAbsRow r)) : Except _ Out) = .ok out := h
        injection h' with h''; exact h''.symm
      subst this
      intro r' hr'
      simp only [Out.rowsList, List.mem_singleton] at hr'
      subst hr'
      exact cumAbsRow_allZero r (hz r (by simp [Out.rowsList]))
    | rows rs =>
      have : out = .rows (rs.map cumAbsRow) := by
        have h' : (Except.ok (Out.rows (rs.map cumAbsRow)) : Except _ Out) = .ok out := h
        injection h' with h''; exact h''.symm
      subst this
      intro r' hr'
      simp only [Out.rowsList, List.mem_map] at hr'
      obtain ⟨r, hr, rfl⟩ := hr'
      exact cumAbsRow_allZero r (hz r (by simpa [Out.rowsList] using hr))

example : calcCumAbsSurfaceEnergy [1, 2, -1, 3] (1/2) [0] true (.scalar (3/4) (3/4)) (1/2) true true =
      .ok (.row [0, 0, 0, 0]) ∧
    calcCumAbsSurfaceEnergy [1, 2, -1, 3] (1/2) [0, 0] true (.rows [3/4, 2] [3/4, 2]) 0 false false =
      .ok (.rows [[0, 0, 0, 0], [0, 0, 0, 0]]) := by decide +kernel

/-- **C19.c (scaling)** scaling the record by any `α` (also negative) scales the cumulative absolute change by `α²`,
entry by entry, and leaves the outcome (returns / raises) unchanged.
`Out.map g` applies `g` to every sample of a 1-D or 2-D result. -/
theorem cum_abs_scaling (α : ℚ) (values : List ℚ) (dt : ℚ) (tts : List ℚ) (nodal : Bool) (red : Red)
    (ms : ℕ) (stt : ℚ) (trim start : Bool)
    (hdt : dt ≠ 0) (hv : values ≠ []) (hms : maxShift tts dt = .ok ms) (hred : RedOK red tts.length) :
    calcCumAbsSurfaceEnergy (values.map (α * ·)) dt tts nodal red stt trim start
      = (calcCumAbsSurfaceEnergy values dt tts nodal red stt trim start).map (Out.map ((α ^ 2) * ·)) :=
  calcCumAbs_smul_general α values dt tts nodal red ms stt trim start hdt hv hms hred

/-- the signed surface energy itself scales with `α·|α|` (it is `½·v·|v|`, odd in `v`) -/
theorem surface_energy_scaling (α : ℚ) (values : List ℚ) (dt : ℚ) (tts : List ℚ) (nodal : Bool) (red : Red)
    (ms : ℕ) (stt : ℚ) (trim start : Bool)
    (hdt : dt ≠ 0) (hv : values ≠ []) (hms : maxShift tts dt = .ok ms) (hred : RedOK red tts.length) :
    calcSurfaceEnergy (values.map (α * ·)) dt tts nodal red stt trim start
      = (calcSurfaceEnergy values dt tts nodal red stt trim start).map (Out.map ((α * |α|) * ·)) :=
  calcSurfaceEnergy_smul_general α values dt tts nodal red ms stt trim start hdt hv hms hred

example : calcCumAbsSurfaceEnergy ([1, 2, -1, 3].map ((-3 : ℚ) * ·)) (1/2) [1/2, 1/8] false (.scalar 1 (1/2)) (1/2) true true
    = (calcCumAbsSurfaceEnergy [1, 2, -1, 3] (1/2) [1/2, 1/8] false (.scalar 1 (1/2)) (1/2) true true).map
        (Out.map (((-3 : ℚ) ^ 2) * ·)) ∧
    calcCumAbsSurfaceEnergy [1, 2, -1, 3] (1/2) [1/2, 1/8] false (.scalar 1 (1/2)) (1/2) true true
      = .ok (.rows [[0, 9/32, 81/128, 2], [0, 0, 225/512, 529/512]]) := by
  decide +kernel

/-! ## C19.d — rows of a batch -/

/-- **C19.d (common length)** with `ms` the batch `max_shift` and `msᵢ` the `max_shift` of travel time `tᵢ` alone
(`msᵢ ≤ ms`), the untrimmed batch row of `tᵢ` restricted to the single result's length `npts + msᵢ` *is* the
single-travel-time result … -/
theorem batch_row_prefix (values : List ℚ) (dt : ℚ) (tts : List ℚ) (nodal : Bool) (u d : ℚ) (ms msi : ℕ) (t : ℚ)
    (ht : t ∈ tts) (hms : maxShift tts dt = .ok ms) (hmsi : maxShift [t] dt = .ok msi) :
    msi ≤ ms ∧
    (energyRow values dt ms (2 * t / dt) nodal u d).take (values.length + msi)
      = energyRow values dt msi (2 * t / dt) nodal u d := by
  have hle := maxShift_single_le tts dt ms msi t ht hms hmsi
  exact ⟨hle, energyRow_take values dt ms msi hle _ nodal u d⟩

example : maxShift [1/2, 3/2] (1/2) = .ok 6 ∧ maxShift [1/2] (1/2) = .ok 2 ∧
    (energyRow [1, 2, -1, 3] (1/2) 6 2 true 1 1).take (4 + 2) = energyRow [1, 2, -1, 3] (1/2) 2 2 true 1 1 := by
  decide +kernel

/-- … hence, trimmed to `npts` (`trim=True, start=False`), row `i` of a batch equals the single-travel-time result
(called with the scalar reductions of that row): the batch is `squeeze` of the rows `specRows.map (take npts)`, the
single call returns `(energyRow … msᵢ …).take npts`, and the two row expressions coincide. -/
theorem batch_row_eq_single_trimmed (values : List ℚ) (dt : ℚ) (tts : List ℚ) (nodal : Bool) (red : Red)
    (ms msi : ℕ) (i : ℕ) (stt : ℚ) (hdt : dt ≠ 0) (hv : values ≠ [])
    (hi : i < tts.length) (hms : maxShift tts dt = .ok ms) (hmsi : maxShift [tts.getD i 0] dt = .ok msi)
    (hred : RedOK red tts.length) :
    calcSurfaceEnergy values dt tts nodal red stt true false =
      squeeze tts.length ((specRows values dt tts nodal red ms).map (List.take values.length)) ∧
    ((specRows values dt tts nodal red ms).map (List.take values.length))[i]? =
      some ((energyRow values dt ms (2 * tts.getD i 0 / dt) nodal (upOf red i) (downOf red i)).take values.length) ∧
    calcSurfaceEnergy values dt [tts.getD i 0] nodal (.scalar (upOf red i) (downOf red i)) stt true false =
      .ok (.row ((energyRow values dt ms (2 * tts.getD i 0 / dt) nodal (upOf red i) (downOf red i)).take
        values.length)) := by
  refine ⟨?_, ?_, ?_⟩
  · rw [(surface_energy_def values dt tts nodal red ms stt true false hdt hv hms hred).1,
      trimToLength_trim _ _ _ _ _ hdt (by simp) (by
        intro r hr
        rw [specRows_row_length _ _ _ _ _ _ r hr]; omega)]
    rfl
  · simp [specRows, hi]
  · rw [(surface_energy_def values dt [tts.getD i 0] nodal (.scalar (upOf red i) (downOf red i)) msi stt true false
        hdt hv hmsi trivial).1,
      specRows_scalar,
      trimToLength_trim _ _ _ _ _ hdt (by simp) (by
        intro r hr
        obtain ⟨t', _, rfl⟩ := List.mem_map.mp hr
        simp)]
    obtain ⟨hle, hp⟩ := batch_row_prefix values dt tts nodal (upOf red i) (downOf red i) ms msi (tts.getD i 0)
      (getD_mem tts i hi) hms hmsi
    have : (energyRow values dt msi (2 * tts.getD i 0 / dt) nodal (upOf red i) (downOf red i)).take values.length
        = (energyRow values dt ms (2 * tts.getD i 0 / dt) nodal (upOf red i) (downOf red i)).take values.length := by
      rw [← hp, List.take_take, min_eq_left (by omega)]
    simp only [List.map_cons, List.map_nil, this]
    rfl

example : calcSurfaceEnergy [1, 2, -1, 3] (1/2) [1/2, 3/2] true (.rows [1, 2] [1, 1/2]) 0 true false =
      .ok (.rows [[0, 9/32, 9/32, 1/8], [0, 9/8, 2, 9/2]]) ∧
    calcSurfaceEnergy [1, 2, -1, 3] (1/2) [3/2] true (.scalar 2 (1/2)) 0 true false = .ok (.row [0, 9/8, 2, 9/2]) := by
  decide +kernel

/-- **C19.d (`trim=True, start=True`)** also with `start=True` row `i` of a batch trimmed to `npts` equals the
single-travel-time result, provided the row's start index `sisᵢ = int(stt/dt) − int(ttᵢ/dt)` stays inside the single
result: `sisᵢ ≤ npts` and `−sisᵢ ≤ msᵢ` (both hold for `0 ≤ stt ≤ npts·dt`, `ttᵢ ≥ 0`; beyond `sisᵢ > npts` the code's
`values[i, :npts − sis]` becomes a Python negative index whose meaning depends on the padded width — NOTES §3.4).
If the batch call returns `out`, the single call returns row `i` of `out`. -/
theorem batch_row_eq_single_start_trimmed (values : List ℚ) (dt : ℚ) (tts : List ℚ) (nodal : Bool) (red : Red)
    (ms msi : ℕ) (i : ℕ) (stt : ℚ) (out : Out) (hdt : dt ≠ 0) (hv : values ≠ [])
    (hi : i < tts.length) (hms : maxShift tts dt = .ok ms) (hmsi : maxShift [tts.getD i 0] dt = .ok msi)
    (hred : RedOK red tts.length)
    (hs1 : truncZ (stt / dt) - truncZ (tts.getD i 0 / dt) ≤ (values.length : ℤ))
    (hs2 : -(truncZ (stt / dt) - truncZ (tts.getD i 0 / dt)) ≤ (msi : ℤ))
    (hb : calcSurfaceEnergy values dt tts nodal red stt true true = .ok out) :
    ∃ hl : out.rowsList.length = tts.length,
      calcSurfaceEnergy values dt [tts.getD i 0] nodal (.scalar (upOf red i) (downOf red i)) stt true true
        = .ok (.row (out.rowsList[i]'(by omega))) := by
  rw [(surface_energy_def values dt tts nodal red ms stt true true hdt hv hms hred).1] at hb
  cases ht : trimToLength (specRows values dt tts nodal red ms) values.length tts dt true true stt with
  | error e => rw [ht] at hb; cases hb
  | ok rows =>
    rw [ht] at hb
    have hsq : squeeze tts.length rows = .ok out := hb
    obtain ⟨hl, hrows⟩ := trimToLength_start_trim_rows _ _ _ _ _ _ ht
    have hout := squeeze_rowsList _ _ _ hl (by omega) hsq
    obtain ⟨row, hrow, htr⟩ := hrows i hi
    have hrow' : row = energyRow values dt ms (2 * tts.getD i 0 / dt) nodal (upOf red i) (downOf red i) := by
      simp only [specRows, List.getElem?_map, List.getElem?_range hi, Option.map_some] at hrow
      injection hrow with hrow; exact hrow.symm
    subst hrow'
    obtain ⟨hle, hp⟩ := batch_row_prefix values dt tts nodal (upOf red i) (downOf red i) ms msi (tts.getD i 0)
      (getD_mem tts i hi) hms hmsi
    refine ⟨by rw [hout]; exact hl, ?_⟩
    rw [(surface_energy_def values dt [tts.getD i 0] nodal (.scalar (upOf red i) (downOf red i)) msi stt true true
        hdt hv hmsi trivial).1, specRows_scalar]
    simp only [List.map_cons, List.map_nil, List.length_singleton]
    rw [trimToLength_single _ _ _ _ _ hdt, ← hp,
      trimRow_take _ _ _ _ (by simp; omega) hs1 hs2, htr]
    simp only [hout]
    rfl

example : calcSurfaceEnergy [1, 2, -1, 3] (1/2) [1/2, 3/2] true (.scalar 1 1) 1 true true =
      .ok (.rows [[0, 0, 9/32, 9/32], [9/32, 1/2, 9/8, 81/32]]) ∧
    calcSurfaceEnergy [1, 2, -1, 3] (1/2) [3/2] true (.scalar 1 1) 1 true true = .ok (.row [9/32, 1/2, 9/8, 81/32]) ∧
    truncZ ((1 : ℚ) / (1/2)) - truncZ ((3/2 : ℚ) / (1/2)) = -1 ∧ maxShift [3/2] (1/2) = .ok 6 := by
  decide +kernel

/-- **C19.d (tail, corrected)** past the end of the delayed record the energy row is constant: for `k ≥ npts` with
`k − s > npts − 1` (both the padded up-going wave and the delayed wave vanish at `k` and `k+1`),
`e[k+1] = e[k]`.  For an integer delay `s` this starts at `k = npts + s`, i.e. *one sample after* the end of the
single-travel-time result (length `npts + s`): the batch row is the single result, then one further value, then
constant (see the counterexample below for why "extended by its final value" is false). -/
theorem batch_row_tail_constant (values : List ℚ) (dt : ℚ) (ms : ℕ) (s : ℚ) (nodal : Bool) (u d : ℚ) (k : ℕ)
    (hv : values ≠ []) (hk : k + 1 < values.length + ms) (hkn : values.length ≤ k)
    (hks : ((values.length - 1 : ℕ) : ℚ) < (k : ℚ) - s) :
    (energyRow values dt ms s nodal u d)[k + 1]'(by simpa using hk) =
      (energyRow values dt ms s nodal u d)[k]'(by simp; omega) := by
  have hacc : ∀ j, k ≤ j → (hj : j < values.length + ms) →
      (accRow values ms s nodal u d)[j]'(by simpa using hj) = 0 := by
    intro j hkj hj
    have h := acc_row_entry values ms s nodal u d j hj
    rw [List.getElem?_eq_getElem (by simpa using hj)] at h
    injection h with h
    rw [h, getD_of_le _ _ (by omega)]
    have hjs : ((values.length - 1 : ℕ) : ℚ) < (j : ℚ) - s := by
      have : (k : ℚ) ≤ (j : ℚ) := by exact_mod_cast hkj
      linarith
    rw [interpUnit_right _ _ _ _ hv hjs]; ring
  simp only [energyRow, List.getElem_map]
  congr 1
  rw [cumtrapz_succ dt (accRow values ms s nodal u d) k (by simpa using hk),
    hacc (k + 1) (by omega) hk, hacc k (le_refl k) (by omega)]
  ring

example : (energyRow [1, 2, -1, 3] (1/2) 6 2 true 1 1)[(6 : ℕ) + 1]'(by decide +kernel) =
    (energyRow [1, 2, -1, 3] (1/2) 6 2 true 1 1)[(6 : ℕ)]'(by decide +kernel) ∧
    (energyRow [1, 2, -1, 3] (1/2) 6 2 true 1 1)[(6 : ℕ)]'(by decide +kernel) = -1/32 := by decide +kernel

/-- **C19.d, tail clause is false.** DESIGN states "for integer-sample delays the batch row is the single result
extended by its final value".  That is *not* what the code computes: the single-travel-time result stops at index
`npts + s − 1`, but the velocity changes once more at index `npts + s` (the trapezoid between the last delayed sample
and the first padded zero contributes `dt·(∓down_red·a[npts−1])/2`), and only then stays constant.
Kernel-checked counterexample (`a = [1,2,−1,3]`, `dt = 1/2`, `tt = 1/2` → `s = 2`, batch with `tt = 3/2`): the single
result ends with `1/8`, the batch row continues with `−1/32`. [Python agrees: 0.125 then −0.03125.] -/
example :
    calcSurfaceEnergy [1, 2, -1, 3] (1/2) [1/2] true (.scalar 1 1) 0 false false
      = .ok (.row [0, 9/32, 9/32, 1/8, 1/2, 1/8]) ∧
    calcSurfaceEnergy [1, 2, -1, 3] (1/2) [1/2, 3/2] true (.scalar 1 1) 0 false false
      = .ok (.rows [[0, 9/32, 9/32, 1/8, 1/2, 1/8, -1/32, -1/32, -1/32, -1/32],
                    [0, 9/32, 1/2, 9/8, 81/32, 81/32, 2, 25/32, 1/2, 1/8]]) := by
  decide +kernel

end EqsigVerif.Props.C19
