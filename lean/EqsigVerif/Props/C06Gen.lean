import EqsigVerif.Model.Frequency
import EqsigVerif.Gen.FreqGrid
import EqsigVerif.Lemmas.Cplx
import EqsigVerif.Lemmas.Frequency
import EqsigVerif.Lemmas.NpE
import EqsigVerif.Props.C06
/-!
# C06 — translator tie: the Fourier-spectrum code REGENERATED from the Python source is the hand model

`Gen/FreqGrid.lean` is regenerated on every run by `tools/py2lean_x_freq.py` from `eqsig/single.py` (`Signal.gen_fa_spectrum`,
`generate_fa_spectrum`, `fa_spectrum`, `fa_spectrum_abs`, `fa_freqs`), `eqsig/fns/frequency.py` (`generate_fa_spectrum`,
`calc_fa_spectrum`, `fas2values`) and `eqsig/im.py` (`max_fa_period`): every statement becomes one line of an `Except ErrKind`
`do` block, every call that can raise one `NpE.*` combinator (`Prelude/NpE.lean`).  The bridges below are *equalities for all
arguments, errors included* between the generated functions and the hand models of `Model/Frequency.lean` the C06 theorems talk
about; the consequence theorems restate C06 clauses about the generated code.
-/
set_option linter.unusedSectionVars false
set_option linter.unusedVariables false
namespace EqsigVerif.Props.C06
open EqsigVerif EqsigVerif.Cplx EqsigVerif.Wire

/-- `int(np.ceil(np.log2(n)))`: the translator's combinator is the model's `clog2`, with `OverflowError` at `n = 0` -/
theorem gen_ceil_log2 (n : ℕ) :
    NpE.ceilLog2 n = if n = 0 then .error .Other else .ok (Model.Frequency.clog2 n) := rfl

/-- unfolding set shared by the bridge proofs -/
macro "gen_unfold" : tactic =>
  `(tactic| simp only [Gen.FreqGrid.signalNFactor, Gen.FreqGrid.signalPoints, Gen.FreqGrid.signalGenFaSpectrum,
      Gen.FreqGrid.generateFaSpectrum, Gen.FreqGrid.calcFaSpectrum, Gen.FreqGrid.signalGenerateFaSpectrum,
      Gen.FreqGrid.signalFaSpectrum, Gen.FreqGrid.signalFaFreqs, Gen.FreqGrid.signalFaSpectrumAbs,
      Model.Frequency.signalGenFaSpectrum, Model.Frequency.generateFaSpectrum, Model.Frequency.calcFaSpectrum,
      Model.Frequency.nFactor, Model.Frequency.faCore, Model.Frequency.fasOf, Model.Frequency.freqsOf, Model.Frequency.points,
      Model.Frequency.nextPow2,
      gen_ceil_log2, NpE.fft, NpE.ifft, NpE.assertE, bind, Except.bind, pure, Except.pure, Except.map, NpE.length_dft_core,
      decide_true, if_true, if_false, ite_true, ite_false, reduceIte, reduceCtorEq])

section Core
variable {α β : Type} [Add β] [Mul β] [OfNat β 0] [Mul α] [Div α] [NatCast α] [CxLike α β]

/-! ## `Signal.gen_fa_spectrum` -/

/-- **bridge** `Signal.gen_fa_spectrum`, transform length (the local passed as `n=` to `np.fft.fft`): the model's rule `nFactor`,
for all arguments, errors included (explicit `n`, else `2 ** int(ceil(log2 npts) + p2_plus)`; `ValueError` of `np.fft.fft` for
`n = 0`, `OverflowError` of `int(-inf)` for an empty record) -/
theorem gen_signal_n_factor (tw : ℕ → ℕ → β) (v : List β) (dt : α) (p : ℕ) (n? : Option ℕ) :
    Gen.FreqGrid.signalNFactor tw v dt p n? = Model.Frequency.nFactor v.length p n? := by
  cases n? with
  | some n => by_cases hn : n = 0 <;> gen_unfold <;> simp [hn]
  | none => by_cases hv : v.length = 0 <;> gen_unfold <;> simp [hv]

/-- **C06.a for the generated code** default / `p2_plus = p` ⇒ `N = 2^p · nextPow2 npts` (least power of two `≥ npts`, times `2^p`);
explicit `n ≥ 1` ⇒ `N = n`; `n = 0` ⇒ `ValueError` -/
theorem gen_n_factor_spec (tw : ℕ → ℕ → β) (v : List β) (dt : α) (p : ℕ) (hn : 1 ≤ v.length) :
    Gen.FreqGrid.signalNFactor tw v dt p none = .ok (2 ^ p * Model.Frequency.nextPow2 v.length) ∧
    (∀ n, 1 ≤ n → Gen.FreqGrid.signalNFactor tw v dt p (some n) = .ok n) ∧
    Gen.FreqGrid.signalNFactor tw v dt p (some 0) = .error .ValueError := by
  simp only [gen_signal_n_factor]
  exact nFactor_spec v.length p hn

/-- `Signal.gen_fa_spectrum`, local `points = int(n_factor / 2)`: the model's `points` of the model's `nFactor`, errors included -/
theorem gen_signal_points (tw : ℕ → ℕ → β) (v : List β) (dt : α) (p : ℕ) (n? : Option ℕ) :
    Gen.FreqGrid.signalPoints tw v dt p n? = (Model.Frequency.nFactor v.length p n?).map Model.Frequency.points := by
  cases n? with
  | some n => by_cases hn : n = 0 <;> gen_unfold <;> simp [hn]
  | none => by_cases hv : v.length = 0 <;> gen_unfold <;> simp [hv]

/-- **bridge** `Signal.gen_fa_spectrum(p2_plus, n)`: generated = model, for all arguments, errors included -/
theorem gen_signal_gen_fa_spectrum (tw : ℕ → ℕ → β) (v : List β) (dt : α) (p : ℕ) (n? : Option ℕ) :
    Gen.FreqGrid.signalGenFaSpectrum tw v dt p n? = Model.Frequency.signalGenFaSpectrum tw v dt p n? := by
  cases n? with
  | some n => by_cases hn : n = 0 <;> gen_unfold <;> simp [hn]
  | none => by_cases hv : v.length = 0 <;> gen_unfold <;> simp [hv]

/-- **bridge** `Signal.generate_fa_spectrum()`: the model with the defaults READ FROM THE SIGNATURE of `gen_fa_spectrum` -/
theorem gen_signal_generate_fa_spectrum (tw : ℕ → ℕ → β) (v : List β) (dt : α) :
    Gen.FreqGrid.signalGenerateFaSpectrum tw v dt = Model.Frequency.signalGenFaSpectrum tw v dt := by
  unfold Gen.FreqGrid.signalGenerateFaSpectrum
  exact gen_signal_gen_fa_spectrum tw v dt 0 none

/-- **bridge** `Signal.fa_spectrum` / `Signal.fa_freqs` (first access): the components of the model with default arguments -/
theorem gen_signal_fa_properties (tw : ℕ → ℕ → β) (v : List β) (dt : α) :
    Gen.FreqGrid.signalFaSpectrum tw v dt = (Model.Frequency.signalGenFaSpectrum tw v dt).map Prod.fst ∧
    Gen.FreqGrid.signalFaFreqs tw v dt = (Model.Frequency.signalGenFaSpectrum tw v dt).map Prod.snd := by
  constructor
  · unfold Gen.FreqGrid.signalFaSpectrum
    rw [gen_signal_generate_fa_spectrum]
    cases Model.Frequency.signalGenFaSpectrum tw v dt <;> rfl
  · unfold Gen.FreqGrid.signalFaFreqs
    rw [gen_signal_gen_fa_spectrum]
    cases Model.Frequency.signalGenFaSpectrum tw v dt <;> rfl

/-- **bridge** `Signal.fa_spectrum_abs` (first access): `abs` of the first component -/
theorem gen_signal_fa_spectrum_abs (cabs : β → α) (tw : ℕ → ℕ → β) (v : List β) (dt : α) :
    Gen.FreqGrid.signalFaSpectrumAbs cabs tw v dt =
      (Model.Frequency.signalGenFaSpectrum tw v dt).map (fun o => o.1.map cabs) := by
  unfold Gen.FreqGrid.signalFaSpectrumAbs
  rw [gen_signal_generate_fa_spectrum]
  cases Model.Frequency.signalGenFaSpectrum tw v dt <;> rfl

/-! ## `eqsig.fns.frequency.generate_fa_spectrum`, `calc_fa_spectrum` -/

/-- **bridge** `generate_fa_spectrum(sig, n_pad)`: generated = model (the `assert len(fa) == n_factor` never fires, `len(fa)` in the
grid is the transform length) -/
theorem gen_generate_fa_spectrum (tw : ℕ → ℕ → β) (v : List β) (dt : α) (nPad : Bool) :
    Gen.FreqGrid.generateFaSpectrum tw v dt nPad = Model.Frequency.generateFaSpectrum tw v dt nPad := by
  cases nPad <;> by_cases hv : v.length = 0 <;> gen_unfold <;> simp [hv, NpE.length_dft_core]

/-- the default `n_pad=True` read from the signature -/
theorem gen_generate_fa_spectrum_default : Gen.FreqGrid.generateFaSpectrumDefaultNPad = true := rfl

/-- **bridge** `calc_fa_spectrum(sig, n, p2_plus)`: generated = model for all four given/omitted combinations -/
theorem gen_calc_fa_spectrum (tw : ℕ → ℕ → β) (v : List β) (dt : α) (n? p? : Option ℕ) :
    Gen.FreqGrid.calcFaSpectrum tw v dt n? p? = Model.Frequency.calcFaSpectrum tw v dt n? p? := by
  cases n? with
  | some n => cases p? <;> by_cases hn : n = 0 <;> gen_unfold <;> simp [hn, NpE.length_dft_core]
  | none => cases p? <;> by_cases hv : v.length = 0 <;> gen_unfold <;> simp [hv, NpE.length_dft_core]

/-- the defaults `n=None, p2_plus=None` read from the signature -/
theorem gen_calc_fa_spectrum_defaults : Gen.FreqGrid.calcFaSpectrumDefaults = (none, none) := rfl

/-! ## consequences: C06 clauses about the generated code -/

/-- **C06.d for the generated code** every generated entry point is the common core at its transform length -/
theorem gen_entry_points_core (tw : ℕ → ℕ → β) (v : List β) (dt : α) (hv : 1 ≤ v.length) :
    (∀ p n? N, Model.Frequency.nFactor v.length p n? = .ok N →
        Gen.FreqGrid.signalGenFaSpectrum tw v dt p n? = .ok (Model.Frequency.faCore tw v dt N)) ∧
    Gen.FreqGrid.generateFaSpectrum tw v dt true = .ok (Model.Frequency.faCore tw v dt (Model.Frequency.nextPow2 v.length)) ∧
    Gen.FreqGrid.generateFaSpectrum tw v dt false = .ok (Model.Frequency.faCore tw v dt v.length) ∧
    (∀ n p?, 1 ≤ n → Gen.FreqGrid.calcFaSpectrum tw v dt (some n) p? = .ok (Model.Frequency.faCore tw v dt n)) ∧
    (∀ p, Gen.FreqGrid.calcFaSpectrum tw v dt none (some p) =
        .ok (Model.Frequency.faCore tw v dt (2 ^ p * Model.Frequency.nextPow2 v.length))) ∧
    Gen.FreqGrid.calcFaSpectrum tw v dt none none = .ok (Model.Frequency.faCore tw v dt v.length) := by
  simp only [gen_signal_gen_fa_spectrum, gen_generate_fa_spectrum, gen_calc_fa_spectrum]
  exact entry_points_core tw v dt hv

/-- **C06.d for the generated code** object-level and array-level generated functions agree, errors included -/
theorem gen_object_eq_array (tw : ℕ → ℕ → β) (v : List β) (dt : α) :
    (∀ p, Gen.FreqGrid.signalGenFaSpectrum tw v dt p none = Gen.FreqGrid.calcFaSpectrum tw v dt none (some p)) ∧
    (∀ p n p?, Gen.FreqGrid.signalGenFaSpectrum tw v dt p (some n) = Gen.FreqGrid.calcFaSpectrum tw v dt (some n) p?) ∧
    Gen.FreqGrid.signalGenerateFaSpectrum tw v dt = Gen.FreqGrid.generateFaSpectrum tw v dt Gen.FreqGrid.generateFaSpectrumDefaultNPad ∧
    Gen.FreqGrid.generateFaSpectrum tw v dt false =
      Gen.FreqGrid.calcFaSpectrum tw v dt Gen.FreqGrid.calcFaSpectrumDefaults.1 Gen.FreqGrid.calcFaSpectrumDefaults.2 := by
  simp only [gen_signal_gen_fa_spectrum, gen_generate_fa_spectrum, gen_calc_fa_spectrum, gen_signal_generate_fa_spectrum,
    gen_generate_fa_spectrum_default, gen_calc_fa_spectrum_defaults]
  exact object_eq_array tw v dt

end Core

section Field
variable {α β : Type} [Field α] [CommRing β] [CxLike α β]

/-- **C06.c for the generated code** the grid stored by the generated `Signal.gen_fa_spectrum(p2_plus, n)`:
`⌊N/2⌋` bins, `freqs[k] = k/(N·dt)`, `N` the transform length -/
theorem gen_freq_grid_signal (tw : ℕ → ℕ → β) (v : List β) (dt : α) (p : ℕ) (n? : Option ℕ) (N : ℕ)
    (hN : Model.Frequency.nFactor v.length p n? = .ok N) :
    ∃ fas freqs, Gen.FreqGrid.signalGenFaSpectrum tw v dt p n? = .ok (fas, freqs) ∧
      fas.length = N / 2 ∧ freqs.length = N / 2 ∧
      ∀ k (hk : k < freqs.length), freqs[k] = (k : α) / ((N : α) * dt) := by
  rw [gen_signal_gen_fa_spectrum]
  exact freq_grid_signal tw v dt p n? N hN

/-- **C06.e for the generated code** appending zeros that keep the padded length keeps the generated `Signal.fa_spectrum` -/
theorem gen_signal_fas_trailing_zeros (tw : ℕ → ℕ → β) (x : List β) (dt : α) (m : ℕ) (hx : 1 ≤ x.length)
    (h : x.length + m ≤ Model.Frequency.nextPow2 x.length) :
    Gen.FreqGrid.signalFaSpectrum tw (x ++ List.replicate m 0) dt = Gen.FreqGrid.signalFaSpectrum tw x dt := by
  rw [(gen_signal_fa_properties tw _ dt).1, (gen_signal_fa_properties tw x dt).1,
    signal_fas_trailing_zeros tw x dt m hx h]

end Field

section OverC
open Complex Finset

/-- **C06.b for the generated code** (with **FftIsDft**) the generated `Signal.fa_spectrum` (first access, default padding) of a
record with `npts ≥ 1` has `N/2` bins, `N = nextPow2 npts`, and bin `k` is `dt · Σ_{j<N} x_j e^{-2πi jk/N}` -/
theorem gen_signal_fas_spec (x : List ℂ) (dt : ℝ) (hx : 1 ≤ x.length) :
    ∃ fas, Gen.FreqGrid.signalFaSpectrum twC x dt = .ok fas ∧
      fas.length = Model.Frequency.nextPow2 x.length / 2 ∧
      ∀ k (hk : k < fas.length), fas[k] = dt * ∑ j ∈ range (Model.Frequency.nextPow2 x.length),
        x.getD j 0 * cexp (-(2 * Real.pi * I * j * k / (Model.Frequency.nextPow2 x.length : ℕ))) := by
  obtain ⟨fas, freqs, h1, h2, h3⟩ := signal_fas_spec x dt hx
  refine ⟨fas, ?_, h2, h3⟩
  rw [(gen_signal_fa_properties twC x dt).1, h1]
  rfl

end OverC

/-! ## `fas2values` -/
section Inverse
variable {α β : Type} [Add β] [Mul β] [Div β] [OfNat β 0] [NatCast α] [CxLike α β]

/-- **bridge** `fas2values`, the array `a` after the two slice stores (`a = zeros(2L); a[1:n//2] = fas[1:];
a[n//2+1:] = flip(conj(fas[1:]))`) is the model's Hermitian completion, for every non-empty `fas` -/
theorem gen_fas2values_array (fas : List β) (dt : α) (h : fas ≠ []) :
    Gen.FreqGrid.fas2valuesArray fas dt = .ok (Model.Frequency.hermitian fas) := by
  obtain ⟨x, xs, rfl⟩ := List.exists_cons_of_ne_nil h
  simp only [Gen.FreqGrid.fas2valuesArray, List.drop_succ_cons, List.drop_zero, NpE.hermitian_slices, pure, Except.pure,
    Model.Frequency.hermitian, List.tail_cons]

/-- **bridge** `fas2values(fas, dt)`: generated = model for all arguments (`ValueError` of `np.fft.ifft` for an empty `fas` included) -/
theorem gen_fas2values (tw : ℕ → ℕ → β) (fas : List β) (dt : α) :
    Gen.FreqGrid.fas2values tw fas dt = Model.Frequency.fas2values tw fas dt := by
  cases fas with
  | nil =>
    simp [Gen.FreqGrid.fas2values, Model.Frequency.fas2values, NpE.ifft, NpE.setSlice, NpE.zeros, NpE.flip, bind, Except.bind]
  | cons x xs =>
    simp only [Gen.FreqGrid.fas2values, List.drop_succ_cons, List.drop_zero, NpE.hermitian_slices, Model.Frequency.fas2values,
      Model.Frequency.hermitian, List.tail_cons, NpE.ifft, List.length_map, NpE.length_hermitian, bind, Except.bind, pure,
      Except.pure]
    simp

/-- **C06.g (length clause) for the generated code**: `2·len(fas)` samples; raises (`ValueError`) iff `fas` is empty -/
theorem gen_fas2values_length (tw : ℕ → ℕ → β) (fas : List β) (dt : α) :
    (fas = [] → Gen.FreqGrid.fas2values tw fas dt = .error .ValueError) ∧
    (fas ≠ [] → ∃ s, Gen.FreqGrid.fas2values tw fas dt = .ok s ∧ s.length = 2 * fas.length) := by
  rw [gen_fas2values]
  exact fas2values_length tw fas dt

end Inverse

/-! ## `max_fa_period` -/
section MaxPeriod
variable {α β : Type} [Div α] [OfNat α 0] [OfNat α 1] [LT α] [DecidableLT α] [BEq α] [CxLike α β]

/-- **bridge** `max_fa_period`, local `max_index`: `np.argmax(np.abs(fa_spectrum))` is the model's arg-max of `|·|²` for every
modulus function `cabs` that orders complex numbers as `|·|²` does (`np.abs = sqrt ∘ normSq`) -/
theorem gen_max_fa_index (cabs : β → α)
    (hc : ∀ z w : β, cabs z < cabs w ↔ (CxLike.normSq z : α) < CxLike.normSq w) (fas : List β) (freqs : List α) :
    Gen.FreqGrid.maxFaIndex cabs fas freqs =
      if fas.length = 0 then .error .ValueError else .ok (Np.argmax (fas.map (CxLike.normSq : β → α))) := by
  simp only [Gen.FreqGrid.maxFaIndex, NpE.argmaxE, List.length_map]
  split
  · rfl
  · rw [NpE.argmax_map_congr cabs CxLike.normSq hc]

/-- the generated `max_fa_period` is: index, `fa_frequencies[index]` (`IndexError` outside), `1 / f` -/
theorem gen_max_fa_period_eq (cabs : β → α) (fas : List β) (freqs : List α) :
    Gen.FreqGrid.maxFaPeriod cabs fas freqs =
      (Gen.FreqGrid.maxFaIndex cabs fas freqs).bind (fun i => (NpE.getE freqs i).bind (fun f => .ok (1 / f))) := by
  simp only [Gen.FreqGrid.maxFaPeriod, Gen.FreqGrid.maxFaIndex, bind, Except.bind, pure, Except.pure]

/-- **bridge** `max_fa_period`: the model is the generated index and lookup, followed by the model's convention for the value
(`ok none` for NumPy's `inf = 1./0.`, else `1 / f`) -/
theorem gen_max_fa_period (cabs : β → α)
    (hc : ∀ z w : β, cabs z < cabs w ↔ (CxLike.normSq z : α) < CxLike.normSq w) (fas : List β) (freqs : List α) :
    Model.Frequency.maxFaPeriod fas freqs =
      (Gen.FreqGrid.maxFaIndex cabs fas freqs).bind (fun i => (NpE.getE freqs i).bind (fun f =>
        if f == 0 then .ok none else .ok (some (1 / f)))) := by
  rw [gen_max_fa_index cabs hc]
  unfold Model.Frequency.maxFaPeriod
  by_cases h : fas.length = 0
  · simp only [h, if_true]; rfl
  · simp only [h, if_false, Except.bind, NpE.getE]
    cases freqs[Np.argmax (fas.map (CxLike.normSq : β → α))]? <;> rfl

/-- whenever the model reports a finite period `T`, the generated function returns `T` -/
theorem gen_max_fa_period_some (cabs : β → α)
    (hc : ∀ z w : β, cabs z < cabs w ↔ (CxLike.normSq z : α) < CxLike.normSq w) (fas : List β) (freqs : List α) (T : α)
    (h : Model.Frequency.maxFaPeriod fas freqs = .ok (some T)) :
    Gen.FreqGrid.maxFaPeriod cabs fas freqs = .ok T := by
  rw [gen_max_fa_period cabs hc] at h
  rw [gen_max_fa_period_eq]
  cases hi : Gen.FreqGrid.maxFaIndex cabs fas freqs with
  | error e => rw [hi] at h; cases h
  | ok i =>
    rw [hi] at h
    simp only [Except.bind] at h ⊢
    cases hf : NpE.getE freqs i with
    | error e => rw [hf] at h; cases h
    | ok f =>
      rw [hf] at h
      simp only [] at h ⊢
      split at h
      · cases h
      · cases h; rfl

/-- model and generated function raise the same exceptions -/
theorem gen_max_fa_period_error (cabs : β → α)
    (hc : ∀ z w : β, cabs z < cabs w ↔ (CxLike.normSq z : α) < CxLike.normSq w) (fas : List β) (freqs : List α) (e : ErrKind) :
    Model.Frequency.maxFaPeriod fas freqs = .error e ↔ Gen.FreqGrid.maxFaPeriod cabs fas freqs = .error e := by
  rw [gen_max_fa_period cabs hc, gen_max_fa_period_eq]
  cases Gen.FreqGrid.maxFaIndex cabs fas freqs with
  | error e' => simp [Except.bind]
  | ok i =>
    simp only [Except.bind]
    cases NpE.getE freqs i with
    | error e' => simp
    | ok f => simp only []; split <;> simp

end MaxPeriod

section MaxPeriodSpec
variable {α β : Type} [Field α] [LinearOrder α] [IsStrictOrderedRing α] [CxLike α β]

/-- **C06.h for the generated code** the generated `max_fa_period` returns `1/freqs[i]` where `i` is the FIRST bin of largest
amplitude (amplitudes compared through `|·|²`), for every modulus function ordering like `|·|²` -/
theorem gen_max_fa_period_spec (cabs : β → α)
    (hc : ∀ z w : β, cabs z < cabs w ↔ (CxLike.normSq z : α) < CxLike.normSq w) (fas : List β) (freqs : List α) (T : α)
    (h : Gen.FreqGrid.maxFaPeriod cabs fas freqs = .ok T) :
    ∃ i f, ∃ hi : i < fas.length, freqs[i]? = some f ∧
      (∀ j (hj : j < fas.length), CxLike.normSq fas[j] ≤ (CxLike.normSq fas[i] : α)) ∧
      (∀ j (hj : j < i), CxLike.normSq (fas[j]'(by omega)) < (CxLike.normSq fas[i] : α)) ∧ T = 1 / f := by
  rw [gen_max_fa_period_eq, gen_max_fa_index cabs hc] at h
  by_cases h0 : fas.length = 0
  · simp [h0, Except.bind] at h
  · simp only [h0, if_false, Except.bind, NpE.getE] at h
    have hne : fas.map (CxLike.normSq : β → α) ≠ [] := by
      intro hcn; apply h0; simpa using congrArg List.length hcn
    obtain ⟨v, hv, hall, hpre⟩ := Model.Frequency.argmax_spec (fas.map (CxLike.normSq : β → α)) hne
    set i := Np.argmax (fas.map (CxLike.normSq : β → α)) with hi_def
    have hi : i < fas.length := by
      have := (List.getElem?_eq_some_iff.mp hv).1
      simpa using this
    have hvi : v = CxLike.normSq fas[i] := by
      have := (List.getElem?_eq_some_iff.mp hv).2
      simpa using this.symm
    cases hf : freqs[i]? with
    | none => simp [hf] at h
    | some f =>
      simp only [hf, Except.ok.injEq] at h
      refine ⟨i, f, hi, hf, ?_, ?_, h.symm⟩
      · intro j hj
        rw [← hvi]
        exact hall _ (List.mem_map.mpr ⟨fas[j], List.getElem_mem hj, rfl⟩)
      · intro j hj
        rw [← hvi]
        exact hpre j hj _ (by simp [List.getElem?_eq_getElem (show j < fas.length by omega)])

end MaxPeriodSpec

/-! ## concrete runs of every generated definition (kernel-evaluated) -/
section Examples

/-- exact twiddles for `N ∣ 4` -/
private def twQ4 : ℕ → ℕ → Cx ℚ := fun N m => (twExact? N m).getD ⟨0, 0⟩
private def v3 : List (Cx ℚ) := [⟨1, 0⟩, ⟨2, 0⟩, ⟨3, 0⟩]
private def f2 : List (Cx ℚ) := [⟨3, 0⟩, ⟨-1, -1⟩]

example : Gen.FreqGrid.signalNFactor twQ4 v3 (1 : ℚ) 0 none = .ok 4 ∧ Gen.FreqGrid.signalNFactor twQ4 v3 (1 : ℚ) 2 (some 2) = .ok 2 := by
  decide +kernel
example : Gen.FreqGrid.signalPoints twQ4 v3 (1 : ℚ) 0 none = .ok 2 := by decide +kernel
example : Gen.FreqGrid.signalGenFaSpectrum twQ4 v3 (1/2 : ℚ) 0 none = .ok (f2, [0, 1/2]) := by decide +kernel
example : Gen.FreqGrid.signalGenFaSpectrum twQ4 v3 (1/2 : ℚ) 0 (some 0) = .error .ValueError ∧
    Gen.FreqGrid.signalGenFaSpectrum twQ4 ([] : List (Cx ℚ)) (1/2 : ℚ) 0 none = .error .Other := by decide +kernel
example : Gen.FreqGrid.signalGenerateFaSpectrum twQ4 v3 (1/2 : ℚ) = .ok (f2, [0, 1/2]) := by decide +kernel
example : Gen.FreqGrid.signalFaSpectrum twQ4 v3 (1/2 : ℚ) = .ok f2 ∧
    Gen.FreqGrid.signalFaFreqs twQ4 v3 (1/2 : ℚ) = .ok [0, 1/2] ∧
    Gen.FreqGrid.signalFaSpectrumAbs Cx.normSq twQ4 v3 (1/2 : ℚ) = .ok [9, 2] := by decide +kernel
example : Gen.FreqGrid.generateFaSpectrum twQ4 v3 (1/2 : ℚ) true = .ok (f2, [0, 1/2]) ∧
    Gen.FreqGrid.generateFaSpectrum twQ4 [⟨1, 0⟩, ⟨2, 0⟩] (1/2 : ℚ) false = .ok ([⟨3/2, 0⟩], [0]) := by decide +kernel
example : Gen.FreqGrid.calcFaSpectrum twQ4 v3 (1/2 : ℚ) (some 2) none = .ok ([⟨3/2, 0⟩], [0]) ∧
    Gen.FreqGrid.calcFaSpectrum twQ4 v3 (1/2 : ℚ) none (some 0) = .ok (f2, [0, 1/2]) := by decide +kernel
example : Gen.FreqGrid.fas2valuesArray f2 (1/2 : ℚ) = .ok [⟨0, 0⟩, ⟨-1, -1⟩, ⟨0, 0⟩, ⟨-1, 1⟩] := by decide +kernel
example : Gen.FreqGrid.fas2values twQ4 f2 (1/2 : ℚ) = .ok [⟨-1, 0⟩, ⟨1, 0⟩, ⟨1, 0⟩, ⟨-1, 0⟩] ∧
    Gen.FreqGrid.fas2values twQ4 ([] : List (Cx ℚ)) (1/2 : ℚ) = .error .ValueError := by decide +kernel
example : Gen.FreqGrid.maxFaIndex Cx.normSq ([⟨3, 0⟩, ⟨-1, -4⟩, ⟨2, 0⟩] : List (Cx ℚ)) [0, 1/2, 1] = .ok 1 ∧
    Gen.FreqGrid.maxFaPeriod Cx.normSq ([⟨3, 0⟩, ⟨-1, -4⟩, ⟨2, 0⟩] : List (Cx ℚ)) [0, 1/2, 1] = .ok 2 ∧
    Gen.FreqGrid.maxFaPeriod Cx.normSq ([⟨3, 0⟩, ⟨-1, -4⟩, ⟨2, 0⟩] : List (Cx ℚ)) [0] = .error .IndexError := by decide +kernel

end Examples

end EqsigVerif.Props.C06
